#!/usr/bin/env python3
"""Rewrites the as-built table in DESIGN.md from harness/*/check.json, c41.json and evidence/*.json."""
import json, glob, os, re, sys
sys.path.insert(0, os.path.dirname(os.path.abspath(__file__)))
from checks_table import CHECKS
rows = ["| id | package | extra tags | -race | quick wall (s) | evaluations (quick) | distinct non-trivial |", "|---|---|---|---|---|---|---|"]
for pid in sorted(CHECKS):
    c = CHECKS[pid]
    ev = {}
    p = os.path.join("evidence", pid + ".json")
    if os.path.exists(p):
        ev = json.load(open(p))
    cov = ev.get("coverage", {})
    pkg = c.get("pkg", "(driver: c41_race + workloads)")
    rows.append(f"| {pid} | `{pkg}` | {','.join(c.get('tags', [])) or '-'} | {'yes' if c.get('race') or c.get('driver') == 'c41' else 'no'} | {int(ev.get('wall_s', 0))} | {cov.get('evaluations', '?')} | {cov.get('distinct_nontrivial', '?')} |")
s = open("DESIGN.md").read()
m = re.search(r"\| id \| package \| extra tags \|.*?\n\n", s, re.S)
assert m, "table not found"
s = s[:m.start()] + "\n".join(rows) + "\n\n" + s[m.end():]
s = re.sub(r"As-built summary \([^)]*\):", "As-built summary (quick tier, from the committed evidence files: tier and seed are in each file):", s)
open("DESIGN.md", "w").write(s)
print("table rewritten,", len(rows) - 2, "rows")
