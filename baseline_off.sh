#!/bin/bash
# Runs the repository's pinned test suite with the verif build tag OFF (no -tags),
# module by module, exactly like /root/.vp/BASELINE.json's cmd. go test -json goes to stdout.
export GOFLAGS=-mod=mod GOPROXY=off
unset GOSUMDB
MODS=". ./pkg/kadm ./pkg/kfake ./pkg/kmsg ./pkg/sasl/kerberos ./pkg/sr ./plugin/kgmetrics ./plugin/klogr ./plugin/klogrus ./plugin/kotel ./plugin/kphuslog ./plugin/kprom ./plugin/kslog ./plugin/kvictoria ./plugin/kzap ./plugin/kzerolog"
rc=0
for m in $MODS; do
  (cd /repo/$m && go test -mod=mod -json -vet=off -count=1 -timeout 25m ./...) || rc=1
done
exit $rc
