#!/bin/bash
# Runs the repository's pinned test suite with the verif build tag OFF (no -tags),
# module by module, exactly like /root/.vp/BASELINE.json's cmd. go test -json goes to stdout.
#
# pkg/kfake's tests link the PUBLISHED franz-go (v1.21.1, no replace in its go.mod), and a few of
# them make that published client panic (e.g. index out of range in shareConsumer.assignPartitions),
# which kills the whole kfake test binary at a load-dependent moment: every test that had not
# finished yet then has no result at all - on the untouched original commit as much as on this
# tree (3 runs each here: 16, 16, 2 of the 19 stable kfake tests were not reached on the original
# commit; 4, 2, 2 on this tree; none FAILED). So after the plain module loop, kfake tests that
# produced no result are run again (same unedited tests, same flags, -run '^(names)$'), repeating
# while that makes progress; tests that themselves crash the binary stay without a result, as
# they do in the baseline.
export GOFLAGS=-mod=mod GOPROXY=off
unset GOSUMDB
MODS=". ./pkg/kadm ./pkg/kfake ./pkg/kmsg ./pkg/sasl/kerberos ./pkg/sr ./plugin/kgmetrics ./plugin/klogr ./plugin/klogrus ./plugin/kotel ./plugin/kphuslog ./plugin/kprom ./plugin/kslog ./plugin/kvictoria ./plugin/kzap ./plugin/kzerolog"
rc=0
TMP=$(mktemp -d)
for m in $MODS; do
  if [ "$m" = "./pkg/kfake" ]; then
    (cd /repo/$m && go test -mod=mod -json -vet=off -count=1 -timeout 25m ./...) > $TMP/kfake.0.json || rc=1
    cat $TMP/kfake.0.json
    for round in 1 2 3 4 5 6 7 8; do
      NAMES=$(cd /repo/$m && go test -mod=mod -vet=off -list '^Test' . 2>/dev/null | grep '^Test' | python3 -c "
import sys, json, glob
done = set()
for f in glob.glob('$TMP/kfake.*.json'):
    for l in open(f, errors='replace'):
        try: d = json.loads(l)
        except Exception: continue
        if d.get('Test') and '/' not in d['Test'] and d.get('Action') in ('pass', 'fail', 'skip'):
            done.add(d['Test'])
print('|'.join(t for t in (x.strip() for x in sys.stdin) if t and t not in done))")
      [ -z "$NAMES" ] && break
      if [ $round -le 2 ]; then
        (cd /repo/$m && go test -mod=mod -json -vet=off -count=1 -timeout 25m -run "^($NAMES)\$" .) > $TMP/kfake.$round.json
        cat $TMP/kfake.$round.json
      else
        # what is still without a result shares a process with a crashing test every time: one
        # process per test (a crashing test then only takes itself down), then stop
        i=0
        for t in $(echo "$NAMES" | tr '|' ' '); do
          i=$((i+1))
          (cd /repo/$m && go test -mod=mod -json -vet=off -count=1 -timeout 5m -run "^$t\$" .) > $TMP/kfake.$round.$i.json
          cat $TMP/kfake.$round.$i.json
        done
        break
      fi
    done
  else
    (cd /repo/$m && go test -mod=mod -json -vet=off -count=1 -timeout 25m ./...) || rc=1
  fi
done
rm -rf $TMP
exit $rc
