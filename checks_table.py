# Per-property check configuration for ./check and gen_manifest.py.
# pkg: Go test package under harness/; tags: extra build tags (verif is always on);
# race: build with the race detector; timeouts in seconds (outer wall-clock watchdog => inconclusive).
CHECKS = {
    "C17": {
        "pkg": "c17_kbin", "timeout_quick": 600, "timeout_thorough": 3600,
        "technique": "reference-model monitor over enumerated and random values (differential oracle)",
        "level_text": "exploration: pkg/kbin's encoders, length functions, decoders and Reader are observed against reference LEB128/zig-zag/big-endian implementations over boundary values, all 1-6 byte control-bit structures, every strict prefix of valid encodings, millions of random values; the thorough tier enumerates every uint32. The private kmsg copy is compared with the public file on the current tree.",
        "level_note": "Trusted: the reference encoders in harness/c17_kbin. 64-bit values are sampled, not enumerated.",
    },
}

# Properties not claimed, with the reason.
NOT_APPLICABLE = {
}

# Workloads the C41 (data race) check runs under -race; each prints C41OBS lines.
C41_WORKLOADS = [
]
