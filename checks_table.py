# Per-property check configuration for ./check.
# pkg: Go test package under harness/; tags: extra build tags (verif is always on);
# race: build with the race detector; timeouts in seconds (outer wall-clock watchdog => inconclusive).
CHECKS = {
    "C17": {"pkg": "c17_kbin", "timeout_quick": 600, "timeout_thorough": 3600},
}

# Workloads the C41 (data race) check runs under -race; each prints C41OBS lines.
C41_WORKLOADS = [
]
