# Check configuration: every harness/<pkg>/check.json maps property ids to their config
# ({"Cnn": {"pkg":..., "tags":[...], "race":bool, "timeout_quick":s, "timeout_thorough":s,
#   "technique":..., "level":..., "level_text":..., "level_note":...}}); the key "_c41" (optional)
# describes how the package doubles as a C41 race workload. NOT_APPLICABLE lists unclaimed properties.
import glob, json, os
_here = os.path.dirname(os.path.abspath(__file__))
CHECKS = {}
C41_WORKLOADS = []
for _f in sorted(glob.glob(os.path.join(_here, "harness", "*", "check.json"))):
    _d = json.load(open(_f))
    _pkg = os.path.basename(os.path.dirname(_f))
    for _k, _v in _d.items():
        _v.setdefault("pkg", _pkg)
        if _k == "_c41":
            C41_WORKLOADS.append(_v)
        else:
            CHECKS[_k] = _v
if os.path.exists(os.path.join(_here, "c41.json")):
    CHECKS["C41"] = json.load(open(os.path.join(_here, "c41.json")))

NOT_APPLICABLE = {}
if os.path.exists(os.path.join(_here, "not_applicable.json")):
    NOT_APPLICABLE = json.load(open(os.path.join(_here, "not_applicable.json")))
