#!/usr/bin/env python3
"""Writes MANIFEST.json from checks_table.py (single source of truth for what is claimed)."""
import json, os, subprocess
ROOT = os.path.dirname(os.path.abspath(__file__))
import sys; sys.path.insert(0, ROOT)
from checks_table import CHECKS, NOT_APPLICABLE

props = [json.loads(l)["id"] for l in open(os.path.join(ROOT, "properties.jsonl"))]
hooks = subprocess.run(["git", "-C", "/repo", "log", "--format=%H %s"], capture_output=True, text=True).stdout.splitlines()
hook_commits = [l.split()[0] for l in hooks if l.split(" ", 1)[1].startswith("verif:")]
checks = []
for pid in props:
    if pid not in CHECKS:
        continue
    c = CHECKS[pid]
    checks.append({
        "property_id": pid,
        "quick_cmd": f"./check {pid} quick",
        "thorough_cmd": f"./check {pid} thorough",
        "evidence_file": f"/verif/evidence/{pid}.json",
        "replay_cmd_template": "./check --replay {path}",
        "engine": c.get("pkg", "check-driver"),
        "level_claimed": {"category": c.get("level", "exploration"), "text": c["level_text"], "design_ref": c.get("design_ref", f"DESIGN.md §4 {pid}")},
        "level_note": c["level_note"],
        "technique": c["technique"],
    })
na = [{"property_id": p, "reason": NOT_APPLICABLE.get(p, "check not built yet in this round; see DESIGN.md §5")} for p in props if p not in CHECKS]
m = {
    "version": 1,
    "setup_cmd": "./setup.sh",
    "hooks": {
        "guard": "verif",
        "enable": "go test -tags verif (plus synctests for the virtual-time checks); the harness module replaces github.com/twmb/franz-go and its sub-modules with /repo",
        "baseline_off_cmd": "./baseline_off.sh",
        "source_commits": hook_commits,
        "add_only": True,
    },
    "engines": [{"name": "check", "path": "/verif/check", "serves_properties": [c["property_id"] for c in checks],
                 "kind_free_text": "python driver: rebuilds the property's Go test binary from /repo's working tree (tags verif[,synctests], -race where configured), runs it as a child process under a wall-clock watchdog, reads VIOLATION/KNOWN-FINDING/EVIDENCE lines"},
                {"name": "vh", "path": "/verif/harness/internal/vh", "serves_properties": [c["property_id"] for c in checks],
                 "kind_free_text": "Go runtime shared by all monitors: seeds, verdicts, known-findings matching, evidence and replay files"}],
    "checks": checks,
    "not_applicable": na,
    "notes": "Technique family: runtime monitoring and sanitizers. Every verdict is 'held on what was observed'. See DESIGN.md.",
}
json.dump(m, open(os.path.join(ROOT, "MANIFEST.json"), "w"), indent=1)
print(f"{len(checks)} checks, {len(na)} not claimed")
