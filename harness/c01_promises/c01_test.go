// C01 — every produced record's promise runs exactly once.
//
// Monitor: every record handed to Produce/TryProduce/ProduceSync carries its
// own promise closure and cell; the closure counts invocations (online: a
// second call is a violation on the spot) and checks it was handed its own
// record. Offline, at the quiescent point (a Flush issued when no producer is
// running has returned / Close has returned and the wait bound elapsed), every
// submitted record must have exactly one invocation, and the producer gauges
// must be zero. Scenarios are seeded: client options, API mix, per-record
// context cancellation, concurrent Flush / AbortBufferedRecords /
// PurgeTopicsFromClient / Close, an unknown topic, a topic created late, and
// broker faults (connections killed before/after the broker handled a produce,
// retriable and fatal produce error codes, metadata/InitProducerID kills,
// leader moves, delayed responses). RT scenarios run on loopback TCP; VT
// scenarios (synctests build) run in a testing/synctest bubble where "every
// outstanding promise is eventually called" is judged as bounded virtual time.
package c01

import (
	"fmt"
	"math/rand/v2"
	"sort"
	"strings"
	"testing"
	"time"

	"verifharness/internal/e2e"
	"verifharness/internal/prodwl"
	"verifharness/internal/vh"
)

func genPlan(rng *rand.Rand, seed uint64, vt bool) prodwl.Plan {
	p := prodwl.Plan{
		Seed: seed, VT: vt, Brokers: 1 + rng.IntN(3), Partitions: 1 + rng.IntN(4),
		LingerMs:    []int{0, 0, 1, 3}[rng.IntN(4)],
		MaxBufRecs:  []int{2, 8, 64, 512, 10000}[rng.IntN(5)],
		ManualFlush: rng.IntN(6) == 0,
		Retries:     []int{0, 0, 1, 3}[rng.IntN(4)],
		Idempotent:  rng.IntN(4) != 0,
		Compression: []string{"none", "gzip", "snappy", "lz4", "zstd"}[rng.IntN(5)],
		Producers:   1 + rng.IntN(6), PerProducer: 150 + rng.IntN(500), ValueMax: 8 + rng.IntN(200),
		TryP: []float64{0, 0.2, 0.5}[rng.IntN(3)], SyncP: []float64{0, 0.02, 0.1}[rng.IntN(3)],
		CancelP:  []float64{0, 0.05, 0.3}[rng.IntN(3)],
		UnknownP: []float64{0, 0.01, 0.05}[rng.IntN(3)],
		LateTopic: rng.IntN(3) == 0, Flushers: rng.IntN(3), Aborts: rng.IntN(3), Purges: rng.IntN(2),
		CloseMid: rng.IntN(3) == 0, Yield: []int{0, 10, 40}[rng.IntN(3)],
		KillBeforeP: []float64{0, 0.02, 0.1}[rng.IntN(3)], KillAfterP: []float64{0, 0.02, 0.1}[rng.IntN(3)],
		RetriableP: []float64{0, 0.03, 0.15}[rng.IntN(3)], FatalP: []float64{0, 0.01, 0.05}[rng.IntN(3)],
		DelayP: []float64{0, 0.05}[rng.IntN(2)], MetaKillP: []float64{0, 0.05, 0.2}[rng.IntN(3)],
		LeaderMoves: rng.IntN(4),
	}
	if rng.IntN(3) == 0 {
		p.MaxBufBytes = 500 + rng.IntN(20000)
	}
	if rng.IntN(3) == 0 {
		p.DeliveryTimeoutMs = 1000 + rng.IntN(500)
	}
	if rng.IntN(4) == 0 {
		p.BatchMaxBytes = 512 + rng.IntN(3000)
	}
	if p.ManualFlush && p.Flushers == 0 {
		p.Flushers = 1 // nothing would ever be sent otherwise
	}
	if p.Idempotent && rng.IntN(4) == 0 {
		p.AllowCancel = true
	}
	if rng.IntN(3) == 0 {
		p.MetaErr = true // records buffered on a partition in a metadata load-error state, purged meanwhile
	}
	return p
}

func errClass(err error) string {
	if err == nil {
		return "ok"
	}
	s := err.Error()
	for _, k := range []string{"context canceled", "client closed", "max buffered", "aborting", "purged", "timed out", "unknown topic", "UNKNOWN_TOPIC", "MESSAGE_TOO_LARGE", "TOPIC_AUTHORIZATION", "INVALID_RECORD", "RECORD_LIST_TOO_LARGE", "retr", "NOT_LEADER", "deadline"} {
		if strings.Contains(s, k) {
			return k
		}
	}
	if len(s) > 24 {
		s = s[:24]
	}
	return s
}

// judge applies the C01 oracle to one scenario result.
func judge(r *vh.Run, res *prodwl.Result, mode string) {
	witness := func(extra string) map[string]any {
		return map[string]any{"mode": mode, "plan": res.Plan, "detail": extra, "fired": res.Fired, "ops": res.Ops}
	}
	for _, p := range res.Problems {
		switch p.Sig {
		case "promise-called-twice", "promise-wrong-record", "producesync-result-count":
			r.Violation(p.Sig, witness(p.Detail))
		}
	}
	submitted, never, ok, failed := 0, 0, 0, 0
	classes := map[string]bool{}
	var firstNever string
	for _, c := range res.Recs {
		if c.CallClock == 0 {
			if c.PromiseCount.Load() > 0 {
				r.Violation("promise-for-unsubmitted-record", witness(c.ID))
			}
			continue
		}
		submitted++
		switch n := c.PromiseCount.Load(); {
		case n == 0:
			never++
			if firstNever == "" {
				firstNever = fmt.Sprintf("%s api=%s topic=%s/%d", c.ID, c.API, c.Topic, c.Partition)
			}
		case n == 1:
			if err := c.PromiseErr(); err == nil {
				ok++
			} else {
				failed++
				classes[errClass(err)] = true
			}
		}
	}
	r.Count("records_submitted", submitted)
	r.Count("promises_ok", ok)
	r.Count("promises_failed", failed)
	if len(res.Inconcl) > 0 {
		r.Inconclusive(mode + ": " + strings.Join(res.Inconcl, "; "))
		return
	}
	if never > 0 {
		detail := fmt.Sprintf("%d of %d submitted records never had their promise called (first: %s); closed=%v final flush err=%v", never, submitted, firstNever, res.Closed, res.FinalFlushErr)
		switch {
		case res.FinalFlushDone:
			// Flush returned nil with no producer running: every promise must have run.
			r.Violation("promise-never-called-after-flush", witness(detail))
		case mode == "vt":
			// bounded virtual time elapsed (far beyond every configured timeout)
			r.Violation("promise-never-called-within-virtual-bound", witness(detail+"\n"+res.Stacks))
		default:
			r.Inconclusive("rt: " + detail + " (wall-clock watchdog; not a verdict)")
			r.Count("rt_watchdog_never_called", never)
		}
		return
	}
	if !res.Closed {
		if res.FinalFlushErr != nil {
			if mode == "vt" {
				r.Violation("flush-did-not-return-after-all-promises", witness(fmt.Sprint(res.FinalFlushErr)))
			} else {
				r.Inconclusive("rt: final flush: " + res.FinalFlushErr.Error())
			}
			return
		}
		if res.GaugeSampled && (res.GaugeRecs != 0 || res.GaugeBytes != 0) {
			r.Violation("gauges-nonzero-after-all-promises", witness(fmt.Sprintf("BufferedProduceRecords=%d BufferedProduceBytes=%d after all %d promises ran and Flush returned", res.GaugeRecs, res.GaugeBytes, submitted)))
		}
	}
	// evidence
	var fk []string
	for k := range res.Fired {
		if k != "pass" {
			fk = append(fk, k)
		}
	}
	sort.Strings(fk)
	var opk []string
	seen := map[string]bool{}
	for _, o := range res.Ops {
		if !seen[o.Kind] {
			seen[o.Kind] = true
			opk = append(opk, o.Kind)
		}
	}
	sort.Strings(opk)
	var ck []string
	for k := range classes {
		ck = append(ck, k)
	}
	sort.Strings(ck)
	for k, n := range res.Fired {
		r.Count("fault_"+k, int(n))
	}
	for k, n := range res.YieldHits {
		r.Count("hook_"+k, int(n))
	}
	nontrivial := len(fk) > 0 && ok > 0 && failed > 0 && (seen["abort"] || seen["purge"] || seen["close"] || res.Plan.CancelP > 0)
	if nontrivial {
		r.Distinct(fmt.Sprintf("%s|f=%s|e=%s|o=%s", mode, strings.Join(fk, ","), strings.Join(ck, ","), strings.Join(opk, ",")))
	}
	if r.WantSample() && nontrivial {
		r.Sample(map[string]any{"mode": mode, "plan": res.Plan, "submitted": submitted, "ok": ok, "failed": failed, "error_classes": ck, "faults_fired": res.Fired, "ops": opk})
	}
}

func TestCheck(t *testing.T) {
	r := vh.Start(t, "C01")
	nRT := r.Pick(120, 3000)
	nVT := r.Pick(80, 1500)
	if !e2e.HaveVT {
		nVT = 0
		r.Count("vt_unavailable_build_without_synctests", 1)
	}
	overlaps := map[string]bool{}
	// virtual time first: its verdicts do not depend on wall-clock watchdogs, so a defect that
	// makes scenarios hang is reported before the real-time scenarios spend their watchdogs on it
	for i := 0; i < nVT; i++ {
		rng := r.Rand("c01-vt", i)
		plan := genPlan(rng, uint64(r.Seed)<<20|uint64(1<<19+i), true)
		plan.Yield = 0
		if plan.Compression == "zstd" {
			plan.Compression = "lz4" // kgo's zstd pools use finalizers that cannot cross a bubble boundary
		}
		t0 := time.Now()
		var res *prodwl.Result
		fail := e2e.Bubble(t, func() {
			res = prodwl.Run(plan, 5*time.Minute) // virtual; every configured timeout is seconds, a client stuck in a retry loop costs real time per virtual second
		})
		if res == nil {
			r.Inconclusive("vt scenario produced no result: " + fail)
			continue
		}
		judge(r, res, "vt")
		fmt.Printf("vt scenario %d: %.1fs wall, bubble=%q\n", i, time.Since(t0).Seconds(), fail)
		if fail != "" {
			r.Count("vt_bubble_exit_note", 1)
		}
		r.Eval(1)
		r.Count("scenarios_vt", 1)
	}
	vh.Parallel(nRT, 8, func(i int) {
		rng := r.Rand("c01-rt", i)
		plan := genPlan(rng, uint64(r.Seed)<<20|uint64(i), false)
		t0 := time.Now()
		res := prodwl.Run(plan, 60*time.Second)
		judge(r, res, "rt")
		fmt.Printf("rt scenario %d: %.1fs wall quiesced=%v closed=%v inconcl=%v\n", i, time.Since(t0).Seconds(), res.Quiesced, res.Closed, res.Inconcl)
		r.Eval(1)
		r.Count("scenarios_rt", 1)
		for k := range res.Overlap {
			r.Count("api_overlap_seen:"+k, 1)
			_ = overlaps
		}
	})
	r.Finish("exploration",
		"one evaluation = one seeded producer scenario (client options x API mix x cancellation x Flush/Abort/Purge/Close x broker fault plan) run against kfake behind faultnet, RT (loopback TCP) or VT (synctest bubble, virtual time); non-trivial = at least one injected fault fired, at least one promise succeeded and one failed, and an abort/purge/close/cancel overlapped in-flight records; distinct by (mode, fault kinds fired, promise error classes, ops)",
		"kfake is the broker (checked separately by C29/C32)",
		"RT: a promise still missing when the wall-clock watchdog fires is reported inconclusive, never a violation; VT: missing after 5 virtual minutes (every configured timeout and retry budget is seconds) is a violation",
	)
}
