package c01

import (
	"encoding/json"
	"fmt"
	"os"
	"strconv"
	"testing"
	"time"

	"verifharness/internal/e2e"
	"verifharness/internal/prodwl"
	"verifharness/internal/vh"
)

// TestDebugOne runs a single scenario (VERIF_SCEN=index, VERIF_MODE=rt|vt) and prints what happened.
func TestDebugOne(t *testing.T) {
	r := vh.Start(t, "C01")
	i, _ := strconv.Atoi(os.Getenv("VERIF_SCEN"))
	mode := os.Getenv("VERIF_MODE")
	var plan prodwl.Plan
	var res *prodwl.Result
	t0 := time.Now()
	if mode == "vt" {
		plan = genPlan(r.Rand("c01-vt", i), uint64(r.Seed)<<20|uint64(1<<19+i), true)
		plan.Yield = 0
		fail := e2e.Bubble(t, func() { res = prodwl.Run(plan, 30*time.Minute) })
		fmt.Println("bubble:", fail)
	} else {
		plan = genPlan(r.Rand("c01-rt", i), uint64(r.Seed)<<20|uint64(i), false)
		res = prodwl.Run(plan, 20*time.Second)
	}
	pj, _ := json.Marshal(plan)
	fmt.Printf("plan %s\nwall %.1fs quiesced=%v closed=%v inconcl=%v fired=%v blocked=%d flushes=%d ops=%v\n", pj, time.Since(t0).Seconds(), res.Quiesced, res.Closed, res.Inconcl, res.Fired, res.BlockedObs, len(res.Flushes), res.Ops)
	sub, prom := 0, 0
	for _, c := range res.Recs {
		if c.CallClock > 0 {
			sub++
		}
		if c.PromiseCount.Load() > 0 {
			prom++
		}
	}
	fmt.Println("submitted", sub, "promised", prom, "of", len(res.Recs))
	if res.Stacks != "" {
		os.WriteFile("/tmp/c01-debug-stacks.txt", []byte(res.Stacks), 0o644)
		fmt.Println("stacks in /tmp/c01-debug-stacks.txt")
	}
}

func TestDebugPlan(t *testing.T) {
	var plan prodwl.Plan
	if err := json.Unmarshal([]byte(os.Getenv("VERIF_PLAN")), &plan); err != nil {
		t.Fatal(err)
	}
	t0 := time.Now()
	res := prodwl.Run(plan, 20*time.Second)
	sub, prom := 0, 0
	for _, c := range res.Recs {
		if c.CallClock > 0 {
			sub++
		}
		if c.PromiseCount.Load() > 0 {
			prom++
		}
	}
	fmt.Printf("wall %.1fs quiesced=%v inconcl=%v fired=%v blocked=%d submitted=%d promised=%d\n", time.Since(t0).Seconds(), res.Quiesced, res.Inconcl, res.Fired, res.BlockedObs, sub, prom)
}
