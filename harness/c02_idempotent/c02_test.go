// C02 — idempotent producing: acked once, in order; failed absent.
//
// Monitor (offline, over a recorded history): every record carries a unique id
// in its value; promises record (error, offset); after the run the partition
// logs are read back with raw Fetch requests and decoded batch by batch
// (independent of kgo's consumer). Oracle: a success-promised record is in its
// partition exactly once at the promised offset; success-promised records that
// one goroutine produced to one partition appear in produce order; an
// error-promised record is absent (unless AllowIdempotentProduceCancellation).
// Scenarios concentrate on the ambiguous outcome: faultnet lets kfake append a
// produce request and then swallows the response and kills the connection.
package c02

import (
	"bytes"
	"fmt"
	"math/rand/v2"
	"sort"
	"strings"
	"testing"
	"time"

	"verifharness/internal/e2e"
	"verifharness/internal/prodwl"
	"verifharness/internal/vh"
)

func genPlan(rng *rand.Rand, seed uint64, vt bool) prodwl.Plan {
	p := prodwl.Plan{
		Seed: seed, VT: vt, Brokers: 1 + rng.IntN(3), Partitions: 2 + rng.IntN(5),
		LingerMs:   []int{0, 0, 1, 2}[rng.IntN(4)],
		MaxBufRecs: []int{8, 64, 512, 10000}[rng.IntN(4)],
		Retries:    []int{0, 0, 2, 5}[rng.IntN(4)],
		Idempotent: true, AllowCancel: rng.IntN(5) == 0,
		Compression: []string{"none", "gzip", "snappy", "lz4", "zstd"}[rng.IntN(5)],
		Producers:   1 + rng.IntN(5), PerProducer: 200 + rng.IntN(600), ValueMax: 4 + rng.IntN(120),
		TryP:    []float64{0, 0.1}[rng.IntN(2)],
		CancelP: []float64{0, 0.02, 0.2}[rng.IntN(3)],
		Flushers: rng.IntN(2), Aborts: rng.IntN(3), Yield: []int{0, 10, 40}[rng.IntN(3)],
		KillBeforeP: []float64{0, 0.03, 0.1}[rng.IntN(3)], KillAfterP: []float64{0.03, 0.1, 0.25}[rng.IntN(3)],
		RetriableP: []float64{0, 0.05, 0.15}[rng.IntN(3)], FatalP: []float64{0, 0.01, 0.04}[rng.IntN(3)],
		DelayP: []float64{0, 0.05}[rng.IntN(2)], MetaKillP: []float64{0, 0.05}[rng.IntN(2)],
		LeaderMoves: rng.IntN(5),
	}
	if rng.IntN(3) == 0 {
		p.DeliveryTimeoutMs = 1000 + rng.IntN(1000)
	}
	if rng.IntN(3) == 0 {
		p.BatchMaxBytes = 512 + rng.IntN(2000)
	}
	if vt && p.Compression == "zstd" {
		p.Compression = "snappy"
	}
	if vt {
		p.Yield = 0
	}
	return p
}

func idOf(v []byte) string {
	if i := bytes.IndexByte(v, '|'); i > 0 {
		return string(v[:i])
	}
	return ""
}

func judge(r *vh.Run, res *prodwl.Result, mode string) {
	witness := func(extra string) map[string]any {
		return map[string]any{"mode": mode, "plan": res.Plan, "detail": extra, "fired": res.Fired}
	}
	// With AllowIdempotentProduceCancellation the client may fail in-flight
	// batches and rewind their sequence numbers; violations seen only with
	// that option carry their own signature.
	opt := ""
	if res.Plan.AllowCancel {
		opt = "[AllowIdempotentProduceCancellation]"
	}
	if len(res.Inconcl) > 0 || !res.Quiesced {
		r.Inconclusive(fmt.Sprintf("%s: run did not quiesce: %v", mode, res.Inconcl))
		return
	}
	if res.LogErr != nil {
		r.Inconclusive(mode + ": could not read back logs: " + res.LogErr.Error())
		return
	}
	type loc struct {
		tp  string
		off int64
	}
	where := map[string][]loc{}
	nlog := 0
	for tp, l := range res.Logs {
		// offsets must be strictly increasing in the log itself
		last := int64(-1)
		for _, rec := range l.Records {
			if rec.Offset <= last {
				r.Violation("log-offsets-not-increasing", witness(fmt.Sprintf("%s: offset %d after %d", tp, rec.Offset, last)))
			}
			last = rec.Offset
			if rec.Control {
				continue
			}
			nlog++
			if id := idOf(rec.Value); id != "" {
				where[id] = append(where[id], loc{tp, rec.Offset})
			}
		}
	}
	okN, failN, dupRetry := 0, 0, 0
	type stream struct {
		producer int
		tp       string
	}
	lastOff := map[stream]int64{}
	lastID := map[stream]string{}
	for _, c := range res.Recs {
		if c.CallClock == 0 || c.PromiseCount.Load() != 1 {
			continue // C01's business
		}
		tp := fmt.Sprintf("%s/%d", c.Topic, c.Partition)
		locs := where[c.ID]
		err := c.PromiseErr()
		if err == nil {
			okN++
			switch {
			case len(locs) == 0:
				r.Violation("acked-record-missing-from-log"+opt, witness(fmt.Sprintf("record %s promised success at %s offset %d but is not in any log", c.ID, tp, c.Offset)))
			case len(locs) > 1:
				r.Violation("acked-record-duplicated-in-log"+opt, witness(fmt.Sprintf("record %s promised success at %s offset %d appears %d times: %v", c.ID, tp, c.Offset, len(locs), locs)))
			case locs[0].tp != tp || locs[0].off != c.Offset:
				r.Violation("acked-record-at-wrong-offset"+opt, witness(fmt.Sprintf("record %s promised %s offset %d but log has it at %s offset %d", c.ID, tp, c.Offset, locs[0].tp, locs[0].off)))
			default:
				k := stream{c.Producer, tp}
				if lo, ok := lastOff[k]; ok && locs[0].off <= lo {
					r.Violation("acked-records-out-of-produce-order"+opt, witness(fmt.Sprintf("producer %d %s: record %s (produced later) at offset %d, earlier record %s at offset %d", c.Producer, tp, c.ID, locs[0].off, lastID[k], lo)))
				}
				lastOff[k] = locs[0].off
				lastID[k] = c.ID
			}
		} else {
			failN++
			if len(locs) > 0 && !res.Plan.AllowCancel {
				r.Violation("failed-record-present-in-log", witness(fmt.Sprintf("record %s promised error %q but is in the log at %v", c.ID, err, locs)))
			}
		}
	}
	// how many produce requests did kfake append and then have their response swallowed?
	killedAppended := 0
	for _, ev := range res.Events {
		if ev.Req.Key == 0 && ev.Action.Kind == 2 && ev.RespLen > 0 { // KillAfter with a response written
			killedAppended++
		}
	}
	_ = dupRetry
	r.Count("records_acked", okN)
	r.Count("records_failed", failN)
	r.Count("log_records_read", nlog)
	r.Count("produce_kill_after_appended", killedAppended)
	for k, n := range res.Fired {
		r.Count("fault_"+k, int(n))
	}
	if killedAppended > 0 && okN > 0 {
		var fk []string
		for k := range res.Fired {
			if k != "pass" {
				fk = append(fk, k)
			}
		}
		sort.Strings(fk)
		bucket := func(n int) string {
			switch {
			case n == 0:
				return "0"
			case n < 4:
				return "few"
			case n < 20:
				return "some"
			}
			return "many"
		}
		r.Distinct(fmt.Sprintf("%s|parts=%d|f=%s|ka=%s|fail=%s|moves=%d|cancel=%v", mode, res.Plan.Partitions, strings.Join(fk, ","), bucket(killedAppended), bucket(failN), res.Plan.LeaderMoves, res.Plan.AllowCancel))
		if r.WantSample() {
			r.Sample(map[string]any{"mode": mode, "plan": res.Plan, "acked": okN, "failed": failN, "log_records": nlog, "produce_responses_swallowed_after_append": killedAppended, "faults": res.Fired})
		}
	}
}

func TestCheck(t *testing.T) {
	r := vh.Start(t, "C02")
	nRT := r.Pick(150, 4000)
	nVT := r.Pick(60, 1500)
	if !e2e.HaveVT {
		nVT = 0
	}
	vh.Parallel(nRT, 8, func(i int) {
		plan := genPlan(r.Rand("c02-rt", i), uint64(r.Seed)<<20|uint64(i), false)
		res := prodwl.Run(plan, 60*time.Second)
		judge(r, res, "rt")
		r.Eval(1)
	})
	for i := 0; i < nVT; i++ {
		plan := genPlan(r.Rand("c02-vt", i), uint64(r.Seed)<<20|uint64(1<<19+i), true)
		var res *prodwl.Result
		fail := e2e.Bubble(t, func() { res = prodwl.Run(plan, 30*time.Minute) })
		if res == nil {
			r.Inconclusive("vt scenario produced no result: " + fail)
			continue
		}
		judge(r, res, "vt")
		r.Eval(1)
	}
	r.Finish("exploration",
		"one evaluation = one seeded idempotent-producer scenario whose partition logs are read back with raw Fetch and compared with the promises; non-trivial = at least one produce request was appended by kfake and then had its response swallowed with the connection killed (the retry must be deduplicated), and at least one record was acked; distinct by (mode, partitions, fault kinds fired, swallowed-response bucket, failed-record bucket, leader moves, AllowIdempotentProduceCancellation)",
		"kfake's log and duplicate window are the trusted base (checked by C29/C32); batches are decoded with kmsg.RecordBatch/Record and their CRC verified by the harness",
		"workload excludes PurgeTopicsFromClient, UnsafeAbortBufferedRecords and Close before all promises ran: the source documents that those may fail a record that was already written",
		"fatal produce error codes are injected only for batches kfake has never been handed (no broker rejects a batch it already appended)",
	)
}
