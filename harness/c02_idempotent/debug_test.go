package c02

import (
	"bytes"
	"encoding/binary"
	"github.com/twmb/franz-go/pkg/kmsg"
	"sync"

	"encoding/json"
	"fmt"
	"os"
	"strconv"
	"testing"
	"time"

	"verifharness/internal/prodwl"
	"verifharness/internal/vh"
)

// TestDebugPlan runs VERIF_PLAN (json) VERIF_N times with varying seeds and reports violations.
func TestDebugPlan(t *testing.T) {
	r := vh.Start(t, "C02")
	var plan prodwl.Plan
	if err := json.Unmarshal([]byte(os.Getenv("VERIF_PLAN")), &plan); err != nil {
		t.Fatal(err)
	}
	n, _ := strconv.Atoi(os.Getenv("VERIF_N"))
	vh.Parallel(n, 8, func(i int) {
		p := plan
		p.Seed = plan.Seed + uint64(i)
		p.KeepFrames = true
		res := prodwl.Run(p, 60*time.Second)
		before := r.Violations()
		judge(r, res, "rt")
		r.Eval(1)
		if r.Violations() > before {
			timeline(res)
		}
	})
	fmt.Println("violations:", r.Violations())
}

var tlOnce sync.Once

// timeline prints, for the first failed-but-present record, every produce request that carried it.
func timeline(res *prodwl.Result) {
	tlOnce.Do(func() {
		inLog := map[string]string{}
		for tp, l := range res.Logs {
			for _, rec := range l.Records {
				inLog[idOf(rec.Value)] = fmt.Sprintf("%s@%d pid=%d epoch=%d seq=%d", tp, rec.Offset, rec.ProducerID, rec.ProducerEpoch, rec.Sequence)
			}
		}
		var victim *prodwl.Rec
		for _, c := range res.Recs {
			if c.PromiseCount.Load() == 1 && c.PromiseErr() != nil && inLog[c.ID] != "" {
				victim = c
				break
			}
		}
		if victim == nil {
			fmt.Println("timeline: no failed-present victim")
			return
		}
		fmt.Printf("TIMELINE victim %s err=%v log=%s promiseClock=%d\n", victim.ID, victim.PromiseErr(), inLog[victim.ID], victim.PromiseClock.Load())
		needle := []byte(victim.ID + "|")
		for _, ev := range res.Events {
			if ev.Req.Key != 0 || !bytes.Contains(ev.Req.Frame, needle) {
				continue
			}
			pr, _ := ev.Req.Decode().(*kmsg.ProduceRequest)
			desc := ""
			if pr != nil {
				for _, t := range pr.Topics {
					for _, p := range t.Partitions {
						b := p.Records
						if len(b) >= 61 && bytes.Contains(b, needle) {
							desc += fmt.Sprintf(" [%s/%d pid=%d epoch=%d seq=%d n=%d]", t.Topic, p.Partition, int64(binary.BigEndian.Uint64(b[43:])), binary.BigEndian.Uint16(b[51:]), binary.BigEndian.Uint32(b[53:]), binary.BigEndian.Uint32(b[57:]))
						}
					}
				}
			}
			codes := ""
			if len(ev.Resp) > 8 && pr != nil {
				resp := pr.ResponseKind().(*kmsg.ProduceResponse)
				body := ev.Resp[8:]
				if resp.IsFlexible() {
					body = body[1:]
				}
				if err := resp.ReadFrom(body); err == nil {
					for _, t := range resp.Topics {
						for _, p := range t.Partitions {
							codes += fmt.Sprintf(" %s/%d:err=%d,base=%d", t.Topic, p.Partition, p.ErrorCode, p.BaseOffset)
						}
					}
				}
			}
			fmt.Printf("  seq=%d broker=%d conn=%d corr=%d action=%s resplen=%d batches:%s resp:%s\n", ev.Req.Seq, ev.Req.Listener, ev.Req.Conn, ev.Req.Corr, ev.Action.Kind, ev.RespLen, desc, codes)
		}
	})
}
