// C03 — producer buffering limits and Flush completion.
//
// Monitors:
//   - bound (offline, from the logical-clock history): the set of records
//     whose Produce call had returned and whose promise had not yet started
//     is, at every instant, a subset of what the client holds buffered; its
//     size must never exceed MaxBufferedRecords (bytes: MaxBufferedBytes).
//     Records whose promise reports ErrMaxBuffered / context errors /
//     ErrClientClosed may never have been admitted and are left out (lower
//     bound => sound).
//   - Flush (offline): for every Flush that returned nil, every record whose
//     Produce returned before that Flush was called has its promise started
//     before the Flush returned.
//   - at-the-limit scenarios (virtual time): with every produce response held
//     by the broker the buffer is filled exactly to the limit; TryProduce and
//     manual-flush Produce must fail with ErrMaxBuffered without time passing;
//     a blocking Produce must still be blocked at quiescence, must return when
//     its context ends, and another must resume when responses are released.
//   - liveness as bounded virtual time: in a bubble, producers and the final
//     Flush must finish within 30 virtual minutes (lost wake-up => violation).
package c03

import (
	"context"
	"errors"
	"fmt"
	"math/rand/v2"
	"sort"
	"sync"
	"sync/atomic"
	"testing"
	"time"

	"github.com/twmb/franz-go/pkg/kfake"
	"github.com/twmb/franz-go/pkg/kgo"
	"github.com/twmb/franz-go/pkg/kmsg"

	"verifharness/internal/e2e"
	"verifharness/internal/prodwl"
	"verifharness/internal/vh"
)

func genPlan(rng *rand.Rand, seed uint64, vt bool) prodwl.Plan {
	p := prodwl.Plan{
		Seed: seed, VT: vt, Brokers: 1 + rng.IntN(3), Partitions: 1 + rng.IntN(3),
		LingerMs:    []int{0, 0, 1, 5}[rng.IntN(4)],
		MaxBufRecs:  []int{1, 2, 3, 4, 8, 16}[rng.IntN(6)],
		ManualFlush: rng.IntN(5) == 0,
		Idempotent:  rng.IntN(4) != 0,
		Compression: "none",
		Producers:   3 + rng.IntN(12), PerProducer: 30 + rng.IntN(80), ValueMax: 10 + rng.IntN(90),
		TryP:     []float64{0, 0.2, 0.5}[rng.IntN(3)],
		SyncP:    []float64{0, 0.05}[rng.IntN(2)],
		CancelP:  []float64{0.05, 0.3, 0.6}[rng.IntN(3)],
		Flushers: 1 + rng.IntN(4), Aborts: rng.IntN(2),
		Yield:    []int{0, 30, 70}[rng.IntN(3)],
		KillAfterP: []float64{0, 0.05}[rng.IntN(2)], RetriableP: []float64{0, 0.05}[rng.IntN(2)],
		DelayP: []float64{0, 0.1}[rng.IntN(2)],
	}
	if rng.IntN(2) == 0 {
		p.MaxBufBytes = 120 + rng.IntN(900)
		p.MaxBufRecs = 10000
		if rng.IntN(2) == 0 {
			p.MaxBufRecs = 2 + rng.IntN(8)
		}
	}
	if vt {
		p.Yield = 0
	}
	return p
}

func excluded(err error) bool {
	return errors.Is(err, kgo.ErrMaxBuffered) || errors.Is(err, context.Canceled) || errors.Is(err, context.DeadlineExceeded) || errors.Is(err, kgo.ErrClientClosed)
}

func judge(r *vh.Run, res *prodwl.Result, mode string) {
	plan := res.Plan
	witness := func(extra string) map[string]any {
		return map[string]any{"mode": mode, "plan": plan, "detail": extra, "fired": res.Fired}
	}
	if len(res.Inconcl) > 0 || !res.Quiesced {
		if mode == "vt" {
			r.Violation("producers-or-flush-stuck-within-virtual-bound", witness(fmt.Sprintf("quiesced=%v inconcl=%v finalFlushErr=%v\n%s", res.Quiesced, res.Inconcl, res.FinalFlushErr, res.Stacks)))
		} else {
			r.Inconclusive(fmt.Sprintf("rt: run did not quiesce: %v", res.Inconcl))
		}
		return
	}
	if res.FinalFlushErr != nil {
		if mode == "vt" {
			r.Violation("flush-blocked-with-nothing-buffered", witness(fmt.Sprint(res.FinalFlushErr)))
		} else {
			r.Inconclusive("rt: final flush: " + res.FinalFlushErr.Error())
		}
		return
	}
	// ---- bound
	type ev struct {
		clock int64
		d     int
		bytes int64
	}
	var evs []ev
	counted := 0
	for _, c := range res.Recs {
		if c.CallClock == 0 || c.PromiseCount.Load() != 1 || c.API == "sync" || excluded(c.PromiseErr()) {
			continue
		}
		ret, pc := c.ReturnClock.Load(), c.PromiseClock.Load()
		if ret == 0 || pc == 0 || pc < ret {
			continue
		}
		sz := int64(len(c.R.Key) + len(c.R.Value))
		evs = append(evs, ev{ret, +1, sz}, ev{pc, -1, -sz})
		counted++
	}
	sort.Slice(evs, func(i, j int) bool { return evs[i].clock < evs[j].clock })
	cur, maxN := 0, 0
	var curB, maxB int64
	for _, e := range evs {
		cur += e.d
		curB += e.bytes
		if cur > maxN {
			maxN = cur
		}
		if curB > maxB {
			maxB = curB
		}
	}
	if maxN > plan.MaxBufRecs {
		r.Violation("buffered-records-exceed-MaxBufferedRecords", witness(fmt.Sprintf("%d records had returned from Produce and were unpromised at one instant; MaxBufferedRecords=%d", maxN, plan.MaxBufRecs)))
	}
	if plan.MaxBufBytes > 0 && maxB > int64(plan.MaxBufBytes) {
		r.Violation("buffered-bytes-exceed-MaxBufferedBytes", witness(fmt.Sprintf("%d bytes accepted and unpromised at one instant; MaxBufferedBytes=%d", maxB, plan.MaxBufBytes)))
	}
	// ---- flush
	okFlushes := 0
	for _, f := range res.Flushes {
		if f.Err != nil {
			continue
		}
		okFlushes++
		for _, c := range res.Recs {
			if c.CallClock == 0 {
				continue
			}
			ret := c.ReturnClock.Load()
			if ret == 0 || ret >= f.CallClock {
				continue
			}
			pc := c.PromiseClock.Load()
			if c.PromiseCount.Load() == 1 && excluded(c.PromiseErr()) {
				// possibly rejected before it was ever buffered (ErrMaxBuffered, context
				// ended while blocked, client closed): such a record was not accepted by
				// Produce and its promise runs asynchronously; not "produced before Flush"
				continue
			}
			if c.PromiseCount.Load() == 0 || pc == 0 || pc > f.ReturnClock {
				r.Violation("flush-returned-nil-before-earlier-record-promised", witness(fmt.Sprintf("Flush call@%d return@%d nil; record %s Produce returned@%d promise@%d (count %d)", f.CallClock, f.ReturnClock, c.ID, ret, pc, c.PromiseCount.Load())))
				break
			}
		}
	}
	// manual flushing / TryProduce never exceed silently: ErrMaxBuffered promises seen
	r.Count("records_counted_in_bound", counted)
	r.Count("flushes_nil", okFlushes)
	r.Count("errmaxbuffered_promises", int(res.MaxBufErrs))
	r.Count("produce_calls_seen_blocking", int(res.BlockedObs))
	for k, n := range res.YieldHits {
		if k == "produce.blocked" || k == "produce.cancel.prebroadcast" || k == "produce.admitted" {
			r.Count("hook_"+k, int(n))
		}
	}
	cancelledBlocked := res.YieldHits["produce.cancel.prebroadcast"]
	limitReached := maxN >= plan.MaxBufRecs || (plan.MaxBufBytes > 0 && maxB*10 >= int64(plan.MaxBufBytes)*8) || res.MaxBufErrs > 0
	if limitReached && (res.BlockedObs > 0 || res.MaxBufErrs > 0 || res.YieldHits["produce.blocked"] > 0) {
		b := func(n int64) string {
			switch {
			case n == 0:
				return "0"
			case n < 10:
				return "few"
			}
			return "many"
		}
		r.Distinct(fmt.Sprintf("%s|lim=%d/%d|mf=%v|blocked=%s|cancelblocked=%s|fl=%d|maxerr=%s", mode, plan.MaxBufRecs, plan.MaxBufBytes/200, plan.ManualFlush, b(res.BlockedObs+res.YieldHits["produce.blocked"]), b(cancelledBlocked), plan.Flushers, b(res.MaxBufErrs)))
		if r.WantSample() {
			r.Sample(map[string]any{"mode": mode, "plan": plan, "max_simultaneously_accepted_unpromised": maxN, "max_bytes": maxB, "nil_flushes_checked": okFlushes, "ErrMaxBuffered_promises": res.MaxBufErrs, "blocked_calls": res.BlockedObs})
		}
	}
}

// atLimit is the crisp virtual-time scenario (must run inside a bubble).
func atLimit(r *vh.Run, rng *rand.Rand, idx int) {
	limit := 1 + rng.IntN(6)
	manual := rng.IntN(2) == 0
	sig := func(s string) string { return "at-limit/" + s }
	wit := map[string]any{"limit": limit, "manual_flushing": manual, "scenario": idx}
	env, err := e2e.NewEnv(true, 1, nil, kfake.SeedTopics(1, "t"))
	if err != nil {
		r.Inconclusive("at-limit: " + err.Error())
		return
	}
	defer env.Close()
	release := make(chan struct{})
	env.C.ControlKey(0, func(kmsg.Request) (kmsg.Response, error, bool) {
		env.C.KeepControl()
		env.C.SleepControl(func() { <-release })
		return nil, nil, false
	})
	opts := []kgo.Opt{kgo.MaxBufferedRecords(limit), kgo.DefaultProduceTopic("t"), kgo.ProducerLinger(0), kgo.RecordPartitioner(kgo.ManualPartitioner())}
	if manual {
		opts = append(opts, kgo.ManualFlushing())
	}
	cl, err := env.NewClient(opts...)
	if err != nil {
		r.Inconclusive("at-limit client: " + err.Error())
		return
	}
	defer cl.Close()
	var promised atomic.Int32
	for i := 0; i < limit; i++ {
		cl.Produce(context.Background(), &kgo.Record{Value: []byte(fmt.Sprintf("fill%d", i))}, func(*kgo.Record, error) { promised.Add(1) })
	}
	e2e.Settle()
	if n := promised.Load(); n != 0 {
		r.Inconclusive(fmt.Sprintf("at-limit: %d fill records were promised although produce responses are held", n))
		return
	}
	// TryProduce at the limit: ErrMaxBuffered, no time passes
	t0 := time.Now()
	got := make(chan error, 1)
	cl.TryProduce(context.Background(), &kgo.Record{Value: []byte("try")}, func(_ *kgo.Record, err error) { got <- err })
	if d := time.Since(t0); d != 0 {
		r.Violation(sig("TryProduce-blocked"), map[string]any{"w": wit, "virtual_elapsed": d.String()})
	}
	e2e.Settle()
	select {
	case err := <-got:
		if !errors.Is(err, kgo.ErrMaxBuffered) {
			r.Violation(sig("TryProduce-wrong-error"), map[string]any{"w": wit, "err": fmt.Sprint(err)})
		}
	default:
		r.Violation(sig("TryProduce-not-failed-at-limit"), wit)
	}
	if manual {
		t0 := time.Now()
		got := make(chan error, 1)
		cl.Produce(context.Background(), &kgo.Record{Value: []byte("mf")}, func(_ *kgo.Record, err error) { got <- err })
		if d := time.Since(t0); d != 0 {
			r.Violation(sig("manual-flush-Produce-blocked"), map[string]any{"w": wit, "virtual_elapsed": d.String()})
		}
		e2e.Settle()
		select {
		case err := <-got:
			if !errors.Is(err, kgo.ErrMaxBuffered) {
				r.Violation(sig("manual-flush-Produce-wrong-error"), map[string]any{"w": wit, "err": fmt.Sprint(err)})
			}
		default:
			r.Violation(sig("manual-flush-Produce-not-failed-at-limit"), wit)
		}
		r.Distinct(fmt.Sprintf("atlimit|manual|%d", limit))
		close(release)
		return
	}
	// blocking Produce: must stay blocked; resume on ctx end / on space
	ctx1, cancel1 := context.WithCancel(context.Background())
	var ret1, ret2 atomic.Bool
	err1 := make(chan error, 1)
	err2 := make(chan error, 1)
	var wg sync.WaitGroup
	wg.Add(2)
	go func() {
		defer wg.Done()
		cl.Produce(ctx1, &kgo.Record{Value: []byte("b1")}, func(_ *kgo.Record, err error) { err1 <- err })
		ret1.Store(true)
	}()
	go func() {
		defer wg.Done()
		cl.Produce(context.Background(), &kgo.Record{Value: []byte("b2")}, func(_ *kgo.Record, err error) { err2 <- err })
		ret2.Store(true)
	}()
	e2e.Settle()
	time.Sleep(3 * time.Second) // virtual: nothing can free space while responses are held
	e2e.Settle()
	if ret1.Load() || ret2.Load() {
		r.Violation(sig("blocking-Produce-returned-while-full"), map[string]any{"w": wit, "b1_returned": ret1.Load(), "b2_returned": ret2.Load()})
	}
	cancel1()
	e2e.Settle()
	if !ret1.Load() {
		time.Sleep(time.Minute)
		e2e.Settle()
	}
	if !ret1.Load() {
		r.Violation(sig("blocked-Produce-not-resumed-on-context-end"), wit)
	} else {
		select {
		case err := <-err1:
			if !errors.Is(err, context.Canceled) {
				r.Violation(sig("cancelled-blocked-Produce-wrong-error"), map[string]any{"w": wit, "err": fmt.Sprint(err)})
			}
		default:
			r.Violation(sig("cancelled-blocked-Produce-no-promise"), wit)
		}
	}
	if ret2.Load() {
		r.Violation(sig("other-blocked-Produce-resumed-without-space"), wit)
	}
	close(release)
	e2e.Settle()
	time.Sleep(time.Minute)
	e2e.Settle()
	if !ret2.Load() {
		r.Violation(sig("blocked-Produce-not-resumed-after-space-freed"), wit)
	} else {
		select {
		case err := <-err2:
			if err != nil {
				r.Violation(sig("resumed-Produce-failed"), map[string]any{"w": wit, "err": fmt.Sprint(err)})
			}
		default:
			r.Violation(sig("resumed-Produce-never-promised"), wit)
		}
	}
	fctx, fcancel := context.WithTimeout(context.Background(), 10*time.Minute)
	if err := cl.Flush(fctx); err != nil {
		r.Violation(sig("flush-after-release-did-not-return"), map[string]any{"w": wit, "err": fmt.Sprint(err)})
	}
	fcancel()
	wg.Wait()
	r.Distinct(fmt.Sprintf("atlimit|blocking|%d", limit))
	if r.WantSample() {
		r.Sample(map[string]any{"kind": "at-limit scenario", "limit": limit, "observed": "TryProduce failed with ErrMaxBuffered in 0 virtual time; blocking Produce stayed blocked 3 virtual seconds; resumed on cancel / on release"})
	}
}

func TestCheck(t *testing.T) {
	r := vh.Start(t, "C03")
	nRT := r.Pick(160, 4000)
	nVT := r.Pick(120, 3000)
	nLim := r.Pick(60, 1500)
	if !e2e.HaveVT {
		nVT, nLim = 0, 0
		r.Inconclusive("built without synctests: at-limit and virtual-time parts skipped")
	}
	vh.Parallel(nRT, 8, func(i int) {
		plan := genPlan(r.Rand("c03-rt", i), uint64(r.Seed)<<20|uint64(i), false)
		res := prodwl.Run(plan, 60*time.Second)
		judge(r, res, "rt")
		r.Eval(1)
	})
	for i := 0; i < nVT; i++ {
		plan := genPlan(r.Rand("c03-vt", i), uint64(r.Seed)<<20|uint64(1<<19+i), true)
		var res *prodwl.Result
		fail := e2e.Bubble(t, func() { res = prodwl.Run(plan, 30*time.Minute) })
		if res == nil {
			r.Inconclusive("vt scenario produced no result: " + fail)
			continue
		}
		judge(r, res, "vt")
		r.Eval(1)
	}
	for i := 0; i < nLim; i++ {
		rng := r.Rand("c03-lim", i)
		fail := e2e.Bubble(t, func() { atLimit(r, rng, i) })
		if fail != "" && fail != "deadlock: main bubble goroutine has exited but blocked goroutines remain" {
			r.Violation("at-limit/bubble-deadlock", map[string]any{"scenario": i, "failure": fail})
		}
		r.Eval(1)
		r.Count("at_limit_scenarios", 1)
	}
	r.Finish("exploration",
		"evaluations = seeded producer scenarios with tiny limits (1-16 records / a few hundred bytes), 3-14 producers, 1-4 concurrent flushers, cancelled blocked produces, in real time and in synctest bubbles, plus crisp at-the-limit bubble scenarios with all produce responses held; non-trivial = the limit was reached and a Produce blocked or failed with ErrMaxBuffered; distinct by (mode, limit, manual flushing, blocked bucket, cancelled-while-blocked bucket, flushers, ErrMaxBuffered bucket)",
		"the bound is a lower bound of the client's internal count (counted from Produce return to promise start, records with ErrMaxBuffered/context/closed errors excluded), so exceeding it implies the internal count exceeded it",
		"Flush ordering is not judged for records whose promise reports ErrMaxBuffered / a context error / ErrClientClosed: Produce may have rejected them before buffering, and the client calls such promises asynchronously",
		"'fails immediately' is judged as zero virtual time inside a bubble; blocked/resumed is judged at bubble quiescence (synctest.Wait), never by wall clock",
	)
}
