// C04 — direct consumer returns each record once, in offset order.
//
// Monitor: every record returned by PollFetches / PollRecords is logged per
// partition; ground truth is the partition log read back with raw Fetch
// (which offsets hold data, control records, aborted data). Oracle: returned
// data offsets are strictly increasing, only visible records are returned,
// no visible record is skipped (prefix of the expected list while running),
// and after the drain phase the returned list equals the expected list.
package c04

import (
	"fmt"
	"testing"
	"time"

	"verifharness/internal/conswl"
	"verifharness/internal/e2e"
	"verifharness/internal/vh"
)

func judge(r *vh.Run, res *conswl.Result, mode string) {
	wit := func(d string) map[string]any {
		return map[string]any{"mode": mode, "plan": res.Plan, "detail": d, "fired": res.Fired, "events": res.Events, "fetch_errors": res.FetchErrs}
	}
	if len(res.Inconcl) > 0 {
		r.Inconclusive(fmt.Sprintf("%s: %v", mode, res.Inconcl))
		return
	}
	vs, complete := res.JudgeOrder()
	for _, v := range vs {
		r.Violation(v.Sig, wit(v.Detail))
	}
	if !complete {
		if mode == "vt" {
			r.Violation("consumer-did-not-catch-up-within-virtual-bound", wit(res.Stacks))
		} else {
			r.Inconclusive("rt: consumer did not catch up before the wall-clock watchdog")
		}
	}
	r.Count("records_returned", len(res.Returned))
	r.Count("polls", res.Polls)
	for k, n := range res.Events {
		r.Count("event_"+k, n)
	}
	for k, n := range res.Fired {
		r.Count("fault_"+k, int(n))
	}
	if key, nt := res.Shape(); nt && complete {
		r.Distinct(mode + "|" + key)
		if r.WantSample() {
			r.Sample(map[string]any{"mode": mode, "plan": res.Plan, "returned": len(res.Returned), "polls": res.Polls, "events": res.Events, "faults": res.Fired})
		}
	}
}

func TestCheck(t *testing.T) {
	r := vh.Start(t, "C04")
	nRT := r.Pick(120, 3000)
	nVT := r.Pick(60, 1500)
	if !e2e.HaveVT {
		nVT = 0
	}
	vh.Parallel(nRT, 8, func(i int) {
		rng := r.Rand("c04-rt", i)
		plan := conswl.GenPlan(rng, uint64(r.Seed)<<20|uint64(i), false, rng.IntN(3) == 0)
		res := conswl.Run(plan, 60*time.Second)
		judge(r, res, "rt")
		r.Eval(1)
	})
	for i := 0; i < nVT; i++ {
		rng := r.Rand("c04-vt", i)
		plan := conswl.GenPlan(rng, uint64(r.Seed)<<20|uint64(1<<19+i), true, rng.IntN(3) == 0)
		var res *conswl.Result
		fail := e2e.Bubble(t, func() { res = conswl.Run(plan, 30*time.Minute) })
		if res == nil {
			r.Inconclusive("vt scenario produced no result: " + fail)
			continue
		}
		judge(r, res, "vt")
		r.Eval(1)
	}
	r.Finish("exploration",
		"one evaluation = one seeded direct-consumer scenario (producers appending while the consumer polls with PollFetches/PollRecords(1..7), pauses/resumes, small fetch sizes, session cache of 1-2 slots, preferred replicas) under fetch faults (kill before/after, FETCH_SESSION_ID_NOT_FOUND / INVALID_FETCH_SESSION_EPOCH, retriable partition errors, delays, metadata kills, leader moves); non-trivial = at least one fault or pause/move event occurred, records were returned and the drain completed; distinct by (isolation, producers, poll limit, session config, assignment kind, rack, set of events and faults)",
		"ground truth is kfake's log read by the harness with raw Fetch requests; batches decoded with kmsg and CRC-checked",
		"control records are not part of the order oracle (only 'not returned unless KeepControlRecords')",
	)
}
