package c04

import (
	"encoding/json"
	"fmt"
	"os"
	"strconv"
	"testing"
	"time"

	"verifharness/internal/conswl"
	"verifharness/internal/vh"
)

func TestDebugPlan(t *testing.T) {
	r := vh.Start(t, "C04")
	var plan conswl.Plan
	if err := json.Unmarshal([]byte(os.Getenv("VERIF_PLAN")), &plan); err != nil {
		t.Fatal(err)
	}
	n, _ := strconv.Atoi(os.Getenv("VERIF_N"))
	vh.Parallel(n, 8, func(i int) {
		p := plan
		p.Seed = plan.Seed + uint64(i)
		res := conswl.Run(p, 60*time.Second)
		judge(r, res, "rt")
		r.Eval(1)
	})
	fmt.Println("violations:", r.Violations())
}
