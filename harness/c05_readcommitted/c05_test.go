// C05 — read_committed never exposes aborted or open transactions.
//
// Monitor: ground truth is reconstructed from the log itself (producer
// id/epoch per batch, COMMIT/ABORT markers), never from what producers believe.
// Safety: no returned data record is aborted or open in the final log; nothing
// returned before a mid-run snapshot is open in that snapshot (one transaction
// is deliberately kept open while other producers run); no record of a
// committed transaction is returned before its EndTransaction was even called;
// no control record unless KeepControlRecords. Completeness after the drain:
// every committed and non-transactional record returned exactly once in order.
package c05

import (
	"fmt"
	"testing"
	"time"

	"verifharness/internal/conswl"
	"verifharness/internal/e2e"
	"verifharness/internal/vh"
)

func judge(r *vh.Run, res *conswl.Result, mode string) {
	wit := func(d string) map[string]any {
		return map[string]any{"mode": mode, "plan": res.Plan, "detail": d, "fired": res.Fired, "events": res.Events}
	}
	if len(res.Inconcl) > 0 {
		r.Inconclusive(fmt.Sprintf("%s: %v", mode, res.Inconcl))
		return
	}
	for _, v := range res.JudgeCommitted() {
		r.Violation(v.Sig, wit(v.Detail))
	}
	vs, complete := res.JudgeOrder()
	for _, v := range vs {
		r.Violation(v.Sig, wit(v.Detail))
	}
	if !complete {
		if mode == "vt" {
			r.Violation("committed-records-not-all-returned-within-virtual-bound", wit(res.Stacks))
		} else {
			r.Inconclusive("rt: consumer did not catch up before the wall-clock watchdog")
		}
	}
	aborted, committed, lsoBelowHWM := 0, 0, 0
	for _, tx := range res.Txns {
		if tx.Commit {
			committed++
		} else {
			aborted++
		}
	}
	for _, l := range res.LogsMid {
		if l.LSO < l.HWM {
			lsoBelowHWM++
		}
	}
	r.Count("transactions_committed", committed)
	r.Count("transactions_aborted", aborted)
	r.Count("partitions_with_LSO_below_HWM_at_snapshot", lsoBelowHWM)
	r.Count("records_returned", len(res.Returned))
	if aborted > 0 && committed > 0 && complete {
		key, _ := res.Shape()
		r.Distinct(fmt.Sprintf("%s|prod=%d|open=%v|lsogap=%v|%s", mode, res.Plan.TxnProducers, res.LogsMid != nil, lsoBelowHWM > 0, key))
		if r.WantSample() {
			r.Sample(map[string]any{"mode": mode, "plan": res.Plan, "committed_txns": committed, "aborted_txns": aborted, "returned": len(res.Returned), "snapshot_partitions_with_open_txn": lsoBelowHWM})
		}
	}
}

func TestCheck(t *testing.T) {
	r := vh.Start(t, "C05")
	nRT := r.Pick(100, 2500)
	nVT := r.Pick(50, 1200)
	if !e2e.HaveVT {
		nVT = 0
	}
	gen := func(stream string, i int, vt bool) conswl.Plan {
		rng := r.Rand(stream, i)
		p := conswl.GenPlan(rng, uint64(r.Seed)<<20|uint64(i), vt, true)
		p.ReadCommitted = true
		if p.FetchMaxBytes == 0 && rng.IntN(2) == 0 {
			p.FetchMaxBytes = 700 // cut responses through interleaved transactions
		}
		return p
	}
	vh.Parallel(nRT, 8, func(i int) {
		res := conswl.Run(gen("c05-rt", i, false), 60*time.Second)
		judge(r, res, "rt")
		r.Eval(1)
	})
	for i := 0; i < nVT; i++ {
		plan := gen("c05-vt", 1<<19+i, true)
		var res *conswl.Result
		fail := e2e.Bubble(t, func() { res = conswl.Run(plan, 30*time.Minute) })
		if res == nil {
			r.Inconclusive("vt scenario produced no result: " + fail)
			continue
		}
		judge(r, res, "vt")
		r.Eval(1)
	}
	r.Finish("exploration",
		"one evaluation = one seeded scenario with 1-3 transactional producers (commit/abort mix, one transaction held open during a mid-run snapshot) and plain producers on shared partitions while a ReadCommitted consumer polls with small fetch sizes under fetch faults; non-trivial = at least one transaction aborted and one committed and the drain completed; distinct by (mode, producers, open-transaction snapshot taken, LSO<HWM seen, scenario shape)",
		"transaction status comes from the log's own markers (read_uncommitted raw Fetch incl. control batches), not from the producers",
		"'eventually returns every committed record' is judged after a fault-free drain phase: bounded virtual time in VT, inconclusive on RT watchdog",
	)
}
