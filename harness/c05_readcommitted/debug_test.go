package c05

import (
	"encoding/json"
	"fmt"
	"os"
	"testing"
	"time"

	"verifharness/internal/conswl"
)

func TestDebugPlan(t *testing.T) {
	var plan conswl.Plan
	if err := json.Unmarshal([]byte(os.Getenv("VERIF_PLAN")), &plan); err != nil {
		t.Fatal(err)
	}
	for i := 0; i < 20; i++ {
		p := plan
		p.Seed += uint64(i)
		res := conswl.Run(p, 60*time.Second)
		vs, _ := res.JudgeOrder()
		vs = append(vs, res.JudgeCommitted()...)
		if len(vs) == 0 {
			continue
		}
		fmt.Println("seed", p.Seed, "violations:", vs, "inconcl", res.Inconcl)
		for k, l := range res.Logs {
			st := l.TxnStatus()
			fmt.Printf("LOG %s start=%d hwm=%d lso=%d\n", k, l.LogStart, l.HWM, l.LSO)
			for i, r := range l.Records {
				if i > 40 {
					break
				}
				fmt.Printf("  off=%d pid=%d ep=%d seq=%d txn=%v ctl=%v type=%d st=%s id=%s\n", r.Offset, r.ProducerID%1000, r.ProducerEpoch, r.Sequence, r.Transactional, r.Control, r.ControlType, st[r.Offset], conswl.IDOf(r.Value))
			}
			n := 0
			for _, r := range res.Returned {
				if fmt.Sprintf("%s/%d", r.Topic, r.Partition) == k && n < 30 {
					fmt.Printf("  RET off=%d id=%s poll=%d\n", r.Offset, r.ID, r.Poll)
					n++
				}
			}
			break
		}
		for _, tx := range res.Txns[:min(8, len(res.Txns))] {
			fmt.Printf("TXN prod=%d commit=%v ids=%v err=%s\n", tx.Producer, tx.Commit, tx.IDs, tx.EndErr)
		}
		return
	}
	fmt.Println("no violation in 20 seeds")
}
