// C06 — fetch response parsing matches the Kafka log format.
//
// Monitor: the independent reference codec internal/reflog GENERATES the
// RecordBatches bytes of a partition response (message sets v0/v1 with
// compressed wrappers, record batches v2, every codec, transactional and
// control batches of several producers, compaction gaps, empty batches,
// aborted-transaction lists in any order) and so knows the expected records
// by construction; kgo.ProcessFetchPartition is run on them and its output is
// compared field by field. The same bytes are cut at every byte boundary, a
// class of batches whose records payload is shorter than the declared count
// checks the next-offset rule, and mutated / arbitrary bytes check the
// never-panics clause.
package c06

import (
	"bytes"
	"encoding/binary"
	"fmt"
	"math/rand/v2"
	"runtime"
	"runtime/debug"
	"sort"
	"strings"
	"sync/atomic"
	"testing"
	"time"

	"github.com/twmb/franz-go/pkg/kgo"
	"github.com/twmb/franz-go/pkg/kmsg"

	"verifharness/internal/reflog"
	"verifharness/internal/reflog/ccodec"
	"verifharness/internal/vh"
)

type monitor struct {
	r     *vh.Run
	fails atomic.Int64
	dec   kgo.Decompressor
}

func (m *monitor) viol(sig string, detail any) {
	m.fails.Add(1)
	m.r.Violation(sig, detail)
}

type params struct {
	req           int64
	readCommitted bool
	keepControl   bool
	disableCRC    bool
	aborted       []abortedTxn
	abortedOrder  string
}

func (p params) String() string {
	return fmt.Sprintf("offset=%d read_committed=%v keep_control=%v disable_crc=%v aborted(%s)=%v", p.req, p.readCommitted, p.keepControl, p.disableCRC, p.abortedOrder, p.aborted)
}

type result struct {
	recs  []*kgo.Record
	next  int64
	err   error
	panic any
	site  string // innermost franz-go function of a panic
	hooks int
}

// run calls the function under observation.
func (m *monitor) run(data []byte, p params) result {
	rp := &kmsg.FetchResponseTopicPartition{
		Partition:        3,
		HighWatermark:    1 << 50,
		LastStableOffset: 1 << 50,
		RecordBatches:    data,
	}
	for _, a := range p.aborted {
		rp.AbortedTransactions = append(rp.AbortedTransactions, kmsg.FetchResponseTopicPartitionAbortedTransaction{ProducerID: a.pid, FirstOffset: a.first})
	}
	opts := kgo.ProcessFetchPartitionOpts{
		KeepControlRecords:   p.keepControl,
		DisableCRCValidation: p.disableCRC,
		Offset:               p.req,
		IsolationLevel:       kgo.ReadUncommitted(),
		Topic:                "t",
		Partition:            3,
	}
	if p.readCommitted {
		opts.IsolationLevel = kgo.ReadCommitted()
	}
	var res result
	res.panic = vh.Catch(func() {
		defer func() {
			if p := recover(); p != nil {
				res.site = panicSite(debug.Stack())
				panic(p)
			}
		}()
		fp, next := kgo.ProcessFetchPartition(opts, rp, m.dec, func(kgo.FetchBatchMetrics) { res.hooks++ })
		res.recs, res.next, res.err = fp.Records, next, fp.Err
	})
	return res
}

// panicSite names the innermost franz-go function on a panicking stack, so
// that one defect has one signature whatever input class reached it.
func panicSite(stack []byte) string {
	lines := strings.Split(string(stack), "\n")
	seenPanic := false
	for _, l := range lines {
		if strings.HasPrefix(l, "panic(") {
			seenPanic = true
			continue
		}
		if seenPanic && strings.HasPrefix(l, "github.com/twmb/franz-go/") {
			l = strings.TrimPrefix(l, "github.com/twmb/franz-go/")
			if i := strings.LastIndex(l, "("); i > 0 {
				l = l[:i]
			}
			return l
		}
	}
	return "unknown-site"
}

func hexClip(b []byte) string {
	if len(b) > 32<<10 {
		return fmt.Sprintf("%x...(%d bytes total)", b[:32<<10], len(b))
	}
	return fmt.Sprintf("%x", b)
}

func showBytes(b []byte) string {
	if b == nil {
		return "null"
	}
	if len(b) > 24 {
		return fmt.Sprintf("%x..(%d)", b[:24], len(b))
	}
	return fmt.Sprintf("%x", b)
}

func showRec(r *kgo.Record) string {
	if r == nil {
		return "<nil>"
	}
	var hs []string
	for _, h := range r.Headers {
		hs = append(hs, fmt.Sprintf("%q=%s", h.Key, showBytes(h.Value)))
	}
	return fmt.Sprintf("{offset %d ts %d key %s value %s headers [%s] codec %d tsType %d txn %v control %v pid %d epoch %d}",
		r.Offset, r.Timestamp.UnixMilli(), showBytes(r.Key), showBytes(r.Value), strings.Join(hs, " "),
		r.Attrs.CompressionType(), r.Attrs.TimestampType(), r.Attrs.IsTransactional(), r.Attrs.IsControl(), r.ProducerID, r.ProducerEpoch)
}

func showX(x xrec) string {
	var hs []string
	for _, h := range x.Headers {
		hs = append(hs, fmt.Sprintf("%q=%s", h.Key, showBytes(h.Value)))
	}
	b := &x.e.b
	return fmt.Sprintf("{offset %d ts %d key %s value %s headers [%s] codec %d logAppendTime %v txn %v control %v pid %d epoch %d (entry %s base %d)}",
		x.Offset, x.Timestamp, showBytes(x.Key), showBytes(x.Value), strings.Join(hs, " "), b.Codec, b.LogAppendTime, b.Transactional, b.Control, b.ProducerID, b.ProducerEpoch, x.e.kind, x.e.baseOffset())
}

func sameBytes(a, b []byte) bool {
	return bytes.Equal(a, b) && (a == nil) == (b == nil)
}

// diffRecord compares one returned record with the expected one; it returns
// the name of the first field that differs, or "".
func (m *monitor) diffRecord(got *kgo.Record, x xrec) string {
	b := &x.e.b
	if got == nil {
		return "nil-record"
	}
	if got.Offset != x.Offset {
		return "offset"
	}
	if !bytes.Equal(got.Key, x.Key) {
		return "key"
	}
	if !bytes.Equal(got.Value, x.Value) {
		return "value"
	}
	if (got.Key == nil) != (x.Key == nil) {
		return "key-nullness"
	}
	if (got.Value == nil) != (x.Value == nil) {
		return "value-nullness"
	}
	if len(got.Headers) != len(x.Headers) {
		return "header-count"
	}
	for i, h := range x.Headers {
		if got.Headers[i].Key != h.Key {
			return "header-key"
		}
		if !sameBytes(got.Headers[i].Value, h.Value) {
			return "header-value"
		}
	}
	if int(got.Attrs.CompressionType()) != b.Codec {
		return "attrs-compression"
	}
	switch b.Magic {
	case 2:
		if got.Timestamp.UnixMilli() != x.Timestamp {
			return "timestamp"
		}
		wantTT := int8(0)
		if b.LogAppendTime {
			wantTT = 1
		}
		if got.Attrs.TimestampType() != wantTT {
			return "attrs-timestamp-type"
		}
		if got.Attrs.IsTransactional() != b.Transactional {
			return "attrs-transactional"
		}
		if got.Attrs.IsControl() != b.Control {
			return "attrs-control"
		}
		if got.ProducerID != b.ProducerID {
			return "producer-id"
		}
		if got.ProducerEpoch != b.ProducerEpoch {
			return "producer-epoch"
		}
	case 1:
		if x.e.tsDontCare {
			// KIP-32 gives these records the wrapper's timestamp; observed, not judged
			m.r.Count("dontcare_v1_wrapper_logappendtime_timestamp", 1)
			switch got.Timestamp.UnixMilli() {
			case b.MaxTimestamp:
				m.r.Count("dontcare_v1_wrapper_logappendtime_timestamp/returned_wrapper_timestamp", 1)
			case x.Timestamp:
				m.r.Count("dontcare_v1_wrapper_logappendtime_timestamp/returned_inner_timestamp", 1)
			}
			break
		}
		if got.Timestamp.UnixMilli() != x.Timestamp {
			return "timestamp"
		}
		wantTT := int8(0)
		if b.LogAppendTime {
			wantTT = 1
		}
		if got.Attrs.TimestampType() != wantTT {
			return "attrs-timestamp-type"
		}
		if got.Attrs.IsTransactional() || got.Attrs.IsControl() {
			return "attrs-legacy-txn-control"
		}
	case 0:
		// a magic-0 message has no timestamp: the Timestamp value is not judged
		if got.Attrs.TimestampType() != -1 {
			return "attrs-timestamp-type"
		}
		if got.Attrs.IsTransactional() || got.Attrs.IsControl() {
			return "attrs-legacy-txn-control"
		}
	}
	return ""
}

// compare judges a returned record list against the expected one.
func (m *monitor) compare(got []*kgo.Record, want []xrec) (field string, idx int) {
	for i := 0; i < len(got) && i < len(want); i++ {
		if f := m.diffRecord(got[i], want[i]); f != "" {
			return f, i
		}
	}
	if len(got) > len(want) {
		return "extra-record", len(want)
	}
	if len(got) < len(want) {
		return "missing-record", len(got)
	}
	return "", 0
}

type window struct {
	g        *genLog
	from, to int // entries[from:to]
	data     []byte
	ends     []int // end position of each entry in data
}

func (g *genLog) window(from, to int) *window {
	w := &window{g: g, from: from, to: to}
	for i := from; i < to; i++ {
		w.data = append(w.data, g.entries[i].raw...)
		w.ends = append(w.ends, len(w.data))
	}
	return w
}

func (w *window) kinds() string {
	set := map[string]bool{}
	for i := w.from; i < w.to; i++ {
		e := &w.g.entries[i]
		k := e.kind
		if e.b.Codec != 0 {
			k += "+" + ccodec.Name(e.b.Codec)
		}
		if e.aborted {
			k += "+aborted"
		}
		set[k] = true
	}
	var ks []string
	for k := range set {
		ks = append(ks, k)
	}
	sort.Strings(ks)
	return strings.Join(ks, ",")
}

func (m *monitor) detail(w *window, cut int, p params, res result, want []xrec, extra map[string]any) map[string]any {
	d := map[string]any{
		"record_batches_hex": hexClip(w.data[:cut]),
		"bytes":              cut,
		"full_window_bytes":  len(w.data),
		"entry_ends":         w.ends,
		"opts":               p.String(),
		"entries":            w.kinds(),
		"returned_next":      res.next,
		"returned_err":       fmt.Sprint(res.err),
		"returned_count":     len(res.recs),
		"expected_count":     len(want),
	}
	for k, v := range extra {
		d[k] = v
	}
	return d
}

// firstUnreturnedData: the smallest offset >= req of a data record the
// reference says must be delivered, that lies in entries[fromEntry:] of the
// whole log. -1 if none.
func (g *genLog) firstUnreturnedData(fromEntry int, p params) (int64, bool) {
	for _, x := range g.expected(fromEntry, len(g.entries), p.req, p.readCommitted, false) {
		return x.Offset, true
	}
	return 0, false
}

// judgeWindow runs one structured case on the complete window.
func (m *monitor) judgeWindow(w *window, p params) (res result, ok bool) {
	r := m.r
	res = m.run(w.data, p)
	r.Eval(1)
	want := w.g.expected(w.from, w.to, p.req, p.readCommitted, p.keepControl)
	if res.panic != nil {
		m.viol("panic/"+res.site+"/valid-input", m.detail(w, len(w.data), p, res, want, map[string]any{"panic": fmt.Sprint(res.panic)}))
		return res, false
	}
	// only records at or after the requested offset
	for _, rec := range res.recs {
		if rec != nil && rec.Offset < p.req {
			m.viol("record-below-requested-offset", m.detail(w, len(w.data), p, res, want, map[string]any{"record": showRec(rec)}))
			return res, false
		}
	}
	if f, i := m.compare(res.recs, want); f != "" {
		ex := map[string]any{"first_difference_at_index": i, "field": f}
		if i < len(res.recs) {
			ex["got"] = showRec(res.recs[i])
		}
		if i < len(want) {
			ex["want"] = showX(want[i])
		}
		sig := "records-differ/" + f
		switch {
		case f == "extra-record" && i < len(res.recs) && res.recs[i].Attrs.IsControl():
			sig = "control-record-returned"
		case f == "extra-record" || f == "offset":
			// is the unexpected record one of an aborted transaction?
			if i < len(res.recs) && p.readCommitted {
				for k := w.from; k < w.to; k++ {
					e := &w.g.entries[k]
					if e.aborted && e.baseOffset() <= res.recs[i].Offset && res.recs[i].Offset <= e.lastOffset() {
						sig = "aborted-transaction-record-returned/list-" + p.abortedOrder
					}
				}
			}
		}
		m.viol(sig, m.detail(w, len(w.data), p, res, want, ex))
		return res, false
	}
	// next offset never passes an unreturned data record (here: one later in the log)
	if off, found := w.g.firstUnreturnedData(w.to, p); found && res.next > off {
		m.viol("next-offset-passes-unreturned-record/complete-input", m.detail(w, len(w.data), p, res, want, map[string]any{"first_unreturned_data_offset": off}))
		return res, false
	}
	if w.to > w.from {
		if last := w.g.entries[w.to-1].lastOffset(); res.next == max(p.req, last+1) {
			r.Count("next_offset_is_last_plus_one", 1)
		} else {
			r.Count("next_offset_other", 1)
		}
	}
	if res.err != nil {
		r.Count("valid_input_with_err_set", 1)
	}
	return res, true
}

// judgeTruncations cuts the window at byte boundaries and checks that the
// result is the one of the longest prefix of complete entries.
func (m *monitor) judgeTruncations(w *window, p params, cuts []int) {
	r := m.r
	type base struct {
		res  result
		want []xrec
		done bool
	}
	bases := make([]base, len(w.ends)+1) // by number of complete entries
	for _, cut := range cuts {
		nc := sort.SearchInts(w.ends, cut+1) // entries with end <= cut
		bs := &bases[nc]
		if !bs.done {
			end := 0
			if nc > 0 {
				end = w.ends[nc-1]
			}
			bs.res = m.run(w.data[:end], p)
			bs.want = w.g.expected(w.from, w.from+nc, p.req, p.readCommitted, p.keepControl)
			bs.done = true
		}
		res := m.run(w.data[:cut], p)
		r.Eval(1)
		r.Count("truncation_points", 1)
		if res.panic != nil {
			m.viol("panic/"+res.site+"/truncated-input", m.detail(w, cut, p, res, bs.want, map[string]any{"panic": fmt.Sprint(res.panic)}))
			return
		}
		if f, i := m.compare(res.recs, bs.want); f != "" {
			ex := map[string]any{"first_difference_at_index": i, "field": f, "complete_entries": nc}
			if i < len(res.recs) {
				ex["got"] = showRec(res.recs[i])
			}
			if i < len(bs.want) {
				ex["want"] = showX(bs.want[i])
			}
			m.viol("truncated-input-records-differ/"+f, m.detail(w, cut, p, res, bs.want, ex))
			return
		}
		if bs.res.panic == nil && res.next != bs.res.next {
			m.viol("truncated-trailing-batch-moves-next-offset", m.detail(w, cut, p, res, bs.want, map[string]any{
				"complete_entries": nc, "next_offset_without_the_partial_batch": bs.res.next}))
			return
		}
		if off, found := w.g.firstUnreturnedData(w.from+nc, p); found && res.next > off {
			m.viol("next-offset-passes-unreturned-record/truncated-input", m.detail(w, cut, p, res, bs.want, map[string]any{"first_unreturned_data_offset": off, "complete_entries": nc}))
			return
		}
	}
}

// pickParams draws request offset, isolation, flags and the aborted list for
// a window starting at entry `from`.
func pickParams(rng *rand.Rand, g *genLog) (p params, from int) {
	first := g.entries[0].baseOffset()
	last := g.entries[len(g.entries)-1].lastOffset()
	switch rng.IntN(10) {
	case 0:
		p.req = first
	case 1:
		p.req = max(0, first-int64(rng.IntN(3)))
	case 2, 3:
		// the base offset of some entry
		p.req = g.entries[rng.IntN(len(g.entries))].baseOffset()
	case 4:
		p.req = g.entries[rng.IntN(len(g.entries))].lastOffset()
	default:
		p.req = first + rng.Int64N(last-first+1) // anywhere: middle of batches, compaction gaps
	}
	for from = 0; from < len(g.entries)-1 && g.entries[from].lastOffset() < p.req; from++ {
	}
	if rng.IntN(7) == 0 {
		from = max(0, from-1-rng.IntN(2)) // a broker that starts a little early
	}
	p.readCommitted = rng.IntN(2) == 0
	p.keepControl = rng.IntN(2) == 0
	p.disableCRC = rng.IntN(5) == 0
	return p, from
}

func (m *monitor) structured(idx int, sweep bool) {
	r := m.r
	rng := r.Rand("structured", idx)
	g, err := generate(rng)
	if err != nil {
		r.Inconclusive("generator: " + err.Error())
		return
	}
	// self check of the reference: its decoder must read back what its encoder wrote
	all := g.window(0, len(g.entries))
	bs, n, derr := reflog.DecodeBatches(all.data)
	if derr != nil || n != len(all.data) || len(bs) != len(g.entries) {
		r.Inconclusive(fmt.Sprintf("reference decoder rejects reference encoder output: %v (%d of %d bytes, %d of %d entries)", derr, n, len(all.data), len(bs), len(g.entries)))
		return
	}
	for i := range bs {
		want := g.entries[i].b.Records
		if len(bs[i].Records) != len(want) {
			r.Inconclusive("reference decoder/encoder disagree on record count")
			return
		}
		for k := range want {
			a, b := bs[i].Records[k], want[k]
			if a.Offset != b.Offset || !sameBytes(a.Key, b.Key) || !sameBytes(a.Value, b.Value) || len(a.Headers) != len(b.Headers) || (a.Timestamp != b.Timestamp && !g.entries[i].tsDontCare) {
				r.Inconclusive(fmt.Sprintf("reference decoder/encoder disagree on a record: %+v vs %+v", a, b))
				return
			}
		}
	}
	reps := 3
	if sweep {
		reps = 1
	}
	for rep := 0; rep < reps; rep++ {
		p, from := pickParams(rng, g)
		to := from + 1 + rng.IntN(len(g.entries)-from)
		if rng.IntN(3) == 0 {
			to = len(g.entries)
		}
		w := g.window(from, to)
		for sweep && len(w.data) > 2500 && to-from > 1 {
			// the sweep costs (bytes x entries): keep swept windows small
			to = from + (to-from)/2
			w = g.window(from, to)
		}
		upper := g.entries[to-1].lastOffset()
		if rng.IntN(3) == 0 {
			upper += int64(rng.IntN(60))
		}
		p.aborted, p.abortedOrder = orderAborted(rng, g.abortedList(p.req, upper))
		if !p.readCommitted && rng.IntN(2) == 0 {
			p.aborted = nil // read_uncommitted responses carry no list
		}
		res, ok := m.judgeWindow(w, p)
		// distinctness: what the window contains and how it was asked for
		abortedInWin, multiAbortPid := 0, false
		perPid := map[int64]int{}
		for _, a := range p.aborted {
			perPid[a.pid]++
			if perPid[a.pid] > 1 {
				multiAbortPid = true
			}
		}
		for i := from; i < to; i++ {
			if g.entries[i].aborted {
				abortedInWin++
			}
		}
		mid := false
		if e := &g.entries[from]; e.baseOffset() < p.req && p.req <= e.lastOffset() {
			mid = true
			r.Count("request_offset_inside_first_entry", 1)
		}
		if abortedInWin > 0 && p.readCommitted {
			r.Count("windows_with_aborted_data_under_read_committed", 1)
		}
		if multiAbortPid && p.readCommitted {
			r.Count("windows_with_several_aborted_txns_of_one_producer/"+p.abortedOrder, 1)
		}
		r.DistinctHash(w.kinds(), p.readCommitted, p.keepControl, mid, p.abortedOrder, len(p.aborted) > 0, multiAbortPid, "complete")
		if r.WantSample() && ok && len(res.recs) > 2 && abortedInWin > 0 {
			r.Sample(map[string]any{"kind": "structured", "entries": w.kinds(), "bytes": len(w.data), "opts": p.String(), "returned_records": len(res.recs), "next_offset": res.next})
		}
		if !ok {
			return
		}
		// one random cut inside the window for every case
		if len(w.data) > 0 {
			m.judgeTruncations(w, p, []int{rng.IntN(len(w.data))})
		}
		if sweep {
			cuts := make([]int, len(w.data)+1)
			for i := range cuts {
				cuts[i] = i
			}
			m.judgeTruncations(w, p, cuts)
			r.Count("full_truncation_sweeps", 1)
			r.DistinctHash(w.kinds(), p.readCommitted, p.keepControl, "sweep")
		}
	}
}

// innerShort: a complete, checksummed v2 batch that declares n records but
// whose records payload holds fewer (cut at a record boundary or inside a
// record). The offsets of the missing records hold data the consumer was not
// given, so the next offset must not pass the first of them.
func (m *monitor) innerShort(idx int) {
	r := m.r
	rng := r.Rand("innershort", idx)
	n := 2 + rng.IntN(8)
	base := int64(rng.IntN(1000))
	b := reflog.Batch{Magic: 2, BaseOffset: base, LastOffsetDelta: int32(n - 1 + rng.IntN(3)), ProducerID: -1, ProducerEpoch: -1, BaseSequence: -1,
		BaseTimestamp: 1_700_000_000_000, MaxTimestamp: 1_700_000_000_999}
	if rng.IntN(2) == 0 {
		b.Codec = 1 + rng.IntN(4)
	}
	var recs []reflog.Record
	for i := 0; i < n; i++ {
		recs = append(recs, reflog.Record{Offset: base + int64(i), Timestamp: b.BaseTimestamp + int64(i), Key: genField(rng, true), Value: genField(rng, true), Headers: genHeaders(rng)})
	}
	b.Records = recs
	keep := rng.IntN(n) // records fully present: 0..n-1
	var payload []byte
	for i := 0; i < keep; i++ {
		payload = reflog.EncodeRecordV2(payload, &recs[i], base, b.BaseTimestamp, false)
	}
	class := "record-boundary"
	if rng.IntN(2) == 0 {
		next := reflog.EncodeRecordV2(nil, &recs[keep], base, b.BaseTimestamp, false)
		payload = append(payload, next[:rng.IntN(len(next))]...)
		class = "mid-record"
	}
	if len(payload) == 0 {
		class = "no-record-bytes"
	}
	declared := int32(n)
	raw, err := reflog.Encode(&b, &reflog.EncodeOptions{RawRecords: append([]byte{}, payload...), NumRecords: &declared})
	if err != nil {
		r.Inconclusive("generator: " + err.Error())
		return
	}
	// a well-formed batch in front, so the short one is not the first
	var data []byte
	var front []reflog.Record
	if rng.IntN(2) == 0 {
		fb := reflog.Batch{Magic: 2, BaseOffset: base - 3, LastOffsetDelta: 2, ProducerID: -1, ProducerEpoch: -1, BaseSequence: -1, BaseTimestamp: 5, MaxTimestamp: 5,
			Records: []reflog.Record{{Offset: base - 3, Timestamp: 5, Value: []byte("front")}, {Offset: base - 1, Timestamp: 5, Value: []byte("front2")}}}
		if base >= 3 {
			fr, _ := reflog.Encode(&fb, nil)
			data = append(data, fr...)
			front = fb.Records
		}
	}
	data = append(data, raw...)
	p := params{req: base - 3 + int64(rng.IntN(keep+4)), readCommitted: rng.IntN(2) == 0, keepControl: rng.IntN(2) == 0, abortedOrder: "none"}
	if p.req < 0 {
		p.req = 0
	}
	res := m.run(data, p)
	r.Eval(1)
	r.Count("inner_short_batches/"+class, 1)
	det := func(extra map[string]any) map[string]any {
		d := map[string]any{"record_batches_hex": hexClip(data), "opts": p.String(), "declared_records": n, "records_fully_present": keep, "class": class,
			"codec": b.Codec, "base_offset": base, "returned_next": res.next, "returned_count": len(res.recs), "returned_err": fmt.Sprint(res.err)}
		for k, v := range extra {
			d[k] = v
		}
		return d
	}
	if res.panic != nil {
		m.viol("panic/"+res.site, det(map[string]any{"panic": fmt.Sprint(res.panic)}))
		return
	}
	// whatever is returned must be true records of the log, in order
	truth := map[int64]reflog.Record{}
	for _, x := range front {
		truth[x.Offset] = x
	}
	for _, x := range recs {
		truth[x.Offset] = x
	}
	prev := int64(-1)
	for _, g := range res.recs {
		t, ok := truth[g.Offset]
		if !ok || g.Offset < p.req || g.Offset <= prev || !bytes.Equal(g.Key, t.Key) || !bytes.Equal(g.Value, t.Value) {
			m.viol("short-records-payload/fabricated-or-misplaced-record", det(map[string]any{"record": showRec(g)}))
			return
		}
		prev = g.Offset
	}
	// the first record that is declared but absent, at or after the request
	returned := map[int64]bool{}
	for _, g := range res.recs {
		returned[g.Offset] = true
	}
	for i := 0; i < n; i++ {
		off := base + int64(i)
		if off >= p.req && !returned[off] {
			if res.next > off {
				m.viol("next-offset-passes-unreturned-record/short-records-payload", det(map[string]any{"first_unreturned_data_offset": off}))
				return
			}
			break
		}
	}
	r.DistinctHash("innershort", class, b.Codec, keep == 0, p.req > base)
}

// ---------------------------------------------------------------------------
// hostile inputs: never a panic, and never a record below the requested offset

func (m *monitor) hostileOne(class string, data []byte, p params, nontrivial bool) {
	r := m.r
	res := m.run(data, p)
	r.Eval(1)
	if res.panic != nil {
		m.viol("panic/"+res.site, map[string]any{"class": class, "record_batches_hex": hexClip(data), "bytes": len(data), "opts": p.String(), "panic": fmt.Sprint(res.panic)})
		return
	}
	for _, rec := range res.recs {
		if rec == nil {
			m.viol("nil-record/"+class, map[string]any{"record_batches_hex": hexClip(data), "opts": p.String()})
			return
		}
		if rec.Offset < p.req {
			// reachable only through offset arithmetic that wraps (a batch at offset 2^63-1);
			// the statement promises nothing but "no panic" for arbitrary bytes: observed, not judged
			r.Count("hostile_record_below_requested_offset_not_judged", 1)
			break
		}
	}
	outcome := "err"
	if res.err == nil {
		outcome = "ok"
	}
	if len(res.recs) > 0 {
		outcome += "+records"
	}
	r.Count("hostile_"+outcome, 1)
	if nontrivial {
		r.Distinct("hostile/" + class + "/" + outcome)
	}
}

var boundary32 = []uint32{0, 1, 2, 0x7f, 0x80, 0xff, 0x100, 0x7fff, 0x8000, 0xffff, 1 << 20, 1 << 30, 0x7fffffff, 0x80000000, 0x80000001, 0xfffffff3, 0xfffffff4, 0xfffffffe, 0xffffffff}

func (m *monitor) hostile(idx int) {
	r := m.r
	rng := r.Rand("hostile", idx)
	g, err := generate(rng)
	if err != nil {
		r.Inconclusive("generator: " + err.Error())
		return
	}
	for rep := 0; rep < 24; rep++ {
		p, from := pickParams(rng, g)
		to := from + 1 + rng.IntN(min(4, len(g.entries)-from))
		w := g.window(from, to)
		p.aborted, p.abortedOrder = orderAborted(rng, g.abortedList(p.req, g.entries[to-1].lastOffset()))
		// a hostile broker may also repeat, invent or drop aborted entries
		switch rng.IntN(4) {
		case 0:
			p.aborted = append(p.aborted, p.aborted...)
		case 1:
			for i := 0; i < 3; i++ {
				p.aborted = append(p.aborted, abortedTxn{pid: g.entries[rng.IntN(len(g.entries))].b.ProducerID, first: rng.Int64N(1 << 20)})
			}
		}
		p.disableCRC = rng.IntN(2) == 0
		data := bytes.Clone(w.data)
		starts := append([]int{0}, w.ends[:len(w.ends)-1]...)
		pos := starts[rng.IntN(len(starts))]
		class := ""
		switch k := rng.IntN(12); k {
		case 0:
			class = "bitflips"
			for i := 0; i < 1+rng.IntN(4); i++ {
				data[rng.IntN(len(data))] ^= 1 << rng.IntN(8)
			}
		case 1:
			class = "header-byte"
			data[pos+rng.IntN(min(61, len(data)-pos))] = byte(rng.Uint32())
			fixCRC(data, pos)
		case 2:
			class = "length-field"
			binary.BigEndian.PutUint32(data[pos+8:], boundary32[rng.IntN(len(boundary32))])
		case 3:
			class = "length-field-near"
			l := binary.BigEndian.Uint32(data[pos+8:])
			binary.BigEndian.PutUint32(data[pos+8:], l+uint32(rng.IntN(9))-4)
			fixCRC(data, pos)
		case 4:
			if data[pos+16] != 2 || len(data)-pos < 61 {
				continue
			}
			field := []struct {
				name string
				at   int
			}{{"numRecords", 57}, {"lastOffsetDelta", 23}, {"baseSequence", 53}}[rng.IntN(3)]
			class = "v2-" + field.name
			binary.BigEndian.PutUint32(data[pos+field.at:], boundary32[rng.IntN(len(boundary32))])
			fixCRC(data, pos)
		case 5:
			if data[pos+16] != 2 || len(data)-pos < 61 {
				continue
			}
			class = "v2-attributes"
			binary.BigEndian.PutUint16(data[pos+21:], uint16(rng.Uint32()))
			fixCRC(data, pos)
		case 6:
			class = "base-offset"
			binary.BigEndian.PutUint64(data[pos:], []uint64{0, 1<<64 - 1, 1<<63 - 1, 1 << 63, uint64(p.req), rng.Uint64()}[rng.IntN(6)])
			fixCRC(data, pos)
		case 7:
			class = "magic"
			data[pos+16] = []byte{0, 1, 2, 3, 0xff}[rng.IntN(5)]
			fixCRC(data, pos)
		case 8:
			class = "payload-scramble"
			if len(data)-pos > 70 {
				i := pos + 61 + rng.IntN(len(data)-pos-61)
				j := min(len(data), i+1+rng.IntN(16))
				copy(data[i:j], randBytes(rng, j-i))
				fixCRC(data, pos)
			}
		case 9:
			class = "truncate+garbage"
			data = append(data[:rng.IntN(len(data)+1)], randBytes(rng, rng.IntN(40))...)
		case 10:
			class = "delete-bytes"
			i := rng.IntN(len(data))
			data = append(data[:i], data[min(len(data), i+1+rng.IntN(6)):]...)
		default:
			class = "varint-poke"
			// set a byte in the records area to a continuation / sign pattern
			if len(data)-pos > 62 {
				data[pos+61+rng.IntN(len(data)-pos-61)] = []byte{0xff, 0x80, 0x01, 0x7f, 0x00}[rng.IntN(5)]
				fixCRC(data, pos)
			}
		}
		m.hostileOne(class, data, p, true)
	}
	// crafted: wrappers around hostile inner sets, batches around hostile payloads
	for rep := 0; rep < 8; rep++ {
		p := params{req: int64(rng.IntN(20)), readCommitted: rng.IntN(2) == 0, keepControl: rng.IntN(2) == 0, disableCRC: rng.IntN(2) == 0, abortedOrder: "none"}
		var data []byte
		class := ""
		junk := randBytes(rng, rng.IntN(120))
		goodInner := reflog.EncodeMessage(nil, int8(rng.IntN(2)), int64(rng.IntN(10)), 0, 12345, []byte("k"), []byte("v"))
		switch rng.IntN(9) {
		case 0:
			class = "wrapper-junk-inner"
			magic := int8(rng.IntN(2))
			codec := 1 + rng.IntN(3)
			b := reflog.Batch{Magic: magic, Codec: codec, Records: []reflog.Record{{Offset: 10}}}
			data, _ = reflog.Encode(&b, &reflog.EncodeOptions{RawRecords: append(goodInner, junk...)})
		case 1:
			class = "wrapper-inner-length-field"
			inner := bytes.Clone(goodInner)
			binary.BigEndian.PutUint32(inner[8:], boundary32[rng.IntN(len(boundary32))])
			inner = append(inner, goodInner...)
			b := reflog.Batch{Magic: int8(rng.IntN(2)), Codec: 1 + rng.IntN(3), Records: []reflog.Record{{Offset: 10}}}
			data, _ = reflog.Encode(&b, &reflog.EncodeOptions{RawRecords: inner})
		case 2:
			class = "wrapper-mixed-inner-magic"
			inner := reflog.EncodeMessage(nil, 0, 0, 0, 0, nil, []byte("a"))
			inner = reflog.EncodeMessage(inner, 1, 1, 0, 99, nil, []byte("b"))
			inner = reflog.EncodeMessage(inner, int8(2+rng.IntN(3)), 2, 0, 99, nil, []byte("c"))
			b := reflog.Batch{Magic: int8(rng.IntN(2)), Codec: 1 + rng.IntN(3), Records: []reflog.Record{{Offset: 10}}}
			data, _ = reflog.Encode(&b, &reflog.EncodeOptions{RawRecords: inner})
		case 3:
			class = "nested-wrapper"
			innerB := reflog.Batch{Magic: 1, Codec: reflog.CodecGzip, Records: []reflog.Record{{Offset: 0, Value: []byte("x")}, {Offset: 1, Value: []byte("y")}}}
			inner, _ := reflog.Encode(&innerB, nil)
			b := reflog.Batch{Magic: 1, Codec: reflog.CodecSnappy, Records: []reflog.Record{{Offset: 10}}}
			data, _ = reflog.Encode(&b, &reflog.EncodeOptions{RawRecords: inner})
		case 4:
			class = "wrapper-offset-below-inner"
			b := reflog.Batch{Magic: 1, Codec: 1 + rng.IntN(3), SetWrapperOffset: true, WrapperOffset: int64(rng.IntN(3)),
				Records: []reflog.Record{{Offset: 5, Value: []byte("x")}, {Offset: 9, Value: []byte("y")}}}
			data, _ = reflog.Encode(&b, nil)
		case 5:
			class = "v2-compressed-junk"
			b := reflog.Batch{Magic: 2, BaseOffset: 5, LastOffsetDelta: 3, Codec: 1 + rng.IntN(4)}
			n := int32(rng.IntN(5))
			data, _ = reflog.Encode(&b, &reflog.EncodeOptions{NumRecords: &n, Compress: func(int, []byte) ([]byte, error) { return junk, nil }})
		case 6:
			class = "v2-junk-records"
			b := reflog.Batch{Magic: 2, BaseOffset: 5, LastOffsetDelta: 3, Codec: rng.IntN(5)}
			n := int32(boundary32[rng.IntN(len(boundary32))])
			data, _ = reflog.Encode(&b, &reflog.EncodeOptions{NumRecords: &n, RawRecords: junk})
		case 7:
			class = "v2-many-control-markers"
			b := reflog.ControlBatch(7, 1000, 0, reflog.ControlAbort, 5, 0)
			for i := 0; i < 5; i++ {
				b.Records = append(b.Records, reflog.Record{Offset: 8 + int64(i), Timestamp: 5, Key: reflog.ControlKey(0, int16(rng.IntN(3))), Value: []byte{0, 0, 0, 0, 0, 1}})
			}
			b.LastOffsetDelta = 5
			data, _ = reflog.Encode(&b, nil)
			data = append(data, data...)
			p.aborted = []abortedTxn{{pid: 1000, first: 0}}
			p.readCommitted = true
		default:
			class = "random-bytes"
			data = randBytes(rng, rng.IntN(200))
			if len(data) > 17 && rng.IntN(2) == 0 {
				binary.BigEndian.PutUint32(data[8:], uint32(len(data)-12))
				data[16] = byte(rng.IntN(3))
			}
		}
		if data != nil {
			m.hostileOne(class, data, p, true)
		}
	}
}

// crafted feeds a fixed list of small hand-made hostile inputs (the minimal
// forms of what the random classes reach), so that a defect found by them is
// reported with the same input under every seed.
func (m *monitor) crafted() {
	one := int32(1)
	v2 := func(codec int, n int32, payload []byte) []byte {
		b := reflog.Batch{Magic: 2, BaseOffset: 0, LastOffsetDelta: 0, Codec: codec, ProducerID: -1, ProducerEpoch: -1, BaseSequence: -1}
		raw, _ := reflog.Encode(&b, &reflog.EncodeOptions{NumRecords: &n, RawRecords: payload})
		return raw
	}
	cases := []struct {
		class string
		data  []byte
	}{
		// the record length is a 5-byte varint that overflows 32 bits
		{"v2-record-length-varint-overflow", v2(0, one, []byte{0xff, 0xff, 0xff, 0xff, 0xff})},
		{"v2-record-length-varint-overflow-5th-byte", v2(0, one, []byte{0x80, 0x80, 0x80, 0x80, 0x10, 0x00})},
		{"v2-record-length-varint-overflow-gzip", v2(reflog.CodecGzip, one, []byte{0xff, 0xff, 0xff, 0xff, 0x7f, 0, 0, 0})},
		{"v2-record-length-varint-6-bytes", v2(0, one, []byte{0x80, 0x80, 0x80, 0x80, 0x80, 0x01})},
		{"v2-record-length-negative", v2(0, one, []byte{0x01})},
		{"v2-record-length-max", v2(0, one, []byte{0xfe, 0xff, 0xff, 0xff, 0x0f})},
		{"v2-record-length-short", v2(0, one, []byte{0x80})},
		{"v2-record-inner-varint-overflow", v2(0, one, []byte{0x0e, 0x00, 0x00, 0x00, 0xff, 0xff, 0xff, 0xff, 0xff, 0x00, 0x00})},
		{"v2-record-header-count-overflow", v2(0, one, []byte{0x10, 0x00, 0x00, 0x00, 0x01, 0x01, 0xff, 0xff, 0xff, 0xff, 0xff})},
		{"v2-record-header-count-huge", v2(0, one, []byte{0x10, 0x00, 0x00, 0x00, 0x01, 0x01, 0xfe, 0xff, 0xff, 0xff, 0x0f})},
		{"v2-record-key-length-huge", v2(0, one, []byte{0x10, 0x00, 0x00, 0x00, 0xfe, 0xff, 0xff, 0xff, 0x0f, 0x01, 0x00})},
		{"v2-num-records-negative", v2(0, -1, []byte{0x00})},
		{"v2-num-records-min", v2(0, -1<<31, nil)},
		{"v2-num-records-max-empty", v2(0, 1<<31-1, nil)},
		{"v2-num-records-max", v2(0, 1<<31-1, []byte{0x00, 0x00})},
	}
	for _, c := range cases {
		for _, crc := range []bool{false, true} {
			for _, rc := range []bool{false, true} {
				m.hostileOne("crafted/"+c.class, c.data, params{req: 0, disableCRC: crc, readCommitted: rc, abortedOrder: "none"}, true)
			}
		}
	}
	m.r.Count("crafted_inputs", len(cases))
}

func TestCheck(t *testing.T) {
	r := vh.Start(t, "C06")
	m := &monitor{r: r, dec: kgo.DefaultDecompressor()}
	workers := runtime.NumCPU()

	nStructured := r.Pick(7000, 700_000)
	nSweeps := r.Pick(600, 15000)
	nShort := r.Pick(4000, 200_000)
	nHostile := r.Pick(1600, 160_000)

	t0 := time.Now()
	phase := func(name string) { fmt.Printf("phase %s done at %.1fs\n", name, time.Since(t0).Seconds()) }
	m.crafted()

	vh.Parallel(nStructured, workers, func(i int) {
		if m.r.Violations() > 10 {
			return
		}
		m.structured(i, false)
	})
	phase("structured")
	vh.Parallel(nSweeps, workers, func(i int) {
		if m.r.Violations() > 10 {
			return
		}
		m.structured(1_000_000+i, true)
	})
	phase("sweeps")
	vh.Parallel(nShort, workers, func(i int) {
		if m.r.Violations() > 10 {
			return
		}
		m.innerShort(i)
	})
	phase("short-payload")
	vh.Parallel(nHostile, workers, func(i int) {
		if m.r.Violations() > 10 {
			return
		}
		m.hostile(i)
	})

	phase("hostile")
	r.Finish("exploration",
		"structured: a seeded generator builds a log (styles: v2, transaction-heavy v2 with 1-2 producers, message set v0, v1, mixed v0->v1->v2, any per-entry mix of the three formats) of 3-35 entries with the reference encoder: v2 batches (codecs none/gzip/snappy raw+xerial/lz4/zstd, several encoder settings, transactional/idempotent/plain producers, LogAppendTime, null/empty keys and values, headers, compaction gaps, empty batches, whole-batch gaps), commit/abort markers, legacy messages and compressed wrappers with inner gaps; each case = (window of the log, request offset anywhere incl. inside a batch or a gap, isolation level, KeepControlRecords, CRC validation on/off, aborted list ascending/descending/shuffled), judged on the complete window and on one random cut; sweeps: every byte boundary of the window; short-payload: a checksummed v2 batch declaring more records than its payload holds; hostile: 12 mutation classes of valid windows with checksum repair, crafted wrappers/batches, random bytes. Non-trivial: the reference decoder reads >= 1 entry from the input (structured) / the input derives from a valid window or carries a plausible header (hostile). Distinct by hash(entry kinds+codecs+aborted in the window, isolation, keep-control, offset-inside-entry, aborted-list order, several aborts of one producer, complete|sweep) / (class, outcome)",
		"internal/reflog (encoder, decoder, cgo codecs) is the trusted reference; its decoder re-reads every generated log before the case is judged",
		"expected records are known by construction: a data batch is 'aborted' iff the generator closed its transaction with an abort marker; the aborted list given to the parser holds the aborted transactions with marker offset >= request offset and first offset <= the window's end (what a broker attaches)",
		"'unreturned data record' is read as a non-control record at or after the request offset that the reference says must be delivered (later in the generated log, in the cut-off entry, or declared by a batch whose payload is short) and that was not returned",
		"not judged: the Timestamp value of magic-0 messages (they have none); timestamp and timestamp type of records inside a magic-1 wrapper flagged LogAppendTime (counted as dontcare_v1_wrapper_logappendtime_timestamp); producer id/epoch of legacy messages; LeaderEpoch, Topic, Partition; fp.Err; the exact next offset (only its upper bound and its stability under truncation); lz4 inside magic-0 wrappers and zstd inside legacy wrappers are only fed as hostile input",
	)
}
