package c06

import (
	"encoding/hex"
	"encoding/json"
	"fmt"
	"os"
	"regexp"
	"runtime/debug"
	"strconv"
	"strings"
	"testing"

	"github.com/twmb/franz-go/pkg/kgo"
	"github.com/twmb/franz-go/pkg/kmsg"
	"verifharness/internal/reflog"
)

// TestReplay re-runs the input of a replay file (C06_REPLAY) and prints the stack of a panic.
func TestReplay(t *testing.T) {
	path := os.Getenv("C06_REPLAY")
	if path == "" {
		t.Skip()
	}
	raw, _ := os.ReadFile(path)
	var d struct {
		Detail map[string]any `json:"detail"`
	}
	json.Unmarshal(raw, &d)
	data, _ := hex.DecodeString(d.Detail["record_batches_hex"].(string))
	opts := d.Detail["opts"].(string)
	get := func(k string) string { return regexp.MustCompile(k + `=(\S+)`).FindStringSubmatch(opts)[1] }
	off, _ := strconv.ParseInt(get("offset"), 10, 64)
	o := kgo.ProcessFetchPartitionOpts{Offset: off, KeepControlRecords: get("keep_control") == "true", DisableCRCValidation: get("disable_crc") == "true", IsolationLevel: kgo.ReadUncommitted()}
	if get("read_committed") == "true" {
		o.IsolationLevel = kgo.ReadCommitted()
	}
	rp := &kmsg.FetchResponseTopicPartition{RecordBatches: data}
	for _, m := range regexp.MustCompile(`\{(\d+) (\d+) (\d+)\}`).FindAllStringSubmatch(opts[strings.Index(opts, "aborted"):], -1) {
		pid, _ := strconv.ParseInt(m[1], 10, 64)
		first, _ := strconv.ParseInt(m[2], 10, 64)
		rp.AbortedTransactions = append(rp.AbortedTransactions, kmsg.FetchResponseTopicPartitionAbortedTransaction{ProducerID: pid, FirstOffset: first})
	}
	bs, n, err := reflog.DecodeBatchesOpts(data, reflog.DecodeOptions{SkipCRC: o.DisableCRCValidation})
	fmt.Printf("reference: %d entries, %d of %d bytes, err %v\n", len(bs), n, len(data), err)
	for _, b := range bs {
		fmt.Printf("  magic %d base %d lastDelta %d codec %d n %d recs %d txn %v ctl %v pid %d\n", b.Magic, b.BaseOffset, b.LastOffsetDelta, b.Codec, b.NumRecords, len(b.Records), b.Transactional, b.Control, b.ProducerID)
	}
	defer func() {
		if p := recover(); p != nil {
			fmt.Printf("PANIC %v\n%s\n", p, debug.Stack())
		}
	}()
	fp, next := kgo.ProcessFetchPartition(o, rp, kgo.DefaultDecompressor(), nil)
	fmt.Printf("next %d err %v records %d\n", next, fp.Err, len(fp.Records))
	for _, r := range fp.Records {
		fmt.Println("  ", showRec(r))
	}
}
