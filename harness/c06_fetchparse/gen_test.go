package c06

import (
	"encoding/binary"
	"fmt"
	"math/rand/v2"
	"sort"

	"verifharness/internal/reflog"
	"verifharness/internal/reflog/ccodec"
)

// entry is one top-level log entry the generator built, with what it knows
// about it by construction.
type entry struct {
	b       reflog.Batch // the description that was encoded
	raw     []byte
	kind    string // v2, v2-empty, v2-control, v0, v1, v0-wrapper, v1-wrapper
	aborted bool   // data batch that belongs to an aborted transaction
	// tsDontCare: v1 wrapper flagged LogAppendTime - see the assumption in TestCheck.
	tsDontCare bool
}

func (e *entry) lastOffset() int64 { return e.b.LastOffset() }
func (e *entry) baseOffset() int64 {
	if e.b.Magic == 2 {
		return e.b.BaseOffset
	}
	return e.b.Records[0].Offset
}

type abortedTxn struct {
	pid    int64
	first  int64 // first offset of the transaction
	marker int64 // offset of the abort marker
}

type genLog struct {
	entries []entry
	aborted []abortedTxn
	style   string
	feats   map[string]bool
}

func randBytes(rng *rand.Rand, n int) []byte {
	b := make([]byte, n)
	for i := range b {
		b[i] = byte(rng.Uint32())
	}
	return b
}

// nullable value generator: nil (null), empty, short random, compressible, occasionally larger.
func genField(rng *rand.Rand, allowNull bool) []byte {
	switch k := rng.IntN(12); {
	case k == 0 && allowNull:
		return nil
	case k == 1:
		return []byte{}
	case k < 8:
		return randBytes(rng, 1+rng.IntN(12))
	case k < 11:
		n := 1 + rng.IntN(200)
		b := make([]byte, n)
		for i := range b {
			b[i] = "abcab"[i%5]
		}
		return b
	default:
		return randBytes(rng, 200+rng.IntN(1500))
	}
}

func genHeaders(rng *rand.Rand) []reflog.Header {
	if rng.IntN(3) != 0 {
		return nil
	}
	n := 1 + rng.IntN(4)
	hs := make([]reflog.Header, n)
	for i := range hs {
		hs[i].Key = string(randBytes(rng, rng.IntN(6)))
		if rng.IntN(2) == 0 {
			hs[i].Key = fmt.Sprintf("h%d", rng.IntN(10))
		}
		hs[i].Value = genField(rng, true)
		if len(hs[i].Value) > 40 {
			hs[i].Value = hs[i].Value[:40]
		}
	}
	return hs
}

// compressor picks one concrete encoder setting for the codec: the reference
// side produces what different real producers would (raw vs xerial snappy,
// linked vs independent lz4 blocks, levels).
func compressor(rng *rand.Rand) (func(codec int, p []byte) ([]byte, error), string) {
	v := rng.IntN(4)
	name := fmt.Sprintf("enc%d", v)
	return func(codec int, p []byte) ([]byte, error) {
		switch codec {
		case reflog.CodecSnappy:
			switch v {
			case 0:
				if len(p) == 0 {
					return ccodec.SnappyRaw(p)
				}
				return ccodec.SnappyXerial(p, 32<<10)
			case 1:
				return ccodec.SnappyRaw(p)
			case 2:
				if len(p) == 0 {
					return ccodec.SnappyRaw(p)
				}
				return ccodec.SnappyXerial(p, 64)
			default:
				return ccodec.SnappyRaw(p)
			}
		case reflog.CodecLZ4:
			return ccodec.LZ4Frame(p, []int{0, 0, 3, 9}[v], v%2 == 0, v >= 2)
		case reflog.CodecGzip:
			return ccodec.CompressLevel(codec, p, []int{0, 1, 9, 6}[v])
		case reflog.CodecZstd:
			return ccodec.CompressLevel(codec, p, []int{0, 1, 19, -3}[v])
		}
		return ccodec.Compress(codec, p)
	}, name
}

type producer struct {
	pid      int64
	epoch    int16
	seq      int32
	open     bool
	first    int64
	firstIdx int
}

// generate builds one log: a sequence of entries with ascending offsets.
func generate(rng *rand.Rand) (*genLog, error) {
	g := &genLog{feats: map[string]bool{}}
	styles := []string{"v2", "v2", "v2", "v2-txn-heavy", "v2-txn-heavy", "v0", "v1", "mixed", "anymix"}
	g.style = styles[rng.IntN(len(styles))]
	off := int64(rng.IntN(50))
	switch rng.IntN(8) {
	case 0:
		off = 0
	case 1:
		off = int64(1)<<40 + int64(rng.IntN(1000))
	case 2:
		off = int64(1)<<31 - 5 + int64(rng.IntN(10))
	}
	ts := int64(1_600_000_000_000) + int64(rng.IntN(1_000_000))
	comp, compName := compressor(rng)
	g.feats[compName] = true
	eo := &reflog.EncodeOptions{Compress: comp}

	nEntries := 3 + rng.IntN(14)
	if g.style == "v2-txn-heavy" {
		nEntries = 10 + rng.IntN(25)
	}
	// producers
	var prods []*producer
	np := 1 + rng.IntN(4)
	if g.style == "v2-txn-heavy" {
		np = 1 + rng.IntN(2)
	}
	for i := 0; i < np; i++ {
		p := &producer{pid: int64(1000 + i), epoch: int16(rng.IntN(5))}
		if rng.IntN(4) == 0 {
			p.pid = int64(rng.Uint64() >> 2)
		}
		prods = append(prods, p)
	}
	type txnRange struct {
		pid             int64
		firstIdx, mIdx  int
		first, marker   int64
		abort           bool
	}
	var txns []txnRange

	add := func(b reflog.Batch, kind string) error {
		raw, err := reflog.Encode(&b, eo)
		if err != nil {
			return err
		}
		g.entries = append(g.entries, entry{b: b, raw: raw, kind: kind})
		g.feats[kind] = true
		if b.Codec != 0 {
			g.feats["codec-"+ccodec.Name(b.Codec)] = true
		}
		return nil
	}
	nextTs := func() int64 {
		ts += int64(rng.IntN(2000)) - 200 // not monotonic
		if rng.IntN(40) == 0 {
			return -1
		}
		return ts
	}
	marker := func(p *producer) error {
		typ := int16(reflog.ControlCommit)
		if rng.IntN(2) == 0 || (g.style == "v2-txn-heavy" && rng.IntN(3) != 0) {
			typ = reflog.ControlAbort
		}
		cb := reflog.ControlBatch(off, p.pid, p.epoch, typ, nextTs(), int32(rng.IntN(9)))
		cb.PartitionLeaderEpoch = int32(rng.IntN(7))
		if err := add(cb, "v2-control"); err != nil {
			return err
		}
		txns = append(txns, txnRange{p.pid, p.firstIdx, len(g.entries) - 1, p.first, off, typ == reflog.ControlAbort})
		if typ == reflog.ControlAbort {
			g.feats["abort"] = true
		} else {
			g.feats["commit"] = true
		}
		p.open = false
		if rng.IntN(5) == 0 {
			p.epoch++
		}
		off++
		return nil
	}
	legacyStep := func(magic int8) error {
		if rng.IntN(3) != 0 {
			// plain message
			r := reflog.Record{Offset: off, Timestamp: reflog.NoTimestamp, Key: genField(rng, true), Value: genField(rng, true)}
			b := reflog.Batch{Magic: magic, MaxTimestamp: reflog.NoTimestamp, Records: []reflog.Record{r}}
			if magic == 1 {
				b.Records[0].Timestamp = nextTs()
				b.MaxTimestamp = b.Records[0].Timestamp
				b.LogAppendTime = rng.IntN(6) == 0
			}
			off += 1 + int64(rng.IntN(6)/5*rng.IntN(4)) // sometimes a gap
			return add(b, fmt.Sprintf("v%d", magic))
		}
		n := 1 + rng.IntN(6)
		var recs []reflog.Record
		maxTs := int64(reflog.NoTimestamp)
		for i := 0; i < n; i++ {
			r := reflog.Record{Offset: off, Timestamp: reflog.NoTimestamp, Key: genField(rng, true), Value: genField(rng, true)}
			if magic == 1 {
				r.Timestamp = nextTs()
				maxTs = max(maxTs, r.Timestamp)
			}
			off++
			if i > 0 && i < n-1 && rng.IntN(4) == 0 {
				g.feats["legacy-inner-gap"] = true
				continue // compacted away
			}
			recs = append(recs, r)
		}
		codecs := []int{reflog.CodecGzip, reflog.CodecSnappy}
		if magic == 1 {
			codecs = append(codecs, reflog.CodecLZ4)
		}
		b := reflog.Batch{Magic: magic, Codec: codecs[rng.IntN(len(codecs))], MaxTimestamp: maxTs, Records: recs}
		kind := fmt.Sprintf("v%d-wrapper", magic)
		if magic == 1 && rng.IntN(8) == 0 {
			b.LogAppendTime = true
			b.MaxTimestamp = ts + 5000
		}
		if err := add(b, kind); err != nil {
			return err
		}
		if b.LogAppendTime {
			g.entries[len(g.entries)-1].tsDontCare = true
		}
		return nil
	}
	v2Step := func() error {
		// a marker for an open transaction?
		var open []*producer
		for _, p := range prods {
			if p.open {
				open = append(open, p)
			}
		}
		if len(open) > 0 && rng.IntN(3) == 0 {
			return marker(open[rng.IntN(len(open))])
		}
		n := 1 + rng.IntN(8)
		b := reflog.Batch{Magic: 2, BaseOffset: off, LastOffsetDelta: int32(n - 1), PartitionLeaderEpoch: int32(rng.IntN(7)),
			ProducerID: -1, ProducerEpoch: -1, BaseSequence: -1}
		if rng.IntN(3) != 0 {
			b.Codec = 1 + rng.IntN(4)
		}
		txnP := 0.5
		if g.style == "v2-txn-heavy" {
			txnP = 0.9
		}
		var p *producer
		if rng.Float64() < txnP {
			p = prods[rng.IntN(len(prods))]
			b.Transactional = true
			b.ProducerID, b.ProducerEpoch, b.BaseSequence = p.pid, p.epoch, p.seq
			p.seq += int32(n)
		} else if rng.IntN(2) == 0 {
			// idempotent, not transactional
			b.ProducerID, b.ProducerEpoch, b.BaseSequence = 77, 1, int32(rng.IntN(1000))
		}
		b.LogAppendTime = rng.IntN(6) == 0
		var recs []reflog.Record
		for i := 0; i < n; i++ {
			r := reflog.Record{Offset: off + int64(i), Timestamp: nextTs(), Key: genField(rng, true), Value: genField(rng, true), Headers: genHeaders(rng)}
			recs = append(recs, r)
		}
		b.BaseTimestamp = recs[0].Timestamp
		b.MaxTimestamp = recs[0].Timestamp
		for _, r := range recs {
			b.MaxTimestamp = max(b.MaxTimestamp, r.Timestamp)
		}
		if b.LogAppendTime {
			b.MaxTimestamp = ts + 3000
			for i := range recs {
				recs[i].TimestampDelta = int64(rng.IntN(100)) - 50
				recs[i].Timestamp = b.MaxTimestamp
			}
			g.feats["v2-logappendtime"] = true
		}
		kind := "v2"
		// compaction: records removed, header range kept
		if rng.IntN(3) == 0 {
			var kept []reflog.Record
			for _, r := range recs {
				if rng.IntN(5) < 3 {
					kept = append(kept, r)
				}
			}
			if len(kept) != len(recs) {
				g.feats["v2-compaction-gap"] = true
			}
			recs = kept
			if len(recs) == 0 {
				kind = "v2-empty"
				b.Codec = 0 // the cleaner writes a header-only batch
			}
		}
		b.Records = recs
		if p != nil && !p.open {
			p.open, p.first, p.firstIdx = true, off, len(g.entries)
		}
		if err := add(b, kind); err != nil {
			return err
		}
		off += int64(n)
		if rng.IntN(6) == 0 {
			off += int64(1 + rng.IntN(4)) // whole batches compacted away
			g.feats["batch-gap"] = true
		}
		return nil
	}

	for i := 0; i < nEntries; i++ {
		var err error
		switch g.style {
		case "v0":
			err = legacyStep(0)
		case "v1":
			err = legacyStep(1)
		case "anymix":
			// every entry picks its own format: a record batch may be followed by legacy
			// messages (a topic whose message format version was lowered), which is where
			// per-entry parser state (checksum table, header offsets) must be reset
			switch rng.IntN(3) {
			case 0:
				err = legacyStep(0)
			case 1:
				err = legacyStep(1)
			default:
				err = v2Step()
			}
		case "mixed":
			switch {
			case i < nEntries/4:
				err = legacyStep(0)
			case i < nEntries/2:
				err = legacyStep(1)
			default:
				err = v2Step()
			}
		default:
			err = v2Step()
		}
		if err != nil {
			return nil, err
		}
	}
	// decide every open transaction
	for _, p := range prods {
		if p.open {
			if err := marker(p); err != nil {
				return nil, err
			}
		}
	}
	// a few more entries after the last markers so windows can end before them
	if g.style != "v0" && g.style != "v1" {
		for i := 0; i < rng.IntN(3); i++ {
			if err := v2Step(); err != nil {
				return nil, err
			}
		}
		for _, p := range prods {
			if p.open {
				if err := marker(p); err != nil {
					return nil, err
				}
			}
		}
	}
	for _, t := range txns {
		if !t.abort {
			continue
		}
		g.aborted = append(g.aborted, abortedTxn{t.pid, t.first, t.marker})
		for i := t.firstIdx; i < t.mIdx; i++ {
			e := &g.entries[i]
			if e.b.Magic == 2 && e.b.Transactional && !e.b.Control && e.b.ProducerID == t.pid {
				e.aborted = true
			}
		}
	}
	return g, nil
}

// xrec is one expected record.
type xrec struct {
	reflog.Record
	e *entry
}

// expected lists, by construction, what a consumer asking for offset req
// must be handed from entries[from:to].
func (g *genLog) expected(from, to int, req int64, readCommitted, keepControl bool) []xrec {
	var out []xrec
	for i := from; i < to; i++ {
		e := &g.entries[i]
		if e.b.Control && !keepControl {
			continue
		}
		if !e.b.Control && readCommitted && e.aborted {
			continue
		}
		for _, r := range e.b.Records {
			if r.Offset >= req {
				out = append(out, xrec{r, e})
			}
		}
	}
	return out
}

// abortedList is what a broker attaches to a fetch at offset req whose data
// reaches upper: the aborted transactions overlapping [req, upper].
func (g *genLog) abortedList(req, upper int64) []abortedTxn {
	var out []abortedTxn
	for _, a := range g.aborted {
		if a.marker >= req && a.first <= upper {
			out = append(out, a)
		}
	}
	return out
}

func orderAborted(rng *rand.Rand, l []abortedTxn) ([]abortedTxn, string) {
	l = append([]abortedTxn{}, l...)
	switch rng.IntN(4) {
	case 0:
		sort.Slice(l, func(i, j int) bool { return l[i].first < l[j].first })
		return l, "ascending"
	case 1:
		sort.Slice(l, func(i, j int) bool { return l[i].first > l[j].first })
		return l, "descending"
	default:
		rng.Shuffle(len(l), func(i, j int) { l[i], l[j] = l[j], l[i] })
		return l, "shuffled"
	}
}

// fixCRC recomputes the checksum of the entry starting at pos, if the entry
// is complete, so that a mutated header still passes validation.
func fixCRC(data []byte, pos int) {
	if len(data)-pos < 17 {
		return
	}
	l := int(int32(binary.BigEndian.Uint32(data[pos+8:])))
	if l < 5 || pos+12+l > len(data) {
		return // no room for a magic byte, or incomplete
	}
	e := data[pos : pos+12+l]
	switch e[16] {
	case 2:
		if len(e) >= 21 {
			binary.BigEndian.PutUint32(e[17:], reflog.CRC32C(e[21:]))
		}
	case 0, 1:
		binary.BigEndian.PutUint32(e[12:], reflog.CRC32(e[16:]))
	}
}
