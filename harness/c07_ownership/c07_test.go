// C07 — group members never own the same partition at once.
//
// Monitor: OnPartitionsAssigned / Revoked / Lost of every member are stamped
// into one in-process log under one mutex: acquisition at the START of
// Assigned, release at the END of Revoked/Lost (the strictest sound
// placement). An Assigned for a partition that another member still owns is
// a violation unless that owner's release arrives through OnPartitionsLost
// (non-graceful by definition; counted separately). After churn stops, every
// partition of the subscribed topics must end up owned by exactly one member
// (bounded virtual time in bubbles, inconclusive on the RT watchdog).
package c07

import (
	"fmt"
	"strings"
	"testing"
	"time"

	"verifharness/internal/e2e"
	"verifharness/internal/groupwl"
	"verifharness/internal/vh"
)

func judge(r *vh.Run, res *groupwl.Result, mode string) {
	wit := func(d string) map[string]any {
		ev := res.Events
		var tail []string
		for _, e := range ev {
			if strings.HasPrefix(e.Kind, "assigned") || strings.HasPrefix(e.Kind, "revoked") || strings.HasPrefix(e.Kind, "lost") || e.Kind == "join" || e.Kind == "leave" || e.Kind == "close" {
				tail = append(tail, fmt.Sprintf("%d %s %s %v", e.Clock, e.Kind, e.Member, e.Parts))
			}
		}
		if len(tail) > 120 {
			tail = tail[len(tail)-120:]
		}
		return map[string]any{"mode": mode, "plan": res.Plan, "detail": d, "callback_history": tail}
	}
	if len(res.Inconcl) > 0 {
		r.Inconclusive(fmt.Sprintf("%s: %v", mode, res.Inconcl))
		return
	}
	vs, excused := res.JudgeOwnership()
	for _, v := range vs {
		r.Violation(v.Sig, wit(v.Detail))
	}
	if !res.Converged {
		if mode == "vt" {
			r.Violation("group-did-not-converge-within-virtual-bound/"+res.Plan.Protocol, wit(fmt.Sprintf("owners at the end: %v\n%s", res.FinalOwners, res.Stacks)))
		} else {
			r.Inconclusive("rt: group did not converge before the wall-clock watchdog (" + res.Plan.Protocol + ")")
		}
	}
	r.Count("rebalance_assign_callbacks", res.Rebalances)
	r.Count("partition_owner_changes", res.Moves)
	r.Count("overlaps_excused_by_lost", excused)
	r.Count("lost_callbacks", res.Lost)
	r.Count("scenarios_"+res.Plan.Protocol, 1)
	if res.Rebalances >= 2 && res.Moves >= 1 && res.Converged {
		traj := strings.Join(res.Plan.Churn, ",")
		r.Distinct(fmt.Sprintf("%s|%s|init=%d|%s|moves=%d|excused=%d", mode, res.Plan.Protocol, res.Plan.Initial, traj, min(res.Moves, 20), excused))
		if r.WantSample() {
			r.Sample(map[string]any{"mode": mode, "plan": res.Plan, "assign_callbacks": res.Rebalances, "owner_changes": res.Moves, "final_owners": res.FinalOwners})
		}
	}
}

func TestCheck(t *testing.T) {
	r := vh.Start(t, "C07")
	nRT := r.Pick(150, 3000)
	nVT := r.Pick(150, 3000)
	if !e2e.HaveVT {
		nVT = 0
	}
	vh.Parallel(nRT, 8, func(i int) {
		plan := groupwl.GenPlan(r.Rand("c07-rt", i), uint64(r.Seed)<<20|uint64(i), false)
		res := groupwl.Run(plan, 60*time.Second)
		judge(r, res, "rt")
		r.Eval(1)
	})
	for i := 0; i < nVT; i++ {
		plan := groupwl.GenPlan(r.Rand("c07-vt", i), uint64(r.Seed)<<20|uint64(1<<19+i), true)
		var res *groupwl.Result
		fail := e2e.Bubble(t, func() { res = groupwl.Run(plan, 10*time.Minute) })
		if res == nil {
			r.Inconclusive("vt scenario produced no result: " + fail)
			continue
		}
		judge(r, res, "vt")
		r.Eval(1)
	}
	r.Finish("exploration",
		"one evaluation = one seeded group scenario: 1-3 initial members of one protocol (range, roundrobin, sticky eager, cooperative-sticky, KIP-848) and 2-8 graceful churn steps (join, LeaveGroup+Close, Close, restart, AddConsumeTopics) while records are produced and polled; non-trivial = at least two assignment callbacks with partitions, at least one partition changed owner, and the group converged; distinct by (mode, protocol, initial members, churn trajectory, owner-change count, excused overlaps)",
		"session timeouts are generous (45 s) so that members are never expired merely because the machine is loaded; virtual-time scenarios remove that risk entirely",
		"an overlap whose earlier owner is released through OnPartitionsLost is counted, not judged",
	)
}
