// C08 — group autocommit never skips records (at-least-once).
//
// Monitor: PollStart(m,k) is logged BEFORE each poll call and PollReturn(m,k)
// after it; every OffsetCommit request is observed at the broker (kfake
// Control tap, not intercepting) with the same logical clock. Oracle
// (offline): for every observed commit (partition, offset o) every record
// below o was returned by some poll k of some member m whose poll k+1 had
// started before the commit was observed; at the end every record below the
// group's final committed offset was returned to some member.
package c08

import (
	"fmt"
	"strings"
	"testing"
	"time"

	"verifharness/internal/e2e"
	"verifharness/internal/groupwl"
	"verifharness/internal/vh"
)

func judge(r *vh.Run, res *groupwl.Result, mode string) {
	wit := func(d string) map[string]any {
		return map[string]any{"mode": mode, "plan": res.Plan, "detail": d}
	}
	if len(res.Inconcl) > 0 {
		r.Inconclusive(fmt.Sprintf("%s: %v", mode, res.Inconcl))
		return
	}
	vs, commits := res.JudgeCommits()
	for _, v := range vs {
		r.Violation(v.Sig, wit(v.Detail))
	}
	r.Count("offset_commit_requests_observed", commits)
	r.Count("rebalance_assign_callbacks", res.Rebalances)
	var committed int64
	for _, o := range res.Committed {
		committed += o
	}
	r.Count("final_committed_records", int(committed))
	// a rebalance or leave landed between two polls of a member that had returned records
	interleaved := 0
	lastRet := map[string]bool{}
	for _, e := range res.Events {
		switch e.Kind {
		case "poll-return":
			lastRet[e.Member] = len(e.Recs) > 0
		case "revoked-start", "lost-start":
			if lastRet[e.Member] && len(e.Parts) > 0 {
				interleaved++
			}
		}
	}
	r.Count("revokes_after_a_record_returning_poll", interleaved)
	if commits > 0 && interleaved > 0 {
		b := func(n int) string {
			switch {
			case n < 5:
				return "few"
			case n < 50:
				return "some"
			}
			return "many"
		}
		r.Distinct(fmt.Sprintf("%s|%s|commits=%s|revokes=%s|%s", mode, res.Plan.Protocol, b(commits), b(interleaved), strings.Join(res.Plan.Churn, ",")))
		if r.WantSample() {
			r.Sample(map[string]any{"mode": mode, "plan": res.Plan, "commits_observed": commits, "revokes_between_polls": interleaved, "final_committed": res.Committed})
		}
	}
}

func TestCheck(t *testing.T) {
	r := vh.Start(t, "C08")
	nRT := r.Pick(150, 3000)
	nVT := r.Pick(150, 3000)
	if !e2e.HaveVT {
		nVT = 0
	}
	vh.Parallel(nRT, 8, func(i int) {
		plan := groupwl.GenPlan(r.Rand("c08-rt", i), uint64(r.Seed)<<20|uint64(i), false)
		res := groupwl.Run(plan, 60*time.Second)
		judge(r, res, "rt")
		r.Eval(1)
	})
	for i := 0; i < nVT; i++ {
		plan := groupwl.GenPlan(r.Rand("c08-vt", i), uint64(r.Seed)<<20|uint64(1<<19+i), true)
		var res *groupwl.Result
		fail := e2e.Bubble(t, func() { res = groupwl.Run(plan, 10*time.Minute) })
		if res == nil {
			r.Inconclusive("vt scenario produced no result: " + fail)
			continue
		}
		judge(r, res, "vt")
		r.Eval(1)
	}
	r.Finish("exploration",
		"one evaluation = one seeded group scenario with default autocommit (interval 100-300 ms) and default revoke handling, AtStart reset, non-transactional data (offsets contiguous from 0), graceful churn (join, leave, close, restart), processing delays between polls; non-trivial = commits were observed at the broker and at least one revocation landed right after a poll that had returned records; distinct by (mode, protocol, commit-count bucket, revoke bucket, churn trajectory)",
		"poll-start is logged before the poll call and the commit is observed at the broker after it was built, so both orderings err on the safe side (a reported violation is real; some real violations may be missed)",
	)
}
