// C09 — offset commits take effect in the order issued.
//
// Monitor: one application goroutine of one group member (autocommit disabled)
// issues a seeded sequence of CommitOffsets / CommitOffsetsSync /
// CommitRecords; commit number i carries, for every partition, the unique
// offset base+i, so the value seen at the coordinator identifies the commit.
// A non-intercepting kfake Control logs arrivals; other Control functions
// delay selected commits (SleepControl) or answer them with retriable
// coordinator errors; a second member joins and leaves to force rebalances.
// Oracle: per partition the arrival sequence never goes back to an earlier
// commit once a later one has arrived (retries of the same commit may
// repeat); after everything finished, the coordinator's committed offset
// equals the partition's value in the last commit whose callback reported
// success for it, and CommittedOffsets() reports the same.
package c09

import (
	"context"
	"fmt"
	"math/rand/v2"
	"sync"
	"sync/atomic"
	"testing"
	"time"

	"github.com/twmb/franz-go/pkg/kadm"
	"github.com/twmb/franz-go/pkg/kerr"
	"github.com/twmb/franz-go/pkg/kfake"
	"github.com/twmb/franz-go/pkg/kgo"
	"github.com/twmb/franz-go/pkg/kmsg"

	"verifharness/internal/e2e"
	"verifharness/internal/faultnet"
	"verifharness/internal/vh"
)

type plan struct {
	Seed       uint64  `json:"seed"`
	VT         bool    `json:"vt"`
	Partitions int     `json:"partitions"`
	Commits    int     `json:"commits"`
	DelayP     float64 `json:"delay_p"`
	ErrP       float64 `json:"retriable_err_p"`
	PartErrP   float64 `json:"partition_err_p"`
	Rebalances int     `json:"rebalances"`
	GapUs      int     `json:"gap_us"`
	Yield      int     `json:"yield_level"`
	Proto848   bool    `json:"kip848"`
	CancelP    float64 `json:"abandon_async_commit_p"` // async commits whose context is cancelled a few ms after issue
	// Stride: commit #i carries offset base + (i*Stride mod 127). 1 = increasing offsets; any
	// other value makes later commits carry lower offsets than earlier ones (rewinds, which the
	// commit API documents as allowed) while every commit keeps a unique value.
	Stride int `json:"offset_stride"`
	// MixedP: the coordinator applies the whole commit but the response the client receives
	// reports an error for the first listed partition of a topic (and success for the others):
	// a mixed per-partition result inside one topic.
	MixedP float64 `json:"mixed_result_p,omitempty"`
}

var (
	hiddenReg  sync.Map // plan seed -> map[int32]map[int64]bool
	mixedFired atomic.Int64
)

const strideMod = 127 // prime, above the largest number of commits in a plan

// offOf is the offset commit #i carries, idxOf its inverse.
func (p plan) offOf(i int) int64 {
	st := p.Stride
	if st <= 0 {
		st = 1
	}
	return int64(base + (i*st)%strideMod)
}

func (p plan) idxOf(off int64) int {
	st := p.Stride
	if st <= 0 {
		st = 1
	}
	v := int(off - base)
	for i := 0; i < strideMod; i++ {
		if (i*st)%strideMod == v {
			return i
		}
	}
	return -1
}

type arrival struct {
	Clock  int64
	Part   int32
	Offset int64
	Action string
}

type issued struct {
	Idx       int
	API       string
	Parts     []int32
	Err       string         // request-level error reported to onDone / returned
	PartOK    map[int32]bool // partition-level success
	Done      bool
	Abandoned bool // the application cancelled this commit's context shortly after issuing it
}

const (
	topic = "c09t"
	group = "c09g"
	base  = 1000
)

var coordErrs = []int16{kerr.CoordinatorLoadInProgress.Code, kerr.CoordinatorNotAvailable.Code, kerr.NotCoordinator.Code, kerr.RequestTimedOut.Code}

func run(p plan, watchdog time.Duration) (arr []arrival, iss []*issued, final map[int32]int64, clientView map[int32]int64, owned map[int32]bool, inconcl []string) {
	var clock atomic.Int64
	var mu sync.Mutex
	var faults atomic.Bool
	faults.Store(true)
	hidden := map[int32]map[int64]bool{} // partition -> offsets the coordinator applied but reported as failed
	hiddenReg.Store(p.Seed, hidden)
	mrng := rand.New(rand.NewPCG(p.Seed, 9))
	fnet := &faultnet.Net{}
	fnet.Decide = func(fr *faultnet.Req) faultnet.Action {
		if fr.Key != int16(kmsg.OffsetCommit) || p.MixedP == 0 || !faults.Load() {
			return faultnet.Action{}
		}
		mu.Lock()
		x := mrng.Float64()
		mu.Unlock()
		if x >= p.MixedP {
			return faultnet.Action{}
		}
		creq, _ := fr.Decode().(*kmsg.OffsetCommitRequest)
		if creq == nil || creq.Group != group {
			return faultnet.Action{}
		}
		return faultnet.Action{Kind: faultnet.Rewrite, Rewrite: func(frame []byte) []byte {
			return faultnet.RewriteBody(fr, frame, func(kresp kmsg.Response) {
				cr, ok := kresp.(*kmsg.OffsetCommitResponse)
				if !ok || len(cr.Topics) != len(creq.Topics) {
					return
				}
				mu.Lock()
				defer mu.Unlock()
				for ti := range cr.Topics {
					ps := cr.Topics[ti].Partitions
					if len(ps) < 2 || ps[0].ErrorCode != 0 {
						continue
					}
					for _, rp := range creq.Topics[ti].Partitions {
						if rp.Partition == ps[0].Partition {
							if hidden[rp.Partition] == nil {
								hidden[rp.Partition] = map[int64]bool{}
							}
							hidden[rp.Partition][rp.Offset] = true
							ps[0].ErrorCode = kerr.UnknownTopicOrPartition.Code
							mixedFired.Add(1)
						}
					}
				}
			})
		}}
	}
	env, err := e2e.NewEnv(p.VT, 1+int(p.Seed%3), fnet, kfake.SeedTopics(int32(p.Partitions), topic),
		kfake.BrokerConfigs(map[string]string{"group.consumer.heartbeat.interval.ms": "100"}))
	if err != nil {
		return nil, nil, nil, nil, nil, []string{err.Error()}
	}
	defer env.Close()
	frng := rand.New(rand.NewPCG(p.Seed, 5))
	var id2name sync.Map
	env.C.ControlKey(int16(kmsg.OffsetCommit), func(kreq kmsg.Request) (kmsg.Response, error, bool) {
		env.C.KeepControl()
		req := kreq.(*kmsg.OffsetCommitRequest)
		if req.Group != group {
			return nil, nil, false
		}
		action := "pass"
		x := frng.Float64()
		var code int16
		partial := false
		if faults.Load() {
			switch {
			case x < p.DelayP:
				action = "delay"
			case x < p.DelayP+p.ErrP:
				action = "error"
				code = coordErrs[frng.IntN(len(coordErrs))]
			case x < p.DelayP+p.ErrP+p.PartErrP:
				action = "partition-error"
				partial = true
			}
		}
		clk := clock.Add(1)
		mu.Lock()
		for _, t := range req.Topics {
			for _, rp := range t.Partitions {
				if rp.Offset >= base {
					arr = append(arr, arrival{clk, rp.Partition, rp.Offset, action})
				}
			}
		}
		mu.Unlock()
		switch action {
		case "delay":
			d := time.Duration(1+frng.IntN(30)) * time.Millisecond
			env.C.SleepControl(func() { time.Sleep(d) })
			return nil, nil, false
		case "error", "partition-error":
			resp := req.ResponseKind().(*kmsg.OffsetCommitResponse)
			for _, t := range req.Topics {
				st := kmsg.NewOffsetCommitResponseTopic()
				st.Topic = t.Topic
				st.TopicID = t.TopicID
				for i, rp := range t.Partitions {
					sp := kmsg.NewOffsetCommitResponseTopicPartition()
					sp.Partition = rp.Partition
					if partial {
						// nothing is committed by an intercepted request; tell the client every
						// partition failed (first one fatally, the rest retriably is not needed)
						sp.ErrorCode = kerr.UnknownTopicOrPartition.Code
						_ = i
					} else {
						sp.ErrorCode = code
					}
					st.Partitions = append(st.Partitions, sp)
				}
				resp.Topics = append(resp.Topics, st)
			}
			return resp, nil, true
		}
		return nil, nil, false
	})
	_ = id2name

	y := e2e.NewYield(p.Seed, p.Yield, p.VT)
	if p.Yield > 0 {
		y.Install()
		defer e2e.Uninstall()
	}
	ctx0 := context.Background()
	if p.Proto848 {
		ctx0 = context.WithValue(ctx0, "opt_in_kafka_next_gen_balancer_beta", true) //nolint
	}
	mk := func(id string) (*kgo.Client, error) {
		return env.NewClient(kgo.WithContext(ctx0), kgo.ClientID(id), kgo.ConsumerGroup(group), kgo.ConsumeTopics(topic), kgo.DisableAutoCommit(),
			kgo.Balancers(kgo.CooperativeStickyBalancer()), kgo.FetchMaxWait(50*time.Millisecond), kgo.HeartbeatInterval(200*time.Millisecond),
			kgo.RetryBackoffFn(func(n int) time.Duration { return time.Duration(n+1) * 2 * time.Millisecond }))
	}
	// a few records per partition: only a partition the member has polled from has an entry in
	// the client's commit tracking, and without one CommittedOffsets has nothing to report
	if pc, err := env.NewClient(kgo.RecordPartitioner(kgo.ManualPartitioner())); err == nil {
		var rs []*kgo.Record
		for part := 0; part < p.Partitions; part++ {
			for k := 0; k < 3; k++ {
				rs = append(rs, &kgo.Record{Topic: topic, Partition: int32(part), Value: []byte("x")})
			}
		}
		ctx, cancel := context.WithTimeout(context.Background(), watchdog)
		pc.ProduceSync(ctx, rs...)
		cancel()
		pc.Close()
	}
	cl, err := mk("main")
	if err != nil {
		return nil, nil, nil, nil, nil, []string{err.Error()}
	}
	defer cl.Close()
	// join: poll until assigned
	deadline := time.Now().Add(watchdog)
	for time.Now().Before(deadline) {
		ctx, cancel := context.WithTimeout(context.Background(), 50*time.Millisecond)
		cl.PollFetches(ctx)
		cancel()
		if m, gen := cl.GroupMetadata(); gen >= 0 && m != "" && len(cl.UncommittedOffsets()[topic]) == p.Partitions {
			break // joined, and polled from every partition
		}
	}
	// second member churn
	side := make(chan struct{})
	var sideWG sync.WaitGroup
	sideWG.Add(1)
	go func() {
		defer sideWG.Done()
		srng := rand.New(rand.NewPCG(p.Seed, 9))
		for i := 0; i < p.Rebalances; i++ {
			select {
			case <-side:
				return
			default:
			}
			c2, err := mk("other")
			if err != nil {
				return
			}
			end := time.Now().Add(time.Duration(20+srng.IntN(80)) * time.Millisecond)
			for time.Now().Before(end) {
				ctx, cancel := context.WithTimeout(context.Background(), 20*time.Millisecond)
				c2.PollFetches(ctx)
				cancel()
			}
			c2.Close()
			time.Sleep(time.Duration(srng.IntN(50)) * time.Millisecond)
		}
	}()
	// keep the main member polling (heartbeats/rebalances need it for cooperative revocation)
	stopPoll := make(chan struct{})
	var pollWG sync.WaitGroup
	pollWG.Add(1)
	go func() {
		defer pollWG.Done()
		for {
			select {
			case <-stopPoll:
				return
			default:
			}
			ctx, cancel := context.WithTimeout(context.Background(), 30*time.Millisecond)
			cl.PollFetches(ctx)
			cancel()
		}
	}()

	rng := rand.New(rand.NewPCG(p.Seed, 1))
	var wg sync.WaitGroup
	for i := 1; i <= p.Commits; i++ {
		is := &issued{Idx: i, PartOK: map[int32]bool{}}
		// every commit covers a seeded subset of partitions (always at least one)
		for part := 0; part < p.Partitions; part++ {
			if rng.IntN(3) != 0 || len(is.Parts) == 0 && part == p.Partitions-1 {
				is.Parts = append(is.Parts, int32(part))
			}
		}
		m := map[string]map[int32]kgo.EpochOffset{topic: {}}
		for _, part := range is.Parts {
			m[topic][part] = kgo.EpochOffset{Epoch: -1, Offset: p.offOf(i)}
		}
		onDone := func(_ *kgo.Client, req *kmsg.OffsetCommitRequest, resp *kmsg.OffsetCommitResponse, err error) {
			mu.Lock()
			defer mu.Unlock()
			if err != nil {
				is.Err = err.Error()
			} else {
				for _, t := range resp.Topics {
					for _, rp := range t.Partitions {
						is.PartOK[rp.Partition] = rp.ErrorCode == 0
					}
				}
			}
			is.Done = true
		}
		mu.Lock()
		iss = append(iss, is)
		mu.Unlock()
		ctx, cancel := context.WithTimeout(context.Background(), watchdog)
		switch rng.IntN(4) {
		case 0:
			is.API = "CommitOffsetsSync"
			cl.CommitOffsetsSync(ctx, m, onDone)
			cancel()
		case 1:
			is.API = "CommitRecords"
			var rs []*kgo.Record
			for _, part := range is.Parts {
				rs = append(rs, &kgo.Record{Topic: topic, Partition: part, Offset: p.offOf(i) - 1, LeaderEpoch: -1})
			}
			err := cl.CommitRecords(ctx, rs...)
			cancel()
			mu.Lock()
			mixedHit := false
			for _, part := range is.Parts {
				mixedHit = mixedHit || hidden[part][p.offOf(i)]
			}
			if err != nil && mixedHit {
				// CommitRecords returns the first partition error of the response. The only
				// response of this commit that reached the client is the one the coordinator
				// applied in full and whose first partition was then reported as failed:
				// every other partition of it succeeded.
				for _, part := range is.Parts {
					is.PartOK[part] = !hidden[part][p.offOf(i)]
				}
			} else if err != nil {
				is.Err = err.Error()
			} else {
				for _, part := range is.Parts {
					is.PartOK[part] = true
				}
			}
			is.Done = true
			mu.Unlock()
		default:
			is.API = "CommitOffsets"
			if rng.Float64() < p.CancelP {
				// the application abandons this commit shortly after issuing it (possibly while it
				// is still queued behind an earlier one); later commits must still not overtake
				// earlier ones
				is.API = "CommitOffsets(abandoned)"
				is.Abandoned = true
				time.AfterFunc(time.Duration(rng.IntN(25))*time.Millisecond, cancel)
			}
			wg.Add(1)
			cl.CommitOffsets(ctx, m, func(c *kgo.Client, req *kmsg.OffsetCommitRequest, resp *kmsg.OffsetCommitResponse, err error) {
				onDone(c, req, resp, err)
				cancel()
				wg.Done()
			})
		}
		if p.GapUs > 0 {
			time.Sleep(time.Duration(rng.IntN(p.GapUs)) * time.Microsecond)
		}
	}
	wd := make(chan struct{})
	go func() { wg.Wait(); close(wd) }()
	if !e2e.WaitOrTimeout(wd, watchdog) {
		inconcl = append(inconcl, "async commits did not all finish")
	}
	close(side)
	sideWG.Wait()
	faults.Store(false)
	close(stopPoll)
	pollWG.Wait()
	// final state
	clientView = map[int32]int64{}
	for part, eo := range cl.CommittedOffsets()[topic] {
		clientView[part] = eo.Offset
	}
	owned = map[int32]bool{}
	for part := range cl.UncommittedOffsets()[topic] {
		owned[part] = true
	}
	admin, err := env.NewClient()
	if err != nil {
		return arr, iss, nil, clientView, owned, append(inconcl, err.Error())
	}
	defer admin.Close()
	ctx, cancel := context.WithTimeout(context.Background(), watchdog)
	defer cancel()
	offs, err := kadm.NewClient(admin).FetchOffsets(ctx, group)
	if err != nil {
		return arr, iss, nil, clientView, owned, append(inconcl, "fetch offsets: "+err.Error())
	}
	final = map[int32]int64{}
	offs.Each(func(o kadm.OffsetResponse) {
		if o.Err == nil && o.Topic == topic {
			final[o.Partition] = o.At
		}
	})
	mu.Lock()
	defer mu.Unlock()
	return append([]arrival(nil), arr...), iss, final, clientView, owned, inconcl
}

func judge(r *vh.Run, p plan, mode string, arr []arrival, iss []*issued, final, clientView map[int32]int64, inconcl []string) {
	wit := func(d string) map[string]any {
		var a []string
		for _, x := range arr {
			a = append(a, fmt.Sprintf("%d:p%d=#%d@%d(%s)", x.Clock, x.Part, p.idxOf(x.Offset), x.Offset, x.Action))
		}
		if len(a) > 300 {
			a = a[:300]
		}
		return map[string]any{"mode": mode, "plan": p, "detail": d, "arrivals": a}
	}
	if len(inconcl) > 0 {
		r.Inconclusive(fmt.Sprintf("%s: %v", mode, inconcl))
		return
	}
	// arrival order per partition
	maxSeen := map[int32]int{} // highest commit index seen arriving, per partition
	reordered, retries, delayedWhileLater := 0, 0, 0
	abandoned := map[int64]bool{}
	for _, is := range iss {
		if is.Abandoned {
			abandoned[p.offOf(is.Idx)] = true
		}
	}
	for _, a := range arr {
		if abandoned[a.Offset] {
			// Cancelling a commit that is already on the wire kills its connection; the next commit
			// goes out on a new connection and the broker may handle the two in either order. The
			// application gave up this commit's ordering itself, so its arrival is not judged.
			continue
		}
		ai := p.idxOf(a.Offset)
		if seen, any := maxSeen[a.Part]; any && ai < seen {
			reordered++
			r.Violation("commit-arrived-after-a-later-commit", wit(fmt.Sprintf("partition %d: commit #%d arrived at the coordinator (clock %d) after commit #%d had already arrived", a.Part, ai, a.Clock, seen)))
			break
		} else if any && ai == seen {
			retries++
		}
		if a.Action != "pass" {
			delayedWhileLater++
		}
		maxSeen[a.Part] = ai
	}
	// final value = last successful commit per partition
	last := map[int32]int64{}
	for _, is := range iss {
		if !is.Done || is.Err != "" {
			continue
		}
		for _, part := range is.Parts {
			if is.PartOK[part] {
				last[part] = p.offOf(is.Idx)
			}
		}
	}
	// A commit whose context ended (or whose connection died) may still have been applied by the
	// coordinator without the client learning it: if such a LATER commit was seen arriving and was
	// let through, its value is an acceptable final value too.
	lastIdx := map[int32]int{}
	for _, is := range iss {
		if is.Done && is.Err == "" {
			for _, part := range is.Parts {
				if is.PartOK[part] {
					lastIdx[part] = is.Idx
				}
			}
		}
	}
	// (An abandoned commit that the coordinator had parked - the injected delay - is applied when
	// the delay ends, possibly after later commits: cancelling an in-flight commit gives up its
	// ordering, which is why the client itself never cancels a prior commit. So any unconfirmed
	// commit that was let through is acceptable as the final value, whatever its index.)
	unconfirmed := map[int]bool{}
	for _, is := range iss {
		if !is.Done || is.Err != "" {
			unconfirmed[is.Idx] = true
		}
	}
	passedLater := map[int32]map[int64]bool{}
	// a commit the coordinator applied while the client was told that partition failed (MixedP):
	// its value is an acceptable final value for that partition, like any unconfirmed commit
	if h, ok := hiddenReg.LoadAndDelete(p.Seed); ok {
		for part, offs := range h.(map[int32]map[int64]bool) {
			for off := range offs {
				if passedLater[part] == nil {
					passedLater[part] = map[int64]bool{}
				}
				passedLater[part][off] = true
			}
		}
	}
	for _, a := range arr {
		if a.Action == "pass" || a.Action == "delay" {
			if idx := p.idxOf(a.Offset); idx > lastIdx[a.Part] || unconfirmed[idx] {
				if passedLater[a.Part] == nil {
					passedLater[a.Part] = map[int64]bool{}
				}
				passedLater[a.Part][a.Offset] = true
			}
		}
	}
	for part, want := range last {
		got, ok := final[part]
		if !ok || (got != want && !passedLater[part][got]) {
			r.Violation("final-committed-offset-differs-from-last-successful-commit", wit(fmt.Sprintf("partition %d: coordinator has %d (commit #%d), last successful commit was #%d and no later unconfirmed commit with that value was let through", part, got, p.idxOf(got), p.idxOf(want))))
		}
		// CommittedOffsets is only tracked for partitions the member owns; with a second member
		// joining and leaving, ownership (and the view) comes and goes, so the client view is
		// judged only in scenarios without rebalances.
		if p.Rebalances == 0 {
			if cv, ok := clientView[part]; ok && cv >= base {
				r.Count("client_view_compared", 1)
			}
			if cv, ok := clientView[part]; ok && cv != want && cv >= base {
				r.Violation("CommittedOffsets-differs-from-last-successful-commit", wit(fmt.Sprintf("partition %d: CommittedOffsets()=%d (commit #%d), last successful commit was #%d", part, cv, p.idxOf(cv), p.idxOf(want))))
			}
		}
	}
	r.Count("commit_arrivals", len(arr))
	r.Count("mixed_partition_results_injected", int(mixedFired.Swap(0)))
	r.Count("commit_retries_seen", retries)
	r.Count("commits_delayed_or_failed_by_injection", delayedWhileLater)
	r.Count("commits_issued", len(iss))
	if delayedWhileLater > 0 && len(arr) > len(iss)/2 {
		b := func(n int) string {
			switch {
			case n == 0:
				return "0"
			case n < 4:
				return "few"
			}
			return "many"
		}
		r.Distinct(fmt.Sprintf("%s|p=%d|inj=%s|retries=%s|reb=%d|848=%v|gap=%d", mode, p.Partitions, b(delayedWhileLater), b(retries), p.Rebalances, p.Proto848, p.GapUs/300))
		if r.WantSample() {
			r.Sample(map[string]any{"mode": mode, "plan": p, "arrivals": len(arr), "retries": retries, "injected": delayedWhileLater, "final": final})
		}
	}
}

func gen(rng *rand.Rand, seed uint64, vt bool) plan {
	p := plan{Seed: seed, VT: vt, Partitions: 1 + rng.IntN(4), Commits: 30 + rng.IntN(70),
		DelayP: []float64{0, 0.1, 0.3}[rng.IntN(3)], ErrP: []float64{0, 0.1, 0.25}[rng.IntN(3)], PartErrP: []float64{0, 0.05}[rng.IntN(2)],
		Rebalances: []int{0, 0, 2, 5}[rng.IntN(4)], GapUs: []int{0, 300, 3000}[rng.IntN(3)], Yield: []int{0, 30, 70}[rng.IntN(3)], Proto848: rng.IntN(4) == 0, CancelP: []float64{0, 0.1, 0.3}[rng.IntN(3)]}
	if vt {
		p.Yield = 0
	}
	p.Stride = []int{1, 1, 3, 50, 126}[rng.IntN(5)] // 126 = strictly decreasing offsets
	if p.Partitions >= 2 {
		p.MixedP = []float64{0, 0.1, 0.3}[rng.IntN(3)]
	}
	return p
}

func TestCheck(t *testing.T) {
	r := vh.Start(t, "C09")
	nRT := r.Pick(150, 4000)
	nVT := r.Pick(100, 3000)
	if !e2e.HaveVT {
		nVT = 0
	}
	vh.Parallel(nRT, 8, func(i int) {
		p := gen(r.Rand("c09-rt", i), uint64(r.Seed)<<20|uint64(i), false)
		arr, iss, final, cv, _, inc := run(p, 60*time.Second)
		judge(r, p, "rt", arr, iss, final, cv, inc)
		r.Eval(1)
	})
	for i := 0; i < nVT; i++ {
		p := gen(r.Rand("c09-vt", i), uint64(r.Seed)<<20|uint64(1<<19+i), true)
		var arr []arrival
		var iss []*issued
		var final, cv map[int32]int64
		var inc []string
		ran := false
		e2e.Bubble(t, func() { arr, iss, final, cv, _, inc = run(p, 10*time.Minute); ran = true })
		if !ran {
			r.Inconclusive("vt scenario did not complete")
			continue
		}
		judge(r, p, "vt", arr, iss, final, cv, inc)
		r.Eval(1)
	}
	r.Finish("exploration",
		"one evaluation = one seeded scenario of 30-100 commits issued by one goroutine through CommitOffsets / CommitOffsetsSync / CommitRecords with unique offsets (increasing, or in a seeded non-monotonic order so that later commits rewind earlier ones), while the coordinator delays selected commits, answers some with retriable coordinator errors or partition errors, applies some commits while reporting an error for the first partition of the topic only (mixed per-partition result), and a second member joins/leaves; non-trivial = at least one commit was delayed/failed by injection while later commits were issued; distinct by (mode, partitions, injection bucket, retry bucket, rebalances, protocol, issue gap)",
		"autocommit is disabled: autocommits are not issued by the application and would interleave their own values",
		"CommitUncommittedOffsets is not used because its values are chosen by the client, not the harness (it funnels into the same commit path as CommitOffsetsSync)",
	)
}
