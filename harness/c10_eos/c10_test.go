// C10 — GroupTransactSession gives exactly-once consume-transform-produce.
//
// Monitor: an input topic holds N uniquely identified records; 2-5
// GroupTransactSession members (eager, cooperative or KIP-848 groups) each
// poll, produce one output record per input record inside a transaction and
// End(TryCommit); members join, close and restart, and faultnet kills the
// members' connections before/after Produce, AddPartitionsToTxn,
// AddOffsetsToTxn, TxnOffsetCommit and EndTxn. Oracle (offline, from the
// output partition logs read with raw Fetch and their own COMMIT/ABORT
// markers): in the read_committed view no input id appears twice (violation
// at any time); after a drained run every input id appears (a run that did not
// drain is inconclusive for completeness in RT, a violation in bounded VT).
package c10

import (
	"strconv"
	"os"
	"encoding/json"
	"bytes"
	"context"
	"fmt"
	"math/rand/v2"
	"sort"
	"strings"
	"sync"
	"sync/atomic"
	"testing"
	"time"

	"github.com/twmb/franz-go/pkg/kfake"
	"github.com/twmb/franz-go/pkg/kgo"
	"github.com/twmb/franz-go/pkg/kmsg"

	"verifharness/internal/e2e"
	"verifharness/internal/faultnet"
	"verifharness/internal/vh"
)

type plan struct {
	Seed       uint64   `json:"seed"`
	VT         bool     `json:"vt"`
	Brokers    int      `json:"brokers"`
	Partitions int      `json:"partitions"`
	Inputs     int      `json:"inputs"`
	Protocol   string   `json:"protocol"`
	Members    int      `json:"members"`
	Churn      []string `json:"churn"`
	ChurnGapMs int      `json:"churn_gap_ms"`
	KillP      float64  `json:"kill_p"`
	PollMax    int      `json:"poll_records_max"`
	Yield      int      `json:"yield_level"`
	// SlowEndP: share of EndTxn requests held SlowEndMs before the broker sees them (the offsets
	// are then pending at the coordinator while the member sits in End); with a RebalanceTimeout
	// shorter than that, a rebalance evicts the member and hands its partitions to another one
	// while its transaction is still open.
	SlowEndP           float64 `json:"slow_endtxn_p,omitempty"`
	SlowEndMs          int     `json:"slow_endtxn_ms,omitempty"`
	RebalanceTimeoutMs int     `json:"rebalance_timeout_ms,omitempty"`
}

const (
	inTopic  = "eos-in"
	outTopic = "eos-out"
	group    = "eos-group"
)

var debugKeepFrames bool // TestPlan only

type result struct {
	events []*faultnet.Event
	Committed map[string]int // id -> times in the read_committed view of the output
	Aborted   int
	Drained   bool
	Inconcl   []string
	Fired     map[string]int64
	Txns      int64
	Commits   int64
	AbortsReb int64
	EndErrs   []string
	Stacks    string
}

func run(p plan, watchdog time.Duration) *result {
	res := &result{Committed: map[string]int{}}
	var inMu sync.Mutex
	inconcl := func(s string) { inMu.Lock(); res.Inconcl = append(res.Inconcl, s); inMu.Unlock() }
	frng := rand.New(rand.NewPCG(p.Seed, 7))
	var fmu sync.Mutex
	var faults atomic.Bool
	faults.Store(true)
	fnet := &faultnet.Net{KeepFrames: debugKeepFrames}
	fnet.Decide = func(r *faultnet.Req) faultnet.Action {
		if !faults.Load() || !strings.HasPrefix(r.ClientID, "eos-") {
			return faultnet.Action{}
		}
		switch r.Key {
		case 0, 24, 25, 26, 28:
			fmu.Lock()
			defer fmu.Unlock()
			if r.Key == 26 && p.SlowEndP > 0 && frng.Float64() < p.SlowEndP {
				return faultnet.Action{Kind: faultnet.DelayBefore, D: time.Duration(p.SlowEndMs) * time.Millisecond}
			}
			if x := frng.Float64(); x < p.KillP {
				if frng.IntN(2) == 0 {
					return faultnet.Action{Kind: faultnet.KillBefore}
				}
				return faultnet.Action{Kind: faultnet.KillAfter}
			}
		}
		return faultnet.Action{}
	}
	env, err := e2e.NewEnv(p.VT, p.Brokers, fnet, kfake.SeedTopics(int32(p.Partitions), inTopic, outTopic),
		kfake.BrokerConfigs(map[string]string{"group.consumer.heartbeat.interval.ms": "100"}))
	if err != nil {
		inconcl(err.Error())
		return res
	}
	defer env.Close()
	defer func() {
		res.Fired = fnet.Fired()
		if debugKeepFrames {
			res.events = fnet.Events()
		}
	}()
	y := e2e.NewYield(p.Seed, p.Yield, p.VT)
	if p.Yield > 0 {
		y.Install()
		defer e2e.Uninstall()
	}
	// input
	{
		cl, err := env.NewClient(kgo.RecordPartitioner(kgo.ManualPartitioner()))
		if err != nil {
			inconcl(err.Error())
			return res
		}
		for i := 0; i < p.Inputs; i++ {
			cl.Produce(context.Background(), &kgo.Record{Topic: inTopic, Partition: int32(i % p.Partitions), Value: []byte(fmt.Sprintf("in%d|", i))}, nil)
		}
		ctx, cancel := context.WithTimeout(context.Background(), watchdog)
		err = cl.Flush(ctx)
		cancel()
		cl.Close()
		if err != nil {
			inconcl("input flush: " + err.Error())
			return res
		}
	}
	var txns, commits atomic.Int64
	var errMu sync.Mutex
	type member struct {
		stop chan struct{}
		done chan struct{}
	}
	var memMu sync.Mutex
	live := map[int]*member{}
	seq := 0
	var bal kgo.GroupBalancer
	switch p.Protocol {
	case "range":
		bal = kgo.RangeBalancer()
	case "sticky", "848":
		bal = kgo.StickyBalancer()
	default:
		bal = kgo.CooperativeStickyBalancer()
	}
	rebTimeout := 60 * time.Second
	if p.RebalanceTimeoutMs > 0 {
		rebTimeout = time.Duration(p.RebalanceTimeoutMs) * time.Millisecond
	}
	start := func() {
		memMu.Lock()
		seq++
		id := seq
		m := &member{stop: make(chan struct{}), done: make(chan struct{})}
		live[id] = m
		memMu.Unlock()
		go func() {
			defer close(m.done)
			mrng := rand.New(rand.NewPCG(p.Seed, uint64(100+id)))
			for gen := 0; ; gen++ {
				select {
				case <-m.stop:
					return
				default:
				}
				ctx0 := context.Background()
				if p.Protocol == "848" {
					ctx0 = context.WithValue(ctx0, "opt_in_kafka_next_gen_balancer_beta", true) //nolint
				}
				opts := append(env.ClientOpts(),
					kgo.WithContext(ctx0), kgo.ClientID(fmt.Sprintf("eos-%d", id)), kgo.TransactionalID(fmt.Sprintf("eos-%d-%d", p.Seed, id)),
					kgo.ConsumerGroup(group), kgo.ConsumeTopics(inTopic), kgo.Balancers(bal), kgo.FetchIsolationLevel(kgo.ReadCommitted()), kgo.RequireStableFetchOffsets(),
					kgo.ConsumeResetOffset(kgo.NewOffset().AtStart()), kgo.RecordPartitioner(kgo.ManualPartitioner()),
					kgo.TransactionTimeout(30*time.Second), kgo.SessionTimeout(45*time.Second), kgo.HeartbeatInterval(200*time.Millisecond), kgo.RebalanceTimeout(rebTimeout),
					kgo.FetchMaxWait(50*time.Millisecond), kgo.MetadataMinAge(10*time.Millisecond),
					kgo.RetryBackoffFn(func(n int) time.Duration { return time.Duration(n+1) * 2 * time.Millisecond }),
					kgo.RequestTimeoutOverhead(2*time.Second), kgo.ProduceRequestTimeout(2*time.Second))
				sess, err := kgo.NewGroupTransactSession(opts...)
				if err != nil {
					inconcl("session: " + err.Error())
					return
				}
				fatal := false
				for !fatal {
					select {
					case <-m.stop:
						sess.Close()
						return
					default:
					}
					ctx, cancel := context.WithTimeout(context.Background(), 80*time.Millisecond)
					var fs kgo.Fetches
					if p.PollMax > 0 {
						fs = sess.PollRecords(ctx, 1+mrng.IntN(p.PollMax))
					} else {
						fs = sess.PollFetches(ctx)
					}
					cancel()
					if fs.NumRecords() == 0 {
						continue
					}
					if err := sess.Begin(); err != nil {
						errMu.Lock()
						res.EndErrs = append(res.EndErrs, "begin: "+err.Error())
						errMu.Unlock()
						fatal = true
						break
					}
					txns.Add(1)
					fs.EachRecord(func(r *kgo.Record) {
						sess.Produce(context.Background(), &kgo.Record{Topic: outTopic, Partition: r.Partition, Value: r.Value}, nil)
					})
					ectx, ecancel := context.WithTimeout(context.Background(), watchdog)
					committed, err := sess.End(ectx, kgo.TryCommit)
					ecancel()
					if committed {
						commits.Add(1)
					}
					if err != nil {
						errMu.Lock()
						if len(res.EndErrs) < 20 {
							res.EndErrs = append(res.EndErrs, err.Error())
						}
						errMu.Unlock()
						fatal = true // documented: no returned error is retryable; replace the client
					}
				}
				sess.Close()
			}
		}()
	}
	stopOne := func(rng *rand.Rand) {
		memMu.Lock()
		var ids []int
		for id := range live {
			ids = append(ids, id)
		}
		sort.Ints(ids)
		var m *member
		if len(ids) > 1 {
			id := ids[rng.IntN(len(ids))]
			m = live[id]
			delete(live, id)
		}
		memMu.Unlock()
		if m != nil {
			close(m.stop)
			<-m.done
		}
	}
	for i := 0; i < p.Members; i++ {
		start()
	}
	crng := rand.New(rand.NewPCG(p.Seed, 17))
	for _, step := range p.Churn {
		time.Sleep(time.Duration(p.ChurnGapMs/2+crng.IntN(p.ChurnGapMs+1)) * time.Millisecond)
		switch step {
		case "join":
			start()
		case "close":
			stopOne(crng)
		case "restart":
			stopOne(crng)
			start()
		}
	}
	// drain: faults keep firing for a while, then stop
	admin, err := env.NewClient(kgo.ClientID("reader"))
	if err != nil {
		inconcl(err.Error())
		return res
	}
	defer admin.Close()
	view := func() (map[string]int, int, error) {
		out := map[string]int{}
		aborted := 0
		ctx, cancel := context.WithTimeout(context.Background(), watchdog)
		defer cancel()
		for part := 0; part < p.Partitions; part++ {
			l, err := e2e.ReadLog(ctx, admin, outTopic, int32(part))
			if err != nil {
				return nil, 0, err
			}
			st := l.TxnStatus()
			for _, rec := range l.Records {
				if rec.Control {
					continue
				}
				id := string(rec.Value[:bytes.IndexByte(rec.Value, '|')])
				switch st[rec.Offset] {
				case "committed", "plain":
					out[id]++
				case "aborted":
					aborted++
				}
			}
		}
		return out, aborted, nil
	}
	deadline := time.Now().Add(watchdog)
	half := time.Now().Add(watchdog / 4)
	for time.Now().Before(deadline) {
		if time.Now().After(half) {
			faults.Store(false)
		}
		v, ab, err := view()
		if err == nil {
			res.Committed, res.Aborted = v, ab
			if len(v) >= p.Inputs {
				res.Drained = true
				break
			}
			dup := false
			for _, n := range v {
				if n > 1 {
					dup = true
				}
			}
			if dup {
				break
			}
		}
		time.Sleep(100 * time.Millisecond)
	}
	if !res.Drained {
		res.Stacks = e2e.Stacks()
	}
	faults.Store(false)
	memMu.Lock()
	var rest []*member
	for _, m := range live {
		rest = append(rest, m)
	}
	memMu.Unlock()
	for _, m := range rest {
		close(m.stop)
	}
	for _, m := range rest {
		<-m.done
	}
	if v, ab, err := view(); err == nil {
		res.Committed, res.Aborted = v, ab
	}
	res.Txns, res.Commits = txns.Load(), commits.Load()
	return res
}

func judge(r *vh.Run, p plan, res *result, mode string) {
	wit := func(d string) map[string]any {
		return map[string]any{"mode": mode, "plan": p, "detail": d, "fired": res.Fired, "end_errors": res.EndErrs, "txns": res.Txns, "commits": res.Commits}
	}
	if len(res.Inconcl) > 0 {
		r.Inconclusive(fmt.Sprintf("%s: %v", mode, res.Inconcl))
		return
	}
	var dups []string
	for id, n := range res.Committed {
		if n > 1 {
			dups = append(dups, fmt.Sprintf("%s x%d", id, n))
		}
	}
	if len(dups) > 0 {
		sort.Strings(dups)
		if len(dups) > 10 {
			dups = dups[:10]
		}
		sig := "input-record-output-more-than-once/" + p.Protocol
		if p.SlowEndP > 0 {
			// plans in which members are evicted at the rebalance timeout while their EndTxn is
			// held back get their own signature: see known_findings.json
			sig += "/member-evicted-while-ending"
		}
		r.Violation(sig, wit(fmt.Sprintf("read_committed view of the output holds duplicates: %v", dups)))
	}
	if !res.Drained {
		if mode == "vt" {
			r.Violation("pipeline-did-not-complete-within-virtual-bound/"+p.Protocol, wit(fmt.Sprintf("%d of %d inputs in the committed output\n%s", len(res.Committed), p.Inputs, res.Stacks)))
		} else {
			r.Inconclusive(fmt.Sprintf("rt: pipeline did not drain (%d of %d) before the wall-clock watchdog", len(res.Committed), p.Inputs))
		}
		return
	}
	if len(res.Committed) != p.Inputs {
		r.Violation("input-record-missing-from-output/"+p.Protocol, wit(fmt.Sprintf("%d distinct ids committed, %d inputs", len(res.Committed), p.Inputs)))
	}
	r.Count("transactions", int(res.Txns))
	r.Count("transactions_committed", int(res.Commits))
	r.Count("aborted_output_records", res.Aborted)
	for k, n := range res.Fired {
		r.Count("fault_"+k, int(n))
	}
	if res.Txns > res.Commits && res.Commits > 0 {
		var fk []string
		for k := range res.Fired {
			if k != "pass" {
				fk = append(fk, k)
			}
		}
		sort.Strings(fk)
		r.Distinct(fmt.Sprintf("%s|%s|m=%d|%s|f=%s|ab=%d", mode, p.Protocol, p.Members, strings.Join(p.Churn, ","), strings.Join(fk, ","), min(int(res.Txns-res.Commits), 10)))
		if r.WantSample() {
			r.Sample(map[string]any{"mode": mode, "plan": p, "transactions": res.Txns, "committed": res.Commits, "aborted_output_records": res.Aborted, "faults": res.Fired})
		}
	}
}

func gen(rng *rand.Rand, seed uint64, vt bool) plan {
	p := plan{Seed: seed, VT: vt, Brokers: 1 + rng.IntN(3), Partitions: 2 + rng.IntN(4), Inputs: 300 + rng.IntN(900),
		Protocol: []string{"range", "sticky", "cooperative", "848"}[rng.IntN(4)], Members: 2 + rng.IntN(3),
		ChurnGapMs: []int{40, 120}[rng.IntN(2)], KillP: []float64{0, 0.02, 0.06}[rng.IntN(3)], PollMax: []int{0, 5, 40}[rng.IntN(3)], Yield: []int{0, 30}[rng.IntN(2)]}
	for i, n := 0, 1+rng.IntN(5); i < n; i++ {
		p.Churn = append(p.Churn, []string{"join", "close", "restart"}[rng.IntN(3)])
	}
	if vt {
		p.Yield = 0
	}
	if rng.IntN(3) == 0 && p.Protocol != "848" { // the classic rebalance timeout evicts a member that does not rejoin in time
		p.SlowEndP, p.SlowEndMs, p.RebalanceTimeoutMs = 0.25, 2500, 1000
		p.Churn = append(p.Churn, "join", "join")
	}
	return p
}

func TestCheck(t *testing.T) {
	r := vh.Start(t, "C10")
	nRT := r.Pick(50, 1500)
	nVT := r.Pick(40, 1500)
	if !e2e.HaveVT {
		nVT = 0
	}
	vh.Parallel(nRT, 8, func(i int) {
		p := gen(r.Rand("c10-rt", i), uint64(r.Seed)<<20|uint64(i), false)
		judge(r, p, run(p, 60*time.Second), "rt")
		r.Eval(1)
	})
	for i := 0; i < nVT; i++ {
		p := gen(r.Rand("c10-vt", i), uint64(r.Seed)<<20|uint64(1<<19+i), true)
		var res *result
		e2e.Bubble(t, func() { res = run(p, 10*time.Minute) })
		if res == nil {
			r.Inconclusive("vt scenario did not complete")
			continue
		}
		judge(r, p, res, "vt")
		r.Eval(1)
	}
	r.Finish("exploration",
		"one evaluation = one seeded consume-transform-produce pipeline (300-1200 inputs, 2-4 GroupTransactSession members, eager/cooperative/848 groups, joins/closes/restarts, connection kills before/after Produce, AddPartitionsToTxn, AddOffsetsToTxn, TxnOffsetCommit and EndTxn); non-trivial = at least one transaction did not commit (rebalance or fault) and at least one did; distinct by (mode, protocol, members, churn, fault kinds, abort bucket)",
		"the output view is computed from the output logs' own markers; duplicates are judged at any time, completeness only after the pipeline drained",
		"a member whose End returns an error is replaced by a new session with the same transactional id, as the documentation prescribes",
	)
}


// TestPlan runs one plan (JSON in VERIF_C10_PLAN) VERIF_C10_N times; when the output holds
// duplicates it prints the group / transaction request timeline. A debugging aid.
func TestPlan(t *testing.T) {
	raw := os.Getenv("VERIF_C10_PLAN")
	if raw == "" {
		t.Skip("set VERIF_C10_PLAN")
	}
	var p plan
	if err := json.Unmarshal([]byte(raw), &p); err != nil {
		t.Fatal(err)
	}
	n, _ := strconv.Atoi(os.Getenv("VERIF_C10_N"))
	if n == 0 {
		n = 1
	}
	debugKeepFrames = true
	for i := 0; i < n; i++ {
		res := run(p, 60*time.Second)
		var dups []string
		for id, c := range res.Committed {
			if c > 1 {
				dups = append(dups, id)
			}
		}
		sort.Strings(dups)
		fmt.Printf("run %d: txns=%d commits=%d dups=%v inconcl=%v fired=%v\n", i, res.Txns, res.Commits, dups, res.Inconcl, res.Fired)
		if len(dups) == 0 {
			continue
		}
		for _, ev := range res.events {
			q := ev.Req
			if !strings.HasPrefix(q.ClientID, "eos-") {
				continue
			}
			line := ""
			respOf := func() kmsg.Response {
				kreq := kmsg.RequestForKey(q.Key)
				kreq.SetVersion(q.Version)
				resp := kreq.ResponseKind()
				hdr := 8
				if resp.IsFlexible() {
					hdr = 9
				}
				if len(ev.Resp) < hdr || resp.ReadFrom(ev.Resp[hdr:]) != nil {
					return nil
				}
				return resp
			}
			switch q.Key {
			case 9:
				line = "OffsetFetch"
				if r, ok := respOf().(*kmsg.OffsetFetchResponse); ok && r != nil {
					for _, g := range r.Groups {
						line += fmt.Sprintf(" gerr=%d", g.ErrorCode)
						for _, tp := range g.Topics {
							for _, pt := range tp.Partitions {
								line += fmt.Sprintf(" p%d=%d/e%d", pt.Partition, pt.Offset, pt.ErrorCode)
							}
						}
					}
					for _, tp := range r.Topics {
						for _, pt := range tp.Partitions {
							line += fmt.Sprintf(" p%d=%d/e%d", pt.Partition, pt.Offset, pt.ErrorCode)
						}
					}
				}
			case 28:
				line = "TxnOffsetCommit"
				if r, ok := q.Decode().(*kmsg.TxnOffsetCommitRequest); ok && r != nil {
					line += fmt.Sprintf(" gen=%d member=%.8s", r.Generation, r.MemberID)
					for _, tp := range r.Topics {
						for _, pt := range tp.Partitions {
							line += fmt.Sprintf(" p%d=%d", pt.Partition, pt.Offset)
						}
					}
				}
				if r, ok := respOf().(*kmsg.TxnOffsetCommitResponse); ok && r != nil {
					for _, tp := range r.Topics {
						for _, pt := range tp.Partitions {
							line += fmt.Sprintf(" ->p%d/e%d", pt.Partition, pt.ErrorCode)
						}
					}
				}
			case 26:
				line = "EndTxn"
				if r, ok := q.Decode().(*kmsg.EndTxnRequest); ok && r != nil {
					line += fmt.Sprintf(" commit=%v epoch=%d", r.Commit, r.ProducerEpoch)
				}
				if r, ok := respOf().(*kmsg.EndTxnResponse); ok && r != nil {
					line += fmt.Sprintf(" ->e%d", r.ErrorCode)
				}
			case 11:
				line = "JoinGroup"
				if r, ok := respOf().(*kmsg.JoinGroupResponse); ok && r != nil {
					line += fmt.Sprintf(" ->e%d gen=%d member=%.8s leader=%.8s", r.ErrorCode, r.Generation, r.MemberID, r.LeaderID)
				}
			case 14:
				line = "SyncGroup"
				if r, ok := respOf().(*kmsg.SyncGroupResponse); ok && r != nil {
					var a kmsg.ConsumerMemberAssignment
					a.ReadFrom(r.MemberAssignment)
					line += fmt.Sprintf(" ->e%d", r.ErrorCode)
					for _, tp := range a.Topics {
						line += fmt.Sprintf(" %v", tp.Partitions)
					}
				}
			case 12:
				if r, ok := respOf().(*kmsg.HeartbeatResponse); ok && r != nil && r.ErrorCode != 0 {
					line = fmt.Sprintf("Heartbeat ->e%d", r.ErrorCode)
				}
			case 13:
				line = "LeaveGroup"
			case 25:
				line = "AddOffsetsToTxn"
			case 22:
				line = "InitProducerID"
			}
			if line != "" {
				fmt.Printf("  #%d %s conn%d %s [%s] resplen=%d\n", q.Seq, q.ClientID, q.Conn, line, ev.Action.Kind, ev.RespLen)
			}
		}
		break
	}
}
