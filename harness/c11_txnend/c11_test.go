// C11 — transaction end results are truthful.
//
// Monitor: every record carries (client generation, transaction number); the
// EndTransaction results are recorded; ground truth comes from the partition
// logs themselves (producer id/epoch per batch and COMMIT/ABORT markers, read
// with raw read_uncommitted Fetch). Oracles (offline):
//   - EndTransaction(TryCommit) == nil  =>  every success-promised record of that
//     transaction is committed in the final log;
//   - abort (TryAbort == nil) or a definitive error  =>  none of its records is
//     committed in the final log (checked after all later transactions ended);
//   - no merging: the data records of one producer between two of its markers
//     (or the log end) all belong to ONE application transaction.
// Fault placements are enumerated: one fault at the n-th InitProducerID /
// AddPartitionsToTxn / Produce / EndTxn request x {connection killed before or
// after the broker handled it, retriable codes, fatal codes,
// CONCURRENT_TRANSACTIONS, UNKNOWN_SERVER_ERROR}, under KIP-890 part 2 and
// under the older protocol (client MaxVersions), plus sampled 2-3 fault plans.
// The application follows the documented policy: on an End error, retry once
// with TryAbort; if that fails too, replace the client (same transactional id).
package c11

import (
	"encoding/binary"
	"strconv"
	"os"
	"encoding/json"
	"bytes"
	"context"
	"fmt"
	"math/rand/v2"
	"sort"
	"strings"
	"sync"
	"testing"
	"time"

	"github.com/twmb/franz-go/pkg/kerr"
	"github.com/twmb/franz-go/pkg/kfake"
	"github.com/twmb/franz-go/pkg/kgo"
	"github.com/twmb/franz-go/pkg/kmsg"
	"github.com/twmb/franz-go/pkg/kversion"

	"verifharness/internal/e2e"
	"verifharness/internal/faultnet"
	"verifharness/internal/vh"
)

type fault struct {
	Key  int16  `json:"key"`
	Nth  int    `json:"nth"`
	Kind string `json:"kind"` // kill-before kill-after code
	Code int16  `json:"code"`
}

type plan struct {
	Seed   uint64  `json:"seed"`
	VT     bool    `json:"vt"`
	TV1    bool    `json:"old_txn_protocol"`
	Txns   int     `json:"txns"`
	Faults []fault `json:"faults"`
	AbortP float64 `json:"abort_p"`
}

type txnRec struct {
	N          int
	Gen        int // client generation
	IDs        []string
	PromiseOK  map[string]bool
	WantCommit bool
	Tried      string // commit / abort
	Err1       string
	RetryAbort bool
	Err2       string
	Unconfirmed bool // first End was a commit attempt that failed while a fault hit an EndTxn request of this transaction
	FaultHitEnd bool
}

const (
	topic = "c11t"
	txid  = "c11-txn"
)

func errResp(kreq kmsg.Request, code int16) kmsg.Response {
	resp := kreq.ResponseKind()
	switch r := resp.(type) {
	case *kmsg.InitProducerIDResponse:
		r.ErrorCode = code
		r.ProducerID = -1
		r.ProducerEpoch = -1
	case *kmsg.EndTxnResponse:
		r.ErrorCode = code
		r.ProducerID = -1
		r.ProducerEpoch = -1
	case *kmsg.AddPartitionsToTxnResponse:
		req := kreq.(*kmsg.AddPartitionsToTxnRequest)
		if req.Version >= 4 {
			r.ErrorCode = code
			for _, tx := range req.Transactions {
				st := kmsg.NewAddPartitionsToTxnResponseTransaction()
				st.TransactionalID = tx.TransactionalID
				for _, t := range tx.Topics {
					rt := kmsg.NewAddPartitionsToTxnResponseTransactionTopic()
					rt.Topic = t.Topic
					for _, p := range t.Partitions {
						rp := kmsg.NewAddPartitionsToTxnResponseTransactionTopicPartition()
						rp.Partition = p
						rp.ErrorCode = code
						rt.Partitions = append(rt.Partitions, rp)
					}
					st.Topics = append(st.Topics, rt)
				}
				r.Transactions = append(r.Transactions, st)
			}
		} else {
			for _, t := range req.Topics {
				rt := kmsg.NewAddPartitionsToTxnResponseTopic()
				rt.Topic = t.Topic
				for _, p := range t.Partitions {
					rp := kmsg.NewAddPartitionsToTxnResponseTopicPartition()
					rp.Partition = p
					rp.ErrorCode = code
					rt.Partitions = append(rt.Partitions, rp)
				}
				r.Topics = append(r.Topics, rt)
			}
		}
	case *kmsg.ProduceResponse:
		req := kreq.(*kmsg.ProduceRequest)
		for _, t := range req.Topics {
			st := kmsg.NewProduceResponseTopic()
			st.Topic = t.Topic
			st.TopicID = t.TopicID
			for _, p := range t.Partitions {
				sp := kmsg.NewProduceResponseTopicPartition()
				sp.Partition = p.Partition
				sp.ErrorCode = code
				sp.BaseOffset = -1
				st.Partitions = append(st.Partitions, sp)
			}
			r.Topics = append(r.Topics, st)
		}
	}
	return resp
}

func idOf(v []byte) string {
	if i := bytes.IndexByte(v, '|'); i > 0 {
		return string(v[:i])
	}
	return ""
}

// produceBatchKeys identifies the record batches of a produce request.
func produceBatchKeys(req *kmsg.ProduceRequest) (keys []string) {
	for _, t := range req.Topics {
		for _, p := range t.Partitions {
			b := p.Records
			if len(b) < 61 {
				continue
			}
			keys = append(keys, fmt.Sprintf("%s%x/%d/%d/%d/%d", t.Topic, t.TopicID, p.Partition, int64(binary.BigEndian.Uint64(b[43:])), binary.BigEndian.Uint16(b[51:]), binary.BigEndian.Uint32(b[53:])))
		}
	}
	return keys
}

type result struct {
	SkippedFatalOnRetry int
	Txns    []*txnRec
	Logs    map[int32]*e2e.PartitionLog
	Fired   []string
	Inconcl []string
}

func run(p plan, watchdog time.Duration) *result {
	res := &result{Logs: map[int32]*e2e.PartitionLog{}}
	var mu sync.Mutex
	counts := map[int16]int{}
	var curTxn *txnRec
	hit := func(key int16) *fault {
		mu.Lock()
		defer mu.Unlock()
		n := counts[key]
		counts[key]++
		for i := range p.Faults {
			f := &p.Faults[i]
			if f.Key == key && f.Nth == n {
				res.Fired = append(res.Fired, fmt.Sprintf("%s@key%d#%d/code%d", f.Kind, key, n, f.Code))
				if key == 26 && curTxn != nil {
					curTxn.FaultHitEnd = true
				}
				return f
			}
		}
		return nil
	}
	fnet := &faultnet.Net{}
	fnet.Decide = func(r *faultnet.Req) faultnet.Action {
		if r.ClientID != "txn" {
			return faultnet.Action{}
		}
		switch r.Key {
		case 22, 24, 0, 26:
		default:
			return faultnet.Action{}
		}
		f := hit(r.Key)
		if f == nil {
			return faultnet.Action{}
		}
		switch f.Kind {
		case "kill-before":
			return faultnet.Action{Kind: faultnet.KillBefore}
		case "kill-after":
			return faultnet.Action{Kind: faultnet.KillAfter}
		}
		// code: handled by the Control function below (marked through a side table)
		mu.Lock()
		pendingCode[r.Key] = append(pendingCode[r.Key], f.Code)
		mu.Unlock()
		return faultnet.Action{}
	}
	env, err := e2e.NewEnv(p.VT, 1+int(p.Seed%3), fnet, kfake.SeedTopics(2, topic))
	if err != nil {
		res.Inconcl = append(res.Inconcl, err.Error())
		return res
	}
	defer env.Close()
	seenBatches := map[string]bool{} // produce batches handed to kfake, by (topic, partition, pid, epoch, base sequence)
	for _, key := range []int16{22, 24, 0, 26} {
		key := key
		env.C.ControlKey(key, func(kreq kmsg.Request) (kmsg.Response, error, bool) {
			env.C.KeepControl()
			mu.Lock()
			var code int16
			has := false
			if q := pendingCode[key]; len(q) > 0 {
				// only requests of the client under test reach here with a pending code: other
				// clients (log reader, fencer) never send these keys while faults are pending
				code, has = q[0], true
				pendingCode[key] = q[1:]
			}
			mu.Unlock()
			// A non-retriable code for a produce batch that an earlier attempt already handed to
			// the broker (its response was killed) is an answer no broker gives - it either
			// appended the batch, and answers the retry as a duplicate, or it did not. The client
			// takes such an answer as "definitively not written" and reuses the sequence numbers.
			// Sampled multi-fault plans can pair a kill-after with a code on the retry: the code is
			// then dropped (counted), exactly like the producer checks' injection rule.
			if pr, ok := kreq.(*kmsg.ProduceRequest); ok {
				keys := produceBatchKeys(pr)
				mu.Lock()
				retried := false
				for _, k := range keys {
					if seenBatches[k] {
						retried = true
					}
				}
				if has && retried && !kerr.IsRetriable(kerr.ErrorForCode(code)) {
					has = false
					res.SkippedFatalOnRetry++
				}
				if !has {
					for _, k := range keys {
						seenBatches[k] = true
					}
				}
				mu.Unlock()
			}
			if !has {
				return nil, nil, false
			}
			return errResp(kreq, code), nil, true
		})
	}

	mkClient := func() (*kgo.Client, error) {
		opts := []kgo.Opt{kgo.ClientID("txn"), kgo.TransactionalID(txid), kgo.TransactionTimeout(40 * time.Second), kgo.RecordPartitioner(kgo.ManualPartitioner()),
			kgo.RetryBackoffFn(func(n int) time.Duration { return time.Duration(n+1) * 2 * time.Millisecond }), kgo.RequestRetries(6), kgo.MetadataMinAge(10 * time.Millisecond),
			kgo.RecordDeliveryTimeout(5 * time.Second), kgo.ProduceRequestTimeout(2 * time.Second), kgo.RequestTimeoutOverhead(2 * time.Second)}
		if p.TV1 {
			v := kversion.Stable()
			v.SetMaxKeyVersion(int16(kmsg.EndTxn), 4)
			v.SetMaxKeyVersion(int16(kmsg.Produce), 11)
			v.SetMaxKeyVersion(int16(kmsg.TxnOffsetCommit), 4)
			v.SetMaxKeyVersion(int16(kmsg.AddPartitionsToTxn), 3)
			opts = append(opts, kgo.MaxVersions(v))
		}
		return env.NewClient(opts...)
	}
	cl, err := mkClient()
	if err != nil {
		res.Inconcl = append(res.Inconcl, err.Error())
		return res
	}
	gen := 0
	rng := rand.New(rand.NewPCG(p.Seed, 2))
	for n := 0; n < p.Txns; n++ {
		tx := &txnRec{N: n, Gen: gen, PromiseOK: map[string]bool{}, WantCommit: rng.Float64() >= p.AbortP}
		mu.Lock()
		curTxn = tx
		res.Txns = append(res.Txns, tx)
		mu.Unlock()
		if err := cl.BeginTransaction(); err != nil {
			// client unusable: replace it
			tx.Err1 = "begin: " + err.Error()
			cl.Close()
			gen++
			if cl, err = mkClient(); err != nil {
				res.Inconcl = append(res.Inconcl, err.Error())
				return res
			}
			continue
		}
		k := 1 + rng.IntN(5)
		var pmu sync.Mutex
		anyFail := false
		for i := 0; i < k; i++ {
			id := fmt.Sprintf("g%d.t%d.r%d", gen, n, i)
			tx.IDs = append(tx.IDs, id)
			cl.Produce(context.Background(), &kgo.Record{Topic: topic, Partition: int32(rng.IntN(2)), Value: []byte(id + "|x")}, func(_ *kgo.Record, err error) {
				pmu.Lock()
				tx.PromiseOK[id] = err == nil
				if err != nil {
					anyFail = true
				}
				pmu.Unlock()
			})
		}
		ctx, cancel := context.WithTimeout(context.Background(), watchdog)
		if err := cl.Flush(ctx); err != nil {
			res.Inconcl = append(res.Inconcl, "flush: "+err.Error())
			cancel()
			break
		}
		pmu.Lock()
		failed := anyFail
		pmu.Unlock()
		try := kgo.TryCommit
		tx.Tried = "commit"
		if !tx.WantCommit || failed {
			try = kgo.TryAbort
			tx.Tried = "abort"
		}
		err1 := cl.EndTransaction(ctx, try)
		if err1 != nil {
			tx.Err1 = err1.Error()
			mu.Lock()
			if tx.Tried == "commit" && tx.FaultHitEnd {
				tx.Unconfirmed = true
			}
			mu.Unlock()
			tx.RetryAbort = true
			if err2 := cl.EndTransaction(ctx, kgo.TryAbort); err2 != nil {
				tx.Err2 = err2.Error()
				cl.Close()
				gen++
				if cl, err = mkClient(); err != nil {
					res.Inconcl = append(res.Inconcl, err.Error())
					cancel()
					return res
				}
			}
		}
		cancel()
	}
	mu.Lock()
	curTxn = nil
	mu.Unlock()
	cl.Close()
	// fence: a fresh producer with the same transactional id aborts anything still open
	fencer, err := env.NewClient(kgo.ClientID("fencer"), kgo.TransactionalID(txid))
	if err == nil {
		ctx, cancel := context.WithTimeout(context.Background(), watchdog)
		if err := fencer.BeginTransaction(); err == nil {
			fencer.EndTransaction(ctx, kgo.TryAbort)
		}
		if _, _, err := fencer.ProducerID(ctx); err != nil {
			res.Inconcl = append(res.Inconcl, "fencer: "+err.Error())
		}
		cancel()
		fencer.Close()
	}
	admin, err := env.NewClient(kgo.ClientID("reader"))
	if err != nil {
		res.Inconcl = append(res.Inconcl, err.Error())
		return res
	}
	defer admin.Close()
	ctx, cancel := context.WithTimeout(context.Background(), watchdog)
	defer cancel()
	for part := int32(0); part < 2; part++ {
		l, err := e2e.ReadLog(ctx, admin, topic, part)
		if err != nil {
			res.Inconcl = append(res.Inconcl, "read log: "+err.Error())
			return res
		}
		res.Logs[part] = l
	}
	return res
}

var pendingCode = map[int16][]int16{} // reset per scenario (scenarios of this package run sequentially)

func judge(r *vh.Run, p plan, res *result, mode string) {
	wit := func(d string) map[string]any {
		var ts []string
		for _, t := range res.Txns {
			ts = append(ts, fmt.Sprintf("txn%d gen%d tried=%s err1=%q retryAbort=%v err2=%q unconfirmed=%v ids=%d", t.N, t.Gen, t.Tried, t.Err1, t.RetryAbort, t.Err2, t.Unconfirmed, len(t.IDs)))
		}
		return map[string]any{"mode": mode, "plan": p, "detail": d, "fired": res.Fired, "txns": ts}
	}
	if len(res.Inconcl) > 0 {
		r.Inconclusive(fmt.Sprintf("%s: %v", mode, res.Inconcl))
		return
	}
	status := map[string]string{}
	type seg struct {
		pid   int64
		epoch int16
	}
	for part, l := range res.Logs {
		st := l.TxnStatus()
		// no-merge: per producer id, data records between markers belong to one application txn
		cur := map[int64]string{}
		for _, rec := range l.Records {
			if rec.Control {
				delete(cur, rec.ProducerID)
				continue
			}
			id := idOf(rec.Value)
			if id == "" {
				continue
			}
			status[id] = st[rec.Offset]
			txnOf := id[:strings.LastIndex(id, ".")]
			if prev, ok := cur[rec.ProducerID]; ok && prev != txnOf {
				r.Violation("two-application-transactions-merged-under-one-marker", wit(fmt.Sprintf("partition %d offset %d: record %s follows records of %s for producer %d with no marker in between", part, rec.Offset, id, prev, rec.ProducerID)))
			}
			cur[rec.ProducerID] = txnOf
		}
	}
	nCommit, nAbort, nErr, nUnconf := 0, 0, 0, 0
	for _, t := range res.Txns {
		switch {
		case t.Tried == "commit" && t.Err1 == "":
			nCommit++
			for _, id := range t.IDs {
				if t.PromiseOK[id] && status[id] != "committed" {
					r.Violation("commit-reported-but-record-not-committed", wit(fmt.Sprintf("txn %d: EndTransaction(TryCommit) returned nil but record %s is %q in the final log", t.N, id, status[id])))
				}
			}
		case t.Unconfirmed:
			nUnconf++ // outcome unknowable to the client; visibility not judged, merging is (above)
		default:
			if t.Err1 == "" {
				nAbort++
			} else {
				nErr++
			}
			for _, id := range t.IDs {
				if status[id] == "committed" {
					r.Violation("abort-or-error-reported-but-record-committed", wit(fmt.Sprintf("txn %d (tried %s, err1=%q, retry-abort err=%q): record %s is committed in the final log", t.N, t.Tried, t.Err1, t.Err2, id)))
				}
			}
		}
	}
	for id, st := range status {
		if st == "open" {
			r.Violation("transaction-still-open-after-fencing", wit(fmt.Sprintf("record %s belongs to a transaction with no marker after a new producer with the same transactional id initialised", id)))
			break
		}
	}
	r.Count("txns_commit_confirmed", nCommit)
	r.Count("txns_aborted", nAbort)
	r.Count("txns_error", nErr)
	r.Count("txns_commit_unconfirmed", nUnconf)
	r.Count("faults_fired", len(res.Fired))
	r.Count("fatal_code_on_retried_batch_not_injected", res.SkippedFatalOnRetry)
	if len(res.Fired) > 0 {
		sort.Strings(res.Fired)
		oc := fmt.Sprintf("c%d/a%d/e%d/u%d", min(nCommit, 1), min(nAbort, 1), min(nErr, 1), min(nUnconf, 1))
		r.Distinct(fmt.Sprintf("%s|tv1=%v|%s|%s", mode, p.TV1, strings.Join(res.Fired, "+"), oc))
		if r.WantSample() {
			r.Sample(wit("sample"))
		}
	}
}

var retriable = []int16{kerr.CoordinatorLoadInProgress.Code, kerr.NotCoordinator.Code, kerr.ConcurrentTransactions.Code, kerr.RequestTimedOut.Code}
var fatal = []int16{kerr.InvalidProducerEpoch.Code, kerr.ProducerFenced.Code, kerr.InvalidTxnState.Code, kerr.TransactionalIDAuthorizationFailed.Code, kerr.UnknownServerError.Code, kerr.TransactionAbortable.Code}
var produceCodes = []int16{kerr.NotLeaderForPartition.Code, kerr.RequestTimedOut.Code, kerr.OutOfOrderSequenceNumber.Code, kerr.InvalidProducerEpoch.Code, kerr.UnknownServerError.Code, kerr.TransactionAbortable.Code, kerr.InvalidTxnState.Code}

// placements: the finite list of single-fault placements.
func placements() (out []fault) {
	for _, key := range []int16{22, 24, 0, 26} {
		for nth := 0; nth < 3; nth++ {
			out = append(out, fault{key, nth, "kill-before", 0}, fault{key, nth, "kill-after", 0})
			codes := append(append([]int16{}, retriable...), fatal...)
			if key == 0 {
				codes = produceCodes
			}
			for _, c := range codes {
				out = append(out, fault{key, nth, "code", c})
			}
		}
	}
	return out
}

func TestCheck(t *testing.T) {
	r := vh.Start(t, "C11")
	all := placements()
	type job struct {
		p plan
	}
	var jobs []plan
	rng := r.Rand("c11", 0)
	reps := r.Pick(1, 10)
	for rep := 0; rep < reps; rep++ {
		for i, f := range all {
			for _, tv1 := range []bool{false, true} {
				if r.Quick() && (i+rep)%2 == 1 && tv1 {
					continue // quick: the older protocol gets every second placement
				}
				jobs = append(jobs, plan{Seed: uint64(r.Seed)<<24 | uint64(rep)<<16 | uint64(len(jobs)), TV1: tv1, Txns: 5, Faults: []fault{f}, AbortP: 0.3})
			}
		}
	}
	multi := r.Pick(60, 5000)
	for i := 0; i < multi; i++ {
		n := 2 + rng.IntN(2)
		var fs []fault
		for k := 0; k < n; k++ {
			fs = append(fs, all[rng.IntN(len(all))])
		}
		jobs = append(jobs, plan{Seed: uint64(r.Seed)<<24 | uint64(1<<20+i), TV1: rng.IntN(2) == 0, Txns: 6, Faults: fs, AbortP: 0.3})
	}
	r.Set("single_fault_placements", len(all)*2)
	for i, p := range jobs {
		pendingCode = map[int16][]int16{}
		vt := e2e.HaveVT && i%3 == 0
		p.VT = vt
		var res *result
		if vt {
			e2e.Bubble(t, func() { res = run(p, 10*time.Minute) })
		} else {
			res = run(p, 60*time.Second)
		}
		if res == nil {
			r.Inconclusive("scenario did not complete")
			continue
		}
		mode := "rt"
		if vt {
			mode = "vt"
		}
		judge(r, p, res, mode)
		r.Eval(1)
	}
	// GroupTransactSession family (offsets committed with the transaction), see gts_test.go
	gp := gtsPlans(r)
	r.Set("gts_plans", len(gp))
	vh.Parallel(len(gp), 6, func(i int) {
		res := runGTS(gp[i], 60*time.Second)
		judgeGTS(r, gp[i], res)
		r.Eval(1)
	})
	r.Finish("fault_enumeration",
		"evaluations = (a) one transactional-producer scenario (5-6 transactions, commit/abort mix) per fault plan; every single-fault placement (request key in {InitProducerID, AddPartitionsToTxn, Produce, EndTxn} x occurrence 0-2 x {kill-before, kill-after, each retriable code, each fatal code, CONCURRENT_TRANSACTIONS, UNKNOWN_SERVER_ERROR}) is run under KIP-890p2 (quick: and every second one under the older protocol; thorough: all, 10 seeds) plus sampled 2-3 fault plans; (b) one GroupTransactSession scenario (8 transactions producing for all / some / none of the polled records, commit/abort mix) per kill placement on Produce / AddOffsetsToTxn / TxnOffsetCommit (occurrence 0-2, both protocols) plus sampled 1-3 kill plans, judged on the committed group offsets read after every End and on the read_committed output; non-trivial = the planned fault fired (a) / offsets were judged on >=3 transactions (b); distinct by (mode, protocol, faults fired, outcome classes)",
		"transaction status is read from the log's own markers; a fresh producer with the same transactional id fences and aborts anything left open before the log is read",
		"a commit attempt that failed while a fault hit an EndTxn request of that transaction is 'unconfirmed': its visibility is not judged (the client cannot know), only that it is not merged into the next transaction",
		"injected error codes are answered by a Control function without the broker acting, so they never contradict broker state",
	)
}

// TestPlan runs one plan (JSON in VERIF_C11_PLAN, as found in a replay file's detail.plan)
// VERIF_C11_N times and prints the judge's findings; a debugging aid, not a registered check.
func TestPlan(t *testing.T) {
	raw := os.Getenv("VERIF_C11_PLAN")
	if raw == "" {
		t.Skip("set VERIF_C11_PLAN")
	}
	var p plan
	if err := json.Unmarshal([]byte(raw), &p); err != nil {
		t.Fatal(err)
	}
	n, _ := strconv.Atoi(os.Getenv("VERIF_C11_N"))
	if n == 0 {
		n = 1
	}
	r := vh.Start(t, "C11")
	for i := 0; i < n; i++ {
		pendingCode = map[int16][]int16{}
		res := run(p, 60*time.Second)
		judge(r, p, res, "rt")
		for _, tx := range res.Txns {
			fmt.Printf("run %d txn %d gen %d tried=%s want=%v err1=%q retryAbort=%v err2=%q ids=%v ok=%v\n", i, tx.N, tx.Gen, tx.Tried, tx.WantCommit, tx.Err1, tx.RetryAbort, tx.Err2, tx.IDs, tx.PromiseOK)
		}
		inLog := map[string]bool{}
		for _, lg := range res.Logs {
			for _, lr := range lg.Records {
				inLog[idOf(lr.Value)] = true
			}
		}
		missing := false
		for _, tx := range res.Txns {
			if tx.Tried == "commit" && tx.Err1 == "" {
				for _, id := range tx.IDs {
					if tx.PromiseOK[id] && !inLog[id] {
						fmt.Printf("run %d MISSING %s (txn %d committed, promise ok)\n", i, id, tx.N)
						missing = true
					}
				}
			}
		}
		if os.Getenv("VERIF_C11_DUMP") != "" && missing {
			for part, lg := range res.Logs {
				for _, lr := range lg.Records {
					fmt.Printf("run %d log p%d off=%d pid=%d epoch=%d seq=%d control=%v/%d txn=%v val=%q\n", i, part, lr.Offset, lr.ProducerID, lr.ProducerEpoch, lr.Sequence, lr.Control, lr.ControlType, lr.Transactional, idOf(lr.Value))
				}
			}
		}
		fmt.Println("fired:", res.Fired, "violations so far:", r.Violations())
	}
}
