// C11, GroupTransactSession family: End's report is checked against the
// group's committed offsets and the output log.
//
// One member consumes "c11in" and, per transaction, produces an output record
// for all, some or none of the records it polled (a consume-only transaction
// still has offsets to commit), then Ends with TryCommit or TryAbort. After
// every End that returned without error the harness reads the group's
// committed offsets with a plain OffsetFetch (RequireStable=false: the stable
// committed value, never a pending transactional one):
//   - End reported committed=true  => the committed offset of every partition
//     polled in this transaction is the offset after the last polled record;
//   - End reported committed=false => the committed offsets are what they were
//     before the transaction.
// At the end the read_committed view of the output must hold exactly the
// outputs of the transactions reported committed, once each. An End that
// returned an error is not judged (documented: replace the client); the model
// is resynchronised from the broker and the member is rebuilt.
//
// Faults: connections killed before/after the broker handled the n-th Produce,
// AddOffsetsToTxn or TxnOffsetCommit request. EndTxn itself is left alone here
// (the producer family enumerates it and handles the unconfirmed outcome).
package c11

import (
	"context"
	"fmt"
	"math/rand/v2"
	"sort"
	"sync"
	"time"

	"github.com/twmb/franz-go/pkg/kfake"
	"github.com/twmb/franz-go/pkg/kgo"
	"github.com/twmb/franz-go/pkg/kmsg"
	"github.com/twmb/franz-go/pkg/kversion"

	"verifharness/internal/e2e"
	"verifharness/internal/faultnet"
	"verifharness/internal/vh"
)

const (
	gtsIn    = "c11in"
	gtsOut   = "c11out"
	gtsGroup = "c11g"
)

type gtsPlan struct {
	Seed    uint64  `json:"seed"`
	TV1     bool    `json:"old_txn_protocol"`
	Txns    int     `json:"txns"`
	Brokers int     `json:"brokers"`
	Faults  []fault `json:"faults"`
	AbortP  float64 `json:"abort_p"`
	NoneP   float64 `json:"produce_nothing_p"`
	SomeP   float64 `json:"produce_some_p"`
}

type gtsTxn struct {
	N         int
	Mode      string // all / some / none
	Want      string // commit / abort
	Polled    map[int32]int64 // partition -> offset after the last polled record
	Outputs   []string
	Committed bool
	Err       string
	Before    map[int32]int64
	After     map[int32]int64
}

type gtsResult struct {
	Txns    []*gtsTxn
	Out     map[string]int // output id -> times seen in the read_committed view
	Fired   []string
	Inconcl []string
}

func gtsOffsets(cl *kgo.Client, watchdog time.Duration) (map[int32]int64, error) {
	req := kmsg.NewPtrOffsetFetchRequest()
	g := kmsg.NewOffsetFetchRequestGroup()
	g.Group = gtsGroup
	req.Groups = append(req.Groups, g)
	req.Group = gtsGroup
	ctx, cancel := context.WithTimeout(context.Background(), watchdog)
	defer cancel()
	resp, err := req.RequestWith(ctx, cl)
	if err != nil {
		return nil, err
	}
	out := map[int32]int64{}
	for _, rg := range resp.Groups {
		for _, t := range rg.Topics {
			for _, p := range t.Partitions {
				if p.ErrorCode == 0 && p.Offset >= 0 {
					out[p.Partition] = p.Offset
				}
			}
		}
	}
	for _, t := range resp.Topics {
		for _, p := range t.Partitions {
			if p.ErrorCode == 0 && p.Offset >= 0 {
				out[p.Partition] = p.Offset
			}
		}
	}
	return out, nil
}

func runGTS(p gtsPlan, watchdog time.Duration) *gtsResult {
	res := &gtsResult{Out: map[string]int{}}
	var mu sync.Mutex
	counts := map[int16]int{}
	fnet := &faultnet.Net{}
	fnet.Decide = func(r *faultnet.Req) faultnet.Action {
		if r.ClientID != "gts" {
			return faultnet.Action{}
		}
		mu.Lock()
		defer mu.Unlock()
		n := counts[r.Key]
		counts[r.Key]++
		for _, f := range p.Faults {
			if f.Key == r.Key && f.Nth == n {
				res.Fired = append(res.Fired, fmt.Sprintf("%d#%d:%s", f.Key, f.Nth, f.Kind))
				switch f.Kind {
				case "kill-before":
					return faultnet.Action{Kind: faultnet.KillBefore}
				case "kill-after":
					return faultnet.Action{Kind: faultnet.KillAfter}
				}
			}
		}
		return faultnet.Action{}
	}
	env, err := e2e.NewEnv(false, p.Brokers, fnet, kfake.SeedTopics(2, gtsIn, gtsOut))
	if err != nil {
		res.Inconcl = append(res.Inconcl, err.Error())
		return res
	}
	defer env.Close()
	admin, err := env.NewClient(kgo.RecordPartitioner(kgo.ManualPartitioner()))
	if err != nil {
		res.Inconcl = append(res.Inconcl, err.Error())
		return res
	}
	defer admin.Close()
	const perPart = 40
	var seedRecs []*kgo.Record
	for part := int32(0); part < 2; part++ {
		for i := 0; i < perPart; i++ {
			seedRecs = append(seedRecs, &kgo.Record{Topic: gtsIn, Partition: part, Value: []byte(fmt.Sprintf("in-%d-%d", part, i))})
		}
	}
	{
		ctx, cancel := context.WithTimeout(context.Background(), watchdog)
		err := admin.ProduceSync(ctx, seedRecs...).FirstErr()
		cancel()
		if err != nil {
			res.Inconcl = append(res.Inconcl, "seeding input: "+err.Error())
			return res
		}
	}
	rng := rand.New(rand.NewPCG(p.Seed, 31))
	mkSess := func(gen int) (*kgo.GroupTransactSession, error) {
		opts := append(env.ClientOpts(),
			kgo.ClientID("gts"), kgo.TransactionalID(fmt.Sprintf("c11-gts-%d", p.Seed)),
			kgo.ConsumerGroup(gtsGroup), kgo.ConsumeTopics(gtsIn), kgo.FetchIsolationLevel(kgo.ReadCommitted()), kgo.RequireStableFetchOffsets(),
			kgo.ConsumeResetOffset(kgo.NewOffset().AtStart()), kgo.RecordPartitioner(kgo.ManualPartitioner()),
			kgo.TransactionTimeout(30*time.Second), kgo.HeartbeatInterval(200*time.Millisecond),
			kgo.FetchMaxWait(50*time.Millisecond), kgo.MetadataMinAge(10*time.Millisecond),
			kgo.RetryBackoffFn(func(n int) time.Duration { return time.Duration(n+1) * 2 * time.Millisecond }),
			kgo.RequestTimeoutOverhead(2*time.Second), kgo.ProduceRequestTimeout(2*time.Second))
		if p.TV1 {
			v := kversion.Stable() // the pre-KIP-890p2 transaction protocol, as in the producer family
			v.SetMaxKeyVersion(int16(kmsg.EndTxn), 4)
			v.SetMaxKeyVersion(int16(kmsg.Produce), 11)
			v.SetMaxKeyVersion(int16(kmsg.TxnOffsetCommit), 4)
			v.SetMaxKeyVersion(int16(kmsg.AddPartitionsToTxn), 3)
			opts = append(opts, kgo.MaxVersions(v))
		}
		return kgo.NewGroupTransactSession(opts...)
	}
	sess, err := mkSess(0)
	if err != nil {
		res.Inconcl = append(res.Inconcl, "session: "+err.Error())
		return res
	}
	defer func() { sess.Close() }()
	deadline := time.Now().Add(watchdog)
	for n := 0; n < p.Txns && time.Now().Before(deadline); n++ {
		before, err := gtsOffsets(admin, watchdog)
		if err != nil {
			res.Inconcl = append(res.Inconcl, "offset fetch: "+err.Error())
			return res
		}
		// poll something
		var fs kgo.Fetches
		for try := 0; try < 100 && fs.NumRecords() == 0; try++ {
			ctx, cancel := context.WithTimeout(context.Background(), 100*time.Millisecond)
			fs = sess.PollRecords(ctx, 1+rng.IntN(6))
			cancel()
		}
		if fs.NumRecords() == 0 {
			break // input exhausted
		}
		tx := &gtsTxn{N: n, Polled: map[int32]int64{}, Before: before}
		x := rng.Float64()
		switch {
		case x < p.NoneP:
			tx.Mode = "none"
		case x < p.NoneP+p.SomeP:
			tx.Mode = "some"
		default:
			tx.Mode = "all"
		}
		tx.Want = "commit"
		how := kgo.TryCommit
		if rng.Float64() < p.AbortP {
			tx.Want, how = "abort", kgo.TryAbort
		}
		if err := sess.Begin(); err != nil {
			tx.Err = "begin: " + err.Error()
			res.Txns = append(res.Txns, tx)
			break
		}
		k := 0
		fs.EachRecord(func(r *kgo.Record) {
			if r.Offset+1 > tx.Polled[r.Partition] {
				tx.Polled[r.Partition] = r.Offset + 1
			}
			k++
			if tx.Mode == "none" || tx.Mode == "some" && k%2 == 0 {
				return
			}
			id := fmt.Sprintf("t%d|%s", n, r.Value)
			tx.Outputs = append(tx.Outputs, id)
			sess.Produce(context.Background(), &kgo.Record{Topic: gtsOut, Partition: r.Partition, Value: []byte(id)}, nil)
		})
		ectx, ecancel := context.WithTimeout(context.Background(), watchdog)
		committed, err := sess.End(ectx, how)
		ecancel()
		tx.Committed = committed
		res.Txns = append(res.Txns, tx)
		if err != nil {
			tx.Err = err.Error()
			// documented policy: no End error is retryable; replace the client
			sess.Close()
			if sess, err = mkSess(n + 1); err != nil {
				res.Inconcl = append(res.Inconcl, "session: "+err.Error())
				return res
			}
			continue
		}
		after, err := gtsOffsets(admin, watchdog)
		if err != nil {
			res.Inconcl = append(res.Inconcl, "offset fetch: "+err.Error())
			return res
		}
		tx.After = after
	}
	sess.Close()
	// read_committed view of the output
	rc, err := env.NewClient(kgo.ConsumeTopics(gtsOut), kgo.FetchIsolationLevel(kgo.ReadCommitted()), kgo.ConsumeResetOffset(kgo.NewOffset().AtStart()), kgo.FetchMaxWait(50*time.Millisecond))
	if err != nil {
		res.Inconcl = append(res.Inconcl, err.Error())
		return res
	}
	defer rc.Close()
	// a fresh producer with the same transactional id fences and aborts anything left open
	if fence, err := env.NewClient(kgo.TransactionalID(fmt.Sprintf("c11-gts-%d", p.Seed))); err == nil {
		ctx, cancel := context.WithTimeout(context.Background(), watchdog)
		if err := fence.BeginTransaction(); err == nil {
			fence.EndTransaction(ctx, kgo.TryAbort)
		}
		cancel()
		fence.Close()
	}
	idle := 0
	for idle < 6 {
		ctx, cancel := context.WithTimeout(context.Background(), 150*time.Millisecond)
		fs := rc.PollFetches(ctx)
		cancel()
		if fs.NumRecords() == 0 {
			idle++
			continue
		}
		idle = 0
		fs.EachRecord(func(r *kgo.Record) { res.Out[string(r.Value)]++ })
	}
	return res
}

func judgeGTS(r *vh.Run, p gtsPlan, res *gtsResult) {
	wit := func(d string) map[string]any {
		return map[string]any{"family": "group-transact-session", "plan": p, "detail": d, "txns": res.Txns, "fired": res.Fired}
	}
	if len(res.Inconcl) > 0 {
		r.Inconclusive(fmt.Sprintf("gts: %v", res.Inconcl))
		return
	}
	wantOut := map[string]bool{}
	neverOut := map[string]bool{}
	var modes []string
	nonEmptyOffsets := false
	for _, tx := range res.Txns {
		modes = append(modes, tx.Mode+"/"+tx.Want)
		if tx.Err != "" {
			for _, id := range tx.Outputs {
				delete(wantOut, id)
			}
			continue // not judged
		}
		if tx.Committed {
			for _, id := range tx.Outputs {
				wantOut[id] = true
			}
			for part, want := range tx.Polled {
				nonEmptyOffsets = true
				if got, ok := tx.After[part]; !ok || got != want {
					r.Violation("gts-end-reported-commit-but-offsets-not-committed", wit(fmt.Sprintf("txn %d (%s): partition %d polled up to %d, End returned committed=true, committed offset afterwards is %d (present=%v)", tx.N, tx.Mode, part, want, got, ok)))
				}
			}
		} else {
			for _, id := range tx.Outputs {
				neverOut[id] = true
			}
			for part := range tx.Polled {
				b, bok := tx.Before[part]
				a, aok := tx.After[part]
				if bok != aok || a != b {
					r.Violation("gts-end-reported-abort-but-offsets-changed", wit(fmt.Sprintf("txn %d (%s): partition %d committed offset before %d (present=%v), after the reported abort %d (present=%v)", tx.N, tx.Mode, part, b, bok, a, aok)))
				}
			}
		}
	}
	for id := range wantOut {
		if n := res.Out[id]; n != 1 {
			r.Violation("gts-output-of-committed-transaction-not-exactly-once", wit(fmt.Sprintf("%s seen %d times in the read_committed view", id, n)))
			break
		}
	}
	for id := range neverOut {
		if n := res.Out[id]; n != 0 {
			r.Violation("gts-output-of-aborted-transaction-visible", wit(fmt.Sprintf("%s seen %d times in the read_committed view", id, n)))
			break
		}
	}
	r.Count("gts_scenarios", 1)
	r.Count("gts_transactions", len(res.Txns))
	sort.Strings(modes)
	if nonEmptyOffsets && len(res.Txns) >= 3 {
		r.Distinct(fmt.Sprintf("gts|tv1=%v|fired=%v|%v", p.TV1, res.Fired, modes))
	}
	if r.WantSample() {
		r.Sample(map[string]any{"family": "group-transact-session", "plan": p, "fired": res.Fired, "txn_modes": modes})
	}
}

// gtsPlans: every single kill placement on Produce / AddOffsetsToTxn /
// TxnOffsetCommit (occurrence 0-2), under both protocols, plus sampled plans.
func gtsPlans(r *vh.Run) []gtsPlan {
	var out []gtsPlan
	mk := func(tv1 bool, fs []fault) {
		out = append(out, gtsPlan{Seed: uint64(r.Seed)<<24 | uint64(3<<20+len(out)), TV1: tv1, Txns: 8, Brokers: 1 + len(out)%3, Faults: fs, AbortP: 0.25, NoneP: 0.35, SomeP: 0.25})
	}
	for _, tv1 := range []bool{false, true} {
		mk(tv1, nil)
		for _, key := range []int16{0, 25, 28} {
			for nth := 0; nth < 3; nth++ {
				for _, kind := range []string{"kill-before", "kill-after"} {
					mk(tv1, []fault{{Key: key, Nth: nth, Kind: kind}})
				}
			}
		}
	}
	rng := r.Rand("c11-gts", 0)
	for i, n := 0, r.Pick(20, 1500); i < n; i++ {
		var fs []fault
		for k := 0; k < 1+rng.IntN(3); k++ {
			fs = append(fs, fault{Key: []int16{0, 25, 28}[rng.IntN(3)], Nth: rng.IntN(6), Kind: []string{"kill-before", "kill-after"}[rng.IntN(2)]})
		}
		mk(rng.IntN(2) == 0, fs)
	}
	return out
}
