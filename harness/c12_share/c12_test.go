// C12 — share-group acknowledgements are single, ordered and honoured.
//
// Two monitors:
//
//  1. Range builder (pure): kgo.VerifBuildAckRanges is driven with generated
//     mixes of user acknowledgement entries (any status incl. 0 = undecided,
//     duplicates of one offset as left behind by renew -> terminal, any
//     insertion order) and internal gap ranges (below / between / above the
//     user-acked offsets). The output must be strictly ascending and
//     non-overlapping and must cover exactly the non-zero entries and the gaps
//     with the right types.
//
//  2. End to end (sharewl_test.go, judge_test.go): 1-4 share-group members
//     consume a topic whose log has offset gaps (transaction markers and
//     compaction holes inside batches) from a kfake cluster behind faultnet.
//     Every ShareFetch/ShareAcknowledge request and response is recorded at
//     the broker side, every delivery, Ack call, callback and FlushAcks at the
//     client side, all stamped with one logical clock. The oracle runs
//     offline over those logs.
package c12

import (
	"fmt"
	"math/rand/v2"
	"sort"
	"sync/atomic"
	"testing"
	"time"

	"github.com/twmb/franz-go/pkg/kgo"

	"verifharness/internal/e2e"
	"verifharness/internal/vh"
)

const (
	sigBuilderGapBelow = "ack-ranges-not-ascending-gap-below-user-ack"
	sigE2EGapBelow     = "e2e: AcknowledgementBatches sent not ascending (gap range below a user-acked offset)"
	sigConfirmedParked = "record delivered again after its accept/reject was confirmed without error (acknowledgement piggybacked on a ShareFetch)"
	sigDoubleRenew     = "final acknowledgement sent twice for one delivery (renew entry drained, terminal status set before the request was built)"
)

var builderSamples atomic.Int32

type builderCase struct {
	Entries []kgo.VerifAckEntry `json:"entries"`
	Gaps    []kgo.VerifAckRange `json:"gaps"`
}

// genBuilderCase lays out a small offset universe; every offset is nothing, a
// user entry (status 0..4, 1-3 copies with the same status: in the client all
// copies point at one state and read one status) or part of a gap range. Gap
// offsets never coincide with user offsets (a gap is an acquired offset with
// no record; a user entry is a record).
func genBuilderCase(rng *rand.Rand, size int) builderCase {
	var c builderCase
	base := int64(0)
	switch rng.IntN(8) {
	case 0:
		base = int64(rng.IntN(1000))
	case 1:
		base = 1<<62 + int64(rng.IntN(1000))
	}
	pGap := rng.Float64() * 0.5
	pUser := rng.Float64() * 0.7
	gapType := int8(0)
	mixTypes := rng.IntN(10) == 0
	if rng.IntN(8) == 0 {
		gapType = 2 // release of undeliverable offsets
	}
	var run *kgo.VerifAckRange
	for i := 0; i < size; i++ {
		off := base + int64(i)
		x := rng.Float64()
		switch {
		case x < pGap:
			gt := gapType
			if mixTypes && rng.IntN(2) == 0 {
				gt = 2 - gt
			}
			if run != nil && run.Last+1 == off && run.Type == gt && rng.IntN(3) > 0 {
				run.Last = off // extend the current range
				continue
			}
			c.Gaps = append(c.Gaps, kgo.VerifAckRange{First: off, Last: off, Type: gt})
			run = &c.Gaps[len(c.Gaps)-1]
		case x < pGap+pUser:
			st := int8(rng.IntN(5))
			if rng.IntN(3) > 0 {
				st = int8(1 + rng.IntN(4))
			}
			n := 1
			if rng.IntN(4) == 0 {
				n += 1 + rng.IntN(2)
			}
			for k := 0; k < n; k++ {
				c.Entries = append(c.Entries, kgo.VerifAckEntry{Offset: off, Status: st})
			}
			run = nil
		default:
			run = nil
		}
	}
	if rng.IntN(3) > 0 {
		rng.Shuffle(len(c.Entries), func(i, j int) { c.Entries[i], c.Entries[j] = c.Entries[j], c.Entries[i] })
	}
	if rng.IntN(3) > 0 {
		rng.Shuffle(len(c.Gaps), func(i, j int) { c.Gaps[i], c.Gaps[j] = c.Gaps[j], c.Gaps[i] })
	}
	return c
}

// judgeBuilder returns ("", "") if the output is right, else (signature, detail).
func judgeBuilder(c builderCase) (sig, detail string, gapBelow bool) {
	want := map[int64]int8{}
	wantRenew := false
	var maxUser int64 = -1
	for _, e := range c.Entries {
		if e.Status != 0 {
			want[e.Offset] = e.Status
			if e.Status == 4 {
				wantRenew = true
			}
			if e.Offset > maxUser {
				maxUser = e.Offset
			}
		}
	}
	for _, g := range c.Gaps {
		if g.First < maxUser {
			gapBelow = true
		}
		for o := g.First; o <= g.Last; o++ {
			want[o] = g.Type
		}
	}
	in := builderCase{append([]kgo.VerifAckEntry(nil), c.Entries...), append([]kgo.VerifAckRange(nil), c.Gaps...)}
	var out []kgo.VerifAckRange
	var hasRenew bool
	if p := vh.Catch(func() { out, hasRenew = kgo.VerifBuildAckRanges(in.Entries, in.Gaps) }); p != nil {
		return "buildAckRanges: panic", fmt.Sprint(p), gapBelow
	}
	got := map[int64]int8{}
	prevLast := int64(-1)
	for i, r := range out {
		if r.First > r.Last {
			return "buildAckRanges: inverted range emitted", fmt.Sprintf("range %d = %+v; output %+v", i, r, out), gapBelow
		}
		for o := r.First; o <= r.Last; o++ {
			if _, dup := got[o]; dup {
				return "buildAckRanges: offset emitted twice", fmt.Sprintf("offset %d twice; output %+v", o, out), gapBelow
			}
			got[o] = r.Type
		}
		if i > 0 && r.First <= prevLast {
			s := "buildAckRanges: ranges not ascending (no gap below a user-acked offset)"
			if gapBelow {
				s = sigBuilderGapBelow
			}
			return s, fmt.Sprintf("range %d %+v starts at or below the previous range's last offset %d; output %+v", i, r, prevLast, out), gapBelow
		}
		prevLast = r.Last
	}
	if len(got) != len(want) {
		return "buildAckRanges: output does not cover exactly the decided entries and gaps", fmt.Sprintf("want %d offsets, got %d; output %+v", len(want), len(got), out), gapBelow
	}
	for o, t := range want {
		if gt, ok := got[o]; !ok || gt != t {
			return "buildAckRanges: offset missing or wrong type", fmt.Sprintf("offset %d want type %d got %d (present=%v); output %+v", o, t, gt, ok, out), gapBelow
		}
	}
	if hasRenew != wantRenew {
		return "buildAckRanges: hasRenew wrong", fmt.Sprintf("want %v got %v", wantRenew, hasRenew), gapBelow
	}
	return "", "", gapBelow
}

func checkBuilder(r *vh.Run) {
	report := func(c builderCase, sig, detail string) {
		r.Violation(sig, map[string]any{"entries": c.Entries, "gaps": c.Gaps, "detail": detail})
	}
	// Smallest cases first (so the recorded witness is minimal): every
	// assignment of {nothing, user accept, user undecided, gap} to offsets 0..3.
	for code := 0; code < 256; code++ {
		var c builderCase
		for i := 0; i < 4; i++ {
			switch (code >> (2 * i)) & 3 {
			case 1:
				c.Entries = append(c.Entries, kgo.VerifAckEntry{Offset: int64(i), Status: 1})
			case 2:
				c.Entries = append(c.Entries, kgo.VerifAckEntry{Offset: int64(i), Status: 0})
			case 3:
				c.Gaps = append(c.Gaps, kgo.VerifAckRange{First: int64(i), Last: int64(i)})
			}
		}
		sig, detail, gb := judgeBuilder(c)
		r.Eval(1)
		if len(c.Entries) > 0 && len(c.Gaps) > 0 {
			r.DistinctHash("b", c)
		}
		if gb {
			r.Count("builder_gap_below_user_ack", 1)
		}
		if sig != "" {
			report(c, sig, detail)
		}
	}
	n := r.Pick(200_000, 20_000_000)
	const chunk = 2000
	vh.Parallel(n/chunk, 12, func(ci int) {
		rng := r.Rand("c12-builder", ci)
		for k := 0; k < chunk; k++ {
			size := 1 + rng.IntN(6)
			if rng.IntN(3) == 0 {
				size = 4 + rng.IntN(40)
			}
			c := genBuilderCase(rng, size)
			sig, detail, gb := judgeBuilder(c)
			if len(c.Entries) > 0 && len(c.Gaps) > 0 {
				r.DistinctHash("b", c)
				if ci == 0 && k < 400 && gb && builderSamples.Add(1) <= 2 {
					r.Sample(map[string]any{"builder_entries": c.Entries, "builder_gaps": c.Gaps})
				}
			}
			if gb {
				r.Count("builder_gap_below_user_ack", 1)
			}
			if sig != "" {
				report(c, sig, detail)
			}
		}
		r.Eval(chunk)
	})
}

func TestCheck(t *testing.T) {
	r := vh.Start(t, "C12")
	if spins, ok := shareLoopSpins(); ok && !spins {
		vtMulti = true
		r.Count("vt_multi_member_enabled", 1)
	} else if ok {
		r.Count("share_fetch_loop_spin_observed_vt_single_member", 1)
	}
	checkBuilder(r)
	checkParkedAckError(r)

	nRT := r.Pick(40, 800)
	nVT := r.Pick(60, 1200)
	if !e2e.HaveVT {
		nVT = 0
	}
	// A scenario that does not come back (a client call without a deadline, or a goroutine
	// spinning inside a bubble so that virtual time cannot advance) is abandoned: inconclusive.
	guarded := func(name string, wall time.Duration, fn func() *result) *result {
		done := make(chan *result, 1)
		go func() { done <- fn() }()
		select {
		case res := <-done:
			return res
		case <-time.After(wall):
			r.Inconclusive(name + ": scenario did not return before the wall-clock watchdog (abandoned)")
			r.Count("e2e_scenarios_abandoned", 1)
			return nil
		}
	}
	vh.Parallel(nRT, 8, func(i int) {
		rng := r.Rand("c12-rt", i)
		pl := genPlan(rng, uint64(r.Seed)<<20|uint64(i), false)
		res := guarded("rt", 4*time.Minute, func() *result { return runScenario(pl, 90*time.Second) })
		if res == nil {
			return
		}
		judge(r, res)
		r.Eval(1)
	})
	for i := 0; i < nVT; i++ {
		rng := r.Rand("c12-vt", i)
		pl := genPlan(rng, uint64(r.Seed)<<20|uint64(1<<19+i), true)
		res := guarded("vt", 2*time.Minute, func() *result {
			var res *result
			fail := e2e.Bubble(t, func() { res = runScenario(pl, 40*time.Minute) })
			if res == nil {
				r.Inconclusive("vt scenario produced no result: " + fail)
				return nil
			}
			if fail != "" {
				res.Inconcl = append(res.Inconcl, "bubble: "+fail)
			}
			return res
		})
		if res == nil {
			continue
		}
		judge(r, res)
		r.Eval(1)
	}
	r.Finish("exploration",
		"builder: one evaluation = one call of the range builder on a generated (entries, gaps) input: first all 256 assignments of {none, accept, undecided, gap} to offsets 0..3, then random layouts of 1-44 offsets (statuses 0-4, 1-3 copies per offset with equal status, gap ranges split/merged/shuffled, gap types 0 and 2, large base offsets); non-trivial = entries and gaps both non-empty, distinct by hash(input). "+
			"e2e: one evaluation = one seeded share-group scenario (1-3 brokers, 1-3 partitions, transactional and keyed producers, optional compaction, 1-4 members + churn polling with PollFetches/PollRecords(1..7), per-record Ack/MarkAcks with seeded accept/release/reject/renew/renew-then-terminal/none/double/late, FlushAcks at seeded points, leader moves, connection kills of ShareFetch/ShareAcknowledge, Close with unacknowledged records, then a draining member); non-trivial = the broker saw a gap batch and at least three different non-gap ack types and at least one FlushAcks was judged; distinct by (mode, members, partitions, brokers, poll limit class, ack types seen, events that occurred)",
		"kfake is the broker: its share-partition state machine and its validation of acknowledgement batches (ascending, non-overlapping, INVALID_REQUEST otherwise) are taken as the reference, like Apache Kafka's",
		"builder inputs never put a gap range on the offset of a user entry and give all copies of one offset the same status (both hold in the client by construction)",
		"clause 'at most one final acknowledgement per delivery' is judged only in scenarios in which no ShareFetch/ShareAcknowledge connection was killed (a resend after an ambiguous kill is not judged) and the acquisition lock never expires (1 h lock)",
		"'confirmed without error' = a FlushAcks called after the ack returned nil and every callback for that partition between the ack and that return carried a nil error; redelivery = a broker-side acquisition in a ShareFetch that arrived after that FlushAcks returned",
		"'not redelivered after Close' is a verdict only in virtual time; real-time scenarios can only report it as inconclusive",
	)
	_ = sort.Ints
}
