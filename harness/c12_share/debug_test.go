package c12

import (
	"fmt"
	"os"
	"strconv"
	"testing"
	"time"

	"verifharness/internal/e2e"
	"verifharness/internal/vh"
)

// TestDebugOne runs one scenario (C12_IDX, C12_VT=1, C12_VTMULTI=1) and prints its logs.
func TestDebugOne(t *testing.T) {
	if os.Getenv("C12_IDX") == "" {
		t.Skip("set C12_IDX")
	}
	idx, _ := strconv.Atoi(os.Getenv("C12_IDX"))
	vt := os.Getenv("C12_VT") == "1"
	vtMulti = os.Getenv("C12_VTMULTI") == "1"
	os.Setenv("VERIF_NO_EVIDENCE", "1")
	r := vh.Start(t, "C12")
	stream, off := "c12-rt", 0
	if vt {
		stream, off = "c12-vt", 1<<19
	}
	pl := genPlan(r.Rand(stream, idx), uint64(r.Seed)<<20|uint64(off+idx), vt)
	var res *result
	t0 := time.Now()
	if vt {
		fmt.Println("bubble:", e2e.Bubble(t, func() { res = runScenario(pl, 40*time.Minute) }))
	} else {
		res = runScenario(pl, 90*time.Second)
	}
	fmt.Printf("plan %+v\nwall %v inconcl %v happened %v fired %v produced %d drainIdle %v\n", pl, time.Since(t0), res.Inconcl, res.Happened, res.Fired, res.Produced, res.DrainIdle)
	if os.Getenv("C12_V") != "" {
		for _, b := range brokerLog(res) {
			fmt.Println(b.String())
		}
		for _, m := range res.Members {
			fmt.Printf("member %s polls=%d deliveries=%d flushes=%+v close=%d/%d\n", m.Name, len(m.Polls), len(m.Deliveries), m.Flushes, m.CloseCall, m.CloseRet)
			for _, d := range m.Deliveries {
				fmt.Printf("  poll %d p%d@%d dc%d ret=%d acks=%+v\n", d.Poll, d.P, d.Offset, d.DC, d.RetClock, d.Acks)
			}
			for _, s := range cbTail(m, 1<<60) {
				fmt.Println("  ", s)
			}
		}
	}
	judge(r, res)
	r.Finish("exploration", "debug")
}
