package c12

import (
	"fmt"
	"sort"
	"strings"

	"github.com/twmb/franz-go/pkg/kmsg"

	"verifharness/internal/faultnet"
	"verifharness/internal/vh"
)

type batch struct {
	First, Last int64
	Types       []int8
}

func (b batch) typeAt(o int64) int8 {
	if len(b.Types) == 1 {
		return b.Types[0]
	}
	if i := int(o - b.First); i >= 0 && i < len(b.Types) {
		return b.Types[i]
	}
	return -1
}

type acqRange struct {
	First, Last int64
	DC          int16
}

// breq is one ShareFetch / ShareAcknowledge request of a member as seen on
// the broker side of the wire, with the broker's response if one was written.
type breq struct {
	Seq, Clock int64
	Member     string
	Listener   int
	Key        int16
	Epoch      int32
	Kill       string
	Acks       map[int32][]batch
	Acq        map[int32][]acqRange
	HaveResp   bool
	TopErr     int16
	AckErr     map[int32]int16
}

func (b *breq) String() string {
	var sb strings.Builder
	fmt.Fprintf(&sb, "seq=%d clock=%d %s key=%d broker=%d epoch=%d", b.Seq, b.Clock, b.Member, b.Key, b.Listener, b.Epoch)
	if b.Kill != "" {
		sb.WriteString(" " + b.Kill)
	}
	var ps []int32
	for p := range b.Acks {
		ps = append(ps, p)
	}
	sort.Slice(ps, func(i, j int) bool { return ps[i] < ps[j] })
	for _, p := range ps {
		fmt.Fprintf(&sb, " acks[p%d]=", p)
		for _, a := range b.Acks[p] {
			fmt.Fprintf(&sb, "[%d-%d t%v]", a.First, a.Last, a.Types)
		}
		if ec, ok := b.AckErr[p]; ok && ec != 0 {
			fmt.Fprintf(&sb, "(err %d)", ec)
		}
	}
	ps = ps[:0]
	for p := range b.Acq {
		ps = append(ps, p)
	}
	sort.Slice(ps, func(i, j int) bool { return ps[i] < ps[j] })
	for _, p := range ps {
		fmt.Fprintf(&sb, " acquired[p%d]=", p)
		for _, a := range b.Acq[p] {
			fmt.Fprintf(&sb, "[%d-%d dc%d]", a.First, a.Last, a.DC)
		}
	}
	if b.TopErr != 0 {
		fmt.Fprintf(&sb, " toperr=%d", b.TopErr)
	}
	if !b.HaveResp {
		sb.WriteString(" noresp")
	}
	return sb.String()
}

func respBody(ev *faultnet.Event, resp kmsg.Response) bool {
	if len(ev.Resp) <= 8 {
		return false
	}
	body := ev.Resp[8:]
	if resp.IsFlexible() && len(body) > 0 {
		body = body[1:]
	}
	return resp.ReadFrom(body) == nil
}

func brokerLog(res *result) []*breq {
	var out []*breq
	for _, ev := range res.Events {
		if ev.Req.Key != 78 && ev.Req.Key != 79 {
			continue
		}
		if !strings.HasPrefix(ev.Req.ClientID, "m") && ev.Req.ClientID != "drain" {
			continue
		}
		b := &breq{Seq: ev.Req.Seq, Clock: res.TapClock[ev.Req.Seq], Member: ev.Req.ClientID, Listener: ev.Req.Listener, Key: ev.Req.Key,
			Acks: map[int32][]batch{}, Acq: map[int32][]acqRange{}, AckErr: map[int32]int16{}}
		switch ev.Action.Kind {
		case faultnet.KillBefore, faultnet.KillAfter:
			b.Kill = ev.Action.Kind.String()
		}
		switch rq := ev.Req.Decode().(type) {
		case *kmsg.ShareFetchRequest:
			b.Epoch = rq.ShareSessionEpoch
			for _, t := range rq.Topics {
				for _, p := range t.Partitions {
					for _, a := range p.AcknowledgementBatches {
						b.Acks[p.Partition] = append(b.Acks[p.Partition], batch{a.FirstOffset, a.LastOffset, append([]int8(nil), a.AcknowledgeTypes...)})
					}
				}
			}
			resp := rq.ResponseKind().(*kmsg.ShareFetchResponse)
			if b.Kill != "kill-before" && respBody(ev, resp) {
				b.HaveResp = true
				b.TopErr = resp.ErrorCode
				for _, t := range resp.Topics {
					for _, p := range t.Partitions {
						if p.AcknowledgeErrorCode != 0 {
							b.AckErr[p.Partition] = p.AcknowledgeErrorCode
						}
						for _, a := range p.AcquiredRecords {
							b.Acq[p.Partition] = append(b.Acq[p.Partition], acqRange{a.FirstOffset, a.LastOffset, a.DeliveryCount})
						}
					}
				}
			}
		case *kmsg.ShareAcknowledgeRequest:
			b.Epoch = rq.ShareSessionEpoch
			for _, t := range rq.Topics {
				for _, p := range t.Partitions {
					for _, a := range p.AcknowledgementBatches {
						b.Acks[p.Partition] = append(b.Acks[p.Partition], batch{a.FirstOffset, a.LastOffset, append([]int8(nil), a.AcknowledgeTypes...)})
					}
				}
			}
			resp := rq.ResponseKind().(*kmsg.ShareAcknowledgeResponse)
			if b.Kill != "kill-before" && respBody(ev, resp) {
				b.HaveResp = true
				b.TopErr = resp.ErrorCode
				for _, t := range resp.Topics {
					for _, p := range t.Partitions {
						if p.ErrorCode != 0 {
							b.AckErr[p.Partition] = p.ErrorCode
						}
					}
				}
			}
		default:
			continue
		}
		out = append(out, b)
	}
	sort.Slice(out, func(i, j int) bool { return out[i].Seq < out[j].Seq })
	return out
}

// final describes how the application left one delivery.
type final struct {
	Status   int8  // 1..3 explicit or auto accept; 0 = nothing final (only possible for the last poll before Close)
	At       int64 // clock of the deciding call (ack call, or the next poll call for an auto accept)
	Auto     bool
	OnClose  bool  // left for Close
	FirstAck int64 // clock of the first Ack call of any status before the bound (0 if none)
}

func judge(r *vh.Run, res *result) {
	pl := res.Plan
	mode := "rt"
	if pl.VT {
		mode = "vt"
	}
	if len(res.Members) == 0 {
		r.Inconclusive(fmt.Sprintf("%s: scenario did not start: %v", mode, res.Inconcl))
		return
	}
	blog := brokerLog(res)
	kills := res.Fired["kill-before"] + res.Fired["kill-after"]
	if res.Happened["killall"] > 0 {
		kills++
	}
	members := map[string]*memberLog{}
	for _, m := range res.Members {
		members[m.Name] = m
	}
	tail := func(member string, p int32, upto int64) []string {
		var out []string
		for _, b := range blog {
			if b.Member != member || b.Clock > upto {
				continue
			}
			if _, ok := b.Acks[p]; !ok {
				if _, ok := b.Acq[p]; !ok {
					continue
				}
			}
			out = append(out, b.String())
		}
		if len(out) > 25 {
			out = out[len(out)-25:]
		}
		return out
	}
	touching := func(p int32, off int64) []string {
		var out []string
		for _, b := range blog {
			hit := false
			for _, a := range b.Acks[p] {
				hit = hit || (a.First <= off && off <= a.Last)
			}
			for _, a := range b.Acq[p] {
				hit = hit || (a.First <= off && off <= a.Last)
			}
			if hit {
				out = append(out, b.String())
			}
		}
		if len(out) > 40 {
			out = out[len(out)-40:]
		}
		return out
	}
	wit := func(detail string, extra map[string]any) map[string]any {
		m := map[string]any{"mode": mode, "plan": pl, "detail": detail, "fired": res.Fired, "happened": res.Happened}
		for k, v := range extra {
			m[k] = v
		}
		return m
	}

	// ---- clause 4: batches of one partition in one request strictly ascending, non-overlapping
	typesSeen := map[int8]int{}
	for _, b := range blog {
		for p, bs := range b.Acks {
			prev := int64(-1)
			for i, a := range bs {
				for _, t := range a.Types {
					typesSeen[t]++
				}
				bad := a.First > a.Last || (i > 0 && a.First <= prev)
				if bad {
					sig := "e2e: AcknowledgementBatches sent not strictly ascending"
					if i > 0 && a.typeAt(a.First) == 0 && bs[i-1].typeAt(bs[i-1].First) != 0 {
						sig = sigE2EGapBelow
					}
					r.Violation(sig, wit(fmt.Sprintf("partition %d batch %d [%d-%d] follows a batch ending at %d", p, i, a.First, a.Last, prev),
						map[string]any{"request": b.String(), "broker_answer_for_partition": b.AckErr[p]}))
					r.Count("e2e_requests_with_unordered_batches", 1)
					break
				}
				prev = a.Last
			}
		}
	}

	// ---- per-delivery outcome as the application left it
	finals := map[*delivery]final{}
	for _, m := range res.Members {
		for _, d := range m.Deliveries {
			var f final
			bound := m.CloseCall
			hasNext := d.Poll+1 < len(m.Polls)
			if hasNext {
				bound = m.Polls[d.Poll+1].Call
			}
			for _, a := range d.Acks {
				if a.Clock > bound {
					break
				}
				if f.FirstAck == 0 {
					f.FirstAck = a.Clock
				}
				if a.Status >= 1 && a.Status <= 3 {
					f.Status, f.At = a.Status, a.Clock
					break
				}
			}
			if f.Status == 0 {
				if hasNext {
					f.Status, f.At, f.Auto = 1, bound, true
				} else {
					f.OnClose = true
				}
			}
			finals[d] = f
		}
	}

	// window classifies the callbacks of member m for partition p that overlap (from, to):
	// any error, and whether one that started after from completed before to.
	window := func(m *memberLog, p int32, from, to int64) (anyErr, completed bool) {
		m.cbMu.Lock()
		defer m.cbMu.Unlock()
		for _, cb := range m.Callbacks {
			if cb.End < from || cb.Start > to {
				continue
			}
			for i, cp := range cb.Parts {
				if cp != p {
					continue
				}
				if cb.Errs[i] != "" {
					anyErr = true
				}
				if cb.Start > from && cb.End < to {
					completed = true
				}
			}
		}
		return
	}
	firstFlushAfter := func(m *memberLog, t int64) *flushLog {
		for i := range m.Flushes {
			if m.Flushes[i].Call > t {
				return &m.Flushes[i]
			}
		}
		return nil
	}
	// acquisitions per partition in arrival order
	type acqEv struct {
		Clock  int64
		Member string
		R      acqRange
		Req    *breq
	}
	acqs := map[int32][]acqEv{}
	for _, b := range blog {
		for p, rs := range b.Acq {
			for _, a := range rs {
				acqs[p] = append(acqs[p], acqEv{b.Clock, b.Member, a, b})
			}
		}
	}
	sentBy := func(member string, p int32, off int64, from, to int64) (types []int8, reqs []string) {
		for _, b := range blog {
			if b.Member != member || b.Clock <= from || b.Clock >= to {
				continue
			}
			for _, a := range b.Acks[p] {
				if a.First <= off && off <= a.Last {
					types = append(types, a.typeAt(off))
					reqs = append(reqs, b.String())
				}
			}
		}
		return
	}

	// ---- clause 1: at most one final acknowledgement per delivery (runs without connection kills)
	type po struct {
		p   int32
		off int64
	}
	// offsets for which some member sent a final acknowledgement twice: the duplicate lands on whatever
	// acquisition of the offset is current at the broker, so what happens to that offset afterwards
	// (an early release, two state objects in one member) is a consequence of that finding and is not
	// judged again under the other clauses
	tainted := map[po]bool{}
	{
		type key struct {
			m   string
			p   int32
			off int64
		}
		type st struct {
			finals   int
			listener int
			first    string
		}
		state := map[key]*st{}
		for _, b := range blog {
			for p, bs := range b.Acks {
				for _, a := range bs {
					for o := a.First; o <= a.Last; o++ {
						t := a.typeAt(o)
						if t < 1 || t > 3 {
							continue
						}
						s := state[key{b.Member, p, o}]
						if s == nil || s.listener != b.Listener {
							if kills == 0 {
								r.Count("final_ack_without_matching_acquisition_dontcare", 1)
							}
							continue
						}
						s.finals++
						if s.finals >= 2 {
							tainted[po{p, o}] = true
						}
						if kills != 0 {
							continue // a resend after an ambiguous connection kill is not judged
						}
						r.Count("final_acks_judged", 1)
						if s.finals == 1 {
							s.first = b.String()
						} else {
							// the application's calls on this offset: a renew followed by a terminal status (explicit,
							// or the auto-accept of the next poll) is the window documented at shareAckState (a drain
							// takes the renew entry, the terminal ack re-appends the state, both requests then read
							// the terminal status)
							sig := "final acknowledgement sent twice for one delivery"
							var ds []*delivery
							if m := members[b.Member]; m != nil {
								for _, d := range m.Deliveries {
									if d.P != p || d.Offset != o {
										continue
									}
									ds = append(ds, d)
									for _, a := range d.Acks {
										if a.Status == 4 {
											sig = sigDoubleRenew
										}
									}
								}
							}
							r.Violation(sig,
								wit(fmt.Sprintf("member %s partition %d offset %d: final acknowledgement number %d since the broker last acquired the offset for this member", b.Member, p, o, s.finals),
									map[string]any{"first": s.first, "again": b.String(), "application_calls": ds, "requests": tail(b.Member, p, b.Clock)}))
						}
					}
				}
			}
			for p, rs := range b.Acq {
				for _, a := range rs {
					for o := a.First; o <= a.Last; o++ {
						state[key{b.Member, p, o}] = &st{listener: b.Listener}
					}
				}
			}
		}
	}
	if kills != 0 {
		r.Count("scenarios_with_kills_clause1_not_judged", 1)
	}

	// With connection kills a member can hold two state objects for one offset (the delivery of the
	// old session and the one of the new session); an acknowledgement of the old one can be sent in
	// the new session (equal epoch numbers are not told apart) and lands on the new acquisition.
	// Clauses that interpret "what was sent for this delivery" are then judged only for offsets
	// the member received once.
	type mpo struct {
		m   string
		p   int32
		off int64
	}
	nDeliv := map[mpo]int{}
	for _, m := range res.Members {
		for _, d := range m.Deliveries {
			nDeliv[mpo{m.Name, d.P, d.Offset}]++
		}
	}
	unambiguous := func(d *delivery) bool {
		if tainted[po{d.P, d.Offset}] {
			return false
		}
		return kills == 0 || nDeliv[mpo{d.Member, d.P, d.Offset}] == 1
	}

	var nFlushJudged, nConfirmed, nAutoJudged, nCloseJudged, nFlushAcksJudged int
	for _, m := range res.Members {
		for _, d := range m.Deliveries {
			f := finals[d]
			// ---- clause 5: FlushAcks returns only after the callbacks of earlier acks ran
			// entry-creating calls: the first Ack call on the record, the first terminal one, the auto accept
			for _, ta := range []int64{f.FirstAck, f.At} {
				if ta == 0 {
					continue
				}
				fl := firstFlushAfter(m, ta)
				if fl == nil || fl.Err != "" {
					if fl != nil {
						r.Count("flush_with_error_not_judged", 1)
					}
					continue
				}
				nFlushAcksJudged++
				if _, completed := window(m, d.P, ta, fl.Ret); !completed {
					r.Violation("FlushAcks returned before the callback for an earlier acknowledgement had run",
						wit(fmt.Sprintf("member %s partition %d offset %d: acknowledgement decided at clock %d, FlushAcks called %d returned %d without error, but no callback naming the partition started after the acknowledgement and finished before the return", m.Name, d.P, d.Offset, ta, fl.Call, fl.Ret),
							map[string]any{"delivery": d, "callbacks": cbTail(m, fl.Ret+50), "requests": tail(m.Name, d.P, fl.Ret+50)}))
				}
			}
			if f.Status == 0 {
				continue
			}
			fl := firstFlushAfter(m, f.At)
			if fl == nil || fl.Err != "" {
				continue
			}
			nFlushJudged++
			anyErr, completed := window(m, d.P, f.At, fl.Ret)
			if anyErr || !completed {
				r.Count("ack_not_confirmed_dontcare", 1)
				continue
			}
			// ---- clause 3a: left unacknowledged => accepted at the next poll
			if f.Auto && !unambiguous(d) {
				r.Count("ambiguous_redelivered_offset_dontcare", 1)
			}
			if f.Auto && unambiguous(d) {
				nAutoJudged++
				// the first request after the poll call that names the offset carries this delivery's
				// outcome (later ones belong to later deliveries of the same offset to this member)
				// (a renew built before the poll call may still arrive after it: skipped)
				types, reqs := sentBy(m.Name, d.P, d.Offset, f.At, fl.Ret)
				for len(types) > 0 && types[0] == 4 {
					types = types[1:]
				}
				if len(types) == 0 || types[0] != 1 {
					r.Violation("record left unacknowledged was not accepted at the next poll",
						wit(fmt.Sprintf("member %s partition %d offset %d (delivery count %d): next poll called at clock %d, FlushAcks returned nil at %d with only error-free callbacks, but the acknowledgement types the broker saw for the offset in that window were %v (want accept first)", m.Name, d.P, d.Offset, d.DC, f.At, fl.Ret, types),
							map[string]any{"delivery": d, "requests_covering": reqs, "requests": tail(m.Name, d.P, fl.Ret)}))
				}
			}
			// ---- clause 2: confirmed accept / reject is never delivered again
			if (f.Status == 1 || f.Status == 3) && unambiguous(d) {
				nConfirmed++
				for _, a := range acqs[d.P] {
					// a later acquisition: the fetch arrived after the confirming FlushAcks returned, or (a parked
					// fetch acquires after it arrived) the delivery count went up in a run without session resets
					later := a.Clock > fl.Ret || (kills == 0 && int32(a.R.DC) > d.DC)
					// A higher delivery count alone does not place the acquisition after the confirmation
					// when the broker was told to give the offset up in between: an acknowledgement of
					// this member naming the offset (typically the release of an earlier delivery's
					// record, acknowledged late) that arrived after this delivery had been handed to the
					// application's poll and before the fetch in question. The offset was then acquired
					// again BEFORE the accept / reject was decided, which the property does not forbid.
					if later && a.Clock <= fl.Ret {
						for _, b := range blog {
							if b.Member != m.Name || b.Clock >= a.Clock || b.Clock >= f.At {
								continue
							}
							for _, ab := range b.Acks[d.P] {
								if ab.First <= d.Offset && d.Offset <= ab.Last && ab.typeAt(d.Offset) != 4 && b.Clock > acquiredAt(blog, m.Name, d.P, d.Offset, d.DC, d.RetClock) {
									later = false
								}
							}
						}
						if !later {
							r.Count("reacquired_before_the_accept_after_an_intervening_acknowledgement_dontcare", 1)
						}
					}
					if later && a.R.First <= d.Offset && d.Offset <= a.R.Last {
						sig := "record delivered again after its accept/reject was confirmed without error"
						// which request carried the acknowledgement? piggybacked on a ShareFetch = the shape in
						// which kfake can park the fetch and lose the acknowledgement's error code when it
						// rebuilds the response (see checkParkedAckError); a ShareAcknowledge always reports it
						for _, b := range blog {
							if b.Member != m.Name || b.Clock <= f.At || b.Clock >= fl.Ret {
								continue
							}
							covers := false
							for _, ab := range b.Acks[d.P] {
								covers = covers || (ab.First <= d.Offset && d.Offset <= ab.Last && ab.typeAt(d.Offset) == f.Status)
							}
							if covers {
								if b.Key == 78 {
									sig = sigConfirmedParked
								}
								break
							}
						}
						r.Violation(sig,
							wit(fmt.Sprintf("member %s partition %d offset %d (delivery count %d) status %d decided at clock %d (auto=%v), confirmed by FlushAcks returning nil at %d; acquired again (delivery count %d) by %s in a ShareFetch that arrived at clock %d", m.Name, d.P, d.Offset, d.DC, f.Status, f.At, f.Auto, fl.Ret, a.R.DC, a.Member, a.Clock),
								map[string]any{"delivery": d, "reacquired_in": a.Req.String(), "requests_touching_offset": touching(d.P, d.Offset), "requests": tail(m.Name, d.P, fl.Ret), "callbacks": cbTail(m, fl.Ret)}))
						break
					}
				}
			}
		}
	}

	// ---- clause 3b: left unacknowledged at Close => released, deliverable again
	for _, m := range res.Members {
		if m.Name == "drain" || m.CloseCall == 0 || len(m.Polls) == 0 {
			continue
		}
		last := len(m.Polls) - 1
		for _, d := range m.Deliveries {
			if d.Poll != last || !finals[d].OnClose {
				continue
			}
			if !unambiguous(d) {
				r.Count("ambiguous_redelivered_offset_dontcare", 1)
				continue
			}
			types, reqs := sentBy(m.Name, d.P, d.Offset, m.CloseCall, res.EndClock+1)
			wrong := false
			released := false
			for _, t := range types {
				if t == 1 || t == 3 {
					wrong = true
				}
				released = released || t == 2
			}
			if wrong {
				r.Violation("record left unacknowledged at Close was not released",
					wit(fmt.Sprintf("member %s partition %d offset %d: Close called at clock %d; acknowledgement types sent for the offset afterwards: %v (want release)", m.Name, d.P, d.Offset, m.CloseCall, types),
						map[string]any{"delivery": d, "requests_covering": reqs}))
				continue
			}
			// where was the offset last acquired for this member, and did the close request reach that broker?
			listener := -1
			for _, a := range acqs[d.P] {
				if a.Member == m.Name && a.Clock < d.RetClock && a.R.First <= d.Offset && d.Offset <= a.R.Last {
					listener = a.Req.Listener
				}
			}
			closeSeen := false
			for _, b := range blog {
				if b.Member == m.Name && b.Clock > m.CloseCall && b.Epoch == -1 && b.Kill == "" && b.Listener == listener && b.HaveResp {
					closeSeen = true
				}
			}
			// an entry made before Close (renew) may already have been dropped with an error callback
			anyErr, _ := window(m, d.P, d.RetClock, res.EndClock+1)
			if closeSeen && !anyErr && kills == 0 {
				nCloseJudged++
				if !released {
					r.Violation("record left unacknowledged at Close was not released",
						wit(fmt.Sprintf("member %s partition %d offset %d: Close called at clock %d, the closing request reached broker %d, no callback reported an error for the partition, but no release for the offset was sent", m.Name, d.P, d.Offset, m.CloseCall, listener),
							map[string]any{"delivery": d, "requests": tail(m.Name, d.P, res.EndClock)}))
					continue
				}
			}
			// deliverable again: some later acquisition (virtual time only; the drain must have idled out)
			if pl.VT && res.DrainIdle && len(res.Inconcl) == 0 && int(d.DC) < dcLimit-1 {
				again := false
				for _, a := range acqs[d.P] {
					// a parked fetch acquires after it arrived: the delivery count tells the order
					if (a.Clock > m.CloseCall || int32(a.R.DC) > d.DC) && a.R.First <= d.Offset && d.Offset <= a.R.Last {
						again = true
					}
				}
				r.Count("close_redelivery_judged", 1)
				if !again {
					r.Violation("record left unacknowledged at Close was never delivered again",
						wit(fmt.Sprintf("member %s partition %d offset %d (delivery count %d): Close called at clock %d; no member acquired the offset afterwards although a draining member polled until idle", m.Name, d.P, d.Offset, d.DC, m.CloseCall),
							map[string]any{"delivery": d, "requests_touching_offset": touching(d.P, d.Offset), "requests": tail(m.Name, d.P, res.EndClock)}))
				}
			} else if !pl.VT {
				r.Count("rt_close_redelivery_not_judged", 1)
			}
		}
	}

	for _, s := range res.Inconcl {
		r.Inconclusive(mode + ": " + s)
	}

	// ---- coverage
	r.Count("e2e_scenarios_"+mode, 1)
	r.Count("e2e_broker_requests", len(blog))
	nd := 0
	for _, m := range res.Members {
		nd += len(m.Deliveries)
		r.Count("e2e_flushacks_calls", len(m.Flushes))
		r.Count("e2e_callbacks", len(m.Callbacks))
	}
	r.Count("e2e_deliveries", nd)
	r.Count("e2e_flush_windows_judged", nFlushJudged)
	r.Count("e2e_clause5_acks_judged", nFlushAcksJudged)
	r.Count("e2e_confirmed_accept_reject", nConfirmed)
	r.Count("e2e_auto_accept_judged", nAutoJudged)
	r.Count("e2e_close_release_judged", nCloseJudged)
	for t, n := range typesSeen {
		r.Count(fmt.Sprintf("e2e_ack_type_%d_batches", t), n)
	}
	for k, n := range res.Happened {
		r.Count("e2e_event_"+k, n)
	}
	for k, n := range res.Fired {
		if k != "pass" {
			r.Count("e2e_fault_"+k, int(n))
		}
	}
	nonGap := 0
	var tk []string
	for t := int8(0); t <= 4; t++ {
		if typesSeen[t] > 0 {
			tk = append(tk, fmt.Sprint(t))
			if t != 0 {
				nonGap++
			}
		}
	}
	if typesSeen[0] > 0 && nonGap >= 3 && nFlushJudged > 0 && len(res.Inconcl) == 0 {
		var evs []string
		for k := range res.Happened {
			evs = append(evs, k)
		}
		if kills > 0 {
			evs = append(evs, "kills")
		}
		sort.Strings(evs)
		pm := "fetches"
		for _, x := range pl.PollMax {
			if x > 0 {
				pm = "records"
			}
		}
		r.Count("e2e_nontrivial_scenarios", 1)
		r.Distinct(fmt.Sprintf("e2e|%s|m%d|p%d|b%d|%s|t%s|%s|c%v", mode, pl.Members+pl.Churn, pl.Partitions, pl.Brokers, pm, strings.Join(tk, ""), strings.Join(evs, ","), pl.Compact))
		if r.WantSample() {
			r.Sample(map[string]any{"mode": mode, "plan": pl, "deliveries": nd, "broker_requests": len(blog), "ack_types_seen": typesSeen, "events": res.Happened, "faults": res.Fired,
				"flush_windows_judged": nFlushJudged, "confirmed": nConfirmed, "auto_accept_judged": nAutoJudged, "close_release_judged": nCloseJudged})
		}
	}
}

func cbTail(m *memberLog, upto int64) []string {
	m.cbMu.Lock()
	defer m.cbMu.Unlock()
	var out []string
	for _, cb := range m.Callbacks {
		if cb.Start > upto {
			continue
		}
		out = append(out, fmt.Sprintf("cb start=%d end=%d parts=%v errs=%q", cb.Start, cb.End, cb.Parts, cb.Errs))
	}
	if len(out) > 25 {
		out = out[len(out)-25:]
	}
	return out
}


// acquiredAt returns the clock of the ShareFetch in which the broker acquired (p, offset) for
// member with the given delivery count, at or before the poll that returned it (0 if not found).
func acquiredAt(blog []*breq, member string, p int32, offset int64, dc int32, retClock int64) int64 {
	var at int64
	for _, b := range blog {
		if b.Member != member || b.Clock > retClock {
			continue
		}
		for _, a := range b.Acq[p] {
			if a.First <= offset && offset <= a.Last && int32(a.DC) == dc {
				at = b.Clock
			}
		}
	}
	return at
}
