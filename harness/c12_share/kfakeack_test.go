package c12

import (
	"context"
	"fmt"
	"time"

	"github.com/twmb/franz-go/pkg/kerr"
	"github.com/twmb/franz-go/pkg/kfake"
	"github.com/twmb/franz-go/pkg/kgo"
	"github.com/twmb/franz-go/pkg/kmsg"

	"verifharness/internal/e2e"
	"verifharness/internal/vh"
)

const sigParkedAckErr = "kfake: a ShareFetch that long-polls loses the AcknowledgeErrorCode of its piggybacked acknowledgements"

// checkParkedAckError drives kfake with raw ShareFetch requests: the error
// code a piggybacked acknowledgement gets must not depend on whether the
// fetch part of the request long-polls (MaxWaitMillis > 0, nothing to
// acquire) or answers at once (MaxWaitMillis = 0). A client (kgo included)
// reports a nil error to the acknowledgement callback when the code is 0, so
// a lost code turns a rejected acknowledgement into a "confirmed" one.
func checkParkedAckError(r *vh.Run) {
	env, err := e2e.NewEnv(false, 1, nil, kfake.SeedTopics(1, "pt"))
	if err != nil {
		r.Inconclusive("parked-ack probe: kfake: " + err.Error())
		return
	}
	defer env.Close()
	cl, err := env.NewClient(kgo.DefaultProduceTopic("pt"), kgo.ClientID("raw"))
	if err != nil {
		r.Inconclusive("parked-ack probe: client: " + err.Error())
		return
	}
	defer cl.Close()
	ctx, cancel := context.WithTimeout(context.Background(), 60*time.Second)
	defer cancel()
	for i := 0; i < 4; i++ {
		if err := cl.ProduceSync(ctx, kgo.StringRecord(fmt.Sprint("v", i))).FirstErr(); err != nil {
			r.Inconclusive("parked-ack probe: produce: " + err.Error())
			return
		}
	}
	mreq := kmsg.NewPtrMetadataRequest()
	mt := kmsg.NewMetadataRequestTopic()
	mt.Topic = kmsg.StringPtr("pt")
	mreq.Topics = append(mreq.Topics, mt)
	mresp, err := mreq.RequestWith(ctx, cl)
	if err != nil || len(mresp.Topics) != 1 || len(mresp.Topics[0].Partitions) != 1 {
		r.Inconclusive(fmt.Sprintf("parked-ack probe: metadata: %v", err))
		return
	}
	tid := mresp.Topics[0].TopicID
	br := cl.Broker(int(mresp.Topics[0].Partitions[0].Leader))

	type ab struct {
		first, last int64
		typ         int8
	}
	fetch := func(grp string, epoch, maxWait int32, acks []ab) (ackCode int16, top int16, acquired int, err error) {
		req := kmsg.NewPtrShareFetchRequest()
		member := "raw-member-00000000000000000001"
		req.GroupID, req.MemberID = &grp, &member
		req.ShareSessionEpoch = epoch
		req.MaxWaitMillis = maxWait
		req.MinBytes = 1
		req.MaxBytes = 1 << 20
		req.MaxRecords = 100
		req.BatchSize = 100
		t := kmsg.NewShareFetchRequestTopic()
		t.TopicID = tid
		p := kmsg.NewShareFetchRequestTopicPartition()
		p.Partition = 0
		p.PartitionMaxBytes = 1 << 20
		for _, a := range acks {
			b := kmsg.NewShareFetchRequestTopicPartitionAcknowledgementBatch()
			b.FirstOffset, b.LastOffset, b.AcknowledgeTypes = a.first, a.last, []int8{a.typ}
			p.AcknowledgementBatches = append(p.AcknowledgementBatches, b)
		}
		t.Partitions = append(t.Partitions, p)
		req.Topics = append(req.Topics, t)
		kresp, err := br.Request(ctx, req)
		if err != nil {
			return 0, 0, 0, err
		}
		resp := kresp.(*kmsg.ShareFetchResponse)
		for _, rt := range resp.Topics {
			for _, rp := range rt.Partitions {
				if rp.AcknowledgeErrorCode != 0 {
					ackCode = rp.AcknowledgeErrorCode
				}
				for _, a := range rp.AcquiredRecords {
					acquired += int(a.LastOffset - a.FirstOffset + 1)
				}
			}
		}
		return ackCode, resp.ErrorCode, acquired, nil
	}
	variants := []struct {
		name  string
		setup []ab // acknowledged correctly first (own request)
		bad   []ab
	}{
		{"batches not ascending", nil, []ab{{2, 2, 1}, {0, 0, 1}}},
		{"offset never acquired", nil, []ab{{50, 50, 1}}},
		{"offset acknowledged twice", []ab{{1, 1, 1}}, []ab{{1, 1, 1}}},
	}
	for vi, v := range variants {
		var codes [2]int16
		ok := true
		for wi, wait := range []int32{0, 150} {
			grp := fmt.Sprintf("pg-%d-%d", vi, wi)
			if err := setGroupEarliest(ctx, cl, grp); err != nil {
				r.Inconclusive("parked-ack probe: group config: " + err.Error())
				return
			}
			_, top, n, err := fetch(grp, 0, 0, nil)
			if err != nil || top != 0 || n != 4 {
				r.Inconclusive(fmt.Sprintf("parked-ack probe: initial fetch: err=%v top=%d acquired=%d", err, top, n))
				ok = false
				break
			}
			epoch := int32(1)
			if v.setup != nil {
				if code, top, _, err := fetch(grp, epoch, 0, v.setup); err != nil || top != 0 || code != 0 {
					r.Inconclusive(fmt.Sprintf("parked-ack probe: setup ack: err=%v top=%d code=%d", err, top, code))
					ok = false
					break
				}
				epoch++
			}
			code, top, n, err := fetch(grp, epoch, wait, v.bad)
			if err != nil || top != 0 {
				r.Inconclusive(fmt.Sprintf("parked-ack probe: fetch with acks: err=%v top=%d", err, top))
				ok = false
				break
			}
			codes[wi] = code
			_ = n
		}
		if !ok {
			continue
		}
		r.Eval(1)
		r.Count("kfake_parked_ack_probes", 1)
		if codes[0] == 0 {
			r.Count("kfake_parked_ack_probe_accepted_dontcare", 1) // the broker accepted the batch: nothing to compare
			continue
		}
		if codes[1] != codes[0] {
			r.Violation(sigParkedAckErr, map[string]any{
				"variant": v.name, "piggybacked_batches": fmt.Sprint(v.bad),
				"acknowledge_error_code_when_answered_at_once": fmt.Sprintf("%d (%v)", codes[0], kerr.ErrorForCode(codes[0])),
				"acknowledge_error_code_when_long_polling":     fmt.Sprintf("%d (%v)", codes[1], kerr.ErrorForCode(codes[1])),
				"detail": "4 records acquired by the member in a first ShareFetch (epoch 0); the next ShareFetch carries the batches above and finds nothing new to acquire; with MaxWaitMillis=150 kfake parks the request in a watcher and rebuilds the response when the watcher fires (78_share_fetch.go: 'return nil, nil' after processShareAcks; the re-invocation skips ack processing and ensureAckedParts adds the partition with code 0)",
			})
		}
	}
}
