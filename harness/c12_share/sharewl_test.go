package c12

import (
	"context"
	"errors"
	"fmt"
	"math/rand/v2"
	"strings"
	"sync"
	"sync/atomic"
	"time"

	"github.com/twmb/franz-go/pkg/kerr"
	"github.com/twmb/franz-go/pkg/kfake"
	"github.com/twmb/franz-go/pkg/kgo"
	"github.com/twmb/franz-go/pkg/kmsg"

	"verifharness/internal/e2e"
	"verifharness/internal/faultnet"
)

const (
	topic   = "st"
	group   = "sg"
	dcLimit = 100
	lockMs  = 3600_000
)

const (
	actAccept = iota
	actRelease
	actReject
	actRenew
	actRenewThenTerminal
	actNone
	actDouble
	nActs
)

type planEvent struct {
	AtPoll int    `json:"at_poll"`
	Kind   string `json:"kind"` // move, killall
	P      int32  `json:"p"`
	Node   int32  `json:"node"`
}

type plan struct {
	Seed       uint64      `json:"seed"`
	VT         bool        `json:"vt"`
	Brokers    int         `json:"brokers"`
	Partitions int         `json:"partitions"`
	Members    int         `json:"members"`
	Churn      int         `json:"churn"`
	Rounds     []int       `json:"rounds"`
	PollMax    []int       `json:"poll_max"`
	MaxRecords int         `json:"share_max_records"`
	Compact    bool        `json:"compact"`
	PreOps     int         `json:"pre_ops"`
	LiveOps    int         `json:"live_ops"`
	OpSize     int         `json:"op_size"`
	AbortP     float64     `json:"abort_p"`
	Weights    [nActs]int  `json:"weights"`
	FlushP     float64     `json:"flush_p"`
	MarkAcksP  float64     `json:"markacks_p"`
	LateP      float64     `json:"late_p"`
	KillBefore float64     `json:"kill_before_p"`
	KillAfter  float64     `json:"kill_after_p"`
	Events     []planEvent `json:"events"`
	CloseFlush []bool      `json:"close_flush"`
}

// vtMulti: virtual-time scenarios may use several members, churn and leader moves.
var vtMulti bool

func genPlan(rng *rand.Rand, seed uint64, vt bool) plan {
	p := plan{Seed: seed, VT: vt}
	p.Brokers = 1 + rng.IntN(3)
	p.Partitions = 1 + rng.IntN(3)
	p.Members = 1 + rng.IntN(4)
	p.Churn = rng.IntN(3)
	if vt && !vtMulti {
		// Virtual time, share fetch loop observed to spin (see shareLoopSpins): one member, then the
		// draining member. With several members (or leader moves) a source can be left with no usable
		// cursor while acks for its records still arrive; the loop then spins until its 1 s ack timer
		// fires, and inside a bubble a spinning goroutine keeps virtual time from advancing.
		p.Members, p.Churn = 1, 0
	}
	for i := 0; i < p.Members+p.Churn; i++ {
		p.Rounds = append(p.Rounds, 3+rng.IntN(10))
		pm := -1
		if rng.IntN(3) > 0 {
			pm = 1 + rng.IntN(7)
		}
		p.PollMax = append(p.PollMax, pm)
		p.CloseFlush = append(p.CloseFlush, rng.IntN(2) == 0)
	}
	p.MaxRecords = []int{0, 3, 5, 8, 13, 30}[rng.IntN(6)]
	p.Compact = rng.IntN(3) == 0
	p.PreOps = 4 + rng.IntN(12)
	p.LiveOps = rng.IntN(10)
	p.OpSize = 1 + rng.IntN(6)
	p.AbortP = []float64{0, 0.2, 0.5}[rng.IntN(3)]
	p.Weights = [nActs]int{35, 15, 10, 8, 12, 15, 5}
	for i := range p.Weights {
		if rng.IntN(4) == 0 {
			p.Weights[i] = rng.IntN(40)
		}
	}
	if p.Weights[actAccept] == 0 {
		p.Weights[actAccept] = 10
	}
	p.FlushP = []float64{0.3, 0.6, 1}[rng.IntN(3)]
	p.MarkAcksP = []float64{0, 0.3}[rng.IntN(2)]
	p.LateP = []float64{0, 0.2}[rng.IntN(2)]
	if rng.IntN(2) == 0 { // half of the scenarios kill connections
		p.KillBefore = []float64{0, 0.02, 0.06}[rng.IntN(3)]
		p.KillAfter = []float64{0, 0.02, 0.06}[rng.IntN(3)]
	}
	totalPolls := 0
	for _, r := range p.Rounds {
		totalPolls += r
	}
	nev := rng.IntN(4)
	for i := 0; i < nev; i++ {
		ev := planEvent{AtPoll: 1 + rng.IntN(totalPolls)}
		if p.Brokers > 1 && (!vt || vtMulti) && rng.IntN(3) > 0 {
			ev.Kind, ev.P, ev.Node = "move", int32(rng.IntN(p.Partitions)), int32(rng.IntN(p.Brokers))
		} else if p.KillBefore+p.KillAfter > 0 {
			ev.Kind = "killall"
		} else {
			continue
		}
		p.Events = append(p.Events, ev)
	}
	return p
}

// ---- logs

type ackCall struct {
	Clock  int64  `json:"clock"`
	Status int8   `json:"status"`
	Via    string `json:"via"`
}

// delivery is one record returned to the application by one poll.
type delivery struct {
	Member   string    `json:"member"`
	Poll     int       `json:"poll"` // index into the member's polls
	P        int32     `json:"p"`
	Offset   int64     `json:"offset"`
	DC       int32     `json:"dc"`
	RetClock int64     `json:"ret_clock"`
	Acks     []ackCall `json:"acks"`
	rec      *kgo.Record
}

type pollLog struct {
	Call, Ret int64
	N         int
	Err       string
}

type cbLog struct {
	Start, End int64
	Parts      []int32
	Errs       []string // "" = nil
}

type flushLog struct {
	Call, Ret int64
	Err       string
}

type memberLog struct {
	Name       string
	Polls      []pollLog
	Deliveries []*delivery
	Callbacks  []cbLog
	Flushes    []flushLog
	CloseCall  int64
	CloseRet   int64
	cbMu       sync.Mutex
}

type result struct {
	Plan      plan
	Members   []*memberLog
	Events    []*faultnet.Event
	TapClock  map[int64]int64
	Fired     map[string]int64
	Inconcl   []string
	Happened  map[string]int
	Produced  int
	DrainIdle bool // the draining member saw the idle bound without records
	EndClock  int64
	Stacks    string
}

type world struct {
	clock atomic.Int64
	mu    sync.Mutex
	tap   map[int64]int64
	happ  map[string]int
	polls atomic.Int64
}

func (w *world) tick() int64 { return w.clock.Add(1) }
func (w *world) event(k string) {
	w.mu.Lock()
	w.happ[k]++
	w.mu.Unlock()
}

func setGroupEarliest(ctx context.Context, cl *kgo.Client, grp string) error {
	req := kmsg.NewPtrIncrementalAlterConfigsRequest()
	res := kmsg.NewIncrementalAlterConfigsRequestResource()
	res.ResourceType = kmsg.ConfigResourceTypeGroupConfig
	res.ResourceName = grp
	cfg := kmsg.NewIncrementalAlterConfigsRequestResourceConfig()
	cfg.Name = "share.auto.offset.reset"
	cfg.Value = kmsg.StringPtr("earliest")
	res.Configs = append(res.Configs, cfg)
	req.Resources = append(req.Resources, res)
	resp, err := req.RequestWith(ctx, cl)
	if err != nil {
		return err
	}
	for _, r := range resp.Resources {
		if err := kerr.ErrorForCode(r.ErrorCode); err != nil {
			return err
		}
	}
	return nil
}

func createTopic(ctx context.Context, cl *kgo.Client, parts int, compact bool) error {
	req := kmsg.NewPtrCreateTopicsRequest()
	t := kmsg.NewCreateTopicsRequestTopic()
	t.Topic = topic
	t.NumPartitions = int32(parts)
	t.ReplicationFactor = 1
	if compact {
		c := kmsg.NewCreateTopicsRequestTopicConfig()
		c.Name = "cleanup.policy"
		c.Value = kmsg.StringPtr("compact")
		t.Configs = append(t.Configs, c)
	}
	req.Topics = append(req.Topics, t)
	resp, err := req.RequestWith(ctx, cl)
	if err != nil {
		return err
	}
	for _, rt := range resp.Topics {
		if err := kerr.ErrorForCode(rt.ErrorCode); err != nil {
			return err
		}
	}
	return nil
}

// produceOps appends n operations: a transaction (commit or abort: one marker
// offset = one gap for the share consumer) or a keyed plain batch (keys from a
// small space so compaction punches holes into earlier batches).
func produceOps(ctx context.Context, pl plan, rng *rand.Rand, txn, plain *kgo.Client, n int, seq *int) error {
	for op := 0; op < n; op++ {
		part := int32(rng.IntN(pl.Partitions))
		size := 1 + rng.IntN(pl.OpSize)
		mk := func(k int) *kgo.Record {
			*seq++
			key := fmt.Sprintf("u%d", *seq)
			if pl.Compact && rng.IntN(2) == 0 {
				key = fmt.Sprintf("k%d", rng.IntN(6))
			}
			return &kgo.Record{Topic: topic, Partition: part, Key: []byte(key), Value: []byte(e2e.RID(1, *seq))}
		}
		if rng.IntN(3) > 0 {
			if err := txn.BeginTransaction(); err != nil {
				return err
			}
			for k := 0; k < size; k++ {
				txn.Produce(ctx, mk(k), nil)
			}
			if err := txn.Flush(ctx); err != nil {
				return err
			}
			try := kgo.TryCommit
			if rng.Float64() < pl.AbortP {
				try = kgo.TryAbort
			}
			if err := txn.EndTransaction(ctx, try); err != nil {
				return err
			}
		} else {
			var first error
			var wg sync.WaitGroup
			for k := 0; k < size; k++ {
				wg.Add(1)
				plain.Produce(ctx, mk(k), func(_ *kgo.Record, err error) {
					if err != nil && first == nil {
						first = err
					}
					wg.Done()
				})
			}
			if err := plain.Flush(ctx); err != nil {
				return err
			}
			wg.Wait()
			if first != nil {
				return first
			}
		}
	}
	return nil
}

func runScenario(pl plan, watchdog time.Duration) (res *result) {
	res = &result{Plan: pl}
	w := &world{tap: map[int64]int64{}, happ: map[string]int{}}
	var inMu sync.Mutex
	inconcl := func(msg string) {
		inMu.Lock()
		res.Inconcl = append(res.Inconcl, msg)
		inMu.Unlock()
	}
	ctx, cancel := context.WithTimeout(context.Background(), watchdog)
	defer cancel()

	frng := rand.New(rand.NewPCG(pl.Seed, 7))
	var fmu sync.Mutex
	var faultsOn atomic.Bool
	fnet := &faultnet.Net{KeepFrames: true}
	fnet.Tap = func(r *faultnet.Req) {
		if r.Key == 78 || r.Key == 79 {
			w.mu.Lock()
			w.tap[r.Seq] = w.tick()
			w.mu.Unlock()
		}
	}
	fnet.Decide = func(r *faultnet.Req) faultnet.Action {
		if !faultsOn.Load() || !strings.HasPrefix(r.ClientID, "m") || (r.Key != 78 && r.Key != 79) {
			return faultnet.Action{}
		}
		fmu.Lock()
		defer fmu.Unlock()
		x := frng.Float64()
		switch {
		case x < pl.KillBefore:
			return faultnet.Action{Kind: faultnet.KillBefore}
		case x < pl.KillBefore+pl.KillAfter:
			return faultnet.Action{Kind: faultnet.KillAfter}
		}
		return faultnet.Action{}
	}
	hb := "100"
	if pl.VT {
		hb = "1000"
	}
	env, err := e2e.NewEnv(pl.VT, pl.Brokers, fnet, kfake.BrokerConfigs(map[string]string{
		"group.share.heartbeat.interval.ms":   hb,
		"group.share.record.lock.duration.ms": fmt.Sprint(lockMs),
		"group.share.delivery.count.limit":    fmt.Sprint(dcLimit),
	}))
	if err != nil {
		res.Inconcl = append(res.Inconcl, "kfake: "+err.Error())
		return res
	}
	defer func() {
		env.Close()
		if pl.VT {
			e2e.Settle()
		}
		res.Events = fnet.Events()
		res.Fired = fnet.Fired()
		w.mu.Lock()
		res.TapClock = w.tap
		res.Happened = w.happ
		w.mu.Unlock()
		res.EndClock = w.tick()
	}()

	admin, err := env.NewClient(kgo.ClientID("admin"))
	if err != nil {
		inconcl("admin client: " + err.Error())
		return res
	}
	defer admin.Close()
	if err := createTopic(ctx, admin, pl.Partitions, pl.Compact); err != nil {
		inconcl("create topic: " + err.Error())
		return res
	}
	if err := setGroupEarliest(ctx, admin, group); err != nil {
		inconcl("group config: " + err.Error())
		return res
	}
	txn, err := env.NewClient(kgo.ClientID("prod"), kgo.TransactionalID(fmt.Sprintf("tx-%d", pl.Seed)), kgo.RecordPartitioner(kgo.ManualPartitioner()), kgo.ProducerBatchCompression(kgo.NoCompression()))
	if err != nil {
		inconcl("txn client: " + err.Error())
		return res
	}
	defer txn.Close()
	plain, err := env.NewClient(kgo.ClientID("prod"), kgo.RecordPartitioner(kgo.ManualPartitioner()), kgo.ProducerLinger(5*time.Millisecond), kgo.ProducerBatchCompression(kgo.NoCompression()))
	if err != nil {
		inconcl("producer client: " + err.Error())
		return res
	}
	defer plain.Close()
	prng := rand.New(rand.NewPCG(pl.Seed, 11))
	seq := 0
	if err := produceOps(ctx, pl, prng, txn, plain, pl.PreOps, &seq); err != nil {
		inconcl("produce: " + err.Error())
		return res
	}
	if pl.Compact {
		env.C.Compact()
	}
	faultsOn.Store(true)

	var prodWG sync.WaitGroup
	prodWG.Add(1)
	go func() {
		defer prodWG.Done()
		if err := produceOps(ctx, pl, prng, txn, plain, pl.LiveOps, &seq); err != nil && ctx.Err() == nil {
			inconcl("live produce: " + err.Error())
		}
	}()

	pollTimeout, flushTimeout := 300*time.Millisecond, 30*time.Second
	if pl.VT {
		pollTimeout, flushTimeout = 3*time.Second, 3*time.Minute
	}

	events := pl.Events
	claimed := make([]atomic.Bool, len(events))
	doEvents := func() {
		n := int(w.polls.Add(1))
		for i := range events {
			if events[i].AtPoll <= n && claimed[i].CompareAndSwap(false, true) {
				switch events[i].Kind {
				case "move":
					if err := env.C.MoveTopicPartition(topic, events[i].P, events[i].Node); err == nil {
						w.event("move")
					}
				case "killall":
					fnet.KillAll()
					w.event("killall")
				}
			}
		}
	}

	runMember := func(idx int, name string, rounds, pollMax int, closeFlush bool, drain bool) *memberLog {
		ml := &memberLog{Name: name}
		mrng := rand.New(rand.NewPCG(pl.Seed, uint64(1000+idx)))
		opts := []kgo.Opt{
			kgo.ClientID(name),
			kgo.ShareGroup(group),
			kgo.ConsumeTopics(topic),
			kgo.FetchMaxWait(200 * time.Millisecond),
			kgo.RetryBackoffFn(func(n int) time.Duration { return time.Duration(1+n) * 2 * time.Millisecond }),
			kgo.MetadataMinAge(10 * time.Millisecond),
			kgo.ShareAckCallback(func(_ *kgo.Client, rs kgo.ShareAckResults) {
				cb := cbLog{Start: w.tick()}
				for _, r := range rs {
					cb.Parts = append(cb.Parts, r.Partition)
					s := ""
					if r.Err != nil {
						s = r.Err.Error()
						if len(s) > 60 {
							s = s[:60]
						}
					}
					cb.Errs = append(cb.Errs, s)
				}
				// give a FlushAcks that does not wait for callbacks a chance to return first
				jr := rand.New(rand.NewPCG(uint64(cb.Start), 3))
				for i := 0; i < 3; i++ {
					e2e.Jitter(jr, 200)
				}
				cb.End = w.tick()
				ml.cbMu.Lock()
				ml.Callbacks = append(ml.Callbacks, cb)
				ml.cbMu.Unlock()
			}),
		}
		if pl.MaxRecords > 0 && !drain {
			opts = append(opts, kgo.ShareMaxRecords(int32(pl.MaxRecords)))
		}
		cl, err := env.NewClient(opts...)
		if err != nil {
			inconcl("member client: " + err.Error())
			return ml
		}
		ack := func(d *delivery, st kgo.AckStatus, via string) {
			d.Acks = append(d.Acks, ackCall{Clock: w.tick(), Status: int8(st), Via: via})
			if via == "mark" {
				cl.MarkAcks(st, d.rec)
			} else {
				d.rec.Ack(st)
			}
		}
		flush := func() {
			fl := flushLog{Call: w.tick()}
			fctx, fcancel := context.WithTimeout(ctx, flushTimeout)
			err := cl.FlushAcks(fctx)
			fcancel()
			fl.Ret = w.tick()
			if err != nil {
				fl.Err = err.Error()
			}
			ml.Flushes = append(ml.Flushes, fl)
		}
		terminal := func() kgo.AckStatus {
			return []kgo.AckStatus{kgo.AckAccept, kgo.AckAccept, kgo.AckRelease, kgo.AckReject}[mrng.IntN(4)]
		}
		wsum := 0
		for _, x := range pl.Weights {
			wsum += x
		}
		var prev []*delivery
		empties := 0
		for round := 0; ; round++ {
			if !drain && round >= rounds {
				break
			}
			if ctx.Err() != nil {
				break
			}
			pctx, pcancel := context.WithTimeout(ctx, pollTimeout)
			p := pollLog{Call: w.tick()}
			var fs kgo.Fetches
			if pollMax < 0 {
				fs = cl.PollFetches(pctx)
			} else {
				fs = cl.PollRecords(pctx, pollMax)
			}
			p.Ret = w.tick()
			pcancel()
			for _, fe := range fs.Errors() {
				if !errors.Is(fe.Err, context.DeadlineExceeded) && !errors.Is(fe.Err, context.Canceled) {
					p.Err = fe.Err.Error()
				}
			}
			var cur []*delivery
			fs.EachRecord(func(r *kgo.Record) {
				d := &delivery{Member: name, Poll: len(ml.Polls), P: r.Partition, Offset: r.Offset, DC: r.DeliveryCount(), RetClock: p.Ret, rec: r}
				cur = append(cur, d)
			})
			p.N = len(cur)
			ml.Polls = append(ml.Polls, p)
			ml.Deliveries = append(ml.Deliveries, cur...)
			if drain {
				for _, d := range cur {
					ack(d, kgo.AckAccept, "ack")
				}
				flush()
				if len(cur) == 0 {
					empties++
				} else {
					empties = 0
				}
				if empties >= 8 {
					res.DrainIdle = true
					break
				}
				continue
			}
			// late acks on records of the previous round (auto-accepted by the poll above): must be no-ops
			for _, d := range prev {
				if mrng.Float64() < pl.LateP {
					ack(d, []kgo.AckStatus{kgo.AckReject, kgo.AckRelease}[mrng.IntN(2)], "late")
				}
			}
			var later []func()
			for _, d := range cur {
				d := d
				x := mrng.IntN(wsum)
				act := 0
				for ; act < nActs-1; act++ {
					if x < pl.Weights[act] {
						break
					}
					x -= pl.Weights[act]
				}
				via := "ack"
				if mrng.Float64() < pl.MarkAcksP {
					via = "mark"
				}
				switch act {
				case actAccept:
					ack(d, kgo.AckAccept, via)
				case actRelease:
					ack(d, kgo.AckRelease, via)
				case actReject:
					ack(d, kgo.AckReject, via)
				case actRenew:
					ack(d, kgo.AckRenew, via)
				case actRenewThenTerminal:
					ack(d, kgo.AckRenew, via)
					st := terminal()
					later = append(later, func() { ack(d, st, via) })
				case actDouble:
					ack(d, kgo.AckAccept, via)
					ack(d, kgo.AckReject, via) // must lose against the first terminal status
				case actNone:
				}
				if mrng.IntN(16) == 0 {
					e2e.Jitter(mrng, 300)
				}
			}
			if len(later) > 0 && mrng.IntN(2) == 0 {
				flush() // renew goes out alone, the terminal status in a later request
			}
			for _, f := range later {
				f()
			}
			if mrng.Float64() < pl.FlushP {
				flush()
			}
			prev = cur
			doEvents()
		}
		if !drain && closeFlush {
			flush()
		}
		ml.CloseCall = w.tick()
		cl.Close()
		ml.CloseRet = w.tick()
		return ml
	}

	// ---- main phase: initial members, each replaced (churn) when it closes
	var mu sync.Mutex
	var wg sync.WaitGroup
	next := atomic.Int32{}
	next.Store(int32(pl.Members))
	var start func(idx int)
	start = func(idx int) {
		wg.Add(1)
		go func() {
			defer wg.Done()
			ml := runMember(idx, fmt.Sprintf("m%d", idx), pl.Rounds[idx], pl.PollMax[idx], pl.CloseFlush[idx], false)
			mu.Lock()
			res.Members = append(res.Members, ml)
			mu.Unlock()
			w.event("member-close")
			if n := int(next.Add(1)) - 1; n < pl.Members+pl.Churn {
				w.event("churn")
				start(n)
			}
		}()
	}
	for i := 0; i < pl.Members; i++ {
		start(i)
	}
	wg.Wait()
	prodWG.Wait()
	faultsOn.Store(false)
	res.Produced = seq

	// ---- drain phase: a fresh member accepts whatever is still deliverable
	dl := runMember(999, "drain", 0, -1, true, true)
	res.Members = append(res.Members, dl)
	if !pl.VT {
		time.Sleep(30 * time.Millisecond) // let the last callbacks finish before the logs are read
	}
	if !res.DrainIdle {
		if pl.VT {
			inconcl("drain did not reach the idle bound before the virtual watchdog")
		} else {
			inconcl("rt: drain did not reach the idle bound before the wall-clock watchdog")
		}
		res.Stacks = e2e.Stacks()
	}
	return res
}
