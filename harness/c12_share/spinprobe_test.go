package c12

import (
	"context"
	"syscall"
	"time"

	"github.com/twmb/franz-go/pkg/kgo"

	"verifharness/internal/e2e"
)

func cpuNow() time.Duration {
	var ru syscall.Rusage
	syscall.Getrusage(syscall.RUSAGE_SELF, &ru)
	return time.Duration(ru.Utime.Nano() + ru.Stime.Nano())
}

// shareLoopSpins observes (real time, run before anything else is started)
// whether the share fetch loop busy-loops after an acknowledgement arrives on
// a source that has nothing to fetch (its only partition paused): the loop
// then keeps its 1 s ack timer armed and cycles through empty fetch attempts
// without a blocking point until the timer fires. That is not part of C12,
// but inside a synctest bubble a goroutine that never blocks keeps virtual
// time from advancing, so the timer never fires and the scenario never ends.
// Virtual-time scenarios use several members / leader moves (which produce
// sources without usable cursors) only when the loop does not spin.
// ok=false: the probe could not be set up.
func shareLoopSpins() (spins, ok bool) {
	env, err := e2e.NewEnv(false, 1, nil)
	if err != nil {
		return false, false
	}
	defer env.Close()
	ctx, cancel := context.WithTimeout(context.Background(), 30*time.Second)
	defer cancel()
	admin, err := env.NewClient(kgo.ClientID("admin"))
	if err != nil {
		return false, false
	}
	defer admin.Close()
	if createTopic(ctx, admin, 1, false) != nil || setGroupEarliest(ctx, admin, group) != nil {
		return false, false
	}
	if admin.ProduceSync(ctx, &kgo.Record{Topic: topic, Value: []byte("x")}).FirstErr() != nil {
		return false, false
	}
	cl, err := env.NewClient(kgo.ShareGroup(group), kgo.ConsumeTopics(topic), kgo.FetchMaxWait(100*time.Millisecond))
	if err != nil {
		return false, false
	}
	defer cl.Close()
	recs := cl.PollFetches(ctx).Records()
	if len(recs) == 0 {
		return false, false
	}
	cl.PauseFetchTopics(topic)
	time.Sleep(400 * time.Millisecond) // in-flight fetch returns, the partition is forgotten
	recs[0].Ack(kgo.AckAccept)
	time.Sleep(50 * time.Millisecond)
	base := cpuNow()
	time.Sleep(400 * time.Millisecond)
	return cpuNow()-base > 200*time.Millisecond, true
}
