//go:build synctests

// C13 — Close always finishes and leaves nothing running.
//
// Monitor (virtual time, testing/synctest): a client of a seeded kind
// (producer, direct consumer, classic / KIP-848 group consumer, transactional
// producer, share consumer) works against kfake behind faultnet; at a seeded
// logical point (n-th request seen on the wire, optionally inside a rebalance
// callback window or a transaction) the brokers are left responsive, stalled
// (requests swallowed: responses never come) or gone (every connection is killed as soon as a request arrives), and
// Close (CloseAllowingRebalance when polls block rebalances) is called.
// Verdicts are logical facts of the bubble: Close returned within 10 virtual
// minutes (far beyond every configured timeout); afterwards, at bubble
// quiescence, every produce promise has been called, polls return
// ErrClientClosed, and no goroutine with a pkg/kgo frame remains.
package c13

import (
	"context"
	"errors"
	"fmt"
	"strings"
	"sync"
	"sync/atomic"
	"testing"
	"time"

	"github.com/twmb/franz-go/pkg/kfake"
	"github.com/twmb/franz-go/pkg/kgo"

	"verifharness/internal/e2e"
	"verifharness/internal/faultnet"
	"verifharness/internal/vh"
)

type plan struct {
	Seed      uint64 `json:"seed"`
	Kind      string `json:"kind"`        // producer direct direct-oor group group848 txn share
	Broker    string `json:"broker_mode"` // responsive stalled gone slowmeta
	CloseAt   int    `json:"close_after_requests"`
	BlockReb  bool   `json:"block_rebalance_on_poll"`
	SecondMem bool   `json:"second_member"`
}

type outcome struct {
	closeReturned   bool
	closeVirtual    time.Duration
	promisesMissing int
	produced        int
	pollAfter       string
	leaked          []string
	inFlightAtClose int64
	note            string
	inconcl         string
}

func run(p plan) (o outcome) {
	var stalled, dead, slowMeta atomic.Bool
	var reqs, slowMetas atomic.Int64
	fnet := &faultnet.Net{}
	fnet.Decide = func(r *faultnet.Req) faultnet.Action {
		if r.ClientID == "vclose" {
			reqs.Add(1)
			// "slowmeta": once the client has fetched, every Metadata answer takes 3 s - an
			// offset (re)load that waits for a metadata refresh is then parked when Close comes
			if p.Broker == "slowmeta" {
				if r.Key == 1 {
					slowMeta.Store(true)
				} else if r.Key == 3 && slowMeta.Load() {
					slowMetas.Add(1)
					return faultnet.Action{Kind: faultnet.Delay, D: 3 * time.Second}
				}
			}
		}
		if dead.Load() {
			// "gone": every connection dies as soon as a request arrives on it. (Shutting the
			// virtual listener down instead makes kfake.VirtualNetwork's dialer return a plain
			// error that kgo does not back off on, which spins the bubble without ever letting
			// virtual time advance - an artifact of the virtual network, not of Close.)
			return faultnet.Action{Kind: faultnet.KillBefore}
		}
		if stalled.Load() {
			return faultnet.Action{Kind: faultnet.Delay, D: 24 * time.Hour} // virtual: the response never comes
		}
		return faultnet.Action{}
	}
	env, err := e2e.NewEnv(true, 2, fnet, kfake.SeedTopics(3, "ct"),
		kfake.BrokerConfigs(map[string]string{"group.consumer.heartbeat.interval.ms": "100"}))
	if err != nil {
		o.inconcl = err.Error()
		return
	}
	envClosed := false
	defer func() {
		if !envClosed {
			env.Close()
		}
	}()
	// seed some data
	{
		cl, err := env.NewClient(kgo.DefaultProduceTopic("ct"))
		if err != nil {
			o.inconcl = err.Error()
			return
		}
		for i := 0; i < 60; i++ {
			cl.Produce(context.Background(), kgo.StringRecord(fmt.Sprint("seed", i)), nil)
		}
		cl.Flush(context.Background())
		cl.Close()
	}
	ctx0 := context.Background()
	if p.Kind == "group848" {
		ctx0 = context.WithValue(ctx0, "opt_in_kafka_next_gen_balancer_beta", true) //nolint
	}
	common := []kgo.Opt{kgo.WithContext(ctx0), kgo.ClientID("vclose"), kgo.RequestTimeoutOverhead(2 * time.Second), kgo.RetryTimeout(5 * time.Second),
		kgo.RetryBackoffFn(func(int) time.Duration { return 50 * time.Millisecond }), kgo.MetadataMinAge(100 * time.Millisecond), kgo.FetchMaxWait(500 * time.Millisecond),
		kgo.ProduceRequestTimeout(2 * time.Second), kgo.DefaultProduceTopic("ct"), kgo.ConsumeResetOffset(kgo.NewOffset().AtStart())}
	var opts []kgo.Opt
	switch p.Kind {
	case "producer":
	case "direct":
		opts = []kgo.Opt{kgo.ConsumeTopics("ct")}
	case "direct-oor":
		// starts beyond the log end: the first fetch answers OFFSET_OUT_OF_RANGE and the client
		// reloads the offset, refreshing metadata first
		opts = []kgo.Opt{kgo.ConsumePartitions(map[string]map[int32]kgo.Offset{"ct": {0: kgo.NewOffset().At(1 << 40), 1: kgo.NewOffset().At(1 << 40)}})}
	case "group", "group848":
		opts = []kgo.Opt{kgo.ConsumeTopics("ct"), kgo.ConsumerGroup("cg"), kgo.Balancers(kgo.StickyBalancer()), kgo.SessionTimeout(10 * time.Second), kgo.HeartbeatInterval(500 * time.Millisecond), kgo.RebalanceTimeout(10 * time.Second)}
		if p.BlockReb {
			opts = append(opts, kgo.BlockRebalanceOnPoll())
		}
	case "txn":
		opts = []kgo.Opt{kgo.TransactionalID("ctx"), kgo.TransactionTimeout(20 * time.Second)}
	case "share":
		opts = []kgo.Opt{kgo.ConsumeTopics("ct"), kgo.ShareGroup("sg")}
	}
	cl, err := env.NewClient(append(common, opts...)...)
	if err != nil {
		o.inconcl = "client: " + err.Error()
		return
	}
	var second *kgo.Client
	if p.SecondMem && (p.Kind == "group" || p.Kind == "group848") {
		second, _ = env.NewClient(kgo.WithContext(ctx0), kgo.ClientID("other"), kgo.ConsumeTopics("ct"), kgo.ConsumerGroup("cg"), kgo.Balancers(kgo.StickyBalancer()))
	}
	var promised, produced atomic.Int64
	stop := make(chan struct{})
	var wg sync.WaitGroup
	promise := func(*kgo.Record, error) { promised.Add(1) }
	if p.Kind == "producer" || p.Kind == "txn" {
		wg.Add(1)
		go func() {
			defer wg.Done()
			if p.Kind == "txn" {
				if err := cl.BeginTransaction(); err != nil {
					return
				}
			}
			for i := 0; ; i++ {
				select {
				case <-stop:
					return
				default:
				}
				produced.Add(1)
				cl.TryProduce(context.Background(), kgo.StringRecord(fmt.Sprint("r", i)), promise)
				time.Sleep(2 * time.Millisecond)
			}
		}()
	} else {
		wg.Add(1)
		go func() {
			defer wg.Done()
			for {
				select {
				case <-stop:
					return
				default:
				}
				ctx, cancel := context.WithTimeout(context.Background(), 200*time.Millisecond)
				fs := cl.PollFetches(ctx)
				cancel()
				if p.BlockReb && fs.NumRecords() > 0 && reqs.Load()%2 == 0 {
					cl.AllowRebalance()
				}
				if fs.IsClientClosed() {
					return
				}
			}
		}()
		if second != nil {
			wg.Add(1)
			go func() {
				defer wg.Done()
				for {
					select {
					case <-stop:
						return
					default:
					}
					ctx, cancel := context.WithTimeout(context.Background(), 200*time.Millisecond)
					second.PollFetches(ctx)
					cancel()
				}
			}()
		}
	}
	// wait for the close point (bounded)
	limit := time.Now().Add(2 * time.Minute)
	for reqs.Load() < int64(p.CloseAt) && time.Now().Before(limit) {
		time.Sleep(time.Millisecond)
	}
	switch p.Broker {
	case "slowmeta":
		for slowMetas.Load() == 0 && time.Now().Before(limit) { // a refresh is being held (or the bound passes: then this is a plain responsive close)
			time.Sleep(time.Millisecond)
		}
	case "stalled":
		stalled.Store(true)
	case "gone":
		dead.Store(true)
		fnet.KillAll()
	}
	if p.Broker != "responsive" {
		time.Sleep(time.Duration(p.Seed%300) * time.Millisecond) // let some requests get stuck first
	}
	o.inFlightAtClose = reqs.Load()
	stopped := false
	if p.BlockReb {
		// With BlockRebalanceOnPoll the application must not keep polling (and holding
		// rebalances) while it closes: stop the pollers first, leaving whatever the last
		// poll returned un-allowed, which is exactly what CloseAllowingRebalance is for.
		close(stop)
		wg.Wait()
		stopped = true
	}
	t0 := time.Now()
	closed := make(chan struct{})
	go func() {
		if p.BlockReb {
			cl.CloseAllowingRebalance()
		} else {
			cl.Close()
		}
		close(closed)
	}()
	select {
	case <-closed:
		o.closeReturned = true
	case <-time.After(10 * time.Minute):
	}
	o.closeVirtual = time.Since(t0)
	if !stopped {
		close(stop)
	}
	if !o.closeReturned {
		o.note = e2e.Stacks()
		return
	}
	wg.Wait()
	if second != nil {
		second.Close()
	}
	fs := cl.PollFetches(context.Background())
	if errs := fs.Errors(); len(errs) == 1 && errors.Is(errs[0].Err, kgo.ErrClientClosed) {
		o.pollAfter = "ErrClientClosed"
	} else if p.Kind == "producer" || p.Kind == "txn" {
		if errs := fs.Errors(); len(errs) > 0 && errors.Is(errs[0].Err, kgo.ErrClientClosed) {
			o.pollAfter = "ErrClientClosed"
		} else {
			o.pollAfter = fmt.Sprintf("%v", fs.Errors())
		}
	} else {
		o.pollAfter = fmt.Sprintf("%d errors %v, %d records", len(fs.Errors()), fs.Errors(), fs.NumRecords())
	}
	if !envClosed {
		env.Close()
		envClosed = true
	}
	time.Sleep(2 * time.Minute) // grace: timers armed before Close may fire and let their goroutines exit
	e2e.Settle()
	o.produced = int(produced.Load())
	o.promisesMissing = int(produced.Load() - promised.Load())
	for _, g := range e2e.BubbleGoroutines() {
		if strings.Contains(g, "github.com/twmb/franz-go/pkg/kgo.") && !strings.Contains(g, "c13.run") {
			o.leaked = append(o.leaked, g)
		}
	}
	return o
}

func TestCheck(t *testing.T) {
	r := vh.Start(t, "C13")
	n := r.Pick(1200, 15000)
	kinds := []string{"producer", "direct", "group", "group848", "txn", "share", "direct-oor"}
	modes := []string{"responsive", "stalled", "gone", "slowmeta"}
	for i := 0; i < n; i++ {
		rng := r.Rand("c13", i)
		p := plan{Seed: uint64(r.Seed)<<20 | uint64(i), Kind: kinds[i%len(kinds)], Broker: modes[(i/len(kinds))%len(modes)], CloseAt: 1 + rng.IntN(40)}
		if p.Kind == "group" || p.Kind == "group848" {
			p.BlockReb = rng.IntN(3) == 0
			p.SecondMem = rng.IntN(2) == 0
		}
		var o outcome
		fail := e2e.Bubble(t, func() { o = run(p) })
		r.Eval(1)
		wit := func(d string) map[string]any {
			return map[string]any{"plan": p, "detail": d, "bubble": fail, "close_virtual": o.closeVirtual.String(), "requests_before_close": o.inFlightAtClose}
		}
		if o.inconcl != "" {
			r.Inconclusive(fmt.Sprintf("%+v: %s", p, o.inconcl))
			continue
		}
		sig := p.Kind + "/" + p.Broker
		if !o.closeReturned {
			r.Violation("close-did-not-return-within-10-virtual-minutes/"+sig, wit(o.note))
			continue
		}
		if o.promisesMissing != 0 {
			r.Violation("promise-not-called-after-close/"+sig, wit(fmt.Sprintf("%d of %d produce promises never ran after Close returned and the bubble quiesced", o.promisesMissing, o.produced)))
		}
		if o.pollAfter != "ErrClientClosed" {
			r.Violation("poll-after-close-not-ErrClientClosed/"+sig, wit(o.pollAfter))
		}
		if len(o.leaked) > 0 {
			r.Violation("goroutine-with-kgo-frames-remains-after-close/"+sig, wit(fmt.Sprintf("%d goroutines, first:\n%s", len(o.leaked), o.leaked[0])))
		}
		if fail != "" && !strings.Contains(fail, "blocked goroutines remain") {
			r.Violation("bubble-failure/"+sig, wit(fail))
		}
		r.Count("close_"+sig, 1)
		if o.closeVirtual > time.Second {
			r.Count("closes_that_needed_virtual_seconds", 1)
		}
		if o.inFlightAtClose > 0 {
			r.Distinct(fmt.Sprintf("%s|block=%v|second=%v|at=%d", sig, p.BlockReb, p.SecondMem, p.CloseAt/5))
			if r.WantSample() {
				r.Sample(map[string]any{"plan": p, "close_took_virtual": o.closeVirtual.String(), "produced": o.produced, "poll_after_close": o.pollAfter, "kgo_goroutines_left": len(o.leaked)})
			}
		}
	}
	r.Finish("exploration",
		"one evaluation = one synctest bubble: a client of kind {producer, direct, classic group, KIP-848 group, transactional, share} working against kfake, brokers then left {responsive, stalled (responses never come), gone (every connection is killed as soon as a request arrives)} after a seeded number of wire requests, Close/CloseAllowingRebalance called; non-trivial = requests had been exchanged before Close; distinct by (kind, broker mode, BlockRebalanceOnPoll, second member, close-point bucket)",
		"bounds are virtual: 10 minutes for Close to return, then 2 more minutes of grace before the goroutine census, both far beyond the configured request/retry/session timeouts (2-10 s)",
		"a goroutine counts as the client's if its stack has a github.com/twmb/franz-go/pkg/kgo frame; kfake and harness goroutines never do",
	)
}
