// C14 — buffered/unbuffered hooks pair up exactly once per record.
//
// Monitors: a kgo.WithHooks implementation counts, per *Record, the
// OnProduceRecordBuffered / OnProduceRecordUnbuffered and OnFetchRecordBuffered
// / OnFetchRecordUnbuffered calls. Online: a second unbuffered (or buffered)
// call for one record, or an unbuffered call for a record never buffered, is a
// violation on the spot (valid in real time and virtual time). Offline at a
// quiescent point: produce side - after every promise ran, each submitted
// record has exactly one buffered and one unbuffered call and the unbuffered
// error equals the promise's error; fetch side - only inside a synctest
// bubble after Close + synctest.Wait (the client dispatches unbuffered fetch
// hooks deferred/asynchronously, so sampling in real time would be a monitor
// bug): no record is left buffered and BufferedFetchRecords/Bytes are zero.
package c14

import (
	"fmt"
	"strings"
	"sync"
	"sync/atomic"
	"testing"
	"time"

	"github.com/twmb/franz-go/pkg/kgo"
	"verifharness/internal/groupwl"

	"verifharness/internal/conswl"
	"verifharness/internal/e2e"
	"verifharness/internal/prodwl"
	"verifharness/internal/vh"
)

func judgeProduce(r *vh.Run, res *prodwl.Result, mode string) {
	wit := func(d string) map[string]any {
		return map[string]any{"side": "produce", "mode": mode, "plan": res.Plan, "detail": d, "ops": res.Ops}
	}
	for _, p := range res.Problems {
		switch p.Sig {
		case "hook-unbuffered-twice", "hook-unbuffered-unknown-record", "hook-buffered-unknown-record":
			r.Violation("produce-"+p.Sig, wit(p.Detail))
		}
	}
	if len(res.Inconcl) > 0 || !res.Quiesced {
		r.Inconclusive(fmt.Sprintf("%s produce: not quiesced: %v", mode, res.Inconcl))
		return
	}
	n, failedPre, discarded := 0, 0, 0
	for _, c := range res.Recs {
		if c.CallClock == 0 {
			continue
		}
		n++
		b, u := c.Buffered.Load(), c.Unbuffered.Load()
		if b != 1 {
			r.Violation("produce-buffered-hook-count", wit(fmt.Sprintf("record %s (api %s): OnProduceRecordBuffered called %d times", c.ID, c.API, b)))
		}
		if u != 1 {
			r.Violation("produce-unbuffered-hook-count", wit(fmt.Sprintf("record %s (api %s err=%v): OnProduceRecordUnbuffered called %d times after all promises ran", c.ID, c.API, c.PromiseErr(), u)))
			continue
		}
		pe, ue := c.PromiseErr(), c.UnbufferedErr()
		if pe != ue && fmt.Sprint(pe) != fmt.Sprint(ue) {
			r.Violation("produce-unbuffered-error-differs-from-promise", wit(fmt.Sprintf("record %s: promise err %v, unbuffered hook err %v", c.ID, pe, ue)))
		}
		if pe != nil {
			discarded++
		}
	}
	_ = failedPre
	r.Count("produce_records_paired", n)
	r.Count("produce_records_failed", discarded)
	if discarded > 0 && n > discarded {
		kinds := ""
		for _, o := range res.Ops {
			kinds += o.Kind[:1]
		}
		if len(kinds) > 6 {
			kinds = kinds[:6]
		}
		r.Distinct(fmt.Sprintf("p|%s|ops=%s|close=%v|cancel=%v|unknown=%v", mode, kinds, res.Closed, res.Plan.CancelP > 0, res.Plan.UnknownP > 0))
	}
}

func judgeFetch(r *vh.Run, res *conswl.Result, mode string) {
	wit := func(d string) map[string]any {
		return map[string]any{"side": "fetch", "mode": mode, "plan": res.Plan, "detail": d, "events": res.Events}
	}
	for _, p := range res.Problems {
		r.Violation(p.Sig, wit(p.Detail))
	}
	if len(res.Inconcl) > 0 {
		r.Inconclusive(fmt.Sprintf("%s fetch: %v", mode, res.Inconcl))
		return
	}
	r.Count("fetch_hook_buffered", int(res.HookBuffered))
	r.Count("fetch_hook_unbuffered_polled", int(res.HookPolled))
	r.Count("fetch_hook_unbuffered_discarded", int(res.HookDiscarded))
	if res.HookChecked {
		if res.HookUnpaired > 0 {
			r.Violation("fetch-record-buffered-never-unbuffered", wit(fmt.Sprintf("%d records passed to OnFetchRecordBuffered were never passed to OnFetchRecordUnbuffered (buffered=%d unbuffered=%d) after Close and bubble quiescence", res.HookUnpaired, res.HookBuffered, res.HookUnbuffered)))
		}
		if res.GaugeSampled && (res.GaugeRecs != 0 || res.GaugeBytes != 0) {
			r.Violation("fetch-gauges-nonzero-with-nothing-buffered", wit(fmt.Sprintf("BufferedFetchRecords=%d BufferedFetchBytes=%d after Close and bubble quiescence", res.GaugeRecs, res.GaugeBytes)))
		}
		r.Count("fetch_quiescent_pairings_checked", 1)
	}
	if res.HookBuffered > 0 && (res.HookDiscarded > 0 || res.HookChecked) {
		key, _ := res.Shape()
		r.Distinct(fmt.Sprintf("f|%s|disc=%v|%s", mode, res.HookDiscarded > 0, key))
		if r.WantSample() {
			r.Sample(map[string]any{"side": "fetch", "mode": mode, "plan": res.Plan, "buffered": res.HookBuffered, "unbuffered_polled": res.HookPolled, "unbuffered_discarded": res.HookDiscarded, "judged_at_quiescence": res.HookChecked})
		}
	}
}

// ghook counts fetch-hook calls per record for the group scenarios (rebalances invalidate sessions
// and discard buffered fetches while other polls are dispatching their deferred hooks).
type ghook struct {
	mu       sync.Mutex
	state    map[*kgo.Record]int
	problems []string
	nb, nu   atomic.Int64
	n        atomic.Uint64
}

func (h *ghook) OnFetchRecordBuffered(r *kgo.Record) {
	h.nb.Add(1)
	h.mu.Lock()
	if st := h.state[r]; st != 0 && len(h.problems) < 10 {
		h.problems = append(h.problems, fmt.Sprintf("fetch-hook-buffered-twice|record %s/%d@%d buffered again (state %d)", r.Topic, r.Partition, r.Offset, st))
	}
	h.state[r] = 1
	h.mu.Unlock()
}

func (h *ghook) OnFetchRecordUnbuffered(r *kgo.Record, polled bool) {
	h.nu.Add(1)
	if h.n.Add(1)%23 == 0 {
		time.Sleep(2 * time.Millisecond) // a hook that takes a moment: widens the dispatch window
	}
	h.mu.Lock()
	switch h.state[r] {
	case 0:
		if len(h.problems) < 10 {
			h.problems = append(h.problems, fmt.Sprintf("fetch-hook-unbuffered-without-buffered|record %s/%d@%d (polled=%v)", r.Topic, r.Partition, r.Offset, polled))
		}
	case 2:
		if len(h.problems) < 10 {
			h.problems = append(h.problems, fmt.Sprintf("fetch-hook-unbuffered-twice|record %s/%d@%d (polled=%v)", r.Topic, r.Partition, r.Offset, polled))
		}
	}
	h.state[r] = 2
	h.mu.Unlock()
}

func judgeGroup(r *vh.Run, h *ghook, res *groupwl.Result, mode string) {
	wit := func(d string) map[string]any {
		return map[string]any{"side": "fetch(group)", "mode": mode, "plan": res.Plan, "detail": d}
	}
	h.mu.Lock()
	probs := append([]string(nil), h.problems...)
	unpaired := 0
	for _, st := range h.state {
		if st == 1 {
			unpaired++
		}
	}
	h.mu.Unlock()
	for _, p := range probs {
		i := strings.Index(p, "|")
		r.Violation(p[:i], wit(p[i+1:]))
	}
	if len(res.Inconcl) > 0 {
		r.Inconclusive(fmt.Sprintf("%s group: %v", mode, res.Inconcl))
		return
	}
	if mode == "vt" && unpaired > 0 {
		// all members are closed and the bubble is quiescent
		r.Violation("fetch-record-buffered-never-unbuffered", wit(fmt.Sprintf("%d records passed to OnFetchRecordBuffered were never passed to OnFetchRecordUnbuffered (buffered=%d unbuffered=%d) after every member closed and the bubble quiesced", unpaired, h.nb.Load(), h.nu.Load())))
	}
	r.Count("group_fetch_hook_buffered", int(h.nb.Load()))
	r.Count("group_fetch_hook_unbuffered", int(h.nu.Load()))
	if h.nb.Load() > 0 && res.Rebalances >= 2 {
		r.Distinct(fmt.Sprintf("g|%s|%s|%s|pr=%d", mode, res.Plan.Protocol, strings.Join(res.Plan.Churn, ","), res.Plan.PollRecords))
	}
}

func genProd(r *vh.Run, stream string, i int, vt bool) prodwl.Plan {
	rng := r.Rand(stream, i)
	p := prodwl.Plan{
		Seed: uint64(r.Seed)<<20 | uint64(i), VT: vt, Brokers: 1 + rng.IntN(3), Partitions: 1 + rng.IntN(4),
		LingerMs: []int{0, 1, 3}[rng.IntN(3)], MaxBufRecs: []int{4, 64, 10000}[rng.IntN(3)],
		ManualFlush: rng.IntN(6) == 0, Idempotent: rng.IntN(3) != 0, Compression: []string{"none", "snappy", "lz4"}[rng.IntN(3)],
		Producers: 1 + rng.IntN(5), PerProducer: 100 + rng.IntN(300), ValueMax: 100,
		TryP: []float64{0, 0.3}[rng.IntN(2)], SyncP: []float64{0, 0.05}[rng.IntN(2)], CancelP: []float64{0, 0.1, 0.3}[rng.IntN(3)],
		UnknownP: []float64{0, 0.03}[rng.IntN(2)], LateTopic: rng.IntN(3) == 0,
		Flushers: rng.IntN(2), Aborts: rng.IntN(3), Purges: rng.IntN(2), CloseMid: rng.IntN(3) == 0, Yield: []int{0, 30}[rng.IntN(2)],
		KillBeforeP: []float64{0, 0.05}[rng.IntN(2)], KillAfterP: []float64{0, 0.05}[rng.IntN(2)],
		RetriableP: []float64{0, 0.1}[rng.IntN(2)], FatalP: []float64{0, 0.03}[rng.IntN(2)], LeaderMoves: rng.IntN(3),
	}
	if p.ManualFlush && p.Flushers == 0 {
		p.Flushers = 1
	}
	if vt {
		p.Yield = 0
	}
	return p
}

func TestCheck(t *testing.T) {
	r := vh.Start(t, "C14")
	nP := r.Pick(80, 2000)
	nF := r.Pick(60, 1500)
	nVT := r.Pick(50, 1200)
	if !e2e.HaveVT {
		nVT = 0
		r.Inconclusive("built without synctests: the fetch-side pairing at quiescence cannot be judged")
	}
	vh.Parallel(nP, 8, func(i int) {
		res := prodwl.Run(genProd(r, "c14-p", i, false), 60*time.Second)
		judgeProduce(r, res, "rt")
		r.Eval(1)
	})
	vh.Parallel(nF, 8, func(i int) {
		rng := r.Rand("c14-f", i)
		plan := conswl.GenPlan(rng, uint64(r.Seed)<<20|uint64(i), false, rng.IntN(3) == 0)
		plan.Pauses = 5 + rng.IntN(20) // pause strips discard buffered records
		res := conswl.Run(plan, 60*time.Second)
		judgeFetch(r, res, "rt")
		r.Eval(1)
	})
	nG := r.Pick(40, 1000)
	vh.Parallel(nG, 8, func(i int) {
		plan := groupwl.GenPlan(r.Rand("c14-g", i), uint64(r.Seed)<<20|uint64(i), false)
		plan.Brokers = 3 // several sources => several deferred hook dispatches per poll
		if plan.Partitions < 4 {
			plan.Partitions = 6
		}
		h := &ghook{state: map[*kgo.Record]int{}}
		plan.Hooks = []kgo.Hook{h}
		res := groupwl.Run(plan, 60*time.Second)
		judgeGroup(r, h, res, "rt")
		r.Eval(1)
	})
	for i := 0; i < nVT/2; i++ {
		plan := groupwl.GenPlan(r.Rand("c14-gvt", i), uint64(r.Seed)<<20|uint64(1<<19+i), true)
		plan.Brokers = 3
		if plan.Partitions < 4 {
			plan.Partitions = 6
		}
		h := &ghook{state: map[*kgo.Record]int{}}
		plan.Hooks = []kgo.Hook{h}
		var res *groupwl.Result
		e2e.Bubble(t, func() {
			res = groupwl.Run(plan, 10*time.Minute)
			e2e.Settle()
		})
		if res != nil {
			judgeGroup(r, h, res, "vt")
		}
		r.Eval(1)
	}
	for i := 0; i < nVT; i++ {
		if i%2 == 0 {
			plan := genProd(r, "c14-pvt", 1<<19+i, true)
			var res *prodwl.Result
			e2e.Bubble(t, func() { res = prodwl.Run(plan, 30*time.Minute) })
			if res != nil {
				judgeProduce(r, res, "vt")
			}
		} else {
			rng := r.Rand("c14-fvt", i)
			plan := conswl.GenPlan(rng, uint64(r.Seed)<<20|uint64(1<<19+i), true, rng.IntN(3) == 0)
			plan.Pauses = 5 + rng.IntN(20)
			var res *conswl.Result
			e2e.Bubble(t, func() { res = conswl.Run(plan, 30*time.Minute) })
			if res != nil {
				judgeFetch(r, res, "vt")
			}
		}
		r.Eval(1)
	}
	r.Finish("exploration",
		"evaluations = seeded producer scenarios (abort / purge / cancel / close / unknown topic / broker faults) and direct-consumer scenarios (pause strips, session resets, leader moves, Close with buffered fetches) with a counting hook installed; non-trivial = produce side: some records failed (discard paths) and some succeeded; fetch side: records were buffered and either a discard happened or pairing was judged at bubble quiescence; distinct by side, mode and the set of discard causes / scenario shape",
		"fetch-side pairing and the BufferedFetch gauges are judged only at a synctest quiescent point after Close (the source dispatches unbuffered fetch hooks deferred and, on the session-stop path, asynchronously)",
	)
}
