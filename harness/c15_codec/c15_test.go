// C15 — the generated codec matches the protocol definitions.
//
// Monitor: internal/krammar, an independent interpreter of
// generate/definitions/* (own parser, own encoder written from the Kafka
// protocol rules), is the reference model. For every definition that has an
// encoding and every version it supports, seeded values are put into the
// generated kmsg struct by reflection; AppendTo must give exactly the
// interpreter's bytes, and ReadFrom / UnsafeReadFrom of those bytes must give
// back every field on the wire at that version (tagged fields and unknown
// tags included) and the definition's defaults everywhere else.
package c15

import (
	"bytes"
	"errors"
	"fmt"
	"reflect"
	"runtime"
	"sort"
	"strings"
	"sync"
	"testing"

	"verifharness/internal/krammar"
	"verifharness/internal/krammar/kreflect"
	"verifharness/internal/vh"
)

type job struct {
	st      *krammar.Struct
	gt      *kreflect.GoType
	version int
}

// firstDiff returns the first differing offset of two byte strings.
func firstDiff(a, b []byte) int {
	n := min(len(a), len(b))
	for i := 0; i < n; i++ {
		if a[i] != b[i] {
			return i
		}
	}
	return n
}

func window(b []byte, at int) string {
	lo, hi := max(0, at-12), min(len(b), at+20)
	return fmt.Sprintf("[%d:%d]=%x", lo, hi, b[lo:hi])
}

// fieldAt names the definition field whose encoding covers offset off.
func fieldAt(st *krammar.Struct, version int, val *krammar.StructVal, off int) string {
	var marks []krammar.Mark
	if _, err := krammar.Encode(st, version, val, &marks); err != nil {
		return "?"
	}
	name := "?"
	for _, m := range marks {
		if m.Kind == krammar.MarkField && m.Path != "" && m.Off <= off {
			name = m.Path
		}
	}
	return name
}

func clip(s string) string {
	if len(s) > 600 {
		return s[:600] + "..."
	}
	return s
}

func runCase(r *vh.Run, j job, mode krammar.Mode, idx int, stats *stats) {
	st, version := j.st, j.version
	rng := r.Rand(fmt.Sprintf("c15/%s/%d/%s", st.Name, version, mode), idx)
	val := krammar.Gen(rng, st, version, mode)
	want, err := krammar.Encode(st, version, val, nil)
	if err != nil {
		var amb *krammar.ErrAmbiguous
		if errors.As(err, &amb) {
			stats.add("dontcare_ambiguous_default", 1)
			return
		}
		r.Inconclusive(fmt.Sprintf("reference encoder failed on its own value: %s v%d: %v", st.Name, version, err))
		return
	}
	where := map[string]any{"type": st.Name, "version": version, "mode": mode.String(), "case": idx, "flexible": st.Flexible(version)}
	detail := func(kv ...any) map[string]any {
		d := map[string]any{}
		for k, v := range where {
			d[k] = v
		}
		for i := 0; i+1 < len(kv); i += 2 {
			d[kv[i].(string)] = kv[i+1]
		}
		return d
	}

	// encode
	msg := j.gt.New(version)
	if err := kreflect.Fill(reflect.ValueOf(msg).Elem(), st, val); err != nil {
		r.Inconclusive(fmt.Sprintf("cannot fill %s: %v", st.Name, err))
		return
	}
	prefix := []byte{0xde, 0xad, 0xbe}
	var got []byte
	if p := vh.Catch(func() { got = msg.AppendTo(prefix[:3:3]) }); p != nil {
		r.Violation("AppendTo-panic:"+st.Name, detail("panic", fmt.Sprint(p)))
		return
	}
	stats.add("bytes_compared", len(want))
	if !bytes.HasPrefix(got, prefix) {
		r.Violation("AppendTo-clobbers-dst:"+st.Name, detail("got_head", fmt.Sprintf("%x", got[:min(len(got), 8)])))
		return
	}
	got = got[3:]
	if !bytes.Equal(got, want) {
		at := firstDiff(got, want)
		r.Violation("encode-mismatch:"+st.Name, detail(
			"field", fieldAt(st, version, val, at), "offset", at, "len_got", len(got), "len_want", len(want),
			"got", window(got, at), "want", window(want, at)))
		return
	}
	// AppendTo twice gives the same bytes (it must be free of side effects)
	if again := msg.AppendTo(nil); !bytes.Equal(again, want) {
		r.Violation("AppendTo-not-idempotent:"+st.Name, detail("offset", firstDiff(again, want)))
		return
	}

	// decode
	expect := kreflect.CanonStruct(st, krammar.Project(st, version, val))
	for _, unsafe := range []bool{false, true} {
		name := "ReadFrom"
		fresh := j.gt.New(version)
		src := append(make([]byte, 0, len(want)), want...)
		var derr error
		p := vh.Catch(func() {
			if unsafe {
				ur, ok := fresh.(kreflect.UnsafeReader)
				if !ok {
					derr = errSkip
					return
				}
				name = "UnsafeReadFrom"
				derr = ur.UnsafeReadFrom(src)
			} else {
				derr = fresh.ReadFrom(src)
			}
		})
		if derr == errSkip {
			continue
		}
		if p != nil {
			r.Violation(name+"-panic:"+st.Name, detail("panic", fmt.Sprint(p), "bytes", clip(fmt.Sprintf("%x", want))))
			return
		}
		if derr != nil {
			r.Violation(name+"-error:"+st.Name, detail("error", derr.Error(), "len", len(want), "bytes", clip(fmt.Sprintf("%x", want))))
			return
		}
		frv := reflect.ValueOf(fresh).Elem()
		if st.TopLevel {
			if v := frv.FieldByName("Version").Int(); v != int64(version) {
				r.Violation(name+"-changes-version:"+st.Name, detail("version_after", v))
				return
			}
		}
		have := kreflect.Extract(frv, st)
		if d := kreflect.Diff(st, expect, have, st.Name); d != "" {
			r.Violation("decode-mismatch:"+st.Name, detail("decoder", name, "diff", clip(d), "bytes", clip(fmt.Sprintf("%x", want))))
			return
		}
		stats.add("decodes_compared", 1)
	}
	stats.add("cases", 1)
	stats.add("mode_"+mode.String(), 1)
	if st.Flexible(version) {
		stats.add("cases_flexible", 1)
	}
	if r.WantSample() && mode == krammar.ModeFull && len(want) < 200 && len(want) > 8 {
		r.Sample(map[string]any{"type": st.Name, "version": version, "mode": mode.String(), "bytes": fmt.Sprintf("%x", want)})
	}
}

var errSkip = errors.New("skip")

type stats struct {
	mu sync.Mutex
	m  map[string]int
}

func (s *stats) add(k string, n int) {
	s.mu.Lock()
	s.m[k] += n
	s.mu.Unlock()
}

func TestCheck(t *testing.T) {
	r := vh.Start(t, "C15")
	rule := "cases: every definition with an encoding (requests/responses for every key via RequestForKey/ResponseForKey, plus the named message types of the misc file) x every version 0..max x seeded values in five modes (all defaults; small random; boundary lengths 0/1/127/128 and rarely 16383/16384/32767; null wherever representable; nothing default + unknown tags with boundary tag numbers and sizes). Judged: AppendTo bytes == interpreter bytes, ReadFrom and UnsafeReadFrom of those bytes == projected value (wire fields kept, other fields at the definition's defaults, unknown tags kept in flexible versions only), Default() == definition defaults, key/max version agree. Non-trivial: the (type, version) pair has >= 1 field or known tag on the wire; distinct by (type, version)"
	assume := []string{
		"the interpreter (internal/krammar) and its reading of generate/README.md are trusted: nested structs are flexible exactly when the enclosing message is; a tagged field is written iff its value differs from its default; a field without a stated default has the zero value (null for nullable kinds); a nullable struct is one byte -1/1 followed by the struct",
		"Go field names equal definition field names (generator naming rule); type names of the misc message types are listed by hand in internal/krammar/kreflect",
		"values where the definitions do not determine the bytes (a tagged struct that differs from its default only in fields absent at that version) are generated but not judged",
	}
	sc, err := krammar.Load(vh.Repo() + "/generate/definitions")
	if err != nil {
		r.Inconclusive("cannot read definitions: " + err.Error())
		r.Finish("exploration", rule, assume...)
		return
	}
	goTypes := kreflect.AllGoTypes()
	st8 := &stats{m: map[string]int{}}

	skipped := map[string]string{}
	var jobs []job
	defined := map[string]bool{}
	pairsTotal, pairsSkipped := 0, 0
	for _, st := range sc.Encodable() {
		defined[st.Name] = true
		nv := len(st.Versions())
		pairsTotal += nv
		skip := func(why string) {
			skipped[st.Name] = why
			pairsSkipped += nv
		}
		if len(st.Unsupported) > 0 {
			skip("definition not interpretable: " + strings.Join(st.Unsupported, "; "))
			continue
		}
		gt := kreflect.Lookup(goTypes, st)
		if gt == nil {
			skip("no Go type found for this definition name")
			continue
		}
		probe := gt.New(0)
		if err := kreflect.CheckShape(reflect.TypeOf(probe).Elem(), st, true); err != nil {
			skip("Go struct does not have the shape the definition implies: " + err.Error())
			continue
		}
		if st.TopLevel {
			if gt.Key != st.Key {
				r.Violation("key-mismatch:"+st.Name, map[string]any{"definition": st.Key, "go": gt.Key})
			}
			if gt.MaxVer != st.MaxVersion {
				r.Violation("max-version-mismatch:"+st.Name, map[string]any{"definition": st.MaxVersion, "go": gt.MaxVer})
			}
			type flexer interface{ IsFlexible() bool }
			for _, v := range st.Versions() {
				if fx, ok := gt.New(v).(flexer); ok && fx.IsFlexible() != st.Flexible(v) {
					r.Violation("IsFlexible-mismatch:"+st.Name, map[string]any{"version": v, "definition": st.Flexible(v), "go": fx.IsFlexible()})
				}
			}
		}
		// Default() against the definition's defaults
		def := kreflect.Extract(reflect.ValueOf(probe).Elem(), st)
		wantDef := kreflect.CanonStruct(st, krammar.DefaultStruct(st))
		if st.WithVersionField {
			wantDef.V[0] = int64(0)
		}
		if d := kreflect.Diff(st, wantDef, def, st.Name); d != "" {
			r.Violation("default-mismatch:"+st.Name, map[string]any{"diff": d})
		}
		for _, v := range st.Versions() {
			jobs = append(jobs, job{st, gt, v})
		}
	}
	goOnly := 0
	for _, g := range goTypes {
		if !defined[g.Name] {
			goOnly++
			skipped["(go) "+g.Name] = "Go type without a definition of that name"
		}
	}

	// modes per (type, version): quick 14 values, thorough 500
	type mc struct {
		mode krammar.Mode
		n    int
	}
	plan := []mc{{krammar.ModeDefault, 1}, {krammar.ModeSmall, 5}, {krammar.ModeBoundary, 3}, {krammar.ModeNulls, 1}, {krammar.ModeFull, 4}}
	if r.Thorough() {
		plan = []mc{{krammar.ModeDefault, 1}, {krammar.ModeSmall, 200}, {krammar.ModeBoundary, 120}, {krammar.ModeNulls, 4}, {krammar.ModeFull, 175}}
	}
	perPair := 0
	for _, p := range plan {
		perPair += p.n
	}
	vh.Parallel(len(jobs), runtime.NumCPU(), func(i int) {
		j := jobs[i]
		for _, p := range plan {
			for k := 0; k < p.n; k++ {
				if r.Violations() >= 20 {
					return
				}
				runCase(r, j, p.mode, k, st8)
			}
		}
		if j.st.AnyPresent(j.version) {
			r.Distinct(fmt.Sprintf("%s/v%d", j.st.Name, j.version))
		} else {
			st8.add("pairs_without_wire_fields", 1)
		}
	})
	r.Eval(st8.m["cases"])
	for k, v := range st8.m {
		r.Count(k, v)
	}
	r.Count("definitions_total", len(sc.Order))
	r.Count("definitions_encodable", len(sc.Encodable()))
	r.Count("types_covered", len(sc.Encodable())-(len(skipped)-goOnly))
	r.Count("skipped_types", len(skipped))
	r.Count("pairs_total", pairsTotal)
	r.Count("pairs_covered", len(jobs))
	r.Count("pairs_skipped", pairsSkipped)
	r.Count("values_per_pair", perPair)
	if len(skipped) > 0 {
		keys := make([]string, 0, len(skipped))
		for k := range skipped {
			keys = append(keys, k)
		}
		sort.Strings(keys)
		list := map[string]string{}
		for _, k := range keys {
			list[k] = clip(skipped[k])
		}
		r.Set("skipped", list)
	}
	r.Set("exhaustive", false)
	r.Finish("exploration", rule, assume...)
}
