// C16 — protocol decoders are total and bounded.
//
// Monitor: every generated kmsg type (requests and responses of every key,
// the named message types, Record, RecordBatch, MessageV0/V1,
// StickyMemberMetadata) is fed, at every version, with mutations of valid
// encodings (truncation, bit flips, structure-aware length-field attacks at
// the positions the independent interpreter internal/krammar marks, blind
// length overwrites) and with arbitrary bytes, through ReadFrom and
// UnsafeReadFrom. Judged: no panic; bytes allocated by one decode call
// (runtime.MemStats.TotalAlloc delta, measured serially) stay within
// K*(len(input)+1)+C; a successful decode re-encodes and decodes to an equal
// value.
package c16

import (
	"encoding/binary"
	"fmt"
	"math"
	"math/rand/v2"
	"os"
	"path/filepath"
	"reflect"
	"runtime"
	"sort"
	"sync"
	"sync/atomic"
	"testing"
	"time"

	"github.com/twmb/franz-go/pkg/kmsg"

	"verifharness/internal/krammar"
	"verifharness/internal/krammar/kreflect"
	"verifharness/internal/vh"
)

// ---------------------------------------------------------------- targets

type target struct {
	name      string
	topLevel  bool // version is set from outside (SetVersion), not read from the bytes
	versions  []int
	newFn     func(version int) kreflect.Codec
	st        *krammar.Struct // nil: no interpretable definition, seeds come from the Go encoder only
	maxElem   uintptr         // largest slice element size in the Go type tree
	allocCoef uint64          // K of the allocation bound
}

// typeStats walks a Go type: largest slice element and nesting depth of slices.
func typeStats(t reflect.Type, seen map[reflect.Type]bool) (maxElem uintptr, depth int) {
	switch t.Kind() {
	case reflect.Pointer:
		return typeStats(t.Elem(), seen)
	case reflect.Slice:
		m, d := typeStats(t.Elem(), seen)
		return max(m, t.Elem().Size()), d + 1
	case reflect.Struct:
		if seen[t] {
			return 0, 0
		}
		seen[t] = true
		defer delete(seen, t)
		for i := 0; i < t.NumField(); i++ {
			m, d := typeStats(t.Field(i).Type, seen)
			maxElem, depth = max(maxElem, m), max(depth, d)
		}
	}
	return maxElem, depth
}

// Allocation bound: one decode call on n input bytes may allocate at most
// allocK*maxElem*(n+1) + allocC bytes, where maxElem is the largest slice
// element of the type (at least 32). A decoder that sizes an array from the
// remaining input allocates about maxElem bytes per input byte per nesting
// level; one that trusts a length field allocates maxElem*claimed bytes.
const (
	allocK = 16
	allocC = 16 << 10
)

func buildTargets(sc *krammar.Schema) []*target {
	var out []*target
	for _, g := range kreflect.AllGoTypes() {
		g := g
		t := &target{name: g.Name, newFn: g.New}
		if sc != nil {
			if st := sc.Structs[g.Name]; st != nil && len(st.Unsupported) == 0 && !st.NoEncoding &&
				kreflect.CheckShape(reflect.TypeOf(g.New(0)).Elem(), st, true) == nil {
				t.st = st
			}
		}
		switch {
		case g.Key >= 0:
			t.topLevel = true
			for v := 0; v <= g.MaxVer+1; v++ {
				t.versions = append(t.versions, v)
			}
		case t.st != nil:
			t.versions = t.st.Versions()
		case g.Versioned:
			t.versions = []int{0, 1, 2, 3, 4, 5}
		default:
			t.versions = []int{0}
		}
		out = append(out, t)
	}
	out = append(out,
		&target{name: "Record", versions: []int{0}, newFn: func(int) kreflect.Codec { return new(kmsg.Record) }},
		&target{name: "StickyMemberMetadata", versions: []int{0, 1}, newFn: func(int) kreflect.Codec {
			s := kmsg.NewStickyMemberMetadata()
			return &s
		}},
	)
	for _, t := range out {
		m, _ := typeStats(reflect.TypeOf(t.newFn(0)).Elem(), map[reflect.Type]bool{})
		t.maxElem = max(m, 32)
		t.allocCoef = allocK * uint64(t.maxElem)
	}
	sort.Slice(out, func(i, j int) bool { return out[i].name < out[j].name })
	return out
}

// ---------------------------------------------------------------- seeds

type seed struct {
	kind  string
	b     []byte
	marks []krammar.Mark
}

// fillRandom puts small random values into any Go value (used for the types
// that have no interpretable definition).
func fillRandom(rv reflect.Value, rng *rand.Rand, depth int) {
	switch rv.Kind() {
	case reflect.Bool:
		rv.SetBool(rng.IntN(2) == 1)
	case reflect.Int8, reflect.Int16, reflect.Int32, reflect.Int64:
		rv.SetInt(int64(rng.Uint64()) >> uint(rng.IntN(64)))
	case reflect.Uint16, reflect.Uint32:
		rv.SetUint(uint64(rng.Uint32()) >> uint(rng.IntN(32)) & (1<<(8*uint(rv.Type().Size())) - 1))
	case reflect.Float64:
		rv.SetFloat(rng.NormFloat64())
	case reflect.String:
		rv.SetString(randString(rng, rng.IntN(6)))
	case reflect.Array:
		for i := 0; i < rv.Len(); i++ {
			fillRandom(rv.Index(i), rng, depth)
		}
	case reflect.Uint8:
		rv.SetUint(uint64(rng.Uint32() & 0xff))
	case reflect.Pointer:
		if rng.IntN(3) == 0 {
			return
		}
		p := reflect.New(rv.Type().Elem())
		fillRandom(p.Elem(), rng, depth)
		rv.Set(p)
	case reflect.Slice:
		if rv.Type().Elem().Kind() == reflect.Uint8 {
			if rng.IntN(4) != 0 {
				rv.SetBytes([]byte(randString(rng, rng.IntN(6))))
			}
			return
		}
		n := rng.IntN(3)
		if depth > 3 {
			n = 0
		}
		s := reflect.MakeSlice(rv.Type(), n, n)
		for i := 0; i < n; i++ {
			fillRandom(s.Index(i), rng, depth+1)
		}
		rv.Set(s)
	case reflect.Struct:
		if rv.Type() == reflect.TypeOf(kmsg.Tags{}) {
			return
		}
		for i := 0; i < rv.NumField(); i++ {
			if rv.Type().Field(i).Name == "Version" && depth == 0 {
				continue
			}
			fillRandom(rv.Field(i), rng, depth)
		}
	}
}

func randString(rng *rand.Rand, n int) string {
	b := make([]byte, n)
	for i := range b {
		b[i] = byte('a' + rng.IntN(26))
	}
	return string(b)
}

func makeSeeds(r *vh.Run, t *target, version int) []seed {
	var out []seed
	if t.st != nil {
		for i, mode := range []krammar.Mode{krammar.ModeSmall, krammar.ModeFull, krammar.ModeSmall, krammar.ModeDefault} {
			rng := r.Rand(fmt.Sprintf("c16/seed/%s/%d", t.name, version), i)
			val := krammar.Gen(rng, t.st, version, mode)
			var marks []krammar.Mark
			b, err := krammar.Encode(t.st, version, val, &marks)
			if err != nil {
				continue
			}
			out = append(out, seed{"krammar-" + mode.String(), b, marks})
		}
	}
	// what the generated encoder itself produces for random and default values
	for i := 0; i < 2; i++ {
		rng := r.Rand(fmt.Sprintf("c16/goseed/%s/%d", t.name, version), i)
		v := t.newFn(version)
		if i == 0 {
			fillRandom(reflect.ValueOf(v).Elem(), rng, 0)
			if t.name == "RecordBatch" {
				rb := v.(*kmsg.RecordBatch)
				rb.Length = int32(len(rb.Records)) + 49
			}
		}
		var b []byte
		if p := vh.Catch(func() { b = v.AppendTo(nil) }); p != nil {
			continue
		}
		out = append(out, seed{[]string{"go-random", "go-default"}[i], b, nil})
	}
	return out
}

// ---------------------------------------------------------------- mutations

type input struct {
	class string
	b     []byte
	// structural: the first mutated byte lies after at least one complete
	// field of a valid encoding (so the decoder is not rejecting at byte 0)
	deep bool
}

func splice(b []byte, off, width int, repl []byte) []byte {
	out := make([]byte, 0, len(b)-width+len(repl))
	out = append(out, b[:off]...)
	out = append(out, repl...)
	return append(out, b[off+width:]...)
}

func be16(v int) []byte { return []byte{byte(v >> 8), byte(v)} }
func be32(v int64) []byte {
	var x [4]byte
	binary.BigEndian.PutUint32(x[:], uint32(v))
	return x[:]
}
func uv(u uint64) []byte { return krammar.Uvarint(nil, u) }
func zz(i int32) []byte  { return krammar.Uvarint(nil, krammar.ZigZag32(i)) }

var overlong = [][]byte{
	{0xff, 0xff, 0xff, 0xff, 0xff},                                     // 5 continuation bytes
	{0xff, 0xff, 0xff, 0xff, 0x7f},                                     // more than 32 bits
	{0x80, 0x80, 0x80, 0x80, 0x80, 0x80, 0x80, 0x80, 0x80, 0x80, 0x01}, // 11 bytes
	{0x81, 0x80, 0x80, 0x80, 0x00},                                     // zero padded
	{0x80},                                                             // dangling continuation
}

// attacks returns the hostile replacements for one length mark. giant rungs
// (which a length-trusting decoder would turn into multi-gigabyte
// allocations) come last and only when wanted.
func attacks(m krammar.Mark, rem int, giant bool) [][]byte {
	var out [][]byte
	r := int64(rem)
	switch m.Kind {
	case krammar.MarkLen16:
		for _, v := range []int{rem + 1, 0x7fff, 0x8000, 0xffff, 0xfffe, 0} {
			out = append(out, be16(v))
		}
	case krammar.MarkLen32:
		for _, v := range []int64{r, r + 1, 1 << 16, 1 << 20, -1, -2, math.MinInt32, 0} {
			out = append(out, be32(v))
		}
		if giant {
			out = append(out, be32(1<<26), be32(math.MaxInt32))
		}
	case krammar.MarkCompactLen:
		for _, v := range []uint64{0, 1, uint64(r) + 1, uint64(r) + 2, 1<<16 + 1, 1<<20 + 1, 1 << 31, 1<<31 + 1, math.MaxUint32} {
			out = append(out, uv(v))
		}
		out = append(out, overlong...)
		if giant {
			out = append(out, uv(1<<26+1), uv(math.MaxInt32), uv(math.MaxInt32+1))
		}
	case krammar.MarkVarintLen:
		for _, v := range []int64{r, r + 1, 1 << 16, 1 << 20, -1, -2, math.MinInt32, 0} {
			out = append(out, zz(int32(v)))
		}
		out = append(out, overlong...)
		if giant {
			out = append(out, zz(1<<26), zz(math.MaxInt32))
		}
	case krammar.MarkTagCount:
		// a count beyond the data; the decoder's per-tag loop is linear in
		// the claimed count even after the reader is exhausted, so counts
		// are kept at 2^16 (2^32 spins for about a minute: not judged here)
		for _, v := range []uint64{1, uint64(r) + 1, 1 << 16} {
			out = append(out, uv(v))
		}
		if bigTagCounts { // the loop was probed to stop on an exhausted reader
			out = append(out, uv(1<<31), uv(math.MaxUint32))
		}
		out = append(out, overlong[0], overlong[1], overlong[4])
	case krammar.MarkTagKey:
		for _, v := range []uint64{0, 1, 2, math.MaxUint32} {
			out = append(out, uv(v))
		}
	case krammar.MarkTagSize:
		for _, v := range []uint64{0, uint64(r) + 1, 1 << 20, 1 << 31, math.MaxUint32} {
			out = append(out, uv(v))
		}
		out = append(out, overlong[0], overlong[1])
	case krammar.MarkNullableFlag:
		for _, v := range []byte{0, 2, 0x7f, 0x80, 0xff, 1} {
			out = append(out, []byte{v})
		}
	}
	return out
}

func lengthMarks(s seed) []krammar.Mark {
	var out []krammar.Mark
	for _, m := range s.marks {
		if m.Kind != krammar.MarkField {
			out = append(out, m)
		}
	}
	return out
}

func firstFieldEnd(s seed) int {
	n := 0
	for _, m := range s.marks {
		if m.Kind == krammar.MarkField && m.Off > 0 {
			if n == 0 || m.Off < n {
				n = m.Off
			}
		}
	}
	if n == 0 {
		return 1 << 30
	}
	return n
}

// structural returns the length-field attacks on up to maxMarks marks.
func structural(s seed, rng *rand.Rand, maxMarks int, giant bool) []input {
	marks := lengthMarks(s)
	if len(marks) > maxMarks {
		rng.Shuffle(len(marks), func(i, j int) { marks[i], marks[j] = marks[j], marks[i] })
		marks = marks[:maxMarks]
		sort.Slice(marks, func(i, j int) bool { return marks[i].Off < marks[j].Off })
	}
	ffe := firstFieldEnd(s)
	var out []input
	for _, m := range marks {
		rem := len(s.b) - m.Off - m.Width
		for _, repl := range attacks(m, rem, giant) {
			out = append(out, input{fmt.Sprintf("len-attack-%d", m.Kind), splice(s.b, m.Off, m.Width, repl), m.Off >= ffe})
		}
	}
	return out
}

// blind overwrites lengths at random offsets without knowing the structure.
func blind(s seed, rng *rand.Rand, n int, giant bool) []input {
	if len(s.b) == 0 {
		return nil
	}
	repls := [][]byte{be32(math.MaxInt32 >> 7), be32(1 << 20), be32(-1), be32(math.MinInt32), be16(0x7fff), be16(0xffff), uv(1<<20 + 1), uv(1<<16 + 1), overlong[0], overlong[1], overlong[2], {0xff}, {0x80}, {0x00}}
	if giant {
		repls = append(repls, be32(math.MaxInt32))
	}
	ffe := firstFieldEnd(s)
	var out []input
	for i := 0; i < n; i++ {
		off := rng.IntN(len(s.b))
		repl := repls[rng.IntN(len(repls))]
		w := min(len(repl), len(s.b)-off)
		if rng.IntN(4) == 0 {
			w = 0 // insert
		}
		out = append(out, input{"blind", splice(s.b, off, w, repl), off >= ffe})
	}
	return out
}

func truncations(s seed, rng *rand.Rand) []input {
	var out []input
	ffe := firstFieldEnd(s)
	if len(s.b) <= 160 {
		for k := 0; k < len(s.b); k++ {
			out = append(out, input{"truncate", s.b[:k:k], k >= ffe})
		}
		return out
	}
	cut := map[int]bool{0: true, 1: true, len(s.b) - 1: true}
	for _, m := range s.marks {
		if len(cut) > 160 {
			break
		}
		cut[m.Off] = true
		cut[m.Off+m.Width] = true
	}
	for len(cut) < 120 {
		cut[rng.IntN(len(s.b))] = true
	}
	ks := make([]int, 0, len(cut))
	for k := range cut {
		if k < len(s.b) {
			ks = append(ks, k)
		}
	}
	sort.Ints(ks)
	for _, k := range ks {
		out = append(out, input{"truncate", s.b[:k:k], k >= ffe})
	}
	return out
}

func bitflips(s seed, rng *rand.Rand, n int) []input {
	if len(s.b) == 0 {
		return nil
	}
	ffe := firstFieldEnd(s)
	var out []input
	for i := 0; i < n; i++ {
		b := append([]byte{}, s.b...)
		first := len(b)
		flips := 1
		if i%4 == 3 {
			flips = 2 + rng.IntN(3)
		}
		for f := 0; f < flips; f++ {
			var off int
			if len(b) <= 64 && i < 8*len(b) && flips == 1 {
				off = i / 8 // walk every bit of short encodings
				b[off] ^= 1 << uint(i%8)
			} else {
				off = rng.IntN(len(b))
				b[off] ^= 1 << uint(rng.IntN(8))
			}
			first = min(first, off)
		}
		out = append(out, input{"bitflip", b, first >= ffe})
	}
	return out
}

func arbitrary(rng *rand.Rand, n int) []input {
	var out []input
	for _, p := range []byte{0x00, 0x01, 0x7f, 0x80, 0xff} {
		for _, l := range []int{1, 4, 9, 64, 300} {
			b := make([]byte, l)
			for i := range b {
				b[i] = p
			}
			out = append(out, input{"pattern", b, false})
		}
	}
	out = append(out, input{"empty", nil, false})
	for i := 0; i < n; i++ {
		l := rng.IntN(48)
		if i%16 == 0 {
			l = 64 + rng.IntN(1000)
		}
		b := make([]byte, l)
		for j := range b {
			switch rng.IntN(4) {
			case 0:
				b[j] = byte(rng.IntN(4)) // small numbers keep the decoder going
			default:
				b[j] = byte(rng.Uint32())
			}
		}
		out = append(out, input{"random", b, false})
	}
	return out
}

// ---------------------------------------------------------------- oracle

var tagsT = reflect.TypeOf(kmsg.Tags{})

func tagList(v reflect.Value) [][2]any {
	cp := reflect.New(tagsT)
	cp.Elem().Set(v)
	var out [][2]any
	cp.Interface().(*kmsg.Tags).Each(func(k uint32, b []byte) { out = append(out, [2]any{k, string(b)}) })
	return out
}

// deepEq is reflect.DeepEqual with floats compared by bits and kmsg.Tags by
// content; nil and empty slices are different (as DeepEqual has it).
func deepEq(a, b reflect.Value, path string) string {
	switch a.Kind() {
	case reflect.Float64:
		if math.Float64bits(a.Float()) != math.Float64bits(b.Float()) {
			return path
		}
	case reflect.Pointer:
		if a.IsNil() != b.IsNil() {
			return path + "(nil-ness)"
		}
		if !a.IsNil() {
			return deepEq(a.Elem(), b.Elem(), path)
		}
	case reflect.Slice:
		if a.IsNil() != b.IsNil() {
			return path + "(nil vs empty)"
		}
		if a.Len() != b.Len() {
			return path + "(len)"
		}
		if a.Type().Elem().Kind() == reflect.Uint8 {
			if string(a.Bytes()) != string(b.Bytes()) {
				return path
			}
			return ""
		}
		for i := 0; i < a.Len(); i++ {
			if d := deepEq(a.Index(i), b.Index(i), fmt.Sprintf("%s[%d]", path, i)); d != "" {
				return d
			}
		}
	case reflect.Struct:
		if a.Type() == tagsT {
			if !reflect.DeepEqual(tagList(a), tagList(b)) {
				return path
			}
			return ""
		}
		for i := 0; i < a.NumField(); i++ {
			if d := deepEq(a.Field(i), b.Field(i), path+"."+a.Type().Field(i).Name); d != "" {
				return d
			}
		}
	case reflect.Array:
		for i := 0; i < a.Len(); i++ {
			if d := deepEq(a.Index(i), b.Index(i), path); d != "" {
				return d
			}
		}
	default:
		if !reflect.DeepEqual(a.Interface(), b.Interface()) {
			return path
		}
	}
	return ""
}

type counters struct {
	mu sync.Mutex
	m  map[string]int64
}

func (c *counters) add(k string, n int64) {
	c.mu.Lock()
	c.m[k] += n
	c.mu.Unlock()
}
func (c *counters) max(k string, n int64) {
	c.mu.Lock()
	if n > c.m[k] {
		c.m[k] = n
	}
	c.mu.Unlock()
}

func hexClip(b []byte) string {
	if len(b) > 400 {
		return fmt.Sprintf("%x...(%d bytes)", b[:400], len(b))
	}
	return fmt.Sprintf("%x", b)
}

type checker struct {
	r   *vh.Run
	cnt *counters

	prog *progress

	wmu       sync.Mutex
	worstPm   uint64
	worstCase string

	spinOnce sync.Once
	spins    bool // the tag loop spins on an exhausted reader (probed once)
}

// probeSpin decodes the shortest known spinning input (tag count 2^32-1 in a
// struct without known tags, nothing behind it) in a goroutine and waits up
// to two seconds of real time. Only the decision "skip cpu-hazard inputs or
// run them" depends on it, never a verdict: on a tree where the loop stops on
// an exhausted reader the hazard inputs are decoded and judged like all
// others, on one where it spins they are set aside as before.
func (c *checker) probeSpin() bool {
	c.spinOnce.Do(func() {
		done := make(chan struct{})
		go func() {
			defer close(done)
			vh.Catch(func() {
				v := kmsg.NewPtrApiVersionsRequest()
				v.SetVersion(3)
				v.ReadFrom([]byte{0x01, 0x01, 0xff, 0xff, 0xff, 0xff, 0x0f})
			})
		}()
		select {
		case <-done:
		case <-time.After(2 * time.Second):
			c.spins = true
		}
		if c.spins {
			c.cnt.add("tag_loop_spins_on_exhausted_reader", 1)
		} else {
			c.cnt.add("tag_loop_stops_on_exhausted_reader", 1)
		}
	})
	return c.spins
}

func (c *checker) worst(pm uint64, what string) {
	c.wmu.Lock()
	if pm > c.worstPm {
		c.worstPm, c.worstCase = pm, what
	}
	c.wmu.Unlock()
}

// bigTagCounts is set once, before any input is generated, from probeSpin.
var bigTagCounts bool

// tagLoopLimit: inputs whose tag count (in a struct without known tags)
// exceeds this are set aside, see krammar.Scan.
const tagLoopLimit = 1 << 17

// cpuHazard reports whether decoding in would make the tag loop spin. CPU
// time is not judged by this property and a spinning decode cannot be
// interrupted, so such inputs are counted and not run.
func (c *checker) cpuHazard(t *target, version int, in []byte) bool {
	if !c.probeSpin() {
		return false
	}
	if t.st != nil {
		return krammar.Scan(t.st, version, in).MaxTaglessCount > tagLoopLimit
	}
	if t.name == "Record" || t.name == "StickyMemberMetadata" {
		return false
	}
	// no definition to walk along: any run of three continuation bytes could
	// be read as a count of 2^21 or more
	run := 0
	for _, b := range in {
		if b&0x80 != 0 {
			run++
			if run >= 3 {
				return true
			}
		} else {
			run = 0
		}
	}
	return false
}

func (c *checker) timed(t *target, version int, in []byte, fn func()) any {
	t0 := time.Now()
	p := vh.Catch(fn)
	if d := time.Since(t0); d > 100*time.Millisecond {
		c.cnt.add("decodes_slower_than_100ms", 1)
		c.cnt.max("slowest_decode_ms", d.Milliseconds())
		if c.prog != nil {
			c.prog.note("slow decode %v: %s v%d input %s", d, t.name, version, hexClip(in))
		}
	}
	return p
}

// decode runs one decoder on one input and judges no-panic and the
// re-encode fix-point. It returns whether decoding succeeded.
func (c *checker) decode(t *target, version int, in input, unsafe bool, idx int) (ok bool, ran bool) {
	if c.cpuHazard(t, version, in.b) {
		c.cnt.add("cpu_hazard_not_run", 1)
		return false, false
	}
	v := t.newFn(version)
	name := "ReadFrom"
	var derr error
	src := append(make([]byte, 0, len(in.b)), in.b...) // capacity == length: reads past the end fault
	var p any
	if unsafe {
		ur, has := v.(kreflect.UnsafeReader)
		if !has {
			return false, false
		}
		name = "UnsafeReadFrom"
		p = c.timed(t, version, in.b, func() { derr = ur.UnsafeReadFrom(src) })
	} else {
		p = c.timed(t, version, in.b, func() { derr = v.ReadFrom(src) })
	}
	det := func(kv ...any) map[string]any {
		d := map[string]any{"type": t.name, "version": version, "decoder": name, "class": in.class, "case": idx, "input": hexClip(in.b), "len": len(in.b)}
		for i := 0; i+1 < len(kv); i += 2 {
			d[kv[i].(string)] = kv[i+1]
		}
		return d
	}
	if p != nil {
		c.r.Violation("panic:"+name+":"+t.name, det("panic", fmt.Sprint(p)))
		return false, true
	}
	if derr != nil {
		c.cnt.add("rejected", 1)
		return false, true
	}
	c.cnt.add("accepted", 1)
	// fix-point
	var b2 []byte
	if p := vh.Catch(func() { b2 = v.AppendTo(nil) }); p != nil {
		c.r.Violation("reencode-panic:"+t.name, det("panic", fmt.Sprint(p)))
		return true, true
	}
	v2 := t.newFn(version)
	var err2 error
	if p := vh.Catch(func() { err2 = v2.ReadFrom(b2) }); p != nil {
		c.r.Violation("panic:ReadFrom-of-reencoding:"+t.name, det("panic", fmt.Sprint(p), "reencoded", hexClip(b2)))
		return true, true
	}
	if err2 != nil {
		c.r.Violation("fixpoint-redecode-fails:"+t.name, det("error", err2.Error(), "reencoded", hexClip(b2)))
		return true, true
	}
	var d string
	if t.st != nil {
		// field by field along the definition: null and empty are different
		// values only for kinds that can be null; a nil and an empty
		// non-nullable array are the same (empty) array
		rv1, rv2 := reflect.ValueOf(v).Elem(), reflect.ValueOf(v2).Elem()
		d = kreflect.Diff(t.st, kreflect.Extract(rv1, t.st), kreflect.Extract(rv2, t.st), t.name)
		if d == "" && t.topLevel && rv1.FieldByName("Version").Int() != rv2.FieldByName("Version").Int() {
			d = t.name + ".Version"
		}
	} else {
		d = deepEq(reflect.ValueOf(v).Elem(), reflect.ValueOf(v2).Elem(), t.name)
	}
	if d != "" {
		c.r.Violation("fixpoint-differs:"+t.name, det("at", d, "reencoded", hexClip(b2)))
		return true, true
	}
	c.cnt.add("fixpoints_checked", 1)
	return true, true
}

// measure runs one decode serially between two ReadMemStats calls. An excess
// is re-measured twice and reported only if it reproduces every time, so
// that an unrelated allocation of the runtime or the test framework landing
// in the window cannot raise an alarm.
func (c *checker) measure(t *target, version int, in input, unsafe bool, idx int, ms *runtime.MemStats) {
	if c.cpuHazard(t, version, in.b) {
		c.cnt.add("cpu_hazard_not_run", 1)
		return
	}
	name := "ReadFrom"
	if unsafe {
		name = "UnsafeReadFrom"
	}
	det := func(kv ...any) map[string]any {
		d := map[string]any{"type": t.name, "version": version, "decoder": name, "class": in.class, "case": idx, "input": hexClip(in.b), "len": len(in.b)}
		for i := 0; i+1 < len(kv); i += 2 {
			d[kv[i].(string)] = kv[i+1]
		}
		return d
	}
	bound := t.allocCoef*uint64(len(in.b)+1) + allocC
	var least uint64
	for attempt := 0; attempt < 3; attempt++ {
		v := t.newFn(version)
		src := append(make([]byte, 0, len(in.b)), in.b...)
		var fn func()
		if unsafe {
			ur, has := v.(kreflect.UnsafeReader)
			if !has {
				return
			}
			fn = func() { _ = ur.UnsafeReadFrom(src) }
		} else {
			fn = func() { _ = v.ReadFrom(src) }
		}
		runtime.ReadMemStats(ms)
		before := ms.TotalAlloc
		p := c.timed(t, version, in.b, fn)
		runtime.ReadMemStats(ms)
		delta := ms.TotalAlloc - before
		if p != nil {
			c.r.Violation("panic:"+name+":"+t.name, det("panic", fmt.Sprint(p)))
			return
		}
		if attempt == 0 || delta < least {
			least = delta
		}
		if delta <= bound {
			break
		}
		c.cnt.add("alloc_remeasured", 1)
	}
	c.cnt.add("alloc_measured", 1)
	// how much of the bound the worst case uses, in 1/1000
	c.cnt.max("alloc_worst_permille_of_bound", int64(least*1000/bound))
	c.worst(least*1000/bound, fmt.Sprintf("%s v%d %s %s: %d bytes allocated for %d input bytes (maxElem %d)", t.name, version, name, in.class, least, len(in.b), t.maxElem))
	if least > bound {
		c.r.Violation("alloc-unbounded:"+name+":"+t.name, det("allocated_bytes", least, "bound_bytes", bound, "max_elem_size", t.maxElem,
			"bound", fmt.Sprintf("%d*%d*(len+1)+%d", allocK, t.maxElem, allocC)))
	}
}

// ---------------------------------------------------------------- progress log

type progress struct {
	mu sync.Mutex
	f  *os.File
}

func openProgress() *progress {
	dir := filepath.Join(vh.Out(), "logs")
	os.MkdirAll(dir, 0o755)
	f, err := os.Create(filepath.Join(dir, "C16.progress.log"))
	if err != nil {
		return &progress{}
	}
	return &progress{f: f}
}

// note records which batch is about to run, so that a fatal crash (which no
// recover can catch) is attributable.
func (p *progress) note(format string, a ...any) {
	if p.f == nil {
		return
	}
	p.mu.Lock()
	fmt.Fprintf(p.f, format+"\n", a...)
	p.mu.Unlock()
}

// ---------------------------------------------------------------- the check

type pair struct {
	t       *target
	version int
}

func TestCheck(t *testing.T) {
	r := vh.Start(t, "C16")
	rule := "cases: for every generated type (requests and responses of every key, named message types, Record, RecordBatch, MessageV0/V1, StickyMemberMetadata) x every version 0..max+1: valid encodings (independent interpreter, 4 value modes; generated encoder on random and default values) and their mutations: every truncation (sampled at field boundaries above 160 bytes), single and multi bit flips (every bit of encodings up to 64 bytes), structure-aware length-field attacks at marked positions (array/bytes/string/varint lengths, tag count/key/size, nullable flag: remaining+1, 2^16, 2^20, 2^26, MaxInt32, -1, -2, MinInt32, null, overlong and overflowing varints), blind length overwrites and inserts, byte patterns and random bytes; each through ReadFrom and UnsafeReadFrom. Judged: no panic; re-encode/decode fix-point on every accepted input; bytes allocated by one call (TotalAlloc delta, serial phase: all length attacks on 2 seeds per pair, patterns, sampled mutations) <= 16*maxElemSize*(len+1)+16KiB. Non-trivial: the input was accepted, or its first mutated byte lies after a complete field of a valid encoding; distinct by (type, version, accepted/rejected)"
	assume := []string{
		"allocation is measured as runtime.MemStats.TotalAlloc deltas around single calls in a serial phase of the test process; maxElemSize is the largest slice element of the Go type (reflect), at least 32",
		"CPU time is not judged. A tagged-field count near 2^32 in a struct without known tags used to make kmsg's tag loop spin for about a minute on an exhausted reader (repaired, see known_findings.json); the run probes once whether that loop still spins (counter tag_loop_*): if it does, inputs whose tag count in such a struct exceeds 2^17 (krammar.Scan) are counted as cpu_hazard_not_run and not decoded, otherwise they are decoded and judged like all others",
		"decoding into a fresh value each time (ReadFrom does not clear fields that are absent at the version)",
	}
	limitAddressSpace()
	sc, err := krammar.Load(vh.Repo() + "/generate/definitions")
	if err != nil {
		r.Count("definitions_unreadable", 1)
		sc = nil
	}
	targets := buildTargets(sc)
	var pairs []pair
	withDef := 0
	for _, tg := range targets {
		if tg.st != nil {
			withDef++
		}
		for _, v := range tg.versions {
			pairs = append(pairs, pair{tg, v})
		}
	}
	cnt := &counters{m: map[string]int64{}}
	prog := openProgress()
	chk := &checker{r: r, cnt: cnt, prog: prog}
	bigTagCounts = !chk.probeSpin()
	r.Count("types", len(targets))
	r.Count("types_with_interpretable_definition", withDef)
	r.Count("pairs", len(pairs))

	// ---- phase B first: serial allocation measurement (moderate rungs
	// first, so that a length-trusting decoder is reported cleanly before a
	// giant rung could kill the process)
	var ms runtime.MemStats
	// B0: only "this array has 2^16 elements" at every marked array length of
	// one valid encoding per pair. Nothing else in the input changes, so a
	// decoder that trusts the count shows up as a clean allocation excess
	// here, before any shifted parse can turn a random field into a
	// multi-gigabyte claim that kills the process.
	for pi, p := range pairs {
		if p.t.st == nil {
			continue
		}
		seeds := makeSeeds(r, p.t, p.version)
		prog.note("phaseB0 pair %d %s v%d", pi, p.t.name, p.version)
		for _, s := range seeds {
			if s.kind != "krammar-full" {
				continue
			}
			idx := 0
			for _, m := range lengthMarks(s) {
				if !m.Array {
					continue
				}
				var repl []byte
				switch m.Kind {
				case krammar.MarkLen32:
					repl = be32(1 << 16)
				case krammar.MarkCompactLen:
					repl = uv(1<<16 + 1)
				case krammar.MarkVarintLen:
					repl = zz(1 << 16)
				default:
					continue
				}
				chk.measure(p.t, p.version, input{"array-claims-65536", splice(s.b, m.Off, m.Width, repl), true}, false, idx, &ms)
				idx++
			}
			break
		}
	}
	if r.Violations() > 0 {
		r.Count("stopped_after_phase_B0", 1)
		r.Eval(int(cnt.m["alloc_measured"]))
		for k, v := range cnt.m {
			r.Count(k, int(v))
		}
		r.Distinct("stopped-early-1")
		r.Distinct("stopped-early-2")
		r.Finish("exploration", rule, assume...)
		return
	}
	perMarksB := r.Pick(10, 48)
	for pi, p := range pairs {
		if r.Violations() >= 20 {
			break
		}
		seeds := makeSeeds(r, p.t, p.version)
		prog.note("phaseB pair %d %s v%d seeds=%d", pi, p.t.name, p.version, len(seeds))
		idx := 0
		picked := map[string]bool{}
		for si, s := range seeds {
			switch {
			case picked[s.kind]:
				continue
			case s.kind == "krammar-small", s.kind == "krammar-full":
			case s.kind == "go-random" && p.t.st == nil:
			default:
				continue
			}
			picked[s.kind] = true
			rng := r.Rand(fmt.Sprintf("c16/B/%s/%d", p.t.name, p.version), si)
			ins := structural(s, rng, perMarksB, false)
			ins = append(ins, blind(s, rng, 6, false)...)
			ins = append(ins, input{"valid", s.b, true})
			if tr := truncations(s, rng); len(tr) > 0 {
				for k := 0; k < 4; k++ {
					ins = append(ins, tr[rng.IntN(len(tr))])
				}
			}
			ins = append(ins, bitflips(s, rng, 4)...)
			for _, in := range ins {
				chk.measure(p.t, p.version, in, idx%3 == 2, idx, &ms)
				idx++
			}
		}
		rng := r.Rand(fmt.Sprintf("c16/Barb/%s/%d", p.t.name, p.version), 0)
		for _, in := range arbitrary(rng, 6) {
			chk.measure(p.t, p.version, in, idx%3 == 2, idx, &ms)
			idx++
		}
	}

	// ---- phase A: everything, in parallel: no panic + fix-point
	giant := r.Violations() == 0
	nflips := r.Pick(96, 8000)
	nblind := r.Pick(24, 2500)
	nrandom := r.Pick(96, 40000)
	perMarksA := r.Pick(32, 400)
	var total atomic.Int64
	vh.Parallel(len(pairs), runtime.NumCPU(), func(pi int) {
		p := pairs[pi]
		if r.Violations() >= 20 {
			return
		}
		seeds := makeSeeds(r, p.t, p.version)
		accepted, rejectedDeep := false, false
		run := func(ins []input, phase string, si int) {
			prog.note("phaseA pair %d %s v%d seed=%d %s n=%d", pi, p.t.name, p.version, si, phase, len(ins))
			for i, in := range ins {
				for _, unsafe := range []bool{false, true} {
					ok, ran := chk.decode(p.t, p.version, in, unsafe, i)
					if !ran {
						continue
					}
					total.Add(1)
					cnt.add("class_"+in.class, 1)
					if ok {
						accepted = true
					} else if in.deep {
						rejectedDeep = true
						cnt.add("rejected_after_first_field", 1)
					}
				}
			}
		}
		for si, s := range seeds {
			rng := r.Rand(fmt.Sprintf("c16/A/%s/%d", p.t.name, p.version), si)
			run([]input{{"valid", s.b, true}}, "valid", si)
			run(truncations(s, rng), "truncate", si)
			run(bitflips(s, rng, nflips), "bitflip", si)
			run(structural(s, rng, perMarksA, giant), "len-attack", si)
			run(blind(s, rng, nblind, giant), "blind", si)
		}
		rng := r.Rand(fmt.Sprintf("c16/Aarb/%s/%d", p.t.name, p.version), 0)
		run(arbitrary(rng, nrandom), "arbitrary", -1)
		if accepted {
			r.Distinct(fmt.Sprintf("%s/v%d/accepted", p.t.name, p.version))
		}
		if rejectedDeep {
			r.Distinct(fmt.Sprintf("%s/v%d/rejected", p.t.name, p.version))
		}
	})
	r.Eval(int(total.Load()) + int(cnt.m["alloc_measured"]))
	for k, v := range cnt.m {
		r.Count(k, int(v))
	}
	r.Sample(map[string]any{"type": "ApiVersionsRequest", "version": 3, "class": "len-attack tag count", "input": "0101ffffffff0f", "note": "example of a hostile input shape: two empty compact strings, then a tag count of 2^32-1 (this one is not run: CPU time is not judged)"})
	if len(pairs) > 0 {
		p := pairs[len(pairs)/2]
		if s := makeSeeds(r, p.t, p.version); len(s) > 0 {
			rng := r.Rand("c16/sample", 0)
			if st := structural(s[0], rng, 2, false); len(st) > 0 {
				r.Sample(map[string]any{"type": p.t.name, "version": p.version, "class": st[0].class, "valid": hexClip(s[0].b), "input": hexClip(st[0].b)})
			}
		}
	}
	r.Set("exhaustive", false)
	r.Set("alloc_bound", fmt.Sprintf("%d*maxElemSize*(len+1)+%d", allocK, allocC))
	r.Set("alloc_worst_case", chk.worstCase)
	r.Finish("exploration", rule, assume...)
}
