//go:build !race

package c16

import "syscall"

const raceBuild = false

// limitAddressSpace makes a runaway allocation fail fast (fatal "out of
// memory", attributed by the driver through the crashing stack) instead of
// thrashing the machine. Not possible under the race detector, whose shadow
// memory needs a huge address space.
func limitAddressSpace() {
	lim := syscall.Rlimit{Cur: 24 << 30, Max: 24 << 30}
	var old syscall.Rlimit
	if syscall.Getrlimit(syscall.RLIMIT_AS, &old) == nil && old.Max != 0 && old.Max < lim.Max {
		lim.Max = old.Max
		lim.Cur = min(lim.Cur, old.Max)
	}
	_ = syscall.Setrlimit(syscall.RLIMIT_AS, &lim)
}
