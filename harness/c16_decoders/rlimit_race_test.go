//go:build race

package c16

const raceBuild = true

func limitAddressSpace() {}
