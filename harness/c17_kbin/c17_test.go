// C17 — wire primitives encode and decode exactly.
//
// Monitor: reference encoders/decoders written from the Kafka protocol guide
// observe pkg/kbin's Append*/Len/decoders and Reader over boundary values,
// seeded random values, every strict prefix of each valid encoding and (in the
// thorough tier) every uint32. The private copy under pkg/kmsg/internal is
// compared with the public one on the current tree.
package c17

import (
	"bytes"
	"encoding/binary"
	"fmt"
	"math"
	"os"
	"runtime"
	"strings"
	"sync/atomic"
	"testing"

	"github.com/twmb/franz-go/pkg/kbin"

	"verifharness/internal/vh"
)

func refUvarint(u uint64) []byte {
	var b []byte
	for u >= 0x80 {
		b = append(b, byte(u)|0x80)
		u >>= 7
	}
	return append(b, byte(u))
}
func zz32(i int32) uint32 { return uint32((i << 1) ^ (i >> 31)) }
func zz64(i int64) uint64 { return uint64((i << 1) ^ (i >> 63)) }

// refDecode decodes an unsigned LEB128 of at most maxBytes bytes into bits
// bits. n>0: ok; n==0: short input; n<0: overlong/overflow.
func refDecode(in []byte, maxBytes int, bits uint) (uint64, int) {
	var x uint64
	for i := 0; i < maxBytes; i++ {
		if i >= len(in) {
			return 0, 0
		}
		b := in[i]
		if i == maxBytes-1 {
			// last permitted byte: no continuation, and only the bits that fit
			rem := bits - uint(7*i)
			if b&0x80 != 0 || uint64(b) >= 1<<rem {
				return 0, -(i + 1)
			}
		}
		x |= uint64(b&0x7f) << (7 * uint(i))
		if b&0x80 == 0 {
			return x, i + 1
		}
	}
	return 0, -maxBytes
}

// tight returns a copy of b whose capacity equals its length and which sits
// at the very end of its allocation, so any read past the input panics.
func tight(b []byte) []byte {
	c := make([]byte, len(b)+8)
	copy(c[8:], b)
	return c[8 : 8+len(b) : 8+len(b)]
}

type failer struct {
	r *vh.Run
	n atomic.Int64
}

func (f *failer) failf(sig string, format string, a ...any) {
	f.n.Add(1)
	f.r.Violation(sig, fmt.Sprintf(format, a...))
}

func checkU32(f *failer, u uint32) {
	want := refUvarint(uint64(u))
	var pre [3]byte
	got := kbin.AppendUvarint(pre[:0:3], u)
	if !bytes.Equal(got, want) {
		f.failf("AppendUvarint", "AppendUvarint(%d)=%x want %x", u, got, want)
	}
	if l := kbin.UvarintLen(u); l != len(want) {
		f.failf("UvarintLen", "UvarintLen(%d)=%d want %d", u, l, len(want))
	}
	if v, n := kbin.Uvarint(tight(want)); v != u || n != len(want) {
		f.failf("Uvarint", "Uvarint(%x)=(%d,%d) want (%d,%d)", want, v, n, u, len(want))
	}
	// the same 32 bits as a signed zig-zag varint
	i := int32(u)
	wantI := refUvarint(uint64(zz32(i)))
	if got := kbin.AppendVarint(nil, i); !bytes.Equal(got, wantI) {
		f.failf("AppendVarint", "AppendVarint(%d)=%x want %x", i, got, wantI)
	}
	if l := kbin.VarintLen(i); l != len(wantI) {
		f.failf("VarintLen", "VarintLen(%d)=%d want %d", i, l, len(wantI))
	}
	if v, n := kbin.Varint(tight(wantI)); v != i || n != len(wantI) {
		f.failf("Varint", "Varint(%x)=(%d,%d) want (%d,%d)", wantI, v, n, i, len(wantI))
	}
}

func checkI64(f *failer, i int64) {
	want := refUvarint(zz64(i))
	if got := kbin.AppendVarlong(nil, i); !bytes.Equal(got, want) {
		f.failf("AppendVarlong", "AppendVarlong(%d)=%x want %x", i, got, want)
	}
	if l := kbin.VarlongLen(i); l != len(want) {
		f.failf("VarlongLen", "VarlongLen(%d)=%d want %d", i, l, len(want))
	}
	if v, n := kbin.Varlong(tight(want)); v != i || n != len(want) {
		f.failf("Varlong", "Varlong(%x)=(%d,%d) want (%d,%d)", want, v, n, i, len(want))
	}
	for k := 0; k < len(want); k++ {
		if v, n := kbin.Varlong(tight(want[:k])); n > 0 {
			f.failf("Varlong-short", "Varlong(%x) (prefix of %x) accepted: (%d,%d)", want[:k], want, v, n)
		}
		r := kbin.Reader{Src: tight(want[:k])}
		r.Varlong()
		if r.Complete() == nil {
			f.failf("Reader.Varlong-short", "Reader.Varlong on %x (prefix of %x) did not fail", want[:k], want)
		}
	}
	r := kbin.Reader{Src: tight(append(append([]byte{}, want...), 0xAA))}
	if v := r.Varlong(); v != i || len(r.Src) != 1 || r.Complete() != nil {
		f.failf("Reader.Varlong", "Reader.Varlong(%x)=%d rest=%d", want, v, len(r.Src))
	}
	// fixed-width big endian
	var be [8]byte
	binary.BigEndian.PutUint64(be[:], uint64(i))
	if got := kbin.AppendInt64(nil, i); !bytes.Equal(got, be[:]) {
		f.failf("AppendInt64", "AppendInt64(%d)=%x", i, got)
	}
	rr := kbin.Reader{Src: tight(be[:])}
	if v := rr.Int64(); v != i || rr.Complete() != nil || len(rr.Src) != 0 {
		f.failf("Reader.Int64", "Reader.Int64(%x)=%d", be, v)
	}
	fl := math.Float64frombits(uint64(i))
	if got := kbin.AppendFloat64(nil, fl); !bytes.Equal(got, be[:]) {
		f.failf("AppendFloat64", "AppendFloat64(bits %x)=%x", uint64(i), got)
	}
	rf := kbin.Reader{Src: tight(be[:])}
	if v := rf.Float64(); math.Float64bits(v) != uint64(i) {
		f.failf("Reader.Float64", "Reader.Float64(%x) bits=%x", be, math.Float64bits(v))
	}
	// narrower integers from the low bits
	i32, i16, u16, i8, u32 := int32(i), int16(i), uint16(i), int8(i), uint32(i)
	chk := func(name string, got []byte, want []byte) {
		if !bytes.Equal(got, want) {
			f.failf(name, "%s: got %x want %x", name, got, want)
		}
	}
	chk("AppendInt32", kbin.AppendInt32(nil, i32), be[4:])
	chk("AppendUint32", kbin.AppendUint32(nil, u32), be[4:])
	chk("AppendInt16", kbin.AppendInt16(nil, i16), be[6:])
	chk("AppendUint16", kbin.AppendUint16(nil, u16), be[6:])
	chk("AppendInt8", kbin.AppendInt8(nil, i8), be[7:])
	r32 := kbin.Reader{Src: tight(be[4:])}
	if v := r32.Int32(); v != i32 || r32.Complete() != nil {
		f.failf("Reader.Int32", "Reader.Int32(%x)=%d", be[4:], v)
	}
	ru32 := kbin.Reader{Src: tight(be[4:])}
	if v := ru32.Uint32(); v != u32 || ru32.Complete() != nil {
		f.failf("Reader.Uint32", "Reader.Uint32(%x)=%d", be[4:], v)
	}
	r16 := kbin.Reader{Src: tight(be[6:])}
	if v := r16.Int16(); v != i16 || r16.Complete() != nil {
		f.failf("Reader.Int16", "Reader.Int16(%x)=%d", be[6:], v)
	}
	ru16 := kbin.Reader{Src: tight(be[6:])}
	if v := ru16.Uint16(); v != u16 || ru16.Complete() != nil {
		f.failf("Reader.Uint16", "Reader.Uint16(%x)=%d", be[6:], v)
	}
	r8 := kbin.Reader{Src: tight(be[7:])}
	if v := r8.Int8(); v != i8 || r8.Complete() != nil {
		f.failf("Reader.Int8", "Reader.Int8(%x)=%d", be[7:], v)
	}
	rb := kbin.Reader{Src: tight(be[7:])}
	if v := rb.Bool(); v != (be[7] != 0) || rb.Complete() != nil {
		f.failf("Reader.Bool", "Reader.Bool(%x)=%v", be[7:], v)
	}
	// short fixed-width input always fails
	for k := 0; k < 8; k++ {
		sr := kbin.Reader{Src: tight(be[:k])}
		sr.Int64()
		if sr.Complete() == nil {
			f.failf("Reader.Int64-short", "Reader.Int64 on %d bytes ok", k)
		}
		if k < 4 {
			sr := kbin.Reader{Src: tight(be[:k])}
			sr.Int32()
			sr2 := kbin.Reader{Src: tight(be[:k])}
			sr2.Uint32()
			if sr.Complete() == nil || sr2.Complete() == nil {
				f.failf("Reader.Int32-short", "Reader.(U)Int32 on %d bytes ok", k)
			}
		}
		if k < 2 {
			sr := kbin.Reader{Src: tight(be[:k])}
			sr.Int16()
			sr2 := kbin.Reader{Src: tight(be[:k])}
			sr2.Uint16()
			if sr.Complete() == nil || sr2.Complete() == nil {
				f.failf("Reader.Int16-short", "Reader.(U)Int16 on %d bytes ok", k)
			}
		}
	}
}

// checkVarBytes feeds an arbitrary byte structure to the unrolled decoders
// and compares with the reference decoder (accept/reject class, value, n).
func checkVarBytes(f *failer, in []byte) (accepted bool) {
	wv, wn := refDecode(in, 5, 32)
	gv, gn := kbin.Uvarint(tight(in))
	switch {
	case wn > 0 && (gn != wn || uint64(gv) != wv):
		f.failf("Uvarint-bytes", "Uvarint(%x)=(%d,%d) want (%d,%d)", in, gv, gn, wv, wn)
	case wn == 0 && gn > 0:
		f.failf("Uvarint-short-accepted", "Uvarint(%x)=(%d,%d) but input is short", in, gv, gn)
	case wn < 0 && gn > 0:
		f.failf("Uvarint-overflow-accepted", "Uvarint(%x)=(%d,%d) but encoding is overlong/overflowing", in, gv, gn)
	}
	if wn > 0 {
		iv, in2 := kbin.Varint(tight(in))
		u := uint32(wv)
		wantI := int32(u>>1) ^ -int32(u&1)
		if iv != wantI || in2 != wn {
			f.failf("Varint-bytes", "Varint(%x)=(%d,%d) want (%d,%d)", in, iv, in2, wantI, wn)
		}
	}
	r := kbin.Reader{Src: tight(in)}
	rv := r.Uvarint()
	if wn > 0 {
		if r.Complete() != nil || uint64(rv) != wv || len(r.Src) != len(in)-wn {
			f.failf("Reader.Uvarint", "Reader.Uvarint(%x)=%d rest %d err %v; want %d rest %d", in, rv, len(r.Src), r.Complete(), wv, len(in)-wn)
		}
	} else if r.Complete() == nil {
		f.failf("Reader.Uvarint-bad-accepted", "Reader.Uvarint(%x) ok", in)
	}
	lv, ln := refDecode(in, 10, 64)
	glv, gln := kbin.Varlong(tight(in))
	switch {
	case ln > 0:
		want := int64(lv>>1) ^ -int64(lv&1)
		if gln != ln || glv != want {
			f.failf("Varlong-bytes", "Varlong(%x)=(%d,%d) want (%d,%d)", in, glv, gln, want, ln)
		}
	case gln > 0:
		f.failf("Varlong-bad-accepted", "Varlong(%x)=(%d,%d) but ref says n=%d", in, glv, gln, ln)
	}
	return wn > 0
}

func strp(s string) *string { return &s }

// checkLenPrefixed round-trips strings / bytes / array lengths through every
// length-prefix flavour and tries every strict prefix.
func checkLenPrefixed(f *failer, payload []byte) {
	s := string(payload)
	n := len(payload)
	type tc struct {
		name string
		enc  []byte
		want []byte // reference encoding
		dec  func(r *kbin.Reader) (ok bool)
	}
	be16 := func(v int) []byte { return []byte{byte(v >> 8), byte(v)} }
	be32 := func(v int) []byte { return []byte{byte(v >> 24), byte(v >> 16), byte(v >> 8), byte(v)} }
	cat := func(a ...[]byte) []byte { return bytes.Join(a, nil) }
	eqs := func(a string) bool { return a == s }
	eqb := func(a []byte) bool { return a != nil && bytes.Equal(a, payload) }
	var cases []tc
	if n <= math.MaxInt16 {
		cases = append(cases,
			tc{"String", kbin.AppendString(nil, s), cat(be16(n), payload), func(r *kbin.Reader) bool { return eqs(r.String()) }},
			tc{"UnsafeString", kbin.AppendString(nil, s), cat(be16(n), payload), func(r *kbin.Reader) bool { return eqs(r.UnsafeString()) }},
			tc{"NullableString", kbin.AppendNullableString(nil, &s), cat(be16(n), payload), func(r *kbin.Reader) bool { p := r.NullableString(); return p != nil && eqs(*p) }},
			tc{"UnsafeNullableString", kbin.AppendNullableString(nil, &s), cat(be16(n), payload), func(r *kbin.Reader) bool { p := r.UnsafeNullableString(); return p != nil && eqs(*p) }},
		)
	}
	cu := refUvarint(uint64(n + 1))
	zv := refUvarint(uint64(zz32(int32(n))))
	cases = append(cases,
		tc{"CompactString", kbin.AppendCompactString(nil, s), cat(cu, payload), func(r *kbin.Reader) bool { return eqs(r.CompactString()) }},
		tc{"UnsafeCompactString", kbin.AppendCompactString(nil, s), cat(cu, payload), func(r *kbin.Reader) bool { return eqs(r.UnsafeCompactString()) }},
		tc{"CompactNullableString", kbin.AppendCompactNullableString(nil, &s), cat(cu, payload), func(r *kbin.Reader) bool { p := r.CompactNullableString(); return p != nil && eqs(*p) }},
		tc{"UnsafeCompactNullableString", kbin.AppendCompactNullableString(nil, &s), cat(cu, payload), func(r *kbin.Reader) bool {
			p := r.UnsafeCompactNullableString()
			return p != nil && eqs(*p)
		}},
		tc{"Bytes", kbin.AppendBytes(nil, payload), cat(be32(n), payload), func(r *kbin.Reader) bool { return eqb(r.Bytes()) }},
		tc{"NullableBytes", kbin.AppendNullableBytes(nil, payload), cat(be32(n), payload), func(r *kbin.Reader) bool { return eqb(r.NullableBytes()) }},
		tc{"CompactBytes", kbin.AppendCompactBytes(nil, payload), cat(cu, payload), func(r *kbin.Reader) bool { return eqb(r.CompactBytes()) }},
		tc{"CompactNullableBytes", kbin.AppendCompactNullableBytes(nil, payload), cat(cu, payload), func(r *kbin.Reader) bool { return eqb(r.CompactNullableBytes()) }},
		tc{"VarintBytes", kbin.AppendVarintBytes(nil, payload), cat(zv, payload), func(r *kbin.Reader) bool { return eqb(r.VarintBytes()) }},
		tc{"VarintString", kbin.AppendVarintString(nil, s), cat(zv, payload), func(r *kbin.Reader) bool { return eqs(r.VarintString()) }},
		tc{"UnsafeVarintString", kbin.AppendVarintString(nil, s), cat(zv, payload), func(r *kbin.Reader) bool { return eqs(r.UnsafeVarintString()) }},
		// array length prefixes: n elements need at least n following bytes
		tc{"ArrayLen", cat(kbin.AppendArrayLen(nil, n), payload), cat(be32(n), payload), func(r *kbin.Reader) bool { return int(r.ArrayLen()) == n && len(r.Span(n)) == n }},
		tc{"CompactArrayLen", cat(kbin.AppendCompactArrayLen(nil, n), payload), cat(cu, payload), func(r *kbin.Reader) bool { return int(r.CompactArrayLen()) == n && len(r.Span(n)) == n }},
		tc{"NullableArrayLen", cat(kbin.AppendNullableArrayLen(nil, n, false), payload), cat(be32(n), payload), func(r *kbin.Reader) bool { return int(r.ArrayLen()) == n && len(r.Span(n)) == n }},
		tc{"CompactNullableArrayLen", cat(kbin.AppendCompactNullableArrayLen(nil, n, false), payload), cat(cu, payload), func(r *kbin.Reader) bool { return int(r.CompactArrayLen()) == n && len(r.Span(n)) == n }},
	)
	for _, c := range cases {
		if !bytes.Equal(c.enc, c.want) {
			f.failf("enc-"+c.name, "%s encoding of %d-byte payload: got %x.. want %x..", c.name, n, head(c.enc), head(c.want))
			continue
		}
		r := kbin.Reader{Src: tight(cat(c.enc, []byte{0x5a}))}
		if ok := c.dec(&r); !ok || r.Complete() != nil || len(r.Src) != 1 {
			f.failf("dec-"+c.name, "%s decode of %d-byte payload failed: ok=%v err=%v rest=%d", c.name, n, ok, r.Complete(), len(r.Src))
		}
		// every strict prefix must be rejected (payload n>0 or the prefix cuts the length)
		step := 1
		if len(c.enc) > 64 {
			step = len(c.enc) / 32
		}
		for k := 0; k < len(c.enc); k += step {
			pr := kbin.Reader{Src: tight(c.enc[:k])}
			if p := vh.Catch(func() { c.dec(&pr) }); p != nil {
				f.failf("panic-"+c.name, "%s panicked on prefix %d/%d: %v", c.name, k, len(c.enc), p)
			} else if pr.Complete() == nil {
				f.failf("short-"+c.name, "%s accepted strict prefix %d of %d bytes", c.name, k, len(c.enc))
			}
		}
	}
}

func head(b []byte) []byte {
	if len(b) > 12 {
		return b[:12]
	}
	return b
}

func checkNulls(f *failer) {
	eq := func(name string, got, want []byte) {
		if !bytes.Equal(got, want) {
			f.failf("null-"+name, "%s: got %x want %x", name, got, want)
		}
	}
	eq("NullableString", kbin.AppendNullableString(nil, nil), []byte{0xff, 0xff})
	eq("CompactNullableString", kbin.AppendCompactNullableString(nil, nil), []byte{0})
	eq("NullableBytes", kbin.AppendNullableBytes(nil, nil), []byte{0xff, 0xff, 0xff, 0xff})
	eq("CompactNullableBytes", kbin.AppendCompactNullableBytes(nil, nil), []byte{0})
	eq("NullableArrayLen", kbin.AppendNullableArrayLen(nil, 0, true), []byte{0xff, 0xff, 0xff, 0xff})
	eq("CompactNullableArrayLen", kbin.AppendCompactNullableArrayLen(nil, 0, true), []byte{0})
	eq("Bool-true", kbin.AppendBool(nil, true), []byte{1})
	eq("Bool-false", kbin.AppendBool(nil, false), []byte{0})
	eq("empty-CompactString", kbin.AppendCompactString(nil, ""), []byte{1})
	eq("empty-NullableString", kbin.AppendNullableString(nil, strp("")), []byte{0, 0})
	r := kbin.Reader{Src: []byte{0xff, 0xff}}
	if r.NullableString() != nil || r.Complete() != nil {
		f.failf("null-dec-NullableString", "null string did not decode to nil")
	}
	r = kbin.Reader{Src: []byte{0}}
	if r.CompactNullableString() != nil || r.Complete() != nil {
		f.failf("null-dec-CompactNullableString", "null compact string did not decode to nil")
	}
	r = kbin.Reader{Src: []byte{0xff, 0xff, 0xff, 0xff}}
	if r.NullableBytes() != nil || r.Complete() != nil {
		f.failf("null-dec-NullableBytes", "null bytes did not decode to nil")
	}
	r = kbin.Reader{Src: []byte{0}}
	if r.CompactNullableBytes() != nil || r.Complete() != nil {
		f.failf("null-dec-CompactNullableBytes", "null compact bytes did not decode to nil")
	}
	// negative / oversize lengths are short input, never a panic
	for _, in := range [][]byte{{0x80, 0x00}, {0xff, 0xfe}, {0x7f, 0xff, 0xff, 0xff}, {0x80, 0, 0, 0}, {0xff, 0xff, 0xff, 0xfe}, {0xff, 0xff, 0xff, 0xff, 0x0f}, {0xfe, 0xff, 0xff, 0xff, 0x0f}} {
		for name, fn := range map[string]func(r *kbin.Reader){
			"String": func(r *kbin.Reader) { r.String() }, "Bytes": func(r *kbin.Reader) { r.Bytes() }, "NullableBytes": func(r *kbin.Reader) { r.NullableBytes() },
			"CompactBytes": func(r *kbin.Reader) { r.CompactBytes() }, "CompactString": func(r *kbin.Reader) { r.CompactString() }, "ArrayLen": func(r *kbin.Reader) { r.ArrayLen() },
			"CompactArrayLen": func(r *kbin.Reader) { r.CompactArrayLen() }, "VarintBytes": func(r *kbin.Reader) { r.VarintBytes() }, "VarintArrayLen": func(r *kbin.Reader) { r.VarintArrayLen() },
			"Span-neg": func(r *kbin.Reader) { r.Span(-1) }, "Uuid": func(r *kbin.Reader) { r.Uuid() },
		} {
			r := kbin.Reader{Src: tight(in)}
			if p := vh.Catch(func() { fn(&r) }); p != nil {
				f.failf("panic-hostile-"+name, "%s panicked on %x: %v", name, in, p)
			}
		}
	}
	var u [16]byte
	for i := range u {
		u[i] = byte(i*17 + 1)
	}
	eq("Uuid", kbin.AppendUuid(nil, u), u[:])
	r = kbin.Reader{Src: tight(u[:])}
	if r.Uuid() != u || r.Complete() != nil {
		f.failf("dec-Uuid", "uuid round trip failed")
	}
	for k := 0; k < 16; k++ {
		r = kbin.Reader{Src: tight(u[:k])}
		r.Uuid()
		if r.Complete() == nil {
			f.failf("short-Uuid", "uuid on %d bytes accepted", k)
		}
	}
}

func checkPrivateCopy(f *failer, r *vh.Run) {
	body := func(p string) (string, error) {
		raw, err := os.ReadFile(p)
		if err != nil {
			return "", err
		}
		s := string(raw)
		i := strings.Index(s, "\npackage ")
		if i < 0 {
			return "", fmt.Errorf("no package clause in %s", p)
		}
		s = s[i+1:]
		return s[strings.Index(s, "\n")+1:], nil
	}
	a, err1 := body(vh.Repo() + "/pkg/kbin/primitives.go")
	b, err2 := body(vh.Repo() + "/pkg/kmsg/internal/kbin/primitives.go")
	if err1 != nil || err2 != nil {
		r.Inconclusive(fmt.Sprintf("cannot read primitives sources: %v %v", err1, err2))
		return
	}
	r.Count("private_copy_bytes_compared", len(a))
	if a != b {
		al, bl := strings.Split(a, "\n"), strings.Split(b, "\n")
		for i := 0; i < len(al) && i < len(bl); i++ {
			if al[i] != bl[i] {
				f.failf("private-copy-differs", "pkg/kmsg/internal/kbin/primitives.go differs from pkg/kbin/primitives.go at body line %d: %q vs %q", i+1, bl[i], al[i])
				return
			}
		}
		f.failf("private-copy-differs", "private copy differs in length: %d vs %d lines", len(bl), len(al))
	}
}

func TestCheck(t *testing.T) {
	r := vh.Start(t, "C17")
	f := &failer{r: r}
	workers := runtime.NumCPU()

	checkNulls(f)
	checkPrivateCopy(f, r)

	// boundary values
	var b32 []uint32
	var b64 []int64
	for sh := 0; sh <= 32; sh++ {
		for d := -3; d <= 3; d++ {
			b32 = append(b32, uint32((uint64(1)<<uint(sh))+uint64(d)))
		}
	}
	for sh := 0; sh <= 63; sh++ {
		for d := int64(-3); d <= 3; d++ {
			v := int64(uint64(1)<<uint(sh)) + d
			b64 = append(b64, v, -v)
		}
	}
	b64 = append(b64, math.MaxInt64, math.MinInt64, 0, -1)
	for _, u := range b32 {
		checkU32(f, u)
		r.Distinct(fmt.Sprintf("u32-len%d", len(refUvarint(uint64(u)))))
	}
	for _, i := range b64 {
		checkI64(f, i)
		r.Distinct(fmt.Sprintf("i64-len%d", len(refUvarint(zz64(i)))))
	}
	r.Eval(len(b32) + len(b64))
	r.Sample(map[string]any{"kind": "uvarint boundary", "value": b32[50], "encoding": fmt.Sprintf("%x", refUvarint(uint64(b32[50])))})

	// every control-bit structure of 1..6 bytes (10..11 for varlong) with boundary payload bits
	var structs int
	pay := []byte{0x00, 0x01, 0x0f, 0x10, 0x7f}
	for n := 1; n <= 11; n++ {
		if n > 6 && n < 10 {
			continue
		}
		for cont := 0; cont < 1<<uint(n); cont++ {
			if n >= 10 && cont != (1<<uint(n))-1 && cont != (1<<uint(n-1))-1 && cont != (1<<uint(n-2))-1 {
				continue // for long inputs only the all-continuation shapes are interesting
			}
			for _, p := range pay {
				for _, last := range pay {
					in := make([]byte, n)
					for i := range in {
						in[i] = p
						if i == n-1 {
							in[i] = last
						}
						if cont&(1<<uint(i)) != 0 {
							in[i] |= 0x80
						}
					}
					acc := checkVarBytes(f, in)
					structs++
					r.Distinct(fmt.Sprintf("struct-n%d-c%x-acc%v", n, cont, acc))
				}
			}
		}
	}
	r.Eval(structs)
	r.Count("byte_structures", structs)
	r.Sample(map[string]any{"kind": "5-byte overflow structure", "input": "ffffffff10", "ref": "rejected"})

	// length-prefixed types over payload sizes around every prefix-length boundary
	sizes := []int{0, 1, 2, 62, 63, 64, 126, 127, 128, 129, 255, 256, 8190, 8191, 8192, 16382, 16383, 16384, 32766, 32767, 32768, 65535, 65536, 1 << 20}
	rng := r.Rand("payload", 0)
	for _, n := range sizes {
		p := make([]byte, n)
		for i := range p {
			p[i] = byte(rng.Uint32())
		}
		checkLenPrefixed(f, p)
		r.Distinct(fmt.Sprintf("lenprefix-%d", n))
	}
	r.Eval(len(sizes) * 20)

	// random 32- and 64-bit values
	nrand := r.Pick(4_000_000, 400_000_000)
	per := nrand / workers
	vh.Parallel(workers, workers, func(w int) {
		rng := r.Rand("rand", w)
		for k := 0; k < per; k++ {
			checkU32(f, rng.Uint32()>>(rng.Uint32()%32))
			checkI64(f, int64(rng.Uint64()>>(rng.Uint64()%64))*(1-2*int64(rng.Uint32()&1)))
			if f.n.Load() > 0 && k%4096 == 0 {
				return
			}
		}
	})
	r.Eval(2 * per * workers)
	r.Count("random_values", 2*per*workers)
	r.Sample(map[string]any{"kind": "random", "count_per_worker": per, "workers": workers})

	exhaustive := false
	if r.Thorough() && f.n.Load() == 0 {
		// every uint32
		chunk := uint64(1) << 22
		nchunks := int((uint64(1) << 32) / chunk)
		vh.Parallel(nchunks, workers, func(c int) {
			if f.n.Load() > 0 {
				return
			}
			lo := uint64(c) * chunk
			for u := lo; u < lo+chunk; u++ {
				checkU32(f, uint32(u))
			}
		})
		r.Eval(1 << 32)
		r.Count("exhaustive_uint32", 1<<32)
		exhaustive = f.n.Load() == 0
	}
	r.Set("exhaustive", false)
	r.Set("exhaustive_subdomains", map[string]bool{"uvarint/varint encode+len+decode over every uint32": exhaustive, "1..6-byte control-bit structures x boundary payloads": true})

	r.Finish("exploration",
		"cases: boundary values (2^k±3), every continuation-bit structure of 1-6 and 10-11 bytes x boundary payload bits, length-prefixed payloads of sizes around every prefix-length boundary with every strict prefix (sampled for big payloads), seeded random 32/64-bit values, thorough: every uint32. Non-trivial: every value; distinct by encoded-length class / byte-structure class / payload size",
		"reference encoders/decoders in the harness are written from the Kafka protocol guide (unsigned LEB128, zig-zag, big-endian) and are trusted",
		"'overlong' is read as: more continuation bytes than a 32-bit (5) / 64-bit (10) value can need, or payload bits beyond the width; zero-padded but in-range encodings are not required to be rejected",
	)
}
