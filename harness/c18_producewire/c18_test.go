// C18 — produce requests encode the batched records within size limits.
//
// Monitor: produce requests are observed AS WRITTEN ON THE WIRE, by a scripted
// broker (internal/rawkafka; every produce version 0-13, arbitrary
// BrokerMaxWriteBytes / ProducerBatchMaxBytes) and by a faultnet tap in front of
// kfake (v3-v13, idempotent and transactional incl. KIP-890 part 2). Each frame
// is decoded with kmsg and its record bytes with the independent reference
// codec internal/reflog (own CRC tables, own varints, C codecs), then compared
// with what the application produced: one producing goroutine per partition
// issues records with unique ids, so the per-partition produce order is known.
package c18

import (
	"bytes"
	"context"
	"fmt"
	"math/rand/v2"
	"runtime"
	"sort"
	"strings"
	"sync"
	"testing"
	"time"

	"github.com/twmb/franz-go/pkg/kfake"
	"github.com/twmb/franz-go/pkg/kgo"
	"github.com/twmb/franz-go/pkg/kmsg"
	"github.com/twmb/franz-go/pkg/kversion"

	"verifharness/internal/e2e"
	"verifharness/internal/faultnet"
	"verifharness/internal/rawkafka"
	"verifharness/internal/reflog"
	"verifharness/internal/vh"
)

var codecNames = []string{"none", "gzip", "snappy", "lz4", "zstd"}

func codecOpt(c int) kgo.CompressionCodec {
	switch c {
	case 1:
		return kgo.GzipCompression()
	case 2:
		return kgo.SnappyCompression()
	case 3:
		return kgo.Lz4Compression()
	case 4:
		return kgo.ZstdCompression()
	}
	return kgo.NoCompression()
}

type plan struct {
	Idx        int      `json:"case"`
	Backend    string   `json:"backend"` // "scripted" or "kfake"
	Version    int16    `json:"produce_version"`
	Prefs      []int    `json:"codec_preference"`
	MaxWrite   int32    `json:"broker_max_write_bytes"`
	MaxBatch   int32    `json:"producer_batch_max_bytes"`
	Topics     []string `json:"-"`
	TopicLens  []int    `json:"topic_name_lengths"`
	Partitions int32    `json:"partitions_per_topic"`
	ClientID   string   `json:"-"`
	ClientIDL  int      `json:"client_id_length"`
	TxnID      string   `json:"-"`
	TxnIDL     int      `json:"transactional_id_length"`
	Mode       string   `json:"mode"` // "plain" (no idempotence), "idempotent", "txn"
	Acks       int16    `json:"acks"`
	LingerMS   int      `json:"linger_ms"`
	PerPart    int      `json:"records_per_partition"`
	SizeClass  int      `json:"size_class"`
	Rounds     int      `json:"rounds"`
	Packed     bool     `json:"packed"` // long linger + flush: every partition's batch is ready when requests are cut
}

// expectedCodec is the kgo rule: the first codec of the preference list,
// skipping zstd below produce v7; a batch may still be left uncompressed.
func (p *plan) expectedCodec() int {
	for _, c := range p.Prefs {
		if c == 4 && p.Version < 7 {
			continue
		}
		return c
	}
	return 0
}

var boundarySizes = []int{0, 1, 63, 64, 127, 128, 8191, 8192, 16383, 16384}

func name(rng *rand.Rand, n int, prefix string) string {
	var sb strings.Builder
	sb.WriteString(prefix)
	for sb.Len() < n {
		sb.WriteByte("abcdefghijklmnopqrstuvwxyz0123456789"[rng.IntN(36)])
	}
	return sb.String()[:max(n, len(prefix))]
}

func genPlan(rng *rand.Rand, idx int, backend string, version int16, codec int) plan {
	p := plan{Idx: idx, Backend: backend, Version: version}
	p.Prefs = []int{codec}
	if rng.IntN(3) == 0 { // a preference list: zstd first exercises the pre-v7 skip
		p.Prefs = []int{4, codec}
		if rng.IntN(2) == 0 {
			p.Prefs = append(p.Prefs, rng.IntN(5))
		}
	}
	p.MaxWrite = []int32{1024, 1300, 2048, 3000, 4096, 8192, 20000, 65536, 1 << 20}[rng.IntN(9)]
	switch rng.IntN(4) {
	case 0:
		p.MaxBatch = 512
	case 1:
		p.MaxBatch = 512 + int32(rng.IntN(600))
	case 2:
		p.MaxBatch = p.MaxWrite / 2
	default:
		p.MaxBatch = p.MaxWrite
	}
	if p.MaxBatch < 512 {
		p.MaxBatch = 512
	}
	if p.MaxBatch > p.MaxWrite {
		p.MaxBatch = p.MaxWrite
	}
	nt := 1 + rng.IntN(5)
	for i := 0; i < nt; i++ {
		l := []int{4, 10, 40, 120, 249}[rng.IntN(5)]
		p.Topics = append(p.Topics, name(rng, l, fmt.Sprintf("t%d-", i)))
		p.TopicLens = append(p.TopicLens, l)
	}
	p.Partitions = int32([]int{1, 2, 4, 8, 16, 40}[rng.IntN(6)])
	p.ClientIDL = []int{0, 1, 30, 126, 127, 256}[rng.IntN(6)]
	p.ClientID = name(rng, p.ClientIDL, "")
	p.Mode = "idempotent"
	p.Acks = -1
	switch {
	case version < 3:
		p.Mode = "plain"
	case rng.IntN(4) == 0:
		p.Mode = "plain"
	case rng.IntN(3) == 0 && (version <= 11 || backend == "kfake"):
		p.Mode = "txn"
		p.TxnIDL = []int{1, 20, 126, 127, 128, 400}[rng.IntN(6)]
		p.TxnID = name(rng, p.TxnIDL, fmt.Sprintf("x%d-", idx))
		p.TxnIDL = len(p.TxnID)
	}
	if p.Mode == "plain" {
		p.Acks = []int16{-1, 1, 0}[rng.IntN(3)]
		if backend == "kfake" && p.Acks == 0 {
			p.Acks = 1 // without responses there is no point at which the tap is known to have seen every frame
		}
	}
	p.LingerMS = 2 + rng.IntN(8)
	p.PerPart = 2 + rng.IntN(20)
	p.SizeClass = rng.IntN(4)
	p.Rounds = 1 + rng.IntN(3)
	if len(p.Topics)*int(p.Partitions)*p.PerPart*p.Rounds > 2500 {
		p.PerPart = 2 + rng.IntN(4)
	}
	return p
}

// packedPlan: many partitions with one small batch each, all buffered before
// the first request is cut (long linger, then Flush), so requests are filled
// greedily right up to BrokerMaxWriteBytes.
func packedPlan(rng *rand.Rand, idx int, version int16, codec int) plan {
	p := genPlan(rng, idx, "scripted", version, codec)
	p.Packed = true
	p.Prefs = []int{codec}
	p.MaxWrite = []int32{1024, 1100, 1300, 1500, 2048, 3000}[rng.IntN(6)]
	p.MaxBatch = 512
	p.Partitions = int32([]int{16, 40, 60}[rng.IntN(3)])
	if len(p.Topics) > 3 {
		p.Topics, p.TopicLens = p.Topics[:3], p.TopicLens[:3]
	}
	for i := range p.Topics {
		if len(p.Topics[i]) > 40 {
			p.Topics[i], p.TopicLens[i] = p.Topics[i][:10], 10
		}
	}
	if p.ClientIDL > 30 {
		p.ClientIDL = 30
		p.ClientID = p.ClientID[:30]
	}
	if p.TxnIDL > 20 {
		p.TxnID, p.TxnIDL = p.TxnID[:20], 20
	}
	if p.Acks == 0 {
		p.Acks = 1
	}
	p.LingerMS = 5000
	p.PerPart = 1
	p.SizeClass = 4
	p.Rounds = 3 + rng.IntN(4)
	return p
}

type tp struct {
	T string
	P int32
}

type sent struct {
	ID      string
	Key     []byte
	Value   []byte
	Headers []kgo.RecordHeader
	TSMilli int64
	Err     error
	PID     int64
	Epoch   int16
	Done    bool
}

type wireBatch struct {
	FrameSeq int64
	Version  int16
	Raw      []byte
}

type frameObs struct {
	Seq      int64
	Version  int16
	FrameLen int
	ClientID *string
	Req      *kmsg.ProduceRequest
	DecErr   error
}

// workload produces the records of p through cl; returns what was sent per partition.
func workload(p *plan, cl *kgo.Client, seed uint64) (map[tp][]*sent, *sync.Mutex) {
	out := map[tp][]*sent{}
	mu := new(sync.Mutex)
	base := int64(1_700_000_000_000)
	for round := 0; round < p.Rounds; round++ {
		if p.Mode == "txn" {
			if err := cl.BeginTransaction(); err != nil {
				return out, mu
			}
		}
		var wg sync.WaitGroup
		for ti, t := range p.Topics {
			for part := int32(0); part < p.Partitions; part++ {
				wg.Add(1)
				go func(ti int, t string, part int32) {
					defer wg.Done()
					rng := rand.New(rand.NewPCG(seed, uint64(p.Idx)<<32|uint64(ti)<<20|uint64(part)<<8|uint64(round)))
					n := 1 + rng.IntN(p.PerPart)
					for i := 0; i < n; i++ {
						s := &sent{ID: fmt.Sprintf("%d/%d/%d/%d|", ti, part, round, i)}
						// value = id + padding up to a boundary size
						var vlen int
						switch p.SizeClass {
						case 0:
							vlen = boundarySizes[rng.IntN(6)]
						case 1:
							vlen = boundarySizes[rng.IntN(len(boundarySizes))]
						case 2:
							vlen = rng.IntN(300)
						case 4:
							vlen = rng.IntN(90)
						default:
							vlen = boundarySizes[rng.IntN(6)] + rng.IntN(3) - 1
						}
						if !p.Packed && rng.IntN(5) == 0 {
							vlen = int(p.MaxBatch) - 70 - rng.IntN(60) // near the batch limit
						}
						if vlen < len(s.ID) {
							vlen = len(s.ID)
						}
						s.Value = make([]byte, vlen)
						copy(s.Value, s.ID)
						fill := byte('a' + rng.IntN(26))
						for k := len(s.ID); k < vlen; k++ {
							if p.SizeClass == 2 {
								s.Value[k] = byte(rng.Uint32()) // incompressible
							} else {
								s.Value[k] = fill
							}
						}
						switch rng.IntN(6) {
						case 0: // null key
						case 1:
							s.Key = []byte{}
						default:
							s.Key = bytes.Repeat([]byte{'k'}, boundarySizes[rng.IntN(6)])
						}
						if p.Version >= 3 {
							for h := rng.IntN(4); h > 0; h-- {
								hd := kgo.RecordHeader{Key: strings.Repeat("h", boundarySizes[rng.IntN(6)])}
								if rng.IntN(4) != 0 {
									hd.Value = bytes.Repeat([]byte{'v'}, boundarySizes[rng.IntN(6)])
								}
								s.Headers = append(s.Headers, hd)
							}
						}
						s.TSMilli = base + int64(rng.IntN(4000)) - 1000 + int64(i)
						if rng.IntN(8) == 0 {
							// backfilled / far-future records: timestamp deltas at the width
							// boundaries of the varlong that carries them (a record at the Unix
							// epoch next to a current one is a 41-bit delta)
							deltas := []int64{1<<31 - 1, 1 << 31, 1<<34 - 1, 1 << 34, 1 << 35, 1 << 40}
							d := deltas[rng.IntN(len(deltas))]
							switch rng.IntN(3) {
							case 0:
								s.TSMilli = base - d
							case 1:
								s.TSMilli = base + d
							default:
								s.TSMilli = int64(rng.IntN(2)) // the epoch itself, or 1 ms after
							}
						}
						rec := &kgo.Record{Topic: t, Partition: part, Key: s.Key, Value: s.Value, Headers: s.Headers, Timestamp: time.UnixMilli(s.TSMilli)}
						mu.Lock()
						out[tp{t, part}] = append(out[tp{t, part}], s)
						mu.Unlock()
						cl.Produce(context.Background(), rec, func(r *kgo.Record, err error) {
							mu.Lock()
							s.Err, s.PID, s.Epoch, s.Done = err, r.ProducerID, r.ProducerEpoch, true
							mu.Unlock()
						})
						if !p.Packed && rng.IntN(8) == 0 {
							time.Sleep(time.Duration(rng.IntN(3000)) * time.Microsecond)
						}
					}
				}(ti, t, part)
			}
		}
		wg.Wait()
		flushWait := 15 * time.Second
		if p.Version < 3 {
			flushWait = 4 * time.Second // wedge-prone (see judge): do not wait long
		}
		ctx, cancel := context.WithTimeout(context.Background(), flushWait)
		cl.Flush(ctx)
		if p.Mode == "txn" {
			cl.EndTransaction(ctx, kgo.TryCommit)
		}
		cancel()
	}
	return out, mu
}

func (p *plan) clientOpts() []kgo.Opt {
	tab := kversion.Stable()
	tab.SetMaxKeyVersion(0, p.Version)
	var prefs []kgo.CompressionCodec
	for _, c := range p.Prefs {
		prefs = append(prefs, codecOpt(c))
	}
	o := []kgo.Opt{
		kgo.MaxVersions(tab), kgo.DisableClientMetrics(),
		kgo.BrokerMaxWriteBytes(p.MaxWrite), kgo.ProducerBatchMaxBytes(p.MaxBatch),
		kgo.ProducerBatchCompression(prefs...), kgo.ProducerLinger(time.Duration(p.LingerMS) * time.Millisecond),
		kgo.RecordPartitioner(kgo.ManualPartitioner()), kgo.MaxBufferedRecords(1 << 20),
		kgo.RequestTimeoutOverhead(20 * time.Second),
	}
	if p.ClientIDL > 0 {
		o = append(o, kgo.ClientID(p.ClientID))
	}
	switch p.Mode {
	case "plain":
		acks := kgo.AllISRAcks()
		if p.Acks == 1 {
			acks = kgo.LeaderAck()
		} else if p.Acks == 0 {
			acks = kgo.NoAck()
		}
		o = append(o, kgo.DisableIdempotentWrite(), kgo.RequiredAcks(acks))
	case "txn":
		o = append(o, kgo.TransactionalID(p.TxnID))
	}
	return o
}

// ---------------------------------------------------------------------------
// scripted backend

func runScripted(r *vh.Run, p plan) (frames []frameObs, outRecs map[tp][]*sent, ok bool) {
	topics := map[string]int32{}
	byID := map[[16]byte]string{}
	for _, t := range p.Topics {
		topics[t] = p.Partitions
		byID[rawkafka.TopicID(t)] = t
	}
	var mu sync.Mutex
	next := map[tp]int64{}
	produce := func(b *rawkafka.Broker, req *rawkafka.Request) rawkafka.Reply {
		pr, _ := req.Req.(*kmsg.ProduceRequest)
		mu.Lock()
		frames = append(frames, frameObs{Seq: req.Seq, Version: req.Version, FrameLen: req.FrameLen, ClientID: req.ClientID, Req: pr, DecErr: req.DecodeErr})
		mu.Unlock()
		if pr == nil {
			return rawkafka.Reply{}.Close()
		}
		if pr.Acks == 0 {
			return rawkafka.Reply{}
		}
		resp := kmsg.NewPtrProduceResponse()
		for _, t := range pr.Topics {
			rt := kmsg.NewProduceResponseTopic()
			rt.Topic, rt.TopicID = t.Topic, t.TopicID
			nm := t.Topic
			if req.Version >= 13 {
				nm = byID[t.TopicID]
			}
			for _, pp := range t.Partitions {
				rp := kmsg.NewProduceResponseTopicPartition()
				rp.Partition = pp.Partition
				n := int64(1)
				if bs, _, err := reflog.DecodeBatchesOpts(pp.Records, reflog.DecodeOptions{SkipCRC: true}); err == nil {
					n = 0
					for _, b := range bs {
						n += int64(len(b.Records))
					}
				}
				mu.Lock()
				rp.BaseOffset = next[tp{nm, pp.Partition}]
				next[tp{nm, pp.Partition}] += n
				mu.Unlock()
				rt.Partitions = append(rt.Partitions, rp)
			}
			resp.Topics = append(resp.Topics, rt)
		}
		return rawkafka.Reply{}.Write(rawkafka.Respond(&req.Header, resp))
	}
	initPID := func(b *rawkafka.Broker, req *rawkafka.Request) rawkafka.Reply {
		resp := kmsg.NewPtrInitProducerIDResponse()
		resp.ProducerID, resp.ProducerEpoch = 7000+int64(p.Idx), 0
		return rawkafka.Reply{}.Write(rawkafka.Respond(&req.Header, resp))
	}
	coord := func(b *rawkafka.Broker, req *rawkafka.Request) rawkafka.Reply {
		fr, ok := req.Req.(*kmsg.FindCoordinatorRequest)
		if !ok {
			return rawkafka.Reply{}.Close()
		}
		resp := kmsg.NewPtrFindCoordinatorResponse()
		resp.NodeID, resp.Host, resp.Port = b.NodeID(), b.Host(), b.Port()
		for _, k := range fr.CoordinatorKeys {
			c := kmsg.NewFindCoordinatorResponseCoordinator()
			c.Key, c.NodeID, c.Host, c.Port = k, b.NodeID(), b.Host(), b.Port()
			resp.Coordinators = append(resp.Coordinators, c)
		}
		return rawkafka.Reply{}.Write(rawkafka.Respond(&req.Header, resp))
	}
	addParts := func(b *rawkafka.Broker, req *rawkafka.Request) rawkafka.Reply {
		ar, ok := req.Req.(*kmsg.AddPartitionsToTxnRequest)
		if !ok {
			return rawkafka.Reply{}.Close()
		}
		resp := kmsg.NewPtrAddPartitionsToTxnResponse()
		for _, t := range ar.Topics {
			rt := kmsg.NewAddPartitionsToTxnResponseTopic()
			rt.Topic = t.Topic
			for _, pp := range t.Partitions {
				rp := kmsg.NewAddPartitionsToTxnResponseTopicPartition()
				rp.Partition = pp
				rt.Partitions = append(rt.Partitions, rp)
			}
			resp.Topics = append(resp.Topics, rt)
		}
		for _, tx := range ar.Transactions {
			rx := kmsg.NewAddPartitionsToTxnResponseTransaction()
			rx.TransactionalID = tx.TransactionalID
			for _, t := range tx.Topics {
				rt := kmsg.NewAddPartitionsToTxnResponseTransactionTopic()
				rt.Topic = t.Topic
				for _, pp := range t.Partitions {
					rp := kmsg.NewAddPartitionsToTxnResponseTransactionTopicPartition()
					rp.Partition = pp
					rt.Partitions = append(rt.Partitions, rp)
				}
				rx.Topics = append(rx.Topics, rt)
			}
			resp.Transactions = append(resp.Transactions, rx)
		}
		return rawkafka.Reply{}.Write(rawkafka.Respond(&req.Header, resp))
	}
	b, err := rawkafka.New(rawkafka.Config{NodeID: 1, Topics: topics,
		Handlers: map[int16]rawkafka.Handler{0: produce, 22: initPID, 10: coord, 24: addParts}})
	if err != nil {
		r.Inconclusive("scripted broker: " + err.Error())
		return nil, nil, false
	}
	defer b.Close()
	cl, err := kgo.NewClient(append(p.clientOpts(), kgo.SeedBrokers(b.Addr()))...)
	if err != nil {
		r.Inconclusive(fmt.Sprintf("client (case %d): %v", p.Idx, err))
		return nil, nil, false
	}
	sentRecs, smu := workload(&p, cl, uint64(r.Seed))
	cl.Close()
	settle(sentRecs, smu.Lock, smu.Unlock)
	if !b.WaitConnsClosed(10 * time.Second) {
		r.Inconclusive(fmt.Sprintf("case %d: scripted broker connections did not drain", p.Idx))
		return nil, nil, false
	}
	mu.Lock()
	defer mu.Unlock()
	smu.Lock()
	defer smu.Unlock()
	return frames, sentRecs, true
}

// settle waits (bounded, real time) until every promise has fired; Close fails
// what is still buffered but its callbacks may still be running when it returns.
func settle(sentRecs map[tp][]*sent, lock func(), unlock func()) {
	deadline := time.Now().Add(5 * time.Second)
	for {
		pending := false
		lock()
		for _, ss := range sentRecs {
			for _, s := range ss {
				if !s.Done {
					pending = true
				}
			}
		}
		unlock()
		if !pending || time.Now().After(deadline) {
			return
		}
		time.Sleep(time.Millisecond)
	}
}

// ---------------------------------------------------------------------------
// oracle

func eqBytes(a, b []byte) bool { return (a == nil) == (b == nil) && bytes.Equal(a, b) }

func judge(r *vh.Run, p plan, frames []frameObs, sentRecs map[tp][]*sent, topicByID map[[16]byte]string) {
	fail := func(sig string, d map[string]any) {
		d["plan"] = p
		r.Violation(sig, d)
	}
	sort.Slice(frames, func(i, j int) bool { return frames[i].Seq < frames[j].Seq })
	// expected per partition: successfully promised records in produce order
	type cursor struct {
		exp     []*sent // every record produced to the partition, in produce order (failed ones included)
		at      int
		nextSeq int32
		pid     int64
		epoch   int16
		started bool
		last    []*sent // the records of the previous batch written for the partition
	}
	cur := map[tp]*cursor{}
	failed := 0
	for k, ss := range sentRecs {
		c := &cursor{}
		for _, s := range ss {
			if !s.Done && p.Version < 3 {
				// produce v0-v2: a message set that outgrew the request limit is never sent and the sink spins
				// (same accounting defect as the oversized message sets; a liveness matter outside this property)
				r.Count("wedged_cases_produce_v0_v2", 1)
				return
			}
			if !s.Done {
				r.Inconclusive(fmt.Sprintf("case %d: a record promise did not fire (%s v%d %s acks %d)", p.Idx, p.Backend, p.Version, p.Mode, p.Acks))
				return
			}
			if s.Err != nil {
				failed++
			}
			c.exp = append(c.exp, s)
		}
		cur[k] = c
	}
	r.Count("records_failed_before_write", failed)
	wantCodec := p.expectedCodec()
	for _, f := range frames {
		r.Eval(1)
		base := map[string]any{"frame_len": f.FrameLen, "version": f.Version}
		if f.Version != p.Version {
			// the version is C21's business; judge the frame at the version it has
			r.Count("frames_at_other_version", 1)
		}
		if int64(f.FrameLen) > int64(p.MaxWrite) {
			nparts := 0
			if f.Req != nil {
				for _, t := range f.Req.Topics {
					nparts += len(t.Partitions)
				}
				base["topics"], base["partitions"] = len(f.Req.Topics), nparts
			}
			base["over_by"] = f.FrameLen - int(p.MaxWrite)
			sig := "produce request larger than BrokerMaxWriteBytes"
			if f.Version >= 9 {
				sig += " (flexible version)"
			}
			fail(sig, base)
		}
		if f.Req == nil {
			base["err"] = fmt.Sprint(f.DecErr)
			fail("written produce request does not decode with kmsg at its header version", base)
			continue
		}
		if p.Backend == "scripted" {
			switch {
			case p.ClientIDL == 0 && f.ClientID != nil && *f.ClientID != "kgo":
				fail("client id on the wire differs from the configured one", base)
			case p.ClientIDL > 0 && (f.ClientID == nil || *f.ClientID != p.ClientID):
				fail("client id on the wire differs from the configured one", base)
			}
		}
		if f.Version >= 3 {
			switch {
			case p.Mode == "txn" && (f.Req.TransactionID == nil || *f.Req.TransactionID != p.TxnID):
				fail("transactional id on the wire differs from the configured one", base)
			case p.Mode != "txn" && f.Req.TransactionID != nil:
				fail("transactional id on the wire although none configured", base)
			}
		}
		if f.Req.Acks != p.Acks {
			base["acks"] = f.Req.Acks
			fail("acks on the wire differ from the configured ones", base)
		}
		nparts, near := 0, false
		seen := map[tp]bool{}
		for _, t := range f.Req.Topics {
			tname := t.Topic
			if f.Version >= 13 {
				tname = topicByID[t.TopicID]
			}
			for _, pp := range t.Partitions {
				nparts++
				k := tp{tname, pp.Partition}
				d := map[string]any{"frame_len": f.FrameLen, "version": f.Version, "topic": tname, "partition": pp.Partition, "batch_bytes": len(pp.Records)}
				c := cur[k]
				if c == nil {
					fail("produce request names a partition the application did not produce to", d)
					continue
				}
				if seen[k] {
					fail("partition appears twice in one produce request", d)
				}
				seen[k] = true
				if int64(len(pp.Records)) > int64(p.MaxBatch) {
					d["over_by"] = len(pp.Records) - int(p.MaxBatch)
					if f.Version < 3 {
						fail("message set larger than ProducerBatchMaxBytes (produce v0-v2)", d)
					} else {
						fail("record batch larger than ProducerBatchMaxBytes", d)
					}
				}
				if float64(len(pp.Records)) >= 0.95*float64(p.MaxBatch) {
					near = true
				}
				bs, consumed, err := reflog.DecodeBatches(pp.Records)
				if err != nil || consumed != len(pp.Records) {
					d["err"], d["consumed"] = fmt.Sprint(err), consumed
					fail("partition record bytes do not decode in the reference decoder", d)
					continue
				}
				var recs []reflog.Record
				var hd reflog.Batch
				wantMagic := int8(2)
				if f.Version < 3 {
					wantMagic = int8(f.Version >> 1)
				}
				switch {
				case len(bs) == 0:
					fail("partition carries no batch", d)
					continue
				case f.Version >= 3 && len(bs) != 1:
					d["batches"] = len(bs)
					fail("partition carries more than one record batch", d)
					continue
				}
				hd = bs[0]
				for i, b := range bs {
					if b.Magic != wantMagic {
						d["magic"] = b.Magic
						fail("batch magic does not match the produce version", d)
					}
					if f.Version < 3 && b.Codec != 0 && len(bs) != 1 {
						fail("compressed message set is not a single wrapper message", d)
					}
					if f.Version < 3 && b.Codec == 0 && b.WrapperOffset != int64(i) {
						d["offset"] = b.WrapperOffset
						fail("message set offsets are not 0..n-1", d)
					}
					recs = append(recs, b.Records...)
				}
				n := len(recs)
				d["records"] = n
				if hd.Codec != 0 && hd.Codec != wantCodec {
					d["codec"], d["want_codec"] = hd.Codec, wantCodec
					fail("batch compressed with a codec other than the configured preference", d)
				}
				r.Count("batches_codec_"+codecNames[hd.Codec], 1)
				if f.Version >= 3 {
					switch {
					case hd.BaseOffset != 0:
						fail("BaseOffset of a produced batch is not 0", d)
					case int(hd.LastOffsetDelta) != n-1 || int(hd.NumRecords) != n:
						d["last_offset_delta"], d["num_records"] = hd.LastOffsetDelta, hd.NumRecords
						fail("LastOffsetDelta / record count inconsistent", d)
					case hd.PartitionLeaderEpoch != -1:
						fail("PartitionLeaderEpoch of a produced batch is not -1", d)
					case hd.Transactional != (p.Mode == "txn") || hd.Control || hd.LogAppendTime:
						d["attributes"] = hd.Attributes
						fail("batch attribute bits inconsistent with the producer configuration", d)
					case hd.Attributes&^0x17 != 0:
						d["attributes"] = hd.Attributes
						fail("batch attribute bits inconsistent with the producer configuration", d)
					}
				}
				// the batch must hold the next records produced to this partition, in order. Records whose promise
				// failed (too large to buffer; or written but failed later, e.g. at Close) may be absent or present;
				// successfully promised ones may not be skipped.
				var exp []*sent
				j, why := c.at, ""
				for i := range recs {
					for j < len(c.exp) && c.exp[j].Err != nil && sameRecords(recs[i:i+1], c.exp[j:j+1], f.Version, hd) != "" {
						j++ // a failed record that was never written
					}
					if j >= len(c.exp) {
						why = fmt.Sprintf("record %d: nothing left outstanding for the partition", i)
						break
					}
					if w := sameRecords(recs[i:i+1], c.exp[j:j+1], f.Version, hd); w != "" {
						why = fmt.Sprintf("record %d vs produced %s: %s", i, c.exp[j].ID, w)
						break
					}
					exp = append(exp, c.exp[j])
					j++
				}
				if why != "" {
					if len(c.last) == n && sameRecords(recs, c.last, f.Version, hd) == "" {
						r.Count("resent_batches", 1) // a retry repeats the previous batch
						continue
					}
					d["mismatch"] = why
					fail("batch records differ from the records produced to the partition, in order", d)
					continue
				}
				if f.Version >= 3 {
					// offsets and timestamps
					minTS, maxTS := exp[0].TSMilli, exp[0].TSMilli
					for i, rc := range recs {
						if rc.Offset != int64(i) {
							fail("record offset deltas are not 0..n-1", d)
							break
						}
						if exp[i].TSMilli > maxTS {
							maxTS = exp[i].TSMilli
						}
						if exp[i].TSMilli < minTS {
							minTS = exp[i].TSMilli
						}
					}
					if hd.BaseTimestamp != exp[0].TSMilli {
						d["base_timestamp"], d["first_record_timestamp"] = hd.BaseTimestamp, exp[0].TSMilli
						fail("BaseTimestamp is not the first record's timestamp", d)
					}
					if hd.MaxTimestamp != maxTS {
						d["max_timestamp"], d["want"] = hd.MaxTimestamp, maxTS
						fail("MaxTimestamp is not the largest record timestamp", d)
					}
					// producer id / epoch / sequence
					switch p.Mode {
					case "plain":
						if hd.ProducerID != -1 || hd.ProducerEpoch != -1 {
							d["pid"], d["epoch"] = hd.ProducerID, hd.ProducerEpoch
							fail("non-idempotent batch carries a producer id", d)
						}
						if hd.BaseSequence != 0 && hd.BaseSequence != -1 {
							d["seq"] = hd.BaseSequence
							fail("non-idempotent batch carries a sequence number", d)
						}
					default:
						for _, e := range exp {
							if e.Err == nil && (e.PID != hd.ProducerID || e.Epoch != hd.ProducerEpoch) {
								d["pid"], d["epoch"], d["promised_pid"], d["promised_epoch"] = hd.ProducerID, hd.ProducerEpoch, e.PID, e.Epoch
								fail("batch producer id/epoch differ from what the promises report", d)
								break
							}
						}
						if c.started && (c.pid != hd.ProducerID || c.epoch != hd.ProducerEpoch) {
							c.nextSeq = 0 // new producer epoch: sequences restart
							r.Count("epoch_changes", 1)
						}
						if hd.BaseSequence != c.nextSeq {
							d["seq"], d["want_seq"] = hd.BaseSequence, c.nextSeq
							fail("BaseSequence does not continue the partition's previous batch", d)
						}
						c.started, c.pid, c.epoch = true, hd.ProducerID, hd.ProducerEpoch
						c.nextSeq = int32((int64(hd.BaseSequence) + int64(n)) & 0x7fffffff)
					}
				}
				c.at = j
				c.last = exp
			}
		}
		if float64(f.FrameLen) >= 0.95*float64(p.MaxWrite) {
			near = true
		}
		if nparts >= 2 || near {
			pb := "1"
			switch {
			case nparts >= 17:
				pb = "17+"
			case nparts >= 5:
				pb = "5-16"
			case nparts >= 2:
				pb = "2-4"
			}
			r.Distinct(fmt.Sprintf("%s/v%d/%s/parts%s/near%v/%s", p.Backend, f.Version, codecNames[wantCodec], pb, near, p.Mode))
		}
		if near {
			r.Count("frames_within_5pct_of_a_limit", 1)
		}
		r.Count("partitions_in_frames", nparts)
	}
	// everything promised as produced must have been on the wire
	for k, c := range cur {
		missing := 0
		for _, e := range c.exp[c.at:] {
			if e.Err == nil {
				missing++
			}
		}
		if missing > 0 {
			fail("records acknowledged to the application never appeared on the wire", map[string]any{"topic": k.T, "partition": k.P, "acknowledged_but_unseen": missing})
			break
		}
	}
}

// sameRecords compares decoded records with the expected ones ("" = equal).
func sameRecords(got []reflog.Record, exp []*sent, version int16, hd reflog.Batch) string {
	if len(got) != len(exp) {
		return "count"
	}
	for i, g := range got {
		e := exp[i]
		if !eqBytes(g.Value, e.Value) {
			return fmt.Sprintf("record %d value", i)
		}
		if !eqBytes(g.Key, e.Key) {
			return fmt.Sprintf("record %d key (nil=%v want nil=%v, len %d want %d)", i, g.Key == nil, e.Key == nil, len(g.Key), len(e.Key))
		}
		if version >= 3 {
			if len(g.Headers) != len(e.Headers) {
				return fmt.Sprintf("record %d header count", i)
			}
			for j, h := range g.Headers {
				if h.Key != e.Headers[j].Key || !eqBytes(h.Value, e.Headers[j].Value) {
					return fmt.Sprintf("record %d header %d", i, j)
				}
			}
			if g.Timestamp != e.TSMilli {
				return fmt.Sprintf("record %d timestamp %d want %d", i, g.Timestamp, e.TSMilli)
			}
		} else if version == 2 {
			if g.Timestamp != e.TSMilli {
				return fmt.Sprintf("message %d timestamp %d want %d", i, g.Timestamp, e.TSMilli)
			}
		}
	}
	return ""
}

func TestCheck(t *testing.T) {
	r := vh.Start(t, "C18")
	workers := runtime.NumCPU()
	if workers > 12 {
		workers = 12
	}
	perCombo := r.Pick(4, 100)
	type job struct {
		backend string
		v       int16
		codec   int
		k       int
	}
	var jobs []job
	for v := int16(0); v <= 13; v++ {
		for codec := 0; codec < 5; codec++ {
			for k := 0; k < perCombo; k++ {
				jobs = append(jobs, job{"scripted", v, codec, k})
			}
		}
	}
	nPacked := r.Pick(4, 120)
	for v := int16(0); v <= 13; v++ {
		for k := 0; k < nPacked; k++ {
			jobs = append(jobs, job{"packed", v, (int(v) + k) % 2 * (1 + (int(v)+k)%4), k})
		}
	}
	nKfake := r.Pick(33, 1500)
	for i := 0; i < nKfake; i++ {
		jobs = append(jobs, job{"kfake", int16(3 + i%11), i % 5, i})
	}
	var jmu sync.Mutex
	vh.Parallel(len(jobs), workers, func(i int) {
		j := jobs[i]
		rng := r.Rand(fmt.Sprintf("c18-%s-%d-%d", j.backend, j.v, j.codec), j.k)
		var p plan
		if j.backend == "packed" {
			p = packedPlan(rng, i, j.v, j.codec)
			j.backend = "scripted"
		} else {
			p = genPlan(rng, i, j.backend, j.v, j.codec)
		}
		var frames []frameObs
		var sentRecs map[tp][]*sent
		var ok bool
		byID := map[[16]byte]string{}
		if j.backend == "scripted" {
			frames, sentRecs, ok = runScripted(r, p)
			for _, t := range p.Topics {
				byID[rawkafka.TopicID(t)] = t
			}
		} else {
			frames, sentRecs, ok, byID = runKfakeWithIDs(r, p)
		}
		if !ok {
			return
		}
		jmu.Lock()
		defer jmu.Unlock()
		r.Count("cases_"+j.backend, 1)
		r.Count("frames_"+j.backend, len(frames))
		judge(r, p, frames, sentRecs, byID)
		if r.WantSample() && len(frames) > 1 {
			r.Sample(map[string]any{"plan": p, "produce_frames": len(frames), "first_frame_len": frames[0].FrameLen})
		}
	})
	r.Finish("exploration",
		"cases: every produce version 0-13 x every compressor (plus preference lists with zstd first) x seeded (BrokerMaxWriteBytes 1 KiB-1 MiB, ProducerBatchMaxBytes 512 B-limit, 1-5 topics with names of 4-249 bytes, 1-40 partitions each, client ids of 0-256 bytes, transactional ids of 1-400 bytes, idempotent / plain with acks -1,1,0 / transactional, linger 2-9 ms, key/value/header sizes around 0,1,63,64,127,128,8191,8192,16383,16384 and near the batch limit, increasing and decreasing timestamps); scripted broker for all versions, kfake behind a tap for v3-v13; plus 'packed' cases (16-60 partitions x 1-3 topics, one small batch each, long linger then Flush, BrokerMaxWriteBytes 1-3 KiB) that fill requests greedily up to the limit. Judged per written produce frame. Non-trivial: the request carried >=2 partitions or came within 5% of a size limit; distinct by (backend, version, codec, partition-count class, limit proximity, mode)",
		"the reference decoder internal/reflog (own CRC/varint code, C codec libraries) is trusted",
		"'batch bytes' is the length of the partition's records field (the record batch / message set itself, without the request's own length prefix)",
		"v0-v2 message sets cannot carry headers (and v0/v1 no timestamps): those fields are not generated/judged there",
		"the wrapper message's own timestamp of a compressed v2 (magic 1) message set is not judged",
	)
}

func runKfakeWithIDs(r *vh.Run, p plan) ([]frameObs, map[tp][]*sent, bool, map[[16]byte]string) {
	byID := map[[16]byte]string{}
	fn := &faultnet.Net{KeepFrames: true}
	env, err := e2e.NewEnv(false, 1, fn, kfake.SeedTopics(p.Partitions, p.Topics...))
	if err != nil {
		r.Inconclusive("kfake: " + err.Error())
		return nil, nil, false, nil
	}
	defer env.Close()
	opts := append(p.clientOpts(), env.ClientOpts()...)
	cl, err := kgo.NewClient(opts...)
	if err != nil {
		r.Inconclusive(fmt.Sprintf("client (case %d): %v", p.Idx, err))
		return nil, nil, false, nil
	}
	sentRecs, smu := workload(&p, cl, uint64(r.Seed))
	// topic ids as kfake assigned them
	mreq := kmsg.NewPtrMetadataRequest()
	for _, t := range p.Topics {
		mt := kmsg.NewMetadataRequestTopic()
		mt.Topic = kmsg.StringPtr(t)
		mreq.Topics = append(mreq.Topics, mt)
	}
	ctx, cancel := context.WithTimeout(context.Background(), 10*time.Second)
	if resp, err := mreq.RequestWith(ctx, cl); err == nil {
		for _, t := range resp.Topics {
			if t.Topic != nil {
				byID[t.TopicID] = *t.Topic
			}
		}
	}
	cancel()
	cl.Close()
	settle(sentRecs, smu.Lock, smu.Unlock)
	want := "kgo"
	if p.ClientIDL > 0 {
		want = p.ClientID
	}
	var frames []frameObs
	for _, ev := range fn.Events() {
		q := ev.Req
		if q.Key != 0 || q.ClientID != want {
			continue
		}
		cid := q.ClientID
		fo := frameObs{Seq: q.Seq, Version: q.Version, FrameLen: len(q.Frame), ClientID: &cid}
		if pr, ok := q.Decode().(*kmsg.ProduceRequest); ok {
			fo.Req = pr
		} else {
			fo.DecErr = fmt.Errorf("kmsg.ProduceRequest.ReadFrom failed")
		}
		frames = append(frames, fo)
	}
	return frames, sentRecs, true, byID
}
