// C19 — compression round-trips and decompression is bounded.
//
// Monitor: kgo.DefaultCompressor / kgo.DefaultDecompressor are driven over
// codec x level x preference list x flag x payload, and every result is
// judged by (a) the round trip through franz-go's own decompressor with the
// reported codec, (b) the zstd gate, (c) an independent decoder of the
// reported codec (internal/reflog/ccodec: cgo bindings to zlib, liblz4,
// libsnappy, libzstd). Hostile inputs (random bytes, mutated and truncated
// valid streams, crafted size claims, real decompression bombs built with
// ccodec) go to Decompress under vh.Catch; the output length is compared with
// the decompressor's limit.
package c19

import (
	"sync"
	"bytes"
	"encoding/binary"
	"fmt"
	"math"
	"math/rand/v2"
	"os"
	"runtime"
	"sync/atomic"
	"testing"
	"time"
	_ "unsafe" // go:linkname

	"github.com/twmb/franz-go/pkg/kgo"

	"verifharness/internal/reflog/ccodec"
	"verifharness/internal/vh"
)

// The decompressor's bound is the unexported package variable
// kgo.maxDecompressedSize ("a var only so tests can shrink it"); there is no
// option for it, so the check reaches it the way the repository's own test
// does, through the variable.
//
//go:linkname kgoMaxDecompressedSize github.com/twmb/franz-go/pkg/kgo.maxDecompressedSize
var kgoMaxDecompressedSize int64

var codecNames = map[kgo.CompressionCodecType]string{0: "none", 1: "gzip", 2: "snappy", 3: "lz4", 4: "zstd", -1: "error"}

type prefEntry struct {
	codec kgo.CompressionCodecType
	level int
	set   bool // WithLevel applied
}

func (p prefEntry) build() kgo.CompressionCodec {
	var c kgo.CompressionCodec
	switch p.codec {
	case kgo.CodecNone:
		c = kgo.NoCompression()
	case kgo.CodecGzip:
		c = kgo.GzipCompression()
	case kgo.CodecSnappy:
		c = kgo.SnappyCompression()
	case kgo.CodecLz4:
		c = kgo.Lz4Compression()
	case kgo.CodecZstd:
		c = kgo.ZstdCompression()
	}
	if p.set {
		c = c.WithLevel(p.level)
	}
	return c
}

type config struct {
	prefs []prefEntry
	name  string
	comp  kgo.Compressor
}

func mkConfig(prefs ...prefEntry) *config {
	c := &config{prefs: prefs}
	for i, p := range prefs {
		if i > 0 {
			c.name += ","
		}
		c.name += codecNames[p.codec]
		if p.set {
			c.name += fmt.Sprintf("@%d", p.level)
		}
	}
	return c
}

// levels per codec: the documented range, its edges, and values outside it.
var levels = map[kgo.CompressionCodecType][]int{
	kgo.CodecGzip:   {-3, -2, -1, 0, 1, 2, 5, 6, 9, 10, 100, math.MaxInt32, math.MinInt32},
	kgo.CodecSnappy: {0, 1, -1, 9},
	// pierrec/lz4 levels are 0 (fast) and 1<<(8+k), k=1..9
	kgo.CodecLz4:  {-1, 0, 1, 3, 9, 256, 512, 1024, 2048, 4096, 8192, 16384, 32768, 65536, 131072, 262144, 1 << 20, math.MinInt32},
	kgo.CodecZstd: {-7, -1, 0, 1, 2, 3, 4, 5, 11, 19, 22, 100, math.MaxInt32},
}

func allConfigs() []*config {
	var out []*config
	cs := []kgo.CompressionCodecType{kgo.CodecGzip, kgo.CodecSnappy, kgo.CodecLz4, kgo.CodecZstd}
	for _, c := range cs {
		out = append(out, mkConfig(prefEntry{codec: c}))
		for _, l := range levels[c] {
			out = append(out, mkConfig(prefEntry{c, l, true}))
		}
	}
	// preference lists
	for _, a := range cs {
		for _, b := range append([]kgo.CompressionCodecType{kgo.CodecNone}, cs...) {
			if a == b {
				// duplicate entries: only the first is kept
				out = append(out, mkConfig(prefEntry{codec: a}, prefEntry{a, 9, true}))
				continue
			}
			out = append(out, mkConfig(prefEntry{codec: a}, prefEntry{codec: b}))
		}
	}
	z, g, s, l, n := kgo.CodecZstd, kgo.CodecGzip, kgo.CodecSnappy, kgo.CodecLz4, kgo.CodecNone
	for _, list := range [][]kgo.CompressionCodecType{
		{z, l, s, g}, {z, z, g}, {z, n, g}, {s, z, n}, {l, g, z}, {z, s, n, g}, {g, n}, {n}, {n, z}, {z, l, z, s},
	} {
		var ps []prefEntry
		for _, c := range list {
			ps = append(ps, prefEntry{codec: c})
		}
		out = append(out, mkConfig(ps...))
	}
	out = append(out, mkConfig(prefEntry{z, 4, true}, prefEntry{g, 9, true}), mkConfig(prefEntry{z, 99, true}, prefEntry{l, 512, true}, prefEntry{g, -2, true}))
	return out
}

type flagSet struct {
	name    string
	flags   []kgo.CompressFlag
	disable bool
}

var flagSets = []flagSet{
	{"none", nil, false},
	{"disable-zstd", []kgo.CompressFlag{kgo.CompressDisableZstd}, true},
	{"disable-zstd-twice", []kgo.CompressFlag{kgo.CompressDisableZstd, kgo.CompressDisableZstd}, true},
	{"unknown+disable-zstd", []kgo.CompressFlag{kgo.CompressFlag(7), kgo.CompressDisableZstd}, true},
	{"unknown", []kgo.CompressFlag{kgo.CompressFlag(2), kgo.CompressFlag(0)}, false},
}

func sizeClass(n int) string {
	switch {
	case n == 0:
		return "0"
	case n == 1:
		return "1"
	case n < 1<<10:
		return "<1K"
	case n < 32<<10:
		return "<32K"
	case n <= 64<<10:
		return "<=64K"
	case n < 1<<20:
		return "<1M"
	default:
		return ">=1M"
	}
}

// genPayload draws one payload: kind x size.
func genPayload(rng *rand.Rand, maxLen int) (p []byte, kind string) {
	var n int
	switch rng.IntN(10) {
	case 0:
		n = 0
	case 1:
		n = 1
	case 2:
		n = 2 + rng.IntN(30)
	case 3, 4:
		n = 32 + rng.IntN(4<<10)
	case 5:
		// around codec block boundaries: xerial 32 KiB, lz4 64 KiB / 4 MiB blocks, zstd 64 KiB window / 128 KiB block
		edges := []int{32 << 10, 64 << 10, 128 << 10, 256 << 10, 1 << 20}
		n = edges[rng.IntN(len(edges))] + rng.IntN(5) - 2
	case 6, 7:
		n = 4<<10 + rng.IntN(200<<10)
	default:
		n = rng.IntN(maxLen)
	}
	if n > maxLen {
		n = maxLen
	}
	p = make([]byte, n)
	switch k := rng.IntN(6); k {
	case 0:
		kind = "random"
		fill(rng, p)
	case 1:
		kind = "zeros"
	case 2:
		kind = "repeat"
		pat := make([]byte, 1+rng.IntN(300))
		fill(rng, pat)
		for i := range p {
			p[i] = pat[i%len(pat)]
		}
	case 3:
		kind = "text"
		words := []string{"kafka", "record", "batch", "offset", "producer", "\"key\":", "{", "}", " ", "0123456789", "\n"}
		for i := 0; i < len(p); {
			i += copy(p[i:], words[rng.IntN(len(words))])
		}
	case 4:
		kind = "mixed" // compressible runs interleaved with random runs
		for i := 0; i < len(p); {
			run := 1 + rng.IntN(5000)
			end := min(len(p), i+run)
			if rng.IntN(2) == 0 {
				fill(rng, p[i:end])
			} else {
				b := byte(rng.Uint32())
				for j := i; j < end; j++ {
					p[j] = b
				}
			}
			i = end
		}
	default:
		kind = "lowentropy"
		for i := range p {
			p[i] = byte(rng.IntN(4))
		}
	}
	return p, kind
}

func fill(rng *rand.Rand, p []byte) {
	i := 0
	for ; i+8 <= len(p); i += 8 {
		binary.LittleEndian.PutUint64(p[i:], rng.Uint64())
	}
	for ; i < len(p); i++ {
		p[i] = byte(rng.Uint32())
	}
}

func head(b []byte, n int) string {
	if len(b) > n {
		return fmt.Sprintf("%x...(%d bytes)", b[:n], len(b))
	}
	return fmt.Sprintf("%x", b)
}

// pools handed to DefaultDecompressor: the destination slice is user supplied.
type decompPool struct {
	length, capacity int
}

func (p decompPool) GetDecompressBytes([]byte, kgo.CompressionCodecType) []byte {
	b := make([]byte, p.length, p.capacity)
	for i := range b {
		b[i] = 0xAA
	}
	return b
}
func (decompPool) PutDecompressBytes([]byte) {}

type decomp struct {
	name string
	d    kgo.Decompressor
	keep *keepList // results of earlier Decompress calls, still held by the "application"
}

// kept is a Decompress result the caller still holds (a consumer holds batch N's records while
// batch N+1 is decompressed): the very slice that was returned, and what it must still contain.
type keepList struct {
	mu   sync.Mutex
	list []kept
}

type kept struct {
	got, want []byte
	codec     string
	size      int
}

func newDecomps() []decomp {
	return []decomp{
		{"default", kgo.DefaultDecompressor(), new(keepList)},
		{"pool-nil", kgo.DefaultDecompressor(decompPool{0, 0}), nil},
		{"pool-len64-cap64K", kgo.DefaultDecompressor(decompPool{64, 64 << 10}), nil},
		{"pool-cap16", kgo.DefaultDecompressor(decompPool{0, 16}), nil},
	}
}

type monitor struct {
	r     *vh.Run
	fails atomic.Int64
}

func (m *monitor) viol(sig string, detail any) {
	m.fails.Add(1)
	m.r.Violation(sig, detail)
}

// roundTrip judges one (config, flags, payload) case.
func (m *monitor) roundTrip(cfg *config, fs flagSet, dst *bytes.Buffer, payload []byte, kind string, ds []decomp, di int) {
	r := m.r
	dst.Reset()
	var out []byte
	var used kgo.CompressionCodecType
	if p := vh.Catch(func() { out, used = cfg.comp.Compress(dst, payload, fs.flags...) }); p != nil {
		m.viol("Compress-panic/"+codecNames[cfg.prefs[0].codec], map[string]any{"config": cfg.name, "flags": fs.name, "payload_len": len(payload), "kind": kind, "panic": fmt.Sprint(p)})
		return
	}
	r.Eval(1)
	r.Count("compress_calls", 1)
	r.Count("reported_"+codecNames[used], 1)
	out = bytes.Clone(out) // dst is reused by the next call
	desc := func() map[string]any {
		return map[string]any{"config": cfg.name, "flags": fs.name, "payload_len": len(payload), "payload_kind": kind, "payload_head": head(payload, 48),
			"reported_codec": int(used), "compressed_len": len(out), "compressed_head": head(out, 48)}
	}
	if fs.disable && used == kgo.CodecZstd {
		m.viol("zstd-chosen-despite-CompressDisableZstd", desc())
		return
	}
	if fs.disable {
		hasZ := false
		for _, p := range cfg.prefs {
			hasZ = hasZ || p.codec == kgo.CodecZstd
		}
		if hasZ {
			r.Count("zstd_gate_exercised", 1)
		}
	}
	// the codec it reports is one it was configured with (observation only)
	inList := used == kgo.CodecNone
	for _, p := range cfg.prefs {
		inList = inList || p.codec == used
	}
	if !inList {
		r.Count("reported_codec_not_in_preference_list", 1)
	}
	d := ds[di%len(ds)]
	var back []byte
	var err error
	if p := vh.Catch(func() { back, err = d.d.Decompress(out, used) }); p != nil {
		dd := desc()
		dd["panic"] = fmt.Sprint(p)
		dd["decompressor"] = d.name
		m.viol("Decompress-panic-on-own-output/"+codecNames[used], dd)
		return
	}
	if err != nil || !bytes.Equal(back, payload) {
		dd := desc()
		dd["decompressor"] = d.name
		dd["error"] = fmt.Sprint(err)
		dd["got_len"] = len(back)
		dd["got_head"] = head(back, 48)
		m.viol("roundtrip-mismatch/"+codecNames[used], dd)
		return
	}
	// results of earlier calls that the caller still holds must not have changed (with a
	// user-supplied pool the buffers are the user's to recycle, so only the default
	// decompressor is judged)
	if d.keep != nil {
		d.keep.mu.Lock()
		for _, k := range d.keep.list {
			if !bytes.Equal(k.got, k.want) {
				dd := desc()
				dd["earlier_codec"], dd["earlier_len"], dd["decompressor"] = k.codec, k.size, d.name
				d.keep.list = nil
				d.keep.mu.Unlock()
				m.viol("earlier-Decompress-result-changed-by-a-later-call/"+k.codec, dd)
				return
			}
		}
		d.keep.list = append(d.keep.list, kept{back, payload, codecNames[used], len(payload)})
		if len(d.keep.list) > 8 {
			d.keep.list = d.keep.list[1:]
		}
		r.Count("held_results_rechecked", len(d.keep.list))
		d.keep.mu.Unlock()
	}
	// independent decoder of the reported codec
	if used >= 0 && used <= 4 {
		ref, rerr := ccodec.Decompress(int(used), out, len(payload))
		if rerr != nil || !bytes.Equal(ref, payload) {
			dd := desc()
			dd["reference_error"] = fmt.Sprint(rerr)
			dd["reference_len"] = len(ref)
			m.viol("independent-decoder-rejects-output/"+codecNames[used], dd)
			return
		}
		r.Count("independent_decodes", 1)
	}
	if len(payload) >= 1 {
		lvl := "default"
		if cfg.prefs[0].set {
			lvl = fmt.Sprint(cfg.prefs[0].level)
		}
		r.Distinct(fmt.Sprintf("rt/%s/lvl%s/%s/%s/%s", codecNames[used], lvl, sizeClass(len(payload)), kind, fs.name))
	}
	if r.WantSample() && len(payload) > 1 {
		r.Sample(desc())
	}
}

// foreign judges a valid single stream produced by the independent encoder.
func (m *monitor) foreign(codec int, label string, z, payload []byte, d decomp, multi bool) {
	r := m.r
	var back []byte
	var err error
	if p := vh.Catch(func() { back, err = d.d.Decompress(z, kgo.CompressionCodecType(codec)) }); p != nil {
		m.viol("Decompress-panic/"+ccodec.Name(codec), map[string]any{"input": label, "input_head": head(z, 64), "input_len": len(z), "panic": fmt.Sprint(p), "decompressor": d.name})
		return
	}
	r.Eval(1)
	switch {
	case err != nil:
		r.Count("foreign_stream_rejected_dontcare/"+ccodec.Name(codec), 1)
	case multi:
		r.Count("foreign_multi_stream_dontcare", 1)
	case !bytes.Equal(back, payload):
		m.viol("foreign-valid-stream-decodes-wrong/"+ccodec.Name(codec), map[string]any{"input": label, "input_len": len(z), "input_head": head(z, 64), "want_len": len(payload), "got_len": len(back), "decompressor": d.name})
	default:
		r.Count("foreign_stream_decoded/"+ccodec.Name(codec), 1)
		if len(payload) > 0 {
			r.Distinct(fmt.Sprintf("foreign/%s/%s/%s", ccodec.Name(codec), label, sizeClass(len(payload))))
		}
	}
}

// hostile feeds arbitrary bytes: data or error, no panic, never more than limit.
func (m *monitor) hostile(codec int, class string, in []byte, d decomp, limit int64, nontrivial bool) {
	r := m.r
	var out []byte
	var err error
	if p := vh.Catch(func() { out, err = d.d.Decompress(in, kgo.CompressionCodecType(codec)) }); p != nil {
		m.viol("Decompress-panic/"+ccodec.Name(codec), map[string]any{"class": class, "input_hex": fmt.Sprintf("%x", clip(in, 4096)), "input_len": len(in), "panic": fmt.Sprint(p), "decompressor": d.name, "limit": limit})
		return
	}
	r.Eval(1)
	outcome := "error"
	if err == nil {
		outcome = "data"
		if int64(len(out)) > limit {
			m.viol("Decompress-exceeds-max-decompressed-size/"+ccodec.Name(codec), map[string]any{"class": class, "input_hex": fmt.Sprintf("%x", clip(in, 4096)), "input_len": len(in), "returned_len": len(out), "limit": limit, "decompressor": d.name})
			return
		}
	}
	r.Count("hostile_"+outcome, 1)
	if nontrivial {
		r.Distinct(fmt.Sprintf("hostile/%s/%s/%s/%s", ccodec.Name(codec), class, outcome, d.name))
	}
}

func clip(b []byte, n int) []byte {
	if len(b) > n {
		return b[:n]
	}
	return b
}

var magics = map[int][]byte{
	ccodec.Gzip:   {0x1f, 0x8b, 0x08},
	ccodec.LZ4:    {0x04, 0x22, 0x4d, 0x18},
	ccodec.Zstd:   {0x28, 0xb5, 0x2f, 0xfd},
	ccodec.Snappy: ccodec.XerialHeader[:8],
}

func mutate(rng *rand.Rand, in []byte) ([]byte, string) {
	b := bytes.Clone(in)
	if len(b) == 0 {
		return []byte{byte(rng.Uint32())}, "grow"
	}
	switch rng.IntN(8) {
	case 0:
		return b[:rng.IntN(len(b))], "truncate"
	case 1:
		for k := 0; k < 1+rng.IntN(3); k++ {
			b[rng.IntN(len(b))] ^= 1 << rng.IntN(8)
		}
		return b, "bitflip"
	case 2:
		// header area
		i := rng.IntN(min(len(b), 24))
		b[i] = byte(rng.Uint32())
		return b, "header-byte"
	case 3:
		i := rng.IntN(len(b))
		return append(b[:i], b[min(len(b), i+1+rng.IntN(8)):]...), "delete"
	case 4:
		i := rng.IntN(len(b) + 1)
		ins := make([]byte, 1+rng.IntN(8))
		fill(rng, ins)
		return append(b[:i:i], append(ins, in[i:]...)...), "insert"
	case 5:
		i := rng.IntN(len(b))
		for j := i; j < min(len(b), i+4); j++ {
			b[j] = 0xff
		}
		return b, "ff-run"
	case 6:
		return append(b, b...), "double"
	default:
		i := rng.IntN(len(b))
		j := i + rng.IntN(len(b)-i)
		fill(rng, b[i:j])
		return b, "scramble"
	}
}

// zstdFrameClaiming builds a zstd frame header declaring an 8-byte frame
// content size, followed by one raw block of body bytes.
func zstdFrameClaiming(size uint64, body []byte) []byte {
	out := []byte{0x28, 0xb5, 0x2f, 0xfd}
	out = append(out, 0xE0) // FCS flag 3 (8 bytes), single segment
	out = binary.LittleEndian.AppendUint64(out, size)
	bh := uint32(len(body))<<3 | 1 // last block, raw
	out = append(out, byte(bh), byte(bh>>8), byte(bh>>16))
	return append(out, body...)
}

func snappyClaiming(size uint64, rest ...byte) []byte {
	var out []byte
	for size >= 0x80 {
		out = append(out, byte(size)|0x80)
		size >>= 7
	}
	out = append(out, byte(size))
	return append(out, rest...)
}

func xerial(chunks ...[]byte) []byte {
	out := bytes.Clone(ccodec.XerialHeader)
	for _, c := range chunks {
		out = binary.BigEndian.AppendUint32(out, uint32(len(c)))
		out = append(out, c...)
	}
	return out
}

func TestCheck(t *testing.T) {
	r := vh.Start(t, "C19")
	m := &monitor{r: r}
	workers := runtime.NumCPU()
	defaultLimit := kgoMaxDecompressedSize
	r.Set("default_max_decompressed_size", defaultLimit)
	if defaultLimit <= 0 {
		r.Inconclusive(fmt.Sprintf("kgo.maxDecompressedSize not reachable (read %d)", defaultLimit))
	}

	t0 := time.Now()
	phase := func(name string) {
		fmt.Printf("phase %s done at %.1fs\n", name, time.Since(t0).Seconds())
	}
	// ---- phase 1: round trips at the default limit ------------------------
	cfgs := allConfigs()
	var live []*config
	for _, c := range cfgs {
		var codecs []kgo.CompressionCodec
		for _, p := range c.prefs {
			codecs = append(codecs, p.build())
		}
		comp, err := kgo.DefaultCompressor(codecs...)
		if err != nil {
			m.viol("DefaultCompressor-error/"+c.name, fmt.Sprintf("DefaultCompressor(%s) = %v", c.name, err))
			continue
		}
		if comp == nil {
			// documented: a leading "none" yields a nil compressor
			if c.prefs[0].codec != kgo.CodecNone {
				m.viol("DefaultCompressor-nil/"+c.name, fmt.Sprintf("DefaultCompressor(%s) returned nil, nil", c.name))
			}
			r.Count("nil_compressors", 1)
			continue
		}
		c.comp = comp
		live = append(live, c)
	}
	r.Count("configs", len(live))

	ds := newDecomps()
	maxLen := r.Pick(3<<20, 6<<20)
	perCfg := r.Pick(14, 400)
	type job struct {
		cfg *config
		idx int
	}
	var jobs []job
	for _, c := range live {
		for k := 0; k < perCfg; k++ {
			jobs = append(jobs, job{c, k})
		}
	}
	// fixed edge payloads for every config
	edges := [][]byte{{}, {0}, {0xff}, []byte("a"), bytes.Repeat([]byte{0}, 64<<10), bytes.Repeat([]byte("ab"), 32<<10+1)}
	bufs := make([]*bytes.Buffer, len(jobs))
	vh.Parallel(len(jobs), workers, func(i int) {
		j := jobs[i]
		rng := r.Rand("rt/"+j.cfg.name, j.idx)
		// the client hands Compress a pooled buffer it has Reset: fresh, small, or previously used
		switch rng.IntN(3) {
		case 0:
			bufs[i] = new(bytes.Buffer)
		case 1:
			bufs[i] = bytes.NewBuffer(make([]byte, 8<<10))
		default:
			bufs[i] = bytes.NewBuffer(make([]byte, 100, 1<<20))
		}
		var payload []byte
		kind := "edge"
		if j.idx < len(edges) {
			payload = edges[j.idx]
		} else {
			lim := maxLen
			if j.idx%7 != 0 {
				lim = 300 << 10 // most payloads small; every 7th may be MiB sized
			}
			payload, kind = genPayload(rng, lim)
		}
		fs := flagSets[rng.IntN(len(flagSets))]
		if j.idx < 2*len(flagSets) {
			fs = flagSets[j.idx%len(flagSets)]
		}
		m.roundTrip(j.cfg, fs, bufs[i], payload, kind, ds, i)
		// the same buffer again, as the pooled buffer is reused across calls
		if j.idx%5 == 0 {
			p2, k2 := genPayload(rng, 64<<10)
			m.roundTrip(j.cfg, fs, bufs[i], p2, k2, ds, i+1)
		}
		bufs[i] = nil
	})

	phase("1-roundtrip")
	// ---- phase 1h: results held across later calls, one goroutine, growing sizes ----
	// A consumer holds the records of batch N while batch N+1 is decompressed. Each codec
	// decompresses a payload larger than anything it has seen before (so that pooled buffers
	// have to grow), the result is held, and four more payloads of mixed codecs and sizes are
	// decompressed before the held bytes are compared with what was compressed.
	{
		dd := kgo.DefaultDecompressor()
		hrng := r.Rand("held", 0)
		type heldRes struct {
			got, want []byte
			codec     string
		}
		var held []heldRes
		check := func() bool {
			for _, h := range held {
				if !bytes.Equal(h.got, h.want) {
					m.viol("earlier-Decompress-result-changed-by-a-later-call/"+h.codec, map[string]any{"earlier_len": len(h.want), "held_results": len(held), "phase": "sequential growing sizes"})
					return false
				}
			}
			return true
		}
		mk := func(codec kgo.CompressionCodecType, n int) (z []byte, payload []byte, ok bool) {
			payload = make([]byte, n)
			fill(hrng, payload)
			comp, err := kgo.DefaultCompressor(kgo.CompressionCodec(mkConfig(prefEntry{codec: codec}).prefs[0].build()))
			if err != nil || comp == nil {
				return nil, nil, false
			}
			out, used := comp.Compress(new(bytes.Buffer), payload)
			if used != codec {
				return nil, nil, false
			}
			return bytes.Clone(out), payload, true
		}
		sizes := []int{9 << 10, 20 << 10, 70 << 10, 200 << 10, 600 << 10, 1500 << 10, 3 << 20}
	outer:
		for round := 0; round < r.Pick(2, 6); round++ {
			for _, sz := range sizes {
				for _, codec := range []kgo.CompressionCodecType{kgo.CodecGzip, kgo.CodecSnappy, kgo.CodecLz4, kgo.CodecZstd} {
					z, payload, ok := mk(codec, sz+round*4099+int(codec)*131)
					if !ok {
						continue
					}
					got, err := dd.Decompress(z, codec)
					if err != nil {
						continue
					}
					held = append(held, heldRes{got, payload, codecNames[codec]})
					for k := 0; k < 4; k++ {
						c2 := kgo.CompressionCodecType(1 + hrng.IntN(4))
						if z2, _, ok := mk(c2, 1+hrng.IntN(sz)); ok {
							dd.Decompress(z2, c2)
						}
					}
					r.Eval(1)
					r.Count("held_results_rechecked_sequential", len(held))
					if !check() {
						break outer
					}
					if len(held) > 6 {
						held = held[1:]
					}
				}
			}
		}
	}
	phase("1h-held")
	// a few multi-MiB payloads per codec
	bigN := r.Pick(1, 4)
	var bigJobs []job
	for _, c := range live {
		if len(c.prefs) == 1 && !c.prefs[0].set {
			for k := 0; k < bigN; k++ {
				bigJobs = append(bigJobs, job{c, k})
			}
		}
	}
	vh.Parallel(len(bigJobs), workers, func(i int) {
		j := bigJobs[i]
		rng := r.Rand("big/"+j.cfg.name, j.idx)
		p := make([]byte, 2<<20+rng.IntN(maxLen))
		kind := "big-mixed"
		for o := 0; o < len(p); {
			end := min(len(p), o+1+rng.IntN(64<<10))
			if rng.IntN(3) == 0 {
				fill(rng, p[o:end])
			}
			o = end
		}
		m.roundTrip(j.cfg, flagSets[j.idx%2], new(bytes.Buffer), p, kind, ds, i)
	})

	phase("1-big")
	// ---- phase 2: valid streams of the independent encoders ---------------
	type fcase struct {
		codec int
		label string
		z     []byte
		p     []byte
		multi bool
	}
	nForeign := r.Pick(60, 2000)
	vh.Parallel(nForeign, workers, func(i int) {
		rng := r.Rand("foreign", i)
		p, _ := genPayload(rng, 400<<10)
		var cs []fcase
		add := func(codec int, label string, z []byte, err error, multi bool) {
			if err != nil {
				r.Inconclusive(fmt.Sprintf("ccodec %s failed: %v", label, err))
				return
			}
			cs = append(cs, fcase{codec, label, z, p, multi})
		}
		gl := 1 + rng.IntN(9)
		z, err := ccodec.CompressLevel(ccodec.Gzip, p, gl)
		add(ccodec.Gzip, "zlib", z, err, false)
		zl := []int{-5, 1, 3, 9, 19}[rng.IntN(5)]
		z, err = ccodec.CompressLevel(ccodec.Zstd, p, zl)
		add(ccodec.Zstd, "libzstd", z, err, false)
		z, err = ccodec.LZ4Frame(p, []int{0, 3, 9}[rng.IntN(3)], rng.IntN(2) == 0, rng.IntN(2) == 0)
		add(ccodec.LZ4, "liblz4", z, err, false)
		z, err = ccodec.SnappyRaw(p)
		add(ccodec.Snappy, "libsnappy-raw", z, err, false)
		bs := []int{1, 100, 4 << 10, 32 << 10, 64 << 10, 1 << 20}[rng.IntN(6)]
		if len(p) > 0 && len(p)/bs > 5000 {
			bs = 32 << 10
		}
		z, err = ccodec.SnappyXerial(p, bs)
		// a payload-less xerial stream is the bare header, which the "len > 16" rule treats as raw snappy
		add(ccodec.Snappy, "libsnappy-xerial", z, err, len(p) == 0)
		if i%4 == 0 {
			z1, _ := ccodec.Compress(ccodec.Gzip, p)
			add(ccodec.Gzip, "zlib-2-members", append(bytes.Clone(z1), z1...), nil, true)
			z2, _ := ccodec.Compress(ccodec.Zstd, p)
			add(ccodec.Zstd, "libzstd-2-frames", append(bytes.Clone(z2), z2...), nil, true)
		}
		for k, c := range cs {
			m.foreign(c.codec, c.label, c.z, c.p, ds[(i+k)%len(ds)], c.multi)
		}
	})

	phase("2-foreign")
	// ---- phase 3: crafted size claims at the default limit (cheap: must be refused before allocating)
	if defaultLimit > 0 {
		over := uint64(defaultLimit) + 1
		raw64k, _ := ccodec.SnappyRaw(make([]byte, 64<<10))
		claims := []struct {
			codec int
			class string
			in    []byte
		}{
			{ccodec.Snappy, "snappy-claims-limit+1", snappyClaiming(over, 0x00, 0x00)},
			{ccodec.Snappy, "snappy-claims-4GiB-1", snappyClaiming(math.MaxUint32, 0xfe, 0x00, 0x00)},
			{ccodec.Snappy, "snappy-claims-2^63", snappyClaiming(1<<63, 0x00)},
			{ccodec.Snappy, "xerial-chunk-claims-limit+1", xerial(raw64k, snappyClaiming(over, 0x00))},
			{ccodec.Snappy, "xerial-negative-chunk-size", append(bytes.Clone(ccodec.XerialHeader), 0xff, 0xff, 0xff, 0xff, 1, 2, 3)},
			{ccodec.Snappy, "xerial-chunk-size-beyond-input", append(bytes.Clone(ccodec.XerialHeader), 0x7f, 0xff, 0xff, 0xff, 1, 2, 3)},
			{ccodec.Snappy, "xerial-short-chunk-header", append(bytes.Clone(ccodec.XerialHeader), 0, 0)},
			{ccodec.Zstd, "zstd-claims-limit+1", zstdFrameClaiming(over, []byte("x"))},
			{ccodec.Zstd, "zstd-claims-2^62", zstdFrameClaiming(1<<62, []byte("x"))},
			{ccodec.Zstd, "zstd-claims-max", zstdFrameClaiming(math.MaxUint64, nil)},
			{ccodec.LZ4, "lz4-block-size-max", []byte{0x04, 0x22, 0x4d, 0x18, 0x60, 0x70, 0x73, 0xff, 0xff, 0xff, 0x7f, 0, 0}},
			{ccodec.LZ4, "lz4-content-size-claim", []byte{0x04, 0x22, 0x4d, 0x18, 0x68, 0x70, 0xff, 0xff, 0xff, 0xff, 0xff, 0xff, 0xff, 0x7f, 0x00, 0, 0, 0, 0}},
			{ccodec.Gzip, "gzip-header-only", []byte{0x1f, 0x8b, 0x08, 0, 0, 0, 0, 0, 0, 3}},
			{ccodec.Gzip, "gzip-fextra-overrun", []byte{0x1f, 0x8b, 0x08, 0x04, 0, 0, 0, 0, 0, 3, 0xff, 0xff, 1, 2}},
		}
		for i, c := range claims {
			for _, d := range newDecomps() {
				m.hostile(c.codec, c.class, c.in, d, defaultLimit, true)
			}
			_ = i
		}
		r.Count("default_limit_claims", len(claims))
	}

	phase("3-claims")
	// ---- phase 4: shrunk limit: bombs and hostile bytes ---------------------
	limits := []int64{256 << 10, 1 << 20, 100_000}
	for li, limit := range limits {
		if defaultLimit <= 0 {
			break
		}
		kgoMaxDecompressedSize = limit
		if kgoMaxDecompressedSize != limit {
			r.Inconclusive("could not shrink kgo.maxDecompressedSize")
			break
		}
		lds := newDecomps() // the zstd decoder reads the limit when first used
		L := int(limit)

		// 4a. real bombs: valid streams of the independent encoders around and beyond the limit
		sizes := []int{L - 1, L, L + 1, L + 4096, 2 * L, 16*L + 3, 64 * L}
		if li > 0 && r.Quick() {
			sizes = []int{L - 1, L, L + 1, 2 * L, 8*L + 5}
		}
		type bomb struct {
			codec int
			class string
			n     int
			build func() []byte // run inside the worker
		}
		var bombs []bomb
		mkPayload := func(n, pi int) []byte {
			if pi == 0 {
				return make([]byte, n)
			}
			return bytes.Repeat([]byte("decompression bomb "), n/19+1)[:n]
		}
		for _, n := range sizes {
			for pi := 0; pi < 2; pi++ {
				tag := fmt.Sprintf("%s%+d", []string{"zeros", "text"}[pi], n-L)
				for _, codec := range []int{ccodec.Gzip, ccodec.Snappy, ccodec.LZ4, ccodec.Zstd} {
					bombs = append(bombs, bomb{codec, "bomb-" + tag, n, func() []byte {
						z, err := ccodec.Compress(codec, mkPayload(n, pi))
						if err != nil {
							r.Inconclusive(fmt.Sprintf("ccodec bomb %s: %v", tag, err))
						}
						return z
					}})
				}
				bombs = append(bombs, bomb{ccodec.Snappy, "bomb-raw-" + tag, n, func() []byte { z, _ := ccodec.SnappyRaw(mkPayload(n, pi)); return z }})
				if n <= 2*L { // the slow encoder settings only for the sizes around the limit
					bombs = append(bombs, bomb{ccodec.LZ4, "bomb-linked-hc-" + tag, n, func() []byte { z, _ := ccodec.LZ4Frame(mkPayload(n, pi), 9, false, true); return z }})
					bombs = append(bombs, bomb{ccodec.Zstd, "bomb-l19-" + tag, n, func() []byte { z, _ := ccodec.CompressLevel(ccodec.Zstd, mkPayload(n, pi), 19); return z }})
				} else {
					bombs = append(bombs, bomb{ccodec.LZ4, "bomb-linked-" + tag, n, func() []byte { z, _ := ccodec.LZ4Frame(mkPayload(n, pi), 0, false, true); return z }})
					bombs = append(bombs, bomb{ccodec.Zstd, "bomb-l1-" + tag, n, func() []byte { z, _ := ccodec.CompressLevel(ccodec.Zstd, mkPayload(n, pi), 1); return z }})
				}
			}
		}
		// streams that only pass the limit cumulatively
		half := make([]byte, L/2+1)
		for _, codec := range []int{ccodec.Gzip, ccodec.LZ4, ccodec.Zstd} {
			bombs = append(bombs, bomb{codec, "bomb-5-concatenated-halves", 5 * len(half), func() []byte {
				z, _ := ccodec.Compress(codec, half)
				return bytes.Repeat(z, 5)
			}})
		}
		bombs = append(bombs, bomb{ccodec.Snappy, "bomb-xerial-3-halves", 3 * len(half), func() []byte { hz, _ := ccodec.SnappyRaw(half); return xerial(hz, hz, hz) }})
		bombs = append(bombs, bomb{ccodec.Snappy, "bomb-xerial-4-thirds", 4 * (L/3 + 1), func() []byte {
			third, _ := ccodec.SnappyRaw(make([]byte, L/3+1))
			return xerial(third, third, third, third)
		}})
		// also what franz-go's own compressor emits for an oversize payload
		for _, c := range live {
			if len(c.prefs) == 1 && !c.prefs[0].set {
				bombs = append(bombs, bomb{int(c.prefs[0].codec), "bomb-own-compressor-3L", 3 * L, func() []byte {
					out, _ := c.comp.Compress(new(bytes.Buffer), make([]byte, 3*L))
					return bytes.Clone(out)
				}})
			}
		}
		vh.Parallel(len(bombs), workers, func(i int) {
			b := bombs[i]
			tb := time.Now()
			in := b.build()
			tbuild := time.Since(tb)
			for _, d := range lds {
				m.hostile(b.codec, fmt.Sprintf("L%d/%s", li, b.class), in, d, limit, true)
			}
			if os.Getenv("C19_TIMING") != "" && time.Since(tb) > time.Second {
				fmt.Printf("slow bomb %s %s: build %.1fs total %.1fs\n", ccodec.Name(b.codec), b.class, tbuild.Seconds(), time.Since(tb).Seconds())
			}
			if b.n > L {
				r.Count("bombs_over_limit", 1)
			} else {
				r.Count("bombs_at_or_under_limit", 1)
			}
		})

		phase("4a-bombs")
		// 4b. mutated valid streams, truncations and random bytes
		nHost := r.Pick(12000, 1_500_000)
		if li > 0 {
			nHost /= 4
		}
		vh.Parallel(workers*8, workers, func(w int) {
			rng := r.Rand(fmt.Sprintf("hostile%d", li), w)
			per := nHost / (workers * 8)
			for k := 0; k < per; k++ {
				codec := 1 + rng.IntN(4)
				d := lds[rng.IntN(len(lds))]
				switch rng.IntN(10) {
				case 0: // random bytes, sometimes behind the codec's magic
					in := make([]byte, rng.IntN(200))
					fill(rng, in)
					nt := false
					if rng.IntN(2) == 0 {
						in = append(bytes.Clone(magics[codec]), in...)
						if codec == ccodec.Snappy {
							in = append(bytes.Clone(ccodec.XerialHeader), in[8:]...)
						}
						nt = true
					}
					m.hostile(codec, "random", in, d, limit, nt)
				case 1: // raw snappy / xerial with random claimed sizes
					claim := uint64(rng.Uint32()) >> rng.IntN(32)
					body := make([]byte, rng.IntN(40))
					fill(rng, body)
					in := snappyClaiming(claim, body...)
					if rng.IntN(2) == 0 {
						in = xerial(in, snappyClaiming(uint64(rng.IntN(3*L)), body...))
					}
					m.hostile(ccodec.Snappy, "snappy-random-claim", in, d, limit, true)
				case 2:
					claim := rng.Uint64() >> rng.IntN(64)
					body := make([]byte, rng.IntN(64))
					in := zstdFrameClaiming(claim, body)
					m.hostile(ccodec.Zstd, "zstd-random-claim", in, d, limit, true)
				default:
					// a valid stream (sometimes itself a bomb), then 1-3 mutations
					n := rng.IntN(8 << 10)
					if rng.IntN(6) == 0 {
						n = L/2 + rng.IntN(2*L)
					}
					p := make([]byte, n)
					if rng.IntN(2) == 0 {
						pat := make([]byte, 1+rng.IntN(40))
						fill(rng, pat)
						for i := range p {
							p[i] = pat[i%len(pat)]
						}
					}
					var z []byte
					if codec == ccodec.Snappy && rng.IntN(2) == 0 {
						z, _ = ccodec.SnappyRaw(p)
					} else {
						z, _ = ccodec.Compress(codec, p)
					}
					class := "mutated"
					for q := 0; q < 1+rng.IntN(3); q++ {
						var how string
						z, how = mutate(rng, z)
						if q == 0 {
							class = "mutated-" + how
						}
					}
					m.hostile(codec, class, z, d, limit, true)
				}
			}
		})

		phase("4b-hostile")
		// 4c. every truncation point of one small valid stream per codec
		for codec := 1; codec <= 4; codec++ {
			rng := r.Rand("trunc", codec)
			p, _ := genPayload(rng, 2000)
			ref, _ := ccodec.Compress(codec, p)
			streams := [][]byte{ref}
			for _, c := range live {
				if len(c.prefs) == 1 && !c.prefs[0].set && int(c.prefs[0].codec) == codec {
					o, _ := c.comp.Compress(new(bytes.Buffer), p)
					streams = append(streams, bytes.Clone(o))
				}
			}
			for _, z := range streams {
				for k := 0; k <= len(z); k++ {
					m.hostile(codec, "truncation-sweep", z[:k], lds[k%len(lds)], limit, k >= 4)
				}
			}
		}
	}
	phase("4c-trunc")
	if defaultLimit > 0 {
		kgoMaxDecompressedSize = defaultLimit
	}

	r.Finish("exploration",
		"round trip: every single codec x level (in-range, edge and out-of-range) and 30+ preference lists x 5 flag sets x payloads (empty, 1 byte, random/zeros/repeats/text/mixed, sizes around 32K/64K/128K/1M block edges, up to several MiB), each judged by franz-go's decompressor (4 pool variants) and by the C library of the reported codec; valid streams of the C encoders (zlib levels, lz4 linked/independent blocks and content checksum, zstd levels, raw and xerial snappy with several block sizes) through franz-go's decompressor; hostile: crafted size claims at the default limit, and under a shrunk limit (256 KiB, 1 MiB, 100 kB) real bombs of limit-1..64x limit, cumulative multi-frame/xerial bombs, mutated/truncated valid streams, every truncation point of small streams, random bytes. Non-trivial: payload >= 1 byte (round trip) / input starts with the codec's magic or derives from a valid stream (hostile). Distinct by (reported codec, level, size class, payload kind, flags) / (codec, input class, outcome, pool variant)",
		"ccodec (cgo: zlib, liblz4, libsnappy, libzstd; xerial framing written in the harness) is the trusted independent decoder",
		"the maximum decompressed size is the unexported variable kgo.maxDecompressedSize (no public option exists); the check shrinks it through go:linkname exactly as the repository's own test assigns it, and judges 'never returns more than the limit in force when the decompressor was created'",
		"a valid foreign stream that franz-go rejects with an error is not judged (the statement allows 'data or an error'); only wrong data is",
		"at the default limit (2^31-1) only inputs that claim more are exercised, not streams that really expand past 2 GiB",
	)
}
