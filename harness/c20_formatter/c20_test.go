// C20 — record formatter output reads back with RecordReader.
//
// Monitor: round trip. Layouts are drawn from a generator of the sub-grammar in
// which every field is delimited by a size prefix (%T %K %V %H in any number
// format), has a fixed width (numbers in hex4..hex64 / big / little / byte),
// is an ascii number followed by a non-digit literal, or is text followed by a
// literal delimiter that cannot occur in the (encoded) content. Records are
// generated to fit the layout (numeric values within the width). The stream a
// RecordFormatter wrote for 1-50 records is read back with a RecordReader of
// the same layout through whole, one-byte, half, data+EOF and randomly chunked
// readers; every field named by the layout must come back, then io.EOF.
package c20

import (
	"bytes"
	"encoding/base64"
	"encoding/hex"
	"fmt"
	"io"
	"math"
	"math/rand/v2"
	"runtime"
	"strings"
	"testing"
	"testing/iotest"
	"time"

	"github.com/twmb/franz-go/pkg/kgo"

	"verifharness/internal/vh"
)

// ---------------------------------------------------------------- layout model

type numFmt struct {
	name string // text inside the braces; "" = no braces (ascii default)
	bits int    // 0: ascii (variable width, needs a non-digit after it)
}

var numFmts = []numFmt{
	{"", 0}, {"ascii", 0}, {"number", 0},
	{"hex64", 64}, {"hex32", 32}, {"hex16", 16}, {"hex8", 8}, {"hex4", 4},
	{"big64", 64}, {"big32", 32}, {"big16", 16}, {"big8", 8},
	{"little64", 64}, {"little32", 32}, {"little16", 16}, {"little8", 8},
	{"byte", 8},
}

func (n numFmt) verb(c byte) string {
	if n.name == "" {
		return "%" + string(c)
	}
	return "%" + string(c) + "{" + n.name + "}"
}

// maxUnsigned is the largest length/count the format can carry.
func (n numFmt) maxUnsigned() uint64 {
	if n.bits == 0 || n.bits == 64 {
		return math.MaxInt64
	}
	return 1<<uint(n.bits) - 1
}

const (
	encPlain = iota
	encHex
	encBase64
)

var encName = []string{"", "hex", "base64"}

type textSpec struct {
	verb  byte // 't', 'k', 'v'
	enc   int
	sized bool
	size  numFmt
	delim []byte // when !sized
}

func (t *textSpec) verbText() string {
	if t.enc == encPlain {
		return "%" + string(t.verb)
	}
	return "%" + string(t.verb) + "{" + encName[t.enc] + "}"
}

type numSpec struct {
	verb byte // p o e d x y
	f    numFmt
}

type hdrSpec struct {
	count  numFmt
	k, v   *textSpec // either may be nil (not both)
	layout string    // inner layout
}

type layoutSpec struct {
	layout   string
	t, k, v  *textSpec
	nums     map[byte]numFmt
	hdr      *hdrSpec
	nfields  int
	sizedEnc bool // some size-prefixed field is hex/base64 encoded
	maxLen   int  // cap for generated content
}

// element of a layout under construction
type elem struct {
	text    string // verb text
	after   []byte // literal that MUST follow (delimiter), nil if free
	needSep bool   // an ascii number: the following literal must start with a non-digit
}

var safeSeps = [][]byte{[]byte("\n"), []byte("\t"), []byte(" "), []byte(","), []byte(";"), []byte("|"), {0}, []byte("\r\n"), []byte("::"), []byte("-|-"), {1, 2}, []byte("~"), []byte("#!")}

// escapeLiteral writes raw bytes as layout text. inner: inside %h{...} (no % { } at all).
func escapeLiteral(rng *rand.Rand, lit []byte) string {
	var sb strings.Builder
	for _, c := range lit {
		switch {
		case c == '%':
			sb.WriteString("%%")
		case c == '{':
			sb.WriteString("%{")
		case c == '}':
			sb.WriteString("%}")
		case c == '\\':
			sb.WriteString(`\\`)
		case c == '\t' && rng.IntN(2) == 0:
			sb.WriteString(`\t`)
		case c == '\n' && rng.IntN(2) == 0:
			sb.WriteString(`\n`)
		case c == '\r' && rng.IntN(2) == 0:
			sb.WriteString(`\r`)
		case c < 0x20 || c >= 0x7f || rng.IntN(10) == 0:
			fmt.Fprintf(&sb, `\x%02x`, c)
		default:
			sb.WriteByte(c)
		}
	}
	return sb.String()
}

func genFreeLiteral(rng *rand.Rand, inner bool) []byte {
	if rng.IntN(2) == 0 {
		return nil
	}
	if rng.IntN(2) == 0 {
		return safeSeps[rng.IntN(len(safeSeps))]
	}
	n := 1 + rng.IntN(4)
	b := make([]byte, n)
	for i := range b {
		switch rng.IntN(4) {
		case 0:
			b[i] = byte(rng.Uint32())
		case 1:
			b[i] = "%{}\\ 0a9"[rng.IntN(8)]
		default:
			b[i] = byte(0x20 + rng.IntN(0x5f))
		}
		if inner && (b[i] == '%' || b[i] == '{' || b[i] == '}') {
			b[i] = '_'
		}
	}
	return b
}

func genNumFmt(rng *rand.Rand, minBits int) numFmt {
	for {
		f := numFmts[rng.IntN(len(numFmts))]
		if f.bits == 0 || f.bits >= minBits {
			return f
		}
	}
}

func genText(rng *rand.Rand, verb byte, sizedEncOK bool) *textSpec {
	t := &textSpec{verb: verb, enc: rng.IntN(3), sized: rng.IntN(3) != 0}
	if rng.IntN(3) == 0 {
		t.enc = encPlain
	}
	if t.sized && t.enc != encPlain && !sizedEncOK {
		if rng.IntN(2) == 0 {
			t.enc = encPlain
		} else {
			t.sized = false
		}
	}
	if t.sized {
		t.size = genNumFmt(rng, 4)
	} else {
		t.delim = safeSeps[rng.IntN(len(safeSeps))]
	}
	return t
}

// assemble turns elements into layout text, inserting the literals.
func assemble(rng *rand.Rand, elems []elem, inner bool) string {
	var sb strings.Builder
	sb.WriteString(escapeLiteral(rng, genFreeLiteral(rng, inner)))
	for _, e := range elems {
		sb.WriteString(e.text)
		switch {
		case e.after != nil:
			sb.WriteString(escapeLiteral(rng, e.after))
		case e.needSep:
			sb.WriteString(escapeLiteral(rng, safeSeps[rng.IntN(len(safeSeps))]))
		default:
			sb.WriteString(escapeLiteral(rng, genFreeLiteral(rng, inner)))
		}
	}
	return sb.String()
}

// place adds the elements of one text field: the text verb at the end and, when sized,
// the size verb either right before it or at a random earlier position.
func placeText(rng *rand.Rand, elems []elem, t *textSpec) []elem {
	te := elem{text: t.verbText()}
	if !t.sized {
		te.after = t.delim
		return append(elems, te)
	}
	se := elem{text: t.size.verb(t.verb - 'a' + 'A'), needSep: t.size.bits == 0}
	if rng.IntN(10) < 7 || len(elems) == 0 {
		return append(elems, se, te)
	}
	at := rng.IntN(len(elems) + 1)
	elems = append(elems[:at:at], append([]elem{se}, elems[at:]...)...)
	return append(elems, te)
}

func genLayout(rng *rand.Rand, sizedEncOK bool) *layoutSpec {
	ls := &layoutSpec{nums: map[byte]numFmt{}, maxLen: 40}
	switch rng.IntN(40) {
	case 0:
		ls.maxLen = 70_000 // more than one 64 KiB read chunk
	case 1, 2:
		ls.maxLen = 5_000
	case 3, 4, 5:
		ls.maxLen = 300
	}
	items := []byte("tkvhpoedxy")
	rng.Shuffle(len(items), func(i, j int) { items[i], items[j] = items[j], items[i] })
	n := 1 + rng.IntN(len(items))
	if rng.IntN(4) == 0 {
		n = 1 + rng.IntN(3)
	}
	var elems []elem
	for _, it := range items[:n] {
		switch it {
		case 't', 'k', 'v':
			t := genText(rng, it, sizedEncOK)
			switch it {
			case 't':
				ls.t = t
			case 'k':
				ls.k = t
			default:
				ls.v = t
			}
			if t.sized && t.enc != encPlain {
				ls.sizedEnc = true
			}
			elems = placeText(rng, elems, t)
			ls.nfields++
		case 'h':
			h := &hdrSpec{count: genNumFmt(rng, 4)}
			var in []elem
			order := rng.Perm(2)
			which := rng.IntN(4) // 0: key only, 1: value only, else both
			for _, o := range order {
				if o == 0 && which != 1 {
					h.k = genText(rng, 'k', sizedEncOK)
					in = placeText(rng, in, h.k)
				}
				if o == 1 && which != 0 {
					h.v = genText(rng, 'v', sizedEncOK)
					in = placeText(rng, in, h.v)
				}
			}
			for _, t := range []*textSpec{h.k, h.v} {
				if t != nil && t.sized && t.enc != encPlain {
					ls.sizedEnc = true
				}
			}
			h.layout = assemble(rng, in, true)
			ls.hdr = h
			ce := elem{text: h.count.verb('H'), needSep: h.count.bits == 0}
			he := elem{text: "%h{" + h.layout + "}"}
			if rng.IntN(10) < 7 || len(elems) == 0 {
				elems = append(elems, ce, he)
			} else {
				at := rng.IntN(len(elems) + 1)
				elems = append(elems[:at:at], append([]elem{ce}, elems[at:]...)...)
				elems = append(elems, he)
			}
			ls.nfields++
		default:
			f := numFmts[rng.IntN(len(numFmts))]
			ls.nums[it] = f
			elems = append(elems, elem{text: f.verb(it), needSep: f.bits == 0})
			ls.nfields++
		}
	}
	ls.layout = assemble(rng, elems, false)
	return ls
}

// ---------------------------------------------------------------- records

func genLen(rng *rand.Rand, limit uint64, maxLen int) int {
	m := uint64(maxLen)
	if limit < m {
		m = limit
	}
	switch rng.IntN(8) {
	case 0:
		return 0
	case 1:
		return int(m)
	case 2:
		return int(min(m, 1))
	}
	return int(rng.Uint64N(m + 1))
}

func genContent(rng *rand.Rand, t *textSpec, maxLen int) []byte {
	limit := uint64(math.MaxInt64)
	if t.sized {
		limit = t.size.maxUnsigned()
	}
	if !t.sized && maxLen > 5000 {
		maxLen = 5000 // delimiter search is byte by byte
	}
	n := genLen(rng, limit, maxLen)
	b := make([]byte, n)
	mode := rng.IntN(3)
	for i := range b {
		switch mode {
		case 0:
			b[i] = byte(rng.Uint32())
		case 1:
			b[i] = "0123456789abcdef%{}\\\n\t ,;|"[rng.IntN(26)]
		default:
			b[i] = byte(0x20 + rng.IntN(0x5f))
		}
	}
	if !t.sized && t.enc == encPlain {
		// the delimiter must not occur: none of its bytes appears in the content
		for i := range b {
			if bytes.IndexByte(t.delim, b[i]) >= 0 {
				b[i] = 'x'
			}
		}
	}
	return b
}

var fieldBits = map[byte]int{'p': 32, 'o': 64, 'e': 32, 'd': 64, 'x': 64, 'y': 16}

// genNum returns a value of the field's type that the format can carry.
func genNum(rng *rand.Rand, verb byte, f numFmt) int64 {
	fb := fieldBits[verb]
	maxPos := int64(1)<<uint(fb-1) - 1
	if verb == 'd' {
		maxPos = 9_000_000_000_000 // milliseconds whose nanoseconds fit an int64
	}
	pick := func(lo, hi int64) int64 { // inclusive, boundary-heavy
		switch rng.IntN(6) {
		case 0:
			return lo
		case 1:
			return hi
		case 2:
			if lo <= 0 && hi >= 0 {
				return 0
			}
			return lo
		case 3:
			if lo <= 1 && hi >= 1 {
				return 1
			}
			return hi
		}
		span := uint64(hi - lo)
		if span == math.MaxUint64 {
			return int64(rng.Uint64())
		}
		sh := rng.IntN(64)
		return lo + int64((rng.Uint64()>>uint(sh))%(span+1))
	}
	switch {
	case f.bits == 0: // ascii digits: non-negative only
		return pick(0, maxPos)
	case f.bits >= fb: // the whole two's complement range of the field survives
		lo := -maxPos - 1
		if verb == 'd' {
			lo = -maxPos
		}
		return pick(lo, maxPos)
	default: // narrower than the field: what fits unsigned
		hi := int64(1)<<uint(f.bits) - 1
		if hi > maxPos {
			hi = maxPos
		}
		return pick(0, hi)
	}
}

func genRecord(rng *rand.Rand, ls *layoutSpec) *kgo.Record {
	r := &kgo.Record{Timestamp: time.UnixMilli(1_700_000_000_000)}
	if ls.t != nil {
		r.Topic = string(genContent(rng, ls.t, min(ls.maxLen, 300)))
	}
	if ls.k != nil {
		r.Key = genContent(rng, ls.k, ls.maxLen)
	}
	if ls.v != nil {
		r.Value = genContent(rng, ls.v, ls.maxLen)
	}
	if h := ls.hdr; h != nil {
		n := genLen(rng, h.count.maxUnsigned(), 6)
		if rng.IntN(30) == 0 {
			n = int(min(h.count.maxUnsigned(), 40))
		}
		for i := 0; i < n; i++ {
			var rh kgo.RecordHeader
			if h.k != nil {
				rh.Key = string(genContent(rng, h.k, min(ls.maxLen, 300)))
			}
			if h.v != nil {
				rh.Value = genContent(rng, h.v, min(ls.maxLen, 300))
			}
			r.Headers = append(r.Headers, rh)
		}
	}
	for verb, f := range ls.nums {
		v := genNum(rng, verb, f)
		switch verb {
		case 'p':
			r.Partition = int32(v)
		case 'o':
			r.Offset = v
		case 'e':
			r.LeaderEpoch = int32(v)
		case 'd':
			r.Timestamp = time.UnixMilli(v)
		case 'x':
			r.ProducerID = v
		case 'y':
			r.ProducerEpoch = int16(v)
		}
	}
	return r
}

func short(b []byte) string {
	if len(b) > 48 {
		return fmt.Sprintf("%q...(%d bytes)", b[:48], len(b))
	}
	return fmt.Sprintf("%q", b)
}

func diffRecord(ls *layoutSpec, want, got *kgo.Record) (field, detail string) {
	if ls.t != nil && want.Topic != got.Topic {
		return "topic", fmt.Sprintf("want %s got %s", short([]byte(want.Topic)), short([]byte(got.Topic)))
	}
	if ls.k != nil && !bytes.Equal(want.Key, got.Key) {
		return "key", fmt.Sprintf("want %s got %s", short(want.Key), short(got.Key))
	}
	if ls.v != nil && !bytes.Equal(want.Value, got.Value) {
		return "value", fmt.Sprintf("want %s got %s", short(want.Value), short(got.Value))
	}
	if h := ls.hdr; h != nil {
		if len(want.Headers) != len(got.Headers) {
			return "headers", fmt.Sprintf("want %d headers got %d", len(want.Headers), len(got.Headers))
		}
		for i := range want.Headers {
			if h.k != nil && want.Headers[i].Key != got.Headers[i].Key {
				return "header-key", fmt.Sprintf("header %d: want %s got %s", i, short([]byte(want.Headers[i].Key)), short([]byte(got.Headers[i].Key)))
			}
			if h.v != nil && !bytes.Equal(want.Headers[i].Value, got.Headers[i].Value) {
				return "header-value", fmt.Sprintf("header %d: want %s got %s", i, short(want.Headers[i].Value), short(got.Headers[i].Value))
			}
		}
	}
	for verb := range ls.nums {
		switch verb {
		case 'p':
			if want.Partition != got.Partition {
				return "partition", fmt.Sprintf("want %d got %d", want.Partition, got.Partition)
			}
		case 'o':
			if want.Offset != got.Offset {
				return "offset", fmt.Sprintf("want %d got %d", want.Offset, got.Offset)
			}
		case 'e':
			if want.LeaderEpoch != got.LeaderEpoch {
				return "leader-epoch", fmt.Sprintf("want %d got %d", want.LeaderEpoch, got.LeaderEpoch)
			}
		case 'd':
			if !want.Timestamp.Equal(got.Timestamp) {
				return "timestamp", fmt.Sprintf("want %d ms got %d ms (%v)", want.Timestamp.UnixMilli(), got.Timestamp.UnixMilli(), got.Timestamp)
			}
		case 'x':
			if want.ProducerID != got.ProducerID {
				return "producer-id", fmt.Sprintf("want %d got %d", want.ProducerID, got.ProducerID)
			}
		case 'y':
			if want.ProducerEpoch != got.ProducerEpoch {
				return "producer-epoch", fmt.Sprintf("want %d got %d", want.ProducerEpoch, got.ProducerEpoch)
			}
		}
	}
	return "", ""
}

// ---------------------------------------------------------------- readers

type chunkReader struct {
	b   []byte
	rng *rand.Rand
	max int
}

func (c *chunkReader) Read(p []byte) (int, error) {
	if len(c.b) == 0 {
		return 0, io.EOF
	}
	n := 1 + c.rng.IntN(c.max)
	n = min(n, len(p), len(c.b))
	copy(p, c.b[:n])
	c.b = c.b[n:]
	return n, nil
}

var readerKinds = []string{"whole", "one-byte", "half", "data+eof", "chunks<=7", "chunks<=300", "one-byte data+eof"}

func mkReader(kind int, stream []byte, rng *rand.Rand) io.Reader {
	switch kind {
	case 0:
		return bytes.NewReader(stream)
	case 1:
		return iotest.OneByteReader(bytes.NewReader(stream))
	case 2:
		return iotest.HalfReader(bytes.NewReader(stream))
	case 3:
		return iotest.DataErrReader(bytes.NewReader(stream))
	case 4:
		return &chunkReader{b: stream, rng: rng, max: 7}
	case 5:
		return &chunkReader{b: stream, rng: rng, max: 300}
	default:
		return iotest.DataErrReader(iotest.OneByteReader(bytes.NewReader(stream)))
	}
}

// ---------------------------------------------------------------- the check

type failer struct{ r *vh.Run }

const sigSizedEnc = "size-prefixed-hex-or-base64-text-not-read-back"

func (f *failer) fail(ls *layoutSpec, sig string, detail map[string]any) {
	if ls.sizedEnc {
		// one root cause, one signature: see the note in the rule text
		detail["first_symptom"] = sig
		sig = sigSizedEnc
	}
	detail["layout"] = ls.layout
	f.r.Violation(sig, detail)
}

func recJSON(r *kgo.Record) map[string]any {
	var hs []string
	for _, h := range r.Headers {
		hs = append(hs, fmt.Sprintf("%q=%s", h.Key, hex.EncodeToString(h.Value)))
	}
	return map[string]any{"topic_hex": hex.EncodeToString([]byte(r.Topic)), "key_hex": hex.EncodeToString(r.Key), "value_hex": hex.EncodeToString(r.Value), "headers": hs,
		"partition": r.Partition, "offset": r.Offset, "leader_epoch": r.LeaderEpoch, "timestamp_ms": r.Timestamp.UnixMilli(), "producer_id": r.ProducerID, "producer_epoch": r.ProducerEpoch}
}

func streamHead(b []byte) string {
	if len(b) > 160 {
		return base64.StdEncoding.EncodeToString(b[:160]) + fmt.Sprintf("...(%d bytes, base64)", len(b))
	}
	return base64.StdEncoding.EncodeToString(b) + " (base64)"
}

// checkLayout runs one layout with nstreams streams; returns false if it failed.
func checkLayout(f *failer, r *vh.Run, rng *rand.Rand, ls *layoutSpec) bool {
	var fm *kgo.RecordFormatter
	var err error
	if p := vh.Catch(func() { fm, err = kgo.NewRecordFormatter(ls.layout) }); p != nil || err != nil {
		f.fail(ls, "layout-rejected-by-NewRecordFormatter", map[string]any{"error": fmt.Sprint(err), "panic": fmt.Sprint(p)})
		return false
	}
	var rd *kgo.RecordReader
	if p := vh.Catch(func() { rd, err = kgo.NewRecordReader(bytes.NewReader(nil), ls.layout) }); p != nil || err != nil {
		f.fail(ls, "layout-rejected-by-NewRecordReader", map[string]any{"error": fmt.Sprint(err), "panic": fmt.Sprint(p)})
		return false
	}
	nstreams := 2
	for s := 0; s < nstreams; s++ {
		nrec := 1 + rng.IntN(4)
		switch rng.IntN(6) {
		case 0:
			nrec = 1
		case 1:
			nrec = 5 + rng.IntN(46)
		}
		if ls.maxLen > 5000 {
			nrec = min(nrec, 3)
		}
		recs := make([]*kgo.Record, nrec)
		var stream []byte
		var ends []int
		for i := range recs {
			recs[i] = genRecord(rng, ls)
			if p := vh.Catch(func() { stream = fm.AppendRecord(stream, recs[i]) }); p != nil {
				f.fail(ls, "formatter-panicked", map[string]any{"panic": fmt.Sprint(p), "record": recJSON(recs[i])})
				return false
			}
			ends = append(ends, len(stream))
		}
		kinds := []int{0, 1, 4}
		kinds = append(kinds, 2+rng.IntN(len(readerKinds)-2))
		for ki, kind := range kinds {
			reader := mkReader(kind, stream, rng)
			useRd := rd
			if ki == 0 && s == 0 { // a fresh reader; later runs reuse it through SetReader
				useRd, _ = kgo.NewRecordReader(reader, ls.layout)
			} else {
				useRd.SetReader(reader)
			}
			bad := func(sig string, i int, extra map[string]any) bool {
				d := map[string]any{"reader": readerKinds[kind], "records_in_stream": nrec, "record_index": i, "stream": streamHead(stream)}
				if i >= 0 && i < nrec {
					d["record"] = recJSON(recs[i])
					lo := 0
					if i > 0 {
						lo = ends[i-1]
					}
					d["record_bytes"] = streamHead(stream[lo:ends[i]])
				}
				for k, v := range extra {
					d[k] = v
				}
				f.fail(ls, sig, d)
				return false
			}
			for i := 0; i < nrec; i++ {
				var got *kgo.Record
				var rerr error
				into := rng.IntN(2) == 0
				if p := vh.Catch(func() {
					if into {
						got = new(kgo.Record)
						rerr = useRd.ReadRecordInto(got)
					} else {
						got, rerr = useRd.ReadRecord()
					}
				}); p != nil {
					return bad("reader-panicked-on-formatter-output", i, map[string]any{"panic": fmt.Sprint(p)})
				}
				if rerr != nil {
					return bad("read-error-on-formatter-output", i, map[string]any{"error": rerr.Error()})
				}
				if field, detail := diffRecord(ls, recs[i], got); field != "" {
					return bad("field-not-recovered/"+field, i, map[string]any{"diff": detail, "got": recJSON(got)})
				}
			}
			for again := 0; again < 2; again++ {
				var rerr error
				var got *kgo.Record
				if p := vh.Catch(func() { got, rerr = useRd.ReadRecord() }); p != nil {
					return bad("reader-panicked-at-end-of-stream", nrec, map[string]any{"panic": fmt.Sprint(p)})
				}
				if rerr != io.EOF {
					extra := map[string]any{"error": fmt.Sprint(rerr), "call_after_last_record": again + 1}
					if rerr == nil && got != nil {
						extra["got"] = recJSON(got)
					}
					return bad("no-io.EOF-at-end-of-stream", nrec, extra)
				}
			}
			r.Count("records_read_back", nrec)
		}
		r.Count("streams", 1)
	}
	return true
}

func TestCheck(t *testing.T) {
	r := vh.Start(t, "C20")
	f := &failer{r: r}
	workers := runtime.NumCPU()

	// hand-written layouts first (so that the simplest witnesses are the ones recorded)
	b16, b32, b64 := numFmt{"big16", 16}, numFmt{"big32", 32}, numFmt{"big64", 64}
	sizedT := func(verb byte, enc int, f numFmt) *textSpec {
		return &textSpec{verb: verb, enc: enc, sized: true, size: f}
	}
	delimT := func(verb byte, enc int, d string) *textSpec { return &textSpec{verb: verb, enc: enc, delim: []byte(d)} }
	fixed := []*layoutSpec{
		{layout: "%T{big16}%t%K{big32}%k%V{big32}%v%H{big16}%h{%K{big16}%k%V{big32}%v}%p{big32}%o{big64}%d{big64}%e{big32}%x{big64}%y{big16}",
			t: sizedT('t', encPlain, b16), k: sizedT('k', encPlain, b32), v: sizedT('v', encPlain, b32),
			hdr:  &hdrSpec{count: b16, k: sizedT('k', encPlain, b16), v: sizedT('v', encPlain, b32)},
			nums: map[byte]numFmt{'p': b32, 'o': b64, 'd': b64, 'e': b32, 'x': b64, 'y': b16}, nfields: 10, maxLen: 300},
		{layout: "%t\\t%k{hex}\\t%v{base64}\\n", t: delimT('t', encPlain, "\t"), k: delimT('k', encHex, "\t"), v: delimT('v', encBase64, "\n"), nums: map[byte]numFmt{}, nfields: 3, maxLen: 40},
		{layout: "%K:%k %V:%v %H;%h{%K,%k=%V,%v;}|%p/%o/%e/%d/%x/%y\\n", k: sizedT('k', encPlain, numFmt{}), v: sizedT('v', encPlain, numFmt{}),
			hdr:  &hdrSpec{count: numFmt{}, k: sizedT('k', encPlain, numFmt{}), v: sizedT('v', encPlain, numFmt{})},
			nums: map[byte]numFmt{'p': {}, 'o': {}, 'e': {}, 'd': {}, 'x': {}, 'y': {}}, nfields: 9, maxLen: 40},
		{layout: "%V{big32}%v{hex}", v: sizedT('v', encHex, b32), nums: map[byte]numFmt{}, nfields: 1, maxLen: 2, sizedEnc: true},
		{layout: "%K{byte}%k{base64}", k: sizedT('k', encBase64, numFmt{"byte", 8}), nums: map[byte]numFmt{}, nfields: 1, maxLen: 3, sizedEnc: true},
	}
	for i, ls := range fixed {
		checkLayout(f, r, r.Rand("fixed", i), ls)
		r.Eval(1)
		r.Distinct("fixed:" + ls.layout)
	}

	n := r.Pick(16_000, 500_000)
	vh.Parallel(workers, workers, func(w int) {
		rng := r.Rand("layouts", w)
		for k := 0; k < n/workers; k++ {
			// 1 layout in 12 may put a size prefix on hex/base64 text (see rule)
			ls := genLayout(rng, rng.IntN(12) == 0)
			ok := checkLayout(f, r, rng, ls)
			r.Eval(1)
			if ls.sizedEnc {
				r.Count("layouts_with_size_prefixed_encoded_text", 1)
				if !ok {
					r.Count("layouts_with_size_prefixed_encoded_text_failed", 1)
				}
			}
			if ls.nfields >= 2 {
				r.DistinctHash(ls.layout)
			}
			if ls.nfields >= 5 && ls.hdr != nil && r.WantSample() {
				r.Sample(map[string]any{"layout": ls.layout})
			}
			if r.Violations() >= 20 {
				return
			}
		}
	})
	r.Set("exhaustive", false)
	r.Finish("exploration",
		"a case = one generated layout (random subset and order of %t %k %v %H/%h %p %o %e %d %x %y; text plain/hex/base64, size-prefixed by %T/%K/%V in any of 17 number formats (adjacent or hoisted earlier) or followed by a delimiter that cannot occur in the content; header spec with %K%k%V%v in any order; numbers ascii+non-digit literal or fixed width; random escaped literals incl. %% %{ %} \\\\ \\xNN) with 2 streams of 1-50 records fitted to the layout (arbitrary bytes, lengths up to the size format's width, numeric boundaries, negative values when the width covers the field), each stream read through 4 reader kinds (whole, one byte, random chunks, one of half/data+EOF/...), ReadRecord and ReadRecordInto, SetReader reuse, then two extra reads that must return io.EOF. Non-trivial: layout has >= 2 fields; distinct by hash(layout)",
		"record generation fits the layout: ascii numbers are non-negative, a value narrower formats carry is within [0, 2^width), a format at least as wide as the field carries the field's whole two's-complement range, timestamps are whole milliseconds within +-9e12 ms",
		"delimited plain text never contains a byte of its delimiter; delimiters never contain hex/base64 alphabet bytes; an ascii number is always followed by a literal that starts with a non-digit; literals inside %h{...} avoid % { }",
		"writer-only or reader-only syntax is left out: %v{hex} numbers, bool, base64raw, unpack, json, re, %d{go/strftime}, %a, %i, %D, %A, fixed sizes like %V{3}",
		"layouts in which a size prefix (%T/%K/%V) sizes a hex- or base64-encoded field are in the property's grammar; any failure of such a layout is reported under the single signature "+sigSizedEnc+" (the formatter writes the raw length, the reader reads that many ENCODED bytes)",
	)
}
