// C21 — request versions are negotiated within all bounds.
//
// Monitor: a scripted broker (internal/rawkafka) advertises seeded [min,max]
// ranges per key (missing keys, raised minimums, ApiVersions itself capped
// with KIP-511 / pre-2.4 / all-keys / connection-reset replies) and records the
// header of every frame the client writes. A kgo client with seeded
// MaxVersions / MinVersions issues a request of every kmsg key to that one
// broker; an oracle written from the property statement predicts, per call,
// either the exact header version or "fails and no frame of that key is
// written". Requests whose shape selects an internal pin (batched vs single
// FindCoordinator / OffsetFetch, AddPartitionsToTxn) go through cl.Request and
// are judged with the pin included. A second part taps every frame a real
// produce / group-consume / transact workload writes to kfake and judges the
// bound form against the ranges kfake itself advertised on the wire.
package c21

import (
	"strings"
	"io"
	"context"
	"errors"
	"fmt"
	"runtime"
	"sort"
	"sync"
	"sync/atomic"
	"testing"
	"time"

	"github.com/twmb/franz-go/pkg/kgo"
	"github.com/twmb/franz-go/pkg/kmsg"
	"github.com/twmb/franz-go/pkg/kversion"

	"verifharness/internal/rawkafka"
	"verifharness/internal/vh"
)

type failer struct {
	r *vh.Run
	n atomic.Int64
}

func (f *failer) fail(sig string, detail any) {
	f.n.Add(1)
	f.r.Violation(sig, detail)
}

var allKeys = func() []int16 {
	var ks []int16
	for k := int16(0); k <= kmsg.MaxKey; k++ {
		if kmsg.RequestForKey(k) != nil {
			ks = append(ks, k)
		}
	}
	return ks
}()

func kmsgMax(k int16) int16 { return kmsg.RequestForKey(k).MaxVersion() }

var releases = []struct {
	name string
	fn   func() *kversion.Versions
}{
	{"0.8.0", kversion.V0_8_0}, {"0.9.0", kversion.V0_9_0}, {"0.10.0", kversion.V0_10_0}, {"0.10.2", kversion.V0_10_2},
	{"0.11.0", kversion.V0_11_0}, {"1.0.0", kversion.V1_0_0}, {"2.0.0", kversion.V2_0_0}, {"2.3.0", kversion.V2_3_0},
	{"2.4.0", kversion.V2_4_0}, {"2.8.0", kversion.V2_8_0}, {"3.0.0", kversion.V3_0_0}, {"3.5.0", kversion.V3_5_0},
	{"3.9.0", kversion.V3_9_0}, {"4.0.0", kversion.V4_0_0}, {"4.2.0", kversion.V4_2_0}, {"stable", kversion.Stable}, {"tip", kversion.Tip},
}

// table is an independent copy of a kversion table (key -> max).
type table map[int16]int16

func tableOf(v *kversion.Versions) table {
	t := table{}
	v.EachMaxKeyVersion(func(k, m int16) { t[k] = m })
	return t
}

func (t table) versions() *kversion.Versions {
	v := new(kversion.Versions)
	for k, m := range t {
		v.SetMaxKeyVersion(k, m)
	}
	return v
}

// caseCfg is everything that determines one scripted-broker case.
type caseCfg struct {
	Kind       string                   `json:"kind"`
	Adv        map[int16]rawkafka.Range `json:"advertised"`
	ApiMax     int16                    `json:"apiversions_max"`
	Mode       rawkafka.UnsupportedMode `json:"unsupported_mode"`
	UserMax    table                    `json:"user_max"` // nil with UserMaxSet: unbounded; !UserMaxSet: default (Stable)
	UserMaxSet bool                     `json:"user_max_set"`
	UserMaxNm  string                   `json:"user_max_name"`
	UserMin    table                    `json:"user_min"`
	UserMinNm  string                   `json:"user_min_name"`
}

// effMax returns the user-side maximum table in effect (nil = unbounded).
func (c *caseCfg) effMax() table {
	if !c.UserMaxSet {
		return tableOf(kversion.Stable())
	}
	return c.UserMax
}

// prediction for one (key) under a case.
type prediction struct {
	Written bool   // a frame must be written
	Version int16  // with exactly this version (equality form)
	Lower   int16  // and at least this
	Class   string // which bound decided
	Why     string
	// ProduceQuirk: the key is missing from the advertisement AND Produce
	// (key 0) is missing too: the statement still says "fails unwritten".
	ProduceQuirk bool
}

func min16(a, b int16) int16 {
	if a < b {
		return a
	}
	return b
}

func predict(c *caseCfg, key int16, loaded bool) prediction {
	um := c.effMax()
	if um != nil {
		if _, ok := um[key]; !ok {
			return prediction{Class: "user-max-missing-key", Why: "key absent from MaxVersions"}
		}
	}
	upper := kmsgMax(key)
	class := "client"
	lower := int16(-1)
	if loaded {
		br, ok := c.Adv[key]
		if !ok {
			_, hasProduce := c.Adv[0]
			return prediction{Class: "broker-missing-key", Why: "key absent from the ApiVersions reply", ProduceQuirk: !hasProduce}
		}
		if br.Max < upper {
			upper, class = br.Max, "broker"
		} else if br.Max == upper {
			class += "=broker"
		}
		lower = br.Min
	}
	if um != nil {
		if um[key] < upper {
			upper, class = um[key], "user"
		} else if um[key] == upper {
			class += "=user"
		}
	}
	lowerClass := "brokermin"
	if c.UserMin != nil {
		if m, ok := c.UserMin[key]; ok && m > lower {
			lower, lowerClass = m, "usermin"
		}
	}
	switch {
	case lower > upper:
		return prediction{Class: class + "/" + lowerClass + ">max", Why: fmt.Sprintf("lower bound %d above upper bound %d", lower, upper)}
	case lower == upper:
		class += "/" + lowerClass + "=max"
	case lower > 0:
		class += "/" + lowerClass + ">0"
	}
	return prediction{Written: true, Version: upper, Lower: lower, Class: class}
}

func genCase(r *vh.Run, idx int, kind string) *caseCfg {
	rng := r.Rand("case-"+kind, idx)
	c := &caseCfg{Kind: kind, Adv: map[int16]rawkafka.Range{}}
	style := rng.IntN(5)
	var rel table
	if style == 1 {
		rel = tableOf(releases[rng.IntN(len(releases))].fn())
	}
	for _, k := range allKeys {
		km := kmsgMax(k)
		switch style {
		case 0: // near the client's own ranges
			if rng.IntN(12) == 0 {
				continue
			}
			mx := km + int16(rng.IntN(5)) - 2
			if mx < 0 {
				mx = 0
			}
			c.Adv[k] = rawkafka.Range{Min: 0, Max: mx}
		case 1: // a release table, occasionally raised minimums
			m, ok := rel[k]
			if !ok {
				continue
			}
			mn := int16(0)
			if rng.IntN(6) == 0 {
				mn = int16(rng.IntN(int(m) + 1))
			}
			c.Adv[k] = rawkafka.Range{Min: mn, Max: m}
		case 2: // arbitrary
			if rng.IntN(8) == 0 {
				continue
			}
			mx := int16(rng.IntN(int(km) + 3))
			c.Adv[k] = rawkafka.Range{Min: int16(rng.IntN(int(mx) + 1)), Max: mx}
		case 3: // controller-like: no Produce/Fetch, many keys missing
			if k == 0 || k == 1 || rng.IntN(3) == 0 {
				continue
			}
			c.Adv[k] = rawkafka.Range{Min: 0, Max: int16(rng.IntN(int(km) + 2))}
		case 4: // a broker newer than the client: minimums at or above the client's maximum
			mn := km - 1 + int16(rng.IntN(4))
			if mn < 0 {
				mn = 0
			}
			c.Adv[k] = rawkafka.Range{Min: mn, Max: mn + int16(rng.IntN(3))}
		}
	}
	// ApiVersions itself: always answered; advertised range and what the broker understands
	c.ApiMax = int16(rng.IntN(5))
	if rng.IntN(3) == 0 {
		c.ApiMax = 4
	}
	if rng.IntN(10) != 0 {
		c.Adv[18] = rawkafka.Range{Min: 0, Max: c.ApiMax}
	} else {
		delete(c.Adv, 18)
	}
	c.Mode = rawkafka.UnsupportedMode(rng.IntN(3)) // KIP511, Pre24, AllKeys
	if kind == "reset" {
		c.Mode = rawkafka.ResetConn
		c.ApiMax = int16(rng.IntN(4))
		c.Adv[18] = rawkafka.Range{Min: 0, Max: c.ApiMax}
	}

	// user maximum
	switch u := rng.IntN(10); {
	case kind == "noapi":
		// a table without key 18
		c.UserMaxSet = true
		if rng.IntN(2) == 0 {
			rl := releases[rng.IntN(2)] // 0.8.0, 0.9.0: before ApiVersions existed
			c.UserMax, c.UserMaxNm = tableOf(rl.fn()), rl.name
		} else {
			rl := releases[rng.IntN(len(releases))]
			c.UserMax, c.UserMaxNm = tableOf(rl.fn()), rl.name+"-minus-18"
		}
		delete(c.UserMax, 18)
	case u < 3: // default (Stable)
	case u < 4:
		c.UserMaxSet, c.UserMaxNm = true, "nil"
	case u < 7:
		rl := releases[2+rng.IntN(len(releases)-2)]
		c.UserMaxSet, c.UserMax, c.UserMaxNm = true, tableOf(rl.fn()), rl.name
	default:
		c.UserMaxSet, c.UserMax, c.UserMaxNm = true, table{}, "custom"
		for _, k := range allKeys {
			if rng.IntN(10) == 0 {
				continue
			}
			c.UserMax[k] = int16(rng.IntN(int(kmsgMax(k)) + 2))
		}
		c.UserMax[18] = int16(rng.IntN(5)) // ApiVersions 0..4
	}
	// user minimum
	switch u := rng.IntN(10); {
	case u < 5:
	case u < 7:
		rl := releases[rng.IntN(len(releases))]
		c.UserMin, c.UserMinNm = tableOf(rl.fn()), rl.name
	default:
		c.UserMin, c.UserMinNm = table{}, "custom"
		for _, k := range allKeys {
			if rng.IntN(3) == 0 {
				c.UserMin[k] = int16(rng.IntN(int(kmsgMax(k)) + 2))
			}
		}
	}
	return c
}

func (c *caseCfg) clientOpts(addr string) []kgo.Opt {
	o := []kgo.Opt{
		kgo.SeedBrokers(addr), kgo.DisableClientMetrics(), kgo.ClientID("c21"),
		kgo.RequestRetries(0), kgo.RetryTimeout(2 * time.Second),
	}
	if c.UserMaxSet {
		if c.UserMax == nil {
			o = append(o, kgo.MaxVersions(nil))
		} else {
			o = append(o, kgo.MaxVersions(c.UserMax.versions()))
		}
	}
	if c.UserMin != nil {
		o = append(o, kgo.MinVersions(c.UserMin.versions()))
	}
	return o
}

type callObs struct {
	Key     int16   `json:"key"`
	Name    string  `json:"name"`
	Err     string  `json:"err,omitempty"`
	Frames  []int16 `json:"frame_versions_of_key"`
	NewConn bool    `json:"opened_connection"`
	Pred    prediction
}

// runScripted runs one scripted-broker case: every key once, through the seed broker.
func runScripted(r *vh.Run, f *failer, idx int, kind string) {
	c := genCase(r, idx, kind)
	rng := r.Rand("order-"+kind, idx)
	am := c.ApiMax
	b, err := rawkafka.New(rawkafka.Config{
		NodeID:   1,
		Versions: rawkafka.Versions{Ranges: c.Adv, ApiVersionsMax: &am, OnUnsupported: c.Mode},
	})
	if err != nil {
		r.Inconclusive("scripted broker: " + err.Error())
		return
	}
	defer b.Close()
	cl, err := kgo.NewClient(c.clientOpts(b.Addr())...)
	if err != nil {
		r.Inconclusive("client: " + err.Error())
		return
	}
	defer cl.Close()
	seed := cl.SeedBrokers()[0]

	um := c.effMax()
	_, user18 := um[18]
	loaded := um == nil || user18 // the client asks ApiVersions on every new connection

	// issue order: random, but ApiVersions (18) only after another plain-connection key warmed it
	keys := append([]int16(nil), allKeys...)
	rng.Shuffle(len(keys), func(i, j int) { keys[i], keys[j] = keys[j], keys[i] })
	for i, k := range keys {
		if k == 18 && i < 3 {
			keys[i], keys[len(keys)-1] = keys[len(keys)-1], keys[i]
		}
	}
	// warm the plain connection with a Metadata request (judged like any other)
	keys = append([]int16{3}, keys...)

	userFrames := map[int64]bool{} // Seq of frames attributed to user calls
	ambiguous := map[int64]bool{}  // connections whose ApiVersions frames cannot be attributed
	var calls []callObs
	for _, k := range keys {
		req := kmsg.RequestForKey(k)
		req.SetVersion(int16(rng.IntN(20)) - 2) // must be ignored by the client
		n0, c0 := b.NumRequests(), b.Conns()
		ctx, cancel := context.WithTimeout(context.Background(), 10*time.Second)
		var rerr error
		p := vh.Catch(func() { _, rerr = seed.Request(ctx, req) })
		cancel()
		if p != nil {
			r.Inconclusive(fmt.Sprintf("panic issuing key %d: %v", k, p))
			return
		}
		if errors.Is(rerr, context.DeadlineExceeded) {
			r.Inconclusive(fmt.Sprintf("%s case %d key %d: call did not return within 10s (real time)", kind, idx, k))
			return
		}
		hs := b.Requests()[n0:]
		o := callObs{Key: k, Name: kmsg.NameForKey(k), NewConn: b.Conns() != c0, Pred: predict(c, k, loaded)}
		if rerr != nil {
			o.Err = rerr.Error()
		}
		var mine []rawkafka.Header
		for _, h := range hs {
			if h.Key == k {
				mine = append(mine, h)
			}
		}
		if k == 7 && o.Pred.Written && o.Pred.Version == 0 {
			// ControlledShutdown v0 uses request header v0; kmsg's AppendRequest returns early for it and
			// leaves a zero size prefix and no body, so no frame can be parsed off the wire (reported
			// separately; it is an encoding matter, not a version-selection one)
			r.Count("dontcare_controlledshutdown_v0_unparseable_frame", 1)
			calls = append(calls, o)
			continue
		}
		if k == 18 && o.NewConn {
			// init frames and the user's frame cannot be told apart by position alone: not judged
			r.Count("dontcare_apiversions_on_cold_connection", 1)
			for _, h := range mine {
				ambiguous[h.Conn] = true
			}
			calls = append(calls, o)
			continue
		}
		for _, h := range mine {
			o.Frames = append(o.Frames, h.Version)
			userFrames[h.Seq] = true
			kr := kmsg.RequestForKey(h.Key)
			kr.SetVersion(h.Version)
			if err := kr.ReadFrom(h.Body); err != nil {
				if r.Counter("undecodable_request_bodies") < 3 {
					fmt.Printf("note: %s v%d body does not decode with kmsg: %v\n", kmsg.NameForKey(h.Key), h.Version, err)
				}
				r.Count("undecodable_request_bodies", 1)
			}
		}
		calls = append(calls, o)
		judgeCall(r, f, c, &o, idx)
	}

	judgeInit(r, f, c, b.Requests(), userFrames, ambiguous, loaded, idx)
	if kind == "readvertise" && loaded {
		// the broker is "restarted" with another version: it advertises a different table and
		// every connection dies; from the client's next connection on, requests must be
		// negotiated against the NEW table (the user's bounds are unchanged)
		c2 := *c
		other := genCase(r, idx+1<<20, "ranges")
		c2.Adv, c2.ApiMax, c2.Mode = other.Adv, other.ApiMax, other.Mode
		am2 := c2.ApiMax
		b.SetVersions(rawkafka.Versions{Ranges: c2.Adv, ApiVersionsMax: &am2, OnUnsupported: c2.Mode})
		b.KillConns()
		b.WaitConnsClosed(2 * time.Second)
		// The client can only negotiate against what it has been told: calls are judged against
		// the new table once it has asked ApiVersions again on a fresh connection. Until then
		// (its cached connection objects may not have noticed they are dead) Metadata calls are
		// issued without judging them.
		switched := b.NumRequests()
		told := false
		for try := 0; try < 20 && !told; try++ {
			ctx, cancel := context.WithTimeout(context.Background(), 5*time.Second)
			vh.Catch(func() { seed.Request(ctx, kmsg.NewPtrMetadataRequest()) })
			cancel()
			for _, h := range b.Requests()[switched:] {
				if h.Key == 18 {
					told = true
				}
			}
		}
		if !told {
			r.Count("readvertise_client_never_asked_again", 1)
			return
		}
		rng.Shuffle(len(keys), func(i, j int) { keys[i], keys[j] = keys[j], keys[i] })
		keys2 := append([]int16{3}, keys...)
		for _, k := range keys2 {
			if k == 18 || k == 7 {
				continue // attribution of ApiVersions frames / unparseable ControlledShutdown v0: judged in phase one only
			}
			req := kmsg.RequestForKey(k)
			n0, c0 := b.NumRequests(), b.Conns()
			var rerr error
			var p any
			for try := 0; try < 3; try++ {
				ctx, cancel := context.WithTimeout(context.Background(), 10*time.Second)
				p = vh.Catch(func() { _, rerr = seed.Request(ctx, req) })
				cancel()
				// a call that ran into one of the connections we just killed (EOF / reset, nothing
				// of this key reached the broker) says nothing about versions: issue it again
				if p == nil && rerr != nil && b.NumRequests() == n0 && !errors.Is(rerr, context.DeadlineExceeded) &&
					(errors.Is(rerr, io.EOF) || strings.Contains(rerr.Error(), "connection") || strings.Contains(rerr.Error(), "EOF") || strings.Contains(rerr.Error(), "broken pipe")) {
					r.Count("readvertise_call_hit_dying_connection", 1)
					continue
				}
				break
			}
			if p != nil || errors.Is(rerr, context.DeadlineExceeded) {
				r.Inconclusive(fmt.Sprintf("readvertise case %d key %d: panic %v / err %v", idx, k, p, rerr))
				return
			}
			o := callObs{Key: k, Name: kmsg.NameForKey(k), NewConn: b.Conns() != c0, Pred: predict(&c2, k, loaded)}
			if rerr != nil {
				o.Err = rerr.Error()
			}
			for _, h := range b.Requests()[n0:] {
				if h.Key == k {
					o.Frames = append(o.Frames, h.Version)
				}
			}
			r.Count("calls_after_readvertisement", 1)
			judgeCall(r, f, &c2, &o, idx)
		}
	}
	if r.WantSample() {
		r.Sample(map[string]any{"kind": kind, "case": idx, "user_max": c.UserMaxNm, "user_min": c.UserMinNm, "apiversions_max": c.ApiMax,
			"mode": c.Mode, "first_calls": calls[:6]})
	}
}

func judgeCall(r *vh.Run, f *failer, c *caseCfg, o *callObs, idx int) {
	r.Eval(1)
	p := o.Pred
	det := func() any {
		var adv any = "missing"
		if a, ok := c.Adv[o.Key]; ok {
			adv = a
		}
		um, umin := any("unbounded"), any("none")
		if t := c.effMax(); t != nil {
			if v, ok := t[o.Key]; ok {
				um = v
			} else {
				um = "key missing"
			}
		}
		if v, ok := c.UserMin[o.Key]; ok {
			umin = v
		}
		_, hasProduce := c.Adv[0]
		return map[string]any{"case": idx, "kind": c.Kind, "key": o.Key, "name": o.Name, "kmsg_max": kmsgMax(o.Key), "broker_advertised": adv,
			"broker_advertises_produce": hasProduce, "user_max_table": c.UserMaxNm, "user_max": um, "user_min": umin,
			"predicted": p, "observed_frame_versions": o.Frames, "observed_err": o.Err}
	}
	// distinctness: advertised range differs from the client's range for the key
	if a, ok := c.Adv[o.Key]; !ok || a.Min != 0 || a.Max != kmsgMax(o.Key) {
		r.Distinct(fmt.Sprintf("%d/%s", o.Key, p.Class))
	}
	r.Count("class:"+p.Class, 1)
	if !p.Written {
		if len(o.Frames) > 0 {
			if p.ProduceQuirk {
				f.fail("unadvertised key written when the broker does not advertise Produce", det())
			} else {
				f.fail("request written although no admissible version exists", det())
			}
			return
		}
		if o.Err == "" {
			f.fail("request without admissible version returned no error", det())
		}
		r.Count("failed_unwritten", 1)
		return
	}
	if len(o.Frames) == 0 {
		f.fail("request with an admissible version was not written", det())
		return
	}
	if len(o.Frames) > 1 {
		f.fail("single Broker.Request wrote several frames", det())
		return
	}
	v := o.Frames[0]
	switch {
	case v > p.Version:
		f.fail("written version above a maximum", det())
	case v < p.Lower:
		f.fail("written version below a minimum", det())
	case v != p.Version:
		f.fail("written version is not the highest admissible one", det())
	}
	if o.Err != "" {
		// the scripted broker answered with a well-formed zero response: the call should succeed
		r.Count("written_but_call_errored", 1)
	}
	r.Count("written", 1)
}

// judgeInit checks the ApiVersions frames the client writes on its own when
// opening connections.
func judgeInit(r *vh.Run, f *failer, c *caseCfg, hs []rawkafka.Header, userFrames map[int64]bool, ambiguous map[int64]bool, loaded bool, idx int) {
	byConn := map[int64][]rawkafka.Header{}
	var order []int64
	for _, h := range hs {
		if _, ok := byConn[h.Conn]; !ok {
			order = append(order, h.Conn)
		}
		byConn[h.Conn] = append(byConn[h.Conn], h)
	}
	clientMax := int16(4)
	if um := c.effMax(); um != nil {
		if v, ok := um[18]; ok && v < clientMax {
			clientMax = v
		}
	}
	resets := 0 // consecutive connections reset so far (for the third-try fallback)
	for _, cn := range order {
		if ambiguous[cn] {
			continue
		}
		var init []int16
		for _, h := range byConn[cn] {
			if h.Key == 18 && !userFrames[h.Seq] {
				init = append(init, h.Version)
			}
		}
		det := map[string]any{"case": idx, "kind": c.Kind, "conn": cn, "init_apiversions_versions": init, "client_max": clientMax,
			"broker_understands_up_to": c.ApiMax, "mode": c.Mode, "user_max_table": c.UserMaxNm}
		r.Eval(1)
		if !loaded {
			if len(init) > 0 {
				f.fail("ApiVersions written although MaxVersions has no ApiVersions key", det)
			}
			continue
		}
		if len(init) == 0 {
			f.fail("connection opened without an ApiVersions request", det)
			continue
		}
		first := init[0]
		wantFirst := clientMax
		if c.Mode == rawkafka.ResetConn && resets >= 2 {
			wantFirst = 0
		}
		if first > 4 || first > clientMax {
			f.fail("ApiVersions written above the client/user maximum", det)
		} else if first != wantFirst {
			f.fail("ApiVersions first attempt at an unexpected version", det)
		}
		r.Distinct(fmt.Sprintf("init/%d/%d/%d", c.Mode, c.ApiMax, clientMax))
		if first > c.ApiMax {
			r.Count(fmt.Sprintf("init_downgrades_mode%d", c.Mode), 1)
		}
		if first <= c.ApiMax {
			resets = 0
			if len(init) != 1 {
				f.fail("ApiVersions repeated on a connection after an accepted attempt", det)
			}
			continue
		}
		// the broker did not understand the first attempt
		switch c.Mode {
		case rawkafka.ResetConn:
			resets++
			if len(init) != 1 {
				f.fail("frames after a reset connection", det)
			}
		case rawkafka.KIP511:
			if len(init) != 2 || init[1] != c.ApiMax {
				f.fail("KIP-511 downgrade reply not followed by exactly the advertised ApiVersions version", det)
			}
		case rawkafka.Pre24:
			if len(init) != 2 || init[1] != 0 {
				f.fail("pre-2.4 UNSUPPORTED_VERSION reply not followed by ApiVersions v0", det)
			}
		case rawkafka.AllKeys:
			if len(init) != 1 {
				f.fail("UNSUPPORTED_VERSION reply listing all keys was not used as is", det)
			}
		}
	}
}

func TestCheck(t *testing.T) {
	r := vh.Start(t, "C21")
	f := &failer{r: r}
	workers := runtime.NumCPU()
	if workers > 16 {
		workers = 16
	}

	nRanges := r.Pick(1200, 40000)
	nNoAPI := r.Pick(150, 5000)
	nReset := r.Pick(80, 2500)
	nPins := r.Pick(300, 9000)
	nTap := r.Pick(12, 120)

	vh.Parallel(nRanges, workers, func(i int) { runScripted(r, f, i, "ranges") })
	vh.Parallel(nNoAPI, workers, func(i int) { runScripted(r, f, i, "noapi") })
	vh.Parallel(nReset, workers, func(i int) { runScripted(r, f, i, "reset") })
	nReadv := r.Pick(60, 2000)
	vh.Parallel(nReadv, workers, func(i int) { runScripted(r, f, i, "readvertise") })
	vh.Parallel(nPins, workers, func(i int) { runPins(r, f, i) })
	vh.Parallel(nTap, 3, func(i int) { runTap(r, f, i) })
	r.Count("scripted_cases", nRanges+nNoAPI+nReset+nReadv+nPins)

	r.Finish("exploration",
		"cases: seeded broker advertisements (near-client, release tables, arbitrary, controller-like without Produce, newer-than-client) x user MaxVersions (default Stable, nil, release, custom, without key 18) x MinVersions (none, release, custom) x ApiVersions handling (KIP-511, pre-2.4, all-keys, connection reset, re-advertisement: the broker switches to another table and drops every connection, all keys are issued again and judged against the new table); every kmsg key issued once per case through Broker.Request; pin-selecting shapes through Client.Request; plus every frame of real workloads against kfake. Non-trivial: the advertised range differs from the client's own range for the key; distinct by (key, which bound decided + lower-bound relation), init handling by (mode, broker ApiVersions max, client max)",
		"the scripted broker answers every accepted request with the zero-valued response of its kind",
		"'client's supported maximum' is kmsg's MaxVersion for the key, and the default MaxVersions table (kversion.Stable) when the user sets none",
		"the first ApiVersions attempt on a connection cannot know the broker's range and is only judged against the client/user maxima",
	)
}

// ---------------------------------------------------------------------------
// pin-selecting shapes through Client.Request

func coordinatorHandler(b *rawkafka.Broker, req *rawkafka.Request) rawkafka.Reply {
	fr, ok := req.Req.(*kmsg.FindCoordinatorRequest)
	if !ok {
		return rawkafka.Reply{}.Close()
	}
	resp := kmsg.NewPtrFindCoordinatorResponse()
	resp.NodeID, resp.Host, resp.Port = b.NodeID(), b.Host(), b.Port()
	for _, k := range fr.CoordinatorKeys {
		c := kmsg.NewFindCoordinatorResponseCoordinator()
		c.Key, c.NodeID, c.Host, c.Port = k, b.NodeID(), b.Host(), b.Port()
		resp.Coordinators = append(resp.Coordinators, c)
	}
	return rawkafka.Reply{}.Write(rawkafka.Respond(&req.Header, resp))
}

type pinFrame struct {
	Version int16 `json:"version"`
	Items   int   `json:"items"` // coordinator keys / groups / transactions carried
	Batched bool  `json:"batched_form"`
}

func runPins(r *vh.Run, f *failer, idx int) {
	rng := r.Rand("pins", idx)
	shape := []string{"findcoordinator", "offsetfetch", "addpartitions"}[idx%3]
	key := map[string]int16{"findcoordinator": 10, "offsetfetch": 9, "addpartitions": 24}[shape]
	pinAt := map[string]int16{"findcoordinator": 4, "offsetfetch": 8, "addpartitions": 4}[shape] // batched form needs >= pinAt
	items := 1 + rng.IntN(3)
	verifyOnly := shape == "addpartitions" && items == 1 && rng.IntN(3) == 0

	km := kmsgMax(key)
	adv := map[int16]rawkafka.Range{}
	for _, k := range allKeys {
		adv[k] = rawkafka.Range{Min: 0, Max: kmsgMax(k)}
	}
	brMax := int16(rng.IntN(int(km) + 2))
	brMin := int16(0)
	if rng.IntN(4) == 0 {
		brMin = int16(rng.IntN(int(brMax) + 1))
	}
	adv[key] = rawkafka.Range{Min: brMin, Max: brMax}
	c := &caseCfg{Kind: "pins-" + shape, Adv: adv, ApiMax: 4}
	switch rng.IntN(3) {
	case 0:
	case 1:
		c.UserMaxSet, c.UserMax, c.UserMaxNm = true, tableOf(kversion.Stable()), "stable+custom"
		c.UserMax[key] = int16(rng.IntN(int(km) + 2))
	case 2:
		c.UserMaxSet, c.UserMaxNm = true, "nil"
	}
	if rng.IntN(3) == 0 {
		c.UserMin, c.UserMinNm = table{key: int16(rng.IntN(int(km) + 1))}, "custom"
	}
	am := int16(4)
	b, err := rawkafka.New(rawkafka.Config{
		NodeID:   1,
		Versions: rawkafka.Versions{Ranges: adv, ApiVersionsMax: &am},
		Handlers: map[int16]rawkafka.Handler{10: coordinatorHandler},
	})
	if err != nil {
		r.Inconclusive("scripted broker: " + err.Error())
		return
	}
	defer b.Close()
	cl, err := kgo.NewClient(c.clientOpts(b.Addr())...)
	if err != nil {
		r.Inconclusive("client: " + err.Error())
		return
	}
	defer cl.Close()

	var req kmsg.Request
	switch shape {
	case "findcoordinator":
		fr := kmsg.NewPtrFindCoordinatorRequest()
		if items == 1 && rng.IntN(2) == 0 {
			fr.CoordinatorKey = "g0"
		} else {
			for i := 0; i < items; i++ {
				fr.CoordinatorKeys = append(fr.CoordinatorKeys, fmt.Sprintf("g%d", i))
			}
		}
		req = fr
	case "offsetfetch":
		or := kmsg.NewPtrOffsetFetchRequest()
		if items == 1 && rng.IntN(2) == 0 {
			or.Group = "g0"
		} else {
			for i := 0; i < items; i++ {
				g := kmsg.NewOffsetFetchRequestGroup()
				g.Group = fmt.Sprintf("g%d", i)
				or.Groups = append(or.Groups, g)
			}
		}
		req = or
	case "addpartitions":
		ar := kmsg.NewPtrAddPartitionsToTxnRequest()
		for i := 0; i < items; i++ {
			tx := kmsg.NewAddPartitionsToTxnRequestTransaction()
			tx.TransactionalID = fmt.Sprintf("t%d", i)
			tx.VerifyOnly = verifyOnly
			tp := kmsg.NewAddPartitionsToTxnRequestTransactionTopic()
			tp.Topic, tp.Partitions = "x", []int32{0}
			tx.Topics = append(tx.Topics, tp)
			ar.Transactions = append(ar.Transactions, tx)
		}
		if items == 1 {
			ar.TransactionalID = "t0"
			ar.Topics = append(ar.Topics, func() kmsg.AddPartitionsToTxnRequestTopic {
				tp := kmsg.NewAddPartitionsToTxnRequestTopic()
				tp.Topic, tp.Partitions = "x", []int32{0}
				return tp
			}())
		}
		req = ar
	}

	ctx, cancel := context.WithTimeout(context.Background(), 10*time.Second)
	var rerr error
	shards := cl.RequestSharded(ctx, req)
	cancel()
	for _, s := range shards {
		if s.Err != nil {
			rerr = s.Err
		}
	}
	if errors.Is(rerr, context.DeadlineExceeded) {
		r.Inconclusive(fmt.Sprintf("pins case %d: call did not return within 10s (real time)", idx))
		return
	}

	// frames of the key under test; for FindCoordinator exclude the internal lookups made for the other shapes
	var frames []pinFrame
	for _, h := range b.Requests() {
		if h.Key != key {
			continue
		}
		k := kmsg.RequestForKey(h.Key)
		k.SetVersion(h.Version)
		if err := k.ReadFrom(h.Body); err != nil {
			f.fail("written "+shape+" frame does not decode at its header version", map[string]any{"case": idx, "version": h.Version, "err": err.Error()})
			return
		}
		pf := pinFrame{Version: h.Version}
		switch t := k.(type) {
		case *kmsg.FindCoordinatorRequest:
			pf.Items, pf.Batched = len(t.CoordinatorKeys), h.Version >= 4
			if h.Version < 4 {
				pf.Items = 1
			}
		case *kmsg.OffsetFetchRequest:
			pf.Items, pf.Batched = len(t.Groups), h.Version >= 8
			if h.Version < 8 {
				pf.Items = 1
			}
		case *kmsg.AddPartitionsToTxnRequest:
			pf.Items, pf.Batched = len(t.Transactions), h.Version >= 4
			if h.Version < 4 {
				pf.Items = 1
			}
		}
		frames = append(frames, pf)
	}

	p := predict(c, key, true)
	errStr := ""
	if rerr != nil {
		errStr = rerr.Error()
	}
	det := map[string]any{"case": idx, "shape": shape, "items": items, "verify_only": verifyOnly, "kmsg_max": km, "broker_advertised": adv[key],
		"user_max_table": c.UserMaxNm, "user_max": c.UserMax[key], "user_min": c.UserMin, "pin_boundary": pinAt,
		"bounds_prediction": p, "observed_frames": frames, "observed_err": errStr}
	r.Eval(1)
	r.Distinct(fmt.Sprintf("pin/%s/items%d/%s/pin%v", shape, items, p.Class, p.Written && p.Version >= pinAt))
	if r.WantSample() && idx < 3 {
		r.Sample(det)
	}

	// bound form, always
	for _, fr := range frames {
		if !p.Written {
			f.fail("pinned shape "+shape+": frame written although no admissible version exists", det)
			return
		}
		if fr.Version > p.Version {
			f.fail("pinned shape "+shape+": version above a maximum", det)
			return
		}
		if fr.Version < p.Lower {
			f.fail("pinned shape "+shape+": version below a minimum", det)
			return
		}
	}
	if !p.Written {
		if rerr == nil {
			f.fail("pinned shape "+shape+": no admissible version but no error", det)
		}
		return
	}
	// pin-aware equality form
	switch shape {
	case "findcoordinator", "offsetfetch":
		if items == 1 {
			// no pin: single frame at the highest admissible version
			if len(frames) != 1 || frames[0].Version != p.Version {
				f.fail("unpinned "+shape+" not at the highest admissible version", det)
			}
			return
		}
		if p.Version >= pinAt {
			// batched form possible: pinMin only, so the equality form holds
			if len(frames) != 1 || frames[0].Version != p.Version || frames[0].Items != items {
				f.fail("batched "+shape+" not written once at the highest admissible version", det)
			}
			return
		}
		// broker/user maximum below the batched form: split into singles pinned <= pinAt-1
		want := min16(p.Version, pinAt-1)
		if p.Lower > want {
			if len(frames) != 0 {
				f.fail("split "+shape+" written below a minimum", det)
			}
			return
		}
		if len(frames) != items {
			f.fail("split "+shape+": number of single-form frames differs from the number of items", det)
			return
		}
		for _, fr := range frames {
			if fr.Version != want {
				f.fail("split "+shape+" not at min(highest admissible, pin)", det)
				return
			}
		}
	case "addpartitions":
		if items == 1 && !verifyOnly {
			want := min16(p.Version, 3) // pinMax 3
			if p.Lower > want {
				if len(frames) != 0 {
					f.fail("pinned AddPartitionsToTxn written below a minimum", det)
				}
				return
			}
			if len(frames) != 1 || frames[0].Version != want {
				f.fail("single AddPartitionsToTxn not at min(highest admissible, 3)", det)
			}
			return
		}
		// batched / verify-only: pinMin 4
		if p.Version < 4 {
			if len(frames) != 0 {
				f.fail("batched AddPartitionsToTxn written below v4", det)
			} else if rerr == nil {
				f.fail("batched AddPartitionsToTxn impossible but no error", det)
			}
			return
		}
		if len(frames) != 1 || frames[0].Version != p.Version {
			f.fail("batched AddPartitionsToTxn not at the highest admissible version", det)
		}
	}
}

var _ = sort.Ints
var _ sync.Mutex
