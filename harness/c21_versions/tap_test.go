package c21

import (
	"context"
	"encoding/binary"
	"fmt"
	"time"

	"github.com/twmb/franz-go/pkg/kfake"
	"github.com/twmb/franz-go/pkg/kgo"
	"github.com/twmb/franz-go/pkg/kmsg"
	"github.com/twmb/franz-go/pkg/kversion"

	"verifharness/internal/e2e"
	"verifharness/internal/faultnet"
	"verifharness/internal/vh"
)

// keys whose version the client may lower on its own (closed list read from
// the source: produceRequest.produceMax, fetchRequest.MaxVersion, pinReq uses)
var internallyPinned = map[int16]bool{0: true, 1: true, 8: true, 9: true, 10: true, 24: true, 26: true, 28: true}

// runTap runs a produce / group-consume / transact workload against kfake and
// judges every frame written against the ranges kfake advertised on that wire.
func runTap(r *vh.Run, f *failer, idx int) {
	rng := r.Rand("tap", idx)
	brokerRels := []int{-1, 9, 10, 11, 12, 13, 14} // index into releases; -1: kfake's own maximums
	br := brokerRels[rng.IntN(len(brokerRels))]
	ur := brokerRels[rng.IntN(len(brokerRels))]
	fn := &faultnet.Net{KeepFrames: true}
	opts := []kfake.Opt{kfake.SeedTopics(3, "c21-in", "c21-out")}
	bname, uname := "kfake-default", "default"
	if br >= 0 {
		opts = append(opts, kfake.MaxVersions(releases[br].fn()))
		bname = releases[br].name
	}
	env, err := e2e.NewEnv(false, 1, fn, opts...)
	if err != nil {
		r.Inconclusive("kfake: " + err.Error())
		return
	}
	defer env.Close()
	var userTab table
	copts := []kgo.Opt{kgo.ClientID("c21-tap")}
	if ur >= 0 {
		userTab, uname = tableOf(releases[ur].fn()), releases[ur].name
		copts = append(copts, kgo.MaxVersions(releases[ur].fn()))
	} else {
		userTab = tableOf(kversion.Stable())
	}

	ctx, cancel := context.WithTimeout(context.Background(), 20*time.Second)
	defer cancel()
	werrs := 0
	note := func(err error) {
		if err != nil {
			werrs++
		}
	}
	// (a) plain idempotent producer
	if cl, err := env.NewClient(append(copts, kgo.DefaultProduceTopic("c21-in"))...); err == nil {
		for i := 0; i < 12; i++ {
			note(cl.ProduceSync(ctx, kgo.StringRecord(fmt.Sprintf("a%d", i))).FirstErr())
		}
		cl.Close()
	} else {
		note(err)
	}
	// (b) transactional producer
	if cl, err := env.NewClient(append(copts, kgo.DefaultProduceTopic("c21-in"), kgo.TransactionalID(fmt.Sprintf("c21-tx-%d", idx)))...); err == nil {
		for round := 0; round < 2; round++ {
			note(cl.BeginTransaction())
			note(cl.ProduceSync(ctx, kgo.StringRecord("t1"), kgo.StringRecord("t2")).FirstErr())
			end := kgo.TryCommit
			if round == 1 {
				end = kgo.TryAbort
			}
			note(cl.EndTransaction(ctx, end))
		}
		cl.Close()
	} else {
		note(err)
	}
	// (c) group consumer with commits
	if cl, err := env.NewClient(append(copts, kgo.ConsumeTopics("c21-in"), kgo.ConsumerGroup(fmt.Sprintf("c21-g-%d", idx)), kgo.DisableAutoCommit())...); err == nil {
		got := 0
		pctx, pc := context.WithTimeout(ctx, 5*time.Second)
		for got < 8 {
			fs := cl.PollFetches(pctx)
			if pctx.Err() != nil {
				break
			}
			got += fs.NumRecords()
		}
		pc()
		note(cl.CommitUncommittedOffsets(ctx))
		cl.Close()
	} else {
		note(err)
	}
	// (d) consume-transform-produce session
	if sess, err := kgo.NewGroupTransactSession(append(append(env.ClientOpts(), copts...), kgo.ConsumeTopics("c21-in"),
		kgo.ConsumerGroup(fmt.Sprintf("c21-gt-%d", idx)), kgo.TransactionalID(fmt.Sprintf("c21-gtx-%d", idx)), kgo.DefaultProduceTopic("c21-out"),
		kgo.FetchIsolationLevel(kgo.ReadCommitted()))...); err == nil {
		pctx, pc := context.WithTimeout(ctx, 5*time.Second)
		fs := sess.PollFetches(pctx)
		pc()
		if fs.NumRecords() > 0 {
			note(sess.Begin())
			note(sess.ProduceSync(ctx, kgo.StringRecord("x")).FirstErr())
			_, err := sess.End(ctx, kgo.TryCommit)
			note(err)
		}
		sess.Close()
	} else {
		note(err)
	}
	r.Count("tap_workload_errors", werrs)

	// judge
	adv := map[int64]map[int16][2]int16{} // per connection: latest advertised ranges
	frames := 0
	for _, ev := range fn.Events() {
		q := ev.Req
		if q.ClientID != "c21-tap" {
			continue
		}
		if q.Key == 18 {
			if len(ev.Resp) >= 8 {
				resp := kmsg.NewPtrApiVersionsResponse()
				resp.Version = q.Version
				body := ev.Resp[8:]
				if len(body) >= 2 && int16(binary.BigEndian.Uint16(body)) == 35 {
					resp.Version = 0
				}
				if err := resp.ReadFrom(body); err == nil && resp.ErrorCode == 0 {
					m := map[int16][2]int16{}
					for _, k := range resp.ApiKeys {
						m[k.ApiKey] = [2]int16{k.MinVersion, k.MaxVersion}
					}
					adv[q.Conn] = m
				}
			}
			if q.Version > 4 {
				f.fail("tap: ApiVersions above the client maximum", map[string]any{"version": q.Version})
			}
			continue
		}
		a, ok := adv[q.Conn]
		if !ok {
			r.Count("tap_frames_before_apiversions", 1)
			continue
		}
		frames++
		r.Eval(1)
		kreq := kmsg.RequestForKey(q.Key)
		det := map[string]any{"case": idx, "broker_table": bname, "user_table": uname, "key": q.Key, "name": kmsg.NameForKey(q.Key), "version": q.Version}
		if kreq == nil {
			f.fail("tap: frame with a key kmsg does not know", det)
			continue
		}
		rg, advertised := a[q.Key]
		um, inUser := userTab[q.Key]
		det["advertised"], det["user_max"], det["kmsg_max"] = rg, um, kreq.MaxVersion()
		if !advertised {
			f.fail("tap: request written for a key the broker did not advertise", det)
			continue
		}
		if !inUser {
			f.fail("tap: request written for a key absent from MaxVersions", det)
			continue
		}
		upper := min16(min16(kreq.MaxVersion(), rg[1]), um)
		cls := "eq"
		switch {
		case q.Version > upper:
			f.fail("tap: version above a maximum", det)
		case q.Version < rg[0]:
			f.fail("tap: version below the advertised minimum", det)
		case q.Version != upper && !internallyPinned[q.Key]:
			f.fail("tap: unpinned key not at the highest admissible version", det)
		case q.Version != upper:
			cls = "pinned-lower"
		}
		if rg[1] != kreq.MaxVersion() || um != kreq.MaxVersion() {
			r.Distinct(fmt.Sprintf("tap/%d/%s/%s/%s", q.Key, bname, uname, cls))
		}
	}
	r.Count("tap_frames_judged", frames)
}
