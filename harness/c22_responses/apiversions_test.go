// C22, hostile ApiVersions negotiation: a broker that answers EVERY ApiVersions
// request with UNSUPPORTED_VERSION and a seeded "supported range" for key 18
// (equal to the version just sent, above it, one below it for ever, negative,
// or no keys at all). The connection-initialisation path runs without the
// request's context, so nothing but the client's own logic ends it. Verdict on
// a logical count, never on time: a user request that made the client send more
// than apiVersionsBound ApiVersions requests is a client that loops on prompt
// hostile replies (it would wait beyond every configured timeout). Bound: with
// RequestRetries(n) a request opens at most n+1 connections (x2 for the seed /
// discovered broker), each legitimately sends at most 1 + 5 ApiVersions
// requests (one per downgrade step from the top version) - 200 is far above.
package c22

import (
	"context"
	"fmt"
	"sync/atomic"
	"time"

	"github.com/twmb/franz-go/pkg/kgo"
	"github.com/twmb/franz-go/pkg/kmsg"

	"verifharness/internal/rawkafka"
	"verifharness/internal/vh"
)

const apiVersionsBound = 200

var apiVersionsModes = []string{"same", "higher", "one-lower-for-ever", "negative", "no-keys", "same-after-one-downgrade", "min-above-max"}

func checkHostileApiVersions(r *vh.Run) {
	n := r.Pick(28, 700)
	vh.Parallel(n, 4, func(i int) {
		rng := r.Rand("c22-apiversions", i)
		mode := apiVersionsModes[i%len(apiVersionsModes)]
		retries := rng.IntN(3)
		k := int16(1 + rng.IntN(3))
		var seen atomic.Int64
		var first atomic.Int32
		first.Store(-1)
		h := func(b *rawkafka.Broker, req *rawkafka.Request) rawkafka.Reply {
			c := seen.Add(1)
			first.CompareAndSwap(-1, int32(req.Version))
			resp := kmsg.NewPtrApiVersionsResponse()
			resp.ErrorCode = 35
			ak := kmsg.NewApiVersionsResponseApiKey()
			ak.ApiKey = 18
			switch mode {
			case "same":
				ak.MaxVersion = req.Version
			case "higher":
				ak.MaxVersion = req.Version + k
			case "one-lower-for-ever":
				ak.MaxVersion = max(req.Version-1, 0)
			case "negative":
				ak.MaxVersion = -k
			case "same-after-one-downgrade":
				if int32(req.Version) == first.Load() {
					ak.MaxVersion = max(req.Version-k, 0)
				} else {
					ak.MaxVersion = req.Version
				}
			case "min-above-max":
				ak.MinVersion, ak.MaxVersion = req.Version+1, req.Version
			}
			if mode != "no-keys" {
				resp.ApiKeys = append(resp.ApiKeys, ak)
			}
			_ = c
			return rawkafka.Reply{}.Write(rawkafka.RespondAt(&req.Header, resp, 0))
		}
		b, err := rawkafka.New(rawkafka.Config{NodeID: 1, Topics: map[string]int32{"t": 1}, Handlers: map[int16]rawkafka.Handler{18: h}})
		if err != nil {
			r.Inconclusive("hostile ApiVersions: broker: " + err.Error())
			return
		}
		defer b.Close()
		cl, err := kgo.NewClient(kgo.SeedBrokers(b.Addr()), kgo.RequestRetries(retries),
			kgo.RetryBackoffFn(func(int) time.Duration { return time.Millisecond }), kgo.RetryTimeout(5*time.Second))
		if err != nil {
			r.Inconclusive("hostile ApiVersions: client: " + err.Error())
			return
		}
		done := make(chan error, 1)
		go func() {
			ctx, cancel := context.WithTimeout(context.Background(), 15*time.Second)
			defer cancel()
			_, err := cl.Request(ctx, kmsg.NewPtrMetadataRequest())
			done <- err
		}()
		var reqErr error
		returned, looping := false, false
		for t0 := time.Now(); time.Since(t0) < 40*time.Second; {
			select {
			case reqErr = <-done:
				returned = true
			case <-time.After(10 * time.Millisecond):
			}
			if seen.Load() > apiVersionsBound {
				looping = true
			}
			if returned || looping {
				break
			}
		}
		sent := seen.Load()
		wit := map[string]any{"mode": mode, "k": k, "request_retries": retries, "first_apiversions_version_sent": first.Load(), "apiversions_requests_seen": sent, "request_returned": returned, "request_error": fmt.Sprint(reqErr)}
		switch {
		case looping || sent > apiVersionsBound:
			r.Violation("hostile-apiversions-unsupported-version-loop", wit)
		case !returned:
			r.Inconclusive(fmt.Sprintf("hostile ApiVersions (%s): request not returned after 40 s with only %d ApiVersions requests seen", mode, sent))
		case reqErr == nil:
			r.Violation("hostile-apiversions-request-succeeded-without-negotiation", wit)
		}
		b.KillConns()
		closed := make(chan struct{})
		go func() { cl.Close(); close(closed) }()
		select {
		case <-closed:
		case <-time.After(20 * time.Second):
			if !looping {
				r.Inconclusive("hostile ApiVersions: Close did not return within 20 s")
			}
		}
		r.Eval(1)
		r.Count("hostile_apiversions_scenarios", 1)
		r.Count("hostile_apiversions_requests_seen", int(sent))
		if returned && sent > 0 {
			r.Distinct(fmt.Sprintf("hostile-apiversions|%s|k=%d|retries=%d|sent=%d", mode, k, retries, sent))
			if r.WantSample() {
				r.Sample(wit)
			}
		}
	})
}
