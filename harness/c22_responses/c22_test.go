// C22 — responses are matched to their requests; hostile bytes are safe.
//
// Monitor: 1-64 concurrent callers issue requests that carry a unique token
// (Metadata topic, DescribeGroups group, CreateTopics topic, FindCoordinator
// key) through Broker.Request / Broker.RetriableRequest / Client.Request, with
// seeded cancellations, against a scripted broker (internal/rawkafka) that
// echoes the token in a conforming reply or, per request frame, misbehaves:
// wrong / duplicated correlation ids, replies in swapped order, truncated
// frames, negative / oversize length prefixes, garbage, early close, undecodable
// bodies, huge throttles, slow-loris dribble, stalls. Oracle: every call
// returns (never (nil, nil)); a successful response carries the caller's own
// token and never another caller's; no panic; inside a synctest bubble every
// call returns within a bound derived from the configured timeouts (virtual
// time, so the verdict is exact). Real-time scenarios over loopback TCP add
// genuine socket behaviour (RST); there a hang is only INCONCLUSIVE.
package c22

import (
	"context"
	"encoding/binary"
	"errors"
	"fmt"
	"math"
	"math/rand/v2"
	"sort"
	"strings"
	"sync"
	"sync/atomic"
	"testing"
	"time"

	"github.com/twmb/franz-go/pkg/kfake"
	"github.com/twmb/franz-go/pkg/kgo"
	"github.com/twmb/franz-go/pkg/kmsg"

	"verifharness/internal/e2e"
	"verifharness/internal/rawkafka"
	"verifharness/internal/vh"
)

const (
	reqOverhead  = 2 * time.Second // kgo.RequestTimeoutOverhead: read and write timeout
	dialTimeout  = 1 * time.Second
	retryTimeout = 10 * time.Second
	retries      = 3
	backoff      = 100 * time.Millisecond
	createMillis = 1000 // CreateTopics TimeoutMillis: its read timeout is overhead + this
)

var actions = []string{"pass", "wrongcorr", "duplicate", "swap", "truncate", "neglen", "oversize", "garbage", "earlyclose",
	"badbody", "throttle", "slowloris-fast", "slowloris-slow", "stall", "delay", "hdrtags", "http", "tlsalert", "shortframe"}

type plan struct {
	Idx       int      `json:"scenario"`
	VT        bool     `json:"virtual_time"`
	Callers   int      `json:"callers"`
	PerCaller int      `json:"requests_per_caller"`
	Hostility int      `json:"hostile_percent"`
	Allowed   []string `json:"hostile_kinds"`
	CancelPct int      `json:"cancel_percent"`
	Throttle  int32    `json:"throttle_millis"`
	InitToo   bool     `json:"hostile_on_apiversions"`
	Vias      []string `json:"vias"`
}

type callRec struct {
	Caller  int           `json:"caller"`
	J       int           `json:"j"`
	Kind    string        `json:"kind"`
	Via     string        `json:"via"`
	Token   string        `json:"token"`
	Cancel  string        `json:"cancel"`
	Elapsed time.Duration `json:"elapsed"`
	Err     string        `json:"err,omitempty"`
	Got     string        `json:"got_token,omitempty"`
	NilNil  bool          `json:"nil_nil,omitempty"`
	Panic   string        `json:"panic,omitempty"`
	done    bool
}

type result struct {
	Plan      plan
	Calls     []*callRec
	Actions   []string            // action kinds in frame arrival order
	ByToken   map[string][]string // token -> actions applied to frames carrying it
	Throttles int
	Pending   []string // calls that had not returned at the watchdog
	Bound     time.Duration
	LateClose bool // calls only returned after Close
	Frames    int
	Conns     int64
}

func genPlan(rng *rand.Rand, idx int, vt bool, maxCallers int) plan {
	p := plan{Idx: idx, VT: vt}
	switch rng.IntN(4) {
	case 0:
		p.Callers = 1 + rng.IntN(3)
	case 1, 2:
		p.Callers = 2 + rng.IntN(15)
	default:
		p.Callers = 1 + rng.IntN(maxCallers)
	}
	p.PerCaller = 1 + rng.IntN(4)
	p.Hostility = []int{5, 15, 30, 60}[rng.IntN(4)]
	// a scenario uses either one hostile kind (crisp) or a mix
	if rng.IntN(2) == 0 {
		p.Allowed = []string{actions[1+rng.IntN(len(actions)-1)]}
	} else {
		n := 2 + rng.IntN(5)
		for i := 0; i < n; i++ {
			p.Allowed = append(p.Allowed, actions[1+rng.IntN(len(actions)-1)])
		}
	}
	p.CancelPct = []int{0, 0, 20, 50}[rng.IntN(4)]
	p.Throttle = []int32{50, 3000, 120000, math.MaxInt32}[rng.IntN(4)]
	if !vt && p.Throttle > 3000 {
		p.Throttle = 3000
	}
	p.InitToo = rng.IntN(3) == 0
	switch rng.IntN(3) {
	case 0:
		p.Vias = []string{"seed.Request"}
	case 1:
		p.Vias = []string{"seed.Request", "seed.RetriableRequest"}
	default:
		p.Vias = []string{"seed.Request", "seed.RetriableRequest", "cl.Request"}
	}
	return p
}

// tokenOfRequest extracts the token a request carries ("" if none).
func tokenOfRequest(req kmsg.Request) string {
	switch t := req.(type) {
	case *kmsg.MetadataRequest:
		if len(t.Topics) == 1 && t.Topics[0].Topic != nil {
			return *t.Topics[0].Topic
		}
	case *kmsg.DescribeGroupsRequest:
		if len(t.Groups) == 1 {
			return t.Groups[0]
		}
	case *kmsg.CreateTopicsRequest:
		if len(t.Topics) == 1 {
			return t.Topics[0].Topic
		}
	case *kmsg.FindCoordinatorRequest:
		if len(t.CoordinatorKeys) == 1 {
			return t.CoordinatorKeys[0]
		}
		return t.CoordinatorKey
	}
	return ""
}

// tokenOfResponse extracts the token a response echoes ("" if none).
func tokenOfResponse(resp kmsg.Response) string {
	switch t := resp.(type) {
	case *kmsg.MetadataResponse:
		if len(t.Topics) == 1 && t.Topics[0].Topic != nil {
			return *t.Topics[0].Topic
		}
	case *kmsg.DescribeGroupsResponse:
		if len(t.Groups) == 1 {
			return t.Groups[0].Group
		}
	case *kmsg.CreateTopicsResponse:
		if len(t.Topics) == 1 {
			return t.Topics[0].Topic
		}
	case *kmsg.FindCoordinatorResponse:
		if len(t.Coordinators) == 1 {
			return t.Coordinators[0].Key
		}
	}
	return ""
}

// conform builds the conforming (token-echoing) response.
func conform(b *rawkafka.Broker, req *rawkafka.Request) kmsg.Response {
	switch t := req.Req.(type) {
	case *kmsg.MetadataRequest:
		return b.MetadataResponse(req)
	case *kmsg.DescribeGroupsRequest:
		resp := kmsg.NewPtrDescribeGroupsResponse()
		for _, g := range t.Groups {
			rg := kmsg.NewDescribeGroupsResponseGroup()
			rg.Group, rg.State = g, "Dead"
			resp.Groups = append(resp.Groups, rg)
		}
		return resp
	case *kmsg.CreateTopicsRequest:
		resp := kmsg.NewPtrCreateTopicsResponse()
		for _, tp := range t.Topics {
			rt := kmsg.NewCreateTopicsResponseTopic()
			rt.Topic, rt.NumPartitions, rt.ReplicationFactor = tp.Topic, 1, 1
			resp.Topics = append(resp.Topics, rt)
		}
		return resp
	case *kmsg.FindCoordinatorRequest:
		resp := kmsg.NewPtrFindCoordinatorResponse()
		resp.NodeID, resp.Host, resp.Port = b.NodeID(), b.Host(), b.Port()
		for _, k := range t.CoordinatorKeys {
			c := kmsg.NewFindCoordinatorResponseCoordinator()
			c.Key, c.NodeID, c.Host, c.Port = k, b.NodeID(), b.Host(), b.Port()
			resp.Coordinators = append(resp.Coordinators, c)
		}
		return resp
	}
	return nil
}

type script struct {
	p        plan
	seed     uint64
	mu       sync.Mutex
	actions  []string
	byToken  map[string][]string
	thr      int
	recovery atomic.Bool
}

func (s *script) decide(seq int64) (string, *rand.Rand) {
	rng := rand.New(rand.NewPCG(s.seed, uint64(seq)*0x9e3779b97f4a7c15+uint64(s.p.Idx)))
	if s.recovery.Load() || rng.IntN(100) >= s.p.Hostility {
		return "pass", rng
	}
	return s.p.Allowed[rng.IntN(len(s.p.Allowed))], rng
}

func (s *script) handle(b *rawkafka.Broker, req *rawkafka.Request) rawkafka.Reply {
	var resp kmsg.Response
	if req.Key == 18 {
		resp = nil
	} else if req.Req != nil {
		resp = conform(b, req)
	}
	act, rng := s.decide(req.Seq)
	if req.Key == 18 && !s.p.InitToo {
		act = "pass"
	}
	tok := ""
	if req.Req != nil {
		tok = tokenOfRequest(req.Req)
	}
	var good []byte
	if req.Key == 18 {
		r := b.ApiVersions(req)
		good = r.Ops[0].Bytes
	} else if resp != nil {
		if act == "throttle" {
			if st, ok := resp.(interface{ SetThrottle(int32) }); ok {
				st.SetThrottle(s.p.Throttle)
			} else {
				act = "pass"
			}
		}
		good = rawkafka.Respond(&req.Header, resp)
	} else {
		// a request kind the scenario does not issue itself (internal lookups): zero response
		r := b.ZeroReply(req)
		if len(r.Ops) == 0 || r.Ops[0].Kind != rawkafka.OpWrite {
			return r
		}
		good = r.Ops[0].Bytes
		if act == "throttle" {
			act = "pass"
		}
	}
	s.mu.Lock()
	s.actions = append(s.actions, act)
	if tok != "" {
		s.byToken[tok] = append(s.byToken[tok], act)
	}
	if act == "throttle" {
		s.thr++
	}
	s.mu.Unlock()

	flex := rawkafka.FlexHeader(req.Key, req.Version)
	body := good[8:]
	if flex {
		body = good[9:]
	}
	var R rawkafka.Reply
	switch act {
	case "pass", "throttle":
		return R.Write(good)
	case "wrongcorr":
		bad := append([]byte(nil), good...)
		binary.BigEndian.PutUint32(bad[4:], uint32(req.Corr)+uint32(1+rng.IntN(3)))
		return R.Write(bad)
	case "duplicate":
		return R.Write(good).Write(good)
	case "swap":
		return R.Defer(good)
	case "truncate":
		k := rng.IntN(len(good))
		return R.Write(good[:k]).Close()
	case "shortframe":
		// a complete frame shorter than a correlation id
		n := rng.IntN(4)
		fr := binary.BigEndian.AppendUint32(nil, uint32(n))
		return R.Write(append(fr, good[4:4+n]...))
	case "neglen":
		fr := binary.BigEndian.AppendUint32(nil, 0x80000000|uint32(rng.IntN(1<<20)))
		return R.Write(append(fr, good[4:]...))
	case "oversize":
		fr := binary.BigEndian.AppendUint32(nil, uint32(100<<20+1+rng.IntN(1<<20)))
		return R.Write(append(fr, good[4:]...))
	case "http":
		return R.Write([]byte("HTTP/1.1 400 Bad Request\r\n\r\n"))
	case "tlsalert":
		return R.Write([]byte{21, 3, 3, 0, 2, 2, 40})
	case "garbage":
		g := make([]byte, 1+rng.IntN(64))
		for i := range g {
			g[i] = byte(rng.Uint32())
		}
		if rng.IntN(2) == 0 {
			return R.Write(g).Close()
		}
		return R.Write(g)
	case "earlyclose":
		return R.Close()
	case "badbody":
		var nb []byte
		if len(body) > 0 && rng.IntN(2) == 0 {
			nb = body[:rng.IntN(len(body))] // strict prefix
		} else {
			nb = make([]byte, rng.IntN(40))
			for i := range nb {
				nb[i] = byte(rng.Uint32())
			}
		}
		return R.Write(rawkafka.FrameBody(req.Corr, flex, nb))
	case "slowloris-fast":
		return R.Dribble(good, 1+rng.IntN(3), time.Millisecond)
	case "slowloris-slow":
		return R.Dribble(good, 1, 60*time.Millisecond)
	case "stall":
		return R
	case "delay":
		return R.Sleep(time.Duration(50+rng.IntN(1500)) * time.Millisecond).Write(good)
	case "hdrtags":
		if !flex {
			return R.Write(good)
		}
		// a flexible response header carrying one unknown tagged field: conforming
		fr := binary.BigEndian.AppendUint32(nil, 0)
		fr = binary.BigEndian.AppendUint32(fr, uint32(req.Corr))
		fr = append(fr, 1, 9, 3, 0xaa, 0xbb, 0xcc)
		fr = append(fr, body...)
		binary.BigEndian.PutUint32(fr, uint32(len(fr)-4))
		return R.Write(fr)
	}
	return R.Write(good)
}

// run executes one scenario (inside a bubble when p.VT).
func run(p plan, seed uint64) *result {
	res := &result{Plan: p, ByToken: map[string][]string{}}
	sc := &script{p: p, seed: seed, byToken: res.ByToken}
	cfg := rawkafka.Config{NodeID: 1, AutoTopicPartitions: 1, Default: sc.handle,
		Handlers: map[int16]rawkafka.Handler{18: sc.handle, 3: sc.handle}}
	var vn *kfake.VirtualNetwork
	if p.VT {
		vn = new(kfake.VirtualNetwork)
		ln, err := vn.Listen("tcp", "localhost:9092")
		if err != nil {
			panic(err)
		}
		cfg.Listener = ln
	}
	b, err := rawkafka.New(cfg)
	if err != nil {
		panic(err)
	}
	opts := []kgo.Opt{
		kgo.SeedBrokers(b.Addr()), kgo.ClientID("c22"), kgo.DisableClientMetrics(),
		kgo.RequestTimeoutOverhead(reqOverhead), kgo.DialTimeout(dialTimeout), kgo.RetryTimeout(retryTimeout),
		kgo.RequestRetries(retries), kgo.RetryBackoffFn(func(int) time.Duration { return backoff }),
		kgo.ConnIdleTimeout(20 * time.Second), kgo.MetadataMinAge(50 * time.Millisecond),
	}
	if p.VT {
		opts = append(opts, kgo.Dialer(vn.DialContext))
	}
	cl, err := kgo.NewClient(opts...)
	if err != nil {
		b.Close()
		panic(err)
	}
	seedBr := cl.SeedBrokers()[0]
	start := time.Now()

	var wg sync.WaitGroup
	var mu sync.Mutex
	for c := 0; c < p.Callers; c++ {
		for j := 0; j < p.PerCaller; j++ {
			res.Calls = append(res.Calls, &callRec{Caller: c, J: j})
		}
	}
	for c := 0; c < p.Callers; c++ {
		wg.Add(1)
		go func(c int) {
			defer wg.Done()
			rng := rand.New(rand.NewPCG(seed^0xc0ffee, uint64(p.Idx)<<16|uint64(c)))
			for j := 0; j < p.PerCaller; j++ {
				rec := res.Calls[c*p.PerCaller+j]
				tok := fmt.Sprintf("tok-%d-%d-%d", p.Idx, c, j)
				via := p.Vias[rng.IntN(len(p.Vias))]
				kinds := []string{"metadata", "describegroups", "createtopics", "findcoordinator"}
				if via == "cl.Request" {
					kinds = []string{"metadata", "createtopics"}
				}
				kind := kinds[rng.IntN(len(kinds))]
				var req kmsg.Request
				switch kind {
				case "metadata":
					m := kmsg.NewPtrMetadataRequest()
					t := kmsg.NewMetadataRequestTopic()
					t.Topic = kmsg.StringPtr(tok)
					m.Topics = append(m.Topics, t)
					req = m
				case "describegroups":
					d := kmsg.NewPtrDescribeGroupsRequest()
					d.Groups = []string{tok}
					req = d
				case "createtopics":
					ct := kmsg.NewPtrCreateTopicsRequest()
					ct.TimeoutMillis, ct.ValidateOnly = createMillis, true
					t := kmsg.NewCreateTopicsRequestTopic()
					t.Topic, t.NumPartitions, t.ReplicationFactor = tok, 1, 1
					ct.Topics = append(ct.Topics, t)
					req = ct
				case "findcoordinator":
					fc := kmsg.NewPtrFindCoordinatorRequest()
					fc.CoordinatorKeys = []string{tok}
					fc.CoordinatorKey = tok
					req = fc
				}
				ctx, cancel := context.Background(), context.CancelFunc(func() {})
				cmode := "none"
				if rng.IntN(100) < p.CancelPct {
					d := time.Duration(rng.IntN(3000)) * time.Millisecond
					if rng.IntN(2) == 0 {
						cmode = fmt.Sprintf("deadline %v", d)
						ctx, cancel = context.WithTimeout(ctx, d)
					} else {
						cmode = fmt.Sprintf("cancel after %v", d)
						ctx, cancel = context.WithCancel(ctx)
						t := time.AfterFunc(d, cancel)
						defer t.Stop()
					}
				}
				mu.Lock()
				rec.Kind, rec.Via, rec.Token, rec.Cancel = kind, via, tok, cmode
				mu.Unlock()
				t0 := time.Now()
				var resp kmsg.Response
				var err error
				pan := vh.Catch(func() {
					switch via {
					case "seed.Request":
						resp, err = seedBr.Request(ctx, req)
					case "seed.RetriableRequest":
						resp, err = seedBr.RetriableRequest(ctx, req)
					default:
						resp, err = cl.Request(ctx, req)
					}
				})
				cancel()
				mu.Lock()
				rec.Elapsed = time.Since(t0)
				rec.done = true
				if pan != nil {
					rec.Panic = fmt.Sprint(pan)
				}
				if err != nil {
					rec.Err = err.Error()
				} else if resp != nil {
					rec.Got = tokenOfResponse(resp)
					if rec.Got == "" {
						rec.Got = "<none>"
					}
				}
				rec.NilNil = pan == nil && err == nil && resp == nil
				mu.Unlock()
			}
		}(c)
	}
	done := make(chan struct{})
	go func() { wg.Wait(); close(done) }()

	// bound: see the assumptions in TestCheck
	n := time.Duration(p.Callers)
	perReq := 2*3*(dialTimeout+2*reqOverhead) + reqOverhead + (reqOverhead + createMillis*time.Millisecond)
	bound := time.Duration(retries+2)*n*perReq + time.Duration(retries+2)*backoff + retryTimeout + 3*time.Second
	watchdog := bound*time.Duration(p.PerCaller) + time.Duration(p.Callers*p.PerCaller+8)*time.Duration(p.Throttle)*time.Millisecond
	if !p.VT {
		watchdog = 60 * time.Second
	}
	timedOut := false
	select {
	case <-done:
	case <-time.After(watchdog):
		timedOut = true
		mu.Lock()
		for _, c := range res.Calls {
			if !c.done && c.Token != "" {
				res.Pending = append(res.Pending, fmt.Sprintf("%s %s %s (%s)", c.Via, c.Kind, c.Token, c.Cancel))
			}
		}
		mu.Unlock()
	}
	_ = start
	sc.recovery.Store(true)
	cl.Close()
	if timedOut {
		select {
		case <-done:
			res.LateClose = true
		case <-time.After(watchdog):
		}
	}
	b.Close()
	sc.mu.Lock()
	res.Actions = append([]string(nil), sc.actions...)
	res.Throttles = sc.thr
	sc.mu.Unlock()
	res.Bound = bound
	res.Frames = b.NumRequests()
	res.Conns = b.Conns()
	mu.Lock()
	defer mu.Unlock()
	return res
}

func judge(r *vh.Run, res *result, bubbleFail string) {
	p := res.Plan
	mode := "rt"
	if p.VT {
		mode = "vt"
	}
	hostile := 0
	kinds := map[string]bool{}
	for _, a := range res.Actions {
		if a != "pass" {
			hostile++
			kinds[a] = true
			r.Count("action:"+a, 1)
		}
	}
	issued := map[string]bool{}
	for _, c := range res.Calls {
		if c.Token != "" {
			issued[c.Token] = true
		}
	}
	brief := func(c *callRec) map[string]any {
		return map[string]any{"plan": p, "call": c, "actions_on_frames_with_this_token": res.ByToken[c.Token], "actions_in_arrival_order": clip(res.Actions, 60)}
	}
	if len(res.Pending) > 0 {
		if p.VT {
			r.Violation("vt: calls had not returned after the timeout-derived bound", map[string]any{"plan": p, "pending": clip(res.Pending, 10),
				"watchdog_virtual": "bound*requests_per_caller + throttles", "bound_per_call": res.Bound.String(), "returned_after_close": res.LateClose,
				"actions_in_arrival_order": clip(res.Actions, 60)})
		} else {
			r.Inconclusive(fmt.Sprintf("rt scenario %d: %d calls had not returned after 60s real time", p.Idx, len(res.Pending)))
		}
	}
	if bubbleFail != "" {
		if strings.Contains(bubbleFail, "blocked goroutines remain") {
			r.Count("bubble_goroutines_left_after_close", 1)
		} else {
			r.Violation("vt: bubble failed (deadlock or panic)", map[string]any{"plan": p, "failure": clipS(bubbleFail, 1500)})
		}
	}
	for _, c := range res.Calls {
		if c.Token == "" || !c.done {
			continue
		}
		r.Eval(1)
		switch {
		case c.Panic != "":
			r.Violation("panic in a request call", brief(c))
		case c.NilNil:
			r.Violation("call returned neither a response nor an error", brief(c))
		case c.Err == "":
			switch {
			case c.Got == c.Token:
				r.Count("ok_own_token", 1)
			case issued[c.Got]:
				r.Violation("response of another request delivered ("+c.Via+")", brief(c))
			default:
				// a response without any issued token: only a reply whose body the broker garbled can explain it
				garbled := false
				for _, a := range res.ByToken[c.Token] {
					if a == "badbody" {
						garbled = true
					}
				}
				if garbled {
					r.Count("dontcare_garbled_body_decoded", 1)
				} else {
					r.Violation("successful response without the caller's token", brief(c))
				}
			}
		default:
			r.Count("errors", 1)
			// an error although every frame of this token got a conforming reply and nothing else was hostile is still allowed
			// (cancellation, a neighbour's hostile reply killing the shared connection): not judged
		}
		if p.VT {
			limit := res.Bound + time.Duration(res.Throttles+1)*time.Duration(p.Throttle)*time.Millisecond
			if !kinds["throttle"] {
				limit = res.Bound
			}
			if c.Elapsed > limit {
				r.Violation("vt: call returned later than the timeout-derived bound", map[string]any{"plan": p, "call": c, "bound": limit.String(),
					"actions_in_arrival_order": clip(res.Actions, 60)})
			}
		}
	}
	if hostile > 0 {
		ks := make([]string, 0, len(kinds))
		for k := range kinds {
			ks = append(ks, k)
		}
		sort.Strings(ks)
		r.DistinctHash(mode, p.Callers, p.PerCaller, strings.Join(res.Actions, ","))
		r.Count("scenarios_with_hostile_frames_"+mode, 1)
	}
	r.Count("frames_"+mode, res.Frames)
	r.Count("connections_"+mode, int(res.Conns))
	if r.WantSample() && hostile > 0 {
		r.Sample(map[string]any{"plan": p, "calls": len(res.Calls), "frames": res.Frames, "connections": res.Conns, "hostile_frames": hostile,
			"first_actions": clip(res.Actions, 30), "first_call": res.Calls[0]})
	}
}

func clip(s []string, n int) []string {
	if len(s) > n {
		return s[:n]
	}
	return s
}

func clipS(s string, n int) string {
	if len(s) > n {
		return s[:n]
	}
	return s
}

func TestCheck(t *testing.T) {
	r := vh.Start(t, "C22")
	maxCallers := r.Pick(24, 64)
	nVT := r.Pick(200, 20000)
	nRT := r.Pick(60, 2000)
	if !e2e.HaveVT {
		r.Inconclusive("built without the synctests tag: no virtual-time scenarios")
		nVT = 0
	}
	for i := 0; i < nVT; i++ {
		p := genPlan(r.Rand("c22-vt", i), i, true, maxCallers)
		var res *result
		fail := e2e.Bubble(t, func() { res = run(p, uint64(r.Seed)) })
		if res == nil {
			r.Violation("vt: bubble failed (deadlock or panic)", map[string]any{"plan": p, "failure": clipS(fail, 3000)})
			continue
		}
		judge(r, res, fail)
	}
	var mu sync.Mutex
	vh.Parallel(nRT, 8, func(i int) {
		p := genPlan(r.Rand("c22-rt", i), 1_000_000+i, false, maxCallers)
		var res *result
		if pan := vh.Catch(func() { res = run(p, uint64(r.Seed)) }); pan != nil {
			r.Inconclusive(fmt.Sprintf("rt scenario %d: harness panic %v", i, pan))
			return
		}
		mu.Lock()
		judge(r, res, "")
		mu.Unlock()
	})
	checkHostileApiVersions(r)
	r.Finish("exploration",
		"scenarios: seeded (callers 1..N, 1-4 sequential requests each, request kind and issuing API per call, cancellation mode, hostile percentage, one hostile kind or a mix of up to 6, throttle size, hostility also on connection-initial ApiVersions) against a scripted broker deciding per arriving frame; virtual-time scenarios in synctest bubbles over in-memory pipes, real-time ones over loopback TCP. Non-trivial: at least one frame got a non-conforming reply; distinct by hash(mode, callers, per-caller, sequence of reply kinds in arrival order)",
		"'exactly one response or error' is judged on the synchronous request APIs (Broker.Request, Broker.RetriableRequest, Client.Request): the call returns, and never with (nil, nil)",
		"a successful response that carries no issued token at all is tolerated only when the broker garbled that request's body (random bytes can decode)",
		fmt.Sprintf("virtual-time bound per call = (retries+2) x callers x perRequest + backoffs + RetryTimeout + 3s, perRequest = 2 connection attempts x 3 ApiVersions tries x (dial %v + write %v + read %v) + write + longest read timeout; a KIP-219 throttle (honoured without cap by design) adds (throttle replies+1) x ThrottleMillis", dialTimeout, reqOverhead, reqOverhead),
		"real-time scenarios never judge time: a call not returned after 60 s is INCONCLUSIVE",
		fmt.Sprintf("hostile ApiVersions negotiation (real time): a broker answering every ApiVersions request with UNSUPPORTED_VERSION and a seeded range for key 18 (same version, higher, one lower for ever, negative, no keys, same after one downgrade, min above max); verdict on a count, not on time: more than %d ApiVersions requests for one Metadata request (RequestRetries 0-2) is a negotiation loop; a request that returns nil error is a violation too", apiVersionsBound),
	)
}

var _ = errors.Is
