// C23 — sharded requests account for every requested item once.
//
// Monitor: for every request kind kgo splits across brokers (all 21 sharders
// of pkg/kgo/client.go; kfake implements every one of the keys) a seeded
// request is issued through cl.RequestSharded and cl.Request against a kfake
// cluster of 1-5 brokers with seeded topics, partition counts, replication
// factors, leader placement, groups, transactional ids and unknown items
// mixed in, while first attempts are disturbed (retriable error codes injected
// with a kfake control function, leaders moved / coordinators rehashed behind
// the client's caches, connections killed before or after the broker handled
// the request, the internal FindCoordinator / Metadata load killed).
//
// Oracle (from the property statement): every requested item is in exactly one
// returned shard - at request level (the shard's Req, always) and at effective
// level (the shard's Resp, or its Req when the shard carries an Err); nothing
// that was not requested shows up; the merged response of cl.Request holds
// every requested item exactly once when it reports no error and at most once
// when it does. Requests that go to every replica (DescribeLogDirs,
// AlterReplicaLogDirs) must hold a known partition once per replica, on
// distinct brokers. Requests that go to every broker (ListGroups,
// ListTransactions, DescribeLogDirs(all)) must yield one shard per broker and
// a merged list without repeats that holds every group / transactional id the
// harness created.
//
// Finding kept by this check (see repro_test.go for the minimal witness): the
// per-replica sharders are marked reshardable, so when one replica's shard
// fails with a retriable connection error its sub-request is re-split to every
// replica again and brokers that already answered get a second shard.
package c23

import (
	"context"
	"errors"
	"fmt"
	"math/rand/v2"
	"sort"
	"strconv"
	"strings"
	"sync"
	"testing"
	"time"

	"github.com/twmb/franz-go/pkg/kerr"
	"github.com/twmb/franz-go/pkg/kfake"
	"github.com/twmb/franz-go/pkg/kgo"
	"github.com/twmb/franz-go/pkg/kmsg"
	"github.com/twmb/franz-go/pkg/kversion"

	"verifharness/internal/e2e"
	"verifharness/internal/faultnet"
	"verifharness/internal/vh"
)

const clientID = "vshard"

// ---------------------------------------------------------------- world

type world struct {
	env       *e2e.Env
	nb        int
	nodes     []int32
	topics    []string
	parts     map[string]int
	nrep      map[string]int
	groups    []string // groups that exist for the whole layout
	delGroups []string // existing groups reserved for DeleteGroups (each used once)
	txns      []string
	pid       map[string][2]int64
	unk       int
	noUnknown bool // this call draws known items only
}

func (w *world) unknown(prefix string) string {
	w.unk++
	return fmt.Sprintf("%s-nope-%d", prefix, w.unk)
}

type tpl struct {
	t  string
	ps []int32
}

// genTPs draws topic/partition entries: known and unknown topics, partitions
// beyond the topic's count; with dup some partition or topic entry repeats.
func (w *world) genTPs(rng *rand.Rand, dup bool) []tpl {
	var out []tpl
	n := rng.IntN(len(w.topics) + 2)
	if n == 0 && rng.IntN(4) != 0 {
		n = 1
	}
	perm := rng.Perm(len(w.topics))
	for i := 0; i < n; i++ {
		var e tpl
		if i < len(perm) && (w.noUnknown || rng.IntN(6) != 0) {
			e.t = w.topics[perm[i]]
			np := w.parts[e.t]
			for p := 0; p < np; p++ {
				if rng.IntN(3) != 0 {
					e.ps = append(e.ps, int32(p))
				}
			}
			if !w.noUnknown && rng.IntN(5) == 0 {
				e.ps = append(e.ps, int32(np+rng.IntN(3))) // partition the topic does not have
			}
			if len(e.ps) == 0 {
				e.ps = append(e.ps, int32(rng.IntN(np)))
			}
			rng.Shuffle(len(e.ps), func(a, b int) { e.ps[a], e.ps[b] = e.ps[b], e.ps[a] })
		} else if w.noUnknown {
			continue
		} else {
			e.t = w.unknown("topic")
			for p := 0; p <= rng.IntN(3); p++ {
				e.ps = append(e.ps, int32(p))
			}
		}
		out = append(out, e)
	}
	if dup && len(out) > 0 {
		i := rng.IntN(len(out))
		switch rng.IntN(3) {
		case 0: // a partition twice in one entry
			out[i].ps = append(out[i].ps, out[i].ps[rng.IntN(len(out[i].ps))])
		case 1: // the whole topic entry again
			out = append(out, tpl{out[i].t, append([]int32(nil), out[i].ps...)})
		default: // the topic again with one of its partitions
			out = append(out, tpl{out[i].t, []int32{out[i].ps[0]}})
		}
	}
	return out
}

func (w *world) genNames(rng *rand.Rand, pool []string, prefix string, dup bool) []string {
	var out []string
	n := rng.IntN(7)
	if n == 0 && rng.IntN(4) != 0 {
		n = 2
	}
	perm := rng.Perm(len(pool))
	for i := 0; i < n; i++ {
		if i < len(perm) && (w.noUnknown || rng.IntN(3) != 0) {
			out = append(out, pool[perm[i]])
		} else if !w.noUnknown {
			out = append(out, w.unknown(prefix))
		}
	}
	if dup && len(out) > 0 {
		out = append(out, out[rng.IntN(len(out))])
		if rng.IntN(2) == 0 {
			out = append(out, out[rng.IntN(len(out))])
		}
	}
	rng.Shuffle(len(out), func(a, b int) { out[a], out[b] = out[b], out[a] })
	return out
}

func tpItem(t string, p int32) string { return t + "/" + strconv.Itoa(int(p)) }

// ---------------------------------------------------------------- kinds

type kind struct {
	name  string
	key   int16
	class string // leader | group | txn | replica | config | any | all
	gen   func(w *world, rng *rand.Rand, dup bool) kmsg.Request
	// items of a (shard) request and of a (shard or merged) response
	reqItems  func(kmsg.Request) []string
	respItems func(kmsg.Response) []string
	// errResp builds the response a broker would give with every item failing with code
	errResp func(kmsg.Request, int16) kmsg.Response
	codes   []int16
	// respJudged reports whether the response of this shard request is expected to echo the items
	respJudged func(kmsg.Request) bool
	noMerged   bool
}

var leaderCodes = []int16{kerr.NotLeaderForPartition.Code, kerr.NotLeaderForPartition.Code, kerr.UnknownTopicOrPartition.Code}
var coordCodes = []int16{kerr.NotCoordinator.Code, kerr.CoordinatorLoadInProgress.Code, kerr.CoordinatorNotAvailable.Code}

func kinds() []*kind {
	var ks []*kind

	// ---- ListOffsets
	ks = append(ks, &kind{name: "ListOffsets", key: 2, class: "leader", codes: leaderCodes,
		gen: func(w *world, rng *rand.Rand, dup bool) kmsg.Request {
			req := kmsg.NewPtrListOffsetsRequest()
			req.ReplicaID = -1
			req.IsolationLevel = int8(rng.IntN(2))
			for _, e := range w.genTPs(rng, dup) {
				rt := kmsg.NewListOffsetsRequestTopic()
				rt.Topic = e.t
				for _, p := range e.ps {
					rp := kmsg.NewListOffsetsRequestTopicPartition()
					rp.Partition = p
					rp.Timestamp = int64(-1 - rng.IntN(2))
					rt.Partitions = append(rt.Partitions, rp)
				}
				req.Topics = append(req.Topics, rt)
			}
			return req
		},
		reqItems: func(kr kmsg.Request) (out []string) {
			for _, t := range kr.(*kmsg.ListOffsetsRequest).Topics {
				for _, p := range t.Partitions {
					out = append(out, tpItem(t.Topic, p.Partition))
				}
			}
			return
		},
		respItems: func(kr kmsg.Response) (out []string) {
			for _, t := range kr.(*kmsg.ListOffsetsResponse).Topics {
				for _, p := range t.Partitions {
					out = append(out, tpItem(t.Topic, p.Partition))
				}
			}
			return
		},
		errResp: func(kr kmsg.Request, code int16) kmsg.Response {
			req := kr.(*kmsg.ListOffsetsRequest)
			resp := req.ResponseKind().(*kmsg.ListOffsetsResponse)
			for _, t := range req.Topics {
				st := kmsg.NewListOffsetsResponseTopic()
				st.Topic = t.Topic
				for _, p := range t.Partitions {
					sp := kmsg.NewListOffsetsResponseTopicPartition()
					sp.Partition = p.Partition
					sp.ErrorCode = code
					sp.Offset = -1
					st.Partitions = append(st.Partitions, sp)
				}
				resp.Topics = append(resp.Topics, st)
			}
			return resp
		},
	})

	// ---- DeleteRecords
	ks = append(ks, &kind{name: "DeleteRecords", key: 21, class: "leader", codes: leaderCodes,
		gen: func(w *world, rng *rand.Rand, dup bool) kmsg.Request {
			req := kmsg.NewPtrDeleteRecordsRequest()
			req.TimeoutMillis = 5000
			for _, e := range w.genTPs(rng, dup) {
				rt := kmsg.NewDeleteRecordsRequestTopic()
				rt.Topic = e.t
				for _, p := range e.ps {
					rp := kmsg.NewDeleteRecordsRequestTopicPartition()
					rp.Partition = p
					rp.Offset = int64(-rng.IntN(2)) // 0 or -1 (high watermark)
					rt.Partitions = append(rt.Partitions, rp)
				}
				req.Topics = append(req.Topics, rt)
			}
			return req
		},
		reqItems: func(kr kmsg.Request) (out []string) {
			for _, t := range kr.(*kmsg.DeleteRecordsRequest).Topics {
				for _, p := range t.Partitions {
					out = append(out, tpItem(t.Topic, p.Partition))
				}
			}
			return
		},
		respItems: func(kr kmsg.Response) (out []string) {
			for _, t := range kr.(*kmsg.DeleteRecordsResponse).Topics {
				for _, p := range t.Partitions {
					out = append(out, tpItem(t.Topic, p.Partition))
				}
			}
			return
		},
		errResp: func(kr kmsg.Request, code int16) kmsg.Response {
			req := kr.(*kmsg.DeleteRecordsRequest)
			resp := req.ResponseKind().(*kmsg.DeleteRecordsResponse)
			for _, t := range req.Topics {
				st := kmsg.NewDeleteRecordsResponseTopic()
				st.Topic = t.Topic
				for _, p := range t.Partitions {
					sp := kmsg.NewDeleteRecordsResponseTopicPartition()
					sp.Partition = p.Partition
					sp.ErrorCode = code
					sp.LowWatermark = -1
					st.Partitions = append(st.Partitions, sp)
				}
				resp.Topics = append(resp.Topics, st)
			}
			return resp
		},
	})

	// ---- OffsetForLeaderEpoch
	ks = append(ks, &kind{name: "OffsetForLeaderEpoch", key: 23, class: "leader", codes: leaderCodes,
		gen: func(w *world, rng *rand.Rand, dup bool) kmsg.Request {
			req := kmsg.NewPtrOffsetForLeaderEpochRequest()
			req.ReplicaID = -1
			for _, e := range w.genTPs(rng, dup) {
				rt := kmsg.NewOffsetForLeaderEpochRequestTopic()
				rt.Topic = e.t
				for _, p := range e.ps {
					rp := kmsg.NewOffsetForLeaderEpochRequestTopicPartition()
					rp.Partition = p
					rp.CurrentLeaderEpoch = -1
					rp.LeaderEpoch = int32(rng.IntN(3))
					rt.Partitions = append(rt.Partitions, rp)
				}
				req.Topics = append(req.Topics, rt)
			}
			return req
		},
		reqItems: func(kr kmsg.Request) (out []string) {
			for _, t := range kr.(*kmsg.OffsetForLeaderEpochRequest).Topics {
				for _, p := range t.Partitions {
					out = append(out, tpItem(t.Topic, p.Partition))
				}
			}
			return
		},
		respItems: func(kr kmsg.Response) (out []string) {
			for _, t := range kr.(*kmsg.OffsetForLeaderEpochResponse).Topics {
				for _, p := range t.Partitions {
					out = append(out, tpItem(t.Topic, p.Partition))
				}
			}
			return
		},
		errResp: func(kr kmsg.Request, code int16) kmsg.Response {
			req := kr.(*kmsg.OffsetForLeaderEpochRequest)
			resp := req.ResponseKind().(*kmsg.OffsetForLeaderEpochResponse)
			for _, t := range req.Topics {
				st := kmsg.NewOffsetForLeaderEpochResponseTopic()
				st.Topic = t.Topic
				for _, p := range t.Partitions {
					sp := kmsg.NewOffsetForLeaderEpochResponseTopicPartition()
					sp.Partition = p.Partition
					sp.ErrorCode = code
					sp.LeaderEpoch = -1
					sp.EndOffset = -1
					st.Partitions = append(st.Partitions, sp)
				}
				resp.Topics = append(resp.Topics, st)
			}
			return resp
		},
	})

	// ---- DescribeProducers
	ks = append(ks, &kind{name: "DescribeProducers", key: 61, class: "leader", codes: leaderCodes,
		gen: func(w *world, rng *rand.Rand, dup bool) kmsg.Request {
			req := kmsg.NewPtrDescribeProducersRequest()
			for _, e := range w.genTPs(rng, dup) {
				rt := kmsg.NewDescribeProducersRequestTopic()
				rt.Topic = e.t
				rt.Partitions = e.ps
				req.Topics = append(req.Topics, rt)
			}
			return req
		},
		reqItems: func(kr kmsg.Request) (out []string) {
			for _, t := range kr.(*kmsg.DescribeProducersRequest).Topics {
				for _, p := range t.Partitions {
					out = append(out, tpItem(t.Topic, p))
				}
			}
			return
		},
		respItems: func(kr kmsg.Response) (out []string) {
			for _, t := range kr.(*kmsg.DescribeProducersResponse).Topics {
				for _, p := range t.Partitions {
					out = append(out, tpItem(t.Topic, p.Partition))
				}
			}
			return
		},
		errResp: func(kr kmsg.Request, code int16) kmsg.Response {
			req := kr.(*kmsg.DescribeProducersRequest)
			resp := req.ResponseKind().(*kmsg.DescribeProducersResponse)
			for _, t := range req.Topics {
				st := kmsg.NewDescribeProducersResponseTopic()
				st.Topic = t.Topic
				for _, p := range t.Partitions {
					sp := kmsg.NewDescribeProducersResponseTopicPartition()
					sp.Partition = p
					sp.ErrorCode = code
					st.Partitions = append(st.Partitions, sp)
				}
				resp.Topics = append(resp.Topics, st)
			}
			return resp
		},
	})

	// ---- WriteTxnMarkers (item = producer id + topic-partition)
	markItem := func(pid int64, t string, p int32) string { return fmt.Sprintf("m%d:%s", pid, tpItem(t, p)) }
	ks = append(ks, &kind{name: "WriteTxnMarkers", key: 27, class: "leader", codes: leaderCodes,
		gen: func(w *world, rng *rand.Rand, dup bool) kmsg.Request {
			req := kmsg.NewPtrWriteTxnMarkersRequest()
			n := 1 + rng.IntN(3)
			for i := 0; i < n; i++ {
				m := kmsg.NewWriteTxnMarkersRequestMarker()
				m.ProducerID = int64(9000 + i)
				m.ProducerEpoch = 0
				m.Committed = rng.IntN(2) == 0
				for _, e := range w.genTPs(rng, false) {
					mt := kmsg.NewWriteTxnMarkersRequestMarkerTopic()
					mt.Topic = e.t
					mt.Partitions = e.ps
					m.Topics = append(m.Topics, mt)
				}
				req.Markers = append(req.Markers, m)
			}
			if dup {
				req.Markers = append(req.Markers, req.Markers[rng.IntN(len(req.Markers))])
			}
			return req
		},
		reqItems: func(kr kmsg.Request) (out []string) {
			for _, m := range kr.(*kmsg.WriteTxnMarkersRequest).Markers {
				for _, t := range m.Topics {
					for _, p := range t.Partitions {
						out = append(out, markItem(m.ProducerID, t.Topic, p))
					}
				}
			}
			return
		},
		respItems: func(kr kmsg.Response) (out []string) {
			for _, m := range kr.(*kmsg.WriteTxnMarkersResponse).Markers {
				for _, t := range m.Topics {
					for _, p := range t.Partitions {
						out = append(out, markItem(m.ProducerID, t.Topic, p.Partition))
					}
				}
			}
			return
		},
		errResp: func(kr kmsg.Request, code int16) kmsg.Response {
			req := kr.(*kmsg.WriteTxnMarkersRequest)
			resp := req.ResponseKind().(*kmsg.WriteTxnMarkersResponse)
			for _, m := range req.Markers {
				sm := kmsg.NewWriteTxnMarkersResponseMarker()
				sm.ProducerID = m.ProducerID
				for _, t := range m.Topics {
					st := kmsg.NewWriteTxnMarkersResponseMarkerTopic()
					st.Topic = t.Topic
					for _, p := range t.Partitions {
						sp := kmsg.NewWriteTxnMarkersResponseMarkerTopicPartition()
						sp.Partition = p
						sp.ErrorCode = code
						st.Partitions = append(st.Partitions, sp)
					}
					sm.Topics = append(sm.Topics, st)
				}
				resp.Markers = append(resp.Markers, sm)
			}
			return resp
		},
	})

	// ---- OffsetFetch (multi-group and the legacy single-group form)
	ks = append(ks, &kind{name: "OffsetFetch", key: 9, class: "group", codes: coordCodes,
		gen: func(w *world, rng *rand.Rand, dup bool) kmsg.Request {
			req := kmsg.NewPtrOffsetFetchRequest()
			req.RequireStable = rng.IntN(2) == 0
			names := w.genNames(rng, w.groups, "group", dup)
			topicsFor := func() (ts []tpl) {
				if rng.IntN(2) == 0 {
					return nil // all topics
				}
				return w.genTPs(rng, false)
			}
			if !dup && rng.IntN(4) == 0 {
				// legacy form
				g := w.unknown("group")
				if len(names) > 0 {
					g = names[0]
				}
				req.Group = g
				for _, e := range topicsFor() {
					rt := kmsg.NewOffsetFetchRequestTopic()
					rt.Topic = e.t
					rt.Partitions = e.ps
					req.Topics = append(req.Topics, rt)
				}
				return req
			}
			for _, g := range names {
				rg := kmsg.NewOffsetFetchRequestGroup()
				rg.Group = g
				for _, e := range topicsFor() {
					rt := kmsg.NewOffsetFetchRequestGroupTopic()
					rt.Topic = e.t
					rt.Partitions = e.ps
					rg.Topics = append(rg.Topics, rt)
				}
				req.Groups = append(req.Groups, rg)
			}
			if len(req.Groups) == 0 {
				req.Group = w.unknown("group")
			}
			return req
		},
		reqItems: func(kr kmsg.Request) (out []string) {
			req := kr.(*kmsg.OffsetFetchRequest)
			if len(req.Groups) == 0 {
				return []string{"g:" + req.Group}
			}
			for _, g := range req.Groups {
				out = append(out, "g:"+g.Group)
			}
			return
		},
		respItems: func(kr kmsg.Response) (out []string) {
			for _, g := range kr.(*kmsg.OffsetFetchResponse).Groups {
				out = append(out, "g:"+g.Group)
			}
			return
		},
		errResp: func(kr kmsg.Request, code int16) kmsg.Response {
			req := kr.(*kmsg.OffsetFetchRequest)
			resp := req.ResponseKind().(*kmsg.OffsetFetchResponse)
			if req.Version < 8 {
				if req.Version < 2 {
					return nil
				}
				resp.ErrorCode = code
				return resp
			}
			for _, g := range req.Groups {
				sg := kmsg.NewOffsetFetchResponseGroup()
				sg.Group = g.Group
				sg.ErrorCode = code
				resp.Groups = append(resp.Groups, sg)
			}
			return resp
		},
	})

	// ---- FindCoordinator (batched and the legacy single-key form)
	ks = append(ks, &kind{name: "FindCoordinator", key: 10, class: "any", codes: []int16{kerr.CoordinatorNotAvailable.Code},
		gen: func(w *world, rng *rand.Rand, dup bool) kmsg.Request {
			req := kmsg.NewPtrFindCoordinatorRequest()
			req.CoordinatorType = int8(rng.IntN(2))
			pool, prefix := w.groups, "group"
			if req.CoordinatorType == 1 {
				pool, prefix = w.txns, "txn"
			}
			names := w.genNames(rng, pool, prefix, dup)
			if len(names) == 0 {
				names = []string{w.unknown(prefix)}
			}
			if !dup && rng.IntN(4) == 0 {
				req.CoordinatorKey = names[0]
				return req
			}
			req.CoordinatorKeys = names
			return req
		},
		reqItems: func(kr kmsg.Request) (out []string) {
			req := kr.(*kmsg.FindCoordinatorRequest)
			if len(req.CoordinatorKeys) == 0 {
				return []string{"k:" + req.CoordinatorKey}
			}
			for _, k := range req.CoordinatorKeys {
				out = append(out, "k:"+k)
			}
			return
		},
		respItems: func(kr kmsg.Response) (out []string) {
			for _, c := range kr.(*kmsg.FindCoordinatorResponse).Coordinators {
				out = append(out, "k:"+c.Key)
			}
			return
		},
		errResp: func(kr kmsg.Request, code int16) kmsg.Response {
			req := kr.(*kmsg.FindCoordinatorRequest)
			resp := req.ResponseKind().(*kmsg.FindCoordinatorResponse)
			if req.Version < 4 {
				resp.ErrorCode = code
				resp.NodeID = -1
				return resp
			}
			for _, k := range req.CoordinatorKeys {
				sc := kmsg.NewFindCoordinatorResponseCoordinator()
				sc.Key = k
				sc.NodeID = -1
				sc.ErrorCode = code
				resp.Coordinators = append(resp.Coordinators, sc)
			}
			return resp
		},
	})

	// ---- DescribeGroups
	ks = append(ks, &kind{name: "DescribeGroups", key: 15, class: "group", codes: coordCodes,
		gen: func(w *world, rng *rand.Rand, dup bool) kmsg.Request {
			req := kmsg.NewPtrDescribeGroupsRequest()
			req.Groups = w.genNames(rng, w.groups, "group", dup)
			return req
		},
		reqItems: func(kr kmsg.Request) (out []string) {
			for _, g := range kr.(*kmsg.DescribeGroupsRequest).Groups {
				out = append(out, "g:"+g)
			}
			return
		},
		respItems: func(kr kmsg.Response) (out []string) {
			for _, g := range kr.(*kmsg.DescribeGroupsResponse).Groups {
				out = append(out, "g:"+g.Group)
			}
			return
		},
		errResp: func(kr kmsg.Request, code int16) kmsg.Response {
			req := kr.(*kmsg.DescribeGroupsRequest)
			resp := req.ResponseKind().(*kmsg.DescribeGroupsResponse)
			for _, g := range req.Groups {
				sg := kmsg.NewDescribeGroupsResponseGroup()
				sg.Group = g
				sg.ErrorCode = code
				resp.Groups = append(resp.Groups, sg)
			}
			return resp
		},
	})

	// ---- DeleteGroups
	ks = append(ks, &kind{name: "DeleteGroups", key: 42, class: "group", codes: coordCodes,
		gen: func(w *world, rng *rand.Rand, dup bool) kmsg.Request {
			req := kmsg.NewPtrDeleteGroupsRequest()
			var pool []string
			if len(w.delGroups) > 0 {
				pool = w.delGroups[:1]
				w.delGroups = w.delGroups[1:]
			}
			req.Groups = w.genNames(rng, pool, "group", dup)
			return req
		},
		reqItems: func(kr kmsg.Request) (out []string) {
			for _, g := range kr.(*kmsg.DeleteGroupsRequest).Groups {
				out = append(out, "g:"+g)
			}
			return
		},
		respItems: func(kr kmsg.Response) (out []string) {
			for _, g := range kr.(*kmsg.DeleteGroupsResponse).Groups {
				out = append(out, "g:"+g.Group)
			}
			return
		},
		errResp: func(kr kmsg.Request, code int16) kmsg.Response {
			req := kr.(*kmsg.DeleteGroupsRequest)
			resp := req.ResponseKind().(*kmsg.DeleteGroupsResponse)
			for _, g := range req.Groups {
				sg := kmsg.NewDeleteGroupsResponseGroup()
				sg.Group = g
				sg.ErrorCode = code
				resp.Groups = append(resp.Groups, sg)
			}
			return resp
		},
	})

	// ---- ConsumerGroupDescribe
	ks = append(ks, &kind{name: "ConsumerGroupDescribe", key: 69, class: "group", codes: coordCodes,
		gen: func(w *world, rng *rand.Rand, dup bool) kmsg.Request {
			req := kmsg.NewPtrConsumerGroupDescribeRequest()
			req.Groups = w.genNames(rng, w.groups, "group", dup)
			return req
		},
		reqItems: func(kr kmsg.Request) (out []string) {
			for _, g := range kr.(*kmsg.ConsumerGroupDescribeRequest).Groups {
				out = append(out, "g:"+g)
			}
			return
		},
		respItems: func(kr kmsg.Response) (out []string) {
			for _, g := range kr.(*kmsg.ConsumerGroupDescribeResponse).Groups {
				out = append(out, "g:"+g.Group)
			}
			return
		},
		errResp: func(kr kmsg.Request, code int16) kmsg.Response {
			req := kr.(*kmsg.ConsumerGroupDescribeRequest)
			resp := req.ResponseKind().(*kmsg.ConsumerGroupDescribeResponse)
			for _, g := range req.Groups {
				sg := kmsg.NewConsumerGroupDescribeResponseGroup()
				sg.Group = g
				sg.ErrorCode = code
				resp.Groups = append(resp.Groups, sg)
			}
			return resp
		},
	})

	// ---- ShareGroupDescribe
	ks = append(ks, &kind{name: "ShareGroupDescribe", key: 77, class: "group", codes: coordCodes,
		gen: func(w *world, rng *rand.Rand, dup bool) kmsg.Request {
			req := kmsg.NewPtrShareGroupDescribeRequest()
			req.GroupIDs = w.genNames(rng, w.groups, "group", dup)
			return req
		},
		reqItems: func(kr kmsg.Request) (out []string) {
			for _, g := range kr.(*kmsg.ShareGroupDescribeRequest).GroupIDs {
				out = append(out, "g:"+g)
			}
			return
		},
		respItems: func(kr kmsg.Response) (out []string) {
			for _, g := range kr.(*kmsg.ShareGroupDescribeResponse).Groups {
				out = append(out, "g:"+g.GroupID)
			}
			return
		},
		errResp: func(kr kmsg.Request, code int16) kmsg.Response {
			req := kr.(*kmsg.ShareGroupDescribeRequest)
			resp := req.ResponseKind().(*kmsg.ShareGroupDescribeResponse)
			for _, g := range req.GroupIDs {
				sg := kmsg.NewShareGroupDescribeResponseGroup()
				sg.GroupID = g
				sg.ErrorCode = code
				resp.Groups = append(resp.Groups, sg)
			}
			return resp
		},
	})

	// ---- DescribeShareGroupOffsets
	ks = append(ks, &kind{name: "DescribeShareGroupOffsets", key: 90, class: "group", codes: coordCodes,
		gen: func(w *world, rng *rand.Rand, dup bool) kmsg.Request {
			req := kmsg.NewPtrDescribeShareGroupOffsetsRequest()
			for _, g := range w.genNames(rng, w.groups, "group", dup) {
				rg := kmsg.NewDescribeShareGroupOffsetsRequestGroup()
				rg.GroupID = g
				if rng.IntN(2) == 0 {
					for _, e := range w.genTPs(rng, false) {
						rt := kmsg.NewDescribeShareGroupOffsetsRequestGroupTopic()
						rt.Topic = e.t
						rt.Partitions = e.ps
						rg.Topics = append(rg.Topics, rt)
					}
				}
				req.Groups = append(req.Groups, rg)
			}
			return req
		},
		reqItems: func(kr kmsg.Request) (out []string) {
			for _, g := range kr.(*kmsg.DescribeShareGroupOffsetsRequest).Groups {
				out = append(out, "g:"+g.GroupID)
			}
			return
		},
		respItems: func(kr kmsg.Response) (out []string) {
			for _, g := range kr.(*kmsg.DescribeShareGroupOffsetsResponse).Groups {
				out = append(out, "g:"+g.GroupID)
			}
			return
		},
		errResp: func(kr kmsg.Request, code int16) kmsg.Response {
			req := kr.(*kmsg.DescribeShareGroupOffsetsRequest)
			resp := req.ResponseKind().(*kmsg.DescribeShareGroupOffsetsResponse)
			for _, g := range req.Groups {
				sg := kmsg.NewDescribeShareGroupOffsetsResponseGroup()
				sg.GroupID = g.GroupID
				sg.ErrorCode = code
				resp.Groups = append(resp.Groups, sg)
			}
			return resp
		},
	})

	// ---- DescribeTransactions
	ks = append(ks, &kind{name: "DescribeTransactions", key: 65, class: "txn", codes: coordCodes,
		gen: func(w *world, rng *rand.Rand, dup bool) kmsg.Request {
			req := kmsg.NewPtrDescribeTransactionsRequest()
			req.TransactionalIDs = w.genNames(rng, w.txns, "txn", dup)
			return req
		},
		reqItems: func(kr kmsg.Request) (out []string) {
			for _, x := range kr.(*kmsg.DescribeTransactionsRequest).TransactionalIDs {
				out = append(out, "x:"+x)
			}
			return
		},
		respItems: func(kr kmsg.Response) (out []string) {
			for _, x := range kr.(*kmsg.DescribeTransactionsResponse).TransactionStates {
				out = append(out, "x:"+x.TransactionalID)
			}
			return
		},
		errResp: func(kr kmsg.Request, code int16) kmsg.Response {
			req := kr.(*kmsg.DescribeTransactionsRequest)
			resp := req.ResponseKind().(*kmsg.DescribeTransactionsResponse)
			for _, x := range req.TransactionalIDs {
				st := kmsg.NewDescribeTransactionsResponseTransactionState()
				st.TransactionalID = x
				st.ErrorCode = code
				resp.TransactionStates = append(resp.TransactionStates, st)
			}
			return resp
		},
	})

	// ---- AddPartitionsToTxn (kfake implements the single-transaction form only;
	// batched requests are judged at request level)
	ks = append(ks, &kind{name: "AddPartitionsToTxn", key: 24, class: "txn", codes: []int16{kerr.NotCoordinator.Code, kerr.CoordinatorLoadInProgress.Code},
		gen: func(w *world, rng *rand.Rand, dup bool) kmsg.Request {
			req := kmsg.NewPtrAddPartitionsToTxnRequest()
			n := 1
			if dup || rng.IntN(3) == 0 {
				n = 2 + rng.IntN(2)
			}
			var names []string
			perm := rng.Perm(len(w.txns))
			for i := 0; i < n; i++ {
				if i < len(perm) && rng.IntN(3) != 0 {
					names = append(names, w.txns[perm[i]])
				} else {
					names = append(names, w.unknown("txn"))
				}
			}
			if dup {
				names = append(names, names[0])
			}
			tps := func() (out []tpl) {
				for len(out) == 0 {
					out = w.genTPs(rng, false)
				}
				return
			}
			if n == 1 && rng.IntN(2) == 0 {
				req.TransactionalID = names[0]
				req.ProducerID, req.ProducerEpoch = w.pid[names[0]][0], int16(w.pid[names[0]][1])
				for _, e := range tps() {
					rt := kmsg.NewAddPartitionsToTxnRequestTopic()
					rt.Topic = e.t
					rt.Partitions = e.ps
					req.Topics = append(req.Topics, rt)
				}
				return req
			}
			for _, x := range names {
				rt := kmsg.NewAddPartitionsToTxnRequestTransaction()
				rt.TransactionalID = x
				rt.ProducerID, rt.ProducerEpoch = w.pid[x][0], int16(w.pid[x][1])
				for _, e := range tps() {
					tt := kmsg.NewAddPartitionsToTxnRequestTransactionTopic()
					tt.Topic = e.t
					tt.Partitions = e.ps
					rt.Topics = append(rt.Topics, tt)
				}
				req.Transactions = append(req.Transactions, rt)
			}
			return req
		},
		reqItems: func(kr kmsg.Request) (out []string) {
			req := kr.(*kmsg.AddPartitionsToTxnRequest)
			if len(req.Transactions) == 0 {
				return []string{"x:" + req.TransactionalID}
			}
			for _, x := range req.Transactions {
				out = append(out, "x:"+x.TransactionalID)
			}
			return
		},
		respItems: func(kr kmsg.Response) (out []string) {
			for _, x := range kr.(*kmsg.AddPartitionsToTxnResponse).Transactions {
				out = append(out, "x:"+x.TransactionalID)
			}
			return
		},
		respJudged: func(kr kmsg.Request) bool {
			return len(kr.(*kmsg.AddPartitionsToTxnRequest).Transactions) <= 1
		},
		errResp: func(kr kmsg.Request, code int16) kmsg.Response {
			req := kr.(*kmsg.AddPartitionsToTxnRequest)
			if req.Version > 3 {
				return nil
			}
			resp := req.ResponseKind().(*kmsg.AddPartitionsToTxnResponse)
			for _, t := range req.Topics {
				st := kmsg.NewAddPartitionsToTxnResponseTopic()
				st.Topic = t.Topic
				for _, p := range t.Partitions {
					sp := kmsg.NewAddPartitionsToTxnResponseTopicPartition()
					sp.Partition = p
					sp.ErrorCode = code
					st.Partitions = append(st.Partitions, sp)
				}
				resp.Topics = append(resp.Topics, st)
			}
			return resp
		},
	})

	// ---- config requests (item = resource)
	resItem := func(t kmsg.ConfigResourceType, n string) string { return fmt.Sprintf("r%d:%s", int8(t), n) }
	type res struct {
		t kmsg.ConfigResourceType
		n string
	}
	genRes := func(w *world, rng *rand.Rand, dup bool) (out []res) {
		n := 1 + rng.IntN(6)
		seen := map[string]bool{}
		for i := 0; i < n; i++ {
			var x res
			switch rng.IntN(6) {
			case 0, 1:
				x = res{kmsg.ConfigResourceTypeTopic, w.topics[rng.IntN(len(w.topics))]}
			case 2:
				if w.noUnknown {
					continue
				}
				x = res{kmsg.ConfigResourceTypeTopic, w.unknown("topic")}
			case 3, 4:
				x = res{kmsg.ConfigResourceTypeBroker, strconv.Itoa(int(w.nodes[rng.IntN(len(w.nodes))]))}
				if rng.IntN(4) == 0 {
					x.t = kmsg.ConfigResourceTypeBrokerLogger
				}
			default:
				if w.noUnknown {
					continue
				}
				x = res{kmsg.ConfigResourceTypeBroker, []string{"", "97", "x1"}[rng.IntN(3)]}
			}
			if seen[resItem(x.t, x.n)] {
				continue
			}
			seen[resItem(x.t, x.n)] = true
			out = append(out, x)
		}
		if len(out) == 0 {
			out = append(out, res{kmsg.ConfigResourceTypeTopic, w.topics[rng.IntN(len(w.topics))]})
		}
		if dup {
			out = append(out, out[rng.IntN(len(out))])
		}
		return out
	}
	ks = append(ks, &kind{name: "DescribeConfigs", key: 32, class: "config",
		gen: func(w *world, rng *rand.Rand, dup bool) kmsg.Request {
			req := kmsg.NewPtrDescribeConfigsRequest()
			for _, x := range genRes(w, rng, dup) {
				rr := kmsg.NewDescribeConfigsRequestResource()
				rr.ResourceType, rr.ResourceName = x.t, x.n
				req.Resources = append(req.Resources, rr)
			}
			return req
		},
		reqItems: func(kr kmsg.Request) (out []string) {
			for _, x := range kr.(*kmsg.DescribeConfigsRequest).Resources {
				out = append(out, resItem(x.ResourceType, x.ResourceName))
			}
			return
		},
		respItems: func(kr kmsg.Response) (out []string) {
			for _, x := range kr.(*kmsg.DescribeConfigsResponse).Resources {
				out = append(out, resItem(x.ResourceType, x.ResourceName))
			}
			return
		},
	})
	val := "1000"
	ks = append(ks, &kind{name: "AlterConfigs", key: 33, class: "config",
		gen: func(w *world, rng *rand.Rand, dup bool) kmsg.Request {
			req := kmsg.NewPtrAlterConfigsRequest()
			req.ValidateOnly = true
			for _, x := range genRes(w, rng, dup) {
				rr := kmsg.NewAlterConfigsRequestResource()
				rr.ResourceType, rr.ResourceName = x.t, x.n
				rc := kmsg.NewAlterConfigsRequestResourceConfig()
				rc.Name, rc.Value = "retention.ms", &val
				rr.Configs = append(rr.Configs, rc)
				req.Resources = append(req.Resources, rr)
			}
			return req
		},
		reqItems: func(kr kmsg.Request) (out []string) {
			for _, x := range kr.(*kmsg.AlterConfigsRequest).Resources {
				out = append(out, resItem(x.ResourceType, x.ResourceName))
			}
			return
		},
		respItems: func(kr kmsg.Response) (out []string) {
			for _, x := range kr.(*kmsg.AlterConfigsResponse).Resources {
				out = append(out, resItem(x.ResourceType, x.ResourceName))
			}
			return
		},
	})
	ks = append(ks, &kind{name: "IncrementalAlterConfigs", key: 44, class: "config",
		gen: func(w *world, rng *rand.Rand, dup bool) kmsg.Request {
			req := kmsg.NewPtrIncrementalAlterConfigsRequest()
			req.ValidateOnly = true
			for _, x := range genRes(w, rng, dup) {
				rr := kmsg.NewIncrementalAlterConfigsRequestResource()
				rr.ResourceType, rr.ResourceName = x.t, x.n
				rc := kmsg.NewIncrementalAlterConfigsRequestResourceConfig()
				rc.Name, rc.Value = "retention.ms", &val
				rr.Configs = append(rr.Configs, rc)
				req.Resources = append(req.Resources, rr)
			}
			return req
		},
		reqItems: func(kr kmsg.Request) (out []string) {
			for _, x := range kr.(*kmsg.IncrementalAlterConfigsRequest).Resources {
				out = append(out, resItem(x.ResourceType, x.ResourceName))
			}
			return
		},
		respItems: func(kr kmsg.Response) (out []string) {
			for _, x := range kr.(*kmsg.IncrementalAlterConfigsResponse).Resources {
				out = append(out, resItem(x.ResourceType, x.ResourceName))
			}
			return
		},
	})

	// ---- replica requests (a known partition goes to every replica)
	ks = append(ks, &kind{name: "DescribeLogDirs", key: 35, class: "replica", noMerged: true,
		gen: func(w *world, rng *rand.Rand, dup bool) kmsg.Request {
			req := kmsg.NewPtrDescribeLogDirsRequest()
			req.Topics = []kmsg.DescribeLogDirsRequestTopic{}
			for _, e := range w.genTPs(rng, dup) {
				rt := kmsg.NewDescribeLogDirsRequestTopic()
				rt.Topic = e.t
				rt.Partitions = e.ps
				req.Topics = append(req.Topics, rt)
			}
			return req
		},
		reqItems: func(kr kmsg.Request) (out []string) {
			for _, t := range kr.(*kmsg.DescribeLogDirsRequest).Topics {
				for _, p := range t.Partitions {
					out = append(out, tpItem(t.Topic, p))
				}
			}
			return
		},
		respItems: func(kr kmsg.Response) (out []string) {
			for _, d := range kr.(*kmsg.DescribeLogDirsResponse).Dirs {
				for _, t := range d.Topics {
					for _, p := range t.Partitions {
						out = append(out, tpItem(t.Topic, p.Partition))
					}
				}
			}
			return
		},
	})
	ks = append(ks, &kind{name: "AlterReplicaLogDirs", key: 34, class: "replica", noMerged: true,
		gen: func(w *world, rng *rand.Rand, dup bool) kmsg.Request {
			req := kmsg.NewPtrAlterReplicaLogDirsRequest()
			es := w.genTPs(rng, dup)
			nd := 1 + rng.IntN(2)
			dirs := make([]kmsg.AlterReplicaLogDirsRequestDir, nd)
			for i := range dirs {
				dirs[i] = kmsg.NewAlterReplicaLogDirsRequestDir()
				dirs[i].Dir = fmt.Sprintf("/d%d", i)
			}
			for _, e := range es {
				rt := kmsg.NewAlterReplicaLogDirsRequestDirTopic()
				rt.Topic = e.t
				rt.Partitions = e.ps
				d := rng.IntN(nd)
				dirs[d].Topics = append(dirs[d].Topics, rt)
			}
			req.Dirs = dirs
			return req
		},
		reqItems: func(kr kmsg.Request) (out []string) {
			for _, d := range kr.(*kmsg.AlterReplicaLogDirsRequest).Dirs {
				for _, t := range d.Topics {
					for _, p := range t.Partitions {
						out = append(out, tpItem(t.Topic, p))
					}
				}
			}
			return
		},
		respItems: func(kr kmsg.Response) (out []string) {
			for _, t := range kr.(*kmsg.AlterReplicaLogDirsResponse).Topics {
				for _, p := range t.Partitions {
					out = append(out, tpItem(t.Topic, p.Partition))
				}
			}
			return
		},
	})

	// ---- every-broker requests
	ks = append(ks, &kind{name: "ListGroups", key: 16, class: "all", codes: []int16{kerr.CoordinatorLoadInProgress.Code},
		gen: func(w *world, rng *rand.Rand, dup bool) kmsg.Request { return kmsg.NewPtrListGroupsRequest() },
		respItems: func(kr kmsg.Response) (out []string) {
			for _, g := range kr.(*kmsg.ListGroupsResponse).Groups {
				out = append(out, "g:"+g.Group)
			}
			return
		},
		errResp: func(kr kmsg.Request, code int16) kmsg.Response {
			resp := kr.ResponseKind().(*kmsg.ListGroupsResponse)
			resp.ErrorCode = code
			return resp
		},
	})
	ks = append(ks, &kind{name: "ListTransactions", key: 66, class: "all", codes: []int16{kerr.CoordinatorLoadInProgress.Code},
		gen: func(w *world, rng *rand.Rand, dup bool) kmsg.Request { return kmsg.NewPtrListTransactionsRequest() },
		respItems: func(kr kmsg.Response) (out []string) {
			for _, x := range kr.(*kmsg.ListTransactionsResponse).TransactionStates {
				out = append(out, "x:"+x.TransactionalID)
			}
			return
		},
		errResp: func(kr kmsg.Request, code int16) kmsg.Response {
			resp := kr.ResponseKind().(*kmsg.ListTransactionsResponse)
			resp.ErrorCode = code
			return resp
		},
	})
	ks = append(ks, &kind{name: "DescribeLogDirsAll", key: 35, class: "all", noMerged: true,
		gen: func(w *world, rng *rand.Rand, dup bool) kmsg.Request { return kmsg.NewPtrDescribeLogDirsRequest() },
	})
	return ks
}

// ---------------------------------------------------------------- faults

type faults struct {
	mu       sync.Mutex
	ctlKey   int16
	ctlN     int
	ctlCode  int16
	ctlFn    func(kmsg.Request, int16) kmsg.Response
	ctlFired int
	killKey  int16
	killN    int
	killKind faultnet.Kind
	killHit  int
	attempts map[int16]int
}

func (f *faults) decide(r *faultnet.Req) faultnet.Action {
	if r.ClientID != clientID {
		return faultnet.Action{}
	}
	f.mu.Lock()
	defer f.mu.Unlock()
	f.attempts[r.Key]++
	if f.killN > 0 && r.Key == f.killKey {
		f.killN--
		f.killHit++
		return faultnet.Action{Kind: f.killKind}
	}
	return faultnet.Action{}
}

func (f *faults) reset() (ctl, kill int) {
	f.mu.Lock()
	defer f.mu.Unlock()
	ctl, kill = f.ctlFired, f.killHit
	f.ctlN, f.killN, f.ctlFired, f.killHit = 0, 0, 0, 0
	f.attempts = map[int16]int{}
	return
}

// ---------------------------------------------------------------- layout

type layoutCfg struct {
	Seed       uint64 `json:"seed"`
	Brokers    int    `json:"brokers"`
	Topics     []int  `json:"topic_partitions"`
	Replicas   []int  `json:"topic_replicas"`
	Groups     int    `json:"groups"`
	Txns       int    `json:"txns"`
	OldVersion bool   `json:"client_max_versions_2_8"`
	MinAgeMs   int    `json:"metadata_min_age_ms"`
}

func setup(cfg layoutCfg, rng *rand.Rand, f *faults) (*world, *kgo.Client, *kgo.Client, error) {
	fnet := &faultnet.Net{Decide: f.decide}
	var opts []kfake.Opt
	w := &world{nb: cfg.Brokers, parts: map[string]int{}, nrep: map[string]int{}, pid: map[string][2]int64{}}
	for i, np := range cfg.Topics {
		t := fmt.Sprintf("st-%d", i)
		if cfg.Replicas[i] < 0 {
			opts = append(opts, kfake.SeedTopics(int32(np), t))
		}
		w.topics = append(w.topics, t)
		w.parts[t] = np
	}
	env, err := e2e.NewEnv(false, cfg.Brokers, fnet, opts...)
	if err != nil {
		return nil, nil, nil, err
	}
	w.env = env
	env.C.Control(func(kreq kmsg.Request) (kmsg.Response, error, bool) {
		env.C.KeepControl()
		f.mu.Lock()
		defer f.mu.Unlock()
		if f.ctlN > 0 && kreq.Key() == f.ctlKey && f.ctlFn != nil {
			if resp := f.ctlFn(kreq, f.ctlCode); resp != nil {
				f.ctlN--
				f.ctlFired++
				return resp, nil, true
			}
		}
		return nil, nil, false
	})
	admin, err := env.NewClient(kgo.ClientID("vadmin"))
	if err != nil {
		env.Close()
		return nil, nil, nil, err
	}
	fail := func(err error) (*world, *kgo.Client, *kgo.Client, error) {
		admin.Close()
		env.Close()
		return nil, nil, nil, err
	}
	ctx, cancel := context.WithTimeout(context.Background(), 30*time.Second)
	defer cancel()

	// topics with an explicit replication factor
	creq := kmsg.NewPtrCreateTopicsRequest()
	creq.TimeoutMillis = 5000
	for i, np := range cfg.Topics {
		if cfg.Replicas[i] < 0 {
			continue
		}
		ct := kmsg.NewCreateTopicsRequestTopic()
		ct.Topic = w.topics[i]
		ct.NumPartitions = int32(np)
		ct.ReplicationFactor = int16(cfg.Replicas[i])
		creq.Topics = append(creq.Topics, ct)
	}
	if len(creq.Topics) > 0 {
		resp, err := creq.RequestWith(ctx, admin)
		if err != nil {
			return fail(fmt.Errorf("create topics: %w", err))
		}
		for _, t := range resp.Topics {
			if t.ErrorCode != 0 {
				return fail(fmt.Errorf("create topic %s: %v", t.Topic, kerr.ErrorForCode(t.ErrorCode)))
			}
		}
	}
	meta, err := kmsg.NewPtrMetadataRequest().RequestWith(ctx, admin)
	if err != nil {
		return fail(fmt.Errorf("metadata: %w", err))
	}
	for _, b := range meta.Brokers {
		w.nodes = append(w.nodes, b.NodeID)
	}
	sort.Slice(w.nodes, func(i, j int) bool { return w.nodes[i] < w.nodes[j] })
	if len(w.nodes) != cfg.Brokers {
		return fail(fmt.Errorf("metadata lists %d brokers, want %d", len(w.nodes), cfg.Brokers))
	}
	for _, t := range w.topics {
		ti := env.C.TopicInfo(t)
		if ti == nil {
			return fail(fmt.Errorf("topic %s missing", t))
		}
		n := ti.NumReplicas
		if n > cfg.Brokers {
			n = cfg.Brokers
		}
		w.nrep[t] = n
		for p := 0; p < w.parts[t]; p++ {
			if err := env.C.MoveTopicPartition(t, int32(p), w.nodes[rng.IntN(len(w.nodes))]); err != nil {
				return fail(err)
			}
		}
	}
	// groups (created by an admin offset commit) and transactional ids
	mkGroup := func(g string) error {
		oc := kmsg.NewPtrOffsetCommitRequest()
		oc.Group = g
		oc.Generation = -1
		ot := kmsg.NewOffsetCommitRequestTopic()
		ot.Topic = w.topics[0]
		if ti := env.C.TopicInfo(w.topics[0]); ti != nil {
			ot.TopicID = ti.TopicID
		}
		op := kmsg.NewOffsetCommitRequestTopicPartition()
		op.Partition = 0
		op.Offset = 0
		ot.Partitions = append(ot.Partitions, op)
		oc.Topics = append(oc.Topics, ot)
		resp, err := oc.RequestWith(ctx, admin)
		if err != nil {
			return err
		}
		for _, t := range resp.Topics {
			for _, p := range t.Partitions {
				if p.ErrorCode != 0 {
					return kerr.ErrorForCode(p.ErrorCode)
				}
			}
		}
		return nil
	}
	for i := 0; i < cfg.Groups; i++ {
		g := fmt.Sprintf("grp-%d-%d", cfg.Seed%1000, i)
		if err := mkGroup(g); err != nil {
			return fail(fmt.Errorf("create group: %w", err))
		}
		w.groups = append(w.groups, g)
	}
	for i := 0; i < 4; i++ {
		g := fmt.Sprintf("delgrp-%d-%d", cfg.Seed%1000, i)
		if err := mkGroup(g); err != nil {
			return fail(fmt.Errorf("create group: %w", err))
		}
		w.delGroups = append(w.delGroups, g)
	}
	for i := 0; i < cfg.Txns; i++ {
		x := fmt.Sprintf("txn-%d-%d", cfg.Seed%1000, i)
		ir := kmsg.NewPtrInitProducerIDRequest()
		ir.TransactionalID = &x
		ir.TransactionTimeoutMillis = 600000
		ir.ProducerID, ir.ProducerEpoch = -1, -1
		resp, err := ir.RequestWith(ctx, admin)
		if err != nil {
			return fail(fmt.Errorf("init producer id: %w", err))
		}
		if resp.ErrorCode != 0 {
			return fail(fmt.Errorf("init producer id: %v", kerr.ErrorForCode(resp.ErrorCode)))
		}
		w.txns = append(w.txns, x)
		w.pid[x] = [2]int64{resp.ProducerID, int64(resp.ProducerEpoch)}
	}

	copts := []kgo.Opt{
		kgo.ClientID(clientID),
		kgo.RetryBackoffFn(func(n int) time.Duration { return time.Duration(1+n) * time.Millisecond }),
		kgo.MetadataMinAge(time.Duration(cfg.MinAgeMs) * time.Millisecond),
	}
	if cfg.OldVersion {
		copts = append(copts, kgo.MaxVersions(kversion.V2_8_0()))
	}
	cl, err := env.NewClient(copts...)
	if err != nil {
		return fail(err)
	}
	return w, admin, cl, nil
}

// ---------------------------------------------------------------- oracle

type callInfo struct {
	Kind     string   `json:"kind"`
	API      string   `json:"api"`
	Fault    string   `json:"fault"`
	Dup      bool     `json:"duplicates"`
	Layout   any      `json:"layout"`
	Request  []string `json:"requested_items"`
	Shards   []string `json:"shards,omitempty"`
	Merged   []string `json:"merged_items,omitempty"`
	Err      string   `json:"merged_err,omitempty"`
	Attempts int      `json:"attempts"`
	CtlFired int      `json:"injected_errors_fired"`
	KillHit  int      `json:"kills_fired"`
}

func distinct(items []string) (set map[string]int) {
	set = map[string]int{}
	for _, it := range items {
		set[it]++
	}
	return
}

func hasDup(items []string) bool {
	for _, n := range distinct(items) {
		if n > 1 {
			return true
		}
	}
	return false
}

func (w *world) expect(k *kind, item string) int {
	if k.class != "replica" {
		return 1
	}
	i := strings.LastIndexByte(item, '/')
	t := item[:i]
	p, _ := strconv.Atoi(item[i+1:])
	np, ok := w.parts[t]
	if !ok || p < 0 || p >= np {
		return 1
	}
	return w.nrep[t]
}

func isKerr(err error) bool {
	var ke *kerr.Error
	return errors.As(err, &ke)
}

// judgeLevel checks that the per-shard item lists partition the requested items.
func judgeLevel(r *vh.Run, w *world, k *kind, level string, requested []string, dup bool, shards []kgo.ResponseShard, perShard [][]string, judged []bool, info *callInfo) {
	want := distinct(requested)
	type occ struct {
		shards map[int]int
	}
	got := map[string]*occ{}
	for i, items := range perShard {
		if !judged[i] {
			continue
		}
		for _, it := range items {
			o := got[it]
			if o == nil {
				o = &occ{shards: map[int]int{}}
				got[it] = o
			}
			o.shards[i]++
		}
	}
	allJudged := true
	for _, j := range judged {
		allJudged = allJudged && j
	}
	viol := func(what, item string) {
		r.Violation(fmt.Sprintf("%s/%s: %s", k.name, level, what), map[string]any{"item": item, "call": info})
	}
	for it := range want {
		o := got[it]
		exp := w.expect(k, it)
		if k.class == "replica" {
			// a known partition goes to each of its replicas; an unmappable one (or a
			// request whose metadata load failed) sits in one unissued error shard
			brokers, unmapped, twice := map[int32]int{}, 0, false
			if o != nil {
				for i := range o.shards {
					if id := shards[i].Meta.NodeID; id >= 0 {
						brokers[id]++
						twice = twice || brokers[id] > 1
					} else {
						unmapped++
					}
				}
			}
			switch {
			case twice || len(brokers) > exp:
				r.Violation(k.name+": partition sent again to replica brokers that already have a shard, after one replica's shard failed and was re-split", map[string]any{"item": it, "replicas": exp, "call": info})
			case len(brokers) == 0 && unmapped == 0:
				if allJudged {
					viol("requested item is in no shard", it)
				}
			case unmapped > 1:
				viol("requested item is in more than one shard", it)
			case len(brokers) < exp && unmapped == 0:
				if allJudged {
					viol("partition reached fewer shards than it has replicas", it)
				}
			}
			continue
		}
		n := 0
		if o != nil {
			n = len(o.shards)
			if dup && n > 1 {
				// requests that are split per occurrence (one request per group for old
				// brokers, one error shard per group whose coordinator load failed) put
				// a duplicated item into one single-item shard per occurrence: not judged
				single := 0
				for i := range o.shards {
					if len(perShard[i]) == 1 {
						single++
					}
				}
				if single > 1 {
					r.Count("dontcare_duplicated_item_split_per_occurrence", 1)
					n -= single - 1
				}
			}
		}
		switch {
		case n == 0:
			if allJudged {
				viol("requested item is in no shard", it)
			}
		case n > exp:
			viol("requested item is in more than one shard", it)
		}
		if o != nil && !dup {
			for _, c := range o.shards {
				if c > 1 {
					viol("requested item repeated within one shard", it)
				}
			}
		}
	}
	for it := range got {
		if _, ok := want[it]; !ok {
			viol("shard holds an item that was not requested", it)
		}
	}
}

func describeShards(k *kind, shards []kgo.ResponseShard, eff [][]string) (out []string) {
	for i, s := range shards {
		e := ""
		if s.Err != nil {
			e = " err=" + s.Err.Error()
		}
		var req []string
		if k.reqItems != nil && s.Req != nil {
			req = k.reqItems(s.Req)
		}
		out = append(out, fmt.Sprintf("node=%d%s req=%v eff=%v", s.Meta.NodeID, e, req, eff[i]))
	}
	return
}

func ctxDone(shards []kgo.ResponseShard) bool {
	for _, s := range shards {
		if s.Err != nil && (errors.Is(s.Err, context.DeadlineExceeded) || errors.Is(s.Err, context.Canceled)) {
			return true
		}
	}
	return false
}

func judgeSharded(r *vh.Run, w *world, k *kind, requested []string, dup bool, shards []kgo.ResponseShard, info *callInfo) {
	if len(shards) == 0 {
		r.Violation(k.name+"/shards: RequestSharded returned no shard", info)
		return
	}
	if k.class == "all" {
		seen := map[int32]int{}
		for _, s := range shards {
			if s.Meta.NodeID >= 0 {
				seen[s.Meta.NodeID]++
			}
			if s.Err == nil && s.Resp == nil {
				r.Violation(k.name+"/shards: shard without response and without error", info)
			}
		}
		if len(shards) == 1 && shards[0].Err != nil && shards[0].Meta.NodeID < 0 {
			r.Count("all_broker_request_failed_before_split", 1) // broker metadata could not be loaded: one error shard holding the request
			return
		}
		if len(shards) != w.nb {
			r.Violation(k.name+"/shards: number of shards differs from number of brokers", info)
		}
		for id, n := range seen {
			if n > 1 {
				r.Violation(k.name+"/shards: broker appears in more than one shard", map[string]any{"node": id, "call": info})
			}
		}
		return
	}
	reqLevel := make([][]string, len(shards))
	effLevel := make([][]string, len(shards))
	allJ := make([]bool, len(shards))
	effJ := make([]bool, len(shards))
	for i, s := range shards {
		allJ[i] = true
		if s.Req == nil {
			r.Violation(k.name+"/shards: shard without Req", info)
			return
		}
		if s.Err == nil && s.Resp == nil {
			r.Violation(k.name+"/shards: shard without response and without error", info)
			return
		}
		reqLevel[i] = k.reqItems(s.Req)
		switch {
		case s.Err != nil:
			effLevel[i], effJ[i] = reqLevel[i], true
		case k.respJudged != nil && !k.respJudged(s.Req):
			r.Count("dontcare_response_of_batched_form_kfake_does_not_implement", 1)
		default:
			effLevel[i], effJ[i] = k.respItems(s.Resp), true
		}
	}
	info.Shards = describeShards(k, shards, effLevel)
	judgeLevel(r, w, k, "request-level", requested, dup, shards, reqLevel, allJ, info)
	judgeLevel(r, w, k, "effective", requested, dup, shards, effLevel, effJ, info)
}

func judgeMerged(r *vh.Run, w *world, k *kind, requested []string, dup bool, resp kmsg.Response, err error, batched bool, info *callInfo) {
	if resp == nil {
		if err == nil {
			r.Violation(k.name+"/merged: Request returned neither response nor error", info)
		}
		return
	}
	if k.noMerged || k.respItems == nil {
		r.Count("dontcare_merged_of_per_replica_request", 1)
		return
	}
	if batched {
		r.Count("dontcare_response_of_batched_form_kfake_does_not_implement", 1)
		return
	}
	items := k.respItems(resp)
	info.Merged = items
	got := distinct(items)
	if k.class == "all" {
		for it, n := range got {
			if n > 1 {
				r.Violation(k.name+"/merged: listed item repeated in the merged response", map[string]any{"item": it, "call": info})
			}
		}
		if err == nil {
			var must []string
			if k.name == "ListGroups" {
				for _, g := range w.groups {
					must = append(must, "g:"+g)
				}
			} else {
				for _, x := range w.txns {
					must = append(must, "x:"+x)
				}
			}
			for _, it := range must {
				if got[it] == 0 {
					r.Violation(k.name+"/merged: existing item missing from the merged response", map[string]any{"item": it, "call": info})
				}
			}
		}
		return
	}
	want := distinct(requested)
	for it := range want {
		n := got[it]
		switch {
		case n == 0 && err == nil:
			r.Violation(k.name+"/merged: requested item missing although Request returned no error", map[string]any{"item": it, "call": info})
		case n > 1 && !dup:
			r.Violation(k.name+"/merged: requested item more than once in the merged response", map[string]any{"item": it, "call": info})
		}
	}
	for it := range got {
		if _, ok := want[it]; !ok {
			r.Violation(k.name+"/merged: merged response holds an item that was not requested", map[string]any{"item": it, "call": info})
		}
	}
}

// ---------------------------------------------------------------- driver

var faultModes = []string{"none", "none", "inject-code", "inject-code", "stale-cache", "stale-cache", "kill-before", "kill-after", "kill-internal-load"}

func runLayout(r *vh.Run, li int) {
	rng := r.Rand("c23-layout", li)
	cfg := layoutCfg{Seed: uint64(r.Seed)<<20 | uint64(li), Brokers: 1 + rng.IntN(5), Groups: 2 + rng.IntN(6), Txns: 1 + rng.IntN(5),
		OldVersion: rng.IntN(5) == 0, MinAgeMs: []int{5000, 5000, 100}[rng.IntN(3)]}
	nt := 2 + rng.IntN(3)
	for i := 0; i < nt; i++ {
		cfg.Topics = append(cfg.Topics, 1+rng.IntN(6))
		rep := -1
		if rng.IntN(2) == 0 {
			rep = 1 + rng.IntN(cfg.Brokers)
		}
		cfg.Replicas = append(cfg.Replicas, rep)
	}
	f := &faults{attempts: map[int16]int{}}
	w, admin, cl, err := setup(cfg, rng, f)
	if err != nil {
		r.Inconclusive("setup: " + err.Error())
		return
	}
	defer w.env.Close()
	defer admin.Close()
	defer cl.Close()

	ks := kinds()
	rounds := 2
	for round := 0; round < rounds; round++ {
		rng.Shuffle(len(ks), func(a, b int) { ks[a], ks[b] = ks[b], ks[a] })
		for _, k := range ks {
			for _, api := range []string{"sharded", "merged"} {
				oneCall(r, w, cl, f, k, api, rng, cfg)
			}
		}
	}
}

func oneCall(r *vh.Run, w *world, cl *kgo.Client, f *faults, k *kind, api string, rng *rand.Rand, cfg layoutCfg) {
	dup := k.class != "all" && rng.IntN(4) == 0
	mode := faultModes[rng.IntN(len(faultModes))]
	ctx, cancel := context.WithTimeout(context.Background(), 30*time.Second)
	defer cancel()

	if mode == "stale-cache" {
		// fill the client's metadata / coordinator caches, then move things behind its back
		cl.RequestSharded(ctx, k.gen(w, rng, false))
		switch k.class {
		case "leader", "replica":
			for i := 0; i <= rng.IntN(4); i++ {
				t := w.topics[rng.IntN(len(w.topics))]
				w.env.C.MoveTopicPartition(t, int32(rng.IntN(w.parts[t])), w.nodes[rng.IntN(len(w.nodes))])
			}
		default:
			w.env.C.RehashCoordinators()
		}
	}
	w.noUnknown = rng.IntN(2) == 0
	req := k.gen(w, rng, dup)
	var requested []string
	if k.reqItems != nil {
		requested = k.reqItems(req)
	}
	dup = hasDup(requested)
	batched := k.respJudged != nil && !k.respJudged(req)

	f.reset()
	f.mu.Lock()
	switch mode {
	case "inject-code":
		if k.errResp != nil {
			f.ctlKey, f.ctlN, f.ctlFn = k.key, 1+rng.IntN(2), k.errResp
			f.ctlCode = k.codes[rng.IntN(len(k.codes))]
		}
	case "kill-before":
		f.killKey, f.killN, f.killKind = k.key, 1+rng.IntN(2), faultnet.KillBefore
	case "kill-after":
		f.killKey, f.killN, f.killKind = k.key, 1, faultnet.KillAfter
	case "kill-internal-load":
		f.killKey, f.killN = 10, 1
		if k.class == "leader" || k.class == "replica" || k.class == "all" {
			f.killKey = 3
		}
		f.killKind = []faultnet.Kind{faultnet.KillBefore, faultnet.KillAfter}[rng.IntN(2)]
	}
	f.mu.Unlock()

	info := &callInfo{Kind: k.name, API: api, Fault: mode, Dup: dup, Layout: cfg, Request: requested}
	var shards []kgo.ResponseShard
	var resp kmsg.Response
	var err error
	if api == "sharded" {
		shards = cl.RequestSharded(ctx, req)
	} else {
		resp, err = cl.Request(ctx, req)
		if err != nil {
			info.Err = err.Error()
		}
	}
	f.mu.Lock()
	info.Attempts = f.attempts[k.key]
	f.mu.Unlock()
	info.CtlFired, info.KillHit = f.reset()

	if ctx.Err() != nil || ctxDone(shards) || (err != nil && (errors.Is(err, context.DeadlineExceeded) || errors.Is(err, context.Canceled))) {
		r.Inconclusive(fmt.Sprintf("%s/%s under %s did not finish within the 30 s watchdog", k.name, api, mode))
		return
	}
	r.Eval(1)
	r.Count("calls_"+api, 1)
	if dup {
		r.Count("calls_with_duplicate_items", 1)
	}
	if info.CtlFired > 0 {
		r.Count("injected_error_responses", info.CtlFired)
	}
	if info.KillHit > 0 {
		r.Count("connection_kills", info.KillHit)
	}
	nShards := 0
	if api == "sharded" {
		judgeSharded(r, w, k, requested, dup, shards, info)
		nShards = len(shards)
		errShards := 0
		for _, s := range shards {
			if s.Err != nil {
				errShards++
			}
		}
		if errShards > 0 {
			r.Count("error_shards", errShards)
		}
		retried := info.Attempts > nShards
		if retried {
			r.Count("calls_retried_or_resharded", 1)
		}
		if nShards >= 2 || (retried && (info.CtlFired > 0 || info.KillHit > 0 || mode == "stale-cache")) {
			b := nShards
			if b > 3 {
				b = 3
			}
			r.Distinct(fmt.Sprintf("%s|sharded|shards=%d|errshards=%v|retried=%v|%s|dup=%v", k.name, b, errShards > 0, retried, mode, dup))
			if r.WantSample() && retried && nShards >= 2 {
				r.Sample(info)
			}
		}
	} else {
		judgeMerged(r, w, k, requested, dup, resp, err, batched, info)
		retried := info.CtlFired > 0 || info.KillHit > 0
		if err != nil {
			r.Count("merged_with_error", 1)
		}
		if info.Attempts >= 2 {
			r.Distinct(fmt.Sprintf("%s|merged|err=%v|faultfired=%v|%s|dup=%v", k.name, err != nil, retried, mode, dup))
		}
	}
}

func TestCheck(t *testing.T) {
	r := vh.Start(t, "C23")
	n := r.Pick(200, 4000)
	vh.Parallel(n, 8, func(i int) {
		if p := vh.Catch(func() { runLayout(r, i) }); p != nil {
			r.Inconclusive(fmt.Sprintf("layout %d: harness panic: %v", i, p))
		}
	})
	r.Finish("exploration",
		"one evaluation = one seeded request of one of the 21 split request kinds (ListOffsets, OffsetFetch multi-group+legacy, FindCoordinator batched+legacy, DescribeGroups, ListGroups, DeleteRecords, OffsetForLeaderEpoch, AddPartitionsToTxn, WriteTxnMarkers, Describe/Alter/IncrementalAlterConfigs, AlterReplicaLogDirs, DescribeLogDirs (topics and all), DeleteGroups, DescribeProducers, DescribeTransactions, ListTransactions, ConsumerGroupDescribe, ShareGroupDescribe, DescribeShareGroupOffsets) issued through RequestSharded or Request against a kfake layout (1-5 brokers, 2-4 topics of 1-6 partitions, replication 1..brokers, seeded leaders, 2-7 groups, 1-5 transactional ids, unknown topics/partitions/groups/ids/brokers mixed in, 1 in 4 with duplicate items, 1 in 5 clients capped at Kafka 2.8 versions) under one of: no fault, retriable code injected on the first attempt(s), leaders moved / coordinators rehashed behind warm caches, connection killed before/after the first attempt, internal FindCoordinator/Metadata load killed; non-trivial = RequestSharded returned >=2 shards or a first attempt failed and was retried (Request: the kind's key was sent at least twice); distinct by (kind, api, shard count class, error shards, retried, fault mode, duplicates)",
		"kfake is the broker: its responses echo every requested item (true for all kinds except batched AddPartitionsToTxn v4+, which is judged at request level only)",
		"requests with duplicate items: only 'each distinct item in exactly one shard' is asserted; several error shards for one duplicated group whose coordinator load failed are not judged",
		"merged responses of DescribeLogDirs / AlterReplicaLogDirs (one copy per replica by design) are not judged",
	)
}
