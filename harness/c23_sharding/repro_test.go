package c23

import (
	"context"
	"testing"
	"time"

	"github.com/twmb/franz-go/pkg/kfake"
	"github.com/twmb/franz-go/pkg/kgo"
	"github.com/twmb/franz-go/pkg/kmsg"

	"verifharness/internal/e2e"
	"verifharness/internal/faultnet"
)

// TestReproReplicaResplit is the minimal witness of the per-replica re-split
// finding (not part of TestCheck): 2 brokers, one partition with 2 replicas,
// DescribeLogDirs for that partition issued twice; the connection of the
// second call's first request is killed after the broker handled it. Expected 2 shards (one per replica); the failed
// shard is re-split to both replicas, so 3 shards come back.
func TestReproReplicaResplit(t *testing.T) {
	seen := 0
	fnet := &faultnet.Net{}
	fnet.Decide = func(r *faultnet.Req) faultnet.Action {
		if r.ClientID == clientID && r.Key == 35 {
			seen++
			if seen != 3 { // the first call (2 requests) warms the connections up; kill the first request of the second call
				return faultnet.Action{}
			}
			return faultnet.Action{Kind: faultnet.KillAfter}
		}
		return faultnet.Action{}
	}
	env, err := e2e.NewEnv(false, 2, fnet, kfake.SeedTopics(1, "t"))
	if err != nil {
		t.Fatal(err)
	}
	defer env.Close()
	cl, err := env.NewClient(kgo.ClientID(clientID), kgo.RetryBackoffFn(func(int) time.Duration { return time.Millisecond }))
	if err != nil {
		t.Fatal(err)
	}
	defer cl.Close()
	req := kmsg.NewPtrDescribeLogDirsRequest()
	rt := kmsg.NewDescribeLogDirsRequestTopic()
	rt.Topic = "t"
	rt.Partitions = []int32{0}
	req.Topics = append(req.Topics, rt)
	cl.RequestSharded(context.Background(), req) // warm-up: a connection's very first request failing is not retried
	shards := cl.RequestSharded(context.Background(), req)
	for _, s := range shards {
		t.Logf("node=%d err=%v req=%v", s.Meta.NodeID, s.Err, s.Req.(*kmsg.DescribeLogDirsRequest).Topics)
	}
	if len(shards) != 2 {
		t.Fatalf("got %d shards for a partition with 2 replicas", len(shards))
	}
}
