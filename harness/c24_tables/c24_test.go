// C24 — protocol tables are mutually consistent.
//
// Monitor: the three lookup tables (kerr code table, kmsg key dispatch,
// kversion release tables) are observed through their public lookups over
// every int16 and cross-checked against each other and against the
// declarations parsed from the source files of the same tree (the set of
// declared kerr errors, the kmsg Key constants, the list of named releases).
package c24

import (
	"errors"
	"fmt"
	"go/ast"
	"go/parser"
	"go/token"
	"math"
	"os"
	"reflect"
	"regexp"
	"sort"
	"strconv"
	"strings"
	"testing"

	"github.com/twmb/franz-go/pkg/kerr"
	"github.com/twmb/franz-go/pkg/kmsg"
	"github.com/twmb/franz-go/pkg/kversion"

	"verifharness/internal/vh"
)

type declErr struct {
	Var       string
	Message   string
	Code      int16
	Retriable bool
	Desc      string
}

// parseKerr returns every `Name = &Error{"MSG", code, retriable, "desc"}`
// declared at package level in pkg/kerr/kerr.go.
func parseKerr(path string) ([]declErr, error) {
	fset := token.NewFileSet()
	f, err := parser.ParseFile(fset, path, nil, 0)
	if err != nil {
		return nil, err
	}
	var out []declErr
	for _, d := range f.Decls {
		gd, ok := d.(*ast.GenDecl)
		if !ok || gd.Tok != token.VAR {
			continue
		}
		for _, s := range gd.Specs {
			vs := s.(*ast.ValueSpec)
			for i, name := range vs.Names {
				if i >= len(vs.Values) {
					continue
				}
				ue, ok := vs.Values[i].(*ast.UnaryExpr)
				if !ok || ue.Op != token.AND {
					continue
				}
				cl, ok := ue.X.(*ast.CompositeLit)
				if !ok {
					continue
				}
				if id, ok := cl.Type.(*ast.Ident); !ok || id.Name != "Error" {
					continue
				}
				de, err := declFromLit(name.Name, cl)
				if err != nil {
					return nil, fmt.Errorf("%s: %v", name.Name, err)
				}
				out = append(out, de)
			}
		}
	}
	return out, nil
}

func declFromLit(name string, cl *ast.CompositeLit) (declErr, error) {
	de := declErr{Var: name}
	get := map[string]ast.Expr{}
	order := []string{"Message", "Code", "Retriable", "Description"}
	for i, e := range cl.Elts {
		if kv, ok := e.(*ast.KeyValueExpr); ok {
			get[kv.Key.(*ast.Ident).Name] = kv.Value
		} else if i < len(order) {
			get[order[i]] = e
		}
	}
	str := func(e ast.Expr) (string, error) {
		bl, ok := e.(*ast.BasicLit)
		if !ok || bl.Kind != token.STRING {
			return "", fmt.Errorf("not a string literal")
		}
		return strconv.Unquote(bl.Value)
	}
	var err error
	if de.Message, err = str(get["Message"]); err != nil {
		return de, err
	}
	if get["Description"] != nil {
		if de.Desc, err = str(get["Description"]); err != nil {
			return de, err
		}
	}
	code := get["Code"]
	neg := false
	if ue, ok := code.(*ast.UnaryExpr); ok && ue.Op == token.SUB {
		neg = true
		code = ue.X
	}
	bl, ok := code.(*ast.BasicLit)
	if !ok || bl.Kind != token.INT {
		return de, fmt.Errorf("code is not an int literal")
	}
	n, err := strconv.ParseInt(bl.Value, 0, 32)
	if err != nil {
		return de, err
	}
	if neg {
		n = -n
	}
	if n < math.MinInt16 || n > math.MaxInt16 {
		return de, fmt.Errorf("code %d not an int16", n)
	}
	de.Code = int16(n)
	if id, ok := get["Retriable"].(*ast.Ident); ok {
		de.Retriable = id.Name == "true"
	} else {
		return de, fmt.Errorf("retriable is not a bool literal")
	}
	return de, nil
}

// pinned: error codes from the Kafka protocol guide (protocol_error_codes).
var pinnedCodes = map[int16]string{
	-1: "UNKNOWN_SERVER_ERROR", 1: "OFFSET_OUT_OF_RANGE", 2: "CORRUPT_MESSAGE", 3: "UNKNOWN_TOPIC_OR_PARTITION",
	5: "LEADER_NOT_AVAILABLE", 7: "REQUEST_TIMED_OUT", 10: "MESSAGE_TOO_LARGE", 14: "COORDINATOR_LOAD_IN_PROGRESS",
	15: "COORDINATOR_NOT_AVAILABLE", 16: "NOT_COORDINATOR", 22: "ILLEGAL_GENERATION", 25: "UNKNOWN_MEMBER_ID",
	27: "REBALANCE_IN_PROGRESS", 29: "TOPIC_AUTHORIZATION_FAILED", 30: "GROUP_AUTHORIZATION_FAILED",
	35: "UNSUPPORTED_VERSION", 36: "TOPIC_ALREADY_EXISTS", 41: "NOT_CONTROLLER", 42: "INVALID_REQUEST",
	45: "OUT_OF_ORDER_SEQUENCE_NUMBER", 46: "DUPLICATE_SEQUENCE_NUMBER", 47: "INVALID_PRODUCER_EPOCH",
	48: "INVALID_TXN_STATE", 51: "CONCURRENT_TRANSACTIONS", 58: "SASL_AUTHENTICATION_FAILED",
	59: "UNKNOWN_PRODUCER_ID", 74: "FENCED_LEADER_EPOCH", 75: "UNKNOWN_LEADER_EPOCH", 79: "MEMBER_ID_REQUIRED",
	82: "FENCED_INSTANCE_ID", 90: "PRODUCER_FENCED", 100: "UNKNOWN_TOPIC_ID",
}

// pinned: API keys from the Kafka protocol guide (protocol_api_keys).
var pinnedKeys = map[int16]string{
	0: "Produce", 1: "Fetch", 2: "ListOffsets", 3: "Metadata", 8: "OffsetCommit", 9: "OffsetFetch",
	10: "FindCoordinator", 11: "JoinGroup", 12: "Heartbeat", 13: "LeaveGroup", 14: "SyncGroup",
	15: "DescribeGroups", 16: "ListGroups", 18: "ApiVersions", 19: "CreateTopics", 20: "DeleteTopics",
}

func checkErrors(r *vh.Run) {
	decls, err := parseKerr(vh.Repo() + "/pkg/kerr/kerr.go")
	if err != nil || len(decls) < 2 {
		r.Inconclusive(fmt.Sprintf("cannot parse declared errors from pkg/kerr/kerr.go: n=%d err=%v", len(decls), err))
		return
	}
	r.Count("kerr_declared_errors", len(decls))
	byCode := map[int16]declErr{}
	byMsg := map[string]declErr{}
	for _, d := range decls {
		if o, dup := byCode[d.Code]; dup {
			r.Violation("kerr: two declared errors share a code", fmt.Sprintf("%s and %s both declare code %d", o.Var, d.Var, d.Code))
		}
		if o, dup := byMsg[d.Message]; dup {
			r.Violation("kerr: two declared errors share a message", fmt.Sprintf("%s and %s both declare %s", o.Var, d.Var, d.Message))
		}
		if d.Code == 0 {
			r.Violation("kerr: declared error with code 0", fmt.Sprintf("%s declares code 0, which must mean no error", d.Var))
		}
		byCode[d.Code] = d
		byMsg[d.Message] = d
	}
	if d, ok := byCode[-1]; !ok || d.Var != "UnknownServerError" {
		r.Violation("kerr: UnknownServerError is not code -1", fmt.Sprintf("declared for -1: %+v", d))
	}
	if kerr.UnknownServerError == nil || kerr.UnknownServerError.Code != -1 || kerr.UnknownServerError.Message != "UNKNOWN_SERVER_ERROR" {
		r.Violation("kerr: UnknownServerError value", fmt.Sprintf("%+v", kerr.UnknownServerError))
		return
	}

	seenPtr := map[*kerr.Error]int16{}
	var nDefined, nUnknown int
	for ci := math.MinInt16; ci <= math.MaxInt16; ci++ {
		c := int16(ci)
		var e error
		var te *kerr.Error
		if p := vh.Catch(func() { e = kerr.ErrorForCode(c); te = kerr.TypedErrorForCode(c) }); p != nil {
			r.Violation("kerr.ErrorForCode panics", fmt.Sprintf("code %d: %v", c, p))
			continue
		}
		d, declared := byCode[c]
		switch {
		case c == 0:
			if e != nil {
				r.Violation("kerr.ErrorForCode(0) is not nil", fmt.Sprintf("got %#v", e))
			}
			if te != nil {
				r.Violation("kerr.TypedErrorForCode(0) is not nil", fmt.Sprintf("got %#v", te))
			}
			continue
		case e == nil:
			r.Violation("kerr.ErrorForCode: non-zero code maps to nil", fmt.Sprintf("code %d (declared=%v %s) maps to a nil error", c, declared, d.Var))
			continue
		}
		ke, ok := e.(*kerr.Error)
		if !ok || ke == nil {
			r.Violation("kerr.ErrorForCode: not a *kerr.Error", fmt.Sprintf("code %d maps to %T %v", c, e, e))
			continue
		}
		if te != ke {
			r.Violation("kerr.TypedErrorForCode differs from ErrorForCode", fmt.Sprintf("code %d: typed %p %+v vs %p %+v", c, te, te, ke, ke))
		}
		var as *kerr.Error
		if !errors.As(e, &as) || as != ke {
			r.Violation("kerr: errors.As(*kerr.Error) fails", fmt.Sprintf("code %d", c))
		}
		if kerr.IsRetriable(e) != ke.Retriable {
			r.Violation("kerr.IsRetriable disagrees with Retriable field", fmt.Sprintf("code %d %+v", c, ke))
		}
		if !strings.HasPrefix(e.Error(), ke.Message) {
			r.Violation("kerr: Error() does not lead with Message", fmt.Sprintf("code %d: %q vs message %q", c, e.Error(), ke.Message))
		}
		if declared {
			nDefined++
			r.Distinct(fmt.Sprintf("code:%d", c))
			if ke.Code != c {
				r.Violation("kerr.ErrorForCode: defined code maps to an error carrying another code",
					fmt.Sprintf("ErrorForCode(%d) = %s with Code %d; %s is declared with code %d", c, ke.Message, ke.Code, d.Var, d.Code))
			} else if ke.Message != d.Message || ke.Retriable != d.Retriable || ke.Description != d.Desc {
				r.Violation("kerr.ErrorForCode: defined code maps to a different error than the one declared with it",
					fmt.Sprintf("ErrorForCode(%d) = %+v; declared %s = %+v", c, *ke, d.Var, d))
			}
			if o, dup := seenPtr[ke]; dup {
				r.Violation("kerr.ErrorForCode: two defined codes map to the same error", fmt.Sprintf("codes %d and %d -> %s", o, c, ke.Message))
			}
			seenPtr[ke] = c
			if c == 3 || c == 45 {
				r.Sample(map[string]any{"kind": "error code", "code": c, "message": ke.Message, "declared_var": d.Var})
			}
		} else {
			nUnknown++
			if ke != kerr.UnknownServerError {
				r.Violation("kerr.ErrorForCode: undeclared code does not map to UNKNOWN_SERVER_ERROR",
					fmt.Sprintf("ErrorForCode(%d) = %+v (no declared error has this code)", c, *ke))
			}
		}
		if want, ok := pinnedCodes[c]; ok && ke.Message != want {
			r.Violation("kerr: code differs from the Kafka protocol guide", fmt.Sprintf("code %d is %s in the protocol guide, ErrorForCode gives %s", c, want, ke.Message))
		}
	}
	r.Distinct("code:unknown-class")
	r.Distinct("code:0")
	r.Eval(1 << 16)
	r.Count("codes_defined", nDefined)
	r.Count("codes_unknown", nUnknown)
}

var reKeyConst = regexp.MustCompile(`(?m)^\t(\w+)\s+Key = (\d+)$`)

func checkKeys(r *vh.Run) (known map[int16]int16) {
	known = map[int16]int16{} // key -> kmsg max version
	constName := map[int16]string{}
	if raw, err := os.ReadFile(vh.Repo() + "/pkg/kmsg/generated.go"); err != nil {
		r.Inconclusive("cannot read pkg/kmsg/generated.go: " + err.Error())
	} else {
		for _, m := range reKeyConst.FindAllStringSubmatch(string(raw), -1) {
			n, _ := strconv.Atoi(m[2])
			constName[int16(n)] = m[1]
		}
		r.Count("kmsg_key_constants", len(constName))
		if len(constName) == 0 {
			r.Inconclusive("no Key constants parsed from pkg/kmsg/generated.go")
		}
	}
	names := map[string]int16{}
	maxKnown := int16(-1)
	for ki := math.MinInt16; ki <= math.MaxInt16; ki++ {
		k := int16(ki)
		var req kmsg.Request
		var resp kmsg.Response
		var name string
		if p := vh.Catch(func() { req, resp, name = kmsg.RequestForKey(k), kmsg.ResponseForKey(k), kmsg.NameForKey(k) }); p != nil {
			r.Violation("kmsg.*ForKey panics", fmt.Sprintf("key %d: %v", k, p))
			continue
		}
		hasReq := req != nil && !reflect.ValueOf(req).IsNil()
		hasResp := resp != nil && !reflect.ValueOf(resp).IsNil()
		hasName := name != "Unknown" && name != ""
		if hasReq != hasResp || hasReq != hasName {
			r.Violation("kmsg: RequestForKey/ResponseForKey/NameForKey disagree on whether a key is known",
				fmt.Sprintf("key %d: request=%v response=%v name=%q", k, hasReq, hasResp, name))
		}
		if cn, ok := constName[k]; ok != hasName || (ok && cn != name) {
			if len(constName) > 0 {
				r.Violation("kmsg: Key constant and NameForKey disagree", fmt.Sprintf("key %d: constant %q (declared=%v) NameForKey %q", k, cn, ok, name))
			}
		}
		if kk := kmsg.Key(k); kk.Name() != name || kk.Int16() != k || (kk.Request() != nil) != hasReq || (kk.Response() != nil) != hasResp {
			r.Violation("kmsg.Key helpers disagree with *ForKey", fmt.Sprintf("key %d", k))
		}
		if !hasReq && !hasResp && !hasName {
			if name != "Unknown" {
				r.Violation("kmsg.NameForKey: unknown key is not named Unknown", fmt.Sprintf("key %d: %q", k, name))
			}
			continue
		}
		if k > maxKnown {
			maxKnown = k
		}
		r.Distinct(fmt.Sprintf("key:%d", k))
		if o, dup := names[name]; dup && hasName {
			r.Violation("kmsg.NameForKey: two keys share a name", fmt.Sprintf("keys %d and %d are both %q", o, k, name))
		}
		names[name] = k
		if want, ok := pinnedKeys[k]; ok && name != want {
			r.Violation("kmsg: key differs from the Kafka protocol guide", fmt.Sprintf("key %d is %s in the protocol guide, NameForKey gives %s", k, want, name))
		}
		if hasReq {
			if req.Key() != k {
				r.Violation("kmsg.RequestForKey: request carries another key", fmt.Sprintf("RequestForKey(%d) = %T with Key() %d", k, req, req.Key()))
			}
			if tn := reflect.TypeOf(req).Elem().Name(); hasName && tn != name+"Request" {
				r.Violation("kmsg: request type name disagrees with NameForKey", fmt.Sprintf("key %d: type %s, name %s", k, tn, name))
			}
			known[k] = req.MaxVersion()
			if req.MaxVersion() < 0 {
				r.Violation("kmsg: negative MaxVersion", fmt.Sprintf("key %d request max %d", k, req.MaxVersion()))
			}
			var rk kmsg.Response
			if p := vh.Catch(func() { rk = req.ResponseKind() }); p != nil || rk == nil {
				r.Violation("kmsg: ResponseKind nil or panics", fmt.Sprintf("key %d: %v", k, p))
			} else {
				if rk.Key() != k {
					r.Violation("kmsg: ResponseKind carries another key", fmt.Sprintf("key %d request %T: ResponseKind %T has key %d", k, req, rk, rk.Key()))
				}
				if hasResp && reflect.TypeOf(rk) != reflect.TypeOf(resp) {
					r.Violation("kmsg: ResponseKind type differs from ResponseForKey", fmt.Sprintf("key %d: %T vs %T", k, rk, resp))
				}
				if rk.MaxVersion() != req.MaxVersion() {
					r.Violation("kmsg: ResponseKind max version differs from request", fmt.Sprintf("key %d: %d vs %d", k, rk.MaxVersion(), req.MaxVersion()))
				}
			}
		}
		if hasResp {
			if resp.Key() != k {
				r.Violation("kmsg.ResponseForKey: response carries another key", fmt.Sprintf("ResponseForKey(%d) = %T with Key() %d", k, resp, resp.Key()))
			}
			if tn := reflect.TypeOf(resp).Elem().Name(); hasName && tn != name+"Response" {
				r.Violation("kmsg: response type name disagrees with NameForKey", fmt.Sprintf("key %d: type %s, name %s", k, tn, name))
			}
		}
		if hasReq && hasResp && req.MaxVersion() != resp.MaxVersion() {
			r.Violation("kmsg: request and response disagree on max version",
				fmt.Sprintf("key %d (%s): request max %d, response max %d", k, name, req.MaxVersion(), resp.MaxVersion()))
		}
		if k == 68 {
			r.Sample(map[string]any{"kind": "api key", "key": k, "name": name, "request": fmt.Sprintf("%T", req), "response": fmt.Sprintf("%T", resp), "max_version": req.MaxVersion()})
		}
	}
	r.Distinct("key:unknown-class")
	r.Eval(1 << 16)
	r.Count("keys_known", len(known))
	if maxKnown != kmsg.MaxKey {
		r.Violation("kmsg.MaxKey is not the largest known key", fmt.Sprintf("MaxKey=%d, largest key with a request=%d", kmsg.MaxKey, maxKnown))
	}
	return known
}

type release struct {
	name string
	v    *kversion.Versions
}

func namedReleases() []release {
	return []release{
		{"V0_8_0", kversion.V0_8_0()}, {"V0_8_1", kversion.V0_8_1()}, {"V0_8_2", kversion.V0_8_2()}, {"V0_9_0", kversion.V0_9_0()},
		{"V0_10_0", kversion.V0_10_0()}, {"V0_10_1", kversion.V0_10_1()}, {"V0_10_2", kversion.V0_10_2()}, {"V0_11_0", kversion.V0_11_0()},
		{"V1_0_0", kversion.V1_0_0()}, {"V1_1_0", kversion.V1_1_0()}, {"V2_0_0", kversion.V2_0_0()}, {"V2_1_0", kversion.V2_1_0()},
		{"V2_2_0", kversion.V2_2_0()}, {"V2_3_0", kversion.V2_3_0()}, {"V2_4_0", kversion.V2_4_0()}, {"V2_5_0", kversion.V2_5_0()},
		{"V2_6_0", kversion.V2_6_0()}, {"V2_7_0", kversion.V2_7_0()}, {"V2_8_0", kversion.V2_8_0()}, {"V3_0_0", kversion.V3_0_0()},
		{"V3_1_0", kversion.V3_1_0()}, {"V3_2_0", kversion.V3_2_0()}, {"V3_3_0", kversion.V3_3_0()}, {"V3_4_0", kversion.V3_4_0()},
		{"V3_5_0", kversion.V3_5_0()}, {"V3_6_0", kversion.V3_6_0()}, {"V3_7_0", kversion.V3_7_0()}, {"V3_8_0", kversion.V3_8_0()},
		{"V3_9_0", kversion.V3_9_0()}, {"V4_0_0", kversion.V4_0_0()}, {"V4_1_0", kversion.V4_1_0()}, {"V4_2_0", kversion.V4_2_0()},
		{"Stable", kversion.Stable()}, {"Tip", kversion.Tip()},
	}
}

var reRelFunc = regexp.MustCompile(`(?m)^func (V\d+_\d+(?:_\d+)?|Stable|Tip)\(\)\s+\*Versions`)

func checkReleases(r *vh.Run, known map[int16]int16) {
	rels := namedReleases()
	have := map[string]bool{}
	for _, rel := range rels {
		have[rel.name] = true
	}
	if raw, err := os.ReadFile(vh.Repo() + "/pkg/kversion/kversion.go"); err != nil {
		r.Inconclusive("cannot read pkg/kversion/kversion.go: " + err.Error())
	} else {
		var missing []string
		ms := reRelFunc.FindAllStringSubmatch(string(raw), -1)
		for _, m := range ms {
			if !have[m[1]] {
				missing = append(missing, m[1])
			}
		}
		r.Count("kversion_release_funcs_in_source", len(ms))
		if len(missing) > 0 || len(ms) == 0 {
			r.Inconclusive(fmt.Sprintf("pkg/kversion declares named releases this check does not enumerate: %v (found %d)", missing, len(ms)))
		}
	}
	// the same releases (and any other) by their string names
	for _, s := range kversion.VersionStrings() {
		v := kversion.FromString(s)
		if v == nil {
			r.Violation("kversion.FromString rejects a name from VersionStrings", s)
			continue
		}
		rels = append(rels, release{"FromString(" + s + ")", v})
	}
	r.Count("releases", len(rels))
	for _, rel := range rels {
		if rel.v == nil {
			r.Violation("kversion: named release is nil", rel.name)
			continue
		}
		each := map[int16]int16{}
		rel.v.EachMaxKeyVersion(func(k, v int16) { each[k] = v })
		nkeys, atMax := 0, 0
		for ki := math.MinInt16; ki <= math.MaxInt16; ki++ {
			k := int16(ki)
			v, ok := rel.v.LookupMaxKeyVersion(k)
			ev, eok := each[k]
			if ok != eok || (ok && v != ev) || rel.v.HasKey(k) != ok {
				r.Violation("kversion: LookupMaxKeyVersion/EachMaxKeyVersion/HasKey disagree", fmt.Sprintf("%s key %d: lookup (%d,%v) each (%d,%v) has %v", rel.name, k, v, ok, ev, eok, rel.v.HasKey(k)))
			}
			if !ok {
				if v != -1 {
					r.Violation("kversion: absent key does not report -1", fmt.Sprintf("%s key %d: %d", rel.name, k, v))
				}
				continue
			}
			nkeys++
			kmax, isKnown := known[k]
			switch {
			case !isKnown:
				r.Violation("kversion: release allows a key the codec has no request for",
					fmt.Sprintf("%s allows key %d up to version %d; kmsg.RequestForKey(%d) is nil", rel.name, k, v, k))
			case v > kmax:
				r.Violation("kversion: release allows a version beyond the codec's max",
					fmt.Sprintf("%s allows key %d (%s) up to version %d; kmsg max version is %d", rel.name, k, kmsg.NameForKey(k), v, kmax))
			case v < 0:
				r.Violation("kversion: negative max version", fmt.Sprintf("%s key %d: %d", rel.name, k, v))
			}
			if v == kmax {
				atMax++
			}
		}
		r.Eval(1 << 16)
		if nkeys == 0 {
			r.Violation("kversion: named release has no keys", rel.name)
		}
		r.Distinct("release:" + rel.name)
		r.Count("release_key_pairs", nkeys)
		r.Count("release_key_pairs_at_codec_max", atMax)
		if rel.name == "Stable" || rel.name == "V0_8_0" {
			r.Sample(map[string]any{"kind": "release", "name": rel.name, "keys": nkeys, "keys_at_codec_max": atMax, "String_head": head(rel.v.VersionGuess(), 40)})
		}
	}
}

func head(s string, n int) string {
	if len(s) > n {
		return s[:n]
	}
	return s
}

func TestCheck(t *testing.T) {
	r := vh.Start(t, "C24")
	checkErrors(r)
	known := checkKeys(r)
	checkReleases(r, known)

	keys := make([]int, 0, len(known))
	for k := range known {
		keys = append(keys, int(k))
	}
	sort.Ints(keys)
	r.Set("exhaustive", r.Violations() == 0 && r.Counter("inconclusive") == 0)
	r.Set("exhaustive_domain", "every int16 error code; every int16 API key; every named release in pkg/kversion (V* functions, Stable, Tip, every VersionStrings name) x every int16 key")
	r.Finish("exploration",
		"exhaustive enumeration: every int16 passed to kerr.ErrorForCode/TypedErrorForCode, every int16 passed to kmsg.RequestForKey/ResponseForKey/NameForKey, and for every named kversion release every int16 passed to LookupMaxKeyVersion. Non-trivial: a code with a declared error, a key with a request type, a release; distinct by value (plus one class each for 'unknown code', 'unknown key', code 0)",
		"the set of declared errors is the package-level `X = &Error{...}` declarations parsed from pkg/kerr/kerr.go of the tree under test; the Key constant names are parsed from pkg/kmsg/generated.go; the list of release functions in this check is compared with the func declarations in pkg/kversion/kversion.go (a release this check does not enumerate makes the run inconclusive)",
		"'what the codec can encode' is read as kmsg's Request.MaxVersion() for the key; a release listing a key for which kmsg has no request type counts as a violation",
		"a few dozen well-known codes/keys are additionally pinned to their names in the Kafka protocol guide",
	)
}
