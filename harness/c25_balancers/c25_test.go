// C25 — every balancer produces a valid assignment.
// C26 — sticky balancing is optimal and keeps balanced assignments.
// C27 — cooperative rebalances hand off safely and converge.
//
// Monitor: the built-in balancers are driven through the public GroupBalancer
// API (JoinGroupMetadata -> MemberBalancer -> Balance -> IntoSyncAssignment ->
// ParseSyncAssignment) on an enumerated small space, on patterned prior
// ownership (settled, stale, conflicting, hostile) and on large random groups;
// kfake's server-side assignors are driven through ConsumerGroupHeartbeat /
// ConsumerGroupDescribe. Independent oracles judge what comes back: a validity
// checker (C25), an improving-chain search plus a stickiness comparison
// against priors built by a reference optimiser (C26), and a simulation of
// cooperative rounds (C27).
package c25

import (
	"fmt"
	"math/rand/v2"
	"runtime"
	"sort"
	"strings"
	"testing"

	"verifharness/internal/vh"
)

// source enumerates the shared input stream. fn is called concurrently; rng is
// private to the call and a pure function of (seed, item).
type source struct {
	r     *vh.Run
	small []smallCfg
	// per small config: which patterns, how many random repetitions
	smallReps int
	nLarge    int
	maxM      int
	maxP      int
}

func newSource(r *vh.Run) *source {
	s := &source{r: r}
	if r.Quick() {
		// everything up to 3 members x 3 topics x 3 partitions, and a seeded
		// sample of the 4-member / 4-partition remainder
		s.small = allSmall(3, 3, 3)
		rest := allSmall(4, 3, 4)
		rng := r.Rand("small-sample", 0)
		for _, c := range rest {
			big := c.m == 4
			for _, n := range c.counts {
				big = big || n == 4
			}
			if big && rng.IntN(40) == 0 {
				s.small = append(s.small, c)
			}
		}
		s.smallReps = 1
		s.nLarge = 2000
	} else {
		s.small = allSmall(4, 3, 4)
		s.smallReps = 3
		s.nLarge = 200000
	}
	s.maxM, s.maxP = 200, 2000
	return s
}

// eachSmall calls fn for every (config, pattern, repetition, racks?) of the small space.
func (s *source) eachSmall(stream string, fn func(in *input, pat int, rng *rand.Rand)) {
	vh.Parallel(len(s.small), runtime.NumCPU(), func(i int) {
		cfg := s.small[i]
		for pat := 0; pat < numPatterns; pat++ {
			reps := s.smallReps
			if pat <= 2 {
				reps = 1 // deterministic patterns
			}
			for rep := 0; rep < reps; rep++ {
				rng := s.r.Rand(stream, (i*numPatterns+pat)*8+rep)
				in := cfg.build()
				applyPattern(in, pat, rng)
				if (i+pat+rep)%4 == 0 {
					addRacks(in, rng)
				}
				fn(in, pat, rng)
			}
		}
	})
}

func (s *source) eachLarge(stream string, fn func(in *input, pat int, rng *rand.Rand)) {
	vh.Parallel(s.nLarge, runtime.NumCPU(), func(i int) {
		rng := s.r.Rand(stream, i)
		maxM, maxP := s.maxM, s.maxP
		if i%4 != 0 { // most cases moderate so that many are seen; every 4th full size
			maxM, maxP = 40, 300
		}
		in := randomLarge(rng, maxM, maxP)
		pat := rng.IntN(numPatterns)
		applyPattern(in, pat, rng)
		if rng.IntN(3) == 0 {
			addRacks(in, rng)
		}
		fn(in, pat, rng)
	})
}

func detail(in *input, p plan, extra map[string]any) map[string]any {
	d := map[string]any{"input": in, "plan": p}
	for k, v := range extra {
		d[k] = v
	}
	return d
}

func withBalancer(in *input, b string) *input {
	c := cloneInput(in)
	c.Balancer = b
	return c
}

func head(xs []string, n int) []string {
	if len(xs) > n {
		return xs[:n]
	}
	return xs
}

func problemClass(p string) string {
	switch {
	case strings.Contains(p, "does not subscribe"):
		return "partition given to a member not subscribed to its topic"
	case strings.Contains(p, "assigned to both"):
		return "partition assigned to two members"
	case strings.Contains(p, "no partition count"):
		return "partition of an unknown topic assigned"
	case strings.Contains(p, "topic has"):
		return "partition index out of range assigned"
	case strings.Contains(p, "unknown member"):
		return "plan names an unknown member"
	}
	return "invalid plan"
}

// judgeValidity is the C25 verdict on one plan. It returns false if the plan
// was judged invalid.
func judgeValidity(r *vh.Run, in *input, p plan, err error, tag string) bool {
	if err != nil {
		if strings.HasPrefix(err.Error(), "panic:") {
			r.Inconclusive(fmt.Sprintf("%s balancer panicked: %v", in.Balancer, err))
			r.Sample(detail(in, nil, map[string]any{"panic": err.Error()}))
			return false
		}
		r.Violation(in.Balancer+": no plan returned"+tag, detail(in, nil, map[string]any{"error": err.Error()}))
		return false
	}
	v := checkValid(in, p)
	if len(v.problems) > 0 {
		r.Violation(in.Balancer+": "+problemClass(v.problems[0])+tag, detail(in, p, map[string]any{"problems": head(v.problems, 10)}))
		return false
	}
	if len(v.unassigned) == 0 {
		return true
	}
	if in.Balancer != "cooperative-sticky" {
		r.Violation(in.Balancer+": partition of a subscribed topic left unassigned"+tag,
			detail(in, p, map[string]any{"unassigned": fmt.Sprint(v.unassigned)}))
		return false
	}
	// cooperative: a withheld partition must be one some member still claims
	cl := claimsOf(in)
	for _, k := range v.unassigned {
		if len(cl.by[k]) == 0 {
			r.Violation("cooperative-sticky: partition withheld although no member claims to own it"+tag,
				detail(in, p, map[string]any{"partition": k.String(), "unassigned": fmt.Sprint(v.unassigned)}))
			return false
		}
		if cl.maxGen[k] < cl.grpGen {
			r.Count("withheld_from_claimant_below_group_generation", 1)
		}
	}
	r.Count("cooperative_plans_withholding", 1)
	r.Count("cooperative_partitions_withheld", len(v.unassigned))
	return true
}

const ruleInputs = "inputs: (a) the enumerated small space (quick: every group of <=3 members x <=3 topics x <=3 partitions/topic x every subscription subset per member, plus a seeded 1/40 sample of the <=4 x <=3 x <=4 remainder; thorough: all of <=4 x <=3 x <=4) crossed with 13 prior-ownership patterns (none, all-to-first, modulo, settled = valid and optimal by an independent reference optimiser, settled+fresh member, settled after a leave, random owner, stale-generation claimant, same-generation conflict, mixed generations, hostile claims (unknown topic / out of range / negative / unsubscribed), settled then subscription flip, settled then partition growth), every 4th with member and partition racks; (b) seeded random groups up to 200 members / 2000 partitions / 24 topics with five subscription styles and the same patterns. A case is non-trivial when >=2 members have different subscriptions or some member claims prior ownership; distinct = the input (member descriptors sorted, i.e. up to renaming of members, plus partition counts and racks) together with the balancer"

func TestCheckC25(t *testing.T) {
	r := vh.Start(t, "C25")
	s := newSource(r)
	simple := []string{"range", "roundrobin"}
	stickies := []string{"sticky", "cooperative-sticky"}

	run := func(in *input, b string, class string) {
		x := withBalancer(in, b)
		p, err := runBalancer(x)
		if class == "dup" {
			// a list naming one topic twice is not a subscription in the
			// property's sense (a set): generated, counted, not judged
			r.Count("dontcare_duplicate_topic_plans", 1)
			if err != nil {
				r.Count("dontcare_duplicate_topic_no_plan", 1)
			} else if v := checkValid(x, p); len(v.problems) > 0 || (len(v.unassigned) > 0 && b != "cooperative-sticky") {
				r.Count("dontcare_duplicate_topic_invalid_plan_"+b, 1)
			}
			return
		}
		ok := judgeValidity(r, x, p, err, "")
		r.Eval(1)
		r.Count("plans_"+b, 1)
		if nonTrivial(x) {
			r.DistinctHash(b, canon(x))
		}
		if ok && r.WantSample() && len(x.Members) >= 3 && nonTrivial(x) && class == "small" {
			r.Sample(detail(x, p, map[string]any{"verdict": "valid"}))
		}
	}
	s.eachSmall("c25-small", func(in *input, pat int, _ *rand.Rand) {
		if pat == 0 || in.PRacks != nil {
			// range and roundrobin ignore prior ownership: once per config (and per rack layout)
			for _, b := range simple {
				run(in, b, "small")
			}
		}
		for _, b := range stickies {
			run(in, b, "small")
		}
		r.Count("pattern_"+patternNames[pat], 1)
	})
	// hostile peer: a subscription list that names a topic twice
	s.eachSmall("c25-dup", func(in *input, pat int, rng *rand.Rand) {
		if pat != 0 && pat != 3 && pat != 6 {
			return
		}
		var cand []int
		for i := range in.Members {
			if len(in.Members[i].Topics) > 0 {
				cand = append(cand, i)
			}
		}
		if len(cand) == 0 || rng.IntN(3) != 0 {
			return
		}
		m := &in.Members[cand[rng.IntN(len(cand))]]
		m.Topics = append(m.Topics, m.Topics[rng.IntN(len(m.Topics))])
		sort.Strings(m.Topics)
		for _, b := range append(append([]string{}, simple...), stickies...) {
			run(in, b, "dup")
		}
		r.Count("inputs_with_duplicate_topic_in_subscription", 1)
	})
	s.eachLarge("c25-large", func(in *input, pat int, _ *rand.Rand) {
		for _, b := range simple {
			run(in, b, "large")
		}
		for _, b := range stickies {
			run(in, b, "large")
		}
		r.Count("pattern_"+patternNames[pat], 1)
		if len(in.Members) >= 100 {
			r.Count("groups_with_100+_members", 1)
		}
	})

	kfakeValidity(r)

	r.Finish("exploration",
		"one evaluation = one returned plan (or one kfake target assignment after one group change) judged by the validity oracle: every partition of every subscribed existing topic to exactly one subscribed member, nothing else; a cooperative-sticky plan may leave a partition out only if some member claims it in this round's metadata. "+ruleInputs+
			"; (c) kfake: seeded scripts of joins, leaves, subscription changes, topic creations/deletions and partition growth against the uniform and range server-side assignors, the target assignment of every member read back with ConsumerGroupDescribe after each step (distinct = assignor + subscription multiset + partition counts + whether a target existed before).",
		"the validity oracle in harness/c25_balancers is trusted",
		"partition counts handed to Balance are those of the topics the members named and that exist, as the leader builds them; topics nobody subscribes to are not passed",
		"a withheld partition whose only claimants are below the group's highest generation is accepted (the code withholds for any claimant); counted in withheld_from_claimant_below_group_generation",
		"kfake static members in the left (-2) state and regex subscriptions are not exercised",
		"subscription lists naming one topic twice (a hostile or buggy peer) are generated for the client-side balancers but not judged (a subscription is a set); invalid plans there are counted as dontcare_duplicate_topic_invalid_plan_<balancer>",
	)
}

// ---- C26 ----

// settle runs cooperative rounds (members adopt what they were given and
// rejoin) until a plan withholds nothing; it returns that round's input and plan.
func settle(in *input, p plan, maxRounds int) (*input, plan, int, error) {
	gen := int32(100)
	for round := 1; ; round++ {
		v := checkValid(in, p)
		if len(v.problems) > 0 {
			return in, p, round, fmt.Errorf("invalid plan in round %d", round)
		}
		if len(v.unassigned) == 0 {
			return in, p, round, nil
		}
		if round >= maxRounds {
			return in, p, round, fmt.Errorf("still withholding after %d rounds", round)
		}
		in = adopt(in, p, gen)
		gen++
		var err error
		if p, err = runBalancer(in); err != nil {
			return in, p, round, err
		}
	}
}

// adopt is the next round's input: every member owns exactly what the plan
// gave it (it revoked the rest) and rejoins at the new generation.
func adopt(in *input, p plan, gen int32) *input {
	n := cloneInput(in)
	for i := range n.Members {
		m := &n.Members[i]
		m.Owned = nil
		m.Gen = gen
		for t, ps := range p[m.ID] {
			if len(ps) == 0 {
				continue
			}
			if m.Owned == nil {
				m.Owned = map[string][]int32{}
			}
			m.Owned[t] = sortedCopy(ps)
		}
	}
	return n
}

func TestCheckC26(t *testing.T) {
	r := vh.Start(t, "C26")
	s := newSource(r)

	judge := func(in *input, b string, pat int) {
		x := withBalancer(in, b)
		p, err := runBalancer(x)
		if err != nil {
			r.Count("no_plan_not_judged_here", 1) // C25's business
			return
		}
		v := checkValid(x, p)
		if len(v.problems) > 0 || (len(v.unassigned) > 0 && b == "sticky") {
			r.Count("invalid_plan_not_judged_here", 1) // C25's business
			return
		}
		settledPrior := priorIsSettled(x)
		r.Eval(1)
		if nonTrivial(x) {
			r.DistinctHash(b, canon(x))
		}
		// stickiness: a valid, optimal, single-generation prior must be left alone
		if settledPrior {
			r.Count("stickiness_judged_"+b, 1)
			prior := ownedAsPlan(x)
			if !planEqual(prior, p) {
				r.Violation(b+": settled assignment was changed",
					detail(x, p, map[string]any{"moved": planDiff(prior, p), "pattern": patternNames[pat]}))
				return
			}
		}
		// optimality of the complete plan (for cooperative: of the round that withholds nothing)
		fin, fp := x, p
		if len(v.unassigned) > 0 {
			var rounds int
			fin, fp, rounds, err = settle(x, p, 6)
			if err != nil {
				r.Count("cooperative_not_settled_not_judged_here", 1) // C27's business
				return
			}
			r.Count("cooperative_judged_after_extra_rounds", 1)
			_ = rounds
		}
		r.Count("optimality_judged_"+b, 1)
		if len(fin.Members) >= 100 {
			r.Count("optimality_judged_groups_100+_members", 1)
		}
		if chain := improvingChain(fin, fp); chain != "" {
			cls := "identical subscriptions"
			if effectivelyDifferentSubs(fin) {
				cls = "differing subscriptions"
			}
			r.Violation(b+": plan is not optimally balanced ("+cls+")",
				detail(fin, fp, map[string]any{"improving_chain": chain, "first_round_input": x, "pattern": patternNames[pat]}))
			return
		}
		if r.WantSample() && settledPrior && differentSubs(x) && len(x.Members) >= 3 {
			r.Sample(detail(x, p, map[string]any{"verdict": "optimal; settled prior kept"}))
		}
	}
	both := func(in *input, pat int, _ *rand.Rand) {
		judge(in, "sticky", pat)
		judge(in, "cooperative-sticky", pat)
		r.Count("pattern_"+patternNames[pat], 1)
	}
	s.eachSmall("c26-small", both)
	s.eachLarge("c26-large", both)

	// every valid assignment of tiny groups that the oracle calls optimal must be kept
	exhaustiveStickiness(r)

	r.Finish("exploration",
		"one evaluation = one sticky or cooperative-sticky plan judged by (1) an independent search for an improving chain (member M -> ... -> N, each hand-over a partition of a topic the receiver subscribes to, count(N) <= count(M)-2) on the complete plan — for cooperative-sticky the first round that withholds nothing, reached by letting members adopt their plan and rejoin — and (2) stickiness: when the claims (one generation) form a valid assignment without improving chain, the plan must equal them. "+ruleInputs+
			"; (c) for every group of <=3 members x <=2 topics x <=3 partitions/topic (thorough: <=4 partitions) every valid assignment is enumerated and those without improving chain are given as the prior.",
		"the improving-chain search and the reference optimiser in harness/c25_balancers are trusted",
		"stickiness is judged only for single-generation priors; mixed-generation priors without conflict are generated but only judged for optimality",
	)
}

// effectivelyDifferentSubs compares subscriptions restricted to topics that exist.
func effectivelyDifferentSubs(in *input) bool {
	key := func(m *member) string {
		var ts []string
		for _, t := range m.Topics {
			if _, ok := in.Counts[t]; ok {
				ts = append(ts, t)
			}
		}
		sort.Strings(ts)
		return strings.Join(ts, ",")
	}
	for i := 1; i < len(in.Members); i++ {
		if key(&in.Members[i]) != key(&in.Members[0]) {
			return true
		}
	}
	return false
}

// rackAware: some member and some partition carry a rack, which is when the
// sticky balancer's rack-aware pre-assignment runs.
func rackAware(in *input) bool {
	mr := false
	for i := range in.Members {
		mr = mr || in.Members[i].Rack != ""
	}
	pr := false
	for t, rs := range in.PRacks {
		if _, ok := in.Counts[t]; !ok {
			continue
		}
		for _, x := range rs {
			pr = pr || x != ""
		}
	}
	return mr && pr
}

func differentSubs(in *input) bool {
	if len(in.Members) < 2 {
		return false
	}
	k := strings.Join(in.Members[0].Topics, ",")
	for i := 1; i < len(in.Members); i++ {
		if strings.Join(in.Members[i].Topics, ",") != k {
			return true
		}
	}
	return false
}

// exhaustiveStickiness enumerates every valid assignment of tiny groups.
func exhaustiveStickiness(r *vh.Run) {
	cfgs := allSmall(3, 2, r.Pick(3, 4))
	vh.Parallel(len(cfgs), runtime.NumCPU(), func(ci int) {
		base := cfgs[ci].build()
		all := allPartitions(base)
		if len(all) == 0 {
			return
		}
		subsOf := subscribersOf(base)
		choices := make([][]string, len(all))
		total := 1
		for i, k := range all {
			for j := range base.Members {
				if subsOf[k.t][base.Members[j].ID] {
					choices[i] = append(choices[i], base.Members[j].ID)
				}
			}
			total *= len(choices[i])
		}
		for a := 0; a < total; a++ {
			p := make(plan, len(base.Members))
			for i := range base.Members {
				p[base.Members[i].ID] = map[string][]int32{}
			}
			x := a
			for i, k := range all {
				mid := choices[i][x%len(choices[i])]
				x /= len(choices[i])
				p[mid][k.t] = append(p[mid][k.t], k.p)
			}
			if improvingChain(base, p) != "" {
				continue
			}
			in := cloneInput(base)
			setOwned(in, p, 7)
			for _, b := range []string{"sticky", "cooperative-sticky"} {
				xin := withBalancer(in, b)
				got, err := runBalancer(xin)
				if err != nil {
					continue
				}
				r.Eval(1)
				r.Count("exhaustive_optimal_priors", 1)
				if nonTrivial(xin) {
					r.DistinctHash(b, canon(xin))
				}
				if !planEqual(p, got) {
					r.Violation(b+": settled assignment was changed",
						detail(xin, got, map[string]any{"moved": planDiff(p, got), "pattern": "exhaustive optimal prior"}))
				}
			}
		}
	})
}

// ---- C27 ----

// handoff judges one cooperative round: nothing may be given to m2 while
// another member's current claim on it stands.
func handoff(r *vh.Run, in *input, p plan, where string) bool {
	cl := claimsOf(in)
	idx := map[string]int{}
	for i := range in.Members {
		idx[in.Members[i].ID] = i
	}
	mids := make([]string, 0, len(p))
	for mid := range p {
		mids = append(mids, mid)
	}
	sort.Strings(mids)
	ok := true
	for _, m2 := range mids {
		i2, known := idx[m2]
		if !known {
			continue
		}
		for t, ps := range p[m2] {
			for _, pn := range ps {
				k := tp{t, pn}
				cs := cl.by[k]
				if len(cs) == 0 {
					continue
				}
				maxG := cl.maxGen[k]
				m2current := false
				for _, c := range cs {
					if c == i2 && in.Members[c].Gen == maxG {
						m2current = true
					}
				}
				for _, c := range cs {
					if c == i2 || in.Members[c].Gen != maxG {
						continue
					}
					switch {
					case m2current:
						r.Count("dontcare_same_generation_conflict", 1)
					case maxG < cl.grpGen:
						r.Count("dontcare_sole_claim_below_group_generation", 1)
					default:
						ok = false
						r.Violation("cooperative-sticky: partition given to a member while another member's current claim stands",
							detail(in, p, map[string]any{"where": where, "partition": k.String(), "given_to": m2, "still_owned_by": in.Members[c].ID, "claim_generation": maxG}))
					}
				}
			}
		}
	}
	return ok
}

// converge runs the rebalances that follow one group change and judges them:
// hand-off safety in each, and that the second one completes the assignment
// without taking anything away. It returns the settled input (members own
// their final plan) or nil when the scenario cannot continue.
func converge(r *vh.Run, in *input, gen *int32, where string) *input {
	in = withBalancer(in, "cooperative-sticky")
	p1, err := runBalancer(in)
	if err != nil || len(checkValid(in, p1).problems) > 0 {
		r.Count("invalid_plan_not_judged_here", 1)
		return nil
	}
	r.Eval(1)
	if nonTrivial(in) {
		r.DistinctHash(canon(in))
	}
	if !handoff(r, in, p1, where+", first rebalance") {
		return nil
	}
	*gen++
	in2 := adopt(in, p1, *gen)
	if len(checkValid(in, p1).unassigned) == 0 {
		r.Count("settled_after_one_rebalance", 1)
		return in2
	}
	p2, err := runBalancer(in2)
	if err != nil || len(checkValid(in2, p2).problems) > 0 {
		r.Count("invalid_plan_not_judged_here", 1)
		return nil
	}
	r.Eval(1)
	if !handoff(r, in2, p2, where+", second rebalance") {
		return nil
	}
	*gen++
	in3 := adopt(in2, p2, *gen)
	v2 := checkValid(in2, p2)
	lost := planLost(p1, p2)
	if len(v2.unassigned) > 0 || len(lost) > 0 {
		cls := "identical subscriptions"
		if effectivelyDifferentSubs(in) {
			cls = "differing subscriptions"
		} else if rackAware(in) {
			cls = "identical subscriptions, rack-aware"
		}
		r.Count("not_settled_after_two_"+strings.NewReplacer(" ", "_", ",", "").Replace(cls), 1)
		r.Violation("cooperative-sticky: stable group not settled after two rebalances ("+cls+")",
			detail(in, p1, map[string]any{"where": where, "second_round_input": in2, "second_plan": p2,
				"still_unassigned_after_second": fmt.Sprint(v2.unassigned), "taken_away_in_second": lost}))
		// keep going until it does settle so that the scenario can continue
		fin, fp, _, err := settle(in2, p2, 8)
		if err != nil {
			return nil
		}
		*gen++
		return adopt(fin, fp, *gen)
	}
	r.Count("settled_after_two_rebalances", 1)
	if r.WantSample() && differentSubs(in) && len(in.Members) >= 3 {
		r.Sample(map[string]any{"first_round_input": in, "first_plan": p1, "second_plan": p2, "verdict": "withheld partitions handed over in the second rebalance"})
	}
	return in3
}

// planLost lists what members had in a and do not have in b.
func planLost(a, b plan) []string {
	var out []string
	for mid, tps := range a {
		for t, ps := range tps {
			have := map[int32]bool{}
			for _, pn := range b[mid][t] {
				have[pn] = true
			}
			for _, pn := range ps {
				if !have[pn] {
					out = append(out, fmt.Sprintf("%s lost %s/%d", mid, t, pn))
				}
			}
		}
	}
	sort.Strings(out)
	return out
}

// scenario drives a group through a seeded sequence of changes.
func scenario(r *vh.Run, rng *rand.Rand, start *input, steps int) {
	gen := int32(0)
	in := converge(r, start, &gen, "initial state")
	type snap struct {
		m member
	}
	var zombies []snap
	nextID := 0
	for st := 0; st < steps && in != nil; st++ {
		in = cloneInput(in)
		ts := sortedTopics(in.Counts)
		ev := rng.IntN(7)
		var where string
		switch ev {
		case 0: // a fresh member joins
			nm := member{ID: fmt.Sprintf("n%03d", nextID), Gen: -1}
			nextID++
			for _, t := range ts {
				if rng.IntN(3) > 0 {
					nm.Topics = append(nm.Topics, t)
				}
			}
			if len(nm.Topics) == 0 && len(ts) > 0 {
				nm.Topics = []string{ts[rng.IntN(len(ts))]}
			}
			in.Members = append(in.Members, nm)
			where = "member joined"
		case 1: // a member leaves (and may come back later as a zombie with its old claims)
			if len(in.Members) < 2 {
				continue
			}
			i := rng.IntN(len(in.Members))
			zombies = append(zombies, snap{in.Members[i]})
			in.Members = append(in.Members[:i:i], in.Members[i+1:]...)
			where = "member left"
		case 2: // subscription change
			m := &in.Members[rng.IntN(len(in.Members))]
			if len(ts) == 0 {
				continue
			}
			t := ts[rng.IntN(len(ts))]
			has := -1
			for i, x := range m.Topics {
				if x == t {
					has = i
				}
			}
			if has >= 0 {
				m.Topics = append(m.Topics[:has:has], m.Topics[has+1:]...)
			} else {
				m.Topics = append(m.Topics, t)
				sort.Strings(m.Topics)
			}
			where = "subscription changed"
		case 3: // partitions added
			if len(ts) == 0 {
				continue
			}
			in.Counts[ts[rng.IntN(len(ts))]] += int32(1 + rng.IntN(3))
			where = "partitions added"
		case 4: // a member that left returns with the claims and generation it had
			if len(zombies) == 0 {
				continue
			}
			z := zombies[len(zombies)-1]
			zombies = zombies[:len(zombies)-1]
			dup := false
			for i := range in.Members {
				dup = dup || in.Members[i].ID == z.m.ID
			}
			if dup {
				continue
			}
			in.Members = append(in.Members, z.m)
			r.Count("zombie_rejoins", 1)
			where = "stale member rejoined"
		case 5: // a topic disappears
			if len(ts) < 2 {
				continue
			}
			delete(in.Counts, ts[rng.IntN(len(ts))])
			where = "topic deleted"
		case 6: // two changes at once: one leaves, one joins
			if len(in.Members) < 2 {
				continue
			}
			i := rng.IntN(len(in.Members))
			nm := member{ID: fmt.Sprintf("n%03d", nextID), Gen: -1, Topics: append([]string(nil), in.Members[i].Topics...)}
			nextID++
			zombies = append(zombies, snap{in.Members[i]})
			in.Members[i] = nm
			where = "member replaced"
		}
		// counts only for subscribed topics, as the leader builds them
		subs := subscribersOf(in)
		for t := range in.Counts {
			if len(subs[t]) == 0 {
				delete(in.Counts, t)
			}
		}
		sort.Slice(in.Members, func(a, b int) bool { return in.Members[a].ID < in.Members[b].ID })
		r.Count("event_"+where, 1)
		in = converge(r, in, &gen, where)
	}
}

func TestCheckC27(t *testing.T) {
	r := vh.Start(t, "C27")
	s := newSource(r)

	oneShot := func(in *input, pat int, _ *rand.Rand) {
		gen := int32(50)
		converge(r, in, &gen, "pattern "+patternNames[pat])
		r.Count("pattern_"+patternNames[pat], 1)
	}
	s.eachSmall("c27-small", oneShot)
	s.eachLarge("c27-large", oneShot)

	// histories: sequences of group changes, each followed by its rebalances
	nScen := r.Pick(3000, 100000)
	vh.Parallel(nScen, runtime.NumCPU(), func(i int) {
		rng := r.Rand("c27-scenario", i)
		var start *input
		if i%5 == 0 {
			start = randomLarge(rng, 60, 400)
		} else {
			all := s.small
			start = all[rng.IntN(len(all))].build()
		}
		for j := range start.Members {
			start.Members[j].Owned, start.Members[j].Gen = nil, -1
		}
		start.PRacks = nil
		if rng.IntN(4) == 0 {
			addRacks(start, rng)
		}
		scenario(r, rng, start, 4+rng.IntN(8))
		r.Count("scenarios", 1)
	})

	r.Finish("exploration",
		"one evaluation = one cooperative-sticky rebalance inside a simulated history: after a group change the leader balances, every member adopts exactly what it was given (revoking the rest) and rejoins at the new generation, and the leader balances again. Judged: (1) hand-off — no partition is in m2's plan while another member claims it at the partition's highest claimed generation and that generation is the group's highest (m2 itself holding an equally current claim = same-generation conflict, and sole claims below the group's generation, are counted as dontcare); (2) convergence — with no further change the second rebalance leaves nothing unassigned and takes nothing away from anybody. "+ruleInputs+
			"; (c) seeded histories of 4-11 changes (join, leave, subscription change, partition growth, stale member returning with its old claims and generation, topic deletion, member replaced) starting from small-space or random groups, rack-aware every 4th. Distinct = canonical first-rebalance input.",
		"the round simulation stands for diffAssigned/revoke-and-rejoin of consumer_group.go: members rejoin owning exactly the plan they were sent; the real group consumer is exercised by other properties",
		"racks do not change between the two rebalances",
	)
}
