// Input generators: the enumerated small space, prior-ownership patterns,
// large random groups, and an independent reference optimiser used to build
// prior assignments that are valid and optimally balanced without asking the
// code under test.
package c25

import (
	"fmt"
	"math/rand/v2"
	"sort"
)

func topicName(i int) string  { return fmt.Sprintf("t%d", i) }
func memberName(i int) string { return fmt.Sprintf("m%03d", i) }

// ---- small space ----

type smallCfg struct {
	m, k   int
	counts []int32 // per topic
	subs   []int   // per member: bitmask over topics
}

// allSmall enumerates <= maxM members x <= maxK topics x 1..maxP partitions
// per topic x every subscription subset per member.
func allSmall(maxM, maxK, maxP int) []smallCfg {
	var out []smallCfg
	for m := 1; m <= maxM; m++ {
		for k := 1; k <= maxK; k++ {
			nc := 1
			for i := 0; i < k; i++ {
				nc *= maxP
			}
			ns := 1
			for i := 0; i < m; i++ {
				ns *= 1 << uint(k)
			}
			for ci := 0; ci < nc; ci++ {
				counts := make([]int32, k)
				x := ci
				for i := 0; i < k; i++ {
					counts[i] = int32(x%maxP) + 1
					x /= maxP
				}
				for si := 0; si < ns; si++ {
					subs := make([]int, m)
					y := si
					for i := 0; i < m; i++ {
						subs[i] = y % (1 << uint(k))
						y /= 1 << uint(k)
					}
					out = append(out, smallCfg{m, k, counts, subs})
				}
			}
		}
	}
	return out
}

func (c smallCfg) build() *input {
	in := &input{Counts: map[string]int32{}}
	for i := 0; i < c.m; i++ {
		mb := member{ID: memberName(i), Gen: -1}
		for t := 0; t < c.k; t++ {
			if c.subs[i]&(1<<uint(t)) != 0 {
				mb.Topics = append(mb.Topics, topicName(t))
				in.Counts[topicName(t)] = c.counts[t]
			}
		}
		in.Members = append(in.Members, mb)
	}
	return in
}

// ---- reference optimiser ----

type step struct {
	from, to int
	topic    string
}

// findChain is improvingChain returning the concrete hand-over steps.
func findChain(in *input, p plan) ([]step, bool) {
	n := len(in.Members)
	count := make([]int, n)
	holds := make([][]string, n)
	for i := range in.Members {
		for t, ps := range p[in.Members[i].ID] {
			if len(ps) == 0 {
				continue
			}
			count[i] += len(ps)
			holds[i] = append(holds[i], t)
		}
		sort.Strings(holds[i])
	}
	subsOf := map[string][]int{}
	for i := range in.Members {
		for _, t := range in.Members[i].Topics {
			subsOf[t] = append(subsOf[t], i)
		}
	}
	minC := count[0]
	for _, c := range count {
		if c < minC {
			minC = c
		}
	}
	for src := 0; src < n; src++ {
		if count[src] < minC+2 {
			continue
		}
		par := map[int]step{src: {-1, src, ""}}
		seenT := map[string]bool{}
		q := []int{src}
		for len(q) > 0 {
			a := q[0]
			q = q[1:]
			for _, t := range holds[a] {
				if seenT[t] {
					continue
				}
				seenT[t] = true
				for _, b := range subsOf[t] {
					if _, ok := par[b]; ok {
						continue
					}
					par[b] = step{a, b, t}
					if count[b] <= count[src]-2 {
						var path []step
						for x := b; par[x].from >= 0; x = par[x].from {
							path = append(path, par[x])
						}
						return path, true
					}
					q = append(q, b)
				}
			}
		}
	}
	return nil, false
}

// refOptimize applies improving chains until none is left. Every move keeps
// the assignment valid, so the result is valid and optimally balanced.
func refOptimize(in *input, p plan) plan {
	for {
		path, ok := findChain(in, p)
		if !ok {
			return p
		}
		for _, s := range path {
			src, dst := in.Members[s.from].ID, in.Members[s.to].ID
			ps := p[src][s.topic]
			pn := ps[len(ps)-1]
			if len(ps) == 1 {
				delete(p[src], s.topic)
			} else {
				p[src][s.topic] = ps[:len(ps)-1]
			}
			p[dst][s.topic] = append(p[dst][s.topic], pn)
		}
	}
}

// randomValid assigns every partition of every subscribed topic to a random subscriber.
func randomValid(in *input, rng *rand.Rand) plan {
	p := make(plan, len(in.Members))
	for i := range in.Members {
		p[in.Members[i].ID] = map[string][]int32{}
	}
	subsOf := map[string][]string{}
	for i := range in.Members {
		for _, t := range in.Members[i].Topics {
			subsOf[t] = append(subsOf[t], in.Members[i].ID)
		}
	}
	ts := sortedTopics(in.Counts)
	for _, t := range ts {
		ss := subsOf[t]
		if len(ss) == 0 {
			continue
		}
		for pn := int32(0); pn < in.Counts[t]; pn++ {
			mid := ss[rng.IntN(len(ss))]
			p[mid][t] = append(p[mid][t], pn)
		}
	}
	return p
}

func sortedTopics(c map[string]int32) []string {
	ts := make([]string, 0, len(c))
	for t := range c {
		ts = append(ts, t)
	}
	sort.Strings(ts)
	return ts
}

func setOwned(in *input, p plan, gen int32) {
	for i := range in.Members {
		m := &in.Members[i]
		m.Owned = nil
		m.Gen = -1
		for t, ps := range p[m.ID] {
			if len(ps) == 0 {
				continue
			}
			if m.Owned == nil {
				m.Owned = map[string][]int32{}
			}
			m.Owned[t] = sortedCopy(ps)
		}
		if m.Owned != nil {
			m.Gen = gen
		}
	}
}

func addClaim(m *member, t string, pn int32) {
	for _, x := range m.Owned[t] {
		if x == pn {
			return
		}
	}
	if m.Owned == nil {
		m.Owned = map[string][]int32{}
	}
	m.Owned[t] = append(m.Owned[t], pn)
}

func allPartitions(in *input) []tp {
	var out []tp
	for _, t := range sortedTopics(in.Counts) {
		for pn := int32(0); pn < in.Counts[t]; pn++ {
			out = append(out, tp{t, pn})
		}
	}
	return out
}

const numPatterns = 13

var patternNames = [numPatterns]string{
	"none", "all-to-first", "modulo", "settled", "settled+fresh-member", "settled-after-leave",
	"random-owner", "stale-claimant", "same-gen-conflict", "mixed-gen", "hostile-claims",
	"settled+subscription-flip", "settled+partition-growth",
}

// applyPattern rewrites the members' prior ownership (and for some patterns a
// subscription or a partition count) in place.
func applyPattern(in *input, pat int, rng *rand.Rand) {
	const cur = int32(5)
	all := allPartitions(in)
	n := len(in.Members)
	settled := func(x *input) plan { return refOptimize(x, randomValid(x, rng)) }
	switch pat {
	case 0:
		for i := range in.Members {
			in.Members[i].Owned, in.Members[i].Gen = nil, -1
		}
	case 1:
		for i := range in.Members {
			in.Members[i].Owned, in.Members[i].Gen = nil, -1
		}
		for _, k := range all {
			addClaim(&in.Members[0], k.t, k.p)
		}
		if len(all) > 0 {
			in.Members[0].Gen = cur
		}
	case 2:
		for i := range in.Members {
			in.Members[i].Owned, in.Members[i].Gen = nil, -1
		}
		for j, k := range all {
			m := &in.Members[j%n]
			addClaim(m, k.t, k.p)
			m.Gen = cur
		}
	case 3:
		setOwned(in, settled(in), cur)
	case 4:
		setOwned(in, settled(in), cur)
		in.Members[n-1].Owned, in.Members[n-1].Gen = nil, -1
	case 5:
		// a member subscribed to everything was part of the settled group and left
		g := cloneInput(in)
		ghost := member{ID: "zzz-ghost", Topics: sortedTopics(in.Counts)}
		g.Members = append(g.Members, ghost)
		p := settled(g)
		delete(p, ghost.ID)
		setOwned(in, p, cur)
	case 6:
		for i := range in.Members {
			in.Members[i].Owned, in.Members[i].Gen = nil, -1
		}
		for _, k := range all {
			if o := rng.IntN(n + 1); o < n {
				addClaim(&in.Members[o], k.t, k.p)
				in.Members[o].Gen = cur
			}
		}
	case 7:
		applyPattern(in, 3+3*rng.IntN(2), rng) // settled or random-owner
		z := &in.Members[rng.IntN(n)]
		z.Owned, z.Gen = nil, cur-1-int32(rng.IntN(3))
		for _, k := range all {
			if rng.IntN(2) == 0 {
				addClaim(z, k.t, k.p)
			}
		}
	case 8:
		setOwned(in, settled(in), cur)
		z := &in.Members[rng.IntN(n)]
		for _, k := range all {
			if rng.IntN(3) == 0 {
				addClaim(z, k.t, k.p)
				z.Gen = cur
			}
		}
	case 9:
		setOwned(in, settled(in), cur)
		for i := range in.Members {
			if in.Members[i].Owned != nil {
				in.Members[i].Gen = cur - int32(rng.IntN(3))
			}
		}
	case 10:
		applyPattern(in, 6, rng)
		for i := range in.Members {
			m := &in.Members[i]
			switch rng.IntN(5) {
			case 0:
				addClaim(m, "nonexistent", int32(rng.IntN(3)))
			case 1:
				if len(all) > 0 {
					k := all[rng.IntN(len(all))]
					addClaim(m, k.t, in.Counts[k.t]+int32(rng.IntN(3)))
				}
			case 2:
				if len(all) > 0 {
					addClaim(m, all[rng.IntN(len(all))].t, -1-int32(rng.IntN(2)))
				}
			case 3:
				if len(all) > 0 { // a topic the member may not subscribe to
					k := all[rng.IntN(len(all))]
					addClaim(m, k.t, k.p)
				}
			}
			if m.Owned != nil && m.Gen < 0 {
				m.Gen = cur - int32(rng.IntN(2))
			}
		}
	case 11:
		setOwned(in, settled(in), cur)
		ts := sortedTopics(in.Counts)
		if len(ts) > 0 {
			m := &in.Members[rng.IntN(n)]
			t := ts[rng.IntN(len(ts))]
			has := -1
			for i, x := range m.Topics {
				if x == t {
					has = i
				}
			}
			if has >= 0 {
				m.Topics = append(m.Topics[:has:has], m.Topics[has+1:]...)
				// the topic keeps its count only while someone subscribes
				still := false
				for i := range in.Members {
					for _, x := range in.Members[i].Topics {
						still = still || x == t
					}
				}
				if !still {
					delete(in.Counts, t)
				}
			} else {
				m.Topics = append(m.Topics, t)
				sort.Strings(m.Topics)
			}
		}
	case 12:
		setOwned(in, settled(in), cur)
		ts := sortedTopics(in.Counts)
		if len(ts) > 0 {
			in.Counts[ts[rng.IntN(len(ts))]] += 1 + int32(rng.IntN(2))
		}
	}
}

var rackNames = []string{"", "ra", "rb", "rc"}

// addRacks gives members and partition leaders racks.
func addRacks(in *input, rng *rand.Rand) {
	for i := range in.Members {
		in.Members[i].Rack = rackNames[rng.IntN(len(rackNames))]
	}
	in.PRacks = map[string][]string{}
	for t, n := range in.Counts {
		rs := make([]string, n)
		for i := range rs {
			rs[i] = rackNames[rng.IntN(len(rackNames))]
		}
		if rng.IntN(8) == 0 && n > 1 {
			rs = rs[:n-1] // shorter than the topic: the tail has no rack
		}
		in.PRacks[t] = rs
	}
}

// ---- large random groups ----

// randomLarge builds a group of up to maxM members / maxP partitions. The
// size is log-uniform so that small, medium and large groups all appear.
func randomLarge(rng *rand.Rand, maxM, maxP int) *input {
	logU := func(lo, hi int) int {
		if hi <= lo {
			return lo
		}
		// pick a magnitude, then uniformly inside it
		span := hi - lo + 1
		bits := 0
		for 1<<uint(bits) < span {
			bits++
		}
		b := rng.IntN(bits) + 1
		v := rng.IntN(1 << uint(b))
		if v >= span {
			v = span - 1
		}
		return lo + v
	}
	m := logU(2, maxM)
	k := logU(1, 24)
	total := logU(m/2+1, maxP)
	in := &input{Counts: map[string]int32{}}
	counts := make([]int32, k)
	for i := range counts {
		counts[i] = 1
	}
	for left := total - k; left > 0; {
		i := rng.IntN(k)
		add := 1 + rng.IntN(left)
		if rng.IntN(3) > 0 {
			add = 1 + rng.IntN(1+left/k)
		}
		counts[i] += int32(add)
		left -= add
	}
	style := rng.IntN(5)
	ids := make([]string, m)
	for i := range ids {
		if style%2 == 0 {
			ids[i] = memberName(i)
		} else {
			ids[i] = fmt.Sprintf("c-%08x-%d", rng.Uint32(), i)
		}
	}
	classes := 1 + rng.IntN(3)
	classSubs := make([][]string, classes)
	for c := range classSubs {
		for t := 0; t < k; t++ {
			if rng.IntN(2) == 0 {
				classSubs[c] = append(classSubs[c], topicName(t))
			}
		}
		if len(classSubs[c]) == 0 {
			classSubs[c] = []string{topicName(rng.IntN(k))}
		}
	}
	for i := 0; i < m; i++ {
		mb := member{ID: ids[i], Gen: -1}
		switch style {
		case 0: // everyone subscribes to everything
			for t := 0; t < k; t++ {
				mb.Topics = append(mb.Topics, topicName(t))
			}
		case 1, 2: // a few subscription classes
			mb.Topics = append(mb.Topics, classSubs[rng.IntN(classes)]...)
		case 3: // independent random subsets
			for t := 0; t < k; t++ {
				if rng.IntN(3) > 0 {
					mb.Topics = append(mb.Topics, topicName(t))
				}
			}
		case 4: // sparse: one or two topics each, sometimes none
			for j := rng.IntN(3); j > 0; j-- {
				t := topicName(rng.IntN(k))
				dup := false
				for _, x := range mb.Topics {
					dup = dup || x == t
				}
				if !dup {
					mb.Topics = append(mb.Topics, t)
				}
			}
		}
		sort.Strings(mb.Topics)
		if rng.IntN(6) == 0 {
			mb.Inst = fmt.Sprintf("inst-%d", rng.IntN(1000000))
		}
		in.Members = append(in.Members, mb)
	}
	for i := range in.Members {
		for _, t := range in.Members[i].Topics {
			var idx int
			fmt.Sscanf(t, "t%d", &idx)
			in.Counts[t] = counts[idx]
		}
	}
	if rng.IntN(12) == 0 { // a subscribed topic that does not exist
		x := rng.IntN(m)
		in.Members[x].Topics = append(in.Members[x].Topics, "zz-missing")
	}
	return in
}
