// kfake's server-side KIP-848 assignors ("uniform", "range") observed through
// the protocol: raw ConsumerGroupHeartbeat joins / leaves / subscription
// changes and topic administration against a kfake cluster, the target
// assignment of every member read back with ConsumerGroupDescribe after each
// step and judged by the same validity oracle as the client-side balancers.
package c25

import (
	"context"
	"fmt"
	"math/rand/v2"
	"sort"
	"strings"
	"time"

	"github.com/twmb/franz-go/pkg/kadm"
	"github.com/twmb/franz-go/pkg/kerr"
	"github.com/twmb/franz-go/pkg/kfake"
	"github.com/twmb/franz-go/pkg/kgo"
	"github.com/twmb/franz-go/pkg/kmsg"

	"verifharness/internal/vh"
)

type kfMember struct {
	id     string
	epoch  int32
	topics []string
	owned  []kmsg.ConsumerGroupHeartbeatRequestTopic
}

type kfScript struct {
	r        *vh.Run
	cl       *kgo.Client
	adm      *kadm.Client
	group    string
	prefix   string
	assignor string
	members  map[string]*kfMember
	topics   map[string]bool // topics this script created and that exist
	steps    []string
	hadPrior bool
	deleted  bool // a DeleteTopics step happened
}

func (s *kfScript) ctx() (context.Context, context.CancelFunc) {
	return context.WithTimeout(context.Background(), 20*time.Second)
}

// heartbeat sends one ConsumerGroupHeartbeat; it returns false if the script cannot go on.
func (s *kfScript) heartbeat(m *kfMember, epoch int32, subs []string, full bool) bool {
	req := kmsg.NewPtrConsumerGroupHeartbeatRequest()
	req.Group = s.group
	req.MemberID = m.id
	req.MemberEpoch = epoch
	if epoch == 0 || full {
		req.RebalanceTimeoutMillis = 60000
		req.SubscribedTopicNames = append([]string{}, subs...)
		a := s.assignor
		req.ServerAssignor = &a
		req.Topics = []kmsg.ConsumerGroupHeartbeatRequestTopic{}
		if epoch != 0 {
			req.Topics = append(req.Topics, m.owned...)
		}
	} else {
		req.RebalanceTimeoutMillis = -1
	}
	ctx, cancel := s.ctx()
	defer cancel()
	resp, err := req.RequestWith(ctx, s.cl)
	if err != nil {
		s.r.Count("kfake_request_failed", 1)
		s.r.Inconclusive(fmt.Sprintf("kfake heartbeat request failed: %v", err))
		return false
	}
	if resp.ErrorCode != 0 {
		s.r.Count("kfake_heartbeat_error_"+kerr.ErrorForCode(resp.ErrorCode).Error(), 1)
		return false
	}
	if epoch == -1 {
		return true
	}
	if resp.MemberID != nil {
		m.id = *resp.MemberID
	}
	m.epoch = resp.MemberEpoch
	if resp.Assignment != nil {
		m.owned = m.owned[:0]
		for _, t := range resp.Assignment.Topics {
			ot := kmsg.NewConsumerGroupHeartbeatRequestTopic()
			ot.TopicID = t.TopicID
			ot.Partitions = append([]int32(nil), t.Partitions...)
			m.owned = append(m.owned, ot)
		}
	}
	return true
}

// observe reads topic metadata and every member's target assignment and judges it.
func (s *kfScript) observe(step string) bool {
	ctx, cancel := s.ctx()
	defer cancel()
	names := make([]string, 0, len(s.topics))
	for t := range s.topics {
		names = append(names, t)
	}
	byID := map[[16]byte]string{}
	counts := map[string]int32{}
	if len(names) > 0 {
		// a raw, uncached metadata request (kadm's ListTopics answers from the client's cache)
		mreq := kmsg.NewPtrMetadataRequest()
		for _, n := range names {
			rt := kmsg.NewMetadataRequestTopic()
			rt.Topic = kmsg.StringPtr(n)
			mreq.Topics = append(mreq.Topics, rt)
		}
		mresp, err := mreq.RequestWith(ctx, s.cl)
		if err != nil {
			s.r.Inconclusive(fmt.Sprintf("kfake metadata failed: %v", err))
			return false
		}
		for _, t := range mresp.Topics {
			if t.ErrorCode != 0 || t.Topic == nil {
				continue
			}
			byID[t.TopicID] = *t.Topic
			counts[*t.Topic] = int32(len(t.Partitions))
		}
		for _, n := range names {
			if _, ok := counts[n]; !ok {
				s.r.Count("kfake_model_mismatch_topic_missing", 1)
				return false
			}
		}
	}
	dreq := kmsg.NewPtrConsumerGroupDescribeRequest()
	dreq.Groups = []string{s.group}
	dresp, err := dreq.RequestWith(ctx, s.cl)
	if err != nil || len(dresp.Groups) != 1 {
		s.r.Inconclusive(fmt.Sprintf("kfake describe failed: %v", err))
		return false
	}
	g := dresp.Groups[0]
	if g.ErrorCode != 0 {
		if len(s.members) == 0 {
			return true // an empty group may be gone
		}
		s.r.Count("kfake_describe_error_"+kerr.ErrorForCode(g.ErrorCode).Error(), 1)
		return false
	}
	in := &input{Balancer: "kfake-" + s.assignor, Counts: map[string]int32{}}
	p := plan{}
	var unknownIDs []string
	seen := map[string]bool{}
	for _, dm := range g.Members {
		mm, ok := s.members[dm.MemberID]
		if !ok {
			s.r.Count("kfake_model_mismatch_unknown_member", 1)
			return false
		}
		got := append([]string(nil), dm.SubscribedTopics...)
		sort.Strings(got)
		want := append([]string(nil), mm.topics...)
		sort.Strings(want)
		if strings.Join(got, ",") != strings.Join(want, ",") {
			s.r.Count("kfake_model_mismatch_subscription", 1)
			return false
		}
		seen[dm.MemberID] = true
		in.Members = append(in.Members, member{ID: dm.MemberID, Topics: want, Gen: dm.MemberEpoch})
		p[dm.MemberID] = map[string][]int32{}
		for _, tpn := range dm.TargetAssignment.TopicPartitions {
			name, ok := byID[tpn.TopicID]
			if !ok {
				unknownIDs = append(unknownIDs, fmt.Sprintf("%s: topic id %x partitions %v", dm.MemberID, tpn.TopicID, tpn.Partitions))
				continue
			}
			p[dm.MemberID][name] = append(p[dm.MemberID][name], tpn.Partitions...)
		}
	}
	if len(seen) != len(s.members) {
		s.r.Count("kfake_model_mismatch_member_missing", 1)
		return false
	}
	sort.Slice(in.Members, func(a, b int) bool { return in.Members[a].ID < in.Members[b].ID })
	for i := range in.Members {
		for _, t := range in.Members[i].Topics {
			if n, ok := counts[t]; ok {
				in.Counts[t] = n
			}
		}
	}
	if len(in.Members) == 0 {
		return true
	}
	s.r.Eval(1)
	s.r.Count("kfake_targets_judged_"+s.assignor, 1)
	if (nonTrivial(in) || s.hadPrior) && len(in.Members) >= 1 {
		s.r.DistinctHash("kfake", s.assignor, canon(&input{Members: stripGen(in.Members), Counts: in.Counts}), s.hadPrior)
	}
	s.hadPrior = true
	det := map[string]any{"assignor": s.assignor, "steps": s.steps, "members": in.Members, "partition_counts": in.Counts, "target_assignment": p}
	if len(unknownIDs) > 0 {
		det["unknown"] = unknownIDs
		if s.deleted {
			// keep judging the rest of the target: the script goes on
			s.r.Count("kfake_target_names_deleted_topic", 1)
			s.r.Violation("kfake: target assignment still names a deleted topic after DeleteTopics", det)
		} else {
			s.r.Violation("kfake "+s.assignor+": target assignment names a topic that does not exist", det)
			return false
		}
	}
	v := checkValid(in, p)
	if len(v.problems) > 0 {
		det["problems"] = head(v.problems, 10)
		s.r.Violation("kfake "+s.assignor+": "+problemClass(v.problems[0]), det)
		return false
	}
	if len(v.unassigned) > 0 {
		det["unassigned"] = fmt.Sprint(v.unassigned)
		s.r.Violation("kfake "+s.assignor+": partition of a subscribed topic left out of the target assignment", det)
		return false
	}
	return true
}

func stripGen(ms []member) []member {
	out := make([]member, len(ms))
	for i, m := range ms {
		out[i] = member{Topics: m.Topics}
	}
	return out
}

func (s *kfScript) pickSubs(rng *rand.Rand, k int) []string {
	var subs []string
	for t := 0; t < k; t++ {
		if rng.IntN(3) > 0 {
			subs = append(subs, fmt.Sprintf("%s-t%d", s.prefix, t))
		}
	}
	if len(subs) == 0 {
		subs = []string{fmt.Sprintf("%s-t%d", s.prefix, rng.IntN(k))}
	}
	return subs
}

func (s *kfScript) run(rng *rand.Rand) {
	k := 1 + rng.IntN(3) // topic name space t0..t(k-1), plus one created later
	ctx, cancel := context.WithTimeout(context.Background(), 60*time.Second)
	defer cancel()
	for t := 0; t < k; t++ {
		if t == k-1 && rng.IntN(3) == 0 {
			continue // subscribed to but created later (or never)
		}
		name := fmt.Sprintf("%s-t%d", s.prefix, t)
		if _, err := s.adm.CreateTopic(ctx, int32(1+rng.IntN(6)), 1, nil, name); err != nil {
			s.r.Inconclusive(fmt.Sprintf("kfake create topic: %v", err))
			return
		}
		s.topics[name] = true
	}
	defer func() {
		ctx, cancel := context.WithTimeout(context.Background(), 20*time.Second)
		defer cancel()
		for _, m := range s.members {
			s.heartbeat(m, -1, nil, false)
		}
		for t := range s.topics {
			s.adm.DeleteTopic(ctx, t)
		}
	}()
	nSteps := 5 + rng.IntN(10)
	nextMember := 0
	for st := 0; st < nSteps; st++ {
		ids := make([]string, 0, len(s.members))
		for id := range s.members {
			ids = append(ids, id)
		}
		sort.Strings(ids)
		op := rng.IntN(8)
		if len(ids) == 0 || (len(ids) < 2 && st < 2) {
			op = 0
		}
		var what string
		switch op {
		case 0, 1: // join
			m := &kfMember{id: fmt.Sprintf("%s-m%02d", s.prefix, nextMember), topics: s.pickSubs(rng, k)}
			nextMember++
			what = fmt.Sprintf("join %s %v", m.id, m.topics)
			s.steps = append(s.steps, what)
			if !s.heartbeat(m, 0, m.topics, true) {
				return
			}
			s.members[m.id] = m
		case 2: // leave
			m := s.members[ids[rng.IntN(len(ids))]]
			what = "leave " + m.id
			s.steps = append(s.steps, what)
			if !s.heartbeat(m, -1, nil, false) {
				return
			}
			delete(s.members, m.id)
		case 3: // new subscription by rejoining at epoch 0
			m := s.members[ids[rng.IntN(len(ids))]]
			subs := s.pickSubs(rng, k)
			what = fmt.Sprintf("rejoin %s %v", m.id, subs)
			s.steps = append(s.steps, what)
			if !s.heartbeat(m, 0, subs, true) {
				return
			}
			m.topics = subs
		case 4: // new subscription in a full heartbeat at the member's epoch
			m := s.members[ids[rng.IntN(len(ids))]]
			subs := s.pickSubs(rng, k)
			what = fmt.Sprintf("resubscribe %s %v", m.id, subs)
			s.steps = append(s.steps, what)
			if !s.heartbeat(m, m.epoch, subs, true) {
				return
			}
			m.topics = subs
		case 5: // partitions added
			var ex []string
			for t := range s.topics {
				ex = append(ex, t)
			}
			if len(ex) == 0 {
				continue
			}
			sort.Strings(ex)
			t := ex[rng.IntN(len(ex))]
			add := 1 + rng.IntN(3)
			what = fmt.Sprintf("add %d partitions to %s", add, t)
			s.steps = append(s.steps, what)
			resp, err := s.adm.CreatePartitions(ctx, add, t)
			if err != nil || resp.Error() != nil {
				s.r.Count("kfake_admin_error", 1)
				return
			}
		case 6: // a missing topic appears
			var missing []string
			for t := 0; t < k; t++ {
				if n := fmt.Sprintf("%s-t%d", s.prefix, t); !s.topics[n] {
					missing = append(missing, n)
				}
			}
			if len(missing) == 0 {
				continue
			}
			t := missing[rng.IntN(len(missing))]
			what = "create " + t
			s.steps = append(s.steps, what)
			if _, err := s.adm.CreateTopic(ctx, int32(1+rng.IntN(6)), 1, nil, t); err != nil {
				s.r.Count("kfake_admin_error", 1)
				return
			}
			s.topics[t] = true
		case 7: // a topic is deleted
			var ex []string
			for t := range s.topics {
				ex = append(ex, t)
			}
			if len(ex) == 0 {
				continue
			}
			sort.Strings(ex)
			t := ex[rng.IntN(len(ex))]
			what = "delete " + t
			s.steps = append(s.steps, what)
			if _, err := s.adm.DeleteTopic(ctx, t); err != nil {
				s.r.Count("kfake_admin_error", 1)
				return
			}
			delete(s.topics, t)
			s.deleted = true
		}
		s.r.Count("kfake_step_"+strings.Fields(what)[0], 1)
		if !s.observe(what) {
			return
		}
		// an occasional keepalive so that members also move through reconciliation
		if rng.IntN(3) == 0 && len(s.members) > 0 {
			for _, id := range ids {
				if m, ok := s.members[id]; ok && rng.IntN(2) == 0 {
					if !s.heartbeat(m, m.epoch, m.topics, true) {
						return
					}
				}
			}
			if !s.observe("heartbeats") {
				return
			}
		}
	}
}

func kfakeValidity(r *vh.Run) {
	nScripts := r.Pick(400, 20000)
	workers := 8
	per := (nScripts + workers - 1) / workers
	vh.Parallel(workers, workers, func(w int) {
		var c *kfake.Cluster
		var cl *kgo.Client
		open := func() bool {
			var err error
			c, err = kfake.NewCluster(kfake.NumBrokers(1))
			if err != nil {
				r.Inconclusive(fmt.Sprintf("kfake.NewCluster: %v", err))
				return false
			}
			cl, err = kgo.NewClient(kgo.SeedBrokers(c.ListenAddrs()...), kgo.RequestRetries(2))
			if err != nil {
				c.Close()
				r.Inconclusive(fmt.Sprintf("kgo.NewClient: %v", err))
				return false
			}
			return true
		}
		closeAll := func() {
			cl.Close()
			c.Close()
		}
		if !open() {
			return
		}
		defer func() { closeAll() }()
		for i := 0; i < per; i++ {
			idx := w*per + i
			if idx >= nScripts {
				break
			}
			if i > 0 && i%100 == 0 { // fresh cluster now and then
				closeAll()
				if !open() {
					return
				}
			}
			rng := r.Rand("kfake-script", idx)
			s := &kfScript{
				r: r, cl: cl, adm: kadm.NewClient(cl),
				group:    fmt.Sprintf("g%d", idx),
				prefix:   fmt.Sprintf("s%d", idx),
				assignor: []string{"uniform", "range"}[rng.IntN(2)],
				members:  map[string]*kfMember{},
				topics:   map[string]bool{},
			}
			if p := vh.Catch(func() { s.run(rng) }); p != nil {
				r.Inconclusive(fmt.Sprintf("kfake script panicked in the harness: %v", p))
			}
			r.Count("kfake_scripts", 1)
		}
	})
}
