// Shared model for C25 / C26 / C27: how a balancer input is described, how it
// is turned into JoinGroup metadata and run through the public GroupBalancer
// API, and the three independent oracles (validity, improving-chain search,
// cooperative round simulation).
package c25

import (
	"fmt"
	"sort"
	"strings"

	"github.com/twmb/franz-go/pkg/kgo"
	"github.com/twmb/franz-go/pkg/kmsg"

	"verifharness/internal/vh"
)

// member is one group member as it appears in a JoinGroup response.
type member struct {
	ID     string             `json:"id"`
	Inst   string             `json:"instance,omitempty"`
	Topics []string           `json:"topics"`
	Owned  map[string][]int32 `json:"owned,omitempty"`
	Gen    int32              `json:"gen"`
	Rack   string             `json:"rack,omitempty"`
}

// input is everything a leader sees when it balances.
type input struct {
	Balancer string              `json:"balancer"`
	Members  []member            `json:"members"`
	Counts   map[string]int32    `json:"partition_counts"`
	PRacks   map[string][]string `json:"partition_racks,omitempty"`
}

type tp struct {
	t string
	p int32
}

func (x tp) String() string { return fmt.Sprintf("%s/%d", x.t, x.p) }

type plan map[string]map[string][]int32 // member => topic => partitions

func balancerByName(name string) kgo.GroupBalancer {
	switch name {
	case "range":
		return kgo.RangeBalancer()
	case "roundrobin":
		return kgo.RoundRobinBalancer()
	case "sticky":
		return kgo.StickyBalancer()
	case "cooperative-sticky":
		return kgo.CooperativeStickyBalancer()
	}
	panic("unknown balancer " + name)
}

func sortedCopy(ps []int32) []int32 {
	c := append([]int32(nil), ps...)
	sort.Slice(c, func(i, j int) bool { return c[i] < c[j] })
	return c
}

// joinMembers builds the JoinGroup response member list exactly as a client
// would have sent it: JoinGroupMetadata(sorted topics, sorted owned,
// generation), the rack injected the way joinGroupProtocols does, sorted by
// instance id then member id as balanceGroup does.
func joinMembers(bal kgo.GroupBalancer, in *input) []kmsg.JoinGroupResponseMember {
	ms := make([]kmsg.JoinGroupResponseMember, 0, len(in.Members))
	for i := range in.Members {
		m := &in.Members[i]
		topics := append([]string(nil), m.Topics...)
		sort.Strings(topics)
		owned := make(map[string][]int32, len(m.Owned))
		for t, ps := range m.Owned {
			owned[t] = sortedCopy(ps)
		}
		meta := bal.JoinGroupMetadata(topics, owned, m.Gen)
		if m.Rack != "" {
			var cm kmsg.ConsumerMemberMetadata
			if err := cm.ReadFrom(meta); err != nil {
				panic(fmt.Sprintf("harness: own metadata unreadable: %v", err))
			}
			rack := m.Rack
			cm.Rack = &rack
			if cm.Version < 3 {
				cm.Version = 3
			}
			meta = cm.AppendTo(nil)
		}
		jm := kmsg.NewJoinGroupResponseMember()
		jm.MemberID = m.ID
		if m.Inst != "" {
			inst := m.Inst
			jm.InstanceID = &inst
		}
		jm.ProtocolMetadata = meta
		ms = append(ms, jm)
	}
	sort.SliceStable(ms, func(i, j int) bool {
		l, r := &ms[i], &ms[j]
		if l.InstanceID != nil {
			if r.InstanceID == nil {
				return true
			}
			return *l.InstanceID < *r.InstanceID
		}
		if r.InstanceID != nil {
			return false
		}
		return l.MemberID < r.MemberID
	})
	return ms
}

// runBalancer drives one balance through the public API and returns what each
// member would decode from its SyncGroup response.
func runBalancer(in *input) (p plan, err error) {
	bal := balancerByName(in.Balancer)
	ms := joinMembers(bal, in)
	var into kgo.IntoSyncAssignment
	if pv := vh.Catch(func() {
		mb, topics, e := bal.MemberBalancer(ms)
		if e != nil {
			err = fmt.Errorf("MemberBalancer: %v", e)
			return
		}
		// the leader passes partition counts for the topics the members
		// named and that exist
		counts := make(map[string]int32, len(topics))
		for t := range topics {
			if n, ok := in.Counts[t]; ok {
				counts[t] = n
			}
		}
		if cb, ok := mb.(*kgo.ConsumerBalancer); ok && in.PRacks != nil {
			cb.VerifSetPartitionRacks(in.PRacks)
		}
		if be, ok := mb.(kgo.GroupMemberBalancerOrError); ok {
			into, e = be.BalanceOrError(counts)
			if e != nil {
				err = fmt.Errorf("BalanceOrError: %v", e)
				return
			}
		} else {
			into = mb.Balance(counts)
		}
	}); pv != nil {
		return nil, fmt.Errorf("panic: %v", pv)
	}
	if err != nil {
		return nil, err
	}
	if into == nil {
		return nil, fmt.Errorf("nil plan")
	}
	p = make(plan, len(in.Members))
	for _, a := range into.IntoSyncAssignment() {
		got, e := bal.ParseSyncAssignment(a.MemberAssignment)
		if e != nil {
			return nil, fmt.Errorf("ParseSyncAssignment(%s): %v", a.MemberID, e)
		}
		if _, dup := p[a.MemberID]; dup {
			return nil, fmt.Errorf("member %s appears twice in the sync assignment", a.MemberID)
		}
		p[a.MemberID] = got
	}
	return p, nil
}

// ---- C25 oracle ----

type validity struct {
	problems   []string // anything that makes the plan invalid outright
	unassigned []tp     // partitions of subscribed topics that nobody got
	total      int      // partitions that had to be assigned
}

func subscribersOf(in *input) map[string]map[string]bool {
	subs := map[string]map[string]bool{}
	for i := range in.Members {
		for _, t := range in.Members[i].Topics {
			if subs[t] == nil {
				subs[t] = map[string]bool{}
			}
			subs[t][in.Members[i].ID] = true
		}
	}
	return subs
}

// checkValid judges a plan: every partition of every subscribed, existing
// topic to exactly one subscribed member, nothing else.
func checkValid(in *input, p plan) validity {
	var v validity
	subs := subscribersOf(in)
	known := map[string]bool{}
	for i := range in.Members {
		known[in.Members[i].ID] = true
	}
	owner := map[tp]string{}
	mids := make([]string, 0, len(p))
	for mid := range p {
		mids = append(mids, mid)
	}
	sort.Strings(mids)
	for _, mid := range mids {
		if !known[mid] {
			v.problems = append(v.problems, fmt.Sprintf("plan names unknown member %q", mid))
			continue
		}
		for t, ps := range p[mid] {
			n, exists := in.Counts[t]
			for _, pn := range ps {
				switch {
				case !exists:
					v.problems = append(v.problems, fmt.Sprintf("%s got %s/%d: topic has no partition count", mid, t, pn))
				case !subs[t][mid]:
					v.problems = append(v.problems, fmt.Sprintf("%s got %s/%d but does not subscribe to %s", mid, t, pn, t))
				case pn < 0 || pn >= n:
					v.problems = append(v.problems, fmt.Sprintf("%s got %s/%d: topic has %d partitions", mid, t, pn, n))
				default:
					k := tp{t, pn}
					if prev, dup := owner[k]; dup {
						v.problems = append(v.problems, fmt.Sprintf("%s assigned to both %s and %s", k, prev, mid))
					}
					owner[k] = mid
				}
			}
		}
	}
	ts := make([]string, 0, len(in.Counts))
	for t := range in.Counts {
		ts = append(ts, t)
	}
	sort.Strings(ts)
	for _, t := range ts {
		if len(subs[t]) == 0 {
			continue
		}
		for pn := int32(0); pn < in.Counts[t]; pn++ {
			v.total++
			if _, ok := owner[tp{t, pn}]; !ok {
				v.unassigned = append(v.unassigned, tp{t, pn})
			}
		}
	}
	return v
}

// claim info over one round's metadata
type claims struct {
	by     map[tp][]int // partition => indexes of members claiming it
	maxGen map[tp]int32
	grpGen int32 // highest generation among members that claim anything
	any    bool
}

func claimsOf(in *input) claims {
	c := claims{by: map[tp][]int{}, maxGen: map[tp]int32{}}
	for i := range in.Members {
		m := &in.Members[i]
		for t, ps := range m.Owned {
			for _, pn := range ps {
				k := tp{t, pn}
				c.by[k] = append(c.by[k], i)
				if g, ok := c.maxGen[k]; !ok || m.Gen > g {
					c.maxGen[k] = m.Gen
				}
				if !c.any || m.Gen > c.grpGen {
					c.grpGen = m.Gen
				}
				c.any = true
			}
		}
	}
	return c
}

// ---- C26 oracle ----

// improvingChain searches for a member M and a member N with
// count(N) <= count(M)-2 such that one partition can be handed M -> ... -> N,
// each hand-over being a partition of a topic the receiver subscribes to.
// It returns a description of the chain, or "" when the plan is optimal.
func improvingChain(in *input, p plan) string {
	n := len(in.Members)
	idx := make(map[string]int, n)
	for i := range in.Members {
		idx[in.Members[i].ID] = i
	}
	count := make([]int, n)
	holds := make([][]string, n) // topics of which the member holds >= 1 partition
	for mid, tps := range p {
		i, ok := idx[mid]
		if !ok {
			continue
		}
		for t, ps := range tps {
			if _, exists := in.Counts[t]; !exists || len(ps) == 0 {
				continue
			}
			count[i] += len(ps)
			holds[i] = append(holds[i], t)
		}
		sort.Strings(holds[i])
	}
	subsOf := map[string][]int{}
	for i := range in.Members {
		for _, t := range in.Members[i].Topics {
			subsOf[t] = append(subsOf[t], i)
		}
	}
	minC := -1
	for _, c := range count {
		if minC < 0 || c < minC {
			minC = c
		}
	}
	type from struct {
		prev  int
		topic string
	}
	for src := 0; src < n; src++ {
		if count[src] < minC+2 {
			continue
		}
		par := make(map[int]from, n)
		par[src] = from{-1, ""}
		seenT := map[string]bool{}
		q := []int{src}
		for len(q) > 0 {
			a := q[0]
			q = q[1:]
			for _, t := range holds[a] {
				if seenT[t] {
					continue // every subscriber of t was already enqueued
				}
				seenT[t] = true
				for _, b := range subsOf[t] {
					if _, ok := par[b]; ok {
						continue
					}
					par[b] = from{a, t}
					if count[b] <= count[src]-2 {
						var steps []string
						for x := b; par[x].prev >= 0; x = par[x].prev {
							steps = append(steps, fmt.Sprintf("%s -[%s]-> %s", in.Members[par[x].prev].ID, par[x].topic, in.Members[x].ID))
						}
						for l, r := 0, len(steps)-1; l < r; l, r = l+1, r-1 {
							steps[l], steps[r] = steps[r], steps[l]
						}
						return fmt.Sprintf("%s holds %d, %s holds %d; chain: %s", in.Members[src].ID, count[src], in.Members[b].ID, count[b], strings.Join(steps, ", "))
					}
					q = append(q, b)
				}
			}
		}
	}
	return ""
}

// ownedAsPlan is the members' claims read as an assignment.
func ownedAsPlan(in *input) plan {
	p := make(plan, len(in.Members))
	for i := range in.Members {
		m := &in.Members[i]
		p[m.ID] = map[string][]int32{}
		for t, ps := range m.Owned {
			if len(ps) > 0 {
				p[m.ID][t] = sortedCopy(ps)
			}
		}
	}
	return p
}

// priorIsSettled: all claimants at one generation, and the claims form a
// valid and optimally balanced assignment for the current subscriptions.
func priorIsSettled(in *input) bool {
	first := true
	var gen int32
	for i := range in.Members {
		m := &in.Members[i]
		if len(m.Owned) == 0 {
			continue
		}
		if first {
			gen, first = m.Gen, false
		} else if m.Gen != gen {
			return false
		}
	}
	if first {
		return false // nobody owns anything
	}
	prior := ownedAsPlan(in)
	v := checkValid(in, prior)
	if len(v.problems) > 0 || len(v.unassigned) > 0 || v.total == 0 {
		return false
	}
	return improvingChain(in, prior) == ""
}

func planEqual(a, b plan) bool {
	flat := func(p plan) map[tp]string {
		f := map[tp]string{}
		for mid, tps := range p {
			for t, ps := range tps {
				for _, pn := range ps {
					f[tp{t, pn}] = mid
				}
			}
		}
		return f
	}
	fa, fb := flat(a), flat(b)
	if len(fa) != len(fb) {
		return false
	}
	for k, v := range fa {
		if fb[k] != v {
			return false
		}
	}
	return true
}

func planDiff(a, b plan) []string {
	var out []string
	flat := func(p plan) map[tp]string {
		f := map[tp]string{}
		for mid, tps := range p {
			for t, ps := range tps {
				for _, pn := range ps {
					f[tp{t, pn}] = mid
				}
			}
		}
		return f
	}
	fa, fb := flat(a), flat(b)
	for k, v := range fa {
		if fb[k] != v {
			out = append(out, fmt.Sprintf("%s: %s -> %q", k, v, fb[k]))
		}
	}
	for k, v := range fb {
		if _, ok := fa[k]; !ok {
			out = append(out, fmt.Sprintf("%s: (unowned) -> %s", k, v))
		}
	}
	sort.Strings(out)
	if len(out) > 12 {
		out = append(out[:12], fmt.Sprintf("... %d more", len(out)-12))
	}
	return out
}

// canon is the input up to renaming of members: the sorted multiset of
// member descriptors plus partition counts and racks.
func canon(in *input) string {
	ds := make([]string, 0, len(in.Members))
	for i := range in.Members {
		m := &in.Members[i]
		ts := append([]string(nil), m.Topics...)
		sort.Strings(ts)
		var os []string
		for t, ps := range m.Owned {
			os = append(os, fmt.Sprintf("%s%v", t, sortedCopy(ps)))
		}
		sort.Strings(os)
		ds = append(ds, fmt.Sprintf("%v|%v|%d|%s|%v", ts, os, m.Gen, m.Rack, m.Inst != ""))
	}
	sort.Strings(ds)
	var cs []string
	for t, n := range in.Counts {
		cs = append(cs, fmt.Sprintf("%s=%d%v", t, n, in.PRacks[t]))
	}
	sort.Strings(cs)
	return strings.Join(ds, ";") + "#" + strings.Join(cs, ",")
}

// nonTrivial: >= 2 members with different subscriptions, or some prior ownership.
func nonTrivial(in *input) bool {
	for i := range in.Members {
		if len(in.Members[i].Owned) > 0 {
			return true
		}
	}
	if len(in.Members) < 2 {
		return false
	}
	key := func(m *member) string {
		ts := append([]string(nil), m.Topics...)
		sort.Strings(ts)
		return strings.Join(ts, ",")
	}
	k0 := key(&in.Members[0])
	for i := 1; i < len(in.Members); i++ {
		if key(&in.Members[i]) != k0 {
			return true
		}
	}
	return false
}

func cloneInput(in *input) *input {
	c := &input{Balancer: in.Balancer, Counts: map[string]int32{}, Members: make([]member, len(in.Members))}
	for t, n := range in.Counts {
		c.Counts[t] = n
	}
	if in.PRacks != nil {
		c.PRacks = map[string][]string{}
		for t, rs := range in.PRacks {
			c.PRacks[t] = append([]string(nil), rs...)
		}
	}
	for i := range in.Members {
		m := in.Members[i]
		m.Topics = append([]string(nil), m.Topics...)
		if m.Owned != nil {
			o := make(map[string][]int32, len(m.Owned))
			for t, ps := range m.Owned {
				o[t] = append([]int32(nil), ps...)
			}
			m.Owned = o
		}
		c.Members[i] = m
	}
	return c
}
