// C28 — partitioners pick valid, Kafka-compatible partitions.
//
// Monitor: every built-in partitioner of pkg/kgo/partitioner.go is driven
// through the public Partitioner / TopicPartitioner / TopicBackupPartitioner /
// TopicPartitionerOnNewBatch interfaces the way producer.go's doPartition
// drives them (pick, optionally OnNewBatch + re-pick, n changing between
// calls), and every returned index is judged: range, equal keys => equal
// partition, and exact agreement with independent reference hashers (Java
// murmur2 + toPositive + mod; Sarama's signed modulo).
package c28

import (
	"fmt"
	"hash/crc32"
	"hash/fnv"
	"math"
	"math/rand/v2"
	"runtime"
	"strconv"
	"sync/atomic"
	"testing"

	"github.com/twmb/franz-go/pkg/kgo"

	"verifharness/internal/vh"
)

// ---------------------------------------------------------------------------
// Independent references.

// urs is Java's >>> on int.
func urs(x int32, s uint) int32 { return int32(uint32(x) >> s) }

// javaMurmur2 is org.apache.kafka.common.utils.Utils.murmur2 transcribed with
// Java's signed 32-bit int semantics (wrapping multiply, & 0xff on bytes, >>>).
func javaMurmur2(data []byte) int32 {
	length := int32(len(data))
	var useed uint32 = 0x9747b28c
	seed := int32(useed)
	const m int32 = 0x5bd1e995
	const r uint = 24
	h := seed ^ length
	length4 := length / 4
	for i := int32(0); i < length4; i++ {
		i4 := i * 4
		k := (int32(data[i4+0]) & 0xff) + ((int32(data[i4+1]) & 0xff) << 8) + ((int32(data[i4+2]) & 0xff) << 16) + ((int32(data[i4+3]) & 0xff) << 24)
		k *= m
		k ^= urs(k, r)
		k *= m
		h *= m
		h ^= k
	}
	base := length & ^int32(3)
	switch length % 4 {
	case 3:
		h ^= (int32(data[base+2]) & 0xff) << 16
		fallthrough
	case 2:
		h ^= (int32(data[base+1]) & 0xff) << 8
		fallthrough
	case 1:
		h ^= int32(data[base]) & 0xff
		h *= m
	}
	h ^= urs(h, 13)
	h *= m
	h ^= urs(h, 15)
	return h
}

// Vectors from Apache Kafka's UtilsTest.testMurmur2 (+ "abc").
var murmurVectors = []struct {
	in   string
	want int32
}{
	{"21", -973932308},
	{"foobar", -790332482},
	{"a-little-bit-long-string", -985981536},
	{"a-little-bit-longer-string", -1486304829},
	{"lkjh234lh9fiuh90y23oiuhsafujhadof229phr9h19h89h8", -58897971},
	{"abc", 479470107},
}

// refKafka: Java's BuiltInPartitioner.partitionForKey / DefaultPartitioner:
// Utils.toPositive(Utils.murmur2(key)) % numPartitions.
func refKafka(hash int32, n int) int {
	toPositive := int64(hash & 0x7fffffff)
	return int(toPositive % int64(n))
}

// refSaramaCompat: Sarama's hashPartitioner default branch
// (partition = int32(hash) % numPartitions; if partition < 0 { partition = -partition }).
// Go's % truncates toward zero, so the result is |int32(hash)| mod n computed in
// wide arithmetic.
func refSaramaCompat(hash uint32, n int) int {
	s := int64(int32(hash))
	if s < 0 {
		s = -s
	}
	return int(s % int64(n))
}

func fnv32a(b []byte) uint32 {
	h := fnv.New32a()
	h.Write(b)
	return h.Sum32()
}

// rawBE reads the hash straight from the first four key bytes, so the harness
// can steer a hasher to any 32-bit hash value.
func rawBE(b []byte) uint32 {
	var x uint32
	for i := 0; i < 4 && i < len(b); i++ {
		x = x<<8 | uint32(b[i])
	}
	return x
}

func refFnv32a(b []byte) uint32 { // FNV-1a written out (not hash/fnv)
	h := uint32(2166136261)
	for _, c := range b {
		h ^= uint32(c)
		h *= 16777619
	}
	return h
}

// ---------------------------------------------------------------------------
// Partitioner specs.

type spec struct {
	name   string
	mk     func() kgo.Partitioner
	keyed  bool                        // non-nil keys are hashed consistently
	ref    func(key []byte, n int) int // expected partition for a non-nil key (nil: only equality judged)
	exact  string                      // counter name for exact matches
	backup bool                        // implements TopicBackupPartitioner (cap n: it may scan all n)
	manual bool
	basic  bool
}

func basicFn(topic string) func(*kgo.Record, int) int {
	return func(r *kgo.Record, n int) int { return (len(r.Value)*31 + len(topic)) % n }
}

func specs() []spec {
	kafkaRef := func(k []byte, n int) int { return refKafka(javaMurmur2(k), n) }
	kafkaRaw := func(k []byte, n int) int { return refKafka(int32(rawBE(k)), n) }
	kafkaCrc := func(k []byte, n int) int { return refKafka(int32(crc32.ChecksumIEEE(k)), n) }
	scFnv := func(k []byte, n int) int { return refSaramaCompat(refFnv32a(k), n) }
	scRaw := func(k []byte, n int) int { return refSaramaCompat(rawBE(k), n) }
	ss := []spec{
		{name: "Sticky", mk: kgo.StickyPartitioner},
		{name: "StickyKey(nil=murmur2)", mk: func() kgo.Partitioner { return kgo.StickyKeyPartitioner(nil) }, keyed: true, ref: kafkaRef, exact: "kafka_murmur2_exact"},
		{name: "StickyKey(KafkaHasher(raw))", mk: func() kgo.Partitioner { return kgo.StickyKeyPartitioner(kgo.KafkaHasher(rawBE)) }, keyed: true, ref: kafkaRaw, exact: "kafka_hasher_exact"},
		{name: "StickyKey(KafkaHasher(crc32))", mk: func() kgo.Partitioner { return kgo.StickyKeyPartitioner(kgo.KafkaHasher(crc32.ChecksumIEEE)) }, keyed: true, ref: kafkaCrc, exact: "kafka_hasher_exact"},
		{name: "StickyKey(SaramaHasher(fnv32a))", mk: func() kgo.Partitioner { return kgo.StickyKeyPartitioner(kgo.SaramaHasher(fnv32a)) }, keyed: true},
		{name: "StickyKey(SaramaHasher(raw))", mk: func() kgo.Partitioner { return kgo.StickyKeyPartitioner(kgo.SaramaHasher(rawBE)) }, keyed: true},
		{name: "StickyKey(SaramaCompatHasher(fnv32a))", mk: func() kgo.Partitioner { return kgo.StickyKeyPartitioner(kgo.SaramaCompatHasher(fnv32a)) }, keyed: true, ref: scFnv, exact: "sarama_compat_exact"},
		{name: "StickyKey(SaramaCompatHasher(raw))", mk: func() kgo.Partitioner { return kgo.StickyKeyPartitioner(kgo.SaramaCompatHasher(rawBE)) }, keyed: true, ref: scRaw, exact: "sarama_compat_exact"},
		{name: "RoundRobin", mk: kgo.RoundRobinPartitioner},
		{name: "LeastBackup", mk: kgo.LeastBackupPartitioner, backup: true},
		{name: "Manual", mk: kgo.ManualPartitioner, manual: true},
		{name: "BasicConsistent", mk: func() kgo.Partitioner { return kgo.BasicConsistentPartitioner(basicFn) }, basic: true},
	}
	for _, bytes := range []int{1, 64, 1000, 1 << 20} {
		for _, adaptive := range []bool{false, true} {
			ss = append(ss,
				spec{name: fmt.Sprintf("UniformBytes(%d,adaptive=%v,keys=false)", bytes, adaptive), backup: true,
					mk: func() kgo.Partitioner { return kgo.UniformBytesPartitioner(bytes, adaptive, false, nil) }},
				spec{name: fmt.Sprintf("UniformBytes(%d,adaptive=%v,keys=true,nil=murmur2)", bytes, adaptive), backup: true, keyed: true, ref: kafkaRef, exact: "kafka_murmur2_exact",
					mk: func() kgo.Partitioner { return kgo.UniformBytesPartitioner(bytes, adaptive, true, nil) }},
			)
		}
		ss = append(ss, spec{name: fmt.Sprintf("UniformBytes(%d,adaptive=true,keys=true,SaramaCompatHasher(fnv32a))", bytes), backup: true, keyed: true, ref: scFnv, exact: "sarama_compat_exact",
			mk: func() kgo.Partitioner {
				return kgo.UniformBytesPartitioner(bytes, true, true, kgo.SaramaCompatHasher(fnv32a))
			}})
	}
	return ss
}

// ---------------------------------------------------------------------------
// Backup iterator handed to TopicBackupPartitioner: each index of [0,n) once,
// like producer.go's leastBackupInput (descending), or in another order.

type backupIter struct {
	order   []int
	backups func(i int) int64
	pos     int
}

func (b *backupIter) Next() (int, int64) {
	if b.pos >= len(b.order) {
		panic("backupIter.Next called more than n times")
	}
	i := b.order[b.pos]
	b.pos++
	return i, b.backups(i)
}
func (b *backupIter) Rem() int { return len(b.order) - b.pos }

// ---------------------------------------------------------------------------

type failer struct {
	r *vh.Run
	n atomic.Int64
}

func (f *failer) fail(sig string, detail any) {
	f.n.Add(1)
	f.r.Violation(sig, detail)
}

var seqClasses = []string{"const", "grow", "shrink", "saw", "random", "cliff", "one"}

func genSeq(rng *rand.Rand, class string, steps, maxN int) []int {
	seq := make([]int, steps)
	rn := func(hi int) int { return 1 + rng.IntN(hi) }
	switch class {
	case "const":
		n := rn(maxN)
		for i := range seq {
			seq[i] = n
		}
	case "one":
		for i := range seq {
			seq[i] = 1
		}
	case "grow":
		n := rn(3)
		for i := range seq {
			seq[i] = n
			if rng.IntN(3) == 0 && n < maxN {
				n += rn(1 + maxN/steps*3)
				if n > maxN {
					n = maxN
				}
			}
		}
	case "shrink":
		n := maxN - rng.IntN(1+maxN/4)
		for i := range seq {
			seq[i] = n
			if rng.IntN(3) == 0 && n > 1 {
				switch rng.IntN(4) {
				case 0:
					n--
				case 1:
					n = 1 + n/2
				default:
					n -= rng.IntN(1 + n/8)
				}
				if n < 1 {
					n = 1
				}
			}
		}
	case "saw":
		lo, hi := rn(3), rn(maxN)
		if hi < lo {
			lo, hi = hi, lo
		}
		period := 1 + rng.IntN(6)
		for i := range seq {
			if (i/period)%2 == 0 {
				seq[i] = hi
			} else {
				seq[i] = lo
			}
		}
	case "random":
		for i := range seq {
			seq[i] = rn(maxN)
		}
	case "cliff":
		hi := rn(maxN)
		for i := range seq {
			seq[i] = hi
			if rng.IntN(5) == 0 {
				seq[i] = rn(2)
			}
		}
	}
	return seq
}

func genKey(rng *rand.Rand, pool [][]byte) []byte {
	switch rng.IntN(10) {
	case 0, 1:
		return nil
	case 2:
		return []byte{}
	case 3, 4, 5, 6:
		return pool[rng.IntN(len(pool))]
	default:
		return randBytes(rng, rng.IntN(40))
	}
}

func randBytes(rng *rand.Rand, n int) []byte {
	b := make([]byte, n)
	for i := range b {
		b[i] = byte(rng.Uint32())
	}
	return b
}

var boundaryHashes = []uint32{0, 1, 2, 0x7ffffffe, 0x7fffffff, 0x80000000, 0x80000001, 0xfffffffe, 0xffffffff, 0x12345678, 0xdeadbeef}

func be(x uint32) []byte { return []byte{byte(x >> 24), byte(x >> 16), byte(x >> 8), byte(x)} }

type keyN struct {
	key string
	n   int
}

// scenario drives two topic partitioners of one spec over one n-sequence.
func scenario(f *failer, idx int, sp spec, class string) {
	r := f.r
	rng := r.Rand("c28-scenario", idx)
	steps := 30 + rng.IntN(170)
	maxN := []int{4, 8, 64, 1000, 1 << 20}[rng.IntN(5)]
	if sp.backup && maxN > 4096 {
		maxN = 4096
	}
	seq := genSeq(rng, class, steps, maxN)
	pool := make([][]byte, 6)
	for i := range pool {
		pool[i] = randBytes(rng, 1+rng.IntN(24))
	}
	pool[0] = be(boundaryHashes[rng.IntN(len(boundaryHashes))])
	pool[1] = []byte(murmurVectors[rng.IntN(len(murmurVectors))].in)

	var p kgo.Partitioner
	if pn := vh.Catch(func() { p = sp.mk() }); pn != nil || p == nil {
		f.fail(sp.name+": constructor panics or returns nil", fmt.Sprint(pn))
		return
	}
	topics := []string{"t1", "topic-two"}
	tps := make([]kgo.TopicPartitioner, len(topics))
	for i, t := range topics {
		tps[i] = p.ForTopic(t)
		if tps[i] == nil {
			f.fail(sp.name+": ForTopic returns nil", t)
			return
		}
	}
	backupClass := rng.IntN(5)
	iterOrder := rng.IntN(3)
	seenKey := map[keyN]int{}
	prevPick := []int{-1, -1}
	var evals, keyedEvals, exact, shrinkBelowPin, newBatches, manualOOR, sawN2, consistencyChecks int
	var trace []string

	for step, n := range seq {
		ti := rng.IntN(len(tps))
		tp := tps[ti]
		rec := &kgo.Record{Topic: topics[ti], Key: genKey(rng, pool), Value: randBytes(rng, rng.IntN(120))}
		for h := rng.IntN(3); h > 0 && rng.IntN(2) == 0; h-- {
			rec.Headers = append(rec.Headers, kgo.RecordHeader{Key: "h" + strconv.Itoa(h), Value: randBytes(rng, rng.IntN(20))})
		}
		if sp.manual {
			switch rng.IntN(8) {
			case 0:
				rec.Partition = int32(n)
			case 1:
				rec.Partition = -1
			case 2:
				rec.Partition = []int32{math.MaxInt32, math.MinInt32, int32(n) + 1}[rng.IntN(3)]
			default:
				rec.Partition = int32(rng.IntN(n))
			}
		}
		if n >= 2 {
			sawN2++
		}
		if prevPick[ti] >= n && !(sp.keyed && rec.Key != nil) {
			shrinkBelowPin++ // the partition this topic partitioner last chose for an unkeyed record no longer exists
		}
		stepSeed := rng.Uint64()
		backups := func(i int) int64 {
			x := (stepSeed ^ uint64(i)*0x9e3779b97f4a7c15) * 0xbf58476d1ce4e5b9
			x ^= x >> 31
			switch backupClass {
			case 0:
				return 0
			case 1:
				return 7
			case 2:
				return int64(x % 5)
			case 3:
				if x%16 == 0 {
					return int64(x % (1 << 40))
				}
				return int64(x % 100)
			default:
				return int64(i)
			}
		}
		pickOnce := func(phase string) (pick int, ok bool) {
			pn := vh.Catch(func() {
				rc := tp.RequiresConsistency(rec)
				// "Records with equal keys go to the same partition", also while partitions are
				// unavailable: the producer maps a record over the WRITABLE partitions only,
				// unless the partitioner says the record requires consistency. A key-hashing
				// partitioner must therefore say so for every record whose key it hashes - every
				// non-nil key, the empty one included.
				if sp.keyed && rec.Key != nil && !rc {
					f.fail(sp.name+": RequiresConsistency is false for a record whose key is hashed",
						map[string]any{"spec": sp.name, "key": keyStr(rec.Key), "key_len": len(rec.Key), "scenario": idx})
				}
				if sp.keyed && rec.Key != nil {
					consistencyChecks++
				}
				if bp, isBackup := tp.(kgo.TopicBackupPartitioner); isBackup {
					it := &backupIter{order: make([]int, n), backups: backups}
					for i := range it.order {
						switch iterOrder {
						case 0, 1:
							it.order[i] = n - 1 - i // as producer.go's leastBackupInput
						default:
							it.order[i] = i
						}
					}
					pick = bp.PartitionByBackup(rec, n, it)
				} else {
					pick = tp.Partition(rec, n)
				}
			})
			if len(trace) < 400 {
				trace = append(trace, fmt.Sprintf("%d:%s t=%d n=%d key=%s part=%d -> %d", step, phase, ti, n, keyStr(rec.Key), rec.Partition, pick))
			}
			if pn != nil {
				f.fail(sp.name+": panics instead of returning a partition index",
					map[string]any{"spec": sp.name, "class": class, "scenario": idx, "n": n, "key": keyStr(rec.Key), "panic": fmt.Sprint(pn), "trace": tail(trace, 12)})
				return 0, false
			}
			return pick, true
		}
		judge := func(pick int) {
			evals++
			inRange := pick >= 0 && pick < n
			if sp.manual {
				if pick != int(rec.Partition) {
					f.fail("Manual: does not return Record.Partition", map[string]any{"record_partition": rec.Partition, "n": n, "got": pick})
				}
				if rec.Partition < 0 || int(rec.Partition) >= n {
					manualOOR++ // documented: such a record is failed by the producer; the range clause is not judged
					return
				}
			}
			if !inRange {
				f.fail(sp.name+": index out of [0,n)",
					map[string]any{"spec": sp.name, "class": class, "scenario": idx, "step": step, "n": n, "got": pick, "key": keyStr(rec.Key),
						"prev_pick_same_topic": prevPick[ti], "backup_class": backupClass, "trace": tail(trace, 12)})
				return
			}
			if sp.basic {
				if want := basicFn(topics[ti])(rec, n); pick != want {
					f.fail("BasicConsistent: does not return the wrapped function's pick", map[string]any{"n": n, "got": pick, "want": want, "topic": topics[ti]})
				}
			}
			if sp.keyed && rec.Key != nil {
				keyedEvals++
				kn := keyN{string(rec.Key), n}
				if prev, ok := seenKey[kn]; ok && prev != pick {
					f.fail(sp.name+": equal keys went to different partitions at the same n",
						map[string]any{"spec": sp.name, "key": keyStr(rec.Key), "n": n, "first": prev, "now": pick, "scenario": idx})
				}
				seenKey[kn] = pick
				if sp.ref != nil {
					if want := sp.ref(rec.Key, n); want != pick {
						f.fail(sp.name+": partition differs from the reference hasher",
							map[string]any{"spec": sp.name, "key": keyStr(rec.Key), "n": n, "got": pick, "want": want, "scenario": idx})
					} else {
						exact++
					}
				}
			}
		}
		pick, ok := pickOnce("pick")
		if !ok {
			return
		}
		judge(pick)
		pinned := !(sp.keyed && rec.Key != nil) && !sp.manual && !sp.basic
		if pinned {
			prevPick[ti] = pick
		}
		if nb, has := tp.(kgo.TopicPartitionerOnNewBatch); has && rng.IntN(3) == 0 {
			// doPartition: the record would open a new batch -> OnNewBatch, then pick again with the same n
			reps := 1
			if rng.IntN(16) == 0 {
				reps = 2
			}
			for ; reps > 0; reps-- {
				if pn := vh.Catch(nb.OnNewBatch); pn != nil {
					f.fail(sp.name+": OnNewBatch panics", fmt.Sprint(pn))
					return
				}
			}
			newBatches++
			pick, ok = pickOnce("repick")
			if !ok {
				return
			}
			judge(pick)
			if pinned {
				prevPick[ti] = pick
			}
		}
		if f.n.Load() > 50 {
			return
		}
	}
	r.Eval(evals)
	r.Count("picks_keyed", keyedEvals)
	r.Count("requires_consistency_checked_for_keyed_records", consistencyChecks)
	if sp.exact != "" {
		r.Count(sp.exact, exact)
	}
	r.Count("shrunk_below_previous_pick", shrinkBelowPin)
	r.Count("new_batch_repicks", newBatches)
	r.Count("dontcare_manual_out_of_range_record_partition", manualOOR)
	if sawN2 > 0 {
		r.Distinct(sp.name + "|" + class)
	}
	if idx < 400 && (idx%97 == 3) {
		r.Sample(map[string]any{"kind": "scenario", "spec": sp.name, "n_class": class, "steps": len(seq), "trace_head": head(trace, 6)})
	}
}

func keyStr(k []byte) string {
	if k == nil {
		return "nil"
	}
	if len(k) > 24 {
		return fmt.Sprintf("%x..(%d bytes)", k[:24], len(k))
	}
	return fmt.Sprintf("%x", k)
}
func tail(s []string, n int) []string {
	if len(s) > n {
		return s[len(s)-n:]
	}
	return s
}
func head(s []string, n int) []string {
	if len(s) > n {
		return s[:n]
	}
	return s
}

var gridN = func() []int {
	var ns []int
	for n := 1; n <= 70; n++ {
		ns = append(ns, n)
	}
	return append(ns, 100, 127, 128, 255, 256, 1000, 4095, 4096, 65535, 65536, 1<<20, 1<<24+1, math.MaxInt32-1, math.MaxInt32)
}()

// hashGrid judges the hashers directly and through StickyKeyPartitioner over
// steered hash values x a grid of n.
func hashGrid(f *failer) {
	r := f.r
	type hs struct {
		name   string
		h      kgo.PartitionerHasher
		ref    func(uint32, int) int
		viaKey kgo.TopicPartitioner
	}
	hashers := []hs{
		{"KafkaHasher", kgo.KafkaHasher(rawBE), func(h uint32, n int) int { return refKafka(int32(h), n) }, kgo.StickyKeyPartitioner(kgo.KafkaHasher(rawBE)).ForTopic("t")},
		{"SaramaCompatHasher", kgo.SaramaCompatHasher(rawBE), refSaramaCompat, kgo.StickyKeyPartitioner(kgo.SaramaCompatHasher(rawBE)).ForTopic("t")},
		{"SaramaHasher", kgo.SaramaHasher(rawBE), nil, kgo.StickyKeyPartitioner(kgo.SaramaHasher(rawBE)).ForTopic("t")},
	}
	hashes := append([]uint32{}, boundaryHashes...)
	for sh := uint(0); sh < 32; sh++ {
		hashes = append(hashes, 1<<sh, 1<<sh-1, ^(uint32(1) << sh))
	}
	rng := r.Rand("c28-hashgrid", 0)
	for i := 0; i < r.Pick(3000, 300000); i++ {
		hashes = append(hashes, rng.Uint32())
	}
	var evals int
	for _, hh := range hashers {
		exact := 0
		for _, h := range hashes {
			key := be(h)
			for _, n := range gridN {
				var got, via int
				if pn := vh.Catch(func() { got = hh.h(key, n); via = hh.viaKey.Partition(&kgo.Record{Key: key}, n) }); pn != nil {
					f.fail(hh.name+": panics instead of returning a partition index", map[string]any{"hash": h, "n": n, "panic": fmt.Sprint(pn)})
					continue
				}
				evals++
				if got < 0 || got >= n {
					f.fail(hh.name+": index out of [0,n)", map[string]any{"hash": fmt.Sprintf("%#x", h), "n": n, "got": got})
				}
				if via != got {
					f.fail(hh.name+": StickyKeyPartitioner does not return the hasher's pick for a keyed record", map[string]any{"hash": fmt.Sprintf("%#x", h), "n": n, "hasher": got, "partitioner": via})
				}
				if hh.ref != nil {
					if want := hh.ref(h, n); want != got {
						f.fail(hh.name+": partition differs from the reference arithmetic", map[string]any{"hash": fmt.Sprintf("%#x", h), "as_int32": int32(h), "n": n, "got": got, "want": want})
					} else {
						exact++
					}
				}
			}
		}
		if hh.ref != nil {
			r.Count("grid_exact_"+hh.name, exact)
		}
		r.Distinct("hashgrid|" + hh.name)
	}
	r.Eval(evals)
	r.Sample(map[string]any{"kind": "hash grid", "hash_values": len(hashes), "n_values": len(gridN), "example": "SaramaCompatHasher hash=0x80000000 n=7 -> " + strconv.Itoa(refSaramaCompat(0x80000000, 7))})
}

// murmurGrid: kgo's unexported murmur2, reached through the default key
// hasher, against the Java transcription: Kafka's test vectors, every key
// length 0..70, random keys; n includes 2^31 (64-bit int only), for which the
// partition IS toPositive(murmur2(key)).
func murmurGrid(f *failer) {
	r := f.r
	ns := append([]int{}, gridN...)
	if strconv.IntSize == 64 {
		ns = append(ns, 1<<31)
	}
	stick := kgo.StickyKeyPartitioner(nil).ForTopic("t")
	uni := kgo.UniformBytesPartitioner(1<<20, false, true, nil).ForTopic("t").(kgo.TopicBackupPartitioner)
	var keys [][]byte
	for _, v := range murmurVectors {
		keys = append(keys, []byte(v.in))
	}
	rng := r.Rand("c28-murmur", 0)
	for l := 0; l <= 70; l++ {
		keys = append(keys, randBytes(rng, l))
		hi := make([]byte, l) // all bytes >= 0x80: Java's signed bytes
		for i := range hi {
			hi[i] = 0x80 | byte(rng.Uint32())
		}
		keys = append(keys, hi, make([]byte, l))
	}
	for i := 0; i < r.Pick(20000, 2000000); i++ {
		keys = append(keys, randBytes(rng, rng.IntN(300)))
	}
	keys = append(keys, randBytes(rng, 1<<16+3))
	var evals, exact int
	for ki, k := range keys {
		h := javaMurmur2(k)
		nn := ns
		if ki > 600 { // random bulk: a few n each
			nn = []int{ns[rng.IntN(len(ns))], ns[len(ns)-1], 1 + rng.IntN(1<<20)}
		}
		for _, n := range nn {
			want := refKafka(h, n)
			var got, got2 int
			if pn := vh.Catch(func() {
				got = stick.Partition(&kgo.Record{Key: k}, n)
				got2 = uni.PartitionByBackup(&kgo.Record{Key: k}, n, &backupIter{})
			}); pn != nil {
				f.fail("default key hasher: panics instead of returning a partition index", map[string]any{"key": keyStr(k), "n": n, "panic": fmt.Sprint(pn)})
				continue
			}
			evals++
			if got != want {
				f.fail("StickyKeyPartitioner(nil): partition differs from Java murmur2/toPositive/mod",
					map[string]any{"key": keyStr(k), "key_len": len(k), "n": n, "got": got, "want": want, "java_murmur2": h})
			} else {
				exact++
			}
			if got2 != want {
				f.fail("UniformBytesPartitioner(keys,nil): partition differs from Java murmur2/toPositive/mod",
					map[string]any{"key": keyStr(k), "key_len": len(k), "n": n, "got": got2, "want": want, "java_murmur2": h})
			}
		}
		if ki < 600 {
			r.Distinct(fmt.Sprintf("murmur|len%d", len(k)))
		}
	}
	r.Eval(evals)
	r.Count("kafka_murmur2_exact_grid", exact)
	r.Sample(map[string]any{"kind": "murmur2 vector", "key": "foobar", "java_murmur2": javaMurmur2([]byte("foobar")), "n": 10, "partition": refKafka(javaMurmur2([]byte("foobar")), 10)})
}

func TestCheck(t *testing.T) {
	r := vh.Start(t, "C28")
	f := &failer{r: r}

	// the references must reproduce their published vectors before they judge anything
	for _, v := range murmurVectors {
		if got := javaMurmur2([]byte(v.in)); got != v.want {
			r.Inconclusive(fmt.Sprintf("harness javaMurmur2(%q)=%d, Kafka's UtilsTest expects %d", v.in, got, v.want))
		}
	}
	for _, k := range []string{"", "a", "foobar", "\xff\x00\x80"} {
		if refFnv32a([]byte(k)) != fnv32a([]byte(k)) {
			r.Inconclusive("harness FNV-1a disagrees with hash/fnv")
		}
	}
	// Sarama: int32(hash) % n negated when negative. -2147483648 % 7 = -2 -> 2; -1 % 5 = -1 -> 1.
	if refSaramaCompat(0x80000000, 7) != 2 || refSaramaCompat(0xffffffff, 5) != 1 || refSaramaCompat(10, 7) != 3 {
		r.Inconclusive("harness refSaramaCompat self-test failed")
	}
	if r.Counter("inconclusive") > 0 {
		r.Finish("exploration", "reference self-test failed; nothing judged")
		return
	}

	murmurGrid(f)
	hashGrid(f)

	sps := specs()
	perCell := r.Pick(150, 3000)
	cells := len(sps) * len(seqClasses)
	vh.Parallel(cells*perCell, runtime.NumCPU(), func(i int) {
		if f.n.Load() > 50 {
			return
		}
		cell := i % cells
		scenario(f, i, sps[cell/len(seqClasses)], seqClasses[cell%len(seqClasses)])
	})
	r.Count("scenarios", cells*perCell)
	r.Count("partitioner_specs", len(sps))
	r.Set("exhaustive", false)

	r.Finish("exploration",
		"cases: (1) default key hasher via StickyKeyPartitioner(nil) and UniformBytesPartitioner(keys) on Kafka's murmur2 test vectors, keys of every length 0..70 (random / all-high-bit / zero bytes), seeded random keys up to 64 KiB, x a grid of n (1..70, powers of two +-1, MaxInt32, 2^31); (2) KafkaHasher/SaramaCompatHasher/SaramaHasher with a steering hash function over boundary and random 32-bit hash values x the n grid; (3) seeded scenarios per (partitioner spec, n-sequence class): two topic partitioners of one Partitioner driven 30-200 steps with n following a const/grow/shrink/saw/random/cliff/one sequence, records with nil/empty/pooled/random keys, OnNewBatch + re-pick after a third of the picks, backup iterators with all-zero/equal/random/huge/ascending backups in descending or ascending order. One evaluation = one returned index judged. Non-trivial: a scenario that used some n >= 2; distinct by (partitioner spec, n-sequence class), plus (hasher) and (key length) for the grids",
		"javaMurmur2 in the harness is transcribed from Apache Kafka's Utils.murmur2 with Java int semantics and must reproduce UtilsTest's vectors before the run judges anything; Kafka's placement is toPositive(murmur2(key)) % numPartitions; Sarama's is int32(hash) % numPartitions negated when negative, over FNV-1a",
		"ManualPartitioner: records whose Partition field is outside [0,n) are documented to be failed by the producer; for them only 'returns Record.Partition' is judged, not the range clause",
		"SaramaHasher's exact placement is not part of the statement: only range and equal-keys are judged for it",
		"backup counts handed to TopicBackupPartitioner are non-negative (they are buffered-record counts in the client) and below 2^40; n <= 4096 for partitioners that may scan all partitions per pick, n <= 2^20 in scenarios otherwise",
		"a panic inside a partitioner is counted as 'no index in [0,n) returned'",
	)
}
