// C29 — producer sequence numbers wrap modulo 2^31, in the client and in kfake.
//
// Monitor: the spec function next(s,n) = (s+n) mod 2^31 observes
//   - kgo's incrementSequence (through kgo.VerifIncrementSequence) over a
//     boundary grid and seeded random pairs, and
//   - a kfake cluster that is sent hand-built idempotent record batches with
//     crafted FirstSequence values around the wrap boundary (a kgo client is
//     only the transport; no producer logic of kgo is involved).
//
// What is asserted of kfake is exactly the property statement: after a batch
// of n records at sequence s the batch at (s+n) mod 2^31 is accepted at the
// next log offset, an exact retry of an accepted batch is answered with its
// original base offset and appends nothing, and every other sequence is
// rejected with OUT_OF_ORDER_SEQUENCE_NUMBER (and appends nothing).
package c29

import (
	"context"
	"fmt"
	"hash/crc32"
	"runtime"
	"sync"
	"sync/atomic"
	"testing"
	"time"

	"github.com/twmb/franz-go/pkg/kerr"
	"github.com/twmb/franz-go/pkg/kfake"
	"github.com/twmb/franz-go/pkg/kgo"
	"github.com/twmb/franz-go/pkg/kmsg"

	"verifharness/internal/vh"
)

const (
	two31  = int64(1) << 31
	maxSeq = int32(1<<31 - 1)
	near   = int64(1) << 10
)

// spec is the property's next-sequence function.
func spec(s, n int32) int32 { return int32((int64(s) + int64(n)) % two31) }

func seqClass(v int64) string {
	switch {
	case v <= 3:
		return fmt.Sprintf("=%d", v)
	case v <= 16:
		return "4..16"
	case v <= near:
		return "17..2^10"
	case v < two31-near:
		return "mid"
	case v < two31-16:
		return "max-2^10.."
	case v < two31-3:
		return "max-16.."
	default:
		return fmt.Sprintf("max-%d", two31-1-v)
	}
}

// relClass classifies where s+n lands relative to the wrap.
func relClass(s, n int64) string {
	switch e := s + n; {
	case e < two31-near:
		return "far"
	case e < two31-1:
		return "below"
	case e == two31-1:
		return "lands-on-max"
	case e == two31:
		return "lands-on-0"
	case e == two31+1:
		return "lands-on-1"
	default:
		return "past"
	}
}

// ---------------------------------------------------------------- client

func checkClient(r *vh.Run, fails *atomic.Int64) {
	one := func(s, n int32) {
		want := spec(s, n)
		got := kgo.VerifIncrementSequence(s, n)
		if got != want {
			fails.Add(1)
			r.Violation("client-incrementSequence", fmt.Sprintf("incrementSequence(%d,%d)=%d, spec (s+n) mod 2^31 = %d", s, n, got, want))
		}
	}
	var ss, ns []int32
	for d := int64(0); d <= near; d++ {
		ss = append(ss, int32(d), int32(two31-1-d))
		if d >= 1 {
			ns = append(ns, int32(d))
		}
		ns = append(ns, int32(two31-1-d))
	}
	for _, mid := range []int64{1 << 30, 1 << 20, 1 << 16, 3 << 29} {
		for d := int64(-4); d <= 4; d++ {
			ss = append(ss, int32(mid+d))
			ns = append(ns, int32(mid+d))
		}
	}
	workers := runtime.NumCPU()
	vh.Parallel(len(ss), workers, func(i int) {
		s := ss[i]
		for _, n := range ns {
			one(s, n)
		}
	})
	for _, s := range ss {
		for _, n := range ns {
			if int64(s)+int64(n) >= two31-near {
				r.Distinct("client/" + seqClass(int64(s)) + "/" + seqClass(int64(n)) + "/" + relClass(int64(s), int64(n)))
			}
		}
	}
	r.Eval(len(ss) * len(ns))
	r.Count("client_boundary_pairs", len(ss)*len(ns))
	r.Sample(map[string]any{"kind": "client boundary", "s": maxSeq, "n": 1, "spec": spec(maxSeq, 1), "got": kgo.VerifIncrementSequence(maxSeq, 1)})

	nrand := r.Pick(1_000_000, 100_000_000)
	per := nrand / workers
	var nontriv atomic.Int64
	vh.Parallel(workers, workers, func(w int) {
		rng := r.Rand("client-rand", w)
		nt := 0
		for k := 0; k < per; k++ {
			var s, n int32
			switch rng.Uint32() % 4 {
			case 0: // uniform
				s, n = int32(rng.Uint32()>>1), int32(rng.Uint32()>>1)
			case 1: // s near the top, small n
				s, n = maxSeq-int32(rng.Uint32()%(1<<12)), int32(rng.Uint32()%(1<<13))
			case 2: // s anywhere, n chosen to land near the wrap
				s = int32(rng.Uint32() >> 1)
				n = int32((two31 - int64(s) + int64(rng.Uint32()%2048) - 1024) % two31)
			default: // random magnitudes
				s, n = int32(rng.Uint32()>>1>>(rng.Uint32()%31)), int32(rng.Uint32()>>1>>(rng.Uint32()%31))
			}
			if n < 1 {
				n = 1
			}
			one(s, n)
			if int64(s)+int64(n) >= two31-near {
				nt++
			}
		}
		nontriv.Add(int64(nt))
	})
	r.Eval(per * workers)
	r.Count("client_random_pairs", per*workers)
	r.Count("client_random_pairs_near_or_past_wrap", int(nontriv.Load()))
}

// ---------------------------------------------------------------- kfake

var crc32c = crc32.MakeTable(crc32.Castagnoli)

// buildBatch builds a magic-2 uncompressed record batch of n one-byte-value
// records with the given producer fields.
func buildBatch(pid int64, epoch int16, firstSeq int32, n int, tag byte) []byte {
	var recs []byte
	var body []byte
	for i := 0; i < n; i++ {
		body = body[:0]
		rec := kmsg.Record{OffsetDelta: int32(i), Value: []byte{tag}}
		full := rec.AppendTo(body) // Length 0 => one-byte varint prefix
		rec.Length = int32(len(full) - 1)
		recs = rec.AppendTo(recs)
	}
	now := int64(1_700_000_000_000)
	b := kmsg.RecordBatch{
		PartitionLeaderEpoch: -1,
		Magic:                2,
		LastOffsetDelta:      int32(n - 1),
		FirstTimestamp:       now,
		MaxTimestamp:         now,
		ProducerID:           pid,
		ProducerEpoch:        epoch,
		FirstSequence:        firstSeq,
		NumRecords:           int32(n),
		Records:              recs,
	}
	raw := b.AppendTo(nil)
	b.Length = int32(len(raw) - 12)
	b.CRC = int32(crc32.Checksum(raw[21:], crc32c))
	return b.AppendTo(raw[:0])
}

type conn struct {
	cl      *kgo.Client
	topic   string
	topicID [16]byte
	leader  int32
}

type prodResult struct {
	err  int16
	base int64
}

func (c *conn) produce(ctx context.Context, part int32, batch []byte) (prodResult, error) {
	req := kmsg.NewPtrProduceRequest()
	req.Acks = -1
	req.TimeoutMillis = 10000
	rt := kmsg.NewProduceRequestTopic()
	rt.Topic = c.topic
	rt.TopicID = c.topicID
	rp := kmsg.NewProduceRequestTopicPartition()
	rp.Partition = part
	rp.Records = batch
	rt.Partitions = append(rt.Partitions, rp)
	req.Topics = append(req.Topics, rt)
	kresp, err := c.cl.Broker(int(c.leader)).Request(ctx, req)
	if err != nil {
		return prodResult{}, err
	}
	resp := kresp.(*kmsg.ProduceResponse)
	if len(resp.Topics) != 1 || len(resp.Topics[0].Partitions) != 1 {
		return prodResult{}, fmt.Errorf("produce response shape: %d topics", len(resp.Topics))
	}
	p := resp.Topics[0].Partitions[0]
	return prodResult{p.ErrorCode, p.BaseOffset}, nil
}

func (c *conn) logEnd(ctx context.Context, part int32) (int64, error) {
	req := kmsg.NewPtrListOffsetsRequest()
	req.ReplicaID = -1
	rt := kmsg.NewListOffsetsRequestTopic()
	rt.Topic = c.topic
	rp := kmsg.NewListOffsetsRequestTopicPartition()
	rp.Partition = part
	rp.Timestamp = -1
	rp.CurrentLeaderEpoch = -1
	rt.Partitions = append(rt.Partitions, rp)
	req.Topics = append(req.Topics, rt)
	kresp, err := c.cl.Broker(int(c.leader)).Request(ctx, req)
	if err != nil {
		return 0, err
	}
	resp := kresp.(*kmsg.ListOffsetsResponse)
	if len(resp.Topics) != 1 || len(resp.Topics[0].Partitions) != 1 {
		return 0, fmt.Errorf("list offsets response shape")
	}
	p := resp.Topics[0].Partitions[0]
	if p.ErrorCode != 0 {
		return 0, kerr.ErrorForCode(p.ErrorCode)
	}
	return p.Offset, nil
}

func (c *conn) newPID(ctx context.Context) (int64, int16, error) {
	req := kmsg.NewPtrInitProducerIDRequest()
	req.ProducerID = -1
	req.ProducerEpoch = -1
	kresp, err := c.cl.Request(ctx, req)
	if err != nil {
		return 0, 0, err
	}
	resp := kresp.(*kmsg.InitProducerIDResponse)
	if resp.ErrorCode != 0 {
		return 0, 0, kerr.ErrorForCode(resp.ErrorCode)
	}
	return resp.ProducerID, resp.ProducerEpoch, nil
}

// scenario: first batch (s,n1), then wrong sequences, the correct next batch
// (n2), its retry, a retry of the first batch, again a wrong sequence, then a
// third batch (n3) at the sequence after the second.
type scenario struct {
	S          int32 `json:"first_sequence"`
	N1, N2, N3 int   `json:"-"`
	WrongFirst bool  `json:"wrong_sequence_tried_before_correct_one"`
}

func (sc scenario) String() string {
	return fmt.Sprintf("s=%d n1=%d n2=%d n3=%d wrongFirst=%v", sc.S, sc.N1, sc.N2, sc.N3, sc.WrongFirst)
}

func genScenarios(r *vh.Run, total int) []scenario {
	var out []scenario
	// grid: distance d of s below 2^31, n1 relative to d
	ds := []int64{1, 2, 3, 4, 5, 7, 8, 16, 100, 1000, 1024}
	for _, d := range ds {
		s := int32(two31 - d)
		for _, n1 := range []int64{1, 2, d - 1, d, d + 1, d + 2, 2 * d} {
			if n1 < 1 || n1 > 2048 {
				continue
			}
			for _, n2 := range []int{1, 3} {
				out = append(out, scenario{S: s, N1: int(n1), N2: n2, N3: 2, WrongFirst: (d+n1+int64(n2))%2 == 0})
			}
		}
	}
	// the second batch carries the wrap (stored next sequence of a non-first batch)
	for _, d := range []int64{2, 3, 5, 10, 50} {
		for _, n2 := range []int64{d - 2, d - 1, d, d + 3} {
			if n2 < 1 {
				continue
			}
			out = append(out, scenario{S: int32(two31 - d - 1), N1: 1, N2: int(n2), N3: 1, WrongFirst: n2%2 == 0})
		}
	}
	// controls far from the boundary
	for _, s := range []int32{0, 1, 5, 1 << 20, 1 << 30} {
		out = append(out, scenario{S: s, N1: 3, N2: 2, N3: 1, WrongFirst: s%2 == 0})
	}
	// seeded random fill (mostly near the boundary)
	rng := r.Rand("kfake-scen", 0)
	for i := 0; len(out) < total; i++ {
		var sc scenario
		switch rng.Uint32() % 8 {
		case 0: // anywhere
			sc.S = int32(rng.Uint32() >> 1)
		default:
			sc.S = int32(two31 - 1 - int64(rng.Uint32()%1100))
		}
		pick := func() int {
			switch rng.Uint32() % 6 {
			case 0:
				return 1 + int(rng.Uint32()%1500)
			case 1: // land exactly around the wrap when possible
				d := two31 - int64(sc.S)
				if d >= 1 && d <= 1500 {
					return int(d) + int(rng.Uint32()%3) - 1 + btoi(d == 1)
				}
				return 1 + int(rng.Uint32()%4)
			default:
				return 1 + int(rng.Uint32()%6)
			}
		}
		sc.N1, sc.N2, sc.N3 = pick(), pick(), pick()
		if sc.N1 < 1 {
			sc.N1 = 1
		}
		if sc.N2 < 1 {
			sc.N2 = 1
		}
		sc.WrongFirst = rng.Uint32()%2 == 0
		out = append(out, sc)
	}
	// the documented design-time probe comes first
	out = append([]scenario{{S: maxSeq - 1, N1: 1, N2: 1, N3: 1, WrongFirst: false}, {S: maxSeq - 1, N1: 1, N2: 1, N3: 1, WrongFirst: true}}, out...)
	return out[:total]
}

func btoi(b bool) int {
	if b {
		return 1
	}
	return 0
}

const oooSeq = int16(45) // OUT_OF_ORDER_SEQUENCE_NUMBER

type runner struct {
	r     *vh.Run
	c     *conn
	fails *atomic.Int64
}

func (x *runner) viol(sig string, sc scenario, format string, a ...any) {
	x.fails.Add(1)
	x.r.Violation(sig, map[string]any{"scenario": sc.String(), "what": fmt.Sprintf(format, a...)})
}

// runScenario returns false if the scenario could not be judged.
func (x *runner) runScenario(ctx context.Context, part int32, sc scenario) bool {
	r, c := x.r, x.c
	inconclusive := func(step string, err error) bool {
		r.Inconclusive(fmt.Sprintf("scenario %v step %s: %v", sc, step, err))
		return false
	}
	pid, epoch, err := c.newPID(ctx)
	if err != nil {
		return inconclusive("InitProducerID", err)
	}
	leo, err := c.logEnd(ctx, part)
	if err != nil {
		return inconclusive("ListOffsets", err)
	}
	// first batch of a new producer: Kafka accepts any first sequence for
	// an unknown producer; the statement does not speak about this step,
	// so a refusal makes the scenario unjudgeable rather than a violation.
	res, err := c.produce(ctx, part, buildBatch(pid, epoch, sc.S, sc.N1, 'A'))
	if err != nil {
		return inconclusive("produce A", err)
	}
	if res.err != 0 {
		r.Count("first_batch_refused", 1)
		return inconclusive("produce A", fmt.Errorf("first batch at sequence %d refused: %v", sc.S, kerr.ErrorForCode(res.err)))
	}
	baseA := leo
	if res.base != baseA {
		x.viol("kfake-first-batch-wrong-offset", sc, "first batch got base offset %d, log end was %d", res.base, baseA)
		return true
	}
	leo += int64(sc.N1)
	nextB := spec(sc.S, int32(sc.N1))

	checkLEO := func(step string) bool {
		got, err := c.logEnd(ctx, part)
		if err != nil {
			inconclusive("ListOffsets after "+step, err)
			return false
		}
		r.Eval(1)
		if got != leo {
			x.viol("kfake-seq-log-end-changed-after-"+step, sc, "log end offset after %s is %d, want %d", step, got, leo)
			return false
		}
		return true
	}

	type seen struct {
		first int32
		n     int
	}
	var acceptedBatches []seen
	acceptedBatches = append(acceptedBatches, seen{sc.S, sc.N1})
	isRetry := func(first int32, n int) bool {
		for _, a := range acceptedBatches {
			if a.first == first && a.n == n {
				return true
			}
		}
		return false
	}
	// wrongSeqs lists candidate wrong first-sequences (all != expect are
	// wrong by the statement); every one must be rejected with OOOSN.
	wrongSeqs := func(expect int32, prevFirst int32, prevN int) [][2]any {
		m31 := int32((int64(prevFirst) + int64(prevN)) % (two31 - 1)) // the 2^31-1 modulus
		c := [][2]any{
			{"(s+n) mod (2^31-1)", m31},
			{"next+1", int32((int64(expect) + 1) % two31)},
			{"next-1", int32((int64(expect) - 1 + two31) % two31)},
			{"zero", int32(0)},
			{"max", maxSeq},
		}
		return c
	}
	doWrong := func(step string, expect int32, prevFirst int32, prevN int, n int, limit int) bool {
		tried := 0
		for _, w := range wrongSeqs(expect, prevFirst, prevN) {
			name, seq := w[0].(string), w[1].(int32)
			if seq == expect || isRetry(seq, n) {
				continue
			}
			if tried >= limit {
				break
			}
			tried++
			res, err := c.produce(ctx, part, buildBatch(pid, epoch, seq, n, 'W'))
			if err != nil {
				return inconclusive("produce wrong "+step, err)
			}
			r.Eval(1)
			r.Count("wrong_sequence_batches", 1)
			switch {
			case res.err == 0:
				x.viol("kfake-seq-wrong-accepted", sc, "%s: after sequences up to next=%d, a batch of %d at wrong sequence %d (%s) was accepted (base %d)", step, expect, n, seq, name, res.base)
				return false
			case res.err != oooSeq:
				x.viol("kfake-seq-wrong-other-error", sc, "%s: batch at wrong sequence %d (%s, expected next %d) rejected with %v, want OUT_OF_ORDER_SEQUENCE_NUMBER", step, seq, name, expect, kerr.ErrorForCode(res.err))
				return false
			}
		}
		return checkLEO("wrong-" + step)
	}

	if sc.WrongFirst {
		if !doWrong("before-second", nextB, sc.S, sc.N1, sc.N2, 3) {
			return true
		}
	}

	// the correctly wrapped next batch
	batchB := buildBatch(pid, epoch, nextB, sc.N2, 'B')
	res, err = c.produce(ctx, part, batchB)
	if err != nil {
		return inconclusive("produce B", err)
	}
	r.Eval(1)
	if res.err != 0 {
		x.viol("kfake-seq-wrap-next-rejected", sc, "after first batch at sequence %d with %d records, the next batch at (s+n) mod 2^31 = %d was rejected with %v", sc.S, sc.N1, nextB, kerr.ErrorForCode(res.err))
		return true
	}
	baseB := leo
	if res.base != baseB {
		x.viol("kfake-seq-wrap-next-wrong-offset", sc, "next batch at sequence %d got base offset %d, want %d", nextB, res.base, baseB)
		return true
	}
	leo += int64(sc.N2)
	acceptedBatches = append(acceptedBatches, seen{nextB, sc.N2})
	if !checkLEO("second") {
		return true
	}

	// exact retry of the second batch: original offset, nothing appended
	retry := func(step string, batch []byte, first int32, wantBase int64) bool {
		res, err := c.produce(ctx, part, batch)
		if err != nil {
			return inconclusive("produce retry "+step, err)
		}
		r.Eval(1)
		r.Count("retries", 1)
		if res.err != 0 {
			x.viol("kfake-seq-dup-retry-rejected", sc, "%s: exact retry of the accepted batch at sequence %d was answered %v", step, first, kerr.ErrorForCode(res.err))
			return false
		}
		if res.base != wantBase {
			x.viol("kfake-seq-dup-retry-wrong-offset", sc, "%s: exact retry of the batch at sequence %d was answered base offset %d, original was %d", step, first, res.base, wantBase)
			return false
		}
		return checkLEO("retry-" + step)
	}
	if !retry("second", batchB, nextB, baseB) {
		return true
	}
	if !retry("first", buildBatch(pid, epoch, sc.S, sc.N1, 'A'), sc.S, baseA) {
		return true
	}

	nextC := spec(nextB, int32(sc.N2))
	if !sc.WrongFirst {
		if !doWrong("before-third", nextC, nextB, sc.N2, sc.N3, 3) {
			return true
		}
	}
	batchC := buildBatch(pid, epoch, nextC, sc.N3, 'C')
	res, err = c.produce(ctx, part, batchC)
	if err != nil {
		return inconclusive("produce C", err)
	}
	r.Eval(1)
	if res.err != 0 {
		x.viol("kfake-seq-wrap-next-rejected", sc, "after second batch at sequence %d with %d records, the next batch at (s+n) mod 2^31 = %d was rejected with %v", nextB, sc.N2, nextC, kerr.ErrorForCode(res.err))
		return true
	}
	if res.base != leo {
		x.viol("kfake-seq-wrap-next-wrong-offset", sc, "third batch at sequence %d got base offset %d, want %d", nextC, res.base, leo)
		return true
	}
	baseC := leo
	leo += int64(sc.N3)
	acceptedBatches = append(acceptedBatches, seen{nextC, sc.N3})
	if !retry("third", batchC, nextC, baseC) {
		return true
	}
	nextD := spec(nextC, int32(sc.N3))
	if !doWrong("after-third", nextD, nextC, sc.N3, 1, 2) {
		return true
	}
	return true
}

func checkKfake(t *testing.T, r *vh.Run, fails *atomic.Int64) {
	const topic = "c29"
	nparts := 16
	cluster, err := kfake.NewCluster(kfake.NumBrokers(1), kfake.SeedTopics(int32(nparts), topic))
	if err != nil {
		r.Inconclusive(fmt.Sprintf("kfake.NewCluster: %v", err))
		return
	}
	defer cluster.Close()
	cl, err := kgo.NewClient(kgo.SeedBrokers(cluster.ListenAddrs()...), kgo.RequiredAcks(kgo.AllISRAcks()))
	if err != nil {
		r.Inconclusive(fmt.Sprintf("kgo.NewClient: %v", err))
		return
	}
	defer cl.Close()
	ctx, cancel := context.WithTimeout(context.Background(), time.Duration(r.Pick(300, 3000))*time.Second)
	defer cancel()

	mreq := kmsg.NewPtrMetadataRequest()
	mt := kmsg.NewMetadataRequestTopic()
	mt.Topic = kmsg.StringPtr(topic)
	mreq.Topics = append(mreq.Topics, mt)
	mresp, err := mreq.RequestWith(ctx, cl)
	if err != nil || len(mresp.Topics) != 1 || mresp.Topics[0].ErrorCode != 0 || len(mresp.Topics[0].Partitions) != nparts {
		r.Inconclusive(fmt.Sprintf("metadata: %v", err))
		return
	}
	c := &conn{cl: cl, topic: topic, topicID: mresp.Topics[0].TopicID, leader: mresp.Topics[0].Partitions[0].Leader}

	scens := genScenarios(r, r.Pick(200, 20000))
	x := &runner{r: r, c: c, fails: fails}
	var mu sync.Mutex
	judged := 0
	// scenarios are dealt round-robin to partitions; each partition's
	// scenarios run sequentially so the expected log end offset is known.
	vh.Parallel(nparts, nparts, func(p int) {
		for i := p; i < len(scens); i += nparts {
			if ctx.Err() != nil {
				r.Inconclusive("kfake scenarios: watchdog context expired")
				return
			}
			sc := scens[i]
			if !x.runScenario(ctx, int32(p), sc) {
				continue
			}
			mu.Lock()
			judged++
			mu.Unlock()
			s, n1, n2, n3 := int64(sc.S), int64(sc.N1), int64(sc.N2), int64(sc.N3)
			if s+n1+n2+n3 >= two31-near {
				r.Distinct(fmt.Sprintf("kfake/%s/n1:%s/n2:%s/n3:%s/wrongFirst=%v", seqClass(s), relClass(s, n1), relClass(s+n1, n2), relClass(s+n1+n2, n3), sc.WrongFirst))
			}
			if i < 2 {
				r.Sample(map[string]any{"kind": "kfake scenario", "scenario": sc.String(), "expected_next_after_first": spec(sc.S, int32(sc.N1))})
			}
		}
	})
	r.Count("kfake_scenarios", len(scens))
	r.Count("kfake_scenarios_judged", judged)
}

func TestCheck(t *testing.T) {
	r := vh.Start(t, "C29")
	var fails atomic.Int64
	checkClient(r, &fails)
	checkKfake(t, r, &fails)
	checkClientRewind(r)
	checkClientE2E(r)
	r.Set("exhaustive", false)
	r.Finish("exploration",
		"client: every pair (s,n) with s within 2^10 of 0 or 2^31-1 (plus a few mid values) and n in 1..2^10 or within 2^10 of 2^31-1, plus seeded random pairs (uniform / near-top / landing near the wrap / random magnitudes), each compared with (s+n) mod 2^31. kfake: one evaluation = one judged produce response or log-end check inside a scenario (new producer id; first batch at s with n1 records; wrong sequences; correct next batch; exact retries; third batch); scenarios from a grid of distances 1..1024 below 2^31 x batch sizes around that distance, plus seeded random. Non-trivial: s+n (kfake: s+n1+n2+n3) >= 2^31-2^10, i.e. the arithmetic is at or past the wrap; distinct by (s class, n / landing class, scenario kind)",
		"kfake accepts any first sequence for a producer id it has not seen on the partition (as Kafka does); this is how a sequence near 2^31 is reached without producing 2^31 records. If kfake refuses the first batch the scenario is inconclusive",
		"hand-built record batches are honest: NumRecords records are really present, so batch sizes on the kfake side are limited to ~2000 records; larger n is covered only on the client side",
		"client rewind: one evaluation = one call of the real rewindDrainTo / resetBatchDrainIdx (verif hook VerifRewindDrainTo) on a partition buffer of 1-6 drained batches of 1-1200 records whose first sequence is uniform or within 3000 of 2^31, compared with (s + records of the batches that stay drained) mod 2^31 and the expected drain index; non-trivial = s plus the staying records is past the wrap",
		"client end to end: one evaluation = one seeded idempotent-producer scenario (real kgo client into kfake, partitions starting 1..160 records below 2^31 through the verif hook VerifSetStartSequence, half of the scenarios with swallowed produce responses / connection kills / retriable errors / leader moves) whose partition logs are read back with raw Fetch: per (producer id, epoch) each record's sequence is the previous one plus 1 modulo 2^31, acked records are in the log exactly once at the promised offset and in produce order, failed records are absent, and a fault-free scenario fails no record; non-trivial = some (producer id, epoch) of some partition log holds sequences on both sides of the wrap and a record was acked; distinct by (brokers, partitions, max in-flight, fault-free, kill buckets, leader moves, any failed)",
		"'any other sequence' is sampled: the 2^31-1-modulus value, next+1, next-1, 0 and 2^31-1 (skipping values that equal the correct next sequence or that would be an exact retry of an accepted batch)",
	)
}
