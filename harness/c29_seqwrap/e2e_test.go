// C29, client end to end: a real idempotent kgo producer whose partitions start
// their sequence numbers a few records below 2^31 (verif hook
// kgo.VerifSetStartSequence) produces across the wrap into kfake, with and
// without lost produce responses / connection kills / leader moves. The
// partition logs are read back with raw Fetch. Oracles:
//   - within one (producer id, epoch) the sequence numbers of the records in a
//     partition log advance by exactly 1 modulo 2^31 (batch n+1 starts at
//     (s+n) mod 2^31);
//   - a success-promised record is in its partition exactly once at the promised
//     offset, and in produce order per producing goroutine; an error-promised
//     record is absent (the C02 oracle, here with the duplicate window and the
//     client's rewind arithmetic straddling the wrap);
//   - in a run without any injected fault or cancellation every record is
//     acknowledged (a client that mis-wraps is answered
//     OUT_OF_ORDER_SEQUENCE_NUMBER by kfake and fails records).
package c29

import (
	"bytes"
	"fmt"
	"math/rand/v2"
	"sync"
	"time"

	"github.com/twmb/franz-go/pkg/kgo"

	"verifharness/internal/prodwl"
	"verifharness/internal/vh"
)

func genE2EPlan(rng *rand.Rand, seed uint64) prodwl.Plan {
	p := prodwl.Plan{
		Seed: seed, Brokers: 1 + rng.IntN(3), Partitions: 1 + rng.IntN(3),
		LingerMs:   []int{0, 0, 1}[rng.IntN(3)],
		MaxBufRecs: []int{8, 64, 512}[rng.IntN(3)],
		Idempotent: true, Compression: []string{"none", "snappy", "lz4"}[rng.IntN(3)],
		Producers: 1 + rng.IntN(3), PerProducer: 120 + rng.IntN(300), ValueMax: 4 + rng.IntN(60),
		MaxInflight: []int{0, 1, 5}[rng.IntN(3)],
		StartSeq:    int32(two31 - 1 - int64(rng.IntN(160))),
	}
	if rng.IntN(2) == 0 {
		p.BatchMaxBytes = 512 + rng.IntN(1500)
	}
	if rng.IntN(2) == 0 { // faulted half
		p.KillBeforeP = []float64{0, 0.03, 0.1}[rng.IntN(3)]
		p.KillAfterP = []float64{0.03, 0.1, 0.25}[rng.IntN(3)]
		p.RetriableP = []float64{0, 0.05, 0.15}[rng.IntN(3)]
		p.DelayP = []float64{0, 0.05}[rng.IntN(2)]
		p.LeaderMoves = rng.IntN(4)
		p.Retries = []int{0, 0, 5}[rng.IntN(3)]
		p.Yield = []int{0, 10}[rng.IntN(2)]
	}
	return p
}

func faultFree(p prodwl.Plan) bool {
	return p.KillBeforeP == 0 && p.KillAfterP == 0 && p.RetriableP == 0 && p.FatalP == 0 && p.DelayP == 0 &&
		p.MetaKillP == 0 && p.LeaderMoves == 0 && p.CancelP == 0 && p.DeliveryTimeoutMs == 0 && p.Retries == 0
}

func e2eID(v []byte) string {
	if i := bytes.IndexByte(v, '|'); i > 0 {
		return string(v[:i])
	}
	return ""
}

func judgeE2E(r *vh.Run, res *prodwl.Result) {
	witness := func(extra string) map[string]any {
		return map[string]any{"plan": res.Plan, "detail": extra, "fired": res.Fired}
	}
	if len(res.Inconcl) > 0 || !res.Quiesced {
		r.Inconclusive(fmt.Sprintf("client e2e: run did not quiesce: %v", res.Inconcl))
		return
	}
	if res.LogErr != nil {
		r.Inconclusive("client e2e: could not read back logs: " + res.LogErr.Error())
		return
	}
	type pe struct {
		pid   int64
		epoch int16
	}
	type loc struct {
		tp  string
		off int64
	}
	where := map[string][]loc{}
	crossed := 0
	for tp, l := range res.Logs {
		last := map[pe]int64{}
		hi, lo := map[pe]bool{}, map[pe]bool{}
		for _, rec := range l.Records {
			if rec.Control {
				continue
			}
			if id := e2eID(rec.Value); id != "" {
				where[id] = append(where[id], loc{tp, rec.Offset})
			}
			if rec.ProducerID < 0 {
				continue
			}
			k := pe{rec.ProducerID, rec.ProducerEpoch}
			// LogRecord.Sequence is int32(first sequence + index): reduce modulo 2^31
			seq := int64(uint32(rec.Sequence) & 0x7fffffff)
			if prev, ok := last[k]; ok && seq != (prev+1)%two31 {
				r.Violation("client-e2e-log-sequence-not-next-mod-2^31", witness(fmt.Sprintf("%s offset %d: producer %d epoch %d sequence %d follows sequence %d (want %d)", tp, rec.Offset, k.pid, k.epoch, seq, prev, (prev+1)%two31)))
			}
			last[k] = seq
			if seq >= two31-near {
				hi[k] = true
			} else if seq < near && hi[k] {
				lo[k] = true
			}
		}
		for k := range lo {
			if hi[k] {
				crossed++
			}
		}
	}
	type stream struct {
		producer int
		tp       string
	}
	lastOff := map[stream]int64{}
	okN, failN := 0, 0
	for _, c := range res.Recs {
		if c.CallClock == 0 || c.PromiseCount.Load() != 1 {
			continue
		}
		tp := fmt.Sprintf("%s/%d", c.Topic, c.Partition)
		locs := where[c.ID]
		if err := c.PromiseErr(); err == nil {
			okN++
			switch {
			case len(locs) == 0:
				r.Violation("client-e2e-acked-record-missing-from-log", witness(fmt.Sprintf("record %s promised success at %s offset %d but is not in any log", c.ID, tp, c.Offset)))
			case len(locs) > 1:
				r.Violation("client-e2e-acked-record-duplicated-in-log", witness(fmt.Sprintf("record %s promised success at %s offset %d appears %d times: %v", c.ID, tp, c.Offset, len(locs), locs)))
			case locs[0].tp != tp || locs[0].off != c.Offset:
				r.Violation("client-e2e-acked-record-at-wrong-offset", witness(fmt.Sprintf("record %s promised %s offset %d but log has it at %s offset %d", c.ID, tp, c.Offset, locs[0].tp, locs[0].off)))
			default:
				k := stream{c.Producer, tp}
				if lo, ok := lastOff[k]; ok && locs[0].off <= lo {
					r.Violation("client-e2e-acked-records-out-of-produce-order", witness(fmt.Sprintf("producer %d %s: record %s at offset %d after a later-offset earlier record (%d)", c.Producer, tp, c.ID, locs[0].off, lo)))
				}
				lastOff[k] = locs[0].off
			}
		} else {
			failN++
			if len(locs) > 0 {
				r.Violation("client-e2e-failed-record-present-in-log", witness(fmt.Sprintf("record %s promised error %q but is in the log at %v", c.ID, err, locs)))
			}
			if faultFree(res.Plan) {
				r.Violation("client-e2e-record-failed-in-fault-free-run", witness(fmt.Sprintf("record %s (%s) promised error %q although no fault, cancellation, timeout or retry limit was configured", c.ID, tp, err)))
			}
		}
	}
	r.Count("client_e2e_records_acked", okN)
	r.Count("client_e2e_records_failed", failN)
	r.Count("client_e2e_partition_epochs_crossing_wrap", crossed)
	if crossed > 0 && okN > 0 {
		bucket := func(n int64) string {
			switch {
			case n == 0:
				return "0"
			case n < 4:
				return "few"
			}
			return "many"
		}
		r.Distinct(fmt.Sprintf("client-e2e|brokers=%d|parts=%d|inflight=%d|faultfree=%v|ka=%s|kb=%s|moves=%d|failed=%v",
			res.Plan.Brokers, res.Plan.Partitions, res.Plan.MaxInflight, faultFree(res.Plan),
			bucket(res.Fired["kill-after"]), bucket(res.Fired["kill-before"]), res.Plan.LeaderMoves, failN > 0))
		if r.WantSample() {
			r.Sample(map[string]any{"kind": "client e2e scenario", "plan": res.Plan, "acked": okN, "failed": failN, "partition_epochs_crossing_wrap": crossed, "faults": res.Fired})
		}
	}
}

func checkClientE2E(r *vh.Run) {
	n := r.Pick(60, 2500)
	vh.Parallel(n, 8, func(i int) {
		plan := genE2EPlan(r.Rand("c29-e2e", i), uint64(r.Seed)<<20|uint64(i))
		res := prodwl.Run(plan, 60*time.Second)
		judgeE2E(r, res)
		r.Eval(1)
	})
	r.Count("client_e2e_scenarios", n)
}

// checkClientRewind: the client's other sequence bookkeeping besides
// incrementSequence - rewinding a partition to just before a staged batch
// (rewindDrainTo, when a built request is not issued while earlier batches stay
// in flight) and to its first batch (resetBatchDrainIdx) - must land on
// (s + records of the batches that stay drained) mod 2^31. The real functions
// run on a partition buffer built by the verif hook.
func checkClientRewind(r *vh.Run) {
	n := r.Pick(200_000, 5_000_000)
	workers := 8
	per := n / workers
	var crossed, judged int64
	var mu sync.Mutex
	vh.Parallel(workers, workers, func(w int) {
		rng := r.Rand("client-rewind", w)
		var cr, jd int64
		for k := 0; k < per; k++ {
			nb := 1 + rng.IntN(6)
			counts := make([]int, nb)
			var s int64
			switch rng.IntN(3) {
			case 0:
				s = int64(rng.Uint32() >> 1)
			default:
				s = two31 - 1 - int64(rng.IntN(3000))
			}
			for j := range counts {
				counts[j] = 1 + rng.IntN(1200)
			}
			to := rng.IntN(nb+1) - 1 // -1 = resetBatchDrainIdx
			stay := int64(0)
			for j := 0; j < to; j++ {
				stay += int64(counts[j])
			}
			want, wantIdx := int32((s+stay)%two31), max(to, 0)
			var got int32
			var gotIdx int
			if p := vh.Catch(func() { got, gotIdx = kgo.VerifRewindDrainTo(int32(s), counts, to) }); p != nil {
				r.Violation("client-rewind-panic", fmt.Sprintf("batch0Seq %d counts %v rewind to %d: panic %v", s, counts, to, p))
				continue
			}
			jd++
			if got != want || gotIdx != wantIdx {
				r.Violation("client-rewind-sequence", fmt.Sprintf("first batch sequence %d, batch record counts %v, rewind to batch %d (-1 = first): sequence %d drain index %d, spec (s+n) mod 2^31 = %d index %d", s, counts, to, got, gotIdx, want, wantIdx))
			}
			if s+stay >= two31 {
				cr++
				which := "rewindDrainTo"
				if to < 0 {
					which = "resetBatchDrainIdx"
				}
				r.Distinct(fmt.Sprintf("client-rewind/%s/batches=%d/to=%d/%s", which, nb, to, relClass(s, stay)))
			}
		}
		mu.Lock()
		crossed += cr
		judged += jd
		mu.Unlock()
	})
	r.Eval(int(judged))
	r.Count("client_rewinds_judged", int(judged))
	r.Count("client_rewinds_past_wrap", int(crossed))
}
