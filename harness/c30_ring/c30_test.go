// C30 — work queues and work latches never lose or duplicate work.
//
// Monitor: kgo.VerifRing is driven exactly the way kgo drives its rings
// (the pusher that gets first==true spawns the worker; the worker processes
// the element it was handed and then loops on DropPeek while more), and
// kgo.VerifWorkLoop exactly the way kgo drives its latches (signallers call
// MaybeBegin and start the loop on true; the loop calls MaybeFinish before
// every further iteration). Online occupancy counters, offline order /
// exactly-once checks and porcupine against a small sequential FIFO model
// judge many short seeded histories. Bounded-ring histories also run inside
// testing/synctest bubbles, where "every goroutine durably blocked with
// operations still open" is a deterministic deadlock verdict.
package c30

import (
	"fmt"
	"hash/fnv"
	"math/rand/v2"
	"runtime"
	"sort"
	"strings"
	"sync"
	"sync/atomic"
	"testing"
	"testing/synctest"
	"time"

	"github.com/anishathalye/porcupine"
	"github.com/twmb/franz-go/pkg/kgo"

	"verifharness/internal/vh"
)

// ---------------------------------------------------------------- history

type opKind uint8

const (
	kPush opKind = iota
	kPushForce
	kDropPeek
	kDie
	kEmpty
)

var kindName = [...]string{"push", "pushForce", "dropPeek", "die", "empty"}

type ringIn struct {
	kind   opKind
	id     int
	maxLen int
}

type ringOut struct {
	first, dead, more, empty bool
	next                     int
	seq                      int // hinted model only: position of an accepted push in the processing order, else -1
}

type opRec struct {
	client int
	in     ringIn
	out    ringOut
	call   int64
	ret    atomic.Int64 // 0 while the call has not returned
}

func (o *opRec) String() string {
	ret := o.ret.Load()
	var res string
	switch {
	case ret == 0:
		res = "PENDING"
	case o.in.kind == kPush || o.in.kind == kPushForce:
		res = fmt.Sprintf("first=%v dead=%v", o.out.first, o.out.dead)
	case o.in.kind == kDropPeek:
		res = fmt.Sprintf("next=%d more=%v dead=%v", o.out.next, o.out.more, o.out.dead)
	case o.in.kind == kEmpty:
		res = fmt.Sprintf("empty=%v", o.out.empty)
	}
	arg := ""
	if o.in.kind == kPush || o.in.kind == kPushForce {
		arg = fmt.Sprint(o.in.id)
	}
	return fmt.Sprintf("[%d,%d] g%d %s(%s) -> %s", o.call, ret, o.client, kindName[o.in.kind], arg, res)
}

// recorder is one goroutine's private slice of operation records.
type recorder struct {
	client int
	ops    []*opRec
}

// jit is the per-goroutine delay injector. All choices come from the seeded
// PRNG; inside a bubble it never sleeps (a bubble sleep means "wait for
// quiescence" and would serialise the history).
type jit struct {
	rng    *rand.Rand
	bubble bool // never really sleep (inside a synctest bubble, or sleeps switched off)
	level  int  // 0: none, 1: light, 2: heavy
}

var spinSink atomic.Int64

func (j *jit) pause() {
	if j.level == 0 {
		return
	}
	switch j.rng.IntN(8) {
	case 0, 1:
	case 2, 3:
		runtime.Gosched()
	case 4:
		n := j.rng.IntN(300)
		var s int64
		for i := 0; i < n; i++ {
			s += int64(i)
		}
		spinSink.Add(s)
	case 5:
		for i := 0; i < 3; i++ {
			runtime.Gosched()
		}
	case 6:
		if j.level == 2 && !j.bubble {
			time.Sleep(time.Duration(j.rng.IntN(40)) * time.Microsecond)
		} else {
			runtime.Gosched()
		}
	case 7:
		if j.level == 2 {
			n := j.rng.IntN(3000)
			var s int64
			for i := 0; i < n; i++ {
				s += int64(i)
			}
			spinSink.Add(s)
		}
	}
}

// ---------------------------------------------------------------- ring run

type ringCfg struct {
	idx      int
	maxLen   int        // 0: unbounded
	pushers  [][]opKind // per pusher: kPush / kPushForce
	dieAfter int        // -1: no die; otherwise the killer calls Die once that many pushes have returned
	emptyObs int        // Empty() calls made by an observer goroutine
	bubble   bool
	jitLevel int
	slowWork bool // worker stalls on its first element until several pushes returned (forces growth)
	step     bool // stepped scenario: the worker is gated by the root goroutine
	stepDie  int  // stepped scenario: the root calls Die before this step (-1: never)
	noForce  bool // no forced push anywhere in the history
}

type procRec struct {
	id    int
	clock int64
}

type ringRun struct {
	r   *vh.Run
	cfg ringCfg

	ring  kgo.VerifRing[int]
	clock atomic.Int64

	recMu sync.Mutex
	recs  []*recorder

	inProc    atomic.Int32 // goroutines inside a processing section
	maxInProc atomic.Int32
	workers   atomic.Int32 // worker goroutines spawned
	returned  atomic.Int32 // pushes returned (accepted or dead)
	accepted  atomic.Int32 // pushes returned with dead==false
	dropStart atomic.Int32 // DropPeek calls started
	dropped   atomic.Int32 // DropPeek calls returned (each one that ran on a non-empty ring removed one element)
	maxLenLB  atomic.Int32 // high-water lower bound of the ring length
	blocked   atomic.Int32 // calls currently inside Push (step scenario bookkeeping)
	blockedF  atomic.Int32 // calls currently inside PushForce

	procMu    sync.Mutex
	processed []procRec

	stepC  chan struct{} // step scenario: one token per processed element; closed => run free
	startC chan struct{} // start barrier: closed once every initial goroutine exists

	wg   sync.WaitGroup
	stop *atomic.Bool // set by the driver once the check is stopping early

	failMu sync.Mutex
	fails  map[string]string
}

func (x *ringRun) fail(sig, detail string) {
	x.failMu.Lock()
	if x.fails == nil {
		x.fails = map[string]string{}
	}
	if _, ok := x.fails[sig]; !ok {
		x.fails[sig] = detail
	}
	x.failMu.Unlock()
}

func (x *ringRun) newRecorder() *recorder {
	x.recMu.Lock()
	rc := &recorder{client: len(x.recs)}
	x.recs = append(x.recs, rc)
	x.recMu.Unlock()
	return rc
}

func (x *ringRun) begin(rc *recorder, kind opKind, id int) *opRec {
	o := &opRec{client: rc.client, in: ringIn{kind, id, x.cfg.maxLen}}
	rc.ops = append(rc.ops, o)
	o.call = x.clock.Add(1)
	return o
}

func (x *ringRun) end(o *opRec, out ringOut) {
	o.out = out
	o.ret.Store(x.clock.Add(1))
}

func (x *ringRun) newJit(g int) *jit {
	return &jit{rng: x.r.Rand("c30-ringjit", x.cfg.idx*256+g), bubble: x.cfg.bubble, level: x.cfg.jitLevel}
}

// process is the worker's handling of one element. The occupancy counter is
// raised only while the element is still in the ring (it is removed by the
// DropPeek that follows), so in a correct ring no push can return first==true
// during the section and no second worker can exist.
func (x *ringRun) process(e int, j *jit, firstOfWorker bool) {
	n := x.inProc.Add(1)
	for {
		m := x.maxInProc.Load()
		if n <= m || x.maxInProc.CompareAndSwap(m, n) {
			break
		}
	}
	if n > 1 {
		x.fail("ring-two-workers", fmt.Sprintf("%d goroutines are processing elements of one ring at once (element %d)", n, e))
	}
	if x.cfg.step {
		<-x.stepC
	}
	if x.cfg.slowWork && firstOfWorker {
		// stall (bounded, schedule-independent bound) so that pushes pile up
		for i := 0; i < 400 && int(x.returned.Load()) < 14; i++ {
			runtime.Gosched()
		}
	}
	j.pause()
	x.procMu.Lock()
	x.processed = append(x.processed, procRec{e, x.clock.Add(1)})
	x.procMu.Unlock()
	j.pause()
	x.inProc.Add(-1)
}

func (x *ringRun) worker(first int, ord int) {
	defer x.wg.Done()
	rc := x.newRecorder()
	j := x.newJit(100 + ord)
	e := first
	firstOfWorker := true
	for {
		x.process(e, j, firstOfWorker)
		firstOfWorker = false
		// lower bound of the current ring length: pushes that returned accepted
		// minus removals that may have begun
		x.dropStart.Add(1)
		lb := x.accepted.Load() - x.dropStart.Load() + 1
		for {
			m := x.maxLenLB.Load()
			if lb <= m || x.maxLenLB.CompareAndSwap(m, lb) {
				break
			}
		}
		o := x.begin(rc, kDropPeek, 0)
		next, more, dead := x.ring.DropPeek()
		x.end(o, ringOut{next: next, more: more, dead: dead})
		x.dropped.Add(1)
		if !more {
			return
		}
		e = next
		j.pause()
	}
}

func (x *ringRun) pusher(g int, ops []opKind, idBase int) {
	defer x.wg.Done()
	rc := x.newRecorder()
	j := x.newJit(g)
	<-x.startC
	for k, kind := range ops {
		j.pause()
		id := idBase + k
		o := x.begin(rc, kind, id)
		var first, dead bool
		if kind == kPush {
			x.blocked.Add(1)
			first, dead = x.ring.Push(id)
			x.blocked.Add(-1)
		} else {
			x.blockedF.Add(1)
			first, dead = x.ring.PushForce(id)
			x.blockedF.Add(-1)
		}
		x.end(o, ringOut{first: first, dead: dead})
		if !dead {
			x.accepted.Add(1)
		}
		x.returned.Add(1)
		if first {
			// exactly what kgo does: the pusher of the first element starts the worker
			x.wg.Add(1)
			go x.worker(id, int(x.workers.Add(1)))
		}
	}
}

func (x *ringRun) killer(total int) {
	defer x.wg.Done()
	rc := x.newRecorder()
	j := x.newJit(90)
	<-x.startC
	for i := 0; i < 20000 && int(x.returned.Load()) < x.cfg.dieAfter && int(x.returned.Load()) < total; i++ {
		runtime.Gosched()
	}
	j.pause()
	o := x.begin(rc, kDie, 0)
	x.ring.Die()
	x.end(o, ringOut{})
}

func (x *ringRun) observer() {
	defer x.wg.Done()
	rc := x.newRecorder()
	j := x.newJit(91)
	<-x.startC
	for i := 0; i < x.cfg.emptyObs; i++ {
		j.pause()
		j.pause()
		o := x.begin(rc, kEmpty, 0)
		e := x.ring.Empty()
		x.end(o, ringOut{empty: e})
	}
}

func (x *ringRun) allOps() []*opRec {
	x.recMu.Lock()
	defer x.recMu.Unlock()
	var all []*opRec
	for _, rc := range x.recs {
		all = append(all, rc.ops...)
	}
	sort.Slice(all, func(i, j int) bool { return all[i].call < all[j].call })
	return all
}

func (x *ringRun) dump() []string {
	var out []string
	out = append(out, fmt.Sprintf("cfg: maxLen=%d pushers=%d bubble=%v step=%v dieAfter=%d stepDie=%d", x.cfg.maxLen, len(x.cfg.pushers), x.cfg.bubble, x.cfg.step, x.cfg.dieAfter, x.cfg.stepDie))
	for _, o := range x.allOps() {
		out = append(out, o.String())
	}
	x.procMu.Lock()
	var p []string
	for _, pr := range x.processed {
		p = append(p, fmt.Sprintf("%d@%d", pr.id, pr.clock))
	}
	x.procMu.Unlock()
	out = append(out, "processed: "+strings.Join(p, " "))
	return out
}

// start launches the pushers, killer and observer of a free-running history.
func (x *ringRun) start() (totalPushes int) {
	if x.cfg.maxLen > 0 {
		x.ring.InitMaxLen(x.cfg.maxLen)
	}
	for _, p := range x.cfg.pushers {
		totalPushes += len(p)
	}
	x.startC = make(chan struct{})
	defer close(x.startC)
	idBase := 1
	for g, p := range x.cfg.pushers {
		x.wg.Add(1)
		go x.pusher(g, p, idBase)
		idBase += len(p)
	}
	if x.cfg.dieAfter >= 0 {
		x.wg.Add(1)
		go x.killer(totalPushes)
	}
	if x.cfg.emptyObs > 0 {
		x.wg.Add(1)
		go x.observer()
	}
	return totalPushes
}

type runStatus int

const (
	stDone runStatus = iota
	stDeadlock
	stTimeout
)

// runFree executes one free-running history, in a bubble or in real time.
func (x *ringRun) runFree(t *testing.T) runStatus {
	if x.cfg.bubble {
		st := stDone
		p := vh.Catch(func() {
			synctest.Test(t, func(t *testing.T) {
				x.start()
				done := make(chan struct{})
				go func() { x.wg.Wait(); close(done) }()
				// Virtual time: an hour passes only when every goroutine is
				// durably blocked, and no goroutine of the run ever sleeps, so
				// after Wait whatever has not finished can never finish.
				time.Sleep(time.Hour)
				synctest.Wait()
				select {
				case <-done:
				default:
					st = stDeadlock
					x.fail("ring-deadlock", "bubble quiescent (every goroutine durably blocked) with operations still open")
					// try to release the blocked pushers so the bubble can end
					x.ring.Die()
					synctest.Wait()
				}
			})
		})
		if p != nil {
			st = stDeadlock
			x.fail("ring-deadlock", fmt.Sprintf("synctest: %v", p))
		}
		return st
	}
	x.start()
	done := make(chan struct{})
	go func() { x.wg.Wait(); close(done) }()
	deadline := time.Now().Add(rtGrace)
	for {
		select {
		case <-done:
			return stDone
		case <-time.After(50 * time.Millisecond):
		}
		if time.Now().After(deadline) || (x.stop != nil && x.stop.Load()) {
			// wall-clock only (or the check is already stopping): never a verdict
			x.ring.Die()
			select {
			case <-done:
			case <-time.After(2 * time.Second):
			}
			return stTimeout
		}
	}
}

const rtGrace = 30 * time.Second

// runStep executes the stepped scenario inside a bubble: the worker handles
// one element per token, and at every quiescence point the number of blocked
// pushers is compared with the exactly known ring length.
func (x *ringRun) runStep(t *testing.T, rng *rand.Rand) (status runStatus, quiescences int) {
	cfg := x.cfg
	status = stDone
	p := vh.Catch(func() {
		synctest.Test(t, func(t *testing.T) {
			x.stepC = make(chan struct{})
			total := x.start()
			done := make(chan struct{})
			go func() { x.wg.Wait(); close(done) }()
			died := false
			released := false
			check := func(where string) {
				synctest.Wait()
				quiescences++
				// Quiescent: every push has either returned or is parked in the
				// ring's cond.Wait; the worker is parked on stepC.
				blocked := int(x.blocked.Load())
				// every DropPeek of a worker follows the processing of the head
				// element, so each completed one removed exactly one element
				l := int(x.accepted.Load()) - int(x.dropped.Load())
				if bf := x.blockedF.Load(); bf > 0 {
					x.fail("ring-pushforce-blocked", fmt.Sprintf("%s: %d PushForce calls are parked (ring holds %d, maxLen %d)", where, bf, l, cfg.maxLen))
				}
				if cfg.noForce && l > cfg.maxLen {
					x.fail("ring-bounded-push-exceeded-maxlen", fmt.Sprintf("%s: ring holds %d > maxLen %d elements although every push was a blocking push", where, l, cfg.maxLen))
				}
				if blocked > 0 && died {
					x.fail("ring-blocked-push-not-released-by-die", fmt.Sprintf("%s: %d pushes still blocked after Die returned", where, blocked))
				}
				if blocked > 0 && !died && l < cfg.maxLen {
					x.fail("ring-push-blocked-while-not-full", fmt.Sprintf("%s: %d pushes blocked while the ring holds %d < maxLen %d elements", where, blocked, l, cfg.maxLen))
				}
			}
			check("after pushers started")
			for steps := 0; steps < total+2; steps++ {
				select {
				case <-done:
					return
				default:
				}
				if !died && cfg.stepDie >= 0 && steps == cfg.stepDie {
					rc := x.newRecorder()
					o := x.begin(rc, kDie, 0)
					x.ring.Die()
					x.end(o, ringOut{})
					died = true
					check("after Die")
				}
				if rng.IntN(6) == 0 && !released {
					close(x.stepC)
					released = true
				}
				if !released {
					// hand the worker one token if it is waiting for one
					select {
					case x.stepC <- struct{}{}:
					default:
					}
				}
				check(fmt.Sprintf("after step %d", steps))
			}
			if !released {
				close(x.stepC)
			}
			time.Sleep(time.Hour)
			synctest.Wait()
			select {
			case <-done:
			default:
				status = stDeadlock
				x.fail("ring-deadlock", "stepped bubble quiescent with operations still open")
				x.ring.Die()
				synctest.Wait()
			}
		})
	})
	if p != nil {
		status = stDeadlock
		x.fail("ring-deadlock", fmt.Sprintf("synctest: %v", p))
	}
	return status, quiescences
}

// ---------------------------------------------------------------- model

type rstate struct {
	q      string // element ids, one byte each
	dead   bool
	pushed int // hinted model only: accepted pushes so far
}

// ringStep is the sequential specification of the ring. With hinted set, an
// accepted push may additionally only take effect at the position its element
// had in the observed processing order; that is a restriction of the plain
// model (every hinted linearization is a plain one), used to prune
// porcupine's search. A verdict "Illegal" is only ever taken from the plain
// model.
func ringStep(hinted bool) func(st, in, out any) (bool, any) {
	return func(st, in, out any) (bool, any) {
		s, i, o := st.(rstate), in.(ringIn), out.(ringOut)
		switch i.kind {
		case kPush, kPushForce:
			if s.dead {
				return o.dead && !o.first, s
			}
			if i.kind == kPush && i.maxLen > 0 && len(s.q) >= i.maxLen {
				return false, s // a blocking push cannot take effect on a full ring
			}
			ns := rstate{s.q + string([]byte{byte(i.id)}), false, s.pushed}
			if hinted {
				if o.seq != s.pushed {
					return false, s
				}
				ns.pushed++
			}
			return !o.dead && o.first == (len(ns.q) == 1), ns
		case kDropPeek:
			if len(s.q) == 0 {
				return !o.more && o.next == 0 && o.dead == s.dead, s
			}
			ns := rstate{s.q[1:], s.dead, s.pushed}
			if len(ns.q) > 0 {
				return o.more && o.next == int(ns.q[0]) && o.dead == s.dead, ns
			}
			return !o.more && o.next == 0 && o.dead == s.dead, ns
		case kDie:
			return true, rstate{s.q, true, s.pushed}
		case kEmpty:
			return o.empty == (len(s.q) == 0), s
		}
		return false, s
	}
}

var (
	ringModel       = porcupine.Model{Init: func() any { return rstate{} }, Step: ringStep(false)}
	ringModelHinted = porcupine.Model{Init: func() any { return rstate{} }, Step: ringStep(true)}
)

// shape returns the overlap-structure key of a history (op kinds, call/return
// order, goroutines renamed by first appearance) and its maximal concurrency.
func shape(ops []*opRec) (key uint64, maxConc int) {
	type ev struct {
		ts   int64
		ret  bool
		kind opKind
		cl   int
	}
	var evs []ev
	for _, o := range ops {
		evs = append(evs, ev{o.call, false, o.in.kind, o.client}, ev{o.ret.Load(), true, o.in.kind, o.client})
	}
	sort.Slice(evs, func(i, j int) bool { return evs[i].ts < evs[j].ts })
	h := fnv.New64a()
	ren := map[int]int{}
	open := 0
	for _, e := range evs {
		if _, ok := ren[e.cl]; !ok {
			ren[e.cl] = len(ren)
		}
		if e.ret {
			open--
		} else {
			open++
			if open > maxConc {
				maxConc = open
			}
		}
		h.Write([]byte{byte(e.kind), b2b(e.ret), byte(ren[e.cl])})
	}
	return h.Sum64(), maxConc
}

func b2b(b bool) byte {
	if b {
		return 1
	}
	return 0
}

// judge runs the offline oracles over a completed history.
func (x *ringRun) judge(totals *totals) {
	ops := x.allOps()
	pos := map[int]int{}
	cnt := map[int]int{}
	x.procMu.Lock()
	processed := append([]procRec(nil), x.processed...)
	x.procMu.Unlock()
	for i, p := range processed {
		if _, ok := pos[p.id]; !ok {
			pos[p.id] = i
		}
		cnt[p.id]++
	}
	var pushes []*opRec
	var dieCall, dieRet int64 = -1, -1
	known := map[int]bool{}
	for _, o := range ops {
		switch o.in.kind {
		case kPush, kPushForce:
			pushes = append(pushes, o)
			known[o.in.id] = true
		case kDie:
			dieCall, dieRet = o.call, o.ret.Load()
		}
	}
	for id := range cnt {
		if !known[id] {
			x.fail("ring-processed-unknown-element", fmt.Sprintf("element %d was processed but never pushed", id))
		}
	}
	for _, o := range pushes {
		c := cnt[o.in.id]
		switch {
		case o.out.dead && c != 0:
			x.fail("ring-rejected-element-processed", fmt.Sprintf("push(%d) returned dead=true but the element was processed %d time(s)", o.in.id, c))
		case !o.out.dead && c == 0:
			x.fail("ring-accepted-element-not-processed", fmt.Sprintf("push(%d) was accepted (first=%v) but, with every pusher and worker finished, it was never processed", o.in.id, o.out.first))
		case !o.out.dead && c > 1:
			x.fail("ring-element-processed-twice", fmt.Sprintf("element %d processed %d times", o.in.id, c))
		}
		if o.out.dead && (dieCall < 0 || o.ret.Load() < dieCall) {
			x.fail("ring-dead-before-die", fmt.Sprintf("push(%d) returned dead=true before Die was called", o.in.id))
		}
		if !o.out.dead && dieRet >= 0 && o.call > dieRet {
			x.fail("ring-accepted-after-die", fmt.Sprintf("push(%d) was called after Die returned (clock %d > %d) and was accepted", o.in.id, o.call, dieRet))
		}
	}
	// processing order == acceptance order wherever acceptance order is known:
	// push A returned before push B was invoked (covers per-pusher FIFO and,
	// for one pusher, the total order)
	for _, a := range pushes {
		if a.out.dead || cnt[a.in.id] == 0 {
			continue
		}
		for _, b := range pushes {
			if b.out.dead || cnt[b.in.id] == 0 || a == b {
				continue
			}
			if a.ret.Load() < b.call && pos[a.in.id] > pos[b.in.id] {
				x.fail("ring-processed-out-of-push-order", fmt.Sprintf("push(%d) returned at %d before push(%d) was called at %d, but %d was processed first", a.in.id, a.ret.Load(), b.in.id, b.call, b.in.id))
			}
		}
	}
	// porcupine
	hist := make([]porcupine.Operation, 0, len(ops))
	for _, o := range ops {
		out := o.out
		out.seq = -1
		if (o.in.kind == kPush || o.in.kind == kPushForce) && !out.dead {
			if p, ok := pos[o.in.id]; ok {
				out.seq = p
			}
		}
		hist = append(hist, porcupine.Operation{ClientId: o.client, Input: o.in, Call: o.call, Output: out, Return: o.ret.Load()})
	}
	res := porcupine.CheckOperationsTimeout(ringModelHinted, hist, 5*time.Second)
	if res != porcupine.Ok {
		totals.porcFallback.Add(1)
		if res == porcupine.Illegal {
			totals.porcHintIllegal.Add(1)
		}
		res = porcupine.CheckOperationsTimeout(ringModel, hist, 5*time.Second)
	}
	switch res {
	case porcupine.Ok:
		totals.porcOK.Add(1)
	case porcupine.Unknown:
		totals.porcUnknown.Add(1)
	case porcupine.Illegal:
		_, info := porcupine.CheckOperationsVerbose(ringModel, hist, 10*time.Second)
		longest := 0
		for _, part := range info.PartialLinearizations() {
			for _, lin := range part {
				if len(lin) > longest {
					longest = len(lin)
				}
			}
		}
		x.fail("ring-history-not-linearizable", fmt.Sprintf("no linearization of the %d-operation history matches the sequential FIFO model (longest linearizable prefix set: %d ops)", len(hist), longest))
	}
	key, mc := shape(ops)
	for {
		m := totals.maxConc.Load()
		if int64(mc) <= m || totals.maxConc.CompareAndSwap(m, int64(mc)) {
			break
		}
	}
	if mc >= 2 {
		x.r.Distinct(fmt.Sprintf("ring-%x", key))
	} else {
		totals.trivial.Add(1)
	}
	if x.maxLenLB.Load() >= 9 {
		totals.growShrink.Add(1)
	}
	totals.ops.Add(int64(len(ops)))
	totals.workersSpawned.Add(int64(x.workers.Load()))
}

type totals struct {
	porcOK, porcUnknown, porcFallback, porcHintIllegal, trivial, growShrink, ops, workersSpawned atomic.Int64
	maxConc                                                                                      atomic.Int64
	rtRuns, bubbleRuns, stepRuns, dieRuns, timeouts                                              atomic.Int64
	quiescences                                                                                  atomic.Int64
}

func genRingCfg(rng *rand.Rand, idx int) ringCfg {
	c := ringCfg{idx: idx, dieAfter: -1}
	np := 1 + rng.IntN(7) // 1..7 pushers (+ worker, killer, observer <= ~8-10 goroutines)
	if rng.IntN(6) == 0 {
		np = 1
	}
	switch rng.IntN(5) {
	case 0, 1:
		c.maxLen = 0
	case 2:
		c.maxLen = 1 + rng.IntN(3)
	case 3:
		c.maxLen = 1 + rng.IntN(6)
	case 4:
		c.maxLen = 9 + rng.IntN(12) // bounded but beyond the initial capacity
	}
	forceP := []int{0, 0, 10, 30, 100}[rng.IntN(5)]
	if c.maxLen == 0 {
		forceP = []int{0, 50, 100}[rng.IntN(3)]
	}
	for g := 0; g < np; g++ {
		n := 1 + rng.IntN(12)
		ops := make([]opKind, n)
		for k := range ops {
			if rng.IntN(100) < forceP {
				ops[k] = kPushForce
			}
		}
		c.pushers = append(c.pushers, ops)
	}
	total := 0
	for _, p := range c.pushers {
		total += len(p)
	}
	if rng.IntN(4) == 0 {
		c.dieAfter = rng.IntN(total + 1)
	}
	if rng.IntN(3) == 0 {
		c.emptyObs = 1 + rng.IntN(6)
	}
	c.jitLevel = rng.IntN(3)
	c.slowWork = (c.maxLen == 0 || c.maxLen > 8) && total >= 14 && rng.IntN(2) == 0
	return c
}

var (
	checkStart     = time.Now()
	firstViolation sync.Once
)

func noteViolation(r *vh.Run) {
	firstViolation.Do(func() {
		d := time.Since(checkStart).Seconds()
		r.Set("first_violation_after_s", d)
		fmt.Printf("first violation after %.1fs\n", d)
	})
}

func reportFails(r *vh.Run, x *ringRun) {
	x.failMu.Lock()
	defer x.failMu.Unlock()
	for sig, d := range x.fails {
		noteViolation(r)
		r.Violation(sig, map[string]any{"what": d, "history": x.dump()})
	}
}

// ---------------------------------------------------------------- latch

type latchCfg struct {
	idx        int
	signallers []int // signals per signaller
	hard       bool  // loops may HardFinish with the documented compensation
	jitLevel   int
	againBudg  int // how many times the loop may pass again=true
	inline     bool
	noSleep    bool // delay injection without real sleeps (most runs: sleeps dominate the cost)
}

type latchRun struct {
	r   *vh.Run
	cfg latchCfg
	wl  kgo.VerifWorkLoop

	clock   atomic.Int64
	pending atomic.Int64
	inIter  atomic.Int32
	maxIter atomic.Int32

	lastIterStart atomic.Int64
	lastSnap      atomic.Int64
	maxCall       atomic.Int64
	iters, loops  atomic.Int64
	bumps         atomic.Int64 // MaybeFinish(false) returned true: a signal arrived during the loop
	hardFinishes  atomic.Int64
	again         atomic.Int64
	lord          atomic.Int64

	wg sync.WaitGroup

	failMu sync.Mutex
	fails  map[string]string
}

func (x *latchRun) fail(sig, d string) {
	x.failMu.Lock()
	if x.fails == nil {
		x.fails = map[string]string{}
	}
	if _, ok := x.fails[sig]; !ok {
		x.fails[sig] = d
	}
	x.failMu.Unlock()
}

func storeMax(a *atomic.Int64, v int64) {
	for {
		m := a.Load()
		if v <= m || a.CompareAndSwap(m, v) {
			return
		}
	}
}

func (x *latchRun) loop() {
	defer x.wg.Done()
	ord := int(x.lord.Add(1))
	j := &jit{rng: x.r.Rand("c30-latchloop", x.cfg.idx*64+ord), level: x.cfg.jitLevel, bubble: x.cfg.noSleep}
	x.loops.Add(1)
	for {
		// one iteration; the occupancy counter is raised only while the latch
		// is (in a correct latch) in a working state
		n := x.inIter.Add(1)
		if n > 1 {
			x.fail("latch-two-worker-loops", fmt.Sprintf("%d loop iterations of one latch run at once", n))
		}
		start := x.clock.Add(1)
		snap := x.pending.Load()
		storeMax(&x.lastIterStart, start)
		storeMax(&x.lastSnap, snap)
		x.iters.Add(1)
		j.pause() // doWork
		moreKnown := false
		if x.again.Load() < int64(x.cfg.againBudg) && j.rng.IntN(4) == 0 {
			x.again.Add(1)
			moreKnown = true
		}
		hard := x.cfg.hard && !moreKnown && j.rng.IntN(3) == 0
		x.inIter.Add(-1)
		if hard {
			// documented compensating pattern (source.loopFetch): hardFinish,
			// then reload what the iteration looked at and re-trigger if it changed
			x.hardFinishes.Add(1)
			x.wl.HardFinish()
			if x.pending.Load() != snap {
				if x.wl.MaybeBegin() {
					x.wg.Add(1)
					go x.loop()
				}
			}
			return
		}
		if !x.wl.MaybeFinish(moreKnown) {
			return
		}
		if !moreKnown {
			x.bumps.Add(1)
		}
	}
}

func (x *latchRun) signaller(g, n int) {
	defer x.wg.Done()
	j := &jit{rng: x.r.Rand("c30-latchsig", x.cfg.idx*64+g), level: x.cfg.jitLevel, bubble: x.cfg.noSleep}
	for k := 0; k < n; k++ {
		j.pause()
		if x.cfg.jitLevel > 0 {
			// align with the loop's MaybeFinish window
			s := j.rng.IntN(200)
			var a int64
			for i := 0; i < s; i++ {
				a += int64(i)
			}
			spinSink.Add(a)
		}
		x.pending.Add(1)
		c := x.clock.Add(1)
		storeMax(&x.maxCall, c)
		if x.wl.MaybeBegin() {
			x.wg.Add(1)
			if x.cfg.inline {
				x.loop()
			} else {
				go x.loop()
			}
		}
	}
}

func (x *latchRun) run() {
	for g, n := range x.cfg.signallers {
		x.wg.Add(1)
		go x.signaller(g, n)
	}
	x.wg.Wait() // the latch never blocks: this always returns
	total := x.pending.Load()
	// quiescence: every signaller returned and every loop exited
	if x.lastSnap.Load() != total {
		x.fail("latch-lost-wakeup", fmt.Sprintf("%d signals were raised (work counter incremented, then MaybeBegin) but the last loop iteration began when the counter was %d: no iteration started after the last signal(s); loops=%d iterations=%d hardFinishes=%d", total, x.lastSnap.Load(), x.loops.Load(), x.iters.Load(), x.hardFinishes.Load()))
	}
	if !x.cfg.hard && x.lastIterStart.Load() < x.maxCall.Load() {
		x.fail("latch-lost-wakeup", fmt.Sprintf("a MaybeBegin call was invoked at clock %d but the last loop iteration started at clock %d; loops=%d iterations=%d", x.maxCall.Load(), x.lastIterStart.Load(), x.loops.Load(), x.iters.Load()))
	}
}

func genLatchCfg(rng *rand.Rand, idx int) latchCfg {
	c := latchCfg{idx: idx}
	ns := 1 + rng.IntN(6)
	short := rng.IntN(2) == 0
	for g := 0; g < ns; g++ {
		n := 1 + rng.IntN(12)
		if short {
			n = 1 + rng.IntN(2)
		}
		c.signallers = append(c.signallers, n)
	}
	c.hard = rng.IntN(5) == 0
	c.jitLevel = rng.IntN(3)
	c.againBudg = rng.IntN(3)
	c.inline = rng.IntN(4) == 0
	c.noSleep = rng.IntN(4) != 0
	return c
}

// ---------------------------------------------------------------- entry

func TestCheck(t *testing.T) {
	r := vh.Start(t, "C30")
	workers := runtime.NumCPU() / 2
	if workers < 2 {
		workers = 2
	}
	var tot totals

	phase := time.Now()
	lap := func(name string) {
		r.Set("wall_s_"+name, time.Since(phase).Seconds())
		phase = time.Now()
	}
	var stop atomic.Bool
	// 1. latch histories
	nLatch := r.Pick(120000, 1500000)
	var lt struct{ iters, loops, bumps, hard, hardRuns, multi atomic.Int64 }
	vh.Parallel(nLatch, workers, func(i int) {
		if stop.Load() {
			return
		}
		rng := r.Rand("c30-latch", i)
		cfg := genLatchCfg(rng, i)
		x := &latchRun{r: r, cfg: cfg}
		x.run()
		nsig := 0
		for _, n := range cfg.signallers {
			nsig += n
		}
		r.Eval(nsig) // one judged no-lost-wake-up obligation per MaybeBegin call
		lt.iters.Add(x.iters.Load())
		lt.loops.Add(x.loops.Load())
		lt.bumps.Add(x.bumps.Load())
		lt.hard.Add(x.hardFinishes.Load())
		if cfg.hard {
			lt.hardRuns.Add(1)
		}
		if x.bumps.Load() > 0 || x.loops.Load() > 1 {
			// non-trivial: a signal arrived while a loop was running, or the loop was restarted
			lt.multi.Add(1)
			r.Distinct(fmt.Sprintf("latch-s%d-n%d-l%d-i%d-b%d-h%d", len(cfg.signallers), nsig, x.loops.Load(), x.iters.Load(), x.bumps.Load(), x.hardFinishes.Load()))
		}
		if i < 2 {
			r.Sample(map[string]any{"kind": "latch run", "signallers": cfg.signallers, "loops": x.loops.Load(), "iterations": x.iters.Load(), "signals_during_loop": x.bumps.Load(), "hard_finishes": x.hardFinishes.Load()})
		}
		x.failMu.Lock()
		for sig, d := range x.fails {
			noteViolation(r)
			r.Violation(sig, map[string]any{"what": d, "config": fmt.Sprintf("%+v", cfg)})
		}
		x.failMu.Unlock()
		if r.Violations() >= 1 {
			stop.Store(true)
		}
	})

	lap("latch")
	// 2. stepped bounded-ring scenarios (bubble)
	nStep := r.Pick(3000, 100000)
	vh.Parallel(nStep, workers, func(i int) {
		if stop.Load() {
			return
		}
		rng := r.Rand("c30-step", i)
		cfg := ringCfg{idx: 1<<20 + i, bubble: true, step: true, dieAfter: -1, stepDie: -1}
		cfg.maxLen = 1 + rng.IntN(4)
		np := 1 + rng.IntN(7)
		forceP := []int{0, 0, 20, 50}[rng.IntN(4)]
		total := 0
		for g := 0; g < np; g++ {
			n := 1 + rng.IntN(4)
			ops := make([]opKind, n)
			for k := range ops {
				if rng.IntN(100) < forceP {
					ops[k] = kPushForce
				}
			}
			cfg.pushers = append(cfg.pushers, ops)
			total += n
		}
		cfg.noForce = forceP == 0
		if rng.IntN(3) == 0 {
			cfg.stepDie = rng.IntN(total + 1) // Die is issued by the root goroutine between steps
			tot.dieRuns.Add(1)
		}
		cfg.jitLevel = rng.IntN(2)
		x := &ringRun{r: r, cfg: cfg}
		st, q := x.runStep(t, rng)
		tot.stepRuns.Add(1)
		tot.quiescences.Add(int64(q))
		r.Eval(q)
		if st == stDone {
			x.judge(&tot)
			r.Eval(1)
		}
		reportFails(r, x)
		if r.Violations() >= 1 {
			stop.Store(true)
		}
	})

	lap("ring_stepped")
	// 3. free-running ring histories
	nRing := r.Pick(14000, 400000)
	vh.Parallel(nRing, workers, func(i int) {
		if stop.Load() {
			return
		}
		rng := r.Rand("c30-ring", i)
		cfg := genRingCfg(rng, i)
		// bounded rings mostly in bubbles (deterministic deadlock verdict), a
		// share in real time; unbounded rings mostly in real time
		if cfg.maxLen > 0 {
			cfg.bubble = rng.IntN(4) != 0
		} else {
			cfg.bubble = rng.IntN(4) == 0
		}
		x := &ringRun{r: r, cfg: cfg, stop: &stop}
		st := x.runFree(t)
		if cfg.bubble {
			tot.bubbleRuns.Add(1)
		} else {
			tot.rtRuns.Add(1)
		}
		if cfg.dieAfter >= 0 {
			tot.dieRuns.Add(1)
		}
		switch st {
		case stTimeout:
			if stop.Load() {
				return // abandoned because the check is stopping, not judged
			}
			tot.timeouts.Add(1)
			r.Inconclusive(fmt.Sprintf("ring history %d (real time, maxLen=%d): not finished after %v wall clock; workers in processing=%d, pushes inside Push=%d, ring empty=%v — timing only, not judged", i, cfg.maxLen, rtGrace, x.inProc.Load(), x.blocked.Load(), x.ring.Empty()))
			if tot.timeouts.Load() >= 3 {
				stop.Store(true)
			}
			return
		case stDeadlock:
			reportFails(r, x)
			r.Eval(1)
			if r.Violations() >= 1 {
				stop.Store(true)
			}
			return
		}
		x.judge(&tot)
		r.Eval(1)
		if i < 3 {
			d := x.dump()
			if len(d) > 40 {
				d = append(d[:40], "...")
			}
			r.Sample(map[string]any{"kind": "ring history", "index": i, "events": d})
		}
		reportFails(r, x)
		if r.Violations() >= 1 {
			stop.Store(true)
		}
	})

	lap("ring_free")
	r.Count("ring_histories_realtime", int(tot.rtRuns.Load()))
	r.Count("ring_histories_bubble", int(tot.bubbleRuns.Load()))
	r.Count("ring_stepped_scenarios", int(tot.stepRuns.Load()))
	r.Count("ring_quiescence_assertions", int(tot.quiescences.Load()))
	r.Count("ring_histories_with_die", int(tot.dieRuns.Load()))
	r.Count("ring_histories_grow_and_shrink", int(tot.growShrink.Load()))
	r.Count("ring_operations_recorded", int(tot.ops.Load()))
	r.Count("ring_workers_spawned", int(tot.workersSpawned.Load()))
	r.Count("ring_histories_without_overlap", int(tot.trivial.Load()))
	r.Count("porcupine_ok", int(tot.porcOK.Load()))
	r.Count("porcupine_unknown", int(tot.porcUnknown.Load()))
	r.Count("porcupine_unhinted_fallbacks", int(tot.porcFallback.Load()))
	r.Count("porcupine_hinted_illegal", int(tot.porcHintIllegal.Load()))
	r.Count("realtime_watchdog_timeouts", int(tot.timeouts.Load()))
	r.Count("latch_runs", nLatch)
	r.Count("latch_runs_with_hardfinish_pattern", int(lt.hardRuns.Load()))
	r.Count("latch_hardfinishes", int(lt.hard.Load()))
	r.Count("latch_loops", int(lt.loops.Load()))
	r.Count("latch_iterations", int(lt.iters.Load()))
	r.Count("latch_signals_absorbed_by_running_loop", int(lt.bumps.Load()))
	r.Count("latch_runs_nontrivial", int(lt.multi.Load()))
	r.Set("max_concurrency_seen", tot.maxConc.Load())
	r.Set("exhaustive", false)
	if n := tot.porcUnknown.Load(); n > 0 {
		r.Inconclusive(fmt.Sprintf("porcupine timed out on %d histories (not judged for linearizability)", n))
	}

	r.Finish("exploration",
		"cases: seeded short histories (<=8 goroutines x <=12 pushes) of kgo.VerifRing driven as kgo drives it (first==true spawns the worker; worker loops on DropPeek), unbounded and bounded (maxLen 1..20), blocking and forced pushes, optional Die and Empty observers, delay injection from the seeded PRNG; bounded histories mostly inside synctest bubbles, plus stepped bubble scenarios with a gated worker judged at every quiescence point; seeded latch runs of 1-6 signallers x 1-12 MaybeBegin calls with the kgo loop shape, a fifth of them using HardFinish with the documented reload-and-retrigger compensation. One evaluation = one judged history, one quiescence assertion, or one MaybeBegin obligation. Non-trivial ring history: at least two operations overlapped in time, distinct by hash of (op kinds, call/return order, goroutine renaming); non-trivial latch run: a signal was absorbed by a running loop or the loop was restarted, distinct by (signallers, signals, loops, iterations, absorbed, hardFinishes)",
		"schedules are those the Go scheduler produces on this machine under delay injection; 'all interleavings' is not reached",
		"acceptance order is only known where one push returned before another was invoked (this includes per-pusher FIFO and single-pusher total order); porcupine judges the rest against the sequential FIFO model",
		"HardFinish is documented as lossy: runs using it are judged only by the work-counter oracle under the documented compensation, never by the call-clock oracle",
		"a real-time history that does not finish within the wall-clock grace is reported inconclusive, never as a violation; deadlock verdicts come only from synctest bubbles",
	)
}
