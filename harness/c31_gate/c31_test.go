// C31 — rebalance gate and synctest mutexes exclude and never deadlock.
//
// Monitor: kgo.VerifGate (the BlockRebalanceOnPoll poll/rebalance gate) and
// kgo.VerifMutex / kgo.VerifRWMutex (the channel-based xsync types, build tag
// synctests) are driven by seeded workloads in real time and inside
// testing/synctest bubbles. Shadow occupancy counters are updated strictly
// inside the real holding intervals, so real exclusion implies shadow
// exclusion; stepped bubble scenarios compare what is blocked with a small
// sequential model at every quiescence point; a quiescent bubble with
// operations still open is a deadlock; lock histories are additionally
// checked with porcupine against sequential lock models.
package c31

import (
	"fmt"
	"hash/fnv"
	"math/rand/v2"
	"os"
	"reflect"
	"runtime"
	"sort"
	"strings"
	"sync"
	"sync/atomic"
	"testing"
	"testing/synctest"
	"time"

	"github.com/anishathalye/porcupine"
	"github.com/twmb/franz-go/pkg/kgo"

	"verifharness/internal/vh"
)

const rtGrace = 30 * time.Second

// ---------------------------------------------------------------- common

type jit struct {
	rng     *rand.Rand
	noSleep bool
	level   int
}

var spinSink atomic.Int64

func spin(n int) {
	var s int64
	for i := 0; i < n; i++ {
		s += int64(i)
	}
	spinSink.Add(s)
}

func (j *jit) pause() {
	if j.level == 0 {
		return
	}
	switch j.rng.IntN(8) {
	case 0, 1:
	case 2, 3:
		runtime.Gosched()
	case 4:
		spin(j.rng.IntN(300))
	case 5:
		for i := 0; i < 3; i++ {
			runtime.Gosched()
		}
	case 6:
		if j.level == 2 && !j.noSleep {
			time.Sleep(time.Duration(j.rng.IntN(40)) * time.Microsecond)
		} else {
			runtime.Gosched()
		}
	case 7:
		if j.level == 2 {
			spin(j.rng.IntN(3000))
		}
	}
}

type opRec struct {
	g    int
	kind uint8
	ok   bool
	call int64
	ret  atomic.Int64
}

type history struct {
	clock atomic.Int64
	mu    sync.Mutex
	recs  []*[]*opRec
	names []string
}

func (h *history) recorder() *[]*opRec {
	h.mu.Lock()
	defer h.mu.Unlock()
	s := new([]*opRec)
	h.recs = append(h.recs, s)
	return s
}

func (h *history) begin(rc *[]*opRec, g int, kind uint8) *opRec {
	o := &opRec{g: g, kind: kind}
	*rc = append(*rc, o)
	o.call = h.clock.Add(1)
	return o
}

func (h *history) end(o *opRec, ok bool) {
	o.ok = ok
	o.ret.Store(h.clock.Add(1))
}

func (h *history) all() []*opRec {
	h.mu.Lock()
	defer h.mu.Unlock()
	var all []*opRec
	for _, rc := range h.recs {
		all = append(all, (*rc)...)
	}
	sort.Slice(all, func(i, j int) bool { return all[i].call < all[j].call })
	return all
}

func (h *history) dump() []string {
	var out []string
	for _, o := range h.all() {
		ret := o.ret.Load()
		res := fmt.Sprint(ret)
		if ret == 0 {
			res = "PENDING"
		}
		out = append(out, fmt.Sprintf("[%d,%s] g%d %s ok=%v", o.call, res, o.g, h.names[o.kind], o.ok))
	}
	return out
}

// shape hashes op kinds, call/return order and goroutines renamed by first appearance.
func shape(ops []*opRec) uint64 {
	type ev struct {
		ts   int64
		ret  bool
		kind uint8
		g    int
	}
	var evs []ev
	for _, o := range ops {
		evs = append(evs, ev{o.call, false, o.kind, o.g}, ev{o.ret.Load(), true, o.kind, o.g})
	}
	sort.Slice(evs, func(i, j int) bool { return evs[i].ts < evs[j].ts })
	h := fnv.New64a()
	ren := map[int]int{}
	for _, e := range evs {
		if _, ok := ren[e.g]; !ok {
			ren[e.g] = len(ren)
		}
		b := byte(0)
		if e.ret {
			b = 1
		}
		h.Write([]byte{e.kind, b, byte(ren[e.g])})
	}
	return h.Sum64()
}

type failer struct {
	mu    sync.Mutex
	fails map[string]string
}

func (f *failer) fail(sig, d string) {
	f.mu.Lock()
	if f.fails == nil {
		f.fails = map[string]string{}
	}
	if _, ok := f.fails[sig]; !ok {
		f.fails[sig] = d
	}
	f.mu.Unlock()
}

func (f *failer) failed() bool {
	f.mu.Lock()
	defer f.mu.Unlock()
	return len(f.fails) > 0
}

var (
	checkStart     = time.Now()
	firstViolation sync.Once
)

func report(r *vh.Run, f *failer, detail func() any) {
	f.mu.Lock()
	defer f.mu.Unlock()
	for sig, d := range f.fails {
		firstViolation.Do(func() {
			s := time.Since(checkStart).Seconds()
			r.Set("first_violation_after_s", s)
			fmt.Printf("first violation after %.1fs\n", s)
		})
		r.Violation(sig, map[string]any{"what": d, "witness": detail()})
	}
}

// inBubble runs f inside a synctest bubble and returns the bubble's panic, if any.
func inBubble(t *testing.T, f func()) any {
	return vh.Catch(func() { synctest.Test(t, func(*testing.T) { f() }) })
}

// waitRT waits for done in real time; false = wall-clock grace elapsed (never a verdict).
func waitRT(done chan struct{}, stop *atomic.Bool) bool {
	deadline := time.Now().Add(rtGrace)
	for {
		select {
		case <-done:
			return true
		case <-time.After(50 * time.Millisecond):
		}
		if time.Now().After(deadline) || stop.Load() {
			return false
		}
	}
}

// ---------------------------------------------------------------- gate: free-running

const (
	gPoll uint8 = iota
	gUnadd
	gAllow
	gRebWait
	gRebUnadd
)

var gateNames = []string{"WaitAndAddPoller", "UnaddPoller", "AllowRebalance", "WaitAndAddRebalance", "UnaddRebalance"}

// proto is the user side of the documented contract: AllowRebalance is only
// called while no poll call is in flight and every poll that returned records
// has finished processing them ("all pollers are done"), and no poll starts
// while an AllowRebalance call is in progress.
type proto struct {
	mu          sync.Mutex
	c           *sync.Cond
	serial      bool // at most one poll call in flight at a time
	inflight    int
	holders     int
	doneHolders int
	allowing    bool
}

func (p *proto) beginPoll() {
	p.mu.Lock()
	for p.allowing || (p.serial && p.inflight > 0) {
		p.c.Wait()
	}
	p.inflight++
	p.mu.Unlock()
}

func (p *proto) endPoll(holds bool) {
	p.mu.Lock()
	p.inflight--
	if holds {
		p.holders++
	}
	p.c.Broadcast()
	p.mu.Unlock()
}

func (p *proto) doneProcessing(n int) {
	p.mu.Lock()
	p.doneHolders += n
	p.mu.Unlock()
}

// allow calls fn (which calls AllowRebalance) if the contract permits it now.
func (p *proto) allow(evenIfNone bool, fn func()) bool {
	p.mu.Lock()
	for p.allowing {
		p.c.Wait()
	}
	p.allowing = true
	for p.inflight > 0 {
		p.c.Wait()
	}
	ok := p.holders == p.doneHolders && (p.holders > 0 || evenIfNone)
	if ok {
		p.holders, p.doneHolders = 0, 0
		p.mu.Unlock()
		fn()
		p.mu.Lock()
	}
	p.allowing = false
	p.c.Broadcast()
	p.mu.Unlock()
	return ok
}

type gateCfg struct {
	idx         int
	pollers     int
	rounds      int
	batch       int
	emptyPct    int
	rebalancers int
	rebalances  int
	allowers    int
	allows      int
	bubble      bool
	jitLevel    int
	// serialPolls: the user never has two poll calls in flight at once (holds
	// of several polls still accumulate until AllowRebalance). Otherwise polls
	// run concurrently and AllowRebalance waits for every in-flight poll to
	// return, as the contract comment in unaddPoller demands.
	serialPolls bool
}

func genGateCfg(rng *rand.Rand, idx int) gateCfg {
	c := gateCfg{idx: idx}
	c.pollers = 1 + rng.IntN(4)
	c.rounds = 1 + rng.IntN(4)
	c.batch = 1 + rng.IntN(3)
	c.emptyPct = []int{0, 30, 60, 100}[rng.IntN(4)]
	c.rebalancers = 1 + rng.IntN(3)
	c.rebalances = 1 + rng.IntN(4)
	c.allowers = rng.IntN(2)
	c.allows = 1 + rng.IntN(3)
	c.jitLevel = rng.IntN(3)
	return c
}

type gateRun struct {
	failer
	history
	r    *vh.Run
	cfg  gateCfg
	gate *kgo.VerifGate
	hold atomic.Int32 // shadow: pollers holding the gate
	reb  atomic.Int32 // shadow: rebalances inside their critical section
	pr   proto
	wg   sync.WaitGroup
	strt chan struct{}
}

func (x *gateRun) jit(g int) *jit {
	return &jit{rng: x.r.Rand("c31-gatejit", x.cfg.idx*64+g), noSleep: x.cfg.bubble, level: x.cfg.jitLevel}
}

func (x *gateRun) allowFn(rc *[]*opRec, g int) func() {
	return func() {
		// every holder is done and no poll is in flight: the holds end here
		x.hold.Store(0)
		o := x.begin(rc, g, gAllow)
		x.gate.AllowRebalance()
		x.end(o, true)
	}
}

func (x *gateRun) poller(g int) {
	defer x.wg.Done()
	rc := x.recorder()
	j := x.jit(g)
	<-x.strt
	for round := 0; round < x.cfg.rounds; round++ {
		held := 0
		nb := 1 + j.rng.IntN(x.cfg.batch)
		for b := 0; b < nb; b++ {
			j.pause()
			x.pr.beginPoll()
			o := x.begin(rc, g, gPoll)
			x.gate.WaitAndAddPoller()
			x.end(o, true)
			x.hold.Add(1)
			if n := x.reb.Load(); n != 0 {
				x.fail("gate-poller-entered-during-rebalance", fmt.Sprintf("WaitAndAddPoller returned to g%d while %d rebalance(s) are between WaitAndAddRebalance returning and UnaddRebalance", g, n))
			}
			j.pause()
			if j.rng.IntN(100) < x.cfg.emptyPct {
				// PollRecords found nothing: it un-adds itself
				x.hold.Add(-1)
				o := x.begin(rc, g, gUnadd)
				x.gate.UnaddPoller()
				x.end(o, true)
				x.pr.endPoll(false)
			} else {
				held++
				x.pr.endPoll(true)
			}
		}
		j.pause() // the user processes the records
		if held > 0 {
			x.pr.doneProcessing(held)
			x.pr.allow(false, x.allowFn(rc, g))
		}
	}
}

func (x *gateRun) rebalancer(g int) {
	defer x.wg.Done()
	rc := x.recorder()
	j := x.jit(g)
	<-x.strt
	for i := 0; i < x.cfg.rebalances; i++ {
		j.pause()
		j.pause()
		o := x.begin(rc, g, gRebWait)
		x.gate.WaitAndAddRebalance()
		x.end(o, true)
		x.reb.Add(1)
		if n := x.hold.Load(); n != 0 {
			x.fail("gate-rebalance-entered-while-poller-holds", fmt.Sprintf("WaitAndAddRebalance returned to g%d while %d poller(s) hold the gate", g, n))
		}
		j.pause() // revoke callbacks etc.
		if n := x.hold.Load(); n != 0 {
			x.fail("gate-poller-holds-during-rebalance", fmt.Sprintf("%d poller(s) hold the gate inside g%d's rebalance critical section", n, g))
		}
		x.reb.Add(-1)
		o = x.begin(rc, g, gRebUnadd)
		x.gate.UnaddRebalance()
		x.end(o, true)
	}
}

func (x *gateRun) allower(g int) {
	defer x.wg.Done()
	rc := x.recorder()
	j := x.jit(g)
	<-x.strt
	for i := 0; i < x.cfg.allows; i++ {
		j.pause()
		j.pause()
		x.pr.allow(true, x.allowFn(rc, g))
	}
}

func (x *gateRun) start() chan struct{} {
	x.names = gateNames
	x.gate = kgo.NewVerifGate()
	x.pr.c = sync.NewCond(&x.pr.mu)
	x.pr.serial = x.cfg.serialPolls
	x.strt = make(chan struct{})
	g := 0
	for i := 0; i < x.cfg.pollers; i++ {
		x.wg.Add(1)
		go x.poller(g)
		g++
	}
	for i := 0; i < x.cfg.rebalancers; i++ {
		x.wg.Add(1)
		go x.rebalancer(g)
		g++
	}
	for i := 0; i < x.cfg.allowers; i++ {
		x.wg.Add(1)
		go x.allower(g)
		g++
	}
	close(x.strt)
	done := make(chan struct{})
	go func() { x.wg.Wait(); close(done) }()
	return done
}

// run returns 0 done, 1 deadlock (bubble), 2 wall-clock timeout (real time).
func (x *gateRun) run(t *testing.T, stop *atomic.Bool) int {
	if x.cfg.bubble {
		st := 0
		p := inBubble(t, func() {
			done := x.start()
			time.Sleep(time.Hour) // virtual; nothing in the run sleeps
			synctest.Wait()
			select {
			case <-done:
			default:
				st = 1
				x.classifyDeadlock()
				// unwind so that the bubble can end: release every hold
				x.hold.Store(0)
				x.gate.AllowRebalance()
				time.Sleep(time.Hour)
				synctest.Wait()
			}
		})
		if p != nil && st == 0 {
			st = 1
			x.fail("gate-deadlock", fmt.Sprintf("synctest: %v", p))
		}
		return st
	}
	if !waitRT(x.start(), stop) {
		return 2
	}
	return 0
}

// classifyDeadlock names the quiescent state. One shape is separated out: with
// concurrent polls, a poller parked in WaitAndAddPoller although another
// poller holds the gate, a rebalance waiting for that holder, and the user's
// AllowRebalance withheld only because the parked poll is still in flight.
func (x *gateRun) classifyDeadlock() {
	pendingPoll, pendingReb := 0, 0
	for _, o := range x.all() {
		if o.ret.Load() == 0 {
			switch o.kind {
			case gPoll:
				pendingPoll++
			case gRebWait:
				pendingReb++
			}
		}
	}
	x.pr.mu.Lock()
	userWaitsForPoll := x.pr.allowing && x.pr.inflight > 0 && x.pr.holders == x.pr.doneHolders
	x.pr.mu.Unlock()
	state := fmt.Sprintf("pollers holding (shadow)=%d, polls parked in WaitAndAddPoller=%d, rebalances parked in WaitAndAddRebalance=%d, user AllowRebalance waiting for in-flight polls=%v", x.hold.Load(), pendingPoll, pendingReb, userWaitsForPoll)
	if !x.cfg.serialPolls && x.hold.Load() > 0 && pendingPoll > 0 && pendingReb > 0 && userWaitsForPoll {
		x.fail("gate-deadlock-concurrent-polls-strict-contract", "bubble quiescent: a poll is parked in WaitAndAddPoller behind a pending rebalance although a sibling poller holds the gate; the rebalance waits for AllowRebalance; the user may not call AllowRebalance while a poll is in flight. "+state)
		return
	}
	x.fail("gate-deadlock", "bubble quiescent (every goroutine durably blocked) with gate operations still open: "+state)
}

// overlapped reports whether a poller's holding interval overlapped a
// rebalance's [WaitAndAddRebalance call, UnaddRebalance return] interval.
func gateOverlap(ops []*opRec) bool {
	type iv struct{ a, b int64 }
	var holds, rebs []iv
	var allows []int64
	for _, o := range ops {
		if o.kind == gAllow {
			allows = append(allows, o.call)
		}
	}
	last := map[int]*opRec{}
	for _, o := range ops {
		switch o.kind {
		case gPoll:
			// released by the goroutine's next UnaddPoller or the next AllowRebalance, whichever is first
			end := int64(1 << 62)
			for _, a := range allows {
				if a > o.ret.Load() {
					end = a
					break
				}
			}
			holds = append(holds, iv{o.ret.Load(), end})
			last[o.g] = o
		case gUnadd:
			if p := last[o.g]; p != nil {
				for i := range holds {
					if holds[i].a == p.ret.Load() && o.call < holds[i].b {
						holds[i].b = o.call
					}
				}
			}
		case gRebWait:
			last[o.g] = o
		case gRebUnadd:
			if p := last[o.g]; p != nil {
				rebs = append(rebs, iv{p.call, o.ret.Load()})
			}
		}
	}
	for _, h := range holds {
		for _, rb := range rebs {
			if rb.a < h.b && h.a < rb.b {
				return true
			}
		}
	}
	return false
}

// ---------------------------------------------------------------- gate: stepped model scenarios

type stepG struct {
	id      int
	entered atomic.Bool
	exited  atomic.Bool
	cmd     chan int // 1: release through the own Unadd call; 2: just return (poller released by AllowRebalance)
}

type gateStep struct {
	failer
	gate                             *kgo.VerifGate
	holding, blockedP, waitR, activR []*stepG
	log                              []string
	evals                            int
	nextID                           int
	unmodelled                       bool
	lateReleases                     int
	lateReleasesWithRebalance        int
}

func (s *gateStep) logf(f string, a ...any) { s.log = append(s.log, fmt.Sprintf(f, a...)) }

func (s *gateStep) spawnPoller() *stepG {
	g := &stepG{id: s.nextID, cmd: make(chan int, 1)}
	s.nextID++
	go func() {
		s.gate.WaitAndAddPoller()
		g.entered.Store(true)
		if c := <-g.cmd; c == 1 {
			s.gate.UnaddPoller()
		}
		g.exited.Store(true)
	}()
	return g
}

func (s *gateStep) spawnRebalancer() *stepG {
	g := &stepG{id: s.nextID, cmd: make(chan int, 1)}
	s.nextID++
	go func() {
		s.gate.WaitAndAddRebalance()
		g.entered.Store(true)
		<-g.cmd
		s.gate.UnaddRebalance()
		g.exited.Store(true)
	}()
	return g
}

// settle waits for quiescence and compares every goroutine with the model:
// a rebalance proceeds iff no poller holds; a poller that arrived while no
// poller held proceeds iff no rebalance is registered.
func (s *gateStep) settle(where string) {
	synctest.Wait()
	for changed := true; changed; {
		changed = false
		if len(s.holding) == 0 && len(s.waitR) > 0 {
			for _, w := range s.waitR {
				s.evals++
				if !w.entered.Load() {
					s.fail("gate-rebalance-blocked-without-poller", fmt.Sprintf("%s: rebalance #%d is still blocked in WaitAndAddRebalance at quiescence although no poller holds the gate", where, w.id))
				}
			}
			s.activR = append(s.activR, s.waitR...)
			s.waitR = nil
			changed = true
		}
		if len(s.waitR)+len(s.activR) == 0 && len(s.blockedP) > 0 {
			for _, b := range s.blockedP {
				s.evals++
				if !b.entered.Load() {
					s.fail("gate-poller-blocked-without-rebalance", fmt.Sprintf("%s: poller #%d is still blocked in WaitAndAddPoller at quiescence although no rebalance is registered", where, b.id))
				}
			}
			s.holding = append(s.holding, s.blockedP...)
			s.blockedP = nil
			changed = true
		}
	}
	for _, w := range s.waitR {
		s.evals++
		if w.entered.Load() {
			s.fail("gate-rebalance-entered-while-poller-holds", fmt.Sprintf("%s: WaitAndAddRebalance returned to rebalance #%d while %d poller(s) hold the gate", where, w.id, len(s.holding)))
		}
	}
	for _, b := range s.blockedP {
		s.evals++
		if b.entered.Load() {
			s.fail("gate-poller-entered-while-rebalance-pending", fmt.Sprintf("%s: WaitAndAddPoller returned to fresh poller #%d while no poller held the gate and %d rebalance(s) were waiting/active", where, b.id, len(s.waitR)+len(s.activR)))
		}
	}
	s.logf("%s => holding=%d blockedPollers=%d waitingRebalances=%d activeRebalances=%d", where, len(s.holding), len(s.blockedP), len(s.waitR), len(s.activR))
}

func (s *gateStep) step(rng *rand.Rand) {
	switch op := rng.IntN(10); {
	case op < 3: // a few fresh pollers at once
		k := 1 + rng.IntN(3)
		reg := len(s.waitR) + len(s.activR)
		var gs []*stepG
		for i := 0; i < k; i++ {
			gs = append(gs, s.spawnPoller())
		}
		switch {
		case reg == 0:
			s.blockedP = append(s.blockedP, gs...) // settle moves them to holding and requires entry
			s.settle(fmt.Sprintf("start %d pollers (no rebalance registered)", k))
		case len(s.holding) == 0:
			s.blockedP = append(s.blockedP, gs...)
			s.settle(fmt.Sprintf("start %d pollers (rebalance pending, no holder)", k))
		default:
			// a poller holds and a rebalance waits: the statement does not say
			// whether a further poller may enter; adopt what is observed
			synctest.Wait()
			for _, g := range gs {
				if g.entered.Load() {
					s.holding = append(s.holding, g)
				} else {
					s.unmodelled = true
				}
			}
			s.settle(fmt.Sprintf("start %d pollers (holder present, rebalance waiting: not judged)", k))
		}
	case op < 5: // rebalances
		k := 1 + rng.IntN(2)
		for i := 0; i < k; i++ {
			s.waitR = append(s.waitR, s.spawnRebalancer())
		}
		s.settle(fmt.Sprintf("start %d rebalances", k))
	case op < 7: // one holder's poll had no records: UnaddPoller
		if len(s.holding) == 0 {
			return
		}
		i := rng.IntN(len(s.holding))
		g := s.holding[i]
		s.holding = append(s.holding[:i], s.holding[i+1:]...)
		g.cmd <- 1
		s.settle(fmt.Sprintf("poller #%d UnaddPoller", g.id))
	case op < 8 && rng.IntN(2) == 0 && len(s.holding) > 0:
		// AllowRebalance while the holders' poll calls are still in flight, and
		// their UnaddPoller arriving afterwards. The source calls this a contract
		// violation that the gate tolerates: AllowRebalance zeroes the poller
		// count and "a poller whose accounting was force-cleared simply no-ops its
		// release". The late releases are issued only while the model's poller
		// count is zero (otherwise they would take a fresh poller's hold, which
		// nothing promises to survive), so they must change nothing: everything
		// judged afterwards is judged as if they had not happened.
		cleared := s.holding
		s.holding = nil
		s.gate.AllowRebalance()
		s.settle(fmt.Sprintf("AllowRebalance with %d poll(s) still in flight", len(cleared)))
		if len(s.holding) == 0 {
			for _, g := range cleared {
				g.cmd <- 1
			}
			s.lateReleases += len(cleared)
			if len(s.waitR)+len(s.activR) > 0 {
				s.lateReleasesWithRebalance += len(cleared)
			}
			s.settle(fmt.Sprintf("late UnaddPoller of %d force-cleared poller(s)", len(cleared)))
		} else {
			for _, g := range cleared {
				g.cmd <- 2
			}
			synctest.Wait()
		}
	case op < 8: // AllowRebalance: all holders are done
		for _, g := range s.holding {
			g.cmd <- 2
		}
		synctest.Wait()
		s.holding = nil
		s.gate.AllowRebalance()
		s.settle("AllowRebalance")
	default: // an active rebalance finishes
		if len(s.activR) == 0 {
			return
		}
		i := rng.IntN(len(s.activR))
		g := s.activR[i]
		s.activR = append(s.activR[:i], s.activR[i+1:]...)
		g.cmd <- 1
		s.settle(fmt.Sprintf("rebalance #%d UnaddRebalance", g.id))
	}
}

// drain releases everything in model order so the bubble can end.
func (s *gateStep) drain() {
	for i := 0; i < 64 && !s.failed() && !s.unmodelled; i++ {
		if len(s.holding)+len(s.blockedP)+len(s.waitR)+len(s.activR) == 0 {
			return
		}
		if len(s.holding) > 0 {
			for _, g := range s.holding {
				g.cmd <- 2
			}
			synctest.Wait()
			s.holding = nil
			s.gate.AllowRebalance()
			s.settle("drain: AllowRebalance")
			continue
		}
		for _, g := range s.activR {
			g.cmd <- 1
		}
		s.activR = nil
		s.settle("drain: UnaddRebalance all")
	}
}

func runGateStep(t *testing.T, rng *rand.Rand) *gateStep {
	s := &gateStep{}
	p := inBubble(t, func() {
		s.gate = kgo.NewVerifGate()
		n := 4 + rng.IntN(14)
		for i := 0; i < n && !s.failed() && !s.unmodelled; i++ {
			s.step(rng)
		}
		s.drain()
	})
	if p != nil && !s.failed() && !s.unmodelled {
		s.fail("gate-deadlock", fmt.Sprintf("stepped scenario, synctest: %v", p))
	}
	return s
}

// ---------------------------------------------------------------- mutexes

const (
	lLock uint8 = iota
	lUnlock
	lRLock
	lRUnlock
	lTryLock
	lTryRLock
)

var lockNames = []string{"Lock", "Unlock", "RLock", "RUnlock", "TryLock", "TryRLock"}

type lockCfg struct {
	idx      int
	rw       bool
	scripts  [][]uint8 // per goroutine: acquire kinds
	bubble   bool
	jitLevel int
}

func genLockCfg(rng *rand.Rand, idx int) lockCfg {
	c := lockCfg{idx: idx, rw: rng.IntN(3) != 0}
	n := 2 + rng.IntN(5)
	tryPct := []int{0, 20, 50}[rng.IntN(3)]
	readPct := []int{30, 60, 90}[rng.IntN(3)]
	for g := 0; g < n; g++ {
		k := 1 + rng.IntN(6)
		sc := make([]uint8, k)
		for i := range sc {
			read := c.rw && rng.IntN(100) < readPct
			try := rng.IntN(100) < tryPct
			switch {
			case read && try:
				sc[i] = lTryRLock
			case read:
				sc[i] = lRLock
			case try:
				sc[i] = lTryLock
			default:
				sc[i] = lLock
			}
		}
		c.scripts = append(c.scripts, sc)
	}
	c.jitLevel = rng.IntN(3)
	return c
}

type lockRun struct {
	failer
	history
	r    *vh.Run
	cfg  lockCfg
	mu   kgo.VerifMutex
	rwmu kgo.VerifRWMutex
	w    atomic.Int32 // shadow: exclusive holders
	rd   atomic.Int32 // shadow: shared holders
	wg   sync.WaitGroup
	strt chan struct{}
}

func (x *lockRun) name() string {
	if x.cfg.rw {
		return "rwmutex"
	}
	return "mutex"
}

func (x *lockRun) acquire(kind uint8) bool {
	if !x.cfg.rw {
		if kind == lTryLock {
			return x.mu.TryLock()
		}
		x.mu.Lock()
		return true
	}
	switch kind {
	case lLock:
		x.rwmu.Lock()
	case lRLock:
		x.rwmu.RLock()
	case lTryLock:
		return x.rwmu.TryLock()
	case lTryRLock:
		return x.rwmu.TryRLock()
	}
	return true
}

func (x *lockRun) worker(g int, script []uint8) {
	defer x.wg.Done()
	rc := x.recorder()
	j := &jit{rng: x.r.Rand("c31-lockjit", x.cfg.idx*64+g), noSleep: x.cfg.bubble, level: x.cfg.jitLevel}
	<-x.strt
	for _, kind := range script {
		j.pause()
		o := x.begin(rc, g, kind)
		ok := x.acquire(kind)
		x.end(o, ok)
		if !ok {
			continue
		}
		shared := kind == lRLock || kind == lTryRLock
		if shared {
			x.rd.Add(1)
			if n := x.w.Load(); n != 0 {
				x.fail(x.name()+"-reader-with-writer", fmt.Sprintf("%s returned to g%d while %d writer(s) hold the lock", lockNames[kind], g, n))
			}
		} else {
			if n := x.w.Add(1); n != 1 {
				x.fail(x.name()+"-two-writers", fmt.Sprintf("%s returned to g%d while another exclusive holder is inside (%d)", lockNames[kind], g, n))
			}
			if n := x.rd.Load(); n != 0 {
				x.fail(x.name()+"-writer-with-readers", fmt.Sprintf("%s returned to g%d while %d reader(s) hold the lock", lockNames[kind], g, n))
			}
		}
		j.pause()
		if shared {
			if n := x.w.Load(); n != 0 {
				x.fail(x.name()+"-reader-with-writer", fmt.Sprintf("g%d holds a read lock while %d writer(s) hold the lock", g, n))
			}
			x.rd.Add(-1)
			o := x.begin(rc, g, lRUnlock)
			x.rwmu.RUnlock()
			x.end(o, true)
		} else {
			if n := x.rd.Load(); n != 0 {
				x.fail(x.name()+"-writer-with-readers", fmt.Sprintf("g%d holds the write lock while %d reader(s) hold the lock", g, n))
			}
			x.w.Add(-1)
			o := x.begin(rc, g, lUnlock)
			if x.cfg.rw {
				x.rwmu.Unlock()
			} else {
				x.mu.Unlock()
			}
			x.end(o, true)
		}
	}
}

func (x *lockRun) start() chan struct{} {
	x.names = lockNames
	x.strt = make(chan struct{})
	for g, sc := range x.cfg.scripts {
		x.wg.Add(1)
		go x.worker(g, sc)
	}
	close(x.strt)
	done := make(chan struct{})
	go func() { x.wg.Wait(); close(done) }()
	return done
}

func (x *lockRun) run(t *testing.T, stop *atomic.Bool) int {
	if x.cfg.bubble {
		st := 0
		p := inBubble(t, func() {
			done := x.start()
			time.Sleep(time.Hour)
			synctest.Wait()
			select {
			case <-done:
			default:
				st = 1
				x.fail(x.name()+"-deadlock", "bubble quiescent (every goroutine durably blocked) with lock operations still open; no goroutine ever holds two locks")
			}
		})
		if p != nil && st == 0 {
			st = 1
			x.fail(x.name()+"-deadlock", fmt.Sprintf("synctest: %v", p))
		}
		return st
	}
	if !waitRT(x.start(), stop) {
		return 2
	}
	return 0
}

type lstate struct {
	w bool
	r int
}

type lIn struct {
	kind uint8
	rw   bool
}

// lockStep is the sequential lock specification. Blocking acquires are only
// enabled when they can succeed. With lenient set, a failing TryLock/TryRLock
// is always allowed (the property only requires that a Try succeeds only when
// the lock is free); the strict model also requires a cause for the failure:
// the lock is held in a conflicting mode.
func lockStep(lenient bool) func(st, in, out any) (bool, any) {
	return func(st, in, out any) (bool, any) {
		s, i, ok := st.(lstate), in.(lIn), out.(bool)
		switch i.kind {
		case lLock:
			return !s.w && s.r == 0, lstate{true, 0}
		case lTryLock:
			free := !s.w && s.r == 0
			if ok {
				return free, lstate{true, 0}
			}
			return lenient || !free, s
		case lUnlock:
			return s.w, lstate{false, s.r}
		case lRLock:
			return !s.w, lstate{false, s.r + 1}
		case lTryRLock:
			if ok {
				return !s.w, lstate{false, s.r + 1}
			}
			// a waiting writer also makes TryRLock fail (writer priority, as in
			// sync.RWMutex); waiting is not part of the sequential state, so a
			// failing TryRLock is never judged by the strict model either
			return true, s
		case lRUnlock:
			return s.r > 0 && !s.w, lstate{false, s.r - 1}
		}
		return false, s
	}
}

var (
	lockModelStrict  = porcupine.Model{Init: func() any { return lstate{} }, Step: lockStep(false)}
	lockModelLenient = porcupine.Model{Init: func() any { return lstate{} }, Step: lockStep(true)}
)

type lockTotals struct {
	ok, unknown, strictRejected atomic.Int64
}

func (x *lockRun) judge(tot *lockTotals) (nontrivial bool) {
	ops := x.all()
	hist := make([]porcupine.Operation, 0, len(ops))
	for _, o := range ops {
		hist = append(hist, porcupine.Operation{ClientId: o.g, Input: lIn{o.kind, x.cfg.rw}, Call: o.call, Output: o.ok, Return: o.ret.Load()})
	}
	res := porcupine.CheckOperationsTimeout(lockModelStrict, hist, 5*time.Second)
	if res == porcupine.Illegal {
		tot.strictRejected.Add(1)
		res = porcupine.CheckOperationsTimeout(lockModelLenient, hist, 5*time.Second)
	}
	switch res {
	case porcupine.Ok:
		tot.ok.Add(1)
	case porcupine.Unknown:
		tot.unknown.Add(1)
	case porcupine.Illegal:
		x.fail(x.name()+"-history-not-linearizable", fmt.Sprintf("no linearization of the %d-operation history matches the sequential %s model (exclusive alone, shared together, Try succeeds only when free)", len(hist), x.name()))
	}
	// non-trivial: two goroutines' sessions [acquire call, release return]
	// overlapped and at least one of them was exclusive
	type sess struct {
		g    int
		a, b int64
		excl bool
	}
	var ss []sess
	open := map[int]*opRec{}
	for _, o := range ops {
		switch o.kind {
		case lLock, lRLock, lTryLock, lTryRLock:
			if o.ok {
				open[o.g] = o
			}
		case lUnlock, lRUnlock:
			if a := open[o.g]; a != nil {
				ss = append(ss, sess{o.g, a.call, o.ret.Load(), o.kind == lUnlock})
				delete(open, o.g)
			}
		}
	}
	for i := range ss {
		for k := i + 1; k < len(ss); k++ {
			if ss[i].g != ss[k].g && (ss[i].excl || ss[k].excl) && ss[i].a < ss[k].b && ss[k].a < ss[i].b {
				return true
			}
		}
	}
	return false
}

// stepped lock scenario: holders and blocked acquirers are compared at every
// quiescence point: somebody blocked while nobody holds is a lost wake-up.
type lockStepG struct {
	id      int
	kind    uint8
	entered atomic.Bool
	cmd     chan struct{}
}

type lockStepRun struct {
	failer
	rw            bool
	mu            kgo.VerifMutex
	rwmu          kgo.VerifRWMutex
	w, rd         atomic.Int32
	all           []*lockStepG
	log           []string
	evals         int
	nextID        int
	tryFailedFree int
}

func (s *lockStepRun) name() string {
	if s.rw {
		return "rwmutex"
	}
	return "mutex"
}

func (s *lockStepRun) spawn(kind uint8) {
	g := &lockStepG{id: s.nextID, kind: kind, cmd: make(chan struct{}, 1)}
	s.nextID++
	s.all = append(s.all, g)
	go func() {
		shared := kind == lRLock
		switch {
		case !s.rw:
			s.mu.Lock()
		case shared:
			s.rwmu.RLock()
		default:
			s.rwmu.Lock()
		}
		if shared {
			s.rd.Add(1)
			if n := s.w.Load(); n != 0 {
				s.fail(s.name()+"-reader-with-writer", fmt.Sprintf("RLock returned to #%d while a writer holds", g.id))
			}
		} else {
			if n := s.w.Add(1); n != 1 {
				s.fail(s.name()+"-two-writers", fmt.Sprintf("Lock returned to #%d while another writer holds", g.id))
			}
			if n := s.rd.Load(); n != 0 {
				s.fail(s.name()+"-writer-with-readers", fmt.Sprintf("Lock returned to #%d while %d reader(s) hold", g.id, n))
			}
		}
		g.entered.Store(true)
		<-g.cmd
		if shared {
			s.rd.Add(-1)
			s.rwmu.RUnlock()
		} else {
			s.w.Add(-1)
			if s.rw {
				s.rwmu.Unlock()
			} else {
				s.mu.Unlock()
			}
		}
	}()
}

func (s *lockStepRun) settle(where string) {
	synctest.Wait()
	var holders, blocked, blockedW, blockedR []*lockStepG
	for _, g := range s.all {
		if g.entered.Load() {
			holders = append(holders, g)
		} else {
			blocked = append(blocked, g)
			if g.kind == lRLock {
				blockedR = append(blockedR, g)
			} else {
				blockedW = append(blockedW, g)
			}
		}
	}
	s.evals++
	if len(blocked) > 0 && len(holders) == 0 {
		s.fail(s.name()+"-lost-wakeup", fmt.Sprintf("%s: %d acquirer(s) (%d exclusive, %d shared) are blocked at quiescence although nobody holds the lock", where, len(blocked), len(blockedW), len(blockedR)))
	}
	holdsW := false
	for _, h := range holders {
		if h.kind != lRLock {
			holdsW = true
		}
	}
	if len(blockedR) > 0 && !holdsW && len(blockedW) == 0 {
		s.fail(s.name()+"-reader-blocked-without-writer", fmt.Sprintf("%s: %d reader(s) blocked at quiescence although no writer holds or waits", where, len(blockedR)))
	}
	s.log = append(s.log, fmt.Sprintf("%s => holders=%d (writer=%v) blockedWriters=%d blockedReaders=%d", where, len(holders), holdsW, len(blockedW), len(blockedR)))
}

func (s *lockStepRun) holders() []*lockStepG {
	var hs []*lockStepG
	for _, g := range s.all {
		if g.entered.Load() {
			hs = append(hs, g)
		}
	}
	return hs
}

func (s *lockStepRun) release(g *lockStepG, where string) {
	for i, a := range s.all {
		if a == g {
			s.all = append(s.all[:i], s.all[i+1:]...)
			break
		}
	}
	g.cmd <- struct{}{}
	s.settle(fmt.Sprintf("%s #%d", where, g.id))
}

func (s *lockStepRun) try(shared bool) {
	// quiescent and sequential: a success while a conflicting holder exists is a violation
	hs := s.holders()
	var ok bool
	switch {
	case !s.rw:
		ok = s.mu.TryLock()
	case shared:
		ok = s.rwmu.TryRLock()
	default:
		ok = s.rwmu.TryLock()
	}
	s.evals++
	conflict := false
	for _, h := range hs {
		if !shared || h.kind != lRLock {
			conflict = true
		}
	}
	if ok && conflict {
		s.fail(s.name()+"-try-succeeded-while-held", fmt.Sprintf("Try (shared=%v) succeeded at quiescence while %d conflicting holder(s) exist", shared, len(hs)))
	}
	if !ok && len(s.all) == 0 {
		s.tryFailedFree++ // free lock, nobody waiting: not judged by the property, counted
	}
	if ok {
		switch {
		case !s.rw:
			s.mu.Unlock()
		case shared:
			s.rwmu.RUnlock()
		default:
			s.rwmu.Unlock()
		}
	}
	s.log = append(s.log, fmt.Sprintf("try shared=%v => %v (holders=%d)", shared, ok, len(hs)))
}

func runLockStep(t *testing.T, rng *rand.Rand, rw bool) *lockStepRun {
	s := &lockStepRun{rw: rw}
	p := inBubble(t, func() {
		n := 4 + rng.IntN(14)
		for i := 0; i < n && !s.failed(); i++ {
			switch op := rng.IntN(10); {
			case op < 3 && rw:
				k := 1 + rng.IntN(3)
				for q := 0; q < k; q++ {
					s.spawn(lRLock)
				}
				s.settle(fmt.Sprintf("start %d readers", k))
			case op < 5:
				s.spawn(lLock)
				s.settle("start writer")
			case op < 8:
				if hs := s.holders(); len(hs) > 0 {
					s.release(hs[rng.IntN(len(hs))], "release")
				}
			default:
				s.try(rw && rng.IntN(2) == 0)
			}
		}
		for i := 0; i < 256 && !s.failed(); i++ {
			hs := s.holders()
			if len(hs) == 0 {
				break
			}
			s.release(hs[0], "drain release")
		}
	})
	if p != nil && !s.failed() {
		s.fail(s.name()+"-deadlock", fmt.Sprintf("stepped scenario, synctest: %v", p))
	}
	return s
}

// ---------------------------------------------------------------- entry

func TestCheck(t *testing.T) {
	r := vh.Start(t, "C31")
	workers := runtime.NumCPU() / 2
	if workers < 2 {
		workers = 2
	}
	var stop atomic.Bool
	bail := func() {
		if r.Violations() >= 1 {
			stop.Store(true)
		}
	}
	// calibration knob only: VERIF_C31_PHASES=gatestep,gatefree,lockstep,lockfree,e2e (default: all)
	phases := os.Getenv("VERIF_C31_PHASES")
	on := func(name string) bool { return phases == "" || strings.Contains(","+phases+",", ","+name+",") }
	phase := time.Now()
	lap := func(name string) {
		r.Set("wall_s_"+name, time.Since(phase).Seconds())
		phase = time.Now()
	}

	// 0. the binary must be the synctests build: channel-based xsync types
	mt := reflect.TypeOf(kgo.VerifMutex{})
	_, hasCh := mt.FieldByName("ch")
	r.Set("synctests_build_tag", synctestsTag)
	r.Set("verif_mutex_type", fmt.Sprintf("%s.%s (channel field: %v)", mt.PkgPath(), mt.Name(), hasCh))
	mutexOK := synctestsTag && hasCh
	if !mutexOK {
		r.Inconclusive("the test binary was not built with -tags synctests: kgo.VerifMutex is sync.Mutex, the channel-based mutexes were not exercised")
		fmt.Println("INCONCLUSIVE property=C31 built without the synctests tag")
	}

	// 1. stepped gate scenarios against the gate model (bubble)
	var gs struct{ runs, evals, unmodelled, late, lateReb atomic.Int64 }
	vh.Parallel(r.Pick(6000, 150000), workers, func(i int) {
		if stop.Load() || !on("gatestep") {
			return
		}
		s := runGateStep(t, r.Rand("c31-gatestep", i))
		gs.runs.Add(1)
		gs.evals.Add(int64(s.evals))
		gs.late.Add(int64(s.lateReleases))
		gs.lateReb.Add(int64(s.lateReleasesWithRebalance))
		r.Eval(s.evals)
		if s.unmodelled {
			gs.unmodelled.Add(1)
		}
		if i == 0 {
			r.Sample(map[string]any{"kind": "stepped gate scenario", "steps": s.log})
		}
		report(r, &s.failer, func() any { return s.log })
		bail()
	})
	lap("gate_stepped")

	// 2. free-running gate workloads, bubble and real time
	var gf struct{ rt, bubble, concurrent, timeouts, overlap, polls, rebs atomic.Int64 }
	vh.Parallel(r.Pick(10000, 150000), workers, func(i int) {
		if stop.Load() || !on("gatefree") {
			return
		}
		rng := r.Rand("c31-gate", i)
		cfg := genGateCfg(rng, i)
		cfg.bubble = rng.IntN(2) == 0
		// concurrent polls only in bubbles (a deadlock there is a verdict, in
		// real time it would only be a hang)
		cfg.serialPolls = !cfg.bubble || rng.IntN(2) == 0
		x := &gateRun{r: r, cfg: cfg}
		st := x.run(t, &stop)
		if cfg.bubble {
			gf.bubble.Add(1)
		} else {
			gf.rt.Add(1)
		}
		if !cfg.serialPolls {
			gf.concurrent.Add(1)
		}
		if st == 2 {
			if !stop.Load() {
				gf.timeouts.Add(1)
				r.Inconclusive(fmt.Sprintf("gate workload %d (real time) not finished after %v wall clock: timing only, not judged", i, rtGrace))
				if gf.timeouts.Load() >= 2 {
					stop.Store(true)
				}
			}
			return
		}
		r.Eval(1)
		if st == 0 {
			ops := x.all()
			for _, o := range ops {
				switch o.kind {
				case gPoll:
					gf.polls.Add(1)
				case gRebWait:
					gf.rebs.Add(1)
				}
			}
			if gateOverlap(ops) {
				gf.overlap.Add(1)
				r.Distinct(fmt.Sprintf("gate-%x", shape(ops)))
			}
			if i < 2 {
				d := x.dump()
				if len(d) > 40 {
					d = append(d[:40], "...")
				}
				r.Sample(map[string]any{"kind": "gate workload", "config": fmt.Sprintf("%+v", cfg), "events": d})
			}
		}
		report(r, &x.failer, func() any { return map[string]any{"config": fmt.Sprintf("%+v", cfg), "events": x.dump()} })
		bail()
	})
	lap("gate_free")

	// 3. mutexes (only meaningful in the synctests build)
	var lf struct{ rt, bubble, timeouts, nontrivial, stepRuns, stepEvals, tryFailedFree atomic.Int64 }
	var lt lockTotals
	if mutexOK {
		vh.Parallel(r.Pick(4000, 100000), workers, func(i int) {
			if stop.Load() || !on("lockstep") {
				return
			}
			s := runLockStep(t, r.Rand("c31-lockstep", i), i%3 != 0)
			lf.stepRuns.Add(1)
			lf.stepEvals.Add(int64(s.evals))
			lf.tryFailedFree.Add(int64(s.tryFailedFree))
			r.Eval(s.evals)
			if i == 1 {
				r.Sample(map[string]any{"kind": "stepped " + s.name() + " scenario", "steps": s.log})
			}
			report(r, &s.failer, func() any { return s.log })
			bail()
		})
		lap("lock_stepped")
		vh.Parallel(r.Pick(8000, 100000), workers, func(i int) {
			if stop.Load() || !on("lockfree") {
				return
			}
			rng := r.Rand("c31-lock", i)
			cfg := genLockCfg(rng, i)
			cfg.bubble = rng.IntN(2) == 0
			x := &lockRun{r: r, cfg: cfg}
			st := x.run(t, &stop)
			if cfg.bubble {
				lf.bubble.Add(1)
			} else {
				lf.rt.Add(1)
			}
			if st == 2 {
				if !stop.Load() {
					lf.timeouts.Add(1)
					r.Inconclusive(fmt.Sprintf("lock workload %d (real time) not finished after %v wall clock: timing only, not judged", i, rtGrace))
					if lf.timeouts.Load() >= 2 {
						stop.Store(true)
					}
				}
				return
			}
			r.Eval(1)
			if st == 0 {
				if x.judge(&lt) {
					lf.nontrivial.Add(1)
					r.Distinct(fmt.Sprintf("%s-%x", x.name(), shape(x.all())))
				}
				if i == 0 {
					r.Sample(map[string]any{"kind": x.name() + " workload", "events": x.dump()})
				}
			}
			report(r, &x.failer, func() any { return map[string]any{"config": fmt.Sprintf("%+v", cfg), "events": x.dump()} })
			bail()
		})
		lap("lock_free")
	}

	// 4. end-to-end twin
	if !stop.Load() && on("e2e") {
		runE2E(t, r)
		lap("e2e")
	}

	r.Count("gate_stepped_scenarios", int(gs.runs.Load()))
	r.Count("gate_stepped_expectations_judged", int(gs.evals.Load()))
	r.Count("gate_stepped_unmodelled", int(gs.unmodelled.Load()))
	r.Count("gate_stepped_late_unaddpoller_after_allowrebalance", int(gs.late.Load()))
	r.Count("gate_stepped_late_unaddpoller_with_rebalance_registered", int(gs.lateReb.Load()))
	r.Count("gate_workloads_realtime", int(gf.rt.Load()))
	r.Count("gate_workloads_bubble", int(gf.bubble.Load()))
	r.Count("gate_workloads_concurrent_polls", int(gf.concurrent.Load()))
	r.Count("gate_workloads_poller_rebalance_overlap", int(gf.overlap.Load()))
	r.Count("gate_polls", int(gf.polls.Load()))
	r.Count("gate_rebalances", int(gf.rebs.Load()))
	r.Count("lock_stepped_scenarios", int(lf.stepRuns.Load()))
	r.Count("lock_stepped_expectations_judged", int(lf.stepEvals.Load()))
	r.Count("lock_try_failed_on_free_lock_at_quiescence", int(lf.tryFailedFree.Load()))
	r.Count("lock_workloads_realtime", int(lf.rt.Load()))
	r.Count("lock_workloads_bubble", int(lf.bubble.Load()))
	r.Count("lock_workloads_writer_overlap", int(lf.nontrivial.Load()))
	r.Count("porcupine_ok", int(lt.ok.Load()))
	r.Count("porcupine_unknown", int(lt.unknown.Load()))
	r.Count("porcupine_strict_model_rejected_lenient_accepted", int(lt.strictRejected.Load()))
	r.Count("realtime_watchdog_timeouts", int(gf.timeouts.Load()+lf.timeouts.Load()))
	r.Set("exhaustive", false)
	if n := lt.unknown.Load(); n > 0 {
		r.Inconclusive(fmt.Sprintf("porcupine timed out on %d lock histories (not judged for linearizability)", n))
	}

	r.Finish("exploration",
		"cases: (1) stepped gate scenarios in synctest bubbles: random sequences of fresh pollers, rebalances, UnaddPoller, AllowRebalance (also with polls still in flight whose UnaddPoller arrives afterwards, which the gate must treat as a no-op), UnaddRebalance, every goroutine compared with a sequential gate model at each quiescence point; (2) free-running contract-following gate workloads (1-4 pollers polling in batches with empty/record results, 1-3 rebalancers, optional extra AllowRebalance callers) in bubbles and in real time with shadow occupancy counters; (3) stepped and free-running Mutex/RWMutex workloads (lockers, readers, TryLock/TryRLock) with shadow counters, porcupine and bubble deadlock detection; (4) a BlockRebalanceOnPoll group consumer pair against kfake. One evaluation = one judged expectation at a quiescence point, one judged free-running workload, or one judged revoke/lost callback. Non-trivial: a poller's hold overlapped a rebalance's wait/critical section (gate) or two sessions with at least one exclusive overlapped (locks); distinct by hash of (op kinds, call/return order, goroutine renaming)",
		"schedules are those the Go scheduler produces on this machine under delay injection; 'all interleavings' is not reached",
		"free-running workloads follow the documented contract (AllowRebalance only when no poll is in flight and every record-returning poll is done); the stepped scenarios additionally issue the tolerated violation (AllowRebalance with polls in flight, late UnaddPoller) but only while the model's poller count is zero; no goroutine holds two locks; no recursive read locking",
		"a fresh poller arriving while another poller holds and a rebalance waits is not judged (the statement does not say whether it may enter)",
		"a failing TryLock/TryRLock is not a violation by itself; only a success while the lock is held in a conflicting mode is",
		"a real-time workload that does not finish within the wall-clock grace is reported inconclusive, never as a violation; deadlock verdicts come only from synctest bubbles",
	)
}
