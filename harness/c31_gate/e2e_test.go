package c31

import (
	"context"
	"fmt"
	"sync"
	"sync/atomic"
	"testing"
	"time"

	"github.com/twmb/franz-go/pkg/kfake"
	"github.com/twmb/franz-go/pkg/kgo"

	"verifharness/internal/vh"
)

// e2eMember is one BlockRebalanceOnPoll group member. busy is set after
// PollRecords returned records and cleared just before AllowRebalance: a
// revoked/lost callback that sees it set ran while a record-returning poll
// was outstanding.
type e2eMember struct {
	name      string
	cl        *kgo.Client
	busy      atomic.Bool
	callbacks atomic.Int64
	records   atomic.Int64
	polls     atomic.Int64
	bad       atomic.Int64
	badWhat   atomic.Value
}

func newE2EMember(name string, addrs []string, group, topic string) (*e2eMember, error) {
	m := &e2eMember{name: name}
	cb := func(kind string) func(context.Context, *kgo.Client, map[string][]int32) {
		return func(_ context.Context, _ *kgo.Client, parts map[string][]int32) {
			m.callbacks.Add(1)
			if m.busy.Load() {
				m.bad.Add(1)
				m.badWhat.Store(fmt.Sprintf("member %s: %s%v ran while a poll that returned records was outstanding (before AllowRebalance)", name, kind, parts))
			}
		}
	}
	cl, err := kgo.NewClient(
		kgo.SeedBrokers(addrs...),
		kgo.ConsumerGroup(group),
		kgo.ConsumeTopics(topic),
		kgo.BlockRebalanceOnPoll(),
		kgo.OnPartitionsRevoked(cb("OnPartitionsRevoked")),
		kgo.OnPartitionsLost(cb("OnPartitionsLost")),
		kgo.FetchMaxWait(100*time.Millisecond),
		kgo.HeartbeatInterval(100*time.Millisecond),
		kgo.SessionTimeout(10*time.Second),
		kgo.RebalanceTimeout(10*time.Second),
	)
	if err != nil {
		return nil, err
	}
	m.cl = cl
	return m, nil
}

// pollLoop polls until ctx is done, as a BlockRebalanceOnPoll user must:
// every poll is followed by AllowRebalance.
func (m *e2eMember) pollLoop(ctx context.Context, work time.Duration) {
	for ctx.Err() == nil {
		pctx, cancel := context.WithTimeout(ctx, 150*time.Millisecond)
		fs := m.cl.PollRecords(pctx, 20)
		cancel()
		m.polls.Add(1)
		if n := fs.NumRecords(); n > 0 {
			m.busy.Store(true)
			m.records.Add(int64(n))
			time.Sleep(work) // processing
			m.busy.Store(false)
		}
		m.cl.AllowRebalance()
	}
}

func runE2E(t *testing.T, r *vh.Run) {
	cycles := r.Pick(5, 60)
	done := make(chan string, 1)
	var members sync.Map
	var evals, callbacks, records, polls atomic.Int64
	go func() {
		done <- func() string {
			c, err := kfake.NewCluster(kfake.NumBrokers(1), kfake.SeedTopics(6, "c31"))
			if err != nil {
				return "kfake: " + err.Error()
			}
			defer c.Close()
			addrs := c.ListenAddrs()
			ctx, cancel := context.WithCancel(context.Background())
			defer cancel()

			// producer keeps every partition non-empty
			pcl, err := kgo.NewClient(kgo.SeedBrokers(addrs...), kgo.DefaultProduceTopic("c31"), kgo.RecordPartitioner(kgo.RoundRobinPartitioner()))
			if err != nil {
				return "producer: " + err.Error()
			}
			defer pcl.Close()
			var pwg sync.WaitGroup
			pwg.Add(1)
			go func() {
				defer pwg.Done()
				for ctx.Err() == nil {
					for i := 0; i < 12; i++ {
						pcl.Produce(ctx, kgo.StringRecord("v"), nil)
					}
					pcl.Flush(ctx)
					select {
					case <-ctx.Done():
					case <-time.After(20 * time.Millisecond):
					}
				}
			}()
			defer pwg.Wait()
			defer cancel()

			finish := func(m *e2eMember) {
				callbacks.Add(m.callbacks.Load())
				records.Add(m.records.Load())
				polls.Add(m.polls.Load())
				evals.Add(m.callbacks.Load())
				if m.bad.Load() > 0 {
					members.Store(m.name, m.badWhat.Load())
				}
			}

			a, err := newE2EMember("A", addrs, "c31-group", "c31")
			if err != nil {
				return "member A: " + err.Error()
			}
			actx, acancel := context.WithCancel(ctx)
			var awg sync.WaitGroup
			awg.Add(1)
			go func() { defer awg.Done(); a.pollLoop(actx, 3*time.Millisecond) }()
			defer func() { acancel(); awg.Wait(); a.cl.AllowRebalance(); a.cl.Close(); finish(a) }()

			rng := r.Rand("c31-e2e", 0)
			for cyc := 0; cyc < cycles; cyc++ {
				// wait until A consumes, then let B join (rebalance: A revokes), consume, and leave (A regains)
				for i := 0; i < 200 && a.records.Load() == 0; i++ {
					time.Sleep(10 * time.Millisecond)
				}
				b, err := newE2EMember(fmt.Sprintf("B%d", cyc), addrs, "c31-group", "c31")
				if err != nil {
					return "member B: " + err.Error()
				}
				bctx, bcancel := context.WithCancel(ctx)
				var bwg sync.WaitGroup
				bwg.Add(1)
				go func() { defer bwg.Done(); b.pollLoop(bctx, time.Duration(1+rng.IntN(5))*time.Millisecond) }()
				before := b.records.Load()
				for i := 0; i < 400 && b.records.Load() == before; i++ {
					time.Sleep(10 * time.Millisecond)
				}
				time.Sleep(time.Duration(20+rng.IntN(80)) * time.Millisecond)
				bcancel()
				bwg.Wait()
				b.cl.AllowRebalance()
				b.cl.Close() // leaves the group: its partitions are revoked, A is rebalanced
				finish(b)
			}
			return ""
		}()
	}()
	select {
	case msg := <-done:
		if msg != "" {
			r.Inconclusive("end-to-end twin could not run: " + msg)
		}
	case <-time.After(time.Duration(r.Pick(120, 900)) * time.Second):
		r.Inconclusive("end-to-end twin did not finish within its wall-clock budget: timing only, not judged")
		return
	}
	members.Range(func(k, v any) bool {
		r.Violation("e2e-rebalance-callback-during-outstanding-poll", map[string]any{"what": v})
		return true
	})
	r.Eval(int(evals.Load()))
	r.Count("e2e_member_joins", cycles+1)
	r.Count("e2e_revoked_or_lost_callbacks_judged", int(callbacks.Load()))
	r.Count("e2e_records_polled", int(records.Load()))
	r.Count("e2e_polls", int(polls.Load()))
	if callbacks.Load() == 0 {
		r.Inconclusive("end-to-end twin observed no revoked/lost callback")
	} else {
		r.Distinct("e2e-callbacks-observed")
	}
	r.Sample(map[string]any{"kind": "end-to-end twin", "member_joins": cycles + 1, "callbacks": callbacks.Load(), "records": records.Load(), "polls": polls.Load()})
}
