package c31

import (
	"testing"

	"verifharness/internal/vh"
)

func runE2E(t *testing.T, r *vh.Run) {}
