//go:build !synctests

package c31

const synctestsTag = false
