//go:build synctests

package c31

// synctestsTag records that this test binary was built with -tags synctests,
// i.e. that kgo's xsync.Mutex / xsync.RWMutex are the channel-based types.
const synctestsTag = true
