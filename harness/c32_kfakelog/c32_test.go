// C32 — kfake behaves like a Kafka partition log.
//
// Monitor: an independent sequential reference model of a partition log
// (refmodel_test.go) is driven with the same seeded random history as kfake
// through the raw protocol (a kgo client is only the transport; requests and
// record batches are hand-built), and every response is compared with the
// model after every step. Concurrent multi-connection histories on a single
// partition are checked for linearizability against the same model.
package c32

import (
	"context"
	"runtime"
	"testing"
	"time"

	"verifharness/internal/vh"
)

func TestCheck(t *testing.T) {
	r := vh.Start(t, "C32")
	ctx, cancel := context.WithTimeout(context.Background(), time.Duration(r.Pick(420, 3300))*time.Second)
	defer cancel()

	workers := min(runtime.NumCPU(), 12)
	nSeq, steps := r.Pick(600, 12000), r.Pick(200, 200)
	t0 := time.Now()
	vh.Parallel(nSeq, workers, func(i int) {
		if ctx.Err() != nil || r.Violations() >= 12 {
			return
		}
		runHistory(r, ctx, i, steps)
	})
	r.Set("sequential_phase_wall_s", time.Since(t0).Seconds())
	t1 := time.Now()
	nConc := r.Pick(3000, 40000)
	vh.Parallel(nConc, workers, func(i int) {
		if ctx.Err() != nil || r.Violations() >= 12 {
			return
		}
		runConcurrent(r, ctx, i)
	})
	r.Set("concurrent_phase_wall_s", time.Since(t1).Seconds())
	if ctx.Err() != nil {
		r.Inconclusive("watchdog context expired before all histories ran")
	}
	r.Set("exhaustive", false)
	r.Finish("exploration",
		"sequential: seeded random histories of raw protocol requests against a fresh one-broker kfake with one 3-partition topic, applied step by step to kfake and to the reference model: InitProducerID (idempotent / transactional, re-init incl. the KIP-360 form that aborts an open transaction), AddPartitionsToTxn (version-capped client, produce v9) or implicit add (produce v13), Produce (plain / idempotent / transactional; next in sequence, exact retries inside and beyond the 5-batch window, gaps and steps back, first sequences near 2^31, fenced epochs, partition not added), EndTxn commit/abort (v3 without and v5 with epoch bump), a 100 ms transaction timeout, DeleteRecords (inside and outside [log start, HWM]), ListOffsets, Fetch at both isolation levels (sessionless with 1-3 partitions, byte-limited, out of range) and incremental fetch sessions (create, incremental with advanced offsets / added / forgotten partitions, wrong id or epoch, close) on both fetch v12 (names) and v18 (topic ids); after every step a probe fetch compares HWM, LSO and log start of all partitions, at the end every partition is read completely at both isolation levels. One evaluation = one judged response (per partition for fetches). Concurrent: 2-6 goroutines with their own connections and transactional producers (or one plain producer) do transactional produce / exact retry / EndTxn / fetch on one partition, the recorded history (plus two final full reads) is checked with porcupine against the same model; one evaluation = one operation of a history with a definite verdict. Non-trivial: the history contains >=1 transaction end and >=1 duplicate retry or incremental session fetch (concurrent: >=1 transaction end, >=1 retry or read_committed fetch, and >=1 pair of requests overlapping in time); distinct by hash of the op-kind sequence",
		"trusted: the reference model (refmodel_test.go), the comparison rules (judge_test.go), the record-batch codec internal/reflog, kgo's Broker.Request as a transport that sends exactly one request per call",
		"judged: produce error/base offset; HWM, LSO (=min(first offset of an open transaction, HWM)), log start; returned batches (read_uncommitted: up to HWM; read_committed: exactly those below the LSO); the AbortedTransactions list as a set with a lower bound (every aborted transaction with data in the returned range) and an upper bound (only really aborted transactions whose marker is not before the returned range); the records a protocol-following read_committed consumer would deliver = the committed data; retried idempotent batches (original offset, nothing appended, OUT_OF_ORDER_SEQUENCE_NUMBER for wrong sequences); incremental sessions must include every partition whose data/HWM/log start changed (extra partitions are not a violation)",
		"not judged (counted as dontcare_*): ListOffsets by timestamp and max-timestamp, error codes of EndTxn without an open transaction, the epoch returned by re-init, error codes for a wrong fetch session id/epoch, the LSO value when DeleteRecords moved the log start above an open transaction's first offset (either is accepted), byte-limited fetches (any prefix with at least one batch), exact error code for a transactional produce to a partition that was not added. Transaction timeouts are exercised only as 'open a transaction, wait 3x the timeout, the transaction must be aborted'",
		"Unknown (timed-out) linearizability searches are inconclusive, never a verdict",
	)
}
