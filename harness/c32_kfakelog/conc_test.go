package c32

// Concurrent multi-connection histories on one partition, checked for
// linearizability (porcupine) against the same reference model. kfake handles
// requests in one serial loop, so every history of completed requests must be
// explainable by some order of the requests that respects real time.

import (
	"context"
	"fmt"
	"hash/fnv"
	"sort"
	"strings"
	"sync"
	"time"

	"github.com/anishathalye/porcupine"
	"github.com/twmb/franz-go/pkg/kfake"
	"github.com/twmb/franz-go/pkg/kgo"
	"github.com/twmb/franz-go/pkg/kmsg"

	"verifharness/internal/vh"
)

type cIn struct {
	Kind   string // produce | plain | retry | end | fetch
	G      int
	Spec   ProduceSpec
	PID    int64
	Epoch  int16
	Commit bool
	Off    int64
	RC     bool
}

type cOut struct {
	Code      int16
	Base      int64
	Ver       int16
	RespPID   int64
	RespEpoch int16
	Got       *GotPart
}

func (in cIn) String() string {
	switch in.Kind {
	case "end":
		return fmt.Sprintf("g%d EndTxn(pid%d epoch=%d commit=%v)", in.G, in.PID%1000, in.Epoch, in.Commit)
	case "fetch":
		return fmt.Sprintf("g%d Fetch(off=%d rc=%v)", in.G, in.Off, in.RC)
	}
	return fmt.Sprintf("g%d Produce[%s](pid%d epoch=%d seq=%d n=%d txn=%v %s)", in.G, in.Kind, in.Spec.PID%1000, in.Spec.Epoch, in.Spec.Seq, in.Spec.N, in.Spec.Txn, in.Spec.Tag)
}

func (o cOut) String() string {
	if o.Got != nil {
		g := o.Got
		return fmt.Sprintf("err=%d hwm=%d lso=%d ls=%d %s ab=%v", g.Err, g.HWM, g.LSO, g.LogStart, fmtBatches(g.Batches), g.Aborted)
	}
	return fmt.Sprintf("code=%d base=%d epoch=%d", o.Code, o.Base, o.RespEpoch)
}

// produceMatches: does the broker's answer agree with the model's expectation.
func produceMatches(ex ProduceExpect, code int16, base int64) bool {
	if ex.DontCare {
		return true
	}
	if ex.OK {
		return code == 0 && base == ex.Base
	}
	if code == 0 {
		return false
	}
	if len(ex.Errs) == 0 {
		return true
	}
	for _, e := range ex.Errs {
		if e == code {
			return true
		}
	}
	return false
}

func concStep(state, input, output any) (bool, any) {
	s := state.(*MCluster).clone()
	in, out := input.(cIn), output.(cOut)
	switch in.Kind {
	case "produce", "plain", "retry":
		sp := in.Spec
		sp.ImplicitAdd = out.Ver >= 12
		ex := s.Produce(0, sp)
		return produceMatches(ex, out.Code, out.Base), s
	case "end":
		if !s.EndTxn(in.PID, in.Commit) {
			return false, s // the generator only ends open transactions
		}
		if out.Code != 0 {
			return false, s
		}
		if out.Ver >= 5 {
			s.Prod[in.PID].Epoch = out.RespEpoch
		}
		return true, s
	case "fetch":
		p := s.Parts[0]
		fe := p.Fetch(in.Off, in.RC)
		return judgeFetch(p, in.Off, fetchMode{readCommitted: in.RC}, fe, out.Got) == nil, s
	}
	return false, s
}

func concModel(init *MCluster) porcupine.Model {
	return porcupine.Model{
		Init: func() any { return init.clone() },
		Step: concStep,
		Equal: func(a, b any) bool {
			return a.(*MCluster).key() == b.(*MCluster).key()
		},
		Hash: func(a any) uint64 {
			h := fnv.New64a()
			h.Write([]byte(a.(*MCluster).key()))
			return h.Sum64()
		},
		DescribeOperation: func(i, o any) string { return i.(cIn).String() + " -> " + o.(cOut).String() },
	}
}

type concStats struct {
	ops, ends, retries, fetchRC, overlaps int
}

// runConcurrent runs one concurrent history and checks it.
func runConcurrent(r *vh.Run, ctx context.Context, hid int) {
	rng := r.Rand("conc", hid)
	c, err := kfake.NewCluster(kfake.NumBrokers(1), kfake.SeedTopics(1, topicName))
	if err != nil {
		r.Inconclusive(fmt.Sprintf("concurrent history %d: setup: %v", hid, err))
		return
	}
	defer c.Close()
	ng := 2 + rng.IntN(5)
	var wires []*wire
	defer func() {
		for _, w := range wires {
			w.cl.Close()
		}
	}()
	var topicID [16]byte
	var leader int32
	for g := 0; g < ng; g++ {
		cl, err := kgo.NewClient(kgo.SeedBrokers(c.ListenAddrs()...))
		if err != nil {
			r.Inconclusive(fmt.Sprintf("concurrent history %d: client: %v", hid, err))
			return
		}
		wires = append(wires, &wire{cl: cl, topic: topicName})
		if g == 0 {
			mreq := kmsg.NewPtrMetadataRequest()
			mt := kmsg.NewMetadataRequestTopic()
			mt.Topic = kmsg.StringPtr(topicName)
			mreq.Topics = append(mreq.Topics, mt)
			kr, err := cl.Request(ctx, mreq)
			if err != nil {
				r.Inconclusive(fmt.Sprintf("concurrent history %d: metadata: %v", hid, err))
				return
			}
			mresp := kr.(*kmsg.MetadataResponse)
			if len(mresp.Topics) != 1 || len(mresp.Topics[0].Partitions) != 1 {
				r.Inconclusive("concurrent history: metadata shape")
				return
			}
			topicID = mresp.Topics[0].TopicID
			leader = mresp.Topics[0].Partitions[0].Leader
		}
		wires[g].topicID, wires[g].broker = topicID, leader
	}

	// sequential setup: one transactional producer per goroutine (goroutine 0
	// may instead be a plain producer); also warms up every connection kind.
	init := newCluster(1)
	type gstate struct {
		pid   int64
		epoch int16
		txid  string
		plain bool
		nops  int
		seed  uint64
	}
	gs := make([]*gstate, ng)
	for g := 0; g < ng; g++ {
		st := &gstate{nops: 4 + rng.IntN(6), seed: rng.Uint64()}
		gs[g] = st
		if g == 0 && rng.IntN(3) == 0 {
			st.plain = true
		} else {
			st.txid = fmt.Sprintf("ctx-%d-%d", hid, g)
			code, pid, epoch, err := wires[g].initPID(ctx, st.txid, 60000, -1, -1)
			if err != nil || code != 0 {
				r.Inconclusive(fmt.Sprintf("concurrent history %d: InitProducerID: code %d err %v", hid, code, err))
				return
			}
			st.pid, st.epoch = pid, epoch
			init.AddProducer(pid, epoch, true)
		}
		// warm up the produce and fetch connections (no effect on the log)
		if _, err := wires[g].fetch(ctx, FetchReq{SessEpoch: -1, Parts: []FetchPart{{Part: 0, Off: 0}}}); err != nil {
			r.Inconclusive(fmt.Sprintf("concurrent history %d: warm-up fetch: %v", hid, err))
			return
		}
	}
	// one warm-up batch through every produce connection, modelled as the
	// initial log
	for g := 0; g < ng; g++ {
		tag := fmt.Sprintf("c%d.warm%d", hid, g)
		spec := ProduceSpec{PID: -1, Epoch: -1, Seq: -1, N: 1, Tag: tag, Ts: tsBase}
		code, base, _, err := wires[g].produce(ctx, 0, buildBatch(-1, -1, -1, 1, false, tsBase, tag))
		if err != nil || code != 0 {
			r.Inconclusive(fmt.Sprintf("concurrent history %d: warm-up produce: code %d err %v", hid, code, err))
			return
		}
		if ex := init.Produce(0, spec); !produceMatches(ex, code, base) {
			r.Violation("produce: base offset of an appended batch is not the high watermark", fmt.Sprintf("concurrent warm-up: got base %d, model %d", base, ex.Base))
			return
		}
	}

	var (
		mu    sync.Mutex
		ops   []porcupine.Operation
		t0    = time.Now()
		start = make(chan struct{})
		wg    sync.WaitGroup
		fails []string
	)
	record := func(g int, in cIn, out cOut, call, ret int64) {
		mu.Lock()
		ops = append(ops, porcupine.Operation{ClientId: g, Input: in, Call: call, Output: out, Return: ret})
		mu.Unlock()
	}
	for g := 0; g < ng; g++ {
		wg.Add(1)
		go func(g int) {
			defer wg.Done()
			st := gs[g]
			lr := r.Rand(fmt.Sprintf("conc-g%d", g), hid)
			w := wires[g]
			var (
				seq     int32
				inTx    bool
				last    *cIn
				lastRaw []byte
				nb      int
				pos     int64
			)
			<-start
			for i := 0; i < st.nops; i++ {
				if ctx.Err() != nil {
					return
				}
				roll := lr.IntN(100)
				var in cIn
				var raw []byte
				switch {
				case roll < 22:
					in = cIn{Kind: "fetch", G: g, RC: lr.IntN(3) != 0}
					if lr.IntN(2) == 0 {
						in.Off = pos
					}
				case st.plain:
					nb++
					n := 1 + lr.IntN(2)
					tag := fmt.Sprintf("c%d.g%d.b%d", hid, g, nb)
					in = cIn{Kind: "plain", G: g, Spec: ProduceSpec{PID: -1, Epoch: -1, Seq: -1, N: int32(n), Tag: tag, Ts: tsBase}}
					raw = buildBatch(-1, -1, -1, n, false, tsBase, tag)
				case roll < 32 && last != nil && last.Spec.Epoch == st.epoch:
					in = *last
					in.Kind = "retry"
					raw = lastRaw
				case roll < 55 && inTx:
					in = cIn{Kind: "end", G: g, PID: st.pid, Epoch: st.epoch, Commit: lr.IntN(2) == 0}
				default:
					nb++
					n := 1 + lr.IntN(2)
					tag := fmt.Sprintf("c%d.g%d.b%d", hid, g, nb)
					in = cIn{Kind: "produce", G: g, Spec: ProduceSpec{PID: st.pid, Epoch: st.epoch, Seq: seq, N: int32(n), Txn: true, Tag: tag, Ts: tsBase}}
					raw = buildBatch(st.pid, st.epoch, seq, n, true, tsBase, tag)
				}
				call := time.Since(t0).Nanoseconds()
				var out cOut
				var err error
				switch in.Kind {
				case "fetch":
					var gf *GotFetch
					gf, err = w.fetch(ctx, FetchReq{Iso: map[bool]int8{false: 0, true: 1}[in.RC], SessEpoch: -1, Parts: []FetchPart{{Part: 0, Off: in.Off}}})
					if err == nil {
						if gf.TopErr != 0 || gf.Parts[0] == nil {
							err = fmt.Errorf("fetch top-level error %d / missing partition", gf.TopErr)
						} else {
							out.Got = gf.Parts[0]
							if n := len(out.Got.Batches); n > 0 {
								pos = out.Got.Batches[n-1].Last() + 1
							}
						}
					}
				case "end":
					out.Code, out.Ver, out.RespPID, out.RespEpoch, err = w.endTxn(ctx, st.txid, in.PID, in.Epoch, in.Commit)
				default:
					out.Code, out.Base, out.Ver, err = w.produce(ctx, 0, raw)
				}
				ret := time.Since(t0).Nanoseconds()
				if err != nil {
					mu.Lock()
					fails = append(fails, fmt.Sprintf("g%d %s: %v", g, in, err))
					mu.Unlock()
					return
				}
				record(g, in, out, call, ret)
				switch in.Kind {
				case "produce":
					if out.Code != 0 {
						return // the checker will say whether this refusal is explainable
					}
					seq += in.Spec.N
					inTx = true
					c := in
					last, lastRaw = &c, raw
				case "end":
					if out.Code != 0 {
						return
					}
					inTx = false
					if out.Ver >= 5 {
						if out.RespPID != st.pid {
							return
						}
						st.epoch = out.RespEpoch
						seq = 0
						last = nil
					}
				}
			}
		}(g)
	}
	close(start)
	wg.Wait()
	if len(fails) > 0 {
		r.Inconclusive(fmt.Sprintf("concurrent history %d: transport: %s", hid, strings.Join(fails, "; ")))
		return
	}
	// final reads, after everything else
	for _, rc := range []bool{false, true} {
		call := time.Since(t0).Nanoseconds()
		gf, err := wires[0].fetch(ctx, FetchReq{Iso: map[bool]int8{false: 0, true: 1}[rc], SessEpoch: -1, Parts: []FetchPart{{Part: 0, Off: 0}}})
		if err != nil || gf.TopErr != 0 || gf.Parts[0] == nil {
			r.Inconclusive(fmt.Sprintf("concurrent history %d: final fetch failed", hid))
			return
		}
		ret := time.Since(t0).Nanoseconds()
		ops = append(ops, porcupine.Operation{ClientId: 0, Input: cIn{Kind: "fetch", G: 0, RC: rc}, Call: call, Output: cOut{Got: gf.Parts[0]}, Return: ret})
	}

	var st concStats
	st.ops = len(ops)
	sort.Slice(ops, func(i, j int) bool { return ops[i].Call < ops[j].Call })
	var maxRet int64 = -1
	var kinds []string
	for _, op := range ops {
		in := op.Input.(cIn)
		kinds = append(kinds, fmt.Sprintf("%d%s", in.G, in.Kind[:1]))
		switch in.Kind {
		case "end":
			st.ends++
		case "retry":
			st.retries++
		case "fetch":
			if in.RC {
				st.fetchRC++
			}
		}
		if op.Call <= maxRet {
			st.overlaps++
		}
		if op.Return > maxRet {
			maxRet = op.Return
		}
	}
	res := porcupine.CheckOperationsTimeout(concModel(init), ops, 20*time.Second)
	r.Count("conc_histories", 1)
	r.Count("conc_ops", st.ops)
	r.Count("conc_overlapping_ops", st.overlaps)
	switch res {
	case porcupine.Unknown:
		r.Count("conc_unknown", 1)
		r.Inconclusive(fmt.Sprintf("concurrent history %d: linearizability search timed out (%d ops)", hid, st.ops))
		return
	case porcupine.Illegal:
		var lines []string
		for _, op := range ops {
			lines = append(lines, fmt.Sprintf("[%8d,%8d]us %s -> %s", op.Call/1000, op.Return/1000, op.Input.(cIn), op.Output.(cOut)))
		}
		r.Eval(st.ops)
		r.Violation("concurrent single-partition history is not linearizable against the partition-log model",
			map[string]any{"history_id": hid, "goroutines": ng, "operations_by_call_time": lines})
		return
	}
	r.Eval(st.ops)
	if st.ends > 0 && (st.retries > 0 || st.fetchRC > 0) && st.overlaps > 0 {
		r.DistinctHash("conc", strings.Join(kinds, ","))
	}
	if hid == 0 && r.WantSample() {
		var lines []string
		for i, op := range ops {
			if i >= 12 {
				break
			}
			lines = append(lines, fmt.Sprintf("[%d,%d]us %s -> %s", op.Call/1000, op.Return/1000, op.Input.(cIn), op.Output.(cOut)))
		}
		r.Sample(map[string]any{"kind": "concurrent history (first 12 ops by call time)", "goroutines": ng, "ops": lines, "result": string(res)})
	}
}
