package c32

// Sequential differential driver: one seeded random history of raw protocol
// requests is applied to kfake and to the reference model, comparing after
// every step.

import (
	"context"
	"fmt"
	"math/rand/v2"
	"sort"
	"strings"
	"time"

	"github.com/twmb/franz-go/pkg/kfake"
	"github.com/twmb/franz-go/pkg/kgo"
	"github.com/twmb/franz-go/pkg/kmsg"
	"github.com/twmb/franz-go/pkg/kversion"

	"verifharness/internal/vh"
)

const (
	topicName = "c32"
	nParts    = 3
	tsBase    = int64(1_700_000_000_000)
)

type sentBatch struct {
	raw   []byte
	spec  ProduceSpec
	part  int
	index int // position among the accepted batches of (producer, partition, epoch)
}

// producer is the client-side view of one producer id.
type producer struct {
	pid       int64
	epoch     int16
	txid      string
	old       bool // talks through the version-capped client: explicit AddPartitionsToTxn, EndTxn without epoch bump
	seq       map[int]int32
	accepted  map[int][]sentBatch // accepted batches of the current epoch per partition
	prevEpoch []sentBatch         // some batches of earlier epochs (for fenced-epoch produce)
}

type session struct {
	id    int32
	epoch int32
	old   bool
	pos   map[int]int64 // client position per partition in the session
	sent  map[int]int64 // the fetch offset the broker knows
}

type world struct {
	r       *vh.Run
	ctx     context.Context
	hid     int
	rng     *rand.Rand
	cluster *kfake.Cluster
	wNew    *wire
	wOld    *wire
	m       *MCluster
	prods   []*producer
	sess    []*session
	nbatch  int
	step    int
	ops     []string
	kinds   []string
	feat    map[string]int
	broken  string // set when the harness cannot continue this history (not a verdict)
	stopped bool
}

func (w *world) logf(format string, a ...any) {
	w.ops = append(w.ops, fmt.Sprintf("%03d ", w.step)+fmt.Sprintf(format, a...))
}

func (w *world) kind(k string) { w.kinds = append(w.kinds, k); w.feat[k]++ }

func (w *world) wire(old bool) *wire {
	if old {
		return w.wOld
	}
	return w.wNew
}

// violate records a refutation with the history that led to it.
func (w *world) violate(f *finding) {
	ops := w.ops
	if len(ops) > 400 {
		ops = ops[len(ops)-400:]
	}
	w.r.Violation(f.Sig, map[string]any{"history_id": w.hid, "step": w.step, "what": f.Detail, "history": ops})
	w.stopped = true
}

func (w *world) fail(err error, what string) {
	w.broken = fmt.Sprintf("%s: %v", what, err)
	w.stopped = true
}

func newWorld(r *vh.Run, ctx context.Context, hid int, stream string) (*world, error) {
	c, err := kfake.NewCluster(kfake.NumBrokers(1), kfake.SeedTopics(nParts, topicName))
	if err != nil {
		return nil, err
	}
	w := &world{r: r, ctx: ctx, hid: hid, rng: r.Rand(stream, hid), cluster: c, m: newCluster(nParts), feat: map[string]int{}}
	clNew, err := kgo.NewClient(kgo.SeedBrokers(c.ListenAddrs()...))
	if err != nil {
		c.Close()
		return nil, err
	}
	clOld, err := kgo.NewClient(kgo.SeedBrokers(c.ListenAddrs()...), kgo.MaxVersions(kversion.V2_8_0()))
	if err != nil {
		clNew.Close()
		c.Close()
		return nil, err
	}
	w.wNew = &wire{cl: clNew, topic: topicName}
	w.wOld = &wire{cl: clOld, topic: topicName}
	mreq := kmsg.NewPtrMetadataRequest()
	mt := kmsg.NewMetadataRequestTopic()
	mt.Topic = kmsg.StringPtr(topicName)
	mreq.Topics = append(mreq.Topics, mt)
	kr, err := clNew.Request(ctx, mreq)
	if err != nil {
		w.close()
		return nil, err
	}
	mresp := kr.(*kmsg.MetadataResponse)
	if len(mresp.Topics) != 1 || mresp.Topics[0].ErrorCode != 0 || len(mresp.Topics[0].Partitions) != nParts {
		w.close()
		return nil, fmt.Errorf("metadata: unexpected topic shape")
	}
	w.wNew.topicID = mresp.Topics[0].TopicID
	w.wOld.topicID = mresp.Topics[0].TopicID
	w.wNew.broker = mresp.Topics[0].Partitions[0].Leader
	w.wOld.broker = mresp.Topics[0].Partitions[0].Leader
	return w, nil
}

func (w *world) close() {
	w.wNew.cl.Close()
	w.wOld.cl.Close()
	w.cluster.Close()
}

func (w *world) nextTag() (string, int64) {
	w.nbatch++
	return fmt.Sprintf("h%d.b%d", w.hid, w.nbatch), tsBase + int64(w.step)*10
}

// ---------------------------------------------------------------------------
// steps

func (w *world) stepNewProducer(txn bool) {
	p := &producer{seq: map[int]int32{}, accepted: map[int][]sentBatch{}}
	if txn {
		p.txid = fmt.Sprintf("tx-%d-%d", w.hid, len(w.prods))
		p.old = w.rng.IntN(3) == 0
	} else {
		p.old = w.rng.IntN(2) == 0
	}
	code, pid, epoch, err := w.wire(p.old).initPID(w.ctx, p.txid, 60000, -1, -1)
	if err != nil {
		w.fail(err, "InitProducerID")
		return
	}
	w.logf("InitProducerID txid=%q old=%v -> code=%d pid=%d epoch=%d", p.txid, p.old, code, pid, epoch)
	if code != 0 {
		w.broken = fmt.Sprintf("InitProducerID for a fresh id failed with code %d", code)
		w.stopped = true
		return
	}
	p.pid, p.epoch = pid, epoch
	w.m.AddProducer(pid, epoch, txn)
	w.prods = append(w.prods, p)
	if txn {
		w.kind("initTxn")
	} else {
		w.kind("initIdem")
	}
}

func (w *world) pick(txn bool) *producer {
	var c []*producer
	for _, p := range w.prods {
		if (p.txid != "") == txn {
			c = append(c, p)
		}
	}
	if len(c) == 0 {
		return nil
	}
	return c[w.rng.IntN(len(c))]
}

// sendProduce sends one batch and judges the answer against the model.
func (w *world) sendProduce(wr *wire, part int, raw []byte, spec ProduceSpec, what string) (accepted bool, ok bool) {
	code, base, ver, err := wr.produce(w.ctx, part, raw)
	if err != nil {
		w.fail(err, "Produce")
		return false, false
	}
	spec.ImplicitAdd = ver >= 12
	hwmBefore := w.m.Parts[part].HWM
	ex := w.m.Produce(part, spec)
	w.logf("Produce v%d p%d %s pid=%d epoch=%d seq=%d n=%d txn=%v tag=%s -> code=%d base=%d   (model: %s ok=%v base=%d)",
		ver, part, what, spec.PID, spec.Epoch, spec.Seq, spec.N, spec.Txn, spec.Tag, code, base, ex.Why, ex.OK, ex.Base)
	w.r.Eval(1)
	if ex.DontCare {
		w.r.Count("dontcare_produce", 1)
		w.broken = "produce case outside the model: " + ex.Why
		w.stopped = true
		return false, false
	}
	switch {
	case ex.OK && code != 0:
		sig := "produce: valid batch rejected"
		if ex.Dup {
			sig = "produce: retried idempotent batch inside the window was rejected"
		}
		w.violate(&finding{sig, fmt.Sprintf("%s: got error code %d, model expects success at base offset %d (%s)", what, code, ex.Base, ex.Why)})
		return false, false
	case ex.OK && ex.Dup && base != ex.Base:
		w.violate(&finding{"produce: retried idempotent batch did not get its original base offset", fmt.Sprintf("%s: got base %d, original %d (HWM %d)", what, base, ex.Base, hwmBefore)})
		return false, false
	case ex.OK && base != ex.Base:
		w.violate(&finding{"produce: base offset of an appended batch is not the high watermark", fmt.Sprintf("%s: got base %d, HWM was %d", what, base, hwmBefore)})
		return false, false
	case !ex.OK && code == 0:
		w.violate(&finding{"produce: batch that must be rejected was accepted (" + ex.Why + ")", fmt.Sprintf("%s: got success base %d, model expects an error (%v)", what, base, ex.Errs)})
		return false, false
	case !ex.OK && len(ex.Errs) > 0:
		found := false
		for _, e := range ex.Errs {
			found = found || e == code
		}
		if !found {
			w.violate(&finding{"produce: wrong error code (" + ex.Why + ")", fmt.Sprintf("%s: got code %d, want one of %v", what, code, ex.Errs)})
			return false, false
		}
	}
	return ex.OK && !ex.Dup, true
}

func (w *world) stepPlainProduce() {
	part := w.rng.IntN(nParts)
	n := 1 + w.rng.IntN(4)
	tag, ts := w.nextTag()
	raw := buildBatch(-1, -1, -1, n, false, ts, tag)
	spec := ProduceSpec{PID: -1, Epoch: -1, Seq: -1, N: int32(n), Tag: tag, Ts: ts}
	w.sendProduce(w.wire(w.rng.IntN(2) == 0), part, raw, spec, "plain")
	w.kind("plain")
}

// stepSeqProduce covers idempotent and transactional produce incl. retries
// and wrong sequences.
func (w *world) stepSeqProduce(txn bool) {
	p := w.pick(txn)
	if p == nil {
		w.stepNewProducer(txn)
		return
	}
	part := w.rng.IntN(nParts)
	mp := w.m.Prod[p.pid]
	wr := w.wire(p.old)
	if txn && p.old && !mp.Parts[part] {
		// explicit AddPartitionsToTxn first, except sometimes (then the produce must fail)
		if w.rng.IntN(8) != 0 {
			code, err := wr.addPartition(w.ctx, p.txid, p.pid, p.epoch, part)
			if err != nil {
				w.fail(err, "AddPartitionsToTxn")
				return
			}
			w.logf("AddPartitionsToTxn pid=%d epoch=%d p%d -> code=%d", p.pid, p.epoch, part, code)
			w.r.Eval(1)
			if code != 0 {
				w.violate(&finding{"AddPartitionsToTxn with the current epoch rejected", fmt.Sprintf("code %d", code)})
				return
			}
			w.m.AddPartition(p.pid, part)
			w.kind("addPartitions")
		} else {
			w.kind("txnNotAdded")
		}
	}
	acc := p.accepted[part]
	roll := w.rng.IntN(100)
	n := 1 + w.rng.IntN(3)
	switch {
	case roll < 14 && len(acc) > 0:
		// exact retry of one of the last five accepted batches
		k := len(acc) - 1 - w.rng.IntN(min(5, len(acc)))
		sb := acc[k]
		w.sendProduce(wr, part, sb.raw, sb.spec, fmt.Sprintf("retry of accepted batch #%d (of %d)", k, len(acc)))
		w.kind(map[bool]string{true: "txnRetry", false: "idemRetry"}[txn])
		return
	case roll < 19 && len(acc) > 5:
		k := w.rng.IntN(len(acc) - 5)
		sb := acc[k]
		w.sendProduce(wr, part, sb.raw, sb.spec, fmt.Sprintf("retry of batch #%d older than the window (of %d)", k, len(acc)))
		w.kind("retryOlder")
		return
	case roll < 30 && len(acc) > 0:
		// wrong sequence: a gap, or a step back that is not an exact retry
		var seq int32
		if w.rng.IntN(2) == 0 {
			seq = add31(p.seq[part], int32(1+w.rng.IntN(3)))
		} else {
			seq = add31(p.seq[part], int32(1<<31-1-w.rng.IntN(3))) // next-1 .. next-3
		}
		ok := true
		for _, sb := range acc {
			if sb.spec.Seq == seq && sb.spec.N == int32(n) {
				ok = false
			}
		}
		if seq == p.seq[part] || !ok {
			break
		}
		tag, ts := w.nextTag()
		spec := ProduceSpec{PID: p.pid, Epoch: p.epoch, Seq: seq, N: int32(n), Txn: txn, Tag: tag, Ts: ts}
		w.sendProduce(wr, part, buildBatch(p.pid, p.epoch, seq, n, txn, ts, tag), spec, "wrong sequence")
		w.kind(map[bool]string{true: "txnWrongSeq", false: "idemWrongSeq"}[txn])
		return
	case roll < 34 && txn && len(p.prevEpoch) > 0 && (p.old || mp.Parts[part]):
		sb := p.prevEpoch[w.rng.IntN(len(p.prevEpoch))]
		tag, ts := w.nextTag()
		spec := ProduceSpec{PID: p.pid, Epoch: sb.spec.Epoch, Seq: 0, N: int32(n), Txn: true, Tag: tag, Ts: ts}
		w.sendProduce(wr, part, buildBatch(p.pid, sb.spec.Epoch, 0, n, true, ts, tag), spec, "fenced epoch")
		w.kind("txnFencedEpoch")
		return
	}
	// the next batch in sequence
	if _, started := p.seq[part]; !started && !txn && w.rng.IntN(3) == 0 {
		// a producer id new to the partition may start anywhere, also near the wrap
		if w.rng.IntN(2) == 0 {
			p.seq[part] = int32(1<<31 - 1 - w.rng.IntN(6))
		} else {
			p.seq[part] = int32(w.rng.IntN(1 << 20))
		}
	}
	seq := p.seq[part]
	tag, ts := w.nextTag()
	spec := ProduceSpec{PID: p.pid, Epoch: p.epoch, Seq: seq, N: int32(n), Txn: txn, Tag: tag, Ts: ts}
	raw := buildBatch(p.pid, p.epoch, seq, n, txn, ts, tag)
	accepted, ok := w.sendProduce(wr, part, raw, spec, "next in sequence")
	if !ok {
		return
	}
	if accepted {
		p.seq[part] = add31(seq, int32(n))
		p.accepted[part] = append(p.accepted[part], sentBatch{raw: raw, spec: spec, part: part})
	}
	w.kind(map[bool]string{true: "txnProduce", false: "idemProduce"}[txn])
}

// newEpoch resets the client-side sequence state after an epoch change.
func (p *producer) newEpoch(epoch int16) {
	if epoch == p.epoch {
		return
	}
	for _, acc := range p.accepted {
		if len(acc) > 0 {
			p.prevEpoch = append(p.prevEpoch, acc[len(acc)-1])
		}
	}
	p.epoch = epoch
	p.seq = map[int]int32{}
	p.accepted = map[int][]sentBatch{}
}

func (w *world) stepEndTxn() {
	p := w.pick(true)
	if p == nil {
		return
	}
	mp := w.m.Prod[p.pid]
	if !mp.InTx && w.rng.IntN(6) != 0 {
		return
	}
	commit := w.rng.IntN(100) < 55
	wasIn := mp.InTx
	code, ver, rpid, repoch, err := w.wire(p.old).endTxn(w.ctx, p.txid, p.pid, p.epoch, commit)
	if err != nil {
		w.fail(err, "EndTxn")
		return
	}
	expectOK := w.m.EndTxn(p.pid, commit)
	w.logf("EndTxn v%d pid=%d epoch=%d commit=%v (model inTx=%v) -> code=%d pid=%d epoch=%d", ver, p.pid, p.epoch, commit, wasIn, code, rpid, repoch)
	w.r.Eval(1)
	if expectOK && code != 0 {
		w.violate(&finding{"EndTxn of an open transaction with the current epoch rejected", fmt.Sprintf("commit=%v code=%d", commit, code)})
		return
	}
	if !expectOK {
		w.r.Count("dontcare_endtxn_without_open_txn", 1)
	}
	if code == 0 && ver >= 5 && !expectOK && rpid != p.pid {
		// kfake answers a commit/abort "retry" on an idle producer with
		// success and no producer id/epoch; nothing changed
		w.r.Count("dontcare_endtxn_v5_idle_success_without_producer_id", 1)
	} else if code == 0 && ver >= 5 {
		if rpid != p.pid {
			w.broken = "EndTxn moved the producer to a new id (epoch exhaustion), not modelled"
			w.stopped = true
			return
		}
		if repoch != p.epoch+1 {
			w.r.Count("dontcare_endtxn_v5_epoch_not_bumped_by_one", 1)
		}
		mp.Epoch = repoch
		p.newEpoch(repoch)
	}
	if commit {
		w.kind("endTxnCommit")
	} else {
		w.kind("endTxnAbort")
	}
}

// stepReinit: InitProducerID of a live transactional id (a new producer instance
// taking over, or the KIP-360 form with the current id and epoch). Either way an open
// transaction is aborted and the epoch is bumped.
func (w *world) stepReinit() {
	p := w.pick(true)
	if p == nil {
		return
	}
	mp := w.m.Prod[p.pid]
	var code int16
	var pid int64
	var epoch int16
	var err error
	if mp.InTx && w.rng.IntN(2) == 0 {
		code, pid, epoch, err = w.wire(p.old).initPID(w.ctx, p.txid, 60000, p.pid, p.epoch)
	} else {
		// a new producer instance taking over the id: fences the old one and
		// aborts whatever transaction it left open
		code, pid, epoch, err = w.wire(p.old).initPID(w.ctx, p.txid, 60000, -1, -1)
	}
	if err != nil {
		w.fail(err, "InitProducerID")
		return
	}
	w.logf("InitProducerID (re-init, open txn=%v) txid=%q pid=%d epoch=%d -> code=%d pid=%d epoch=%d", mp.InTx, p.txid, p.pid, p.epoch, code, pid, epoch)
	if code != 0 || pid != p.pid {
		w.broken = fmt.Sprintf("re-init answered code %d pid %d", code, pid)
		w.stopped = true
		return
	}
	w.m.AbortAndBump(p.pid)
	if mp.Epoch != epoch {
		w.r.Count("dontcare_reinit_epoch_not_bumped_by_one", 1)
		mp.Epoch = epoch
	}
	p.newEpoch(epoch)
	w.kind("reinit")
}

// stepTimeout: a dedicated producer with a 100 ms transaction timeout opens a
// transaction, the driver waits 300 ms and sends one more request; the
// coordinator must have aborted the transaction by then.
func (w *world) stepTimeout() {
	txid := fmt.Sprintf("to-%d-%d", w.hid, w.step)
	code, pid, epoch, err := w.wNew.initPID(w.ctx, txid, 100, -1, -1)
	if err != nil || code != 0 {
		w.fail(fmt.Errorf("code %d err %v", code, err), "InitProducerID (timeout producer)")
		return
	}
	w.m.AddProducer(pid, epoch, true)
	w.logf("InitProducerID txid=%q timeout=100ms -> pid=%d epoch=%d", txid, pid, epoch)
	{
		// exactly one produce: it starts the transaction, so nothing the
		// harness does later can race with the 100 ms timeout
		part := w.rng.IntN(nParts)
		tag, ts := w.nextTag()
		n := 1 + w.rng.IntN(2)
		spec := ProduceSpec{PID: pid, Epoch: epoch, Seq: 0, N: int32(n), Txn: true, Tag: tag, Ts: ts}
		if _, ok := w.sendProduce(w.wNew, part, buildBatch(pid, epoch, 0, n, true, ts, tag), spec, "transaction that will time out"); !ok {
			return
		}
	}
	time.Sleep(300 * time.Millisecond)
	if _, _, _, err := w.wNew.listOffsets(w.ctx, 0, -1, 0); err != nil {
		w.fail(err, "ListOffsets")
		return
	}
	w.m.AbortAndBump(pid)
	w.logf("slept 300ms: transaction of pid=%d must have been aborted by its 100ms timeout", pid)
	w.kind("txnTimeout")
}

func (w *world) stepDeleteRecords() {
	part := w.rng.IntN(nParts)
	mp := w.m.Parts[part]
	var off int64
	switch roll := w.rng.IntN(100); {
	case roll < 50:
		off = mp.LogStart + w.rng.Int64N(max(mp.LSO(), mp.LogStart)-mp.LogStart+1)
	case roll < 75:
		off = mp.LogStart + w.rng.Int64N(mp.HWM-mp.LogStart+1)
	case roll < 85:
		off = -1
	case roll < 93:
		off = mp.HWM + 1 + w.rng.Int64N(3)
	default:
		off = mp.LogStart - 1
		if off < 0 {
			off = mp.HWM + 1
		}
	}
	code, low, err := w.wNew.deleteRecords(w.ctx, part, off)
	if err != nil {
		w.fail(err, "DeleteRecords")
		return
	}
	before := *mp
	ok, wantLow := w.m.DeleteRecords(part, off)
	w.logf("DeleteRecords p%d offset=%d (logStart=%d HWM=%d) -> code=%d low=%d", part, off, before.LogStart, before.HWM, code, low)
	w.r.Eval(1)
	switch {
	case ok && code != 0:
		w.violate(&finding{"DeleteRecords inside [log start, HWM] rejected", fmt.Sprintf("offset %d logStart %d HWM %d code %d", off, before.LogStart, before.HWM, code)})
	case ok && low != wantLow:
		w.violate(&finding{"DeleteRecords: low watermark differs from the requested offset", fmt.Sprintf("offset %d -> low %d want %d", off, low, wantLow)})
	case !ok && code == 0:
		w.violate(&finding{"DeleteRecords outside [log start, HWM] accepted", fmt.Sprintf("offset %d logStart %d HWM %d", off, before.LogStart, before.HWM)})
	}
	w.kind("deleteRecords")
}

func (w *world) stepListOffsets() {
	part := w.rng.IntN(nParts)
	mp := w.m.Parts[part]
	iso := int8(w.rng.IntN(2))
	var ts int64
	switch w.rng.IntN(5) {
	case 0:
		ts = -2
	case 1, 2:
		ts = -1
	case 3:
		ts = -3
	default:
		ts = tsBase + int64(w.rng.IntN(w.step+2))*10
	}
	code, off, rts, err := w.wire(w.rng.IntN(2) == 0).listOffsets(w.ctx, part, ts, iso)
	if err != nil {
		w.fail(err, "ListOffsets")
		return
	}
	w.logf("ListOffsets p%d ts=%d iso=%d -> code=%d offset=%d ts=%d", part, ts, iso, code, off, rts)
	if code != 0 {
		w.r.Eval(1)
		w.violate(&finding{"ListOffsets: unexpected error", fmt.Sprintf("code %d", code)})
		return
	}
	switch ts {
	case -2:
		w.r.Eval(1)
		if off != mp.LogStart {
			w.violate(&finding{"ListOffsets earliest is not the log start offset", fmt.Sprintf("got %d want %d", off, mp.LogStart)})
		}
	case -1:
		w.r.Eval(1)
		if iso == 0 && off != mp.HWM {
			w.violate(&finding{"ListOffsets latest (read_uncommitted) is not the high watermark", fmt.Sprintf("got %d want %d", off, mp.HWM)})
		}
		if iso == 1 {
			ok := false
			for _, l := range mp.lsoAlternatives() {
				ok = ok || l == off
			}
			if !ok {
				w.violate(&finding{"ListOffsets latest (read_committed) is not the last stable offset", fmt.Sprintf("got %d want %v (HWM %d open %v)", off, mp.lsoAlternatives(), mp.HWM, mp.Open)})
			}
		}
	case -3:
		w.r.Count("dontcare_listoffsets_max_timestamp", 1)
	default:
		// timestamp lookup: not covered by the statement; agreement with
		// Kafka's rule (first record with timestamp >= ts) is only counted
		if want, ok := mp.ListOffsetsTs(ts); ok {
			if want == off {
				w.r.Count("dontcare_listoffsets_timestamp_agree", 1)
			} else {
				w.r.Count("dontcare_listoffsets_timestamp_differ", 1)
			}
		} else {
			w.r.Count("dontcare_listoffsets_timestamp_unmodelled", 1)
		}
	}
	w.kind("listOffsets")
}

func (w *world) randOffset(mp *MPartition) int64 {
	switch roll := w.rng.IntN(100); {
	case roll < 40:
		return mp.LogStart
	case roll < 60:
		return mp.LogStart + w.rng.Int64N(mp.HWM-mp.LogStart+1)
	case roll < 72:
		return mp.HWM
	case roll < 84:
		return max(mp.LSO(), mp.LogStart)
	case roll < 92:
		return mp.HWM + 1 + w.rng.Int64N(2)
	default:
		if mp.LogStart > 0 {
			return mp.LogStart - 1
		}
		return mp.HWM + 1
	}
}

func (w *world) stepFetch() {
	nparts := 1 + w.rng.IntN(nParts)
	perm := w.rng.Perm(nParts)[:nparts]
	fr := FetchReq{Iso: int8(w.rng.IntN(2)), SessEpoch: -1}
	limited := nparts == 1 && w.rng.IntN(4) == 0
	for _, pi := range perm {
		fp := FetchPart{Part: pi, Off: w.randOffset(w.m.Parts[pi])}
		if limited {
			fp.MaxBytes = int32(1 + w.rng.IntN(400))
		}
		fr.Parts = append(fr.Parts, fp)
	}
	wr := w.wire(w.rng.IntN(2) == 0)
	g, err := wr.fetch(w.ctx, fr)
	if err != nil {
		w.fail(err, "Fetch")
		return
	}
	w.logf("Fetch v%d sessionless iso=%d parts=%v limited=%v -> %s", g.Version, fr.Iso, fr.Parts, limited, w.fmtGot(g))
	if g.TopErr != 0 {
		w.r.Eval(1)
		w.violate(&finding{"fetch: unexpected top-level error", fmt.Sprintf("code %d", g.TopErr)})
		return
	}
	for _, fp := range fr.Parts {
		gp := g.Parts[fp.Part]
		w.r.Eval(1)
		if gp == nil {
			w.violate(&finding{"fetch: sessionless response omits a requested partition", fmt.Sprintf("partition %d", fp.Part)})
			return
		}
		mp := w.m.Parts[fp.Part]
		fe := mp.Fetch(fp.Off, fr.Iso == 1)
		if f := judgeFetch(mp, fp.Off, fetchMode{readCommitted: fr.Iso == 1, limited: limited, mustHaveOne: limited}, fe, gp); f != nil {
			f.Detail = fmt.Sprintf("partition %d: %s", fp.Part, f.Detail)
			w.violate(f)
			return
		}
		if fr.Iso == 1 && len(gp.Batches) > 0 && len(mp.abortedRequired(gp.Batches)) > 0 {
			w.feat["rcFetchWithAborted"]++
		}
	}
	if fr.Iso == 1 {
		w.kind("fetchRC")
	} else {
		w.kind("fetchRU")
	}
}

func (w *world) fmtGot(g *GotFetch) string {
	var ps []int
	for pi := range g.Parts {
		ps = append(ps, pi)
	}
	sort.Ints(ps)
	s := fmt.Sprintf("topErr=%d sess=%d", g.TopErr, g.SessID)
	for _, pi := range ps {
		gp := g.Parts[pi]
		s += fmt.Sprintf(" | p%d err=%d hwm=%d lso=%d ls=%d %s ab=%v", pi, gp.Err, gp.HWM, gp.LSO, gp.LogStart, fmtBatches(gp.Batches), gp.Aborted)
	}
	return s
}

// probe fetches every partition at the model's HWM after each step: HWM, LSO
// and log start of all partitions are compared with the model.
func (w *world) probe() {
	fr := FetchReq{Iso: int8(w.step % 2), SessEpoch: -1}
	for pi := 0; pi < nParts; pi++ {
		fr.Parts = append(fr.Parts, FetchPart{Part: pi, Off: w.m.Parts[pi].HWM})
	}
	g, err := w.wNew.fetch(w.ctx, fr)
	if err != nil {
		w.fail(err, "Fetch (probe)")
		return
	}
	for pi := 0; pi < nParts; pi++ {
		gp := g.Parts[pi]
		w.r.Eval(1)
		if gp == nil {
			w.logf("probe -> %s", w.fmtGot(g))
			w.violate(&finding{"fetch: sessionless response omits a requested partition", fmt.Sprintf("partition %d (probe)", pi)})
			return
		}
		mp := w.m.Parts[pi]
		fe := mp.Fetch(mp.HWM, fr.Iso == 1)
		if gp.Err == errOffsetOutOfRange {
			w.logf("probe -> %s", w.fmtGot(g))
			w.violate(&finding{"fetch: high watermark differs from the model (offsets not contiguous from the HWM)",
				fmt.Sprintf("partition %d: fetch at the model's HWM %d answered OFFSET_OUT_OF_RANGE", pi, mp.HWM)})
			return
		}
		if f := judgeFetch(mp, mp.HWM, fetchMode{readCommitted: fr.Iso == 1}, fe, gp); f != nil {
			w.logf("probe -> %s", w.fmtGot(g))
			f.Detail = fmt.Sprintf("partition %d (probe after the step): %s", pi, f.Detail)
			w.violate(f)
			return
		}
	}
}

// stepSession: create / continue / close an incremental fetch session.
func (w *world) stepSession() {
	if len(w.sess) == 0 || (len(w.sess) < 2 && w.rng.IntN(6) == 0) {
		w.sessionCreate()
		return
	}
	si := w.rng.IntN(len(w.sess))
	s := w.sess[si]
	roll := w.rng.IntN(100)
	switch {
	case roll < 5:
		w.sessionBadRequest(s, true)
	case roll < 8:
		w.sessionBadRequest(s, false)
	case roll < 12:
		w.sessionFetch(s, true)
		w.sess = append(w.sess[:si], w.sess[si+1:]...)
	default:
		w.sessionFetch(s, false)
	}
}

func (w *world) sessionCreate() {
	s := &session{old: w.rng.IntN(2) == 0, pos: map[int]int64{}, sent: map[int]int64{}}
	n := 1 + w.rng.IntN(nParts)
	fr := FetchReq{Iso: int8(w.rng.IntN(2)), SessEpoch: 0}
	sr := SessReq{Epoch: 0, Parts: map[int]int64{}}
	for _, pi := range w.rng.Perm(nParts)[:n] {
		mp := w.m.Parts[pi]
		off := mp.LogStart
		if w.rng.IntN(2) == 0 {
			off = mp.HWM
		}
		fr.Parts = append(fr.Parts, FetchPart{Part: pi, Off: off})
		sr.Parts[pi] = off
		s.pos[pi], s.sent[pi] = off, off
	}
	if w.doSessionFetch(s, fr, sr, "create") {
		w.sess = append(w.sess, s)
	}
	w.kind("sessionCreate")
}

func (w *world) sessionBadRequest(s *session, wrongEpoch bool) {
	fr := FetchReq{Iso: 0, SessID: s.id, SessEpoch: s.epoch}
	if wrongEpoch {
		fr.SessEpoch = s.epoch + 1 + int32(w.rng.IntN(3))
	} else {
		fr.SessID = s.id + 1000 + int32(w.rng.IntN(1000))
	}
	g, err := w.wire(s.old).fetch(w.ctx, fr)
	if err != nil {
		w.fail(err, "Fetch")
		return
	}
	se := w.m.SessionRequest(SessReq{ID: fr.SessID, Epoch: fr.SessEpoch})
	w.logf("Fetch session id=%d epoch=%d (deliberately wrong; real id=%d epoch=%d) -> %s", fr.SessID, fr.SessEpoch, s.id, s.epoch, w.fmtGot(g))
	// KIP-227 asks for FETCH_SESSION_ID_NOT_FOUND / INVALID_FETCH_SESSION_EPOCH;
	// the property statement does not, so a difference is only counted and the
	// session is no longer followed.
	if g.TopErr != se.TopErr {
		w.r.Count("dontcare_session_error_code_differs", 1)
		for i, x := range w.sess {
			if x == s {
				w.sess = append(w.sess[:i], w.sess[i+1:]...)
				break
			}
		}
		delete(w.m.Sess, s.id)
	}
	w.kind("sessionBadRequest")
}

func (w *world) sessionFetch(s *session, closeIt bool) {
	fr := FetchReq{Iso: int8(w.rng.IntN(2)), SessID: s.id, SessEpoch: s.epoch}
	sr := SessReq{ID: s.id, Epoch: s.epoch, Parts: map[int]int64{}}
	if closeIt {
		// a full sessionless fetch naming the session id closes the session
		fr.SessEpoch, sr.Epoch = -1, -1
		for pi := range s.pos {
			fr.Parts = append(fr.Parts, FetchPart{Part: pi, Off: s.pos[pi]})
			sr.Parts[pi] = s.pos[pi]
		}
		sort.Slice(fr.Parts, func(i, j int) bool { return fr.Parts[i].Part < fr.Parts[j].Part })
		w.doSessionFetch(s, fr, sr, "close")
		w.kind("sessionClose")
		return
	}
	var inSess []int
	for pi := range s.pos {
		inSess = append(inSess, pi)
	}
	sort.Ints(inSess)
	for _, pi := range inSess {
		// forget a partition now and then
		if len(s.pos) > 1 && w.rng.IntN(14) == 0 {
			fr.Forget = append(fr.Forget, pi)
			sr.Forget = append(sr.Forget, pi)
			delete(s.pos, pi)
			delete(s.sent, pi)
			continue
		}
		// tell the broker about an advanced position most of the time
		if s.pos[pi] != s.sent[pi] && w.rng.IntN(10) < 8 {
			fr.Parts = append(fr.Parts, FetchPart{Part: pi, Off: s.pos[pi]})
			sr.Parts[pi] = s.pos[pi]
			s.sent[pi] = s.pos[pi]
		}
	}
	for pi := 0; pi < nParts; pi++ {
		if _, in := s.pos[pi]; !in && w.rng.IntN(10) == 0 {
			skip := false
			for _, f := range fr.Forget {
				skip = skip || f == pi
			}
			if skip {
				continue
			}
			off := w.m.Parts[pi].LogStart
			fr.Parts = append(fr.Parts, FetchPart{Part: pi, Off: off})
			sr.Parts[pi] = off
			s.pos[pi], s.sent[pi] = off, off
		}
	}
	w.doSessionFetch(s, fr, sr, "incremental")
	w.kind("sessionIncremental")
}

// doSessionFetch sends fr, applies sr to the model and judges the response.
func (w *world) doSessionFetch(s *session, fr FetchReq, sr SessReq, what string) bool {
	g, err := w.wire(s.old).fetch(w.ctx, fr)
	if err != nil {
		w.fail(err, "Fetch")
		return false
	}
	se := w.m.SessionRequest(sr)
	w.logf("Fetch v%d session %s id=%d epoch=%d iso=%d parts=%v forget=%v -> %s", g.Version, what, fr.SessID, fr.SessEpoch, fr.Iso, fr.Parts, fr.Forget, w.fmtGot(g))
	w.r.Eval(1)
	if g.TopErr != 0 || se.TopErr != 0 {
		w.violate(&finding{"fetch session: valid session request answered with a top-level error", fmt.Sprintf("got %d, model %d", g.TopErr, se.TopErr)})
		return false
	}
	if se.NewSession {
		if g.SessID <= 0 {
			w.violate(&finding{"fetch session: full fetch with epoch 0 did not create a session", fmt.Sprintf("session id %d", g.SessID)})
			return false
		}
		if _, exists := w.m.Sess[g.SessID]; exists {
			w.violate(&finding{"fetch session: new session reuses a live session id", fmt.Sprintf("session id %d", g.SessID)})
			return false
		}
		se.Session.ID = g.SessID
		w.m.Sess[g.SessID] = se.Session
		s.id, s.epoch = g.SessID, 1
	}
	var evs []int
	for pi := range se.Eval {
		evs = append(evs, pi)
	}
	sort.Ints(evs)
	rc := fr.Iso == 1
	for _, pi := range evs {
		mp := w.m.Parts[pi]
		off := int64(0)
		if se.Session != nil {
			off = se.Session.Parts[pi].fetchOff
		} else {
			off = sr.Parts[pi]
		}
		fe := mp.Fetch(off, rc)
		gp := g.Parts[pi]
		must := se.mustInclude(pi, fe)
		w.r.Eval(1)
		if gp == nil {
			if must {
				sp := sessPart{}
				if se.Session != nil && se.Session.Parts[pi] != nil {
					sp = *se.Session.Parts[pi]
				}
				w.violate(&finding{"incremental fetch session omitted a partition whose data, high watermark or log start changed",
					fmt.Sprintf("partition %d fetch offset %d: model HWM=%d logStart=%d due batches %s; last sent for this session HWM=%d logStart=%d",
						pi, off, fe.HWM, fe.LogStart, fmtBatches(fe.Batches), sp.lastHWM, sp.lastLogStart)})
				return false
			}
			w.feat["sessionOmittedUnchanged"]++
		} else {
			if !must {
				w.r.Count("dontcare_session_included_unchanged_partition", 1)
			} else if !se.NewSession && !se.Sessionless && !se.NewParts[pi] {
				w.feat["sessionIncludedChanged"]++
				if len(fe.Batches) == 0 && !fe.OutOfRange {
					w.feat["sessionIncludedNoData"]++
				}
			}
			if f := judgeFetch(mp, off, fetchMode{readCommitted: rc}, fe, gp); f != nil {
				f.Detail = fmt.Sprintf("partition %d (session %s): %s", pi, what, f.Detail)
				w.violate(f)
				return false
			}
			// the simulated consumer advances (or resets after out-of-range)
			if _, in := s.pos[pi]; in {
				if fe.OutOfRange {
					s.pos[pi] = mp.LogStart
				} else if n := len(gp.Batches); n > 0 {
					s.pos[pi] = gp.Batches[n-1].Last() + 1
				}
			}
		}
		se.sent(pi, fe)
	}
	for pi := range g.Parts {
		if !se.Eval[pi] {
			w.violate(&finding{"fetch session: response carries a partition that is not part of the session or request", fmt.Sprintf("partition %d", pi)})
			return false
		}
	}
	if se.Session != nil && !se.NewSession {
		se.Session.Epoch++
		s.epoch++
	}
	return true
}

// finalCheck reads every partition completely at both isolation levels.
func (w *world) finalCheck() {
	for pi := 0; pi < nParts && !w.stopped; pi++ {
		mp := w.m.Parts[pi]
		for iso := int8(0); iso < 2 && !w.stopped; iso++ {
			fr := FetchReq{Iso: iso, SessEpoch: -1, Parts: []FetchPart{{Part: pi, Off: mp.LogStart}}}
			g, err := w.wNew.fetch(w.ctx, fr)
			if err != nil {
				w.fail(err, "Fetch (final)")
				return
			}
			w.step++
			w.logf("final read p%d iso=%d -> %s", pi, iso, w.fmtGot(g))
			w.r.Eval(1)
			gp := g.Parts[pi]
			if gp == nil {
				w.violate(&finding{"fetch: sessionless response omits a requested partition", fmt.Sprintf("partition %d (final read)", pi)})
				return
			}
			if f := judgeFetch(mp, mp.LogStart, fetchMode{readCommitted: iso == 1}, mp.Fetch(mp.LogStart, iso == 1), gp); f != nil {
				f.Detail = fmt.Sprintf("partition %d (final read): %s", pi, f.Detail)
				w.violate(f)
			}
		}
	}
}

// runHistory runs one sequential history and reports its shape.
func runHistory(r *vh.Run, ctx context.Context, hid, steps int) {
	w, err := newWorld(r, ctx, hid, "seq")
	if err != nil {
		r.Inconclusive(fmt.Sprintf("history %d: setup: %v", hid, err))
		return
	}
	defer w.close()
	withTimeout := w.rng.IntN(10) < 3
	timeoutAt := w.rng.IntN(steps)
	for w.step = 0; w.step < steps && !w.stopped; w.step++ {
		if ctx.Err() != nil {
			r.Inconclusive("sequential histories: watchdog context expired")
			return
		}
		if withTimeout && w.step == timeoutAt {
			w.stepTimeout()
		} else {
			w.randomStep()
		}
		if !w.stopped {
			w.probe()
		}
	}
	if !w.stopped {
		w.finalCheck()
	}
	if w.broken != "" {
		r.Count("histories_cut_short_by_harness", 1)
		r.Inconclusive(fmt.Sprintf("history %d stopped at step %d: %s", hid, w.step, w.broken))
	}
	r.Count("seq_histories", 1)
	r.Count("seq_steps", w.step)
	for k, n := range w.feat {
		r.Count("op_"+k, n)
	}
	ends := w.feat["endTxnCommit"] + w.feat["endTxnAbort"] + w.feat["txnTimeout"]
	dupOrSess := w.feat["idemRetry"] + w.feat["txnRetry"] + w.feat["sessionIncremental"]
	if ends > 0 && dupOrSess > 0 {
		r.DistinctHash("seq", strings.Join(w.kinds, ","))
	}
	if r.WantSample() && hid < 2 {
		ops := w.ops
		if len(ops) > 25 {
			ops = ops[:25]
		}
		r.Sample(map[string]any{"kind": "sequential history (first 25 log lines)", "history_id": hid, "steps": w.step, "log": ops})
	}
}

func (w *world) randomStep() {
	nIdem, nTxn := 0, 0
	for _, p := range w.prods {
		if p.txid == "" {
			nIdem++
		} else {
			nTxn++
		}
	}
	roll := w.rng.IntN(100)
	switch {
	case roll < 2:
		if nIdem < 2 {
			w.stepNewProducer(false)
		} else {
			w.stepSeqProduce(false)
		}
	case roll < 5:
		if nTxn < 3 {
			w.stepNewProducer(true)
		} else {
			w.stepSeqProduce(true)
		}
	case roll < 13:
		w.stepPlainProduce()
	case roll < 27:
		w.stepSeqProduce(false)
	case roll < 51:
		w.stepSeqProduce(true)
	case roll < 62:
		w.stepEndTxn()
	case roll < 64:
		w.stepReinit()
	case roll < 68:
		w.stepDeleteRecords()
	case roll < 73:
		w.stepListOffsets()
	case roll < 86:
		w.stepFetch()
	default:
		w.stepSession()
	}
}
