package c32

import (
	"fmt"
	"sort"
)

// finding is a refutation: a stable signature plus the expected/got witness.
type finding struct {
	Sig    string
	Detail string
}

func (f *finding) String() string { return f.Sig + ": " + f.Detail }

func sameBatch(want, got MBatch) bool {
	if want.Base != got.Base || want.N != got.N || want.PID != got.PID || want.Control != got.Control {
		return false
	}
	if want.Control {
		return want.Commit == got.Commit
	}
	return want.Txn == got.Txn && want.Tag == got.Tag && want.Seq == got.Seq && want.Epoch == got.Epoch
}

func fmtBatches(bs []MBatch) string {
	s := "["
	for i, b := range bs {
		if i > 0 {
			s += " "
		}
		if i >= 24 {
			s += fmt.Sprintf("...(%d more)", len(bs)-i)
			break
		}
		switch {
		case b.Control && b.Commit:
			s += fmt.Sprintf("%d:COMMIT(pid%d)", b.Base, b.PID%1000)
		case b.Control:
			s += fmt.Sprintf("%d:ABORT(pid%d)", b.Base, b.PID%1000)
		case b.Txn:
			s += fmt.Sprintf("%d+%d:txn(pid%d,%s)", b.Base, b.N, b.PID%1000, b.Tag)
		default:
			s += fmt.Sprintf("%d+%d:(%s)", b.Base, b.N, b.Tag)
		}
	}
	return s + "]"
}

// fetchMode says how the request limits the returned data.
type fetchMode struct {
	readCommitted bool
	limited       bool // a byte limit may cut the batch list: a prefix is accepted
	mustHaveOne   bool // (limited only) at least one batch must come back if any is due
}

// judgeFetch compares one partition of a fetch response with the model.
func judgeFetch(p *MPartition, off int64, mode fetchMode, fe FetchExpect, g *GotPart) *finding {
	iso := "read_uncommitted"
	if mode.readCommitted {
		iso = "read_committed"
	}
	where := fmt.Sprintf("fetch offset %d %s; model: logStart=%d HWM=%d LSO=%v open=%v aborted=%v", off, iso, p.LogStart, p.HWM, fe.LSO, p.Open, p.Aborted)
	if g.DecodeErr != "" {
		return &finding{"fetch: returned bytes are not whole valid record batches", g.DecodeErr + "; " + where}
	}
	if fe.OutOfRange {
		if g.Err == 0 && len(g.Batches) > 0 {
			return &finding{"fetch: offset outside [log start, HWM] returned data", fmt.Sprintf("got %s; %s", fmtBatches(g.Batches), where)}
		}
		return nil
	}
	if g.Err != 0 {
		return &finding{"fetch: unexpected partition error", fmt.Sprintf("error code %d; %s", g.Err, where)}
	}
	if g.LSO > g.HWM {
		return &finding{"fetch: last stable offset above the high watermark", fmt.Sprintf("LSO=%d HWM=%d; %s", g.LSO, g.HWM, where)}
	}
	if g.HWM != fe.HWM {
		return &finding{"fetch: high watermark differs from the model (offsets not contiguous from the HWM)", fmt.Sprintf("got HWM=%d; %s", g.HWM, where)}
	}
	okLSO := false
	for _, l := range fe.LSO {
		okLSO = okLSO || l == g.LSO
	}
	if !okLSO {
		return &finding{"fetch: last stable offset is not min(first offset of an open transaction, HWM)", fmt.Sprintf("got LSO=%d; %s", g.LSO, where)}
	}
	if g.LogStart != fe.LogStart {
		return &finding{"fetch: log start offset differs from the model", fmt.Sprintf("got logStart=%d; %s", g.LogStart, where)}
	}
	want := fe.Batches
	bad := false
	switch {
	case !mode.limited:
		bad = len(g.Batches) != len(want)
	default:
		bad = len(g.Batches) > len(want) || (mode.mustHaveOne && len(want) > 0 && len(g.Batches) == 0)
	}
	for i := 0; !bad && i < len(g.Batches); i++ {
		bad = !sameBatch(want[i], g.Batches[i])
	}
	if bad {
		sig := "read_uncommitted fetch: returned batches differ from the log up to the HWM"
		if mode.readCommitted {
			sig = "read_committed fetch: returned batches are not exactly the batches below the LSO"
		}
		return &finding{sig, fmt.Sprintf("want %s got %s (limited=%v); %s", fmtBatches(want), fmtBatches(g.Batches), mode.limited, where)}
	}
	if !mode.readCommitted || len(g.Batches) == 0 {
		return nil
	}
	// aborted transaction list
	have := map[gotAborted]bool{}
	for _, a := range g.Aborted {
		have[a] = true
	}
	for _, a := range p.abortedRequired(g.Batches) {
		if !have[gotAborted{a.PID, a.First}] {
			return &finding{"read_committed fetch: aborted transaction with data in the returned range missing from AbortedTransactions",
				fmt.Sprintf("missing pid=%d first=%d marker=%d; got aborted list %v; returned %s; %s", a.PID, a.First, a.Last, g.Aborted, fmtBatches(g.Batches), where)}
		}
	}
	firstBase := g.Batches[0].Base
	for _, a := range g.Aborted {
		k, ok := p.abortedKnown(a.PID, a.First)
		if !ok {
			return &finding{"read_committed fetch: AbortedTransactions names a transaction that was not aborted",
				fmt.Sprintf("entry pid=%d first=%d; returned %s; %s", a.PID, a.First, fmtBatches(g.Batches), where)}
		}
		if k.Last < firstBase {
			return &finding{"read_committed fetch: AbortedTransactions names a transaction whose abort marker precedes the returned range",
				fmt.Sprintf("entry pid=%d first=%d marker=%d, first returned offset %d; %s", a.PID, a.First, k.Last, firstBase, where)}
		}
	}
	// what a consumer following the protocol shows to the application
	visible := consumerView(g.Batches, g.Aborted)
	var committed []string
	for _, b := range want[:len(g.Batches)] {
		if !b.Control && (b.Status == stPlain || b.Status == stCommitted) {
			committed = append(committed, b.Tag)
		}
	}
	if fmt.Sprint(visible) != fmt.Sprint(committed) {
		return &finding{"read_committed fetch: records a consumer delivers differ from the committed data",
			fmt.Sprintf("consumer view %v, committed %v; returned %s aborted list %v; %s", visible, committed, fmtBatches(g.Batches), g.Aborted, where)}
	}
	return nil
}

// consumerView applies the documented read_committed consumer algorithm to
// the returned batches and aborted-transaction list and returns the tags of
// the batches delivered to the application.
func consumerView(bs []MBatch, aborted []gotAborted) []string {
	ab := append([]gotAborted(nil), aborted...)
	sort.SliceStable(ab, func(i, j int) bool { return ab[i].First < ab[j].First })
	active := map[int64]bool{}
	var out []string
	for _, b := range bs {
		for len(ab) > 0 && ab[0].First <= b.Last() {
			active[ab[0].PID] = true
			ab = ab[1:]
		}
		if b.Control {
			if !b.Commit {
				delete(active, b.PID)
			}
			continue
		}
		if b.Txn && active[b.PID] {
			continue
		}
		out = append(out, b.Tag)
	}
	return out
}
