package c32

// Reference model of a Kafka partition log (and the little bit of cluster
// state transactions need). Written from the Kafka protocol / KIP-98 / KIP-227
// descriptions, sequential, no code shared with kfake. Only the behaviour the
// property statement talks about is modelled precisely; where Kafka semantics
// are ambiguous the model returns an expectation flagged DontCare and the
// driver only keeps the model in step with what the broker answered.

import (
	"fmt"
	"sort"
	"strings"
)

const (
	errNone                   int16 = 0
	errOffsetOutOfRange       int16 = 1
	errOutOfOrderSequence     int16 = 45
	errDuplicateSequence      int16 = 46
	errInvalidProducerEpoch   int16 = 47
	errInvalidTxnState        int16 = 48
	errFetchSessionIDNotFound int16 = 70
	errInvalidFetchSessEpoch  int16 = 71
	errProducerFenced         int16 = 90
)

// Txn status of a data batch.
const (
	stPlain = iota
	stOpen
	stCommitted
	stAborted
)

// MBatch is one batch of the model log.
type MBatch struct {
	Base    int64
	N       int32
	PID     int64
	Epoch   int16
	Seq     int32
	Txn     bool
	Control bool
	Commit  bool   // control batches: commit (true) / abort (false) marker
	Tag     string // identity of the payload (value of the first record)
	Status  int    // data batches: plain / open / committed / aborted
	Ts      int64  // timestamp of every record of a data batch (0: unknown, markers)
}

func (b *MBatch) Last() int64 { return b.Base + int64(b.N) - 1 }

type abortedTxn struct{ PID, First, Last int64 }

type winEntry struct {
	first, next int32
	off         int64
}

// window is the idempotent-producer state of one producer id on one
// partition: the last five accepted batches and the next expected sequence.
type window struct {
	seen  bool
	epoch int16
	next  int32
	ents  []winEntry // oldest first, at most 5
	older []winEntry // accepted batches that fell out of the window (same epoch)
}

// MPartition is the model of one partition.
type MPartition struct {
	LogStart, HWM int64
	Log           []MBatch        // every batch ever appended, in offset order
	Open          map[int64]int64 // producer id -> first offset of its open transaction
	Aborted       []abortedTxn
	Win           map[int64]*window
}

func newPartition() *MPartition {
	return &MPartition{Open: map[int64]int64{}, Win: map[int64]*window{}}
}

// LSO is min(first offset of any open transaction, HWM).
func (p *MPartition) LSO() int64 {
	lso := p.HWM
	for _, f := range p.Open {
		if f < lso {
			lso = f
		}
	}
	return lso
}

// lsoAlternatives: when DeleteRecords moved the log start above the first
// offset of an open transaction, Kafka reports the log start; the statement
// does not cover this, so both are accepted.
func (p *MPartition) lsoAlternatives() []int64 {
	l := p.LSO()
	if l < p.LogStart {
		return []int64{l, p.LogStart}
	}
	return []int64{l}
}

func (p *MPartition) append(b MBatch) int64 {
	b.Base = p.HWM
	p.Log = append(p.Log, b)
	p.HWM += int64(b.N)
	return b.Base
}

func add31(s, n int32) int32 { return int32((int64(s) + int64(n)) % (1 << 31)) }

func (p *MPartition) clone() *MPartition {
	q := &MPartition{LogStart: p.LogStart, HWM: p.HWM, Open: map[int64]int64{}, Win: map[int64]*window{}}
	q.Log = append([]MBatch(nil), p.Log...)
	q.Aborted = append([]abortedTxn(nil), p.Aborted...)
	for k, v := range p.Open {
		q.Open[k] = v
	}
	for k, w := range p.Win {
		c := *w
		c.ents = append([]winEntry(nil), w.ents...)
		c.older = append([]winEntry(nil), w.older...)
		q.Win[k] = &c
	}
	return q
}

// MProducer is the coordinator-side state of one producer id.
type MProducer struct {
	PID   int64
	Epoch int16
	Txnal bool
	InTx  bool
	Parts map[int]bool // partitions added to the open transaction
}

type sessPart struct {
	fetchOff     int64
	lastHWM      int64
	lastLogStart int64
}

// MSession is one incremental fetch session (KIP-227).
type MSession struct {
	ID    int32
	Epoch int32 // the epoch the next incremental request must carry
	Parts map[int]*sessPart
}

// MCluster is the whole model.
type MCluster struct {
	Parts []*MPartition
	Prod  map[int64]*MProducer
	Sess  map[int32]*MSession
}

func newCluster(nparts int) *MCluster {
	c := &MCluster{Prod: map[int64]*MProducer{}, Sess: map[int32]*MSession{}}
	for i := 0; i < nparts; i++ {
		c.Parts = append(c.Parts, newPartition())
	}
	return c
}

func (c *MCluster) clone() *MCluster {
	d := &MCluster{Prod: map[int64]*MProducer{}, Sess: map[int32]*MSession{}}
	for _, p := range c.Parts {
		d.Parts = append(d.Parts, p.clone())
	}
	for k, v := range c.Prod {
		n := *v
		n.Parts = map[int]bool{}
		for a, b := range v.Parts {
			n.Parts[a] = b
		}
		d.Prod[k] = &n
	}
	for k, s := range c.Sess {
		n := &MSession{ID: s.ID, Epoch: s.Epoch, Parts: map[int]*sessPart{}}
		for a, b := range s.Parts {
			x := *b
			n.Parts[a] = &x
		}
		d.Sess[k] = n
	}
	return d
}

// key is a canonical rendering of the state that matters for future answers
// (used for porcupine's state equality).
func (c *MCluster) key() string {
	var sb strings.Builder
	for i, p := range c.Parts {
		fmt.Fprintf(&sb, "P%d:%d,%d[", i, p.LogStart, p.HWM)
		for _, b := range p.Log {
			fmt.Fprintf(&sb, "%d/%d/%d/%v/%v/%d/%s;", b.Base, b.N, b.PID, b.Control, b.Commit, b.Status, b.Tag)
		}
		sb.WriteString("]o{")
		var pids []int64
		for k := range p.Open {
			pids = append(pids, k)
		}
		sort.Slice(pids, func(i, j int) bool { return pids[i] < pids[j] })
		for _, k := range pids {
			fmt.Fprintf(&sb, "%d:%d,", k, p.Open[k])
		}
		sb.WriteString("}w{")
		pids = pids[:0]
		for k := range p.Win {
			pids = append(pids, k)
		}
		sort.Slice(pids, func(i, j int) bool { return pids[i] < pids[j] })
		for _, k := range pids {
			w := p.Win[k]
			fmt.Fprintf(&sb, "%d:%v/%d/%d/%v,", k, w.seen, w.epoch, w.next, w.ents)
		}
		sb.WriteString("}")
	}
	var pids []int64
	for k := range c.Prod {
		pids = append(pids, k)
	}
	sort.Slice(pids, func(i, j int) bool { return pids[i] < pids[j] })
	for _, k := range pids {
		pr := c.Prod[k]
		var ps []int
		for a := range pr.Parts {
			ps = append(ps, a)
		}
		sort.Ints(ps)
		fmt.Fprintf(&sb, "|%d:%d/%v/%v", k, pr.Epoch, pr.InTx, ps)
	}
	return sb.String()
}

// ---------------------------------------------------------------------------
// produce

// ProduceSpec is what the driver puts into a produce request for one partition.
type ProduceSpec struct {
	PID   int64 // -1: plain
	Epoch int16
	Seq   int32
	N     int32
	Txn   bool
	Tag   string
	Ts    int64
	// ImplicitAdd: the request version is >= 12, where the broker adds the
	// partition to the producer's transaction on its own.
	ImplicitAdd bool
}

// ProduceExpect is the model's answer.
type ProduceExpect struct {
	DontCare bool
	OK       bool    // error code 0 expected
	Base     int64   // expected base offset when OK
	Dup      bool    // OK because the batch is a retry inside the window (nothing appended)
	Errs     []int16 // acceptable error codes when !OK (empty: any non-zero)
	Why      string
}

func (c *MCluster) Produce(pi int, s ProduceSpec) ProduceExpect {
	p := c.Parts[pi]
	if s.PID < 0 {
		if s.Txn {
			return ProduceExpect{DontCare: true, Why: "transactional batch without producer id"}
		}
		base := p.append(MBatch{N: s.N, PID: -1, Epoch: -1, Seq: -1, Tag: s.Tag, Status: stPlain, Ts: s.Ts})
		return ProduceExpect{OK: true, Base: base, Why: "plain append"}
	}
	pr := c.Prod[s.PID]
	if pr == nil {
		return ProduceExpect{DontCare: true, Why: "unknown producer id"}
	}
	if s.Txn != pr.Txnal {
		return ProduceExpect{DontCare: true, Why: "transactional bit does not match the producer kind"}
	}
	if s.Epoch > pr.Epoch {
		return ProduceExpect{DontCare: true, Why: "epoch from the future"}
	}
	if s.Txn {
		if !pr.Parts[pi] {
			if !s.ImplicitAdd {
				return ProduceExpect{Errs: nil, Why: "partition not added to the transaction"}
			}
			if s.Epoch != pr.Epoch {
				return ProduceExpect{DontCare: true, Why: "fenced epoch on a partition outside the transaction"}
			}
			pr.Parts[pi] = true
			pr.InTx = true
		}
	}
	if s.Epoch < pr.Epoch {
		return ProduceExpect{Errs: []int16{errInvalidProducerEpoch, errProducerFenced}, Why: "fenced producer epoch"}
	}
	w := p.Win[s.PID]
	if w == nil {
		w = &window{}
		p.Win[s.PID] = w
	}
	next := add31(s.Seq, s.N)
	switch {
	case !w.seen:
		// first batch of this producer on this partition: any sequence
	case w.epoch != s.Epoch:
		if s.Seq != 0 {
			return ProduceExpect{Errs: []int16{errOutOfOrderSequence}, Why: "new epoch must restart at sequence 0"}
		}
		w.ents, w.older = nil, nil
	default:
		for _, e := range w.ents {
			if e.first == s.Seq && e.next == next {
				return ProduceExpect{OK: true, Dup: true, Base: e.off, Why: "retry of a batch inside the 5-batch window"}
			}
		}
		if s.Seq != w.next {
			for _, e := range w.older {
				if e.first == s.Seq && e.next == next {
					return ProduceExpect{Errs: []int16{errOutOfOrderSequence, errDuplicateSequence}, Why: "retry of a batch older than the window"}
				}
			}
			return ProduceExpect{Errs: []int16{errOutOfOrderSequence}, Why: "sequence is not the next expected one"}
		}
	}
	st := stPlain
	if s.Txn {
		st = stOpen
	}
	base := p.append(MBatch{N: s.N, PID: s.PID, Epoch: s.Epoch, Seq: s.Seq, Txn: s.Txn, Tag: s.Tag, Status: st, Ts: s.Ts})
	if s.Txn {
		if _, ok := p.Open[s.PID]; !ok {
			p.Open[s.PID] = base
		}
	}
	w.seen, w.epoch, w.next = true, s.Epoch, next
	w.ents = append(w.ents, winEntry{s.Seq, next, base})
	if len(w.ents) > 5 {
		w.older = append(w.older, w.ents[0])
		w.ents = w.ents[1:]
	}
	return ProduceExpect{OK: true, Base: base, Why: "append"}
}

// ---------------------------------------------------------------------------
// transactions

func (c *MCluster) AddProducer(pid int64, epoch int16, txnal bool) {
	c.Prod[pid] = &MProducer{PID: pid, Epoch: epoch, Txnal: txnal, Parts: map[int]bool{}}
}

// AddPartition is a successful AddPartitionsToTxn.
func (c *MCluster) AddPartition(pid int64, pi int) {
	pr := c.Prod[pid]
	pr.Parts[pi] = true
	pr.InTx = true
}

// endOpen ends the open transaction of pr: one marker per added partition.
func (c *MCluster) endOpen(pr *MProducer, commit bool) {
	var ps []int
	for pi := range pr.Parts {
		ps = append(ps, pi)
	}
	sort.Ints(ps)
	for _, pi := range ps {
		p := c.Parts[pi]
		first, had := p.Open[pr.PID]
		delete(p.Open, pr.PID)
		if had {
			for i := range p.Log {
				b := &p.Log[i]
				if b.PID == pr.PID && b.Txn && !b.Control && b.Status == stOpen && b.Base >= first {
					if commit {
						b.Status = stCommitted
					} else {
						b.Status = stAborted
					}
				}
			}
		}
		off := p.append(MBatch{N: 1, PID: pr.PID, Epoch: pr.Epoch, Seq: -1, Control: true, Commit: commit})
		if had && !commit {
			p.Aborted = append(p.Aborted, abortedTxn{pr.PID, first, off})
		}
	}
	pr.InTx = false
	pr.Parts = map[int]bool{}
}

// EndTxn with the producer's current epoch. Returns whether success is
// expected; ok=false means the response code is not judged (no transaction
// was open) and no partition changes.
func (c *MCluster) EndTxn(pid int64, commit bool) (expectOK bool) {
	pr := c.Prod[pid]
	if pr == nil || !pr.InTx {
		return false
	}
	c.endOpen(pr, commit)
	return true
}

// AbortAndBump: the coordinator aborts the open transaction (if any) and bumps
// the epoch (transaction timeout; InitProducerID of a live transactional id).
func (c *MCluster) AbortAndBump(pid int64) {
	pr := c.Prod[pid]
	if pr.InTx {
		c.endOpen(pr, false)
	}
	pr.Epoch++
}

// ---------------------------------------------------------------------------
// DeleteRecords / ListOffsets

func (c *MCluster) DeleteRecords(pi int, off int64) (ok bool, low int64) {
	p := c.Parts[pi]
	if off == -1 {
		off = p.HWM
	}
	if off < p.LogStart || off > p.HWM {
		return false, 0
	}
	p.LogStart = off
	return true, off
}

// ListOffsetsTs is Kafka's timestamp lookup (first record whose timestamp is
// >= ts) for a log without markers; ok=false when the visible log contains a
// marker (whose timestamp the model does not know). Not judged (the statement
// does not cover it); the driver only counts agreement.
func (p *MPartition) ListOffsetsTs(ts int64) (off int64, ok bool) {
	off = -1
	for _, b := range p.Log {
		if b.Last() < p.LogStart {
			continue
		}
		if b.Control {
			return 0, false
		}
		if off < 0 && b.Ts >= ts {
			off = b.Base
			if off < p.LogStart {
				off = p.LogStart
			}
		}
	}
	return off, true
}

// ---------------------------------------------------------------------------
// fetch

// FetchExpect is the model's answer for one partition of a fetch.
type FetchExpect struct {
	OutOfRange bool
	HWM        int64
	LSO        []int64 // acceptable values
	LogStart   int64
	// Batches the broker returns when no size limit cuts the response:
	// from the batch containing the fetch offset up to HWM (read_uncommitted)
	// or up to, excluding, the first batch at or above the LSO.
	Batches []MBatch
}

func (p *MPartition) Fetch(off int64, readCommitted bool) FetchExpect {
	e := FetchExpect{HWM: p.HWM, LSO: p.lsoAlternatives(), LogStart: p.LogStart}
	if off < p.LogStart || off > p.HWM {
		e.OutOfRange = true
		return e
	}
	lso := p.LSO()
	for _, b := range p.Log {
		if b.Last() < off || b.Last() < p.LogStart {
			continue
		}
		if readCommitted && b.Base >= lso {
			break
		}
		e.Batches = append(e.Batches, b)
	}
	return e
}

// abortedRequired lists the aborted transactions that have a data batch among
// got (these must be named in the response); abortedKnown reports whether
// (pid, first) is an aborted transaction of the partition at all and returns
// its marker offset.
func (p *MPartition) abortedRequired(got []MBatch) []abortedTxn {
	var out []abortedTxn
	for _, a := range p.Aborted {
		for _, b := range got {
			if !b.Control && b.Txn && b.PID == a.PID && b.Base >= a.First && b.Base < a.Last {
				out = append(out, a)
				break
			}
		}
	}
	return out
}

func (p *MPartition) abortedKnown(pid, first int64) (abortedTxn, bool) {
	for _, a := range p.Aborted {
		if a.PID == pid && a.First == first {
			return a, true
		}
	}
	return abortedTxn{}, false
}

// ---------------------------------------------------------------------------
// fetch sessions

// SessReq is one fetch request as far as sessions are concerned.
type SessReq struct {
	ID, Epoch int32
	Parts     map[int]int64 // partitions in the request -> fetch offset
	Forget    []int
}

// SessExpect is what the model expects for a session fetch.
type SessExpect struct {
	TopErr      int16 // expected top level error (0: none)
	NewSession  bool  // a new session id (>0) must be returned
	Sessionless bool
	Session     *MSession    // the session after applying the request (nil if none)
	Eval        map[int]bool // partitions the broker evaluates
	NewParts    map[int]bool // partitions that entered the session with this request
}

func (c *MCluster) SessionRequest(r SessReq) SessExpect {
	switch {
	case r.Epoch == -1:
		if r.ID > 0 {
			delete(c.Sess, r.ID)
		}
		ev := map[int]bool{}
		for pi := range r.Parts {
			ev[pi] = true
		}
		return SessExpect{Sessionless: true, Eval: ev}
	case r.Epoch == 0:
		if r.ID > 0 {
			delete(c.Sess, r.ID)
		}
		s := &MSession{Epoch: 1, Parts: map[int]*sessPart{}}
		ev, np := map[int]bool{}, map[int]bool{}
		for pi, off := range r.Parts {
			s.Parts[pi] = &sessPart{fetchOff: off, lastHWM: -1, lastLogStart: -1}
			ev[pi], np[pi] = true, true
		}
		return SessExpect{NewSession: true, Session: s, Eval: ev, NewParts: np}
	}
	s := c.Sess[r.ID]
	if s == nil {
		return SessExpect{TopErr: errFetchSessionIDNotFound}
	}
	if s.Epoch != r.Epoch {
		return SessExpect{TopErr: errInvalidFetchSessEpoch}
	}
	for _, pi := range r.Forget {
		delete(s.Parts, pi)
	}
	np := map[int]bool{}
	for pi, off := range r.Parts {
		if sp := s.Parts[pi]; sp != nil {
			sp.fetchOff = off
		} else {
			s.Parts[pi] = &sessPart{fetchOff: off, lastHWM: -1, lastLogStart: -1}
			np[pi] = true
		}
	}
	ev := map[int]bool{}
	for pi := range s.Parts {
		ev[pi] = true
	}
	return SessExpect{Session: s, Eval: ev, NewParts: np}
}

// mustInclude: an incremental response has to carry partition pi when its
// data, high watermark, log start (or error state) changed since the last
// response of this session, or when it just entered the session.
func (se *SessExpect) mustInclude(pi int, fe FetchExpect) bool {
	if se.Session == nil || se.NewSession || se.NewParts[pi] {
		return true
	}
	sp := se.Session.Parts[pi]
	if sp == nil {
		return true
	}
	return fe.OutOfRange || len(fe.Batches) > 0 || fe.HWM != sp.lastHWM || fe.LogStart != sp.lastLogStart
}

// sent records what the response for pi carried (or would have carried).
func (se *SessExpect) sent(pi int, fe FetchExpect) {
	if se.Session == nil {
		return
	}
	sp := se.Session.Parts[pi]
	if sp == nil {
		return
	}
	if fe.OutOfRange {
		sp.lastHWM, sp.lastLogStart = -1, -1
		return
	}
	sp.lastHWM, sp.lastLogStart = fe.HWM, fe.LogStart
}
