package c32

// Raw protocol access to kfake: a kgo client is used only as a transport
// (Broker(0).Request: one request, one response, never retried), requests are
// hand-built kmsg structs and record batches are hand-built with the
// independent reference codec in internal/reflog.

import (
	"context"
	"fmt"

	"github.com/twmb/franz-go/pkg/kgo"
	"github.com/twmb/franz-go/pkg/kmsg"

	"verifharness/internal/reflog"
)

type wire struct {
	cl      *kgo.Client
	topic   string
	topicID [16]byte
	broker  int32
}

func (w *wire) do(ctx context.Context, req kmsg.Request) (kmsg.Response, error) {
	return w.cl.Broker(int(w.broker)).Request(ctx, req)
}

// buildBatch builds one v2 record batch of n records. The first record's
// value is tag, the others tag+"/i".
func buildBatch(pid int64, epoch int16, seq int32, n int, txn bool, ts int64, tag string) []byte {
	b := reflog.Batch{
		Magic: 2, BaseOffset: 0, LastOffsetDelta: int32(n - 1), PartitionLeaderEpoch: -1,
		Transactional: txn, BaseTimestamp: ts, MaxTimestamp: ts,
		ProducerID: pid, ProducerEpoch: epoch, BaseSequence: seq,
	}
	for i := 0; i < n; i++ {
		v := tag
		if i > 0 {
			v = fmt.Sprintf("%s/%d", tag, i)
		}
		b.Records = append(b.Records, reflog.Record{Offset: int64(i), Timestamp: ts, Key: []byte("k"), Value: []byte(v)})
	}
	raw, err := reflog.Encode(&b, nil)
	if err != nil {
		panic(err)
	}
	return raw
}

func (w *wire) initPID(ctx context.Context, txid string, timeoutMs int32, pid int64, epoch int16) (int16, int64, int16, error) {
	req := kmsg.NewPtrInitProducerIDRequest()
	if txid != "" {
		req.TransactionalID = kmsg.StringPtr(txid)
		req.TransactionTimeoutMillis = timeoutMs
	}
	req.ProducerID = pid
	req.ProducerEpoch = epoch
	kr, err := w.do(ctx, req)
	if err != nil {
		return 0, 0, 0, err
	}
	r := kr.(*kmsg.InitProducerIDResponse)
	return r.ErrorCode, r.ProducerID, r.ProducerEpoch, nil
}

func (w *wire) addPartition(ctx context.Context, txid string, pid int64, epoch int16, part int) (int16, error) {
	req := kmsg.NewPtrAddPartitionsToTxnRequest()
	req.TransactionalID = txid
	req.ProducerID = pid
	req.ProducerEpoch = epoch
	rt := kmsg.NewAddPartitionsToTxnRequestTopic()
	rt.Topic = w.topic
	rt.Partitions = []int32{int32(part)}
	req.Topics = append(req.Topics, rt)
	kr, err := w.do(ctx, req)
	if err != nil {
		return 0, err
	}
	r := kr.(*kmsg.AddPartitionsToTxnResponse)
	if len(r.Topics) != 1 || len(r.Topics[0].Partitions) != 1 {
		return 0, fmt.Errorf("AddPartitionsToTxn response shape (version %d)", r.Version)
	}
	return r.Topics[0].Partitions[0].ErrorCode, nil
}

func (w *wire) endTxn(ctx context.Context, txid string, pid int64, epoch int16, commit bool) (code int16, version int16, rpid int64, repoch int16, err error) {
	req := kmsg.NewPtrEndTxnRequest()
	req.TransactionalID = txid
	req.ProducerID = pid
	req.ProducerEpoch = epoch
	req.Commit = commit
	kr, err := w.do(ctx, req)
	if err != nil {
		return 0, 0, 0, 0, err
	}
	r := kr.(*kmsg.EndTxnResponse)
	return r.ErrorCode, r.Version, r.ProducerID, r.ProducerEpoch, nil
}

func (w *wire) produce(ctx context.Context, part int, raw []byte) (code int16, base int64, version int16, err error) {
	req := kmsg.NewPtrProduceRequest()
	req.Acks = -1
	req.TimeoutMillis = 10000
	rt := kmsg.NewProduceRequestTopic()
	rt.Topic = w.topic
	rt.TopicID = w.topicID
	rp := kmsg.NewProduceRequestTopicPartition()
	rp.Partition = int32(part)
	rp.Records = raw
	rt.Partitions = append(rt.Partitions, rp)
	req.Topics = append(req.Topics, rt)
	kr, err := w.do(ctx, req)
	if err != nil {
		return 0, 0, 0, err
	}
	r := kr.(*kmsg.ProduceResponse)
	if len(r.Topics) != 1 || len(r.Topics[0].Partitions) != 1 {
		return 0, 0, 0, fmt.Errorf("produce response shape")
	}
	p := r.Topics[0].Partitions[0]
	return p.ErrorCode, p.BaseOffset, r.Version, nil
}

func (w *wire) deleteRecords(ctx context.Context, part int, off int64) (int16, int64, error) {
	req := kmsg.NewPtrDeleteRecordsRequest()
	req.TimeoutMillis = 10000
	rt := kmsg.NewDeleteRecordsRequestTopic()
	rt.Topic = w.topic
	rp := kmsg.NewDeleteRecordsRequestTopicPartition()
	rp.Partition = int32(part)
	rp.Offset = off
	rt.Partitions = append(rt.Partitions, rp)
	req.Topics = append(req.Topics, rt)
	kr, err := w.do(ctx, req)
	if err != nil {
		return 0, 0, err
	}
	r := kr.(*kmsg.DeleteRecordsResponse)
	if len(r.Topics) != 1 || len(r.Topics[0].Partitions) != 1 {
		return 0, 0, fmt.Errorf("delete records response shape")
	}
	p := r.Topics[0].Partitions[0]
	return p.ErrorCode, p.LowWatermark, nil
}

func (w *wire) listOffsets(ctx context.Context, part int, ts int64, iso int8) (code int16, off, rts int64, err error) {
	req := kmsg.NewPtrListOffsetsRequest()
	req.ReplicaID = -1
	req.IsolationLevel = iso
	rt := kmsg.NewListOffsetsRequestTopic()
	rt.Topic = w.topic
	rp := kmsg.NewListOffsetsRequestTopicPartition()
	rp.Partition = int32(part)
	rp.Timestamp = ts
	rp.CurrentLeaderEpoch = -1
	rt.Partitions = append(rt.Partitions, rp)
	req.Topics = append(req.Topics, rt)
	kr, err := w.do(ctx, req)
	if err != nil {
		return 0, 0, 0, err
	}
	r := kr.(*kmsg.ListOffsetsResponse)
	if len(r.Topics) != 1 || len(r.Topics[0].Partitions) != 1 {
		return 0, 0, 0, fmt.Errorf("list offsets response shape")
	}
	p := r.Topics[0].Partitions[0]
	return p.ErrorCode, p.Offset, p.Timestamp, nil
}

// FetchPart is one partition of a fetch request.
type FetchPart struct {
	Part     int
	Off      int64
	MaxBytes int32
}

// FetchReq is a fetch request as the driver sees it.
type FetchReq struct {
	Iso       int8
	SessID    int32
	SessEpoch int32
	Parts     []FetchPart
	Forget    []int
	MaxBytes  int32
}

type gotAborted struct{ PID, First int64 }

// GotPart is one decoded partition of a fetch response.
type GotPart struct {
	Err                int16
	HWM, LSO, LogStart int64
	Batches            []MBatch
	Aborted            []gotAborted
	DecodeErr          string
	Trailing           int
}

type GotFetch struct {
	TopErr  int16
	SessID  int32
	Version int16
	Parts   map[int]*GotPart
	Dups    int // partitions present more than once
}

func (w *wire) fetch(ctx context.Context, fr FetchReq) (*GotFetch, error) {
	req := kmsg.NewPtrFetchRequest()
	req.ReplicaID = -1
	req.MaxWaitMillis = 0
	req.MinBytes = 0
	req.MaxBytes = fr.MaxBytes
	if req.MaxBytes == 0 {
		req.MaxBytes = 64 << 20
	}
	req.IsolationLevel = fr.Iso
	req.SessionID = fr.SessID
	req.SessionEpoch = fr.SessEpoch
	if len(fr.Parts) > 0 {
		rt := kmsg.NewFetchRequestTopic()
		rt.Topic = w.topic
		rt.TopicID = w.topicID
		for _, fp := range fr.Parts {
			rp := kmsg.NewFetchRequestTopicPartition()
			rp.Partition = int32(fp.Part)
			rp.FetchOffset = fp.Off
			rp.CurrentLeaderEpoch = -1
			rp.PartitionMaxBytes = fp.MaxBytes
			if rp.PartitionMaxBytes == 0 {
				rp.PartitionMaxBytes = 64 << 20
			}
			rt.Partitions = append(rt.Partitions, rp)
		}
		req.Topics = append(req.Topics, rt)
	}
	if len(fr.Forget) > 0 {
		ft := kmsg.NewFetchRequestForgottenTopic()
		ft.Topic = w.topic
		ft.TopicID = w.topicID
		for _, p := range fr.Forget {
			ft.Partitions = append(ft.Partitions, int32(p))
		}
		req.ForgottenTopics = append(req.ForgottenTopics, ft)
	}
	kr, err := w.do(ctx, req)
	if err != nil {
		return nil, err
	}
	r := kr.(*kmsg.FetchResponse)
	g := &GotFetch{TopErr: r.ErrorCode, SessID: r.SessionID, Version: r.Version, Parts: map[int]*GotPart{}}
	for _, t := range r.Topics {
		for i := range t.Partitions {
			rp := &t.Partitions[i]
			gp := &GotPart{Err: rp.ErrorCode, HWM: rp.HighWatermark, LSO: rp.LastStableOffset, LogStart: rp.LogStartOffset}
			for _, a := range rp.AbortedTransactions {
				gp.Aborted = append(gp.Aborted, gotAborted{a.ProducerID, a.FirstOffset})
			}
			bs, consumed, err := reflog.DecodeBatches(rp.RecordBatches)
			if err != nil {
				gp.DecodeErr = err.Error()
			}
			gp.Trailing = len(rp.RecordBatches) - consumed
			for _, b := range bs {
				mb := MBatch{Base: b.BaseOffset, N: b.LastOffsetDelta + 1, PID: b.ProducerID, Epoch: b.ProducerEpoch, Seq: b.BaseSequence, Txn: b.Transactional, Control: b.Control}
				if int(mb.N) != len(b.Records) {
					gp.DecodeErr = fmt.Sprintf("batch at %d: lastOffsetDelta+1=%d but %d records", b.BaseOffset, mb.N, len(b.Records))
				}
				if b.Control {
					typ, ok := b.ControlType()
					if !ok {
						gp.DecodeErr = fmt.Sprintf("control batch at %d has no parsable control key", b.BaseOffset)
					}
					mb.Commit = typ == 1
				} else if len(b.Records) > 0 {
					mb.Tag = string(b.Records[0].Value)
					mb.Ts = b.BaseTimestamp
				}
				gp.Batches = append(gp.Batches, mb)
			}
			if _, dup := g.Parts[int(rp.Partition)]; dup {
				g.Dups++
			}
			g.Parts[int(rp.Partition)] = gp
		}
	}
	return g, nil
}
