// C33 — kfake persistence survives crashes at any write.
//
// Monitor: kfake persists through a journaling in-memory filesystem
// (kfake.VerifWithFS) while a seeded workload of raw protocol requests runs;
// every acknowledgement is journaled with the index of the last filesystem
// operation that preceded it. Then crash points are ENUMERATED: for a prefix j
// of the filesystem journal and a loss mode (process kill / power loss / torn
// write / partial loss of unsynced tails) the post-crash filesystem is
// materialised, kfake is restarted on it and the recovered state is judged
// through the protocol against the acknowledgement journal. The clean
// Close -> restart clause is checked inside every workload.
package c33

import (
	"context"
	"errors"
	"fmt"
	"reflect"
	"runtime"
	"sort"
	"strings"
	"sync"
	"testing"
	"time"

	"verifharness/internal/vh"
)

const (
	modeKill = iota
	modePower
	modeTorn
	modePartial
	nModes
)

var modeNames = [nModes]string{"process-kill", "power-loss", "torn-write", "partial-loss"}

type modeState struct {
	mode    int
	variant int // seeded variant of a randomised loss mode
	st      *fsState
	note    string
	sameAs  int // index (in the returned slice) of an earlier byte-identical post-crash filesystem, or -1
}

// pathOfIno finds the linked path of an inode.
func pathOfIno(s *fsState, ino int) string {
	for p, n := range s.files {
		if n.ino == ino {
			return p
		}
	}
	return ""
}

// materialise builds the post-crash filesystems of prefix j for the loss
// modes. Only unsynced file tails are ever lost.
func materialise(r *vh.Run, run *wlRun, w, j int, modes []int, variants int) []modeState {
	s := replay(run.Journal, j)
	unsynced := s.unsyncedFiles()
	var out []modeState
	seen := map[string]int{}
	for _, m := range modes {
		nv := 1
		if m == modeTorn || m == modePartial {
			nv = variants
		}
		for variant := 0; variant < nv; variant++ {
			rng := r.Rand(fmt.Sprintf("loss/%s/%d/%d", run.Name, m, variant), j)
			cuts := map[string]int64{}
			note := ""
			switch m {
			case modeKill:
			case modePower:
				for _, p := range unsynced {
					cuts[p] = s.files[p].synced
				}
			case modeTorn:
				// the last write is cut at a seeded byte; if the last op is not
				// a write, a seeded unsynced tail is cut somewhere inside
				if j > 0 && run.Journal[j-1].Kind == opWrite && len(run.Journal[j-1].Data) >= 2 {
					o := run.Journal[j-1]
					if p := pathOfIno(s, o.Ino); p != "" && s.files[p].synced <= o.Off {
						cuts[p] = o.Off + 1 + rng.Int64N(int64(len(o.Data))-1)
						note = fmt.Sprintf("last write to %s cut at byte %d of %d", p, cuts[p]-o.Off, len(o.Data))
					}
				}
				if len(cuts) == 0 && len(unsynced) > 0 {
					p := unsynced[rng.IntN(len(unsynced))]
					n := s.files[p]
					cuts[p] = n.synced + rng.Int64N(int64(len(n.data))-n.synced)
					note = fmt.Sprintf("unsynced tail of %s cut at %d (synced %d, length %d)", p, cuts[p], n.synced, len(n.data))
				}
			case modePartial:
				for _, p := range unsynced {
					n := s.files[p]
					switch rng.IntN(3) {
					case 0: // kept
					case 1:
						cuts[p] = n.synced
					case 2:
						cuts[p] = n.synced + rng.Int64N(int64(len(n.data))-n.synced+1)
					}
				}
				if len(cuts) > 0 {
					note = fmt.Sprintf("cuts %v", cuts)
				}
			}
			ms := modeState{mode: m, variant: variant, st: s.cut(cuts), note: note, sameAs: -1}
			fp := ms.st.fingerprint()
			if prev, ok := seen[fp]; ok {
				ms.sameAs = prev
			} else {
				seen[fp] = len(out)
			}
			out = append(out, ms)
		}
	}
	return out
}

type pointFailure struct {
	w, j, mode int
	f          failure
}

// stepOf names the workload step whose filesystem operations contain op i.
func stepOf(run *wlRun, i int) string {
	for k := len(run.Steps) - 1; k >= 0; k-- {
		if s := run.Steps[k]; s.Issue <= i && i < s.Ack {
			return fmt.Sprintf("step %d: %s (fs ops [%d,%d))", k, s.Name, s.Issue, s.Ack)
		}
	}
	return "between steps"
}

func fileClass(p string) string {
	switch {
	case strings.HasSuffix(p, ".tmp"):
		return "temp file of " + fileClass(strings.TrimSuffix(p, ".tmp"))
	case strings.HasSuffix(p, ".dat"):
		return "segment .dat"
	case strings.HasSuffix(p, ".idx"):
		return "index .idx"
	case strings.HasSuffix(p, "snapshot.json"):
		return "partition snapshot.json"
	case strings.HasSuffix(p, ".json") || strings.HasSuffix(p, ".log"):
		return p[strings.LastIndex(p, "/")+1:]
	}
	return "directory/other"
}

const probeGroup = "c33-probe"

// recoverPoint restarts kfake on one post-crash filesystem and judges it, on
// two copies of that filesystem:
//
//	copy 1: start 1 (crash recovery): observe O1, judge against the ack
//	  journal; clean Close; start 2 must observe exactly O1 (idempotence);
//	copy 2: start 1' (the same recovery); one probe batch per partition and
//	  one probe commit are sent and acked, O1' is observed and the
//	  filesystem is copied (K = a process kill at this moment); start 3 on
//	  K must have the logs and commits of O1' (old data and probes).
func recoverPoint(r *vh.Run, run *wlRun, j int, ms modeState) (fails []failure, c judgeCounts, ok bool) {
	second := ms.st.cut(nil) // copy 2, taken before recovery touches copy 1
	fsys := fsFromState(ms.st, false)
	n, err, panicked := startNode(fsys, run.Sync)
	if panicked != nil {
		return []failure{{"restart panics", map[string]any{"panic": fmt.Sprint(panicked)}}}, c, true
	}
	if err != nil {
		return []failure{{"restart fails", map[string]any{"error": err.Error()}}}, c, true
	}
	ctx, cancel := reqCtx()
	defer cancel()
	groups := append(append([]string(nil), run.Groups...), probeGroup)
	inconclusive := func(where string, err error) {
		r.Inconclusive(fmt.Sprintf("%s prefix %d %s: %s: %v", run.Name, j, modeNames[ms.mode], where, err))
	}
	o1, oerr := observe(ctx, n, groups, run.Txids, false)
	if oerr != nil {
		n.stop()
		inconclusive("observing the recovered cluster", oerr)
		return nil, c, false
	}
	fails, c = judge(run, j, o1)

	// a clean restart of the recovered cluster must be idempotent
	n.stop()
	n2, err, panicked := startNode(fsys, run.Sync)
	if panicked != nil || err != nil {
		fails = append(fails, failure{"second restart (after a clean Close of the recovered cluster) fails", map[string]any{"error": fmt.Sprint(err), "panic": fmt.Sprint(panicked)}})
		return fails, c, true
	}
	o2, oerr := observe(ctx, n2, groups, run.Txids, false)
	n2.stop()
	if oerr != nil {
		inconclusive("observing after the second restart", oerr)
		return fails, c, false
	}
	for _, d := range diffObs(o1, o2, nil) {
		fails = append(fails, failure{"second clean restart not idempotent: " + d.Class, map[string]any{"difference": d.Detail}})
	}

	// the recovered cluster must keep working: probes, then a process kill
	fsys2 := fsFromState(second, false)
	nb, err, panicked := startNode(fsys2, run.Sync)
	if panicked != nil || err != nil {
		fails = append(fails, failure{"the same recovery fails the second time", map[string]any{"error": fmt.Sprint(err), "panic": fmt.Sprint(panicked)}})
		return fails, c, true
	}
	ob, oerr := observe(ctx, nb, groups, run.Txids, false)
	if oerr != nil {
		nb.stop()
		inconclusive("observing the recovered cluster (copy 2)", oerr)
		return fails, c, false
	}
	probed := 0
	var commitAt *tp
	for _, name := range sortedKeys(ob.Topics) {
		t := ob.Topics[name]
		for p := 0; p < t.Parts; p++ {
			key := tp{name, int32(p)}
			if v := ob.Parts[key]; v == nil || v.DecodeErr != "" {
				continue
			}
			batch := buildBatch(-1, -1, -1, false, time.Now().UnixMilli(), []rec{{Value: []byte(fmt.Sprintf("probe-%s-%d", name, p))}})
			ec, base, err := nb.produce(ctx, t, int32(p), batch)
			if err != nil {
				nb.stop()
				inconclusive("probe produce", err)
				return fails, c, false
			}
			if ec != 0 || base != ob.Parts[key].HWM {
				fails = append(fails, failure{"recovered cluster mishandles produce", map[string]any{"partition": fmt.Sprintf("%s/%d", name, p), "error": kerrName(ec), "base_offset": base, "hwm_before": ob.Parts[key].HWM}})
				continue
			}
			probed++
			if commitAt == nil {
				k := key
				commitAt = &k
			}
		}
	}
	if commitAt != nil {
		if err := nb.offsetCommit(ctx, probeGroup, "", -1, commitAt.Topic, commitAt.Part, 424242, "probe"); err != nil {
			fails = append(fails, failure{"recovered cluster mishandles offset commit", map[string]any{"error": err.Error()}})
		}
	}
	c.Probes = probed
	o1p, oerr := observe(ctx, nb, groups, run.Txids, false)
	if oerr != nil {
		nb.stop()
		inconclusive("observing the recovered cluster after the probes", oerr)
		return fails, c, false
	}
	killState := fsys2.deepCopy()
	nb.stop()

	n3, err, panicked := startNode(fsFromState(killState, false), run.Sync)
	if panicked != nil || err != nil {
		fails = append(fails, failure{"restart after a process kill of the recovered cluster fails", map[string]any{"error": fmt.Sprint(err), "panic": fmt.Sprint(panicked)}})
		return fails, c, true
	}
	o3, oerr := observe(ctx, n3, groups, run.Txids, false)
	n3.stop()
	if oerr != nil {
		inconclusive("observing after the kill of the recovered cluster", oerr)
		return fails, c, false
	}
	for _, key := range sortedTPs(o1p.Parts) {
		va, vb := o1p.Parts[key], o3.Parts[key]
		where := fmt.Sprintf("%s/%d", key.Topic, key.Part)
		switch {
		case vb == nil:
			fails = append(fails, failure{"log acked by the recovered cluster lost at its next restart", map[string]any{"partition": where, "lost": "partition missing or unreadable: " + o3.ReadErr[key]}})
		case vb.DecodeErr != "":
			fails = append(fails, failure{"log acked by the recovered cluster lost at its next restart", map[string]any{"partition": where, "decode_error": vb.DecodeErr}})
		case !reflect.DeepEqual(va.Recs, vb.Recs):
			fails = append(fails, failure{"log acked by the recovered cluster lost at its next restart", map[string]any{"partition": where, "records_before_kill": len(va.Recs), "records_after_restart": len(vb.Recs), "hwm_before": va.HWM, "hwm_after": vb.HWM}})
		}
	}
	if !reflect.DeepEqual(o1p.Commits, o3.Commits) {
		fails = append(fails, failure{"offset commit acked by the recovered cluster lost at its next restart", map[string]any{"commits_before_kill": fmt.Sprint(o1p.Commits), "commits_after_restart": fmt.Sprint(o3.Commits)}})
	}
	return fails, c, true
}

// selectPrefixes picks the crash points of one workload. Thorough: every
// prefix. Quick: every Sync/Rename boundary with its neighbours plus a seeded
// sample of the rest.
func selectPrefixes(r *vh.Run, run *wlRun, w int) (js []int, all bool) {
	n := len(run.Journal)
	if r.Thorough() {
		for j := 0; j <= n; j++ {
			js = append(js, j)
		}
		return js, true
	}
	pick := map[int]bool{0: true, n: true}
	for i, o := range run.Journal {
		if o.Kind == opSync || o.Kind == opRename {
			for _, j := range []int{i - 1, i, i + 1, i + 2} {
				if j >= 0 && j <= n {
					pick[j] = true
				}
			}
		}
	}
	rng := r.Rand("prefix-sample/"+run.Name, w)
	for j := 0; j <= n; j++ {
		if !pick[j] && rng.IntN(100) < 50 {
			pick[j] = true
		}
	}
	for j := range pick {
		js = append(js, j)
	}
	sort.Ints(js)
	return js, len(js) == n+1
}

func TestCheck(t *testing.T) {
	r := vh.Start(t, "C33")
	start := time.Now()

	// sizes are a fixed function of the tier; contents of the seed
	var specs []wlSpec
	nSync := r.Pick(3, 14)
	for i := 0; i < nSync; i++ {
		specs = append(specs, wlSpec{Name: fmt.Sprintf("sync%d", i), Sync: true, Ops: r.Pick(40, 80), MidRestart: i%2 == 0, DeleteTopic: i%3 != 2})
	}
	nNoSync := r.Pick(1, 4)
	for i := 0; i < nNoSync; i++ {
		specs = append(specs, wlSpec{Name: fmt.Sprintf("nosync%d", i), Sync: false, Ops: r.Pick(25, 50), MidRestart: i%2 == 1, DeleteTopic: true})
	}
	specs = append(specs, wlSpec{Name: "cleanonly", Sync: true, Ops: r.Pick(30, 60), MidRestart: true, DelRecords: true, DeleteTopic: true, StaleTxn: true})

	runs := make([]*wlRun, len(specs))
	var mu sync.Mutex
	vh.Parallel(len(specs), len(specs), func(i int) {
		run, err := runWorkload(specs[i], r.Rand("workload/"+specs[i].Name, i))
		mu.Lock()
		defer mu.Unlock()
		if err != nil && !errors.Is(err, errProbe) {
			r.Inconclusive(fmt.Sprintf("workload %s did not run to completion: %v", specs[i].Name, err))
			if run == nil {
				return
			}
			run.NoCrash = true // an incomplete reference history is not enumerated
		}
		if err != nil {
			run.Incomplete = true
		}
		runs[i] = run
	})

	exhaustive := r.Thorough()
	type task struct{ w, j int }
	var tasks []task
	for w, run := range runs {
		if run == nil {
			exhaustive = false
			continue
		}
		// the clean Close clause
		for _, cf := range run.CleanFail {
			r.Violation(cf.Sig, cf.Detail)
		}
		r.Eval(run.Restarts)
		r.Count("clean_restarts_compared", run.Restarts)
		r.Count("workloads", 1)
		r.Count("fs_ops_journaled", len(run.Journal))
		r.Count("produce_acks_journaled", run.ProduceAcks)
		r.Count("commit_acks_journaled", run.CommitAcks)
		r.Count("segment_files_created", run.Rolls)
		r.Count("overwrites_of_synced_bytes", run.Overwrite)
		r.Count("dontcare_txn_registration_on_deleted_topic", run.RegsOnMissing)
		kinds := map[opKind]int{}
		for _, o := range run.Journal {
			kinds[o.Kind]++
		}
		for k, n := range kinds {
			r.Count("fs_ops_"+k.String(), n)
		}
		if run.Incomplete {
			exhaustive = false
		}
		if run.NoCrash {
			continue
		}
		js, all := selectPrefixes(r, run, w)
		if !all {
			exhaustive = false
		}
		for _, j := range js {
			tasks = append(tasks, task{w, j})
		}
	}

	var fmu sync.Mutex
	var failures []pointFailure
	covered := make([]map[int]bool, len(runs))
	for i := range covered {
		covered[i] = map[int]bool{}
	}
	workers := runtime.GOMAXPROCS(0)
	ctx, cancel := context.WithTimeout(context.Background(), time.Duration(r.Pick(400, 3000))*time.Second)
	defer cancel()
	vh.Parallel(len(tasks), workers, func(i int) {
		tk := tasks[i]
		run := runs[tk.w]
		if ctx.Err() != nil {
			fmu.Lock()
			exhaustive = false
			fmu.Unlock()
			r.Inconclusive("watchdog: enumeration did not finish in the allotted time")
			return
		}
		modes := []int{modeKill, modePower, modeTorn, modePartial}
		if !run.Sync {
			// without SyncWrites nothing is promised about unsynced data
			modes = []int{modeKill}
		}
		states := materialise(r, run, tk.w, tk.j, modes, r.Pick(1, 3))
		base := replay(run.Journal, tk.j)
		nontrivial := len(base.unsyncedFiles()) > 0 || base.pendingTmp()
		judged := true
		for _, ms := range states {
			if ms.sameAs >= 0 {
				// byte-identical to a filesystem already judged at this prefix
				r.Count("points_"+modeNames[ms.mode]+"_identical_to_judged_state", 1)
				continue
			}
			fails, c, ok := recoverPoint(r, run, tk.j, ms)
			if !ok {
				judged = false
				fmu.Lock()
				exhaustive = false
				fmu.Unlock()
				continue
			}
			r.Eval(1)
			r.Count("points_"+modeNames[ms.mode]+"_recovered", 1)
			r.Count("acked_records_checked", c.AcksChecked)
			r.Count("acked_commits_checked", c.CommitsChecked)
			r.Count("partitions_checked", c.PartitionsChecked)
			r.Count("post_recovery_probe_batches", c.Probes)
			for k, n := range c.Dontcare {
				r.Count("dontcare_"+k, n)
			}
			if nontrivial {
				r.Distinct(fmt.Sprintf("%s/%d/%s/%d", run.Name, tk.j, modeNames[ms.mode], ms.variant))
				r.Count("points_inside_multi_op_update", 1)
			}
			if len(fails) == 0 && nontrivial && tk.j > 0 && r.WantSample() {
				r.Sample(map[string]any{"workload": run.Name, "prefix": tk.j, "mode": modeNames[ms.mode], "last_op": run.Journal[tk.j-1].String(), "in": stepOf(run, tk.j-1), "loss": ms.note, "unsynced_files": base.unsyncedFiles(), "acked_records_checked": c.AcksChecked, "acked_commits_checked": c.CommitsChecked, "verdict": "recovered state contains every acknowledgement"})
			}
			for _, f := range fails {
				f.Detail["workload"] = run.Name
				f.Detail["sync_writes"] = run.Sync
				f.Detail["crash_prefix"] = tk.j
				f.Detail["loss_mode"] = modeNames[ms.mode]
				f.Detail["loss"] = ms.note
				f.Detail["unsynced_files_at_crash"] = base.unsyncedFiles()
				if tk.j > 0 {
					f.Detail["last_fs_op_before_crash"] = fmt.Sprintf("#%d %s", tk.j-1, run.Journal[tk.j-1].String())
					f.Detail["last_fs_op_file"] = fileClass(run.Journal[tk.j-1].Path)
					f.Detail["workload_step"] = stepOf(run, tk.j-1)
				}
				if tk.j < len(run.Journal) {
					f.Detail["next_fs_op_never_executed"] = fmt.Sprintf("#%d %s", tk.j, run.Journal[tk.j].String())
				}
				fmu.Lock()
				failures = append(failures, pointFailure{tk.w, tk.j, ms.mode, f})
				fmu.Unlock()
			}
		}
		if judged {
			fmu.Lock()
			covered[tk.w][tk.j] = true
			fmu.Unlock()
		}
	})

	// report the minimal failing crash point of every signature
	sort.Slice(failures, func(a, b int) bool {
		fa, fb := failures[a], failures[b]
		if fa.w != fb.w {
			return fa.w < fb.w
		}
		if fa.j != fb.j {
			return fa.j < fb.j
		}
		return fa.mode < fb.mode
	})
	perSig := map[string]int{}
	listed := map[string][]string{}
	for _, pf := range failures {
		// what failed names the signature; for losses the loss mode is part
		// of what failed, for a non-idempotent second restart it is not
		sig := pf.f.What
		if !strings.HasPrefix(sig, "second clean restart not idempotent") && !strings.Contains(sig, "by the recovered cluster lost at its next restart") {
			sig = fmt.Sprintf("%s after %s crash", pf.f.What, modeNames[pf.mode])
			if !runs[pf.w].Sync {
				sig += " (without SyncWrites)"
			}
		}
		perSig[sig]++
		if len(listed[sig]) < 60 {
			listed[sig] = append(listed[sig], fmt.Sprintf("%s prefix %d %s, last op %v", runs[pf.w].Name, pf.j, modeNames[pf.mode], pf.f.Detail["last_fs_op_before_crash"]))
		}
		r.Violation(sig, pf.f.Detail)
	}
	for sig, n := range perSig {
		r.Count("failing_points: "+sig, n)
	}
	if len(listed) > 0 {
		r.Set("failing_points", listed)
	}

	// boundary coverage
	for w, run := range runs {
		if run == nil || run.NoCrash {
			continue
		}
		for i, o := range run.Journal {
			if (o.Kind == opSync || o.Kind == opRename) && covered[w][i] && covered[w][i+1] {
				r.Count("boundaries_covered_"+o.Kind.String(), 1)
			}
			if o.Kind == opSync || o.Kind == opRename {
				r.Count("boundaries_total_"+o.Kind.String(), 1)
			}
		}
		r.Count("prefixes_total", len(run.Journal)+1)
		r.Count("prefixes_enumerated", len(covered[w]))
	}
	r.Set("exhaustive", exhaustive)
	r.Set("enumeration_wall_s", time.Since(start).Seconds())

	r.Finish("fault_enumeration",
		"one evaluation = one (workload, journal prefix j, loss mode[, seeded variant]) whose post-crash filesystem was materialised, recovered by kfake.NewCluster and judged through the protocol (plus one per clean Close -> restart comparison). Per crash point: start 1 must succeed and contain every acked produce / offset commit (logs are CRC-valid, contiguous prefixes of the produced history); a clean Close + start 2 must observe exactly the same state; on a second copy of the post-crash filesystem the recovered cluster acks one probe batch per partition and a probe commit, and start 3 on a copy of the filesystem taken right after the probes (process kill) must still have all logs and commits. Workloads: seeded sequential scripts of raw requests (plain / idempotent / transactional produce with commit, abort and one transaction left open; simple, member and transactional offset commits; topic create / delete / recreate / config change; segment.bytes 200-300 so segments roll every 2-3 batches; state.log.compact.bytes=700 so groups.log and pids.log are compacted every few entries; clean restarts inside). Loss modes: process kill (nothing lost), power loss (every file cut to its last synced length), torn write (last write, or else a seeded unsynced tail, cut at a seeded byte), partial loss (seeded subset of unsynced tails kept / dropped / cut; thorough: 3 seeded variants of the last two); without SyncWrites only process kill. Post-crash filesystems byte-identical to one already judged at the same prefix share its verdict and are not recovered again (counted separately). Thorough: every prefix of every workload; quick: every Sync and Rename boundary with the two prefixes before/after it plus a seeded half of the remaining prefixes. Non-trivial (distinct key workload/prefix/mode/variant): at that prefix at least one file has unsynced bytes or a temp file awaits its rename, i.e. the crash lies inside a multi-operation update",
		"loss model: only unsynced file tails are lost (a file is cut at a length between its last synced length and its current length); create, rename, remove, mkdir and truncate are atomic and durable (kfake never fsyncs directories, so directory-entry durability is outside the model); no reordering of writes within a file, no bit corruption",
		"the acknowledgement index is the journal length when the response was received: kfake handles requests serially and the workload is sequential; asynchronous state-log compaction can only make that index larger (weaker check)",
		"a later acked commit supersedes an earlier one; a commit or batch whose request was sent before the crash point but not acked by it may or may not be present; data of a topic whose deletion request was sent before the crash point is not judged; the transaction marker of an acked EndTxn is judged only through prefix/contiguity of the log (dontcare when it is the missing log end); acked topic creations without acked data are not required to exist (dontcare)",
		"DeleteRecords is exercised only in the clean Close clause (its log start offset is documented as not persisted live); log compaction (rebuildSegments) and retention are not exercised; producer sequence state after a crash is not judged (kfake persists it at Close only), after a clean Close it is probed with a duplicate batch",
	)
}
