package c33

import (
	"fmt"
	"sync"
)

func init() {
	var mu sync.Mutex
	n := 0
	dbgLSO = func(run *wlRun, j int, where string, v *partView, o *observation) {
		mu.Lock()
		defer mu.Unlock()
		n++
		if n%100 == 1 {
			fmt.Printf("DBGLSO %s j=%d %s lso=%d hwm=%d listed=%v lastop=%v step=%s\n", run.Name, j, where, v.LSO, v.HWM, o.Listed, run.Journal[j-1], stepOf(run, j-1))
		}
	}
}
