package c33

// Journaling in-memory filesystem implementing kfake.VerifFS.
//
// Every mutating operation (file creation by OpenFile, O_TRUNC, Write, Sync,
// Truncate, Rename, Remove, RemoveAll, MkdirAll) is appended to a journal with
// its arguments and contents. Handles refer to inodes (as on POSIX): a handle
// keeps writing to the same inode after the path was renamed or removed, so
// journal entries name inodes, and paths only where the namespace changes.
//
// Every inode tracks the length of its durable prefix (`synced`): bytes up to
// the length the file had at its last Sync. The loss model of the crash
// enumeration is: after a crash each file is cut at some length between its
// durable length and its current length; namespace operations (create, rename,
// remove, mkdir, truncate) are atomic and durable.

import (
	"crypto/sha256"
	"encoding/binary"
	"fmt"
	"io"
	"os"
	"path"
	"sort"
	"strings"
	"sync"
	"syscall"
	"time"

	"github.com/twmb/franz-go/pkg/kfake"
)

type opKind uint8

const (
	opCreate    opKind = iota // OpenFile(O_CREATE) made a new file: Path, Ino
	opOpenTrunc               // OpenFile(O_TRUNC) emptied an existing file: Ino
	opWrite                   // Ino, Off, Data
	opSync                    // Ino
	opTruncate                // Ino, Off = new size
	opRename                  // Path -> Path2
	opRemove                  // Path (file or empty directory)
	opRemoveAll               // Path
	opMkdirAll                // Path
)

func (k opKind) String() string {
	return [...]string{"Create", "OpenTrunc", "Write", "Sync", "Truncate", "Rename", "Remove", "RemoveAll", "MkdirAll"}[k]
}

type fsOp struct {
	Kind  opKind
	Ino   int
	Path  string // path the op named (for inode ops: the path the handle was opened with)
	Path2 string
	Off   int64
	Data  []byte
}

func (o fsOp) String() string {
	switch o.Kind {
	case opWrite:
		return fmt.Sprintf("Write(%s ino=%d off=%d len=%d)", o.Path, o.Ino, o.Off, len(o.Data))
	case opTruncate:
		return fmt.Sprintf("Truncate(%s ino=%d size=%d)", o.Path, o.Ino, o.Off)
	case opRename:
		return fmt.Sprintf("Rename(%s -> %s)", o.Path, o.Path2)
	case opCreate, opOpenTrunc, opSync:
		return fmt.Sprintf("%s(%s ino=%d)", o.Kind, o.Path, o.Ino)
	}
	return fmt.Sprintf("%s(%s)", o.Kind, o.Path)
}

type inode struct {
	ino    int
	data   []byte
	synced int64 // length of the durable prefix
	shared bool  // data aliases another state's slice: copy before writing in place
}

// fsState is the namespace plus inodes; both the live filesystem and the
// journal replayer operate on it.
type fsState struct {
	files  map[string]*inode
	dirs   map[string]bool
	inodes map[int]*inode // every inode ever created (also unlinked ones)
}

func newState() *fsState {
	return &fsState{files: map[string]*inode{}, dirs: map[string]bool{"/": true}, inodes: map[int]*inode{}}
}

// apply executes one journaled op on the state (used by replay; the live fs
// goes through the same function so that replay is the live behaviour by
// construction).
func (s *fsState) apply(o *fsOp) {
	switch o.Kind {
	case opCreate:
		n := &inode{ino: o.Ino}
		s.inodes[o.Ino] = n
		s.files[o.Path] = n
	case opOpenTrunc:
		n := s.inodes[o.Ino]
		n.data = nil
		n.synced = 0
	case opWrite:
		n := s.inodes[o.Ino]
		end := o.Off + int64(len(o.Data))
		if o.Off < n.synced {
			// overwrite of durable bytes (kfake never does this): the
			// simple tail model treats everything from Off as not durable
			n.synced = o.Off
		}
		if n.shared {
			// copy on write: a materialised state shares slices with
			// the replayed state it was cut from
			n.data = append(make([]byte, 0, end), n.data...)
			n.shared = false
		}
		if end > int64(len(n.data)) {
			n.data = append(n.data, make([]byte, end-int64(len(n.data)))...)
		}
		copy(n.data[o.Off:], o.Data)
	case opSync:
		n := s.inodes[o.Ino]
		n.synced = int64(len(n.data))
	case opTruncate:
		n := s.inodes[o.Ino]
		if o.Off < int64(len(n.data)) {
			n.data = n.data[:o.Off:o.Off]
		} else if o.Off > int64(len(n.data)) {
			grown := make([]byte, o.Off)
			copy(grown, n.data)
			n.data = grown
		}
		if n.synced > o.Off {
			n.synced = o.Off
		}
	case opRename:
		n := s.files[o.Path]
		delete(s.files, o.Path)
		s.files[o.Path2] = n
	case opRemove:
		if _, ok := s.files[o.Path]; ok {
			delete(s.files, o.Path)
		} else {
			delete(s.dirs, o.Path)
		}
	case opRemoveAll:
		prefix := o.Path + "/"
		for k := range s.files {
			if k == o.Path || strings.HasPrefix(k, prefix) {
				delete(s.files, k)
			}
		}
		for k := range s.dirs {
			if k == o.Path || strings.HasPrefix(k, prefix) {
				delete(s.dirs, k)
			}
		}
	case opMkdirAll:
		for p := o.Path; p != "/" && p != "." && p != ""; p = path.Dir(p) {
			s.dirs[p] = true
		}
	}
}

// replay returns the state after the first n ops of journal.
func replay(journal []fsOp, n int) *fsState {
	s := newState()
	for i := 0; i < n; i++ {
		s.apply(&journal[i])
	}
	return s
}

// unsyncedFiles returns the linked paths whose inode has bytes beyond its
// durable length, sorted.
func (s *fsState) unsyncedFiles() []string {
	var out []string
	for p, n := range s.files {
		if n.synced < int64(len(n.data)) {
			out = append(out, p)
		}
	}
	sort.Strings(out)
	return out
}

// pendingTmp reports whether a temp file is waiting for its rename.
func (s *fsState) pendingTmp() bool {
	for p := range s.files {
		if strings.HasSuffix(p, ".tmp") {
			return true
		}
	}
	return false
}

// cut returns a copy of the namespace where file p is cut at cuts[p] (files not
// in cuts keep their full content). Inode data slices are shared read-only
// until written (apply copies on write).
func (s *fsState) cut(cuts map[string]int64) *fsState {
	out := newState()
	for d := range s.dirs {
		out.dirs[d] = true
	}
	ino := 0
	for p, n := range s.files {
		ino++
		l := int64(len(n.data))
		if c, ok := cuts[p]; ok && c < l {
			l = c
		}
		nn := &inode{ino: ino, data: n.data[:l:l], synced: l, shared: true}
		out.files[p] = nn
		out.inodes[ino] = nn
	}
	return out
}

// fingerprint identifies a namespace + contents (used to recognise loss modes
// that produce byte-identical post-crash filesystems).
func (s *fsState) fingerprint() string {
	var keys []string
	for p := range s.files {
		keys = append(keys, p)
	}
	sort.Strings(keys)
	h := sha256.New()
	var lb [8]byte
	put := func(b []byte) {
		binary.LittleEndian.PutUint64(lb[:], uint64(len(b)))
		h.Write(lb[:])
		h.Write(b)
	}
	for _, p := range keys {
		put([]byte(p))
		put(s.files[p].data)
	}
	var ds []string
	for d := range s.dirs {
		ds = append(ds, d)
	}
	sort.Strings(ds)
	for _, d := range ds {
		put([]byte("d:" + d))
	}
	return string(h.Sum(nil))
}

// ---------------------------------------------------------------- live fs

type jfs struct {
	mu      sync.Mutex
	st      *fsState
	nextIno int
	record  bool
	journal []fsOp
	// counters of things the simple loss model does not expect
	overwriteSynced int
}

func newJFS(record bool) *jfs { return &jfs{st: newState(), record: record} }

// fsFromState wraps a materialised post-crash state in a fresh filesystem.
func fsFromState(s *fsState, record bool) *jfs {
	max := 0
	for i := range s.inodes {
		if i > max {
			max = i
		}
	}
	return &jfs{st: s, nextIno: max, record: record}
}

// deepCopy returns the current namespace and contents (what a process kill at
// this moment leaves behind), sharing nothing with the live filesystem.
func (f *jfs) deepCopy() *fsState {
	f.mu.Lock()
	defer f.mu.Unlock()
	out := newState()
	for d := range f.st.dirs {
		out.dirs[d] = true
	}
	ino := 0
	for p, n := range f.st.files {
		ino++
		nn := &inode{ino: ino, data: append([]byte(nil), n.data...), synced: int64(len(n.data))}
		out.files[p] = nn
		out.inodes[ino] = nn
	}
	return out
}

var _ kfake.VerifFS = (*jfs)(nil)

// Len is the number of journaled ops so far.
func (f *jfs) Len() int {
	f.mu.Lock()
	defer f.mu.Unlock()
	return len(f.journal)
}

func (f *jfs) Journal() []fsOp {
	f.mu.Lock()
	defer f.mu.Unlock()
	return append([]fsOp(nil), f.journal...)
}

// do applies and journals one op; caller holds mu.
func (f *jfs) do(o fsOp) {
	if o.Kind == opWrite {
		if n := f.st.inodes[o.Ino]; o.Off < n.synced {
			f.overwriteSynced++
		}
	}
	f.st.apply(&o)
	if f.record {
		f.journal = append(f.journal, o)
	}
}

func clean(p string) string { return path.Clean(p) }

func pathErr(op, p string, err error) error { return &os.PathError{Op: op, Path: p, Err: err} }

func (f *jfs) OpenFile(name string, flag int, _ os.FileMode) (kfake.VerifFile, error) {
	name = clean(name)
	f.mu.Lock()
	defer f.mu.Unlock()
	if f.st.dirs[name] {
		return nil, pathErr("open", name, syscall.EISDIR)
	}
	n, ok := f.st.files[name]
	if !ok {
		if flag&os.O_CREATE == 0 {
			return nil, pathErr("open", name, os.ErrNotExist)
		}
		if !f.st.dirs[path.Dir(name)] {
			return nil, pathErr("open", name, os.ErrNotExist)
		}
		f.nextIno++
		f.do(fsOp{Kind: opCreate, Ino: f.nextIno, Path: name})
		n = f.st.files[name]
	} else if flag&os.O_TRUNC != 0 && flag&(os.O_WRONLY|os.O_RDWR) != 0 {
		if len(n.data) > 0 || n.synced > 0 {
			f.do(fsOp{Kind: opOpenTrunc, Ino: n.ino, Path: name})
		}
	}
	return &jfile{fs: f, n: n, name: name, flag: flag}, nil
}

func (f *jfs) Rename(oldpath, newpath string) error {
	oldpath, newpath = clean(oldpath), clean(newpath)
	f.mu.Lock()
	defer f.mu.Unlock()
	if _, ok := f.st.files[oldpath]; !ok {
		return &os.LinkError{Op: "rename", Old: oldpath, New: newpath, Err: os.ErrNotExist}
	}
	if !f.st.dirs[path.Dir(newpath)] {
		return &os.LinkError{Op: "rename", Old: oldpath, New: newpath, Err: os.ErrNotExist}
	}
	f.do(fsOp{Kind: opRename, Path: oldpath, Path2: newpath})
	return nil
}

func (f *jfs) Remove(name string) error {
	name = clean(name)
	f.mu.Lock()
	defer f.mu.Unlock()
	if _, ok := f.st.files[name]; ok {
		f.do(fsOp{Kind: opRemove, Path: name})
		return nil
	}
	if f.st.dirs[name] {
		prefix := name + "/"
		for k := range f.st.files {
			if strings.HasPrefix(k, prefix) {
				return pathErr("remove", name, syscall.ENOTEMPTY)
			}
		}
		for k := range f.st.dirs {
			if strings.HasPrefix(k, prefix) {
				return pathErr("remove", name, syscall.ENOTEMPTY)
			}
		}
		f.do(fsOp{Kind: opRemove, Path: name})
		return nil
	}
	return pathErr("remove", name, os.ErrNotExist)
}

func (f *jfs) RemoveAll(name string) error {
	name = clean(name)
	f.mu.Lock()
	defer f.mu.Unlock()
	f.do(fsOp{Kind: opRemoveAll, Path: name})
	return nil
}

func (f *jfs) MkdirAll(name string, _ os.FileMode) error {
	name = clean(name)
	f.mu.Lock()
	defer f.mu.Unlock()
	for p := name; p != "/" && p != "."; p = path.Dir(p) {
		if _, ok := f.st.files[p]; ok {
			return pathErr("mkdir", p, syscall.ENOTDIR)
		}
	}
	if f.st.dirs[name] {
		return nil // nothing changes: not journaled
	}
	f.do(fsOp{Kind: opMkdirAll, Path: name})
	return nil
}

func (f *jfs) ReadDir(name string) ([]os.DirEntry, error) {
	name = clean(name)
	f.mu.Lock()
	defer f.mu.Unlock()
	if !f.st.dirs[name] {
		if _, ok := f.st.files[name]; ok {
			return nil, pathErr("readdir", name, syscall.ENOTDIR)
		}
		return nil, pathErr("open", name, os.ErrNotExist)
	}
	prefix := name + "/"
	if name == "/" {
		prefix = "/"
	}
	var out []os.DirEntry
	for k, n := range f.st.files {
		if strings.HasPrefix(k, prefix) && !strings.Contains(k[len(prefix):], "/") {
			out = append(out, jinfo{name: k[len(prefix):], size: int64(len(n.data))})
		}
	}
	for k := range f.st.dirs {
		if k != name && strings.HasPrefix(k, prefix) && !strings.Contains(k[len(prefix):], "/") {
			out = append(out, jinfo{name: k[len(prefix):], dir: true})
		}
	}
	sort.Slice(out, func(i, j int) bool { return out[i].Name() < out[j].Name() })
	return out, nil
}

func (f *jfs) ReadFile(name string) ([]byte, error) {
	name = clean(name)
	f.mu.Lock()
	defer f.mu.Unlock()
	n, ok := f.st.files[name]
	if !ok {
		if f.st.dirs[name] {
			return nil, pathErr("read", name, syscall.EISDIR)
		}
		return nil, pathErr("open", name, os.ErrNotExist)
	}
	return append([]byte{}, n.data...), nil
}

func (f *jfs) Stat(name string) (os.FileInfo, error) {
	name = clean(name)
	f.mu.Lock()
	defer f.mu.Unlock()
	if n, ok := f.st.files[name]; ok {
		return jinfo{name: path.Base(name), size: int64(len(n.data))}, nil
	}
	if f.st.dirs[name] {
		return jinfo{name: path.Base(name), dir: true}, nil
	}
	return nil, pathErr("stat", name, os.ErrNotExist)
}

// ---------------------------------------------------------------- handles

type jfile struct {
	fs     *jfs
	n      *inode
	name   string
	flag   int
	pos    int64
	closed bool
}

func (h *jfile) writable() bool { return h.flag&(os.O_WRONLY|os.O_RDWR) != 0 }
func (h *jfile) readable() bool { return h.flag&os.O_WRONLY == 0 }

func (h *jfile) Write(b []byte) (int, error) {
	h.fs.mu.Lock()
	defer h.fs.mu.Unlock()
	if h.closed {
		return 0, pathErr("write", h.name, os.ErrClosed)
	}
	if !h.writable() {
		return 0, pathErr("write", h.name, syscall.EBADF)
	}
	if len(b) == 0 {
		return 0, nil
	}
	if h.flag&os.O_APPEND != 0 {
		h.pos = int64(len(h.n.data))
	}
	h.fs.do(fsOp{Kind: opWrite, Ino: h.n.ino, Path: h.name, Off: h.pos, Data: append([]byte(nil), b...)})
	h.pos += int64(len(b))
	return len(b), nil
}

func (h *jfile) Read(b []byte) (int, error) {
	h.fs.mu.Lock()
	defer h.fs.mu.Unlock()
	if h.closed {
		return 0, pathErr("read", h.name, os.ErrClosed)
	}
	if !h.readable() {
		return 0, pathErr("read", h.name, syscall.EBADF)
	}
	if h.pos >= int64(len(h.n.data)) {
		return 0, io.EOF
	}
	n := copy(b, h.n.data[h.pos:])
	h.pos += int64(n)
	return n, nil
}

func (h *jfile) Seek(offset int64, whence int) (int64, error) {
	h.fs.mu.Lock()
	defer h.fs.mu.Unlock()
	if h.closed {
		return 0, pathErr("seek", h.name, os.ErrClosed)
	}
	np := h.pos
	switch whence {
	case io.SeekStart:
		np = offset
	case io.SeekCurrent:
		np += offset
	case io.SeekEnd:
		np = int64(len(h.n.data)) + offset
	}
	if np < 0 {
		return 0, pathErr("seek", h.name, syscall.EINVAL)
	}
	h.pos = np
	return np, nil
}

func (h *jfile) Truncate(size int64) error {
	h.fs.mu.Lock()
	defer h.fs.mu.Unlock()
	if h.closed {
		return pathErr("truncate", h.name, os.ErrClosed)
	}
	if !h.writable() || size < 0 {
		return pathErr("truncate", h.name, syscall.EINVAL)
	}
	if size == int64(len(h.n.data)) {
		return nil
	}
	h.fs.do(fsOp{Kind: opTruncate, Ino: h.n.ino, Path: h.name, Off: size})
	return nil
}

func (h *jfile) Sync() error {
	h.fs.mu.Lock()
	defer h.fs.mu.Unlock()
	if h.closed {
		return pathErr("sync", h.name, os.ErrClosed)
	}
	h.fs.do(fsOp{Kind: opSync, Ino: h.n.ino, Path: h.name})
	return nil
}

func (h *jfile) Close() error {
	h.fs.mu.Lock()
	defer h.fs.mu.Unlock()
	if h.closed {
		return pathErr("close", h.name, os.ErrClosed)
	}
	h.closed = true
	return nil
}

// jinfo is both os.FileInfo and os.DirEntry.
type jinfo struct {
	name string
	size int64
	dir  bool
}

func (i jinfo) Name() string { return i.name }
func (i jinfo) Size() int64  { return i.size }
func (i jinfo) Mode() os.FileMode {
	if i.dir {
		return os.ModeDir | 0o755
	}
	return 0o644
}
func (i jinfo) ModTime() time.Time         { return time.Time{} }
func (i jinfo) IsDir() bool                { return i.dir }
func (i jinfo) Sys() any                   { return nil }
func (i jinfo) Type() os.FileMode          { return i.Mode().Type() }
func (i jinfo) Info() (os.FileInfo, error) { return i, nil }
