package c33

// Observation of a cluster through the protocol, the comparison of two
// observations (clean Close clause, idempotence of a second restart) and the
// judgement of a recovered cluster against the acknowledgement journal.

import (
	"bytes"
	"context"
	"errors"
	"fmt"
	"reflect"
	"sort"
	"strings"

	"github.com/twmb/franz-go/pkg/kerr"
)

type observation struct {
	Topics    map[string]topicMeta
	Configs   map[string]map[string]string
	Parts     map[tp]*partView
	ReadErr   map[tp]string
	Commits   map[string]map[tp]committed
	Listed    []string
	Described []string
	// transaction registrations on topics that do not exist (deleted while
	// the transaction was open): not judged
	RegsOnMissingTopics int
}

func observe(ctx context.Context, n *node, groups, txids []string, withConfigs bool) (*observation, error) {
	o := &observation{Configs: map[string]map[string]string{}, Parts: map[tp]*partView{}, ReadErr: map[tp]string{}, Commits: map[string]map[tp]committed{}}
	var err error
	if o.Topics, err = n.metadata(ctx); err != nil {
		return nil, fmt.Errorf("metadata: %w", err)
	}
	for _, name := range sortedKeys(o.Topics) {
		t := o.Topics[name]
		if withConfigs {
			if o.Configs[name], err = n.describeTopicConfigs(ctx, name); err != nil {
				return nil, fmt.Errorf("describe configs %s: %w", name, err)
			}
		}
		for p := 0; p < t.Parts; p++ {
			v, err := n.readPartition(ctx, t, int32(p))
			if err != nil {
				var ke *kerr.Error
				if errors.As(err, &ke) {
					o.ReadErr[tp{name, int32(p)}] = err.Error()
					continue
				}
				return nil, fmt.Errorf("read %s/%d: %w", name, p, err)
			}
			o.Parts[tp{name, int32(p)}] = v
		}
	}
	for _, g := range groups {
		c, err := n.offsetFetch(ctx, g)
		if err != nil {
			if errors.Is(err, kerr.GroupIDNotFound) {
				c = map[tp]committed{}
			} else {
				return nil, fmt.Errorf("offset fetch %s: %w", g, err)
			}
		}
		o.Commits[g] = c
	}
	exists := func(topic string) bool { _, ok := o.Topics[topic]; return ok }
	if o.Listed, o.Described, o.RegsOnMissingTopics, err = n.txnStates(ctx, txids, exists); err != nil {
		return nil, fmt.Errorf("transactions: %w", err)
	}
	return o, nil
}

type obsDiff struct {
	Class  string
	Detail string
}

// diffObs lists the differences between two observations of what must be the
// same state.
// staleTxn names partitions of recreated topics on whose deleted incarnation an
// open transaction is still registered.
func diffObs(a, b *observation, staleTxn map[tp]bool) (out []obsDiff) {
	add := func(class, format string, args ...any) {
		for _, d := range out {
			if d.Class == class {
				return // one witness per class
			}
		}
		out = append(out, obsDiff{class, fmt.Sprintf(format, args...)})
	}
	if !reflect.DeepEqual(a.Topics, b.Topics) {
		add("topics (names, ids, partition counts)", "before %v, after %v", a.Topics, b.Topics)
	}
	if !reflect.DeepEqual(a.Configs, b.Configs) {
		for t, ca := range a.Configs {
			for k, v := range ca {
				if b.Configs[t][k] != v {
					add("topic configs", "topic %s config %s: before %q, after %q", t, k, v, b.Configs[t][k])
				}
			}
		}
		add("topic configs", "before %v, after %v", a.Configs, b.Configs)
	}
	var keys []tp
	for k := range a.Parts {
		keys = append(keys, k)
	}
	for k := range b.Parts {
		if _, ok := a.Parts[k]; !ok {
			keys = append(keys, k)
		}
	}
	sort.Slice(keys, func(i, j int) bool {
		if keys[i].Topic != keys[j].Topic {
			return keys[i].Topic < keys[j].Topic
		}
		return keys[i].Part < keys[j].Part
	})
	for _, k := range keys {
		va, vb := a.Parts[k], b.Parts[k]
		if va == nil || vb == nil {
			add("logs", "partition %s/%d readable before=%v after=%v (read errors: %q / %q)", k.Topic, k.Part, va != nil, vb != nil, a.ReadErr[k], b.ReadErr[k])
			continue
		}
		if va.DecodeErr != vb.DecodeErr {
			add("logs", "partition %s/%d decode error before %q, after %q", k.Topic, k.Part, va.DecodeErr, vb.DecodeErr)
		}
		if !bytes.Equal(va.Raw, vb.Raw) {
			add("logs", "partition %s/%d fetched bytes differ: %d bytes / %d records before, %d bytes / %d records after", k.Topic, k.Part, len(va.Raw), len(va.Recs), len(vb.Raw), len(vb.Recs))
		}
		if va.LogStart == vb.LogStart && va.HWM == vb.HWM && va.LSO != vb.LSO && staleTxn[k] {
			add("last stable offset of a recreated topic moved by a transaction registered on its deleted incarnation", "partition %s/%d before logStart=%d hwm=%d lso=%d, after logStart=%d hwm=%d lso=%d", k.Topic, k.Part, va.LogStart, va.HWM, va.LSO, vb.LogStart, vb.HWM, vb.LSO)
		} else if va.LogStart != vb.LogStart || va.HWM != vb.HWM || va.LSO != vb.LSO {
			add("log start / high watermark / last stable offset", "partition %s/%d before logStart=%d hwm=%d lso=%d, after logStart=%d hwm=%d lso=%d", k.Topic, k.Part, va.LogStart, va.HWM, va.LSO, vb.LogStart, vb.HWM, vb.LSO)
		}
		if !reflect.DeepEqual(va.Producers, vb.Producers) {
			add("active producers (DescribeProducers)", "partition %s/%d before %v, after %v", k.Topic, k.Part, va.Producers, vb.Producers)
		}
	}
	if !reflect.DeepEqual(a.Commits, b.Commits) {
		add("committed offsets", "before %v, after %v", a.Commits, b.Commits)
	}
	if reflect.DeepEqual(a.Listed, b.Listed) && len(a.Described) == len(b.Described) && !reflect.DeepEqual(a.Described, b.Described) {
		// the same transactional ids and producer ids: is the only change a
		// higher producer epoch?
		onlyEpoch := true
		for i := range a.Described {
			ea, ra := splitEpoch(a.Described[i])
			eb, rb := splitEpoch(b.Described[i])
			if ra != rb || eb < ea {
				onlyEpoch = false
			}
		}
		if onlyEpoch {
			add("transactional producer epoch bumped again", "before %v, after %v", a.Described, b.Described)
			return out
		}
	}
	if !reflect.DeepEqual(a.Listed, b.Listed) || !reflect.DeepEqual(a.Described, b.Described) {
		add("transaction state (ListTransactions / DescribeTransactions)", "before %v %v, after %v %v", a.Listed, a.Described, b.Listed, b.Described)
	}
	return out
}

// ------------------------------------------------------------ crash judgement

type failure struct {
	What   string // signature without the loss mode
	Detail map[string]any
}

type judgeCounts struct {
	AcksChecked       int // produce acks (batches' records) required present
	CommitsChecked    int
	PartitionsChecked int
	Probes            int
	Dontcare          map[string]int
}

// judge checks the observation of a cluster recovered from the journal prefix
// j against the acknowledgement journal.
func judge(run *wlRun, j int, o *observation) (fails []failure, c judgeCounts) {
	c.Dontcare = map[string]int{}
	fail := func(what string, detail map[string]any) { fails = append(fails, failure{what, detail}) }

	for _, name := range sortedKeys(run.Topics) {
		var cur *topicInc
		for _, t := range run.Topics[name] {
			if t.CreateIssue < j {
				cur = t
			}
		}
		if cur == nil {
			continue
		}
		if cur.DeleteIssue >= 0 && cur.DeleteIssue < j {
			c.Dontcare["topic_deletion_started"]++
			continue
		}
		meta, exists := o.Topics[name]
		for p, pm := range cur.parts {
			key := tp{name, int32(p)}
			needData, needAll, possible := 0, 0, 0
			for i, e := range pm.recs {
				if e.AckIdx <= j {
					needAll = i + 1
					if !e.Control {
						needData = i + 1
					}
				}
				if e.IssueIdx < j {
					possible = i + 1
				}
			}
			c.AcksChecked += needData
			c.PartitionsChecked++
			where := fmt.Sprintf("%s/%d (incarnation %d)", name, p, cur.Inc)
			v := o.Parts[key]
			if !exists || p >= meta.Parts || v == nil {
				switch {
				case needData > 0 && o.ReadErr[key] != "":
					fail("acked produce unreadable", map[string]any{"partition": where, "fetch_error": o.ReadErr[key], "acked_records": needData})
				case needData > 0:
					fail("acked produce lost", map[string]any{"partition": where, "lost": "the topic or partition does not exist after recovery", "acked_records": needData})
				case cur.CreateAck <= j:
					c.Dontcare["acked_topic_without_acked_data_missing"]++
				}
				continue
			}
			if v.DecodeErr != "" {
				fail("undecodable or partial batch visible", map[string]any{"partition": where, "decode_error": v.DecodeErr})
				continue
			}
			// offsets contiguous from the log start to the high watermark
			next := v.LogStart
			contiguous := true
			for _, r := range v.Recs {
				if r.Offset != next {
					contiguous = false
					fail("offsets not contiguous", map[string]any{"partition": where, "log_start": v.LogStart, "expected_offset": next, "got_offset": r.Offset, "hwm": v.HWM})
					break
				}
				next++
			}
			if contiguous && next != v.HWM {
				contiguous = false
				fail("offsets not contiguous", map[string]any{"partition": where, "log_start": v.LogStart, "records_end_at": next, "hwm": v.HWM})
			}
			if !contiguous {
				continue
			}
			if v.LogStart != 0 {
				fail("recovered log differs from the produced history", map[string]any{"partition": where, "log_start": v.LogStart, "expected_log_start": 0})
				continue
			}
			// prefix of the produced history, record for record
			bad := false
			for i, r := range v.Recs {
				if i >= len(pm.recs) {
					fail("recovered log differs from the produced history", map[string]any{"partition": where, "extra_record_at": r.Offset, "produced_records": len(pm.recs)})
					bad = true
					break
				}
				if e := pm.recs[i]; e.haveF && !reflect.DeepEqual(e.F, r) {
					fail("recovered log differs from the produced history", map[string]any{"partition": where, "offset": r.Offset, "produced": fmt.Sprintf("%+v", e.F), "recovered": fmt.Sprintf("%+v", r)})
					bad = true
					break
				} else if !e.haveF && (e.Control != r.Control || !bytes.Equal(e.Value, r.Value) || !bytes.Equal(e.Key, r.Key)) {
					fail("recovered log differs from the produced history", map[string]any{"partition": where, "offset": r.Offset, "produced_value": string(e.Value), "recovered": fmt.Sprintf("%+v", r)})
					bad = true
					break
				}
			}
			if bad {
				continue
			}
			if len(v.Recs) > possible {
				fail("record visible before its request was sent", map[string]any{"partition": where, "recovered_records": len(v.Recs), "records_requested_by_then": possible})
				continue
			}
			if len(v.Recs) < needData {
				first := pm.recs[len(v.Recs)]
				fail("acked produce lost", map[string]any{
					"partition": where, "acked_records": needData, "recovered_records": len(v.Recs),
					"first_lost_offset": first.Offset, "first_lost_value": string(first.Value),
					"its_request_fs_ops": fmt.Sprintf("[%d,%d)", first.IssueIdx, first.AckIdx),
				})
				continue
			}
			if len(v.Recs) < needAll {
				c.Dontcare["acked_txn_marker_at_log_end_missing"]++
			}
			if v.LSO < v.HWM && !anyOngoing(o.Listed) {
				c.Dontcare["lso_below_hwm_without_ongoing_txn"]++
			}
		}
	}

	// committed offsets
	for _, g := range run.Groups {
		got := o.Commits[g]
		for _, key := range sortedTPs(run.Commits[g]) {
			evs := run.Commits[g][key]
			acked := -1
			for i, e := range evs {
				if e.AckIdx <= j {
					acked = i
				}
			}
			var allowed []commitEv
			for i, e := range evs {
				if i == acked || (i > acked && e.IssueIdx < j) {
					allowed = append(allowed, e)
				}
			}
			where := fmt.Sprintf("group %s %s/%d", g, key.Topic, key.Part)
			have, ok := got[key]
			if acked >= 0 {
				c.CommitsChecked++
			}
			if !ok {
				if acked >= 0 {
					fail("acked offset commit lost", map[string]any{"commit": where, "acked": fmt.Sprintf("%+v", evs[acked]), "recovered": "none"})
				}
				continue
			}
			match := false
			for _, e := range allowed {
				if e.Offset == have.Offset && e.Meta == have.Meta {
					match = true
				}
			}
			if match {
				continue
			}
			older := false
			for i, e := range evs {
				if i < acked && e.Offset == have.Offset && e.Meta == have.Meta {
					older = true
				}
			}
			if older {
				fail("acked offset commit lost", map[string]any{"commit": where, "acked": fmt.Sprintf("%+v", evs[acked]), "recovered_older_commit": fmt.Sprintf("%+v", have)})
			} else {
				fail("unknown committed offset visible", map[string]any{"commit": where, "recovered": fmt.Sprintf("%+v", have), "allowed": fmt.Sprintf("%+v", allowed)})
			}
		}
		for key, have := range got {
			if _, ok := run.Commits[g][key]; !ok {
				fail("unknown committed offset visible", map[string]any{"commit": fmt.Sprintf("group %s %s/%d", g, key.Topic, key.Part), "recovered": fmt.Sprintf("%+v", have), "allowed": "none was ever sent"})
			}
		}
	}

	// no half pids.log entry visible: only transactional ids / producer ids
	// the workload was given may be listed
	for _, l := range o.Listed {
		var txid, state string
		var pid int64
		if _, err := fmt.Sscanf(l, "txid=%s pid=%d state=%s", &txid, &pid, &state); err != nil {
			continue
		}
		known := false
		for _, t := range run.Txids {
			known = known || t == txid
		}
		if !known || !run.PIDs[pid] {
			fail("unknown transaction state visible", map[string]any{"listed": l, "known_txids": run.Txids})
		}
	}
	return fails, c
}

func anyOngoing(listed []string) bool {
	for _, l := range listed {
		if len(l) >= 7 && l[len(l)-7:] == "Ongoing" {
			return true
		}
	}
	return false
}

// splitEpoch removes the " epoch=N" field from a described transaction line.
func splitEpoch(d string) (epoch int, rest string) {
	i := strings.Index(d, " epoch=")
	if i < 0 {
		return -1, d
	}
	j := i + len(" epoch=")
	k := j
	for k < len(d) && d[k] >= '0' && d[k] <= '9' {
		epoch = epoch*10 + int(d[k]-'0')
		k++
	}
	return epoch, d[:i] + d[k:]
}
