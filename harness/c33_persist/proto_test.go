package c33

// Raw protocol transport: a kgo client is used only to carry hand-built kmsg
// requests to broker 0 of a one-broker kfake cluster over an in-memory
// kfake.VirtualNetwork (no TCP ports). Requests are never retried.

import (
	"context"
	"fmt"
	"hash/crc32"
	"sort"
	"time"

	"github.com/twmb/franz-go/pkg/kerr"
	"github.com/twmb/franz-go/pkg/kfake"
	"github.com/twmb/franz-go/pkg/kgo"
	"github.com/twmb/franz-go/pkg/kmsg"
	"github.com/twmb/franz-go/pkg/kversion"

	"verifharness/internal/e2e"
)

const (
	dataDir    = "/data"
	brokerPort = 9092
	txnTimeout = 24 * 3600 * 1000 // ms: no transaction ever times out during a run
)

var crc32c = crc32.MakeTable(crc32.Castagnoli)

// node is one running kfake cluster + a transport client.
type node struct {
	c  *kfake.Cluster
	vn *kfake.VirtualNetwork
	cl *kgo.Client
	br *kgo.Broker
}

func brokerConfigs() map[string]string {
	return map[string]string{
		"state.log.compact.bytes":    "700", // groups.log / pids.log are compacted every few entries
		"transaction.max.timeout.ms": fmt.Sprint(txnTimeout),
	}
}

// startNode starts kfake on fsys. A panic inside NewCluster is returned as
// panicked; err is NewCluster's error.
func startNode(fsys kfake.VerifFS, syncWrites bool) (n *node, err error, panicked any) {
	vn := new(kfake.VirtualNetwork)
	opts := []kfake.Opt{
		kfake.NumBrokers(1), kfake.Ports(brokerPort), kfake.ListenFn(vn.Listen),
		kfake.DataDir(dataDir), kfake.VerifWithFS(fsys), kfake.BrokerConfigs(brokerConfigs()),
	}
	if syncWrites {
		opts = append(opts, kfake.SyncWrites())
	}
	var c *kfake.Cluster
	panicked = catch(func() { c, err = kfake.NewCluster(opts...) })
	if panicked != nil || err != nil {
		return nil, err, panicked
	}
	vers := kversion.Stable()
	vers.SetMaxKeyVersion(8, 9) // OffsetCommit by topic name
	vers.SetMaxKeyVersion(9, 7) // OffsetFetch: one group, null topics = all
	cl, cerr := kgo.NewClient(
		kgo.SeedBrokers(fmt.Sprintf("localhost:%d", brokerPort)),
		kgo.Dialer(vn.DialContext),
		kgo.MaxVersions(vers),
		kgo.DisableClientMetrics(),
		kgo.RequestRetries(0),
	)
	if cerr != nil {
		c.Close()
		return nil, fmt.Errorf("kgo.NewClient: %w", cerr), nil
	}
	return &node{c: c, vn: vn, cl: cl, br: cl.SeedBrokers()[0]}, nil, nil
}

func catch(fn func()) (p any) {
	defer func() { p = recover() }()
	fn()
	return nil
}

// stop closes the client and then the cluster (clean shutdown: saveToDisk).
func (n *node) stop() {
	n.cl.Close()
	n.c.Close()
}

func (n *node) req(ctx context.Context, r kmsg.Request) (kmsg.Response, error) {
	return n.br.Request(ctx, r)
}

// ------------------------------------------------------------ record batches

type rec struct {
	Key, Value []byte
}

// buildBatch builds a magic-2 uncompressed record batch.
func buildBatch(pid int64, epoch int16, firstSeq int32, txn bool, ts int64, recs []rec) []byte {
	var payload []byte
	for i, r := range recs {
		kr := kmsg.Record{OffsetDelta: int32(i), Key: r.Key, Value: r.Value}
		body := kr.AppendTo(nil) // with Length 0: one-byte varint prefix
		kr.Length = int32(len(body) - 1)
		payload = kr.AppendTo(payload)
	}
	var attrs int16
	if txn {
		attrs |= 0x10
	}
	b := kmsg.RecordBatch{
		PartitionLeaderEpoch: -1,
		Magic:                2,
		Attributes:           attrs,
		LastOffsetDelta:      int32(len(recs) - 1),
		FirstTimestamp:       ts,
		MaxTimestamp:         ts,
		ProducerID:           pid,
		ProducerEpoch:        epoch,
		FirstSequence:        firstSeq,
		NumRecords:           int32(len(recs)),
		Records:              payload,
	}
	raw := b.AppendTo(nil)
	b.Length = int32(len(raw) - 12)
	b.CRC = int32(crc32.Checksum(raw[21:], crc32c))
	return b.AppendTo(raw[:0])
}

// ------------------------------------------------------------ requests

type topicMeta struct {
	Name  string
	ID    [16]byte
	Parts int
}

// metadata returns all topics.
func (n *node) metadata(ctx context.Context) (map[string]topicMeta, error) {
	req := kmsg.NewPtrMetadataRequest()
	req.Topics = nil // all
	kresp, err := n.req(ctx, req)
	if err != nil {
		return nil, err
	}
	out := map[string]topicMeta{}
	for _, t := range kresp.(*kmsg.MetadataResponse).Topics {
		if t.Topic == nil {
			continue
		}
		if t.ErrorCode != 0 {
			return nil, fmt.Errorf("metadata topic %s: %w", *t.Topic, kerr.ErrorForCode(t.ErrorCode))
		}
		out[*t.Topic] = topicMeta{Name: *t.Topic, ID: t.TopicID, Parts: len(t.Partitions)}
	}
	return out, nil
}

func (n *node) createTopic(ctx context.Context, name string, parts int, cfgs map[string]string) ([16]byte, error) {
	req := kmsg.NewPtrCreateTopicsRequest()
	req.TimeoutMillis = 10000
	rt := kmsg.NewCreateTopicsRequestTopic()
	rt.Topic = name
	rt.NumPartitions = int32(parts)
	rt.ReplicationFactor = 1
	var keys []string
	for k := range cfgs {
		keys = append(keys, k)
	}
	sort.Strings(keys)
	for _, k := range keys {
		c := kmsg.NewCreateTopicsRequestTopicConfig()
		c.Name = k
		c.Value = kmsg.StringPtr(cfgs[k])
		rt.Configs = append(rt.Configs, c)
	}
	req.Topics = append(req.Topics, rt)
	kresp, err := n.req(ctx, req)
	if err != nil {
		return [16]byte{}, err
	}
	resp := kresp.(*kmsg.CreateTopicsResponse)
	if len(resp.Topics) != 1 {
		return [16]byte{}, fmt.Errorf("create topics: %d topics in response", len(resp.Topics))
	}
	if resp.Topics[0].ErrorCode != 0 {
		return [16]byte{}, kerr.ErrorForCode(resp.Topics[0].ErrorCode)
	}
	return resp.Topics[0].TopicID, nil
}

func (n *node) deleteTopic(ctx context.Context, name string) error {
	req := kmsg.NewPtrDeleteTopicsRequest()
	req.TimeoutMillis = 10000
	req.TopicNames = []string{name}
	rt := kmsg.NewDeleteTopicsRequestTopic()
	rt.Topic = kmsg.StringPtr(name)
	req.Topics = append(req.Topics, rt)
	kresp, err := n.req(ctx, req)
	if err != nil {
		return err
	}
	resp := kresp.(*kmsg.DeleteTopicsResponse)
	if len(resp.Topics) != 1 {
		return fmt.Errorf("delete topics: %d topics in response", len(resp.Topics))
	}
	return kerr.ErrorForCode(resp.Topics[0].ErrorCode)
}

func (n *node) alterTopicConfig(ctx context.Context, topic, key, value string) error {
	req := kmsg.NewPtrIncrementalAlterConfigsRequest()
	rr := kmsg.NewIncrementalAlterConfigsRequestResource()
	rr.ResourceType = kmsg.ConfigResourceTypeTopic
	rr.ResourceName = topic
	rc := kmsg.NewIncrementalAlterConfigsRequestResourceConfig()
	rc.Name = key
	rc.Op = kmsg.IncrementalAlterConfigOpSet
	rc.Value = kmsg.StringPtr(value)
	rr.Configs = append(rr.Configs, rc)
	req.Resources = append(req.Resources, rr)
	kresp, err := n.req(ctx, req)
	if err != nil {
		return err
	}
	resp := kresp.(*kmsg.IncrementalAlterConfigsResponse)
	if len(resp.Resources) != 1 {
		return fmt.Errorf("alter configs: %d resources in response", len(resp.Resources))
	}
	return kerr.ErrorForCode(resp.Resources[0].ErrorCode)
}

func (n *node) describeTopicConfigs(ctx context.Context, topic string) (map[string]string, error) {
	req := kmsg.NewPtrDescribeConfigsRequest()
	rr := kmsg.NewDescribeConfigsRequestResource()
	rr.ResourceType = kmsg.ConfigResourceTypeTopic
	rr.ResourceName = topic
	req.Resources = append(req.Resources, rr)
	kresp, err := n.req(ctx, req)
	if err != nil {
		return nil, err
	}
	resp := kresp.(*kmsg.DescribeConfigsResponse)
	if len(resp.Resources) != 1 {
		return nil, fmt.Errorf("describe configs: %d resources", len(resp.Resources))
	}
	if resp.Resources[0].ErrorCode != 0 {
		return nil, kerr.ErrorForCode(resp.Resources[0].ErrorCode)
	}
	out := map[string]string{}
	for _, c := range resp.Resources[0].Configs {
		v := "<null>"
		if c.Value != nil {
			v = *c.Value
		}
		out[c.Name] = fmt.Sprintf("%s (source %d)", v, c.Source)
	}
	return out, nil
}

// produce sends one batch; returns error code and base offset.
func (n *node) produce(ctx context.Context, t topicMeta, part int32, batch []byte) (int16, int64, error) {
	req := kmsg.NewPtrProduceRequest()
	req.Acks = -1
	req.TimeoutMillis = 10000
	rt := kmsg.NewProduceRequestTopic()
	rt.Topic = t.Name
	rt.TopicID = t.ID
	rp := kmsg.NewProduceRequestTopicPartition()
	rp.Partition = part
	rp.Records = batch
	rt.Partitions = append(rt.Partitions, rp)
	req.Topics = append(req.Topics, rt)
	kresp, err := n.req(ctx, req)
	if err != nil {
		return 0, 0, err
	}
	resp := kresp.(*kmsg.ProduceResponse)
	if len(resp.Topics) != 1 || len(resp.Topics[0].Partitions) != 1 {
		return 0, 0, fmt.Errorf("produce response shape")
	}
	p := resp.Topics[0].Partitions[0]
	return p.ErrorCode, p.BaseOffset, nil
}

func (n *node) initPID(ctx context.Context, txid string, pid int64, epoch int16) (int64, int16, error) {
	req := kmsg.NewPtrInitProducerIDRequest()
	req.ProducerID = pid
	req.ProducerEpoch = epoch
	if txid != "" {
		req.TransactionalID = kmsg.StringPtr(txid)
		req.TransactionTimeoutMillis = txnTimeout
	}
	kresp, err := n.req(ctx, req)
	if err != nil {
		return 0, 0, err
	}
	resp := kresp.(*kmsg.InitProducerIDResponse)
	if resp.ErrorCode != 0 {
		return 0, 0, kerr.ErrorForCode(resp.ErrorCode)
	}
	return resp.ProducerID, resp.ProducerEpoch, nil
}

// endTxn returns the producer id/epoch to use afterwards (KIP-890 bumps it).
func (n *node) endTxn(ctx context.Context, txid string, pid int64, epoch int16, commit bool) (int64, int16, error) {
	req := kmsg.NewPtrEndTxnRequest()
	req.TransactionalID = txid
	req.ProducerID = pid
	req.ProducerEpoch = epoch
	req.Commit = commit
	kresp, err := n.req(ctx, req)
	if err != nil {
		return 0, 0, err
	}
	resp := kresp.(*kmsg.EndTxnResponse)
	if resp.ErrorCode != 0 {
		return 0, 0, kerr.ErrorForCode(resp.ErrorCode)
	}
	if resp.Version >= 5 && resp.ProducerID >= 0 {
		return resp.ProducerID, resp.ProducerEpoch, nil
	}
	return pid, epoch, nil
}

func (n *node) txnOffsetCommit(ctx context.Context, txid string, pid int64, epoch int16, group, topic string, part int32, offset int64, meta string) error {
	// register the group with the transaction (required below v5, harmless above)
	areq := kmsg.NewPtrAddOffsetsToTxnRequest()
	areq.TransactionalID = txid
	areq.ProducerID = pid
	areq.ProducerEpoch = epoch
	areq.Group = group
	kr, err := n.req(ctx, areq)
	if err != nil {
		return err
	}
	if ec := kr.(*kmsg.AddOffsetsToTxnResponse).ErrorCode; ec != 0 {
		return fmt.Errorf("AddOffsetsToTxn: %w", kerr.ErrorForCode(ec))
	}
	req := kmsg.NewPtrTxnOffsetCommitRequest()
	req.TransactionalID = txid
	req.Group = group
	req.ProducerID = pid
	req.ProducerEpoch = epoch
	req.Generation = -1
	rt := kmsg.NewTxnOffsetCommitRequestTopic()
	rt.Topic = topic
	rp := kmsg.NewTxnOffsetCommitRequestTopicPartition()
	rp.Partition = part
	rp.Offset = offset
	rp.LeaderEpoch = -1
	rp.Metadata = kmsg.StringPtr(meta)
	rt.Partitions = append(rt.Partitions, rp)
	req.Topics = append(req.Topics, rt)
	kresp, err := n.req(ctx, req)
	if err != nil {
		return err
	}
	resp := kresp.(*kmsg.TxnOffsetCommitResponse)
	if len(resp.Topics) != 1 || len(resp.Topics[0].Partitions) != 1 {
		return fmt.Errorf("txn offset commit response shape")
	}
	return kerr.ErrorForCode(resp.Topics[0].Partitions[0].ErrorCode)
}

func (n *node) offsetCommit(ctx context.Context, group, member string, generation int32, topic string, part int32, offset int64, meta string) error {
	req := kmsg.NewPtrOffsetCommitRequest()
	req.Group = group
	req.Generation = generation
	req.MemberID = member
	rt := kmsg.NewOffsetCommitRequestTopic()
	rt.Topic = topic
	rp := kmsg.NewOffsetCommitRequestTopicPartition()
	rp.Partition = part
	rp.Offset = offset
	rp.LeaderEpoch = -1
	rp.Metadata = kmsg.StringPtr(meta)
	rt.Partitions = append(rt.Partitions, rp)
	req.Topics = append(req.Topics, rt)
	kresp, err := n.req(ctx, req)
	if err != nil {
		return err
	}
	resp := kresp.(*kmsg.OffsetCommitResponse)
	if len(resp.Topics) != 1 || len(resp.Topics[0].Partitions) != 1 {
		return fmt.Errorf("offset commit response shape")
	}
	return kerr.ErrorForCode(resp.Topics[0].Partitions[0].ErrorCode)
}

type committed struct {
	Offset int64
	Epoch  int32
	Meta   string
}

type tp struct {
	Topic string
	Part  int32
}

// offsetFetch returns every committed offset of a group.
func (n *node) offsetFetch(ctx context.Context, group string) (map[tp]committed, error) {
	req := kmsg.NewPtrOffsetFetchRequest()
	req.Group = group
	req.Topics = nil // all
	kresp, err := n.req(ctx, req)
	if err != nil {
		return nil, err
	}
	resp := kresp.(*kmsg.OffsetFetchResponse)
	if resp.ErrorCode != 0 {
		return nil, kerr.ErrorForCode(resp.ErrorCode)
	}
	out := map[tp]committed{}
	for _, t := range resp.Topics {
		for _, p := range t.Partitions {
			if p.ErrorCode != 0 {
				return nil, fmt.Errorf("offset fetch %s/%d: %w", t.Topic, p.Partition, kerr.ErrorForCode(p.ErrorCode))
			}
			if p.Offset < 0 {
				continue
			}
			m := "<null>"
			if p.Metadata != nil {
				m = *p.Metadata
			}
			out[tp{t.Topic, p.Partition}] = committed{p.Offset, p.LeaderEpoch, m}
		}
	}
	return out, nil
}

// joinGroup makes one classic-protocol member join and sync; returns member id
// and generation.
func (n *node) joinGroup(ctx context.Context, group, topic string) (string, int32, error) {
	member := ""
	var jresp *kmsg.JoinGroupResponse
	for attempt := 0; attempt < 3; attempt++ {
		req := kmsg.NewPtrJoinGroupRequest()
		req.Group = group
		req.SessionTimeoutMillis = 290000
		req.RebalanceTimeoutMillis = 290000
		req.MemberID = member
		req.ProtocolType = "consumer"
		p := kmsg.NewJoinGroupRequestProtocol()
		p.Name = "range"
		meta := kmsg.NewConsumerMemberMetadata()
		meta.Topics = []string{topic}
		p.Metadata = meta.AppendTo(nil)
		req.Protocols = append(req.Protocols, p)
		kresp, err := n.req(ctx, req)
		if err != nil {
			return "", 0, err
		}
		jresp = kresp.(*kmsg.JoinGroupResponse)
		if jresp.ErrorCode == kerr.MemberIDRequired.Code {
			member = jresp.MemberID
			continue
		}
		if jresp.ErrorCode != 0 {
			return "", 0, fmt.Errorf("join group: %w", kerr.ErrorForCode(jresp.ErrorCode))
		}
		break
	}
	if jresp == nil || jresp.ErrorCode != 0 {
		return "", 0, fmt.Errorf("join group: no success")
	}
	sreq := kmsg.NewPtrSyncGroupRequest()
	sreq.Group = group
	sreq.Generation = jresp.Generation
	sreq.MemberID = jresp.MemberID
	sreq.ProtocolType = kmsg.StringPtr("consumer")
	sreq.Protocol = kmsg.StringPtr("range")
	ga := kmsg.NewSyncGroupRequestGroupAssignment()
	ga.MemberID = jresp.MemberID
	as := kmsg.NewConsumerMemberAssignment()
	at := kmsg.NewConsumerMemberAssignmentTopic()
	at.Topic = topic
	at.Partitions = []int32{0}
	as.Topics = append(as.Topics, at)
	ga.MemberAssignment = as.AppendTo(nil)
	sreq.GroupAssignment = append(sreq.GroupAssignment, ga)
	kresp, err := n.req(ctx, sreq)
	if err != nil {
		return "", 0, err
	}
	if ec := kresp.(*kmsg.SyncGroupResponse).ErrorCode; ec != 0 {
		return "", 0, fmt.Errorf("sync group: %w", kerr.ErrorForCode(ec))
	}
	return jresp.MemberID, jresp.Generation, nil
}

func (n *node) deleteRecords(ctx context.Context, topic string, part int32, before int64) error {
	req := kmsg.NewPtrDeleteRecordsRequest()
	req.TimeoutMillis = 10000
	rt := kmsg.NewDeleteRecordsRequestTopic()
	rt.Topic = topic
	rp := kmsg.NewDeleteRecordsRequestTopicPartition()
	rp.Partition = part
	rp.Offset = before
	rt.Partitions = append(rt.Partitions, rp)
	req.Topics = append(req.Topics, rt)
	kresp, err := n.req(ctx, req)
	if err != nil {
		return err
	}
	resp := kresp.(*kmsg.DeleteRecordsResponse)
	if len(resp.Topics) != 1 || len(resp.Topics[0].Partitions) != 1 {
		return fmt.Errorf("delete records response shape")
	}
	return kerr.ErrorForCode(resp.Topics[0].Partitions[0].ErrorCode)
}

// ------------------------------------------------------------ reading back

// partView is everything observable about one partition through the protocol.
type partView struct {
	LogStart, HWM, LSO int64
	Raw                []byte          // concatenated batches as fetched (read_uncommitted)
	Recs               []e2e.LogRecord // decoded, CRC verified
	DecodeErr          string
	Producers          []string // DescribeProducers active producers (sorted)
}

func (n *node) listOffset(ctx context.Context, topic string, part int32, ts int64) (int64, error) {
	req := kmsg.NewPtrListOffsetsRequest()
	req.ReplicaID = -1
	rt := kmsg.NewListOffsetsRequestTopic()
	rt.Topic = topic
	rp := kmsg.NewListOffsetsRequestTopicPartition()
	rp.Partition = part
	rp.Timestamp = ts
	rp.CurrentLeaderEpoch = -1
	rt.Partitions = append(rt.Partitions, rp)
	req.Topics = append(req.Topics, rt)
	kresp, err := n.req(ctx, req)
	if err != nil {
		return 0, err
	}
	resp := kresp.(*kmsg.ListOffsetsResponse)
	if len(resp.Topics) != 1 || len(resp.Topics[0].Partitions) != 1 {
		return 0, fmt.Errorf("list offsets response shape")
	}
	p := resp.Topics[0].Partitions[0]
	if p.ErrorCode != 0 {
		return 0, kerr.ErrorForCode(p.ErrorCode)
	}
	return p.Offset, nil
}

// readPartition reads the whole log with raw sessionless Fetch requests.
func (n *node) readPartition(ctx context.Context, t topicMeta, part int32) (*partView, error) {
	v := &partView{}
	var err error
	if v.LogStart, err = n.listOffset(ctx, t.Name, part, -2); err != nil {
		return nil, fmt.Errorf("list offsets earliest: %w", err)
	}
	next := v.LogStart
	for iter := 0; ; iter++ {
		req := kmsg.NewPtrFetchRequest()
		req.ReplicaID = -1
		req.MaxWaitMillis = 0
		req.MinBytes = 0
		req.MaxBytes = 64 << 20
		req.IsolationLevel = 0
		req.SessionEpoch = -1
		ft := kmsg.NewFetchRequestTopic()
		ft.Topic = t.Name
		ft.TopicID = t.ID
		fp := kmsg.NewFetchRequestTopicPartition()
		fp.Partition = part
		fp.FetchOffset = next
		fp.CurrentLeaderEpoch = -1
		fp.PartitionMaxBytes = 64 << 20
		ft.Partitions = append(ft.Partitions, fp)
		req.Topics = append(req.Topics, ft)
		kresp, err := n.req(ctx, req)
		if err != nil {
			return nil, err
		}
		resp := kresp.(*kmsg.FetchResponse)
		if resp.ErrorCode != 0 {
			return nil, fmt.Errorf("fetch: %w", kerr.ErrorForCode(resp.ErrorCode))
		}
		if len(resp.Topics) != 1 || len(resp.Topics[0].Partitions) != 1 {
			return nil, fmt.Errorf("fetch response shape")
		}
		rp := &resp.Topics[0].Partitions[0]
		if rp.ErrorCode != 0 {
			return nil, fmt.Errorf("fetch partition: %w", kerr.ErrorForCode(rp.ErrorCode))
		}
		v.HWM, v.LSO = rp.HighWatermark, rp.LastStableOffset
		recs, consumed, derr := e2e.DecodeBatches(rp.RecordBatches)
		if derr != nil {
			v.DecodeErr = derr.Error()
			v.Raw = append(v.Raw, rp.RecordBatches...)
			return v, nil
		}
		if consumed != len(rp.RecordBatches) {
			v.DecodeErr = fmt.Sprintf("fetch at %d returned %d bytes of which only %d are whole batches", next, len(rp.RecordBatches), consumed)
			v.Raw = append(v.Raw, rp.RecordBatches...)
			return v, nil
		}
		progressed := false
		for _, r := range recs {
			if r.Offset >= next {
				v.Recs = append(v.Recs, r)
				next = r.Offset + 1
				progressed = true
			}
		}
		if progressed {
			v.Raw = append(v.Raw, rp.RecordBatches...)
		}
		if next >= v.HWM || !progressed || iter > 10000 {
			break
		}
	}
	// active (transactional) producers
	dreq := kmsg.NewPtrDescribeProducersRequest()
	dt := kmsg.NewDescribeProducersRequestTopic()
	dt.Topic = t.Name
	dt.Partitions = []int32{part}
	dreq.Topics = append(dreq.Topics, dt)
	kresp, err := n.req(ctx, dreq)
	if err != nil {
		return nil, err
	}
	for _, rt := range kresp.(*kmsg.DescribeProducersResponse).Topics {
		for _, rp := range rt.Partitions {
			if rp.ErrorCode != 0 {
				return nil, fmt.Errorf("describe producers: %w", kerr.ErrorForCode(rp.ErrorCode))
			}
			for _, ap := range rp.ActiveProducers {
				v.Producers = append(v.Producers, fmt.Sprintf("pid=%d epoch=%d lastSeq=%d txnStart=%d", ap.ProducerID, ap.ProducerEpoch, ap.LastSequence, ap.CurrentTxnStartOffset))
			}
		}
	}
	sort.Strings(v.Producers)
	return v, nil
}

// txnStates returns ListTransactions plus DescribeTransactions for txids.
func (n *node) txnStates(ctx context.Context, txids []string, exists func(topic string) bool) (listed []string, described []string, missing int, err error) {
	lreq := kmsg.NewPtrListTransactionsRequest()
	lreq.DurationFilterMillis = -1
	kresp, err := n.req(ctx, lreq)
	if err != nil {
		return nil, nil, 0, err
	}
	lresp := kresp.(*kmsg.ListTransactionsResponse)
	if lresp.ErrorCode != 0 {
		return nil, nil, 0, fmt.Errorf("list transactions: %w", kerr.ErrorForCode(lresp.ErrorCode))
	}
	for _, s := range lresp.TransactionStates {
		listed = append(listed, fmt.Sprintf("txid=%s pid=%d state=%s", s.TransactionalID, s.ProducerID, s.TransactionState))
	}
	sort.Strings(listed)
	if len(txids) == 0 {
		return listed, nil, 0, nil
	}
	dreq := kmsg.NewPtrDescribeTransactionsRequest()
	dreq.TransactionalIDs = txids
	kresp, err = n.req(ctx, dreq)
	if err != nil {
		return nil, nil, 0, err
	}
	for _, s := range kresp.(*kmsg.DescribeTransactionsResponse).TransactionStates {
		if s.ErrorCode != 0 {
			described = append(described, fmt.Sprintf("txid=%s error=%v", s.TransactionalID, kerr.ErrorForCode(s.ErrorCode)))
			continue
		}
		var parts []string
		for _, t := range s.Topics {
			if !exists(t.Topic) {
				missing++
				continue
			}
			ps := append([]int32(nil), t.Partitions...)
			sort.Slice(ps, func(i, j int) bool { return ps[i] < ps[j] })
			parts = append(parts, fmt.Sprintf("%s%v", t.Topic, ps))
		}
		sort.Strings(parts)
		described = append(described, fmt.Sprintf("txid=%s pid=%d epoch=%d state=%s timeout=%d parts=%v", s.TransactionalID, s.ProducerID, s.ProducerEpoch, s.State, s.TimeoutMillis, parts))
	}
	sort.Strings(described)
	return listed, described, missing, nil
}

func reqCtx() (context.Context, context.CancelFunc) {
	return context.WithTimeout(context.Background(), 60*time.Second)
}
