package c33

// The workload: a sequential, seeded script of raw protocol requests against
// one kfake cluster persisting through the journaling filesystem. Every
// acknowledgement is recorded together with the journal length when the
// request was sent (IssueIdx) and when its response was received (AckIdx):
// all filesystem operations kfake performed for the request lie in
// [IssueIdx, AckIdx) (asynchronous state-log compactions may add unrelated
// operations there, which only makes AckIdx larger = the check weaker).

import (
	"bytes"
	"context"
	"errors"
	"fmt"
	"math/rand/v2"
	"reflect"
	"sort"
	"time"

	"github.com/twmb/franz-go/pkg/kerr"

	"verifharness/internal/e2e"
)

// expRec is one record the log must contain at Offset.
type expRec struct {
	Offset   int64
	Control  bool
	IssueIdx int // journal length when the request that wrote it was sent
	AckIdx   int // journal length when its response was received
	Key      []byte
	Value    []byte
	F        e2e.LogRecord // the record as read back from the live log (filled by verifyModel)
	haveF    bool
}

type partModel struct {
	recs []expRec
}

// topicInc is one incarnation of a topic name.
type topicInc struct {
	Name        string
	Inc         int
	Meta        topicMeta
	CreateIssue int
	CreateAck   int
	DeleteIssue int // -1: never deleted
	DeleteAck   int
	parts       []*partModel
}

type commitEv struct {
	Offset   int64
	Meta     string
	Kind     string
	IssueIdx int
	AckIdx   int
}

type stepInfo struct {
	Name       string
	Issue, Ack int
}

type cleanFailure struct {
	Sig    string
	Detail any
}

// wlRun is everything the enumeration needs from one executed workload.
type wlRun struct {
	Name       string
	Sync       bool
	NoCrash    bool // clean-close clause only (uses DeleteRecords)
	Incomplete bool // the script stopped early
	Journal    []fsOp
	Steps      []stepInfo
	Topics     map[string][]*topicInc
	Commits    map[string]map[tp][]commitEv // group -> partition -> commits in issue order
	Groups     []string
	Txids      []string
	PIDs       map[int64]bool
	CleanFail  []cleanFailure
	Restarts   int
	Overwrite  int
	// counters
	ProduceAcks, CommitAcks, Rolls int
	RegsOnMissing                  int
}

type producer struct {
	txid  string
	pid   int64
	epoch int16
	seq   map[tp]int32
	inTxn bool
	parts map[tp]*topicInc // partitions written in the open transaction (and the topic incarnation first written)
	stage []stagedCommit
	// last batch per partition, for the duplicate probe
	last map[tp]lastBatch
}

type stagedCommit struct {
	group  string
	tp     tp
	offset int64
	meta   string
}

type lastBatch struct {
	raw  []byte
	base int64
	inc  *topicInc
}

type exec struct {
	run   *wlRun
	rng   *rand.Rand
	fs    *jfs
	n     *node
	ctx   context.Context
	ts    int64
	nextC int64 // commit counter (unique offsets and metadata)
	nextV int   // record value counter

	producers []*producer
}

var errProbe = errors.New("probe failed")

func (x *exec) step(name string, fn func() error) error {
	issue := x.fs.Len()
	err := fn()
	x.run.Steps = append(x.run.Steps, stepInfo{name, issue, x.fs.Len()})
	if err != nil {
		return fmt.Errorf("step %d %s: %w", len(x.run.Steps)-1, name, err)
	}
	return nil
}

func (x *exec) last() (issue, ack int) {
	s := x.run.Steps[len(x.run.Steps)-1]
	return s.Issue, s.Ack
}

func (x *exec) live(name string) *topicInc {
	incs := x.run.Topics[name]
	if len(incs) == 0 {
		return nil
	}
	t := incs[len(incs)-1]
	if t.DeleteIssue >= 0 {
		return nil
	}
	return t
}

func (x *exec) createTopic(name string, parts int, cfgs map[string]string) error {
	var id [16]byte
	err := x.step("CreateTopics "+name, func() (err error) {
		id, err = x.n.createTopic(x.ctx, name, parts, cfgs)
		return err
	})
	if err != nil {
		return err
	}
	issue, ack := x.last()
	t := &topicInc{Name: name, Inc: len(x.run.Topics[name]), Meta: topicMeta{name, id, parts}, CreateIssue: issue, CreateAck: ack, DeleteIssue: -1, DeleteAck: -1}
	for i := 0; i < parts; i++ {
		t.parts = append(t.parts, &partModel{})
	}
	x.run.Topics[name] = append(x.run.Topics[name], t)
	return nil
}

func (x *exec) deleteTopic(name string) error {
	t := x.live(name)
	if t == nil {
		return nil
	}
	// the log as it is just before deletion is this incarnation's reference
	if err := x.verifyTopic(t); err != nil {
		return err
	}
	if err := x.step("DeleteTopics "+name, func() error { return x.n.deleteTopic(x.ctx, name) }); err != nil {
		return err
	}
	t.DeleteIssue, t.DeleteAck = x.last()
	// producer state is per log and dies with the topic (kfake models the
	// 2.5+ broker: a recreated topic accepts any first sequence)
	for _, p := range x.producers {
		for k := range p.seq {
			if k.Topic == name {
				delete(p.seq, k)
			}
		}
		for k := range p.last {
			if k.Topic == name {
				delete(p.last, k)
			}
		}
	}
	return nil
}

func (x *exec) records() []rec {
	n := 1 + x.rng.IntN(3)
	var out []rec
	for i := 0; i < n; i++ {
		x.nextV++
		v := []byte(fmt.Sprintf("%s-v%05d-", x.run.Name, x.nextV))
		v = append(v, bytes.Repeat([]byte{byte('a' + x.nextV%26)}, x.rng.IntN(48))...)
		var k []byte
		if x.rng.IntN(2) == 0 {
			k = []byte(fmt.Sprintf("k%d", x.nextV%7))
		}
		out = append(out, rec{Key: k, Value: v})
	}
	return out
}

// produce sends one batch to (topic, part) as producer p (nil: plain).
func (x *exec) produce(p *producer, topic string, part int32) error {
	t := x.live(topic)
	if t == nil {
		return nil
	}
	key := tp{topic, part}
	recs := x.records()
	pid, epoch, seq, txn := int64(-1), int16(-1), int32(-1), false
	kind := "plain"
	if p != nil {
		pid, epoch, seq = p.pid, p.epoch, p.seq[key]
		txn = p.txid != ""
		kind = "idempotent"
		if txn {
			kind = "transactional " + p.txid
		}
	}
	batch := buildBatch(pid, epoch, seq, txn, x.ts, recs)
	var base int64
	err := x.step(fmt.Sprintf("Produce %s %s/%d n=%d", kind, topic, part, len(recs)), func() error {
		ec, b, err := x.n.produce(x.ctx, t.Meta, part, batch)
		if err != nil {
			return err
		}
		if ec != 0 {
			return fmt.Errorf("produce error code: %w", kerr.ErrorForCode(ec))
		}
		base = b
		return nil
	})
	if err != nil {
		return err
	}
	issue, ack := x.last()
	pm := t.parts[part]
	if base != int64(len(pm.recs)) {
		return fmt.Errorf("model mismatch: produce to %s/%d acked base offset %d, model expects %d", topic, part, base, len(pm.recs))
	}
	for i, r := range recs {
		pm.recs = append(pm.recs, expRec{Offset: base + int64(i), IssueIdx: issue, AckIdx: ack, Key: r.Key, Value: r.Value})
	}
	x.run.ProduceAcks++
	if p != nil {
		p.seq[key] = seq + int32(len(recs))
		p.last[key] = lastBatch{raw: batch, base: base, inc: t}
		if txn {
			p.inTxn = true
			if p.parts[key] == nil {
				p.parts[key] = t
			}
		}
	}
	return nil
}

func (x *exec) newProducer(txid string) (*producer, error) {
	p := &producer{txid: txid, seq: map[tp]int32{}, parts: map[tp]*topicInc{}, last: map[tp]lastBatch{}}
	err := x.step("InitProducerID "+txid, func() (err error) {
		p.pid, p.epoch, err = x.n.initPID(x.ctx, txid, -1, -1)
		return err
	})
	x.run.PIDs[p.pid] = true
	if txid != "" {
		x.run.Txids = append(x.run.Txids, txid)
	}
	x.producers = append(x.producers, p)
	return p, err
}

func (x *exec) stageTxnCommit(p *producer, group string, key tp) error {
	x.nextC++
	off, meta := x.nextC, fmt.Sprintf("%s-c%04d-txn", x.run.Name, x.nextC)
	err := x.step(fmt.Sprintf("TxnOffsetCommit %s %s %s/%d=%d", p.txid, group, key.Topic, key.Part, off), func() error {
		return x.n.txnOffsetCommit(x.ctx, p.txid, p.pid, p.epoch, group, key.Topic, key.Part, off, meta)
	})
	if err != nil {
		return err
	}
	p.inTxn = true
	p.stage = append(p.stage, stagedCommit{group, key, off, meta})
	return nil
}

func (x *exec) endTxn(p *producer, commit bool) error {
	if !p.inTxn {
		return nil
	}
	what := "abort"
	if commit {
		what = "commit"
	}
	oldEpoch := p.epoch
	err := x.step(fmt.Sprintf("EndTxn %s %s", p.txid, what), func() (err error) {
		p.pid, p.epoch, err = x.n.endTxn(x.ctx, p.txid, p.pid, p.epoch, commit)
		return err
	})
	if err != nil {
		return err
	}
	x.run.PIDs[p.pid] = true
	issue, ack := x.last()
	for key := range p.parts {
		t := x.live(key.Topic)
		if t == nil {
			continue // topic deleted during the transaction: no marker is written
		}
		pm := t.parts[key.Part]
		pm.recs = append(pm.recs, expRec{Offset: int64(len(pm.recs)), Control: true, IssueIdx: issue, AckIdx: ack})
	}
	if commit {
		for _, s := range p.stage {
			x.addCommit(s.group, s.tp, commitEv{s.offset, s.meta, "transactional", issue, ack})
		}
	}
	p.inTxn = false
	p.parts = map[tp]*topicInc{}
	p.stage = nil
	if p.epoch != oldEpoch {
		p.seq = map[tp]int32{}
		p.last = map[tp]lastBatch{}
	}
	return nil
}

func (x *exec) addCommit(group string, key tp, ev commitEv) {
	if x.run.Commits[group] == nil {
		x.run.Commits[group] = map[tp][]commitEv{}
		x.run.Groups = append(x.run.Groups, group)
	}
	x.run.Commits[group][key] = append(x.run.Commits[group][key], ev)
	x.run.CommitAcks++
}

type member struct {
	group, topic, id string
	gen              int32
}

func (x *exec) commit(group string, m *member, key tp) error {
	x.nextC++
	off, meta := x.nextC, fmt.Sprintf("%s-c%04d", x.run.Name, x.nextC)
	id, gen, kind := "", int32(-1), "simple"
	if m != nil {
		id, gen, kind = m.id, m.gen, "member"
	}
	var code error
	err := x.step(fmt.Sprintf("OffsetCommit %s %s %s/%d=%d", kind, group, key.Topic, key.Part, off), func() error {
		code = x.n.offsetCommit(x.ctx, group, id, gen, key.Topic, key.Part, off, meta)
		if m != nil && (errors.Is(code, kerr.UnknownMemberID) || errors.Is(code, kerr.IllegalGeneration) || errors.Is(code, kerr.RebalanceInProgress)) {
			return nil // group membership is not part of the property: rejoin below
		}
		return code
	})
	if err != nil {
		return err
	}
	if code != nil {
		if err := x.join(m); err != nil {
			return err
		}
		return x.commit(group, m, key)
	}
	issue, ack := x.last()
	x.addCommit(group, key, commitEv{off, meta, kind, issue, ack})
	return nil
}

func (x *exec) join(m *member) error {
	return x.step("JoinGroup+SyncGroup "+m.group, func() (err error) {
		m.id, m.gen, err = x.n.joinGroup(x.ctx, m.group, m.topic)
		return err
	})
}

// verifyTopic reads the live logs of t and checks the model against them; the
// records read become the reference the crash checks compare with.
func (x *exec) verifyTopic(t *topicInc) error {
	for p, pm := range t.parts {
		v, err := x.n.readPartition(x.ctx, t.Meta, int32(p))
		if err != nil {
			return fmt.Errorf("reading live log %s/%d: %w", t.Name, p, err)
		}
		if v.DecodeErr != "" {
			return fmt.Errorf("live log %s/%d does not decode: %s", t.Name, p, v.DecodeErr)
		}
		if x.run.NoCrash {
			continue
		}
		if len(v.Recs) != len(pm.recs) || v.LogStart != 0 {
			return fmt.Errorf("model mismatch: live log %s/%d has %d records from %d, model %d", t.Name, p, len(v.Recs), v.LogStart, len(pm.recs))
		}
		for i := range pm.recs {
			e, g := &pm.recs[i], v.Recs[i]
			if g.Offset != e.Offset || g.Control != e.Control || (!e.Control && (!bytes.Equal(g.Key, e.Key) || !bytes.Equal(g.Value, e.Value))) {
				return fmt.Errorf("model mismatch: live log %s/%d offset %d: got %+v, model %+v", t.Name, p, i, g, *e)
			}
			if e.haveF && !reflect.DeepEqual(e.F, g) {
				return fmt.Errorf("live log %s/%d offset %d changed between two reads: %+v then %+v", t.Name, p, i, e.F, g)
			}
			e.F, e.haveF = g, true
		}
	}
	return nil
}

func (x *exec) verifyAll() error {
	for _, name := range sortedKeys(x.run.Topics) {
		if t := x.live(name); t != nil {
			if err := x.verifyTopic(t); err != nil {
				return err
			}
		}
	}
	return nil
}

func sortedKeys[V any](m map[string]V) []string {
	var ks []string
	for k := range m {
		ks = append(ks, k)
	}
	sort.Strings(ks)
	return ks
}

// cleanRestart observes the state, closes the cluster cleanly, restarts it on
// the same filesystem and requires the same observable state.
func (x *exec) cleanRestart(probes func() error) error {
	if err := x.verifyAll(); err != nil {
		return err
	}
	pre, err := observe(x.ctx, x.n, x.run.Groups, x.run.Txids, true)
	if err != nil {
		return fmt.Errorf("observe before Close: %w", err)
	}
	var serr error
	var panicked any
	err = x.step("clean Close + NewCluster", func() error {
		x.n.stop()
		x.n, serr, panicked = startNode(x.fs, x.run.Sync)
		return nil
	})
	if err != nil {
		return err
	}
	x.run.Restarts++
	if panicked != nil {
		x.run.CleanFail = append(x.run.CleanFail, cleanFailure{"restart panics after clean Close", fmt.Sprint(panicked)})
		return errProbe
	}
	if serr != nil {
		x.run.CleanFail = append(x.run.CleanFail, cleanFailure{"restart fails after clean Close", serr.Error()})
		return errProbe
	}
	post, err := observe(x.ctx, x.n, x.run.Groups, x.run.Txids, true)
	if err != nil {
		return fmt.Errorf("observe after restart: %w", err)
	}
	x.run.RegsOnMissing += pre.RegsOnMissingTopics
	// partitions of a topic that was deleted (and possibly recreated) while
	// an open transaction is still registered on the deleted incarnation
	stale := map[tp]bool{}
	for _, p := range x.producers {
		if p.inTxn {
			for key, inc := range p.parts {
				if x.live(key.Topic) != inc {
					stale[key] = true
				}
			}
		}
	}
	for _, d := range diffObs(pre, post, stale) {
		// recorded; the workload goes on (the reference history is not affected)
		x.run.CleanFail = append(x.run.CleanFail, cleanFailure{"clean Close + restart changed state: " + d.Class, map[string]any{"workload": x.run.Name, "restart": x.run.Restarts, "difference": d.Detail}})
	}
	// a registration on a topic that does not exist at the restart is dropped
	// by kfake (not judged, see RegsOnMissingTopics): no marker will be written
	for _, p := range x.producers {
		for key := range p.parts {
			if x.live(key.Topic) == nil {
				delete(p.parts, key)
			}
		}
	}
	if probes != nil {
		return probes()
	}
	return nil
}

// dupProbe resends the last batch of an idempotent producer: sequence state
// that survived the restart answers with the original offset and appends
// nothing.
func (x *exec) dupProbe(p *producer) error {
	for _, key := range sortedTPs(p.last) {
		lb := p.last[key]
		if x.live(key.Topic) != lb.inc {
			continue
		}
		before, err := x.n.listOffset(x.ctx, key.Topic, key.Part, -1)
		if err != nil {
			return err
		}
		var ec int16
		var base int64
		err = x.step(fmt.Sprintf("duplicate probe pid=%d %s/%d", p.pid, key.Topic, key.Part), func() (err error) {
			ec, base, err = x.n.produce(x.ctx, lb.inc.Meta, key.Part, lb.raw)
			return err
		})
		if err != nil {
			return err
		}
		after, err := x.n.listOffset(x.ctx, key.Topic, key.Part, -1)
		if err != nil {
			return err
		}
		if ec != 0 || base != lb.base || after != before {
			x.run.CleanFail = append(x.run.CleanFail, cleanFailure{"clean Close + restart changed state: producer sequence state", map[string]any{
				"workload": x.run.Name, "producer": p.pid, "epoch": p.epoch, "partition": fmt.Sprintf("%s/%d", key.Topic, key.Part),
				"resent_batch_original_base": lb.base, "answer_error": kerrName(ec), "answer_base": base, "log_end_before": before, "log_end_after": after,
			}})
			return errProbe
		}
	}
	return nil
}

func kerrName(ec int16) string {
	if ec == 0 {
		return "none"
	}
	return kerr.ErrorForCode(ec).Error()
}

func sortedTPs[V any](m map[tp]V) []tp {
	var ks []tp
	for k := range m {
		ks = append(ks, k)
	}
	sort.Slice(ks, func(i, j int) bool {
		if ks[i].Topic != ks[j].Topic {
			return ks[i].Topic < ks[j].Topic
		}
		return ks[i].Part < ks[j].Part
	})
	return ks
}

type wlSpec struct {
	Name        string
	Sync        bool
	Ops         int  // random operations
	MidRestart  bool // a clean restart in the middle
	DeleteTopic bool
	DelRecords  bool // clean-close clause only
	// StaleTxn: a transaction writes to tD, tD is deleted and recreated while
	// it stays open, then the cluster is restarted cleanly
	StaleTxn bool
}

// runWorkload executes one workload on a fresh journaling filesystem.
func runWorkload(spec wlSpec, rng *rand.Rand) (run *wlRun, err error) {
	run = &wlRun{Name: spec.Name, Sync: spec.Sync, NoCrash: spec.DelRecords, Topics: map[string][]*topicInc{}, Commits: map[string]map[tp][]commitEv{}, PIDs: map[int64]bool{}}
	x := &exec{run: run, rng: rng, fs: newJFS(true), ts: time.Now().UnixMilli()}
	ctx, cancel := context.WithTimeout(context.Background(), 5*time.Minute)
	defer cancel()
	x.ctx = ctx
	var serr error
	var panicked any
	x.step("NewCluster (empty directory)", func() error {
		x.n, serr, panicked = startNode(x.fs, spec.Sync)
		return nil
	})
	if panicked != nil || serr != nil {
		return nil, fmt.Errorf("first NewCluster: err=%v panic=%v", serr, panicked)
	}
	defer func() {
		if x.n != nil {
			x.step("final Close", func() error { x.n.stop(); return nil })
		}
		run.Journal = x.fs.Journal()
		run.Overwrite = x.fs.overwriteSynced
		for _, o := range run.Journal {
			if o.Kind == opCreate && len(o.Path) > 4 && o.Path[len(o.Path)-4:] == ".dat" {
				run.Rolls++
			}
		}
	}()

	if err := x.createTopic("tA", 2, map[string]string{"segment.bytes": "300"}); err != nil {
		return run, err
	}
	if err := x.createTopic("tB", 1, nil); err != nil {
		return run, err
	}
	if err := x.createTopic("tD", 1, map[string]string{"segment.bytes": "200"}); err != nil {
		return run, err
	}
	idem, err := x.newProducer("")
	if err != nil {
		return run, err
	}
	t1, err := x.newProducer(spec.Name + "-tx1")
	if err != nil {
		return run, err
	}
	t2, err := x.newProducer(spec.Name + "-tx2")
	if err != nil {
		return run, err
	}
	gm := &member{group: spec.Name + "-gM", topic: "tA"}
	if err := x.join(gm); err != nil {
		return run, err
	}
	gS, gS2, gT := spec.Name+"-gS", spec.Name+"-gS2", spec.Name+"-gT"

	dataParts := []tp{{"tA", 0}, {"tA", 1}, {"tB", 0}, {"tD", 0}}
	commitParts := []tp{{"tA", 0}, {"tA", 1}, {"tB", 0}}
	pickData := func() tp { return dataParts[x.rng.IntN(len(dataParts))] }
	txnOp := func(p *producer) error {
		switch c := x.rng.IntN(100); {
		case !p.inTxn || c < 50:
			k := pickData()
			return x.produce(p, k.Topic, k.Part)
		case c < 65:
			return x.stageTxnCommit(p, gT, commitParts[x.rng.IntN(len(commitParts))])
		default:
			return x.endTxn(p, x.rng.IntN(100) < 70)
		}
	}
	probes := func() error {
		if err := x.dupProbe(idem); err != nil {
			return err
		}
		// an open transaction must still be usable
		for _, p := range []*producer{t1, t2} {
			if p.inTxn {
				k := tp{"tB", 0}
				if err := x.produce(p, k.Topic, k.Part); err != nil {
					run.CleanFail = append(run.CleanFail, cleanFailure{"clean Close + restart changed state: open transaction unusable", map[string]any{"workload": run.Name, "txid": p.txid, "error": err.Error()}})
					return errProbe
				}
			}
		}
		return nil
	}

	delAt, recreateAt := spec.Ops/3, 2*spec.Ops/3
	if spec.StaleTxn {
		delAt, recreateAt = spec.Ops/5, 2*spec.Ops/5 // both before the middle restart
		t3, err := x.newProducer(spec.Name + "-tx3")
		if err != nil {
			return run, err
		}
		if err := x.produce(t3, "tD", 0); err != nil {
			return run, err
		}
	}
	for i := 0; i < spec.Ops; i++ {
		switch {
		case spec.DeleteTopic && i == delAt:
			if err := x.produce(nil, "tD", 0); err != nil {
				return run, err
			}
			if err := x.deleteTopic("tD"); err != nil {
				return run, err
			}
		case spec.MidRestart && i == spec.Ops/2:
			if err := x.cleanRestart(probes); err != nil {
				return run, err
			}
		case spec.DeleteTopic && i == recreateAt:
			if err := x.createTopic("tD", 1, map[string]string{"segment.bytes": "260"}); err != nil {
				return run, err
			}
			if spec.StaleTxn {
				if err := x.produce(nil, "tD", 0); err != nil {
					return run, err
				}
			}
			if err := x.step("IncrementalAlterConfigs tB segment.bytes=250", func() error {
				return x.n.alterTopicConfig(x.ctx, "tB", "segment.bytes", "250")
			}); err != nil {
				return run, err
			}
		case spec.DelRecords && i == 2*spec.Ops/3:
			end, err := x.n.listOffset(x.ctx, "tA", 0, -1)
			if err != nil {
				return run, err
			}
			if end > 1 {
				if err := x.step("DeleteRecords tA/0", func() error { return x.n.deleteRecords(x.ctx, "tA", 0, end/2+1) }); err != nil {
					return run, err
				}
			}
		}
		var err error
		switch c := x.rng.IntN(100); {
		case c < 20:
			k := pickData()
			err = x.produce(nil, k.Topic, k.Part)
		case c < 35:
			k := pickData()
			err = x.produce(idem, k.Topic, k.Part)
		case c < 55:
			err = txnOp(t1)
		case c < 65:
			err = txnOp(t2)
		case c < 80:
			err = x.commit(gS, nil, commitParts[x.rng.IntN(len(commitParts))])
		case c < 90:
			err = x.commit(gm.group, gm, commitParts[x.rng.IntN(2)])
		default:
			err = x.commit(gS2, nil, commitParts[x.rng.IntN(len(commitParts))])
		}
		if err != nil {
			return run, err
		}
	}
	// one committed, one aborted and one open transaction at least
	if err := x.produce(t1, "tA", 0); err != nil {
		return run, err
	}
	if err := x.stageTxnCommit(t1, gT, tp{"tA", 0}); err != nil {
		return run, err
	}
	if err := x.endTxn(t1, true); err != nil {
		return run, err
	}
	if err := x.produce(t1, "tA", 1); err != nil {
		return run, err
	}
	if err := x.endTxn(t1, false); err != nil {
		return run, err
	}
	if !t2.inTxn {
		if err := x.produce(t2, "tB", 0); err != nil {
			return run, err
		}
	}
	if err := x.produce(idem, "tA", 0); err != nil {
		return run, err
	}
	if err := x.commit(gS, nil, tp{"tB", 0}); err != nil {
		return run, err
	}
	// the clean-close clause, with the transaction of t2 left open
	if err := x.cleanRestart(probes); err != nil {
		return run, err
	}
	if err := x.produce(nil, "tB", 0); err != nil {
		return run, err
	}
	if err := x.verifyAll(); err != nil {
		return run, err
	}
	return run, nil
}
