// C34 — kfake authorization matches Kafka's authorizer.
//
// Monitor: the reference model in model_test.go observes kfake's decision
// functions (kfake.VerifACLAllowed / kfake.VerifACLAnyAllowed, the unexported
// clusterACLs.allowed / anyAllowed) over every ACL set of size <= 2 (thorough:
// <= 3) drawn from a small alphabet, seeded samples of larger sets and of
// mixed resource types, for every query; plus an end-to-end sample through a
// SASL+ACL kfake cluster (e2e_test.go).
package c34

import (
	"fmt"
	"os"
	"runtime"
	"runtime/debug"
	"sort"
	"strconv"
	"sync"
	"testing"
	"time"

	"github.com/twmb/franz-go/pkg/kfake"
	"github.com/twmb/franz-go/pkg/kmsg"

	"verifharness/internal/vh"
)

var (
	aclPrincipals = []string{"User:a", "User:b", "User:*"}
	aclHosts      = []string{"h1", "*"}
	// literal names, then prefixed names
	aclLiterals = []string{"foo", "foobar", "bar", "*"}
	aclPrefixes = []string{"fo", "foo", ""}
	aclOps      = []kmsg.ACLOperation{opAll, opRead, opWrite, opCreate, opDelete, opAlter, opDescribe, opClusterAct, opDescribeCfg, opAlterCfg, opIdemWrite}

	qPrincipals = []string{"User:a", "User:b"}
	qHosts      = []string{"h1", "h2"}
	qNames      = []string{"foo", "foobar", "bar", "fo", "baz"}
	qOps        = aclOps[1:]
)

func universe(rtype kmsg.ACLResourceType) []racl {
	var u []racl
	for _, allow := range []bool{true, false} {
		for _, p := range aclPrincipals {
			for _, h := range aclHosts {
				for _, op := range aclOps {
					for _, n := range aclLiterals {
						u = append(u, racl{p, h, rtype, n, false, op, allow})
					}
					for _, n := range aclPrefixes {
						u = append(u, racl{p, h, rtype, n, true, op, allow})
					}
				}
			}
		}
	}
	return u
}

type witness struct {
	size   int
	idx    int64
	detail map[string]any
}

// stats is worker-local and merged under a lock once per task.
type stats struct {
	evals     int64
	dcOne     int64            // per-resource don't-care (empty-name pattern)
	dcAny     map[string]int64 // any-resource don't-care by reason (few keys, constant strings)
	anyBoth   int64
	counts    map[string]int64
	best      map[string]witness
	nontriv   int64
	distinct  []string
	distBudge int
}

func newStats() *stats {
	return &stats{counts: map[string]int64{}, dcAny: map[string]int64{}, best: map[string]witness{}, distBudge: 1 << 30}
}

func (s *stats) violate(sig string, size int, idx int64, detail func() map[string]any) {
	s.counts["violating_queries/"+sig]++
	if w, ok := s.best[sig]; ok && (w.size < size || (w.size == size && w.idx <= idx)) {
		return
	}
	s.best[sig] = witness{size, idx, detail()}
}

type checker struct {
	r  *vh.Run
	mu sync.Mutex
	st *stats
}

func (c *checker) merge(s *stats) {
	c.mu.Lock()
	defer c.mu.Unlock()
	c.st.evals += s.evals
	c.st.nontriv += s.nontriv
	c.st.counts["dontcare/per-resource: empty-name pattern"] += s.dcOne
	c.st.counts["any_resource_queries_with_matching_deny_and_allow"] += s.anyBoth
	for k, v := range s.dcAny {
		c.st.counts["dontcare/any-resource: "+k] += v
	}
	for k, v := range s.counts {
		c.st.counts[k] += v
	}
	for sig, w := range s.best {
		if o, ok := c.st.best[sig]; !ok || w.size < o.size || (w.size == o.size && w.idx < o.idx) {
			c.st.best[sig] = w
		}
	}
	for _, k := range s.distinct {
		c.r.Distinct(k)
	}
}

func permStr(b bool) string {
	if b {
		return "allowed"
	}
	return "denied"
}

// checkSet compares every query on one ACL set. Returns whether the set is
// non-trivial (a DENY and an ALLOW matched the same query).
func checkSet(s *stats, acls []racl, rtypes []kmsg.ACLResourceType, ops []kmsg.ACLOperation, names []string, size int, idx int64) bool {
	real := make([]kfake.VerifACL, len(acls))
	for i := range acls {
		real[i] = acls[i].real()
	}
	ft := features(acls)
	nontrivial := false
	for _, rtype := range rtypes {
		for _, principal := range qPrincipals {
			for _, host := range qHosts {
				for _, op := range ops {
					for _, name := range names {
						want, sd, sa := judgeOne(acls, ft, principal, host, rtype, name, op)
						got := kfake.VerifACLAllowed(real, principal, host, name, rtype, op)
						if sd && sa {
							nontrivial = true
						}
						if want == vDontCare {
							s.dcOne++
							continue
						}
						s.evals++
						if got != (want == vAllowed) {
							sig := "allowed-real-" + permStr(got) + "-model-" + permStr(want == vAllowed)
							s.violate(sig, size, idx, func() map[string]any {
								return map[string]any{
									"acls": setString(acls), "query": fmt.Sprintf("principal=%s host=%s %s %q %s", principal, host, rtype, name, op),
									"kafka_model": permStr(want == vAllowed), "kfake_allowed()": permStr(got),
								}
							})
						}
					}
					want, why, sd, sa := judgeAny(acls, ft, principal, host, rtype, op)
					got := kfake.VerifACLAnyAllowed(real, principal, host, rtype, op)
					if sd && sa {
						nontrivial = true
					}
					if want == vDontCare {
						s.dcAny[why]++
						continue
					}
					s.evals++
					if sd && sa {
						s.counts["any_resource_queries_with_matching_deny_and_allow"]++
					}
					if got != (want == vAllowed) {
						sig := "anyAllowed-real-" + permStr(got) + "-model-" + permStr(want == vAllowed)
						if got && sd {
							// would the model no longer deny once the DENY entries are taken away? then
							// the only reason for the disagreement is that DENY dominance was not applied
							var onlyAllow []racl
							for _, a := range acls {
								if a.Allow {
									onlyAllow = append(onlyAllow, a)
								}
							}
							if w2, _, _, _ := judgeAny(onlyAllow, features(onlyAllow), principal, host, rtype, op); w2 != vDenied {
								sig = "anyAllowed-ignores-dominating-deny"
							}
						}
						s.violate(sig, size, idx, func() map[string]any {
							return map[string]any{
								"acls": setString(acls), "query": fmt.Sprintf("any resource of type %s: principal=%s host=%s %s", rtype, principal, host, op),
								"kafka_model": permStr(want == vAllowed), "kfake_anyAllowed()": permStr(got),
							}
						})
					}
				}
			}
		}
	}
	if nontrivial {
		s.nontriv++
		if len(s.distinct) < s.distBudge {
			s.distinct = append(s.distinct, fmt.Sprint(size, "/", idx))
		}
	}
	return nontrivial
}

// relevantOps prunes the query operations for big exhaustive sweeps to the
// operations the set mentions or implies plus one unmentioned operation.
func relevantOps(acls []racl) []kmsg.ACLOperation {
	var in [16]bool
	for _, a := range acls {
		if a.Op != opAll {
			in[a.Op] = true
		}
		for _, q := range []kmsg.ACLOperation{opDescribe, opDescribeCfg} {
			if impliedBy(a.Op, q) {
				in[q] = true
			}
		}
	}
	var out []kmsg.ACLOperation
	extra := false
	for _, q := range qOps {
		if in[q] {
			out = append(out, q)
		} else if !extra {
			out = append(out, q)
			extra = true
		}
	}
	return out
}

func namedCases() []struct {
	name string
	acls []racl
} {
	A := func(allow bool, principal, host, name string, prefixed bool, op kmsg.ACLOperation) racl {
		return racl{principal, host, tTopic, name, prefixed, op, allow}
	}
	return []struct {
		name string
		acls []racl
	}{
		{"allow literal foo write + deny literal * write", []racl{A(true, "User:a", "*", "foo", false, opWrite), A(false, "User:a", "*", "*", false, opWrite)}},
		{"allow literal foo write + deny literal foo write", []racl{A(true, "User:a", "*", "foo", false, opWrite), A(false, "User:a", "*", "foo", false, opWrite)}},
		{"allow literal foobar write + deny prefixed fo write", []racl{A(true, "User:a", "*", "foobar", false, opWrite), A(false, "User:*", "*", "fo", true, opWrite)}},
		{"allow prefixed foo write + deny prefixed fo all", []racl{A(true, "User:a", "*", "foo", true, opWrite), A(false, "User:a", "h1", "fo", true, opAll)}},
		{"allow prefixed fo write + deny literal foo write (not dominated)", []racl{A(true, "User:a", "*", "fo", true, opWrite), A(false, "User:a", "*", "foo", false, opWrite)}},
		{"allow prefixed fo write + deny prefixed foo write (not dominated)", []racl{A(true, "User:a", "*", "fo", true, opWrite), A(false, "User:a", "*", "foo", true, opWrite)}},
		{"allow read implies describe, deny read does not deny describe", []racl{A(true, "User:a", "*", "foo", false, opRead), A(false, "User:a", "*", "foo", false, opRead)}},
		{"deny describe beats implied describe", []racl{A(true, "User:a", "*", "foo", false, opWrite), A(false, "User:*", "*", "fo", true, opDescribe)}},
		{"alter configs implies describe configs", []racl{A(true, "User:b", "h1", "*", false, opAlterCfg)}},
	}
}

func TestCheck(t *testing.T) {
	r := vh.Start(t, "C34")
	// the verif hooks rebuild kfake's ACL table on every call; the live heap is
	// tiny, so let the collector run rarely instead of continuously
	gcp := 400
	if v, err := strconv.Atoi(os.Getenv("VERIF_C34_GC")); err == nil {
		gcp = v
	}
	defer debug.SetGCPercent(debug.SetGCPercent(gcp))
	phases := map[string]float64{}
	t0 := time.Now()
	phase := func(name string) {
		phases[name] = time.Since(t0).Seconds()
		t0 = time.Now()
	}
	c := &checker{r: r, st: newStats()}
	workers := runtime.NumCPU()
	topicOnly := []kmsg.ACLResourceType{tTopic}

	// hand-picked sets first, so their witnesses name the replay files
	{
		s := newStats()
		for i, nc := range namedCases() {
			checkSet(s, nc.acls, topicOnly, qOps, qNames, len(nc.acls), int64(-100+i))
		}
		sigs := make([]string, 0, len(s.best))
		for sig := range s.best {
			sigs = append(sigs, sig)
		}
		sort.Strings(sigs)
		for _, sig := range sigs {
			r.Violation(sig, s.best[sig].detail)
		}
		s.best = map[string]witness{}
		c.merge(s)
	}

	U := universe(tTopic)
	n := len(U)
	r.Set("acl_alphabet_size", n)

	// size 0 and 1
	{
		s := newStats()
		checkSet(s, nil, topicOnly, qOps, qNames, 0, 0)
		for i := range U {
			checkSet(s, U[i:i+1], topicOnly, qOps, qNames, 1, int64(i))
		}
		c.merge(s)
		r.Count("sets_size_0_1", n+1)
	}
	// size 2, exhaustive (quick: query operations pruned to the ones the set
	// mentions or implies plus one other; thorough: all ten)
	vh.Parallel(n, workers, func(i int) {
		s := newStats()
		set := make([]racl, 2)
		set[0] = U[i]
		for j := i + 1; j < n; j++ {
			set[1] = U[j]
			ops := qOps
			if r.Quick() {
				ops = relevantOps(set)
			}
			checkSet(s, set, topicOnly, ops, qNames, 2, int64(i)*int64(n)+int64(j))
		}
		c.merge(s)
	})
	r.Count("sets_size_2", n*(n-1)/2)
	phase("size<=2")
	r.Sample(map[string]any{"kind": "size-2 set", "acls": setString([]racl{U[5], U[n/2+7]}), "queries": "2 principals x 2 hosts x 10 operations x (5 names + any-resource)"})

	// size 3: thorough = exhaustive (operations pruned to the relevant
	// ones), quick = seeded sample biased towards interacting entries
	sampleSet := func(rngStream string, k, size int, univ []racl) []racl {
		rng := r.Rand(rngStream, k)
		base := qOps[rng.IntN(len(qOps))]
		set := make([]racl, 0, size)
		for len(set) < size {
			a := univ[rng.IntN(len(univ))]
			switch x := rng.IntN(100); {
			case x < 45:
				a.Op = base
			case x < 60:
				a.Op = opAll
			case x < 70 && base == opDescribe:
				a.Op = []kmsg.ACLOperation{opRead, opWrite, opDelete, opAlter}[rng.IntN(4)]
			case x < 70 && base == opDescribeCfg:
				a.Op = opAlterCfg
			}
			dup := false
			for _, b := range set {
				if b == a {
					dup = true
				}
			}
			if !dup {
				set = append(set, a)
			}
		}
		return set
	}
	if r.Thorough() {
		// exhaustive over a sub-alphabet that keeps one representative of every
		// kind of entry (User:b is User:a renamed; DELETE/ALTER behave like
		// READ/WRITE; CLUSTER_ACTION/IDEMPOTENT_WRITE like CREATE); the full
		// alphabet is sampled below
		var R []racl
		for _, a := range U {
			switch a.Op {
			case opDelete, opAlter, opClusterAct, opIdemWrite:
				continue
			}
			if a.Principal == "User:b" {
				continue
			}
			R = append(R, a)
		}
		m := len(R)
		r.Set("acl_sub_alphabet_size_for_size_3", m)
		vh.Parallel(m, workers, func(i int) {
			s := newStats()
			s.distBudge = 500
			set := make([]racl, 3)
			set[0] = R[i]
			for j := i + 1; j < m; j++ {
				set[1] = R[j]
				for k := j + 1; k < m; k++ {
					set[2] = R[k]
					checkSet(s, set, topicOnly, relevantOps(set), qNames, 3, (int64(i)*int64(m)+int64(j))*int64(m)+int64(k))
				}
			}
			c.merge(s)
		})
		r.Count("sets_size_3_exhaustive_sub_alphabet", m*(m-1)*(m-2)/6)
		const chunk = 1000
		n3 := 1_000_000
		vh.Parallel(n3/chunk, workers, func(ci int) {
			s := newStats()
			s.distBudge = 200
			for k := ci * chunk; k < (ci+1)*chunk; k++ {
				checkSet(s, sampleSet("size3", k, 3, U), topicOnly, qOps, qNames, 3, -int64(k)-1)
			}
			c.merge(s)
		})
		r.Count("sets_size_3_sampled", n3)
	} else {
		const chunk = 1000
		n3 := 100_000
		vh.Parallel(n3/chunk, workers, func(ci int) {
			s := newStats()
			for k := ci * chunk; k < (ci+1)*chunk; k++ {
				checkSet(s, sampleSet("size3", k, 3, U), topicOnly, qOps, qNames, 3, int64(k))
			}
			c.merge(s)
		})
		r.Count("sets_size_3_sampled", n3)
	}
	phase("size3")
	// size 4 (thorough) sample
	if r.Thorough() {
		const chunk = 1000
		n4 := 1_000_000
		vh.Parallel(n4/chunk, workers, func(ci int) {
			s := newStats()
			s.distBudge = 200
			for k := ci * chunk; k < (ci+1)*chunk; k++ {
				checkSet(s, sampleSet("size4", k, 4, U), topicOnly, qOps, qNames, 4, int64(k))
			}
			c.merge(s)
		})
		r.Count("sets_size_4_sampled", n4)
	}
	// mixed resource types: entries of another type must never influence a query
	{
		var UM []racl
		for _, rt := range []kmsg.ACLResourceType{tTopic, tGroup, tTxnID, tCluster} {
			UM = append(UM, universe(rt)...)
		}
		all := []kmsg.ACLResourceType{tTopic, tGroup, tTxnID, tCluster}
		const chunk = 500
		nm := r.Pick(40_000, 1_000_000)
		vh.Parallel(nm/chunk, workers, func(ci int) {
			s := newStats()
			s.distBudge = 100
			for k := ci * chunk; k < (ci+1)*chunk; k++ {
				set := sampleSet("mixed", k, 2+k%2, UM)
				checkSet(s, set, all, relevantOps(set), qNames, 10+len(set), int64(k))
			}
			c.merge(s)
		})
		r.Count("sets_mixed_types_sampled", nm)
	}

	phase("size4+mixed")
	// superusers are decided before the ACL table is consulted (observed end to end)
	checkE2E(t, r)
	phase("e2e")
	r.Set("phase_seconds", phases)

	// report
	st := c.st
	r.Eval(int(st.evals))
	r.Count("nontrivial_sets", int(st.nontriv))
	keys := make([]string, 0, len(st.counts))
	for k := range st.counts {
		keys = append(keys, k)
	}
	sort.Strings(keys)
	for _, k := range keys {
		r.Count(k, int(st.counts[k]))
	}
	sigs := make([]string, 0, len(st.best))
	for sig := range st.best {
		sigs = append(sigs, sig)
	}
	sort.Strings(sigs)
	for _, sig := range sigs {
		r.Violation(sig, st.best[sig].detail)
	}
	r.Set("exhaustive", false)
	r.Set("exhaustive_subdomains", map[string]bool{
		"all ACL sets of size <= 1 over the topic alphabet x all queries":                                                                                                               true,
		"all ACL sets of size 2 over the topic alphabet x all queries":                                                                                                                  r.Thorough(),
		"all ACL sets of size 2 over the topic alphabet x queries with operations pruned to relevant ones":                                                                              true,
		"all ACL sets of size 3 over the 392-entry sub-alphabet (no User:b, no DELETE/ALTER/CLUSTER_ACTION/IDEMPOTENT_WRITE entries) x queries with operations pruned to relevant ones": r.Thorough(),
	})
	r.Finish("exploration",
		"ACL alphabet (topic): principals {User:a,User:b,User:*} x hosts {h1,*} x names {literal foo,foobar,bar,*; prefixed fo,foo,\"\"} x operations {ALL,READ..IDEMPOTENT_WRITE} x {ALLOW,DENY} = 924 entries. Every set of size 0,1,2; thorough: also every set of size 3 over a 392-entry sub-alphabet (entries of User:b and with DELETE/ALTER/CLUSTER_ACTION/IDEMPOTENT_WRITE left out as renamings of kept ones); for size 2 in the quick tier and size 3 in the thorough tier the query operations are pruned to those the set mentions/implies plus one other and seeded samples of size 3 (thorough: 4) and of mixed resource types; per set every query (principal in {User:a,User:b}) x (host in {h1,h2}) x 10 operations x (names foo,foobar,bar,fo,baz + the any-resource check). One evaluation = one judged query (don't-care queries are counted separately, not judged). A set is non-trivial when at least one DENY and one ALLOW entry match the same query; distinct by the canonical set (size/index). End to end: ACL sets created through CreateACLs on a SASL/PLAIN kfake cluster, decisions observed through Metadata authorized-operations bitfields, Produce, Fetch and InitProducerID for two users and a superuser",
		"the reference model (model_test.go) is written from Kafka's StandardAuthorizer / Authorizer.authorizeByResourceType semantics and is trusted",
		"don't-care (generated, not judged): any query whose answer changes when entries with an empty resource name are removed (Kafka refuses to store them); any-resource queries whose answer depends on implied operations, on whether DENY PREFIXED \"\" dominates, or on ALLOW LITERAL * in the presence of a specific (non-*) DENY",
		"dominance as in the statement/Kafka: DENY LITERAL * dominates all; DENY PREFIXED p dominates ALLOW LITERAL/PREFIXED names starting with p; DENY LITERAL l dominates only ALLOW LITERAL l",
	)
}
